/-
  C12 [T2]: the polynomials of the CODED three-term recurrence (`legPoly n`, see Legendre.lean) satisfy
  Legendre's differential equation, have degree exactly `n`, and are orthogonal — w.r.t. the algebraic
  integral over `[-1,1]` — to every polynomial of lower degree, for ALL `n`.
  Proof: `M f := ((x²−1) f')'` is symmetric for the integral (integration by parts, the boundary terms
  vanish), `M P_n = n(n+1) P_n`, `M x^k = k(k+1) x^k − k(k−1) x^(k−2)`; strong induction on `k < n`.
-/
import LpProofs.C12.Legendre
import LpProofs.C12.Integ
import Mathlib.Algebra.Polynomial.Degree.Lemmas
import Mathlib.Algebra.Polynomial.FieldDivision
import Mathlib.Data.Rat.Cast.CharZero
namespace Lp.C12
open Polynomial

/-! ### Legendre's differential equation for the coded recurrence -/

/-- **legendre_ode**: `((x²−1) P_n')' = n(n+1) P_n` for the polynomials of the coded recurrence -/
theorem legendre_ode (n : ℕ) :
    derivative ((X * X - 1) * derivative (legPoly n)) = C ((n : ℚ) * ((n : ℚ) + 1)) * legPoly n := by
  obtain ⟨I3, I5⟩ := legPoly_identities n
  unfold legPoly
  rw [I5]
  simp only [derivative_mul, derivative_sub, derivative_C, derivative_X, zero_mul, zero_add, one_mul]
  rw [C_mul, C_add, C_1]
  linear_combination C (n : ℚ) * I3

/-! ### the operator `f ↦ ((x²−1) f')'` is symmetric -/

variable {K : Type} [Field K] [CharZero K]

theorem integ_M_eq (f g : K[X]) :
    integ (derivative ((X * X - 1) * derivative f) * g)
      = - integ ((X * X - 1) * derivative f * derivative g) := by
  have h := integ_by_parts ((X * X - 1) * derivative f) g
  simp only [eval_mul, eval_sub, eval_X, eval_one] at h
  linear_combination h

/-- **M_symmetric**: `∫ (M f) g = ∫ f (M g)` with `M f = ((x²−1) f')'` -/
theorem M_symmetric (f g : K[X]) :
    integ (derivative ((X * X - 1) * derivative f) * g)
      = integ (f * derivative ((X * X - 1) * derivative g)) := by
  rw [integ_M_eq f g, mul_comm f, integ_M_eq g f]
  congr 2
  ring

omit [CharZero K] in
theorem M_X_pow (j : ℕ) :
    derivative ((X * X - 1) * derivative ((X : K[X]) ^ (j + 2)))
      = C (((j + 2 : ℕ) : K) * ((j + 3 : ℕ) : K)) * X ^ (j + 2)
        - C (((j + 2 : ℕ) : K) * ((j + 1 : ℕ) : K)) * X ^ j := by
  have e : (X * X - 1) * derivative ((X : K[X]) ^ (j + 2))
      = C ((j + 2 : ℕ) : K) * (X ^ (j + 3) - X ^ (j + 1)) := by
    rw [derivative_X_pow, Nat.add_succ_sub_one]
    ring
  rw [e, derivative_C_mul, derivative_sub, derivative_X_pow, derivative_X_pow, Nat.add_succ_sub_one,
    Nat.add_sub_cancel, C_mul, C_mul]
  ring

/-! ### orthogonality to lower monomials -/

/-- **legendre_orthogonal_monomial**: `∫ P_n x^k = 0` for every `k < n`, all `n` (over ℚ) -/
theorem legendre_orthogonal_monomial (n : ℕ) : ∀ k, k < n → integ (legPoly n * X ^ k) = 0 := by
  intro k
  induction k using Nat.strong_induction_on with
  | _ k ih =>
    intro hk
    have hsym := M_symmetric (legPoly n) ((X : ℚ[X]) ^ k)
    rw [legendre_ode, mul_assoc, integ_C_mul] at hsym
    have hn : (0 : ℚ) < n := by exact_mod_cast (by omega : 0 < n)
    match k, ih, hk, hsym with
    | 0, _, _, hsym =>
      rw [pow_zero, derivative_one, mul_zero, derivative_zero, mul_zero, map_zero] at hsym
      have : (n : ℚ) * ((n : ℚ) + 1) ≠ 0 := by positivity
      exact (mul_eq_zero.mp hsym).resolve_left this
    | 1, _, hk, hsym =>
      have hM : derivative ((X * X - 1) * derivative ((X : ℚ[X]) ^ 1)) = C 2 * X ^ 1 := by
        rw [pow_one, derivative_X, mul_one, derivative_sub, derivative_mul, derivative_one, sub_zero,
          derivative_X, show (C (2 : ℚ) : ℚ[X]) = 2 from rfl]
        ring
      rw [hM, integ_mul_C_mul] at hsym
      have h2 : (2 : ℚ) ≤ n := by exact_mod_cast hk
      have : (n : ℚ) * ((n : ℚ) + 1) - 2 ≠ 0 := by nlinarith
      have e : ((n : ℚ) * ((n : ℚ) + 1) - 2) * integ (legPoly n * X ^ 1) = 0 := by linear_combination hsym
      exact (mul_eq_zero.mp e).resolve_left this
    | j + 2, ih, hk, hsym =>
      have h0 : integ (legPoly n * X ^ j) = 0 := ih j (by omega) (by omega)
      rw [M_X_pow, mul_sub, map_sub, integ_mul_C_mul, integ_mul_C_mul, h0, mul_zero, sub_zero] at hsym
      push_cast at hsym
      have h2 : (j : ℚ) + 3 ≤ n := by exact_mod_cast hk
      have hj : (0 : ℚ) ≤ j := by positivity
      have : (n : ℚ) * ((n : ℚ) + 1) - ((j : ℚ) + 2) * ((j : ℚ) + 3) ≠ 0 := by nlinarith
      have e : ((n : ℚ) * ((n : ℚ) + 1) - ((j : ℚ) + 2) * ((j : ℚ) + 3)) * integ (legPoly n * X ^ (j + 2)) = 0 := by
        linear_combination hsym
      exact (mul_eq_zero.mp e).resolve_left this

/-- **legendre_orthogonal** (ℚ): `∫ P_n q = 0` for every polynomial `q` of degree `< n`, all `n` -/
theorem legendre_orthogonal (n : ℕ) (q : ℚ[X]) (hq : q.natDegree < n) : integ (legPoly n * q) = 0 := by
  conv_lhs => rw [q.as_sum_range_C_mul_X_pow' hq]
  rw [Finset.mul_sum, map_sum]
  refine Finset.sum_eq_zero (fun k hk => ?_)
  rw [integ_mul_C_mul, legendre_orthogonal_monomial n k (Finset.mem_range.mp hk), mul_zero]

/-- non-vacuity: `∫ P_2 · (7 + 5x) = 0` is an instance (degree 1 < 2) -/
example : (C 7 + C 5 * X : ℚ[X]).natDegree < 2 := by
  have : (C 7 + C 5 * X : ℚ[X]).natDegree ≤ 1 := by
    refine (natDegree_add_le _ _).trans (max_le (by simp) ?_)
    exact (natDegree_C_mul_le _ _).trans (by simp)
  omega

/-! ### degree -/

theorem legPolyPair_degree (n : ℕ) :
    (legPolyPair n).1.degree = n ∧ (legPolyPair n).2.degree < n := by
  induction n with
  | zero => simp [legPolyPair]
  | succ n ih =>
    obtain ⟨h1, h2⟩ := ih
    refine ⟨?_, ?_⟩
    · have pos : (n : ℚ) + 1 ≠ 0 := by positivity
      have pos2 : 2 * (n : ℚ) + 1 ≠ 0 := by positivity
      have hd : (1 / ((n : ℚ) + 1)) ≠ 0 := one_div_ne_zero pos
      have eA : ((2 * C (n : ℚ) + 1) * X * (legPolyPair n).1 : ℚ[X])
          = C (2 * (n : ℚ) + 1) * (X * (legPolyPair n).1) := by
        rw [C_add, C_mul, C_1, show (C (2 : ℚ) : ℚ[X]) = 2 from rfl]; ring
      have dA : ((2 * C (n : ℚ) + 1) * X * (legPolyPair n).1 : ℚ[X]).degree = ((n + 1 : ℕ) : WithBot ℕ) := by
        rw [eA, degree_C_mul pos2, degree_mul, degree_X, h1]
        push_cast; ring
      have dB : (C (n : ℚ) * (legPolyPair n).2).degree < ((n + 1 : ℕ) : WithBot ℕ) := by
        rw [← smul_eq_C_mul]
        refine lt_of_le_of_lt (degree_smul_le _ _) (lt_trans h2 ?_)
        exact_mod_cast Nat.lt_succ_self n
      show (C (1 / ((n : ℚ) + 1)) * ((2 * C (n : ℚ) + 1) * X * (legPolyPair n).1 - C (n : ℚ) * (legPolyPair n).2)).degree = _
      rw [degree_C_mul hd, degree_sub_eq_left_of_degree_lt (by rw [dA]; exact dB), dA]
    · show (legPolyPair n).1.degree < _
      rw [h1]; exact_mod_cast Nat.lt_succ_self n

/-- **legPoly_natDegree**: the `n`-th polynomial of the coded recurrence has degree exactly `n` -/
theorem legPoly_natDegree (n : ℕ) : (legPoly n).natDegree = n :=
  natDegree_eq_of_degree_eq_some (legPolyPair_degree n).1

theorem legPoly_ne_zero (n : ℕ) : legPoly n ≠ 0 := by
  intro h
  have := (legPolyPair_degree n).1
  unfold legPoly at h
  rw [h, degree_zero] at this
  exact absurd this (by simp)

/-! ### the same over any field of characteristic zero (so that true roots are available, e.g. in ℝ) -/

/-- the coded Legendre polynomial with coefficients mapped into `K` -/
noncomputable def legPolyK (K : Type) [Field K] [CharZero K] (n : ℕ) : K[X] :=
  (legPoly n).map (Rat.castHom K)

theorem legPolyK_natDegree (n : ℕ) : (legPolyK K n).natDegree = n := by
  unfold legPolyK
  rw [natDegree_map, legPoly_natDegree]

/-- **legendre_orthogonal_K**: over any field `K ⊇ ℚ`, `∫ P_n q = 0` for every `q ∈ K[X]` of degree `< n` -/
theorem legendre_orthogonal_K (n : ℕ) (q : K[X]) (hq : q.natDegree < n) : integ (legPolyK K n * q) = 0 := by
  conv_lhs => rw [q.as_sum_range_C_mul_X_pow' hq]
  rw [Finset.mul_sum, map_sum]
  refine Finset.sum_eq_zero (fun k hk => ?_)
  have e : legPolyK K n * X ^ k = (legPoly n * X ^ k).map (Rat.castHom K) := by
    unfold legPolyK; rw [Polynomial.map_mul, Polynomial.map_pow, map_X]
  rw [integ_mul_C_mul, e, integ_map, legendre_orthogonal_monomial n k (Finset.mem_range.mp hk), map_zero,
    mul_zero]

end Lp.C12
