/-
  C12 [T2]: Christoffel–Darboux for the coded recurrence and its consequence: at a root `z` of `P_n`
  every rule that is exact on degree `< n` has the weight the C++ writes, `2/((1−z²) P_n'(z)²)`;
  and the full Gauss–Legendre theorem for all `n`: nodes at the `n` roots of the coded `P_n` with the
  coded weights integrate every polynomial of degree `≤ 2n−1` exactly.  Over any field of
  characteristic zero (the true roots are irrational for `n ≥ 2`).
-/
import LpProofs.C12.Orthogonal
import LpProofs.C12.Exact
namespace Lp.C12
open Polynomial

variable {K : Type} [Field K] [CharZero K]

/-- `P_{n-1}` of the coded recurrence (second component of the pair), coefficients mapped into `K` -/
noncomputable def legPrevK (K : Type) [Field K] [CharZero K] (n : ℕ) : K[X] :=
  (legPolyPair n).2.map (Rat.castHom K)

theorem legPrevK_succ (n : ℕ) : legPrevK K (n + 1) = legPolyK K n := rfl

theorem castHom_natCast (n : ℕ) : (Rat.castHom K) (n : ℚ) = (n : K) := by simp

/-- the coded recurrence over `K`: `(n+1) P_{n+1} = (2n+1) x P_n − n P_{n−1}` -/
theorem legPolyK_succ (n : ℕ) :
    (C (n : K) + 1) * legPolyK K (n + 1)
      = (2 * C (n : K) + 1) * X * legPolyK K n - C (n : K) * legPrevK K n := by
  have pos : (n : K) + 1 ≠ 0 := by
    have : ((n + 1 : ℕ) : K) ≠ 0 := Nat.cast_ne_zero.mpr (Nat.succ_ne_zero n)
    simpa using this
  have e : legPolyK K (n + 1)
      = C (1 / ((n : K) + 1)) * ((2 * C (n : K) + 1) * X * legPolyK K n - C (n : K) * legPrevK K n) := by
    unfold legPolyK legPrevK legPoly
    simp only [legPolyPair, Polynomial.map_mul, Polynomial.map_sub, Polynomial.map_add, map_C, map_X,
      Polynomial.map_one, Polynomial.map_ofNat, map_div₀, map_one, map_add, castHom_natCast]
  rw [e, ← mul_assoc, show (C (n : K) + 1 : K[X]) = C ((n : K) + 1) by rw [C_add, C_1], ← C_mul,
    mul_one_div_cancel pos, C_1, one_mul]

/-- the derivative identity `(x²−1) P_n' = n (x P_n − P_{n−1})` over `K` -/
theorem legPolyK_deriv (n : ℕ) :
    (X * X - 1) * derivative (legPolyK K n) = C (n : K) * (X * legPolyK K n - legPrevK K n) := by
  have h := congrArg (Polynomial.map (Rat.castHom K)) (legPoly_identities n).2
  simp only [Polynomial.map_mul, Polynomial.map_sub, map_X, Polynomial.map_one, map_C, castHom_natCast,
    ← derivative_map] at h
  exact h

/-- the Christoffel–Darboux kernel `Σ_{k<n} (2k+1) P_k(z) P_k` -/
noncomputable def cdKernel (z : K) (n : ℕ) : K[X] :=
  ∑ k ∈ Finset.range n, C ((2 * (k : K) + 1) * (legPolyK K k).eval z) * legPolyK K k

/-- **christoffel_darboux** for the coded recurrence, as an identity of polynomials for every `z`:
    `(x − z) Σ_{k<n} (2k+1) P_k(z) P_k(x) = n (P_{n−1}(z) P_n(x) − P_n(z) P_{n−1}(x))` -/
theorem christoffel_darboux (z : K) (n : ℕ) :
    (X - C z) * cdKernel z n
      = C (n : K) * (C ((legPrevK K n).eval z) * legPolyK K n - C ((legPolyK K n).eval z) * legPrevK K n) := by
  induction n with
  | zero => simp [cdKernel]
  | succ n ih =>
    have hrec := legPolyK_succ (K := K) n
    have hval := congrArg (fun p => C (Polynomial.eval z p)) hrec
    simp only [eval_mul, eval_sub, eval_add, eval_one, eval_ofNat, eval_C, eval_X, C_mul, C_sub, C_add, C_1,
      C_ofNat] at hval
    unfold cdKernel at ih ⊢
    rw [Finset.sum_range_succ, mul_add, ih, legPrevK_succ]
    push_cast
    simp only [C_mul, C_add, C_1, C_ofNat]
    linear_combination (-C ((legPolyK K n).eval z)) * hrec + legPolyK K n * hval

/-- the integral of the kernel is `2` (only `k = 0` survives, by orthogonality to constants) -/
theorem integ_cdKernel (z : K) (n : ℕ) (hn : 0 < n) : integ (cdKernel z n) = 2 := by
  unfold cdKernel
  rw [map_sum, Finset.sum_eq_single 0]
  · rw [integ_C_mul]
    have e : legPolyK K 0 = 1 := by simp [legPolyK, legPoly, legPolyPair]
    rw [e, integ_one]; simp
  · intro k _ hk
    rw [integ_C_mul]
    have := legendre_orthogonal_K (K := K) k 1 (by rw [natDegree_one]; omega)
    rw [mul_one] at this
    rw [this, mul_zero]
  · intro h; exact absurd (Finset.mem_range.mpr hn) h

/-- at a root `z` of `P_n`: `(1−z²) P_n'(z) · ∫ P_n/(x−z) = 2`, and `(P_n/(x−z))(z) = P_n'(z)` -/
theorem root_quotient (n : ℕ) (hn : 0 < n) (z : K) (hz : (legPolyK K n).eval z = 0) :
    (1 - z * z) * (derivative (legPolyK K n)).eval z * integ (legPolyK K n /ₘ (X - C z)) = 2 ∧
    (legPolyK K n /ₘ (X - C z)).eval z = (derivative (legPolyK K n)).eval z := by
  have hfac : (X - C z) * (legPolyK K n /ₘ (X - C z)) = legPolyK K n :=
    mul_divByMonic_eq_iff_isRoot.mpr hz
  have hcd := christoffel_darboux z n
  rw [hz, C_0, zero_mul, sub_zero] at hcd
  have hd := congrArg (Polynomial.eval z) (legPolyK_deriv (K := K) n)
  simp only [eval_mul, eval_sub, eval_X, eval_one, eval_C, hz, mul_zero, zero_sub] at hd
  -- cancel (X - C z)
  have hker : cdKernel z n = C ((n : K) * (legPrevK K n).eval z) * (legPolyK K n /ₘ (X - C z)) := by
    have hne : (X - C z : K[X]) ≠ 0 := X_sub_C_ne_zero z
    apply mul_left_cancel₀ hne
    rw [hcd, C_mul]
    conv_lhs => rw [← hfac]
    ring
  have hint := integ_cdKernel z n hn
  rw [hker, integ_C_mul] at hint
  constructor
  · rw [← hint]
    linear_combination (-integ (legPolyK K n /ₘ (X - C z))) * hd
  · have h2 := congrArg (fun p => Polynomial.eval z (derivative p)) hfac
    simp only [derivative_mul, derivative_sub, derivative_X, derivative_C, sub_zero, one_mul, eval_add,
      eval_mul, eval_sub, eval_X, eval_C, sub_self, zero_mul, add_zero] at h2
    exact h2

/-- **gl_weight_formula** (all `n ≥ 1`): if a rule with nodes among the roots of the coded `P_n` is exact on
    every polynomial of degree `< n` (i.e. has the interpolatory weights), then its weight at a node `z` is
    the one the C++ writes: `w(z) = 2 / ((1 − z²) · P_n'(z)²)` — and the denominator is not zero. -/
theorem gl_weight_formula (n : ℕ) (hn : 0 < n) (s : Finset K) (w : K → K)
    (hroot : ∀ x ∈ s, (legPolyK K n).eval x = 0)
    (hint : ∀ r : K[X], r.natDegree < n → quad s w r = integ r)
    (z : K) (hz : z ∈ s) :
    (1 - z * z) * (derivative (legPolyK K n)).eval z * (derivative (legPolyK K n)).eval z ≠ 0 ∧
    w z = 2 / ((1 - z * z) * (derivative (legPolyK K n)).eval z * (derivative (legPolyK K n)).eval z) := by
  obtain ⟨h1, h2⟩ := root_quotient n hn z (hroot z hz)
  have hfac : (X - C z) * (legPolyK K n /ₘ (X - C z)) = legPolyK K n :=
    mul_divByMonic_eq_iff_isRoot.mpr (hroot z hz)
  have hdeg : (legPolyK K n /ₘ (X - C z)).natDegree < n := by
    rw [natDegree_divByMonic _ (monic_X_sub_C z), natDegree_X_sub_C, legPolyK_natDegree]; omega
  have hq := hint _ hdeg
  have hsum : quad s w (legPolyK K n /ₘ (X - C z)) = w z * (derivative (legPolyK K n)).eval z := by
    unfold quad
    rw [Finset.sum_eq_single z, h2]
    · intro x hx hxz
      have h0 := congrArg (Polynomial.eval x) hfac
      rw [eval_mul, hroot x hx, eval_sub, eval_X, eval_C] at h0
      have : x - z ≠ 0 := sub_ne_zero.mpr hxz
      rw [(mul_eq_zero.mp h0).resolve_left this, mul_zero]
    · intro h; exact absurd hz h
  rw [hsum] at hq
  have key : (1 - z * z) * (derivative (legPolyK K n)).eval z * (derivative (legPolyK K n)).eval z * w z = 2 := by
    rw [← h1, ← hq]; ring
  have hne : (1 - z * z) * (derivative (legPolyK K n)).eval z * (derivative (legPolyK K n)).eval z ≠ 0 := by
    intro h0; rw [h0, zero_mul] at key; exact two_ne_zero key.symm
  exact ⟨hne, by rw [eq_div_iff hne, mul_comm]; exact key⟩

/-! ### the quantity `pp` of the C++ over `K`, and the full theorem -/

/-- `pp = n (z P_n(z) − P_{n−1}(z)) / (z z − 1)` as the C++ computes it, over `K` -/
noncomputable def ppK (n : ℕ) (z : K) : K :=
  (n : K) * (z * (legPolyK K n).eval z - (legPrevK K n).eval z) / (z * z - 1)

/-- the weight written by the C++ on `[-1,1]` (`h = 1`): `2 / ((1 − z²) pp²)` -/
noncomputable def codedWeight (n : ℕ) (z : K) : K := 2 / ((1 - z * z) * ppK n z * ppK n z)

theorem ppK_eq_deriv (n : ℕ) (z : K) (hz : z * z - 1 ≠ 0) : ppK n z = (derivative (legPolyK K n)).eval z := by
  have hd := congrArg (Polynomial.eval z) (legPolyK_deriv (K := K) n)
  simp only [eval_mul, eval_sub, eval_X, eval_one, eval_C] at hd
  unfold ppK
  rw [← hd]
  exact mul_div_cancel_left₀ _ hz

variable [DecidableEq K]

/-- **gl_exact_legendre** (Gauss–Legendre exactness, ALL `n`): let `s` consist of `n` distinct roots of the
    polynomial `P_n` of the coded recurrence, in any field of characteristic zero.  Then the rule with
    nodes `s` and the CODED weights `2/((1−z²) pp(z)²)`, `pp(z) = n (z P_n(z) − P_{n−1}(z))/(z²−1)`,
    integrates every polynomial of degree `≤ 2n−1` exactly over `[-1,1]`. -/
theorem gl_exact_legendre (n : ℕ) (s : Finset K) (hcard : s.card = n)
    (hroot : ∀ x ∈ s, (legPolyK K n).eval x = 0) :
    ∀ p : K[X], p.natDegree < 2 * n → quad s (codedWeight n) p = integ p := by
  intro p hp
  have hn : 0 < n := by omega
  have hint : ∀ r : K[X], r.natDegree < n → quad s (interpWeight s) r = integ r := by
    intro r hr
    apply interp_weights_exact
    rw [hcard]
    by_cases h0 : r = 0
    · rw [h0, degree_zero]; exact WithBot.bot_lt_coe _
    · rw [degree_eq_natDegree h0]; exact_mod_cast hr
  have hw : ∀ x ∈ s, codedWeight n x = interpWeight s x := by
    intro x hx
    obtain ⟨hne, hwx⟩ := gl_weight_formula n hn s (interpWeight s) hroot hint x hx
    have hx1 : x * x - 1 ≠ 0 := by
      intro h0
      apply hne
      rw [show (1 : K) - x * x = -(x * x - 1) by ring, h0]; ring
    unfold codedWeight
    rw [ppK_eq_deriv n x hx1, hwx]
  have e : quad s (codedWeight n) p = quad s (interpWeight s) p := by
    unfold quad
    exact Finset.sum_congr rfl (fun x hx => by rw [hw x hx])
  rw [e]
  refine gl_exact_of_orthogonality n s (interpWeight s) (legPolyK K n) (legPolyK_natDegree n) hroot
    (legendre_orthogonal_K n) hint p hp

/-- non-vacuity over ℚ (n = 1): the only root of `P_1 = x` is `0` -/
example : ∀ x ∈ ({0} : Finset ℚ), (legPolyK ℚ 1).eval x = 0 := by
  intro x hx
  rw [Finset.mem_singleton.mp hx]
  simp [legPolyK, legPoly, legPolyPair]

end Lp.C12
