/-
  Helper lemmas for C12: closed form of the mirrored-assignment loop, sums as `List.sum`.
-/
import LpModel.C12
import Mathlib.Tactic.Ring
import Mathlib.Tactic.Linarith
import Mathlib.Tactic.FieldSimp
namespace Lp.C12

/-- net effect of the four assignments of pass `i` -/
theorem assignStep_eval (n : Nat) (xmin xmax : Rat) (z pp : Nat → Rat) (s : Nat → Rat × Rat) (i k : Nat) :
    assignStep n xmin xmax z pp s i k =
      if k = n - i - 1 then
        (xMiddle xmin xmax + xHalfWidth xmin xmax * z i, weightOf (xHalfWidth xmin xmax) (z i) (pp i))
      else if k = i then
        (xMiddle xmin xmax - xHalfWidth xmin xmax * z i, weightOf (xHalfWidth xmin xmax) (z i) (pp i))
      else s k := by
  unfold assignStep upd
  by_cases h1 : k = n - i - 1
  · subst h1
    by_cases h2 : n - i - 1 = i
    · simp [h2]
    · have h3 : ¬ (i = n - i - 1) := fun h => h2 h.symm
      simp [h2, h3]
  · by_cases h2 : k = i
    · subst h2
      simp [h1]
    · simp [h1, h2]

/-- root index feeding table entry `k` -/
def rootIdx (n k : Nat) : Nat := if n - 1 - k < half n then n - 1 - k else k

/-- closed form of the table after `t ≤ (n+1)/2` passes -/
theorem assignLoop_closed (n : Nat) (xmin xmax : Rat) (z pp : Nat → Rat) :
    ∀ t, t ≤ half n → ∀ k, k < n →
      assignLoop n xmin xmax z pp t k =
        if n - 1 - k < t then
          (xMiddle xmin xmax + xHalfWidth xmin xmax * z (n - 1 - k),
            weightOf (xHalfWidth xmin xmax) (z (n - 1 - k)) (pp (n - 1 - k)))
        else if k < t then
          (xMiddle xmin xmax - xHalfWidth xmin xmax * z k, weightOf (xHalfWidth xmin xmax) (z k) (pp k))
        else (0, 0) := by
  intro t
  induction t with
  | zero => intro _ k _; simp [assignLoop]
  | succ t ih =>
    intro ht k hk
    have ht' : t ≤ half n := Nat.le_of_succ_le ht
    unfold half at ht ht'
    rw [assignLoop, assignStep_eval]
    by_cases h1 : k = n - t - 1
    · have e : n - 1 - k = t := by omega
      have c : n - 1 - k < t + 1 := by omega
      simp [h1, e] at *
      have e2 : n - 1 - (n - t - 1) = t := by omega
      have c2 : n - 1 - (n - t - 1) < t + 1 := by omega
      simp [e2]
    · by_cases h2 : k = t
      · have c : ¬ (n - 1 - k < t + 1) := by omega
        have c3 : k < t + 1 := by omega
        simp only [if_neg h1, if_pos h2, if_neg c, if_pos c3]
        subst h2; rfl
      · rw [if_neg h1, if_neg h2, ih (by unfold half; exact ht') k hk]
        have e1 : (n - 1 - k < t + 1) ↔ (n - 1 - k < t) := by omega
        have e2 : (k < t + 1) ↔ (k < t) := by omega
        simp only [e1, e2]

theorem half_cover (n k : Nat) (hk : k < n) : n - 1 - k < half n ∨ k < half n := by
  unfold half; omega

/-- closed form of the final table: entry `k` is built from root `rootIdx n k` -/
theorem glTable_closed (n : Nat) (xmin xmax : Rat) (z pp : Nat → Rat) (k : Nat) (hk : k < n) :
    glTable n xmin xmax z pp k =
      ((if n - 1 - k < half n then xMiddle xmin xmax + xHalfWidth xmin xmax * z (n - 1 - k)
        else xMiddle xmin xmax - xHalfWidth xmin xmax * z k),
       weightOf (xHalfWidth xmin xmax) (z (rootIdx n k)) (pp (rootIdx n k))) := by
  unfold glTable
  rw [assignLoop_closed n xmin xmax z pp (half n) (Nat.le_refl _) k hk]
  unfold rootIdx
  by_cases h : n - 1 - k < half n
  · simp [h]
  · have h2 : k < half n := by
      rcases half_cover n k hk with h' | h'
      · exact absurd h' h
      · exact h'
    simp [h, h2]

theorem rootIdx_mirror (n k : Nat) (hk : k < n) : rootIdx n (n - 1 - k) = rootIdx n k := by
  unfold rootIdx half
  have e : n - 1 - (n - 1 - k) = k := by omega
  rw [e]
  by_cases h1 : k < (n + 1) / 2 <;> by_cases h2 : n - 1 - k < (n + 1) / 2 <;> simp [h1, h2] <;> omega

/-! ### folds as sums -/

theorem foldl_add_eq_sum (g : Nat → Rat) (l : List Nat) (a : Rat) :
    l.foldl (fun acc k => acc + g k) a = a + (l.map g).sum := by
  induction l generalizing a with
  | nil => simp
  | cons x xs ih => simp [List.foldl, ih, add_assoc]

theorem sum_map_congr (g g' : Nat → Rat) (l : List Nat) (h : ∀ k ∈ l, g k = g' k) :
    (l.map g).sum = (l.map g').sum := by
  rw [List.map_congr_left h]

theorem sum_map_mul_left (c : Rat) (g : Nat → Rat) (l : List Nat) :
    (l.map (fun k => c * g k)).sum = c * (l.map g).sum := by
  induction l with
  | nil => simp
  | cons x xs ih => simp [ih, mul_add]

end Lp.C12
