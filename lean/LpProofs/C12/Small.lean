/-
  C12 [T2]: instances of `gl_exact_legendre` in closed form.  In any field of characteristic zero that
  contains a root `r` of `3 r² = 1` (resp. `5 r² = 3`) the two-point rule `{∓r}` with weights `1, 1`
  (resp. the three-point rule `{−r, 0, r}` with weights `5/9, 8/9, 5/9`) — which are the CODED weights
  at those nodes — is exact to degree 3 (resp. 5).  ℚ contains no such `r`; ℝ does (RealGL.lean).
  Also: over `K = ℚ` the quantities `ppK`, `codedWeight` are the model's `legendreDeriv`, `weightOf 1`.
-/
import LpProofs.C12.Weights
namespace Lp.C12
open Polynomial

variable {K : Type} [Field K] [CharZero K]

theorem legPolyK_one_eval (x : K) : (legPolyK K 1).eval x = x := by
  simp [legPolyK, legPoly, legPolyPair]

theorem legPolyK_two_eval (x : K) : (legPolyK K 2).eval x = (3 * x * x - 1) / 2 := by
  simp [legPolyK, legPoly, legPolyPair]
  ring

theorem legPolyK_three_eval (x : K) : (legPolyK K 3).eval x = (5 * x * x * x - 3 * x) / 2 := by
  simp [legPolyK, legPoly, legPolyPair]
  ring

/-- the coded weight at a root of `P_2` is `1` -/
theorem codedWeight_two (x : K) (h : 3 * x * x = 1) : codedWeight 2 x = 1 := by
  have hx2 : x * x = 1 / 3 := by
    rw [eq_div_iff (by norm_num : (3 : K) ≠ 0)]; linear_combination h
  unfold codedWeight ppK
  rw [legPrevK_succ, legPolyK_two_eval, legPolyK_one_eval, h, hx2]
  have e : (1 : K) / 3 - 1 = -(2 / 3) := by norm_num
  rw [e]
  have e2 : (1 - 1 / 3) * (((2 : ℕ) : K) * (x * ((1 - 1) / 2) - x) / -(2 / 3))
      * (((2 : ℕ) : K) * (x * ((1 - 1) / 2) - x) / -(2 / 3)) = 6 * (x * x) := by
    push_cast; ring
  rw [e2, hx2]; norm_num

/-- the coded weight at the root `0` of `P_3` is `8/9` -/
theorem codedWeight_three_zero : codedWeight (K := K) 3 0 = 8 / 9 := by
  unfold codedWeight ppK
  rw [legPrevK_succ, legPolyK_two_eval, legPolyK_three_eval]
  push_cast; norm_num

/-- the coded weight at a root `x ≠ 0` of `P_3` is `5/9` -/
theorem codedWeight_three (x : K) (h : 5 * x * x = 3) : codedWeight 3 x = 5 / 9 := by
  have hx2 : x * x = 3 / 5 := by
    rw [eq_div_iff (by norm_num : (5 : K) ≠ 0)]; linear_combination h
  have hP3 : (legPolyK K 3).eval x = 0 := by
    rw [legPolyK_three_eval]
    have : 5 * x * x * x - 3 * x = 0 := by linear_combination x * h
    rw [this, zero_div]
  have hP2 : (legPolyK K 2).eval x = 2 / 5 := by
    rw [legPolyK_two_eval, mul_assoc, hx2]; norm_num
  unfold codedWeight ppK
  rw [legPrevK_succ, hP3, hP2, hx2]
  push_cast; norm_num

variable [DecidableEq K]

/-- **gl_exact_n2_field**: in any field of characteristic zero with `3 r² = 1`, the two-point rule with nodes
    `∓r` and the coded weights (`= 1`) is exact for every polynomial of degree `≤ 3`. -/
theorem gl_exact_n2_field (r : K) (hr : 3 * r * r = 1) (p : K[X]) (hp : p.natDegree < 4) :
    p.eval (-r) + p.eval r = integ p := by
  have hr0 : r ≠ 0 := by
    intro h; rw [h] at hr; norm_num at hr
  have hne : -r ≠ r := by
    intro h
    have : (2 : K) * r = 0 := by linear_combination -h
    exact hr0 ((mul_eq_zero.mp this).resolve_left two_ne_zero)
  have hroot : ∀ x ∈ ({-r, r} : Finset K), (legPolyK K 2).eval x = 0 := by
    intro x hx
    rw [legPolyK_two_eval]
    rcases Finset.mem_insert.mp hx with h | h
    · rw [h]; have : 3 * -r * -r - 1 = 0 := by linear_combination hr
      rw [this, zero_div]
    · rw [Finset.mem_singleton.mp h]; have : 3 * r * r - 1 = 0 := by linear_combination hr
      rw [this, zero_div]
  have h := gl_exact_legendre 2 ({-r, r} : Finset K) (Finset.card_pair hne) hroot p (by omega)
  rw [← h]
  unfold quad
  rw [Finset.sum_pair hne, codedWeight_two r hr, codedWeight_two (-r) (by linear_combination hr)]
  ring

/-- **gl_exact_n3_field**: in any field of characteristic zero with `5 r² = 3`, the three-point rule with nodes
    `−r, 0, r` and the coded weights (`5/9, 8/9, 5/9`) is exact for every polynomial of degree `≤ 5`. -/
theorem gl_exact_n3_field (r : K) (hr : 5 * r * r = 3) (p : K[X]) (hp : p.natDegree < 6) :
    5 / 9 * p.eval (-r) + 8 / 9 * p.eval 0 + 5 / 9 * p.eval r = integ p := by
  have hr0 : r ≠ 0 := by
    intro h; rw [h] at hr; norm_num at hr
  have hne : -r ≠ r := by
    intro h
    have : (2 : K) * r = 0 := by linear_combination -h
    exact hr0 ((mul_eq_zero.mp this).resolve_left two_ne_zero)
  have hne0 : -r ≠ 0 := neg_ne_zero.mpr hr0
  have hroot : ∀ x ∈ ({-r, 0, r} : Finset K), (legPolyK K 3).eval x = 0 := by
    intro x hx
    rw [legPolyK_three_eval]
    simp only [Finset.mem_insert, Finset.mem_singleton] at hx
    rcases hx with h | h | h
    · rw [h]; have : 5 * -r * -r * -r - 3 * -r = 0 := by linear_combination (-r) * hr
      rw [this, zero_div]
    · rw [h]; simp
    · rw [h]; have : 5 * r * r * r - 3 * r = 0 := by linear_combination r * hr
      rw [this, zero_div]
  have hcard : ({-r, 0, r} : Finset K).card = 3 := by
    rw [Finset.card_insert_of_notMem, Finset.card_pair (Ne.symm hr0)]
    simp only [Finset.mem_insert, Finset.mem_singleton, not_or]
    exact ⟨hne0, hne⟩
  have h := gl_exact_legendre 3 ({-r, 0, r} : Finset K) hcard hroot p (by omega)
  rw [← h]
  unfold quad
  rw [Finset.sum_insert (by simp only [Finset.mem_insert, Finset.mem_singleton, not_or]; exact ⟨hne0, hne⟩),
    Finset.sum_pair (Ne.symm hr0), codedWeight_three r hr, codedWeight_three (-r) (by linear_combination hr),
    codedWeight_three_zero]
  ring

/-! ### `K = ℚ`: the quantities above are those of the executable model -/

theorem legPolyK_rat (n : ℕ) : legPolyK ℚ n = legPoly n := by
  unfold legPolyK
  have : Rat.castHom ℚ = RingHom.id ℚ := by ext x; simp
  rw [this, Polynomial.map_id]

theorem legPrevK_rat (n : ℕ) : legPrevK ℚ n = (legPolyPair n).2 := by
  unfold legPrevK
  have : Rat.castHom ℚ = RingHom.id ℚ := by ext x; simp
  rw [this, Polynomial.map_id]

/-- **codedWeight_eq_model**: for rational `z`, `ppK n z` is the model's `legendreDeriv n z` (the C++ `pp`)
    and `codedWeight n z` is the model's weight `weightOf 1 z pp` on `[-1,1]`. -/
theorem codedWeight_eq_model (n : ℕ) (z : ℚ) :
    ppK n z = legendreDeriv n z ∧ codedWeight n z = weightOf 1 z (legendreDeriv n z) := by
  have h1 : (legPolyK ℚ n).eval z = legendreP n z := by
    rw [legPolyK_rat]; exact (legendreP_eq_eval n z).symm
  have h2 : (legPrevK ℚ n).eval z = legendrePrev n z := by
    rw [legPrevK_rat]; exact congrArg Prod.snd (legPolyPair_eval n z)
  have e : ppK n z = legendreDeriv n z := by
    unfold ppK legendreDeriv ppOf
    rw [h1, h2]
  refine ⟨e, ?_⟩
  unfold codedWeight weightOf
  rw [e, mul_one]

end Lp.C12
