import LpProofs.C12.Lemmas
namespace Lp.C12
end Lp.C12
