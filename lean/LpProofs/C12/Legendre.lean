/-
  C12 [T2]: the coded three-term recurrence, its derivative formula, the middle root of odd rules,
  the one-point rule.
-/
import LpProofs.C12.Lemmas
import Mathlib.Algebra.Polynomial.Derivative
import Mathlib.Algebra.Polynomial.Eval.Defs
import Mathlib.Tactic.LinearCombination
namespace Lp.C12

theorem legPair_zero' (z : Rat) : legPair z 0 = (1, 0) := rfl

theorem legPair_succ (z : Rat) (n : Nat) :
    legPair z (n + 1) =
      (((2 * (n : Rat) + 1) * z * (legPair z n).1 - (n : Rat) * (legPair z n).2) / ((n : Rat) + 1), (legPair z n).1) := rfl

/-! ### values at 0: `P_{2k}(0) ≠ 0`, `P_{2k+1}(0) = 0` -/

theorem legPair_at_zero (k : Nat) :
    ((legPair 0 (2 * k)).1 ≠ 0 ∧ (legPair 0 (2 * k)).2 = 0) ∧
    ((legPair 0 (2 * k + 1)).1 = 0 ∧ (legPair 0 (2 * k + 1)).2 ≠ 0) := by
  induction k with
  | zero =>
    refine ⟨⟨by simp [legPair_zero'], by simp [legPair_zero']⟩, ?_⟩
    rw [legPair_succ]; simp [legPair_zero']
  | succ k ih =>
    obtain ⟨⟨_, _⟩, ⟨h3, h4⟩⟩ := ih
    have e : 2 * (k + 1) = (2 * k + 1) + 1 := by ring
    have pos : ((2 * k + 1 : Nat) : Rat) + 1 ≠ 0 := by positivity
    have pos' : ((2 * k + 1 : Nat) : Rat) ≠ 0 := by positivity
    have A : (legPair 0 (2 * (k + 1))).1 ≠ 0 ∧ (legPair 0 (2 * (k + 1))).2 = 0 := by
      rw [e, legPair_succ]
      refine ⟨?_, h3⟩
      simp only [h3, mul_zero, zero_mul, zero_sub]
      exact div_ne_zero (neg_ne_zero.mpr (mul_ne_zero pos' h4)) pos
    refine ⟨A, ?_⟩
    rw [legPair_succ]
    refine ⟨?_, A.1⟩
    simp [A.2]

/-- **legendre_odd_zero**: `P_n(0) = 0` for odd `n`, and then `pp = n·P_{n-1}(0) ≠ 0` -/
theorem legendre_odd_zero (k : Nat) :
    legendreP (2 * k + 1) 0 = 0 ∧ legendreDeriv (2 * k + 1) 0 ≠ 0 := by
  obtain ⟨_, ⟨h3, h4⟩⟩ := legPair_at_zero k
  refine ⟨h3, ?_⟩
  unfold legendreDeriv ppOf legendreP legendrePrev
  rw [h3]
  have pos : ((2 * k + 1 : Nat) : Rat) ≠ 0 := by positivity
  simp only [mul_zero, zero_sub, zero_mul]
  exact div_ne_zero (mul_ne_zero pos (neg_ne_zero.mpr h4)) (by norm_num)

theorem guessArg_middle (k : Nat) : guessArg (2 * k + 1) k = 1 / 2 := by
  unfold guessArg
  have pos : ((2 * k + 1 : Nat) : Rat) + 1 / 2 ≠ 0 := by positivity
  rw [div_eq_iff pos]
  push_cast; ring

/-- **newton_middle_root**: for odd `n = 2k+1` the start value of the middle root (`i = k`) is
    `cos(π/2) = 0`, the exact Newton loop stops at once and returns `z = 0` — so the hypothesis of
    `gl_mirror`/`gl_reversed` holds for the rule the model computes. -/
theorem newton_middle_root (cospi : Rat → Rat) (hc : cospi (1 / 2) = 0) (eps : Rat) (heps : 0 ≤ eps) (k fuel : Nat) :
    newtonLoop id eps (2 * k + 1) (fuel + 1) (cospi (guessArg (2 * k + 1) k))
      = some (0, legendreDeriv (2 * k + 1) 0) := by
  obtain ⟨h0, hpp⟩ := legendre_odd_zero k
  rw [guessArg_middle, hc]
  unfold newtonLoop
  have e1 : ¬ ((0 : Rat) * 0 - 1 = 0) := by norm_num
  have hpp' : ¬ (id (ppOf (2 * k + 1) 0 (legPairR id 0 (2 * k + 1)).1 (legPairR id 0 (2 * k + 1)).2) = 0) := hpp
  have hp1 : (legPairR id 0 (2 * k + 1)).1 = 0 := h0
  simp only [e1, if_false, hpp']
  have : rabs (id (0 - (legPairR id 0 (2 * k + 1)).1 / id (ppOf (2 * k + 1) 0 (legPairR id 0 (2 * k + 1)).1 (legPairR id 0 (2 * k + 1)).2)) - 0) ≤ eps := by
    rw [hp1]; simpa [rabs] using heps
  rw [if_pos this, hp1]
  simp [legendreDeriv, legendreP, legendrePrev, legPair, hp1]

/-! ### the recurrence as polynomials and the derivative formula -/

open Polynomial

/-- `(P_n, P_{n-1})` of the coded recurrence as polynomials over ℚ -/
noncomputable def legPolyPair : Nat → ℚ[X] × ℚ[X]
  | 0 => (1, 0)
  | n + 1 => (C (1 / ((n : ℚ) + 1)) * ((2 * C (n : ℚ) + 1) * X * (legPolyPair n).1 - C (n : ℚ) * (legPolyPair n).2),
              (legPolyPair n).1)

noncomputable def legPoly (n : Nat) : ℚ[X] := (legPolyPair n).1

theorem legPolyPair_eval (n : Nat) (z : ℚ) :
    ((legPolyPair n).1.eval z, (legPolyPair n).2.eval z) = legPair z n := by
  induction n with
  | zero => simp [legPolyPair, legPair_zero']
  | succ n ih =>
    have h1 : (legPolyPair n).1.eval z = (legPair z n).1 := congrArg Prod.fst ih
    have h2 : (legPolyPair n).2.eval z = (legPair z n).2 := congrArg Prod.snd ih
    rw [legPair_succ]
    simp only [legPolyPair, eval_mul, eval_sub, eval_add, eval_C, eval_X, eval_one, eval_ofNat, h1, h2]
    congr 1
    ring

/-- the model's `legendreP n z` is the value of the polynomial `legPoly n` -/
theorem legendreP_eq_eval (n : Nat) (z : ℚ) : legendreP n z = (legPoly n).eval z :=
  (congrArg Prod.fst (legPolyPair_eval n z)).symm

/-- one induction step, as an identity in any commutative ring: from
    `X P' − Q' = c P` and `(X²−1) P' = c (X P − Q)` for `(P, Q) = (P_n, P_{n-1})` to the same for
    `(P_{n+1}, P_n)`, where `d (c+1) = 1`. -/
theorem leg_step_ring {R : Type} [CommRing R] (X c d P P' Q Q' : R) (hd : d * (c + 1) = 1)
    (I3 : X * P' - Q' = c * P) (I5 : (X * X - 1) * P' = c * (X * P - Q)) :
    let Pn := d * ((2 * c + 1) * X * P - c * Q)
    let Pn' := d * ((2 * c + 1) * (P + X * P') - c * Q')
    X * Pn' - P' = (c + 1) * Pn ∧ (X * X - 1) * Pn' = (c + 1) * (X * Pn - P) := by
  intro Pn Pn'
  have I4 : Pn' = (c + 1) * P + X * P' := by
    show d * ((2 * c + 1) * (P + X * P') - c * Q') = (c + 1) * P + X * P'
    linear_combination ((c + 1) * P + X * P') * hd + d * c * I3
  have M : (c + 1) * Pn = (2 * c + 1) * X * P - c * Q := by
    show (c + 1) * (d * ((2 * c + 1) * X * P - c * Q)) = (2 * c + 1) * X * P - c * Q
    linear_combination ((2 * c + 1) * X * P - c * Q) * hd
  constructor
  · rw [I4, M]; linear_combination I5
  · rw [I4]; linear_combination X * I5 - X * M

theorem legPoly_identities (n : Nat) :
    X * derivative (legPolyPair n).1 - derivative (legPolyPair n).2 = C (n : ℚ) * (legPolyPair n).1 ∧
    (X * X - 1) * derivative (legPolyPair n).1 = C (n : ℚ) * (X * (legPolyPair n).1 - (legPolyPair n).2) := by
  induction n with
  | zero => simp [legPolyPair]
  | succ n ih =>
    obtain ⟨I3, I5⟩ := ih
    have hd : C (1 / ((n : ℚ) + 1)) * (C (n : ℚ) + 1) = 1 := by
      have pos : (n : ℚ) + 1 ≠ 0 := by positivity
      rw [show (C (n : ℚ) + 1 : ℚ[X]) = C ((n : ℚ) + 1) by simp, ← C_mul]
      rw [one_div, inv_mul_cancel₀ pos]; simp
    have key := leg_step_ring (X : ℚ[X]) (C (n : ℚ)) (C (1 / ((n : ℚ) + 1))) (legPolyPair n).1
      (derivative (legPolyPair n).1) (legPolyPair n).2 (derivative (legPolyPair n).2) hd I3 I5
    have hc : (C ((n + 1 : Nat) : ℚ) : ℚ[X]) = C (n : ℚ) + 1 := by push_cast; simp
    have hder : derivative (legPolyPair (n + 1)).1
        = C (1 / ((n : ℚ) + 1)) * ((2 * C (n : ℚ) + 1) * ((legPolyPair n).1 + X * derivative (legPolyPair n).1)
            - C (n : ℚ) * derivative (legPolyPair n).2) := by
      simp only [legPolyPair, derivative_mul, derivative_sub, derivative_add, derivative_C, derivative_X,
        derivative_one, derivative_ofNat, zero_mul, mul_zero, zero_add, add_zero, mul_one]
      ring
    simp only [] at key
    rw [hc, hder]
    exact key

/-- **legendre_derivative**: for the polynomial sequence of the coded recurrence,
    `(z²−1)·P_n'(z) = n (z P_n(z) − P_{n−1}(z))`; hence where `z² ≠ 1` the quantity `pp` of the C++
    is exactly the derivative `P_n'(z)` that Newton's method needs. -/
theorem legendre_derivative (n : Nat) (z : ℚ) :
    (z * z - 1) * (derivative (legPoly n)).eval z = (n : ℚ) * (z * legendreP n z - legendrePrev n z) ∧
    (z * z - 1 ≠ 0 → legendreDeriv n z = (derivative (legPoly n)).eval z) := by
  have h := congrArg (Polynomial.eval z) (legPoly_identities n).2
  have h1 : (legPolyPair n).1.eval z = legendreP n z := congrArg Prod.fst (legPolyPair_eval n z)
  have h2 : (legPolyPair n).2.eval z = legendrePrev n z := congrArg Prod.snd (legPolyPair_eval n z)
  simp only [eval_mul, eval_sub, eval_X, eval_one, eval_C, h1, h2] at h
  refine ⟨h, ?_⟩
  intro hz
  unfold legendreDeriv ppOf
  rw [← h]
  unfold legPoly
  exact mul_div_cancel_left₀ _ hz

example : legendreDeriv 2 (1 / 2) = 3 / 2 := by decide +kernel

/-! ### n = 1 -/

/-- **gl_exact_n1**: with the root values the exact iteration produces for `n = 1` (`z = 0`, `pp = 1`)
    the rule is the midpoint rule and integrates every polynomial of degree ≤ 1 = 2n−1 exactly, on
    every interval in either orientation. -/
theorem gl_exact_n1 (a b c0 c1 : Rat) (z pp : Nat → Rat) (hz : z 0 = 0) (hp : pp 0 = 1) :
    glSum (fun x => c0 + c1 * x) 1 a b z pp = c0 * (b - a) + c1 * (b * b - a * a) / 2 := by
  have hn : node 1 a b z pp 0 = (a + b) / 2 := by
    unfold node
    rw [glTable_closed 1 a b z pp 0 (by norm_num)]
    simp [half, hz, xMiddle]; ring
  have hw : weight 1 a b z pp 0 = b - a := by
    unfold weight
    rw [glTable_closed 1 a b z pp 0 (by norm_num)]
    simp [rootIdx, half, hz, hp, weightOf, xHalfWidth]
    try ring
  unfold glSum
  simp [List.range_succ, hn, hw]
  ring

/-- the root values assumed by `gl_exact_n1` are those of the exact Newton loop -/
theorem newton_n1 (cospi : Rat → Rat) (hc : cospi (1 / 2) = 0) (eps : Rat) (heps : 0 ≤ eps) (fuel : Nat) :
    newtonLoop id eps 1 (fuel + 1) (cospi (guessArg 1 0)) = some (0, 1) := by
  have h := newton_middle_root cospi hc eps heps 0 fuel
  simp only [Nat.mul_zero, Nat.zero_add] at h
  rw [h]
  have : legendreDeriv 1 0 = 1 := by decide +kernel
  rw [this]

end Lp.C12
