/-
  C12 [T2]: the structure theorem of Gaussian quadrature, algebraically over any field:
  nodes at the roots of a polynomial `P` of degree `n` orthogonal to all lower degrees + weights exact
  on degree `< n`  ⟹  exact on degree `≤ 2n-1`  (division with remainder `p = P q + r`).
  Interpolatory weights (integrals of the Lagrange basis) always satisfy the weight hypothesis.
-/
import LpProofs.C12.Integ
import Mathlib.Algebra.Polynomial.FieldDivision
import Mathlib.Algebra.Polynomial.BigOperators
import Mathlib.LinearAlgebra.Lagrange
namespace Lp.C12
open Polynomial

variable {K : Type} [Field K]

/-- the quadrature sum `Σ_{x ∈ s} w(x) p(x)` of a rule with node set `s` and weight function `w` -/
def quad (s : Finset K) (w : K → K) (p : K[X]) : K := ∑ x ∈ s, w x * p.eval x

theorem quad_add (s : Finset K) (w : K → K) (p q : K[X]) : quad s w (p + q) = quad s w p + quad s w q := by
  unfold quad
  rw [← Finset.sum_add_distrib]
  exact Finset.sum_congr rfl (fun x _ => by rw [eval_add]; ring)

/-- a multiple of a polynomial vanishing at all nodes is invisible to the rule -/
theorem quad_mul_of_roots (s : Finset K) (w : K → K) (P q : K[X]) (hroot : ∀ x ∈ s, P.eval x = 0) :
    quad s w (P * q) = 0 := by
  unfold quad
  exact Finset.sum_eq_zero (fun x hx => by rw [eval_mul, hroot x hx]; ring)

/-- quotient and remainder of a polynomial of degree `< 2n` by one of degree `n` both have degree `< n` -/
theorem divmod_degrees (n : ℕ) (P p : K[X]) (hdeg : P.natDegree = n) (hp : p.natDegree < 2 * n) :
    (p / P).natDegree < n ∧ (p % P).natDegree < n := by
  have hn : 0 < n := by omega
  have hr : (p % P).natDegree < n := by
    rw [← hdeg]; exact natDegree_mod_lt p (by omega)
  refine ⟨?_, hr⟩
  by_contra hq
  have hq' : n ≤ (p / P).natDegree := by omega
  have hq0 : p / P ≠ 0 := by
    intro h; rw [h, natDegree_zero] at hq'; omega
  have hP0 : P ≠ 0 := by
    intro h; rw [h, natDegree_zero] at hdeg; omega
  have e : P * (p / P) = p - p % P := by
    have := EuclideanDomain.div_add_mod p P
    linear_combination this
  have h1 : (P * (p / P)).natDegree = n + (p / P).natDegree := by
    rw [natDegree_mul hP0 hq0, hdeg]
  have h2 : (p - p % P).natDegree ≤ max p.natDegree (p % P).natDegree := natDegree_sub_le _ _
  rw [e] at h1
  have : max p.natDegree (p % P).natDegree < 2 * n := by
    rw [max_lt_iff]; exact ⟨hp, by omega⟩
  omega

/-- **gl_exact_of_orthogonality** (structure theorem, any field `K`): let `P` have degree `n`, vanish at
    every node of the rule `(s, w)`, and be orthogonal — w.r.t. the algebraic integral over `[-1,1]` —
    to every polynomial of degree `< n`; let the rule be exact on every polynomial of degree `< n`.
    Then the rule is exact on every polynomial of degree `≤ 2n−1`. -/
theorem gl_exact_of_orthogonality (n : ℕ) (s : Finset K) (w : K → K) (P : K[X])
    (hdeg : P.natDegree = n)
    (hroot : ∀ x ∈ s, P.eval x = 0)
    (horth : ∀ q : K[X], q.natDegree < n → integ (P * q) = 0)
    (hint : ∀ r : K[X], r.natDegree < n → quad s w r = integ r) :
    ∀ p : K[X], p.natDegree < 2 * n → quad s w p = integ p := by
  intro p hp
  obtain ⟨hq, hr⟩ := divmod_degrees n P p hdeg hp
  have e : p = P * (p / P) + p % P := (EuclideanDomain.div_add_mod p P).symm
  rw [e, quad_add, map_add, quad_mul_of_roots s w P _ hroot, horth _ hq, hint _ hr]

/-- non-vacuity (n = 1): `P = X`, node `0`, weight `2` — the midpoint rule on `[-1,1]` meets all four
    hypotheses, hence integrates every polynomial of degree ≤ 1 exactly. -/
example : ∀ p : ℚ[X], p.natDegree < 2 * 1 → quad {0} (fun _ => 2) p = integ p := by
  refine gl_exact_of_orthogonality 1 {0} (fun _ => 2) X natDegree_X ?_ ?_ ?_
  · intro x hx; rw [Finset.mem_singleton.mp hx, eval_X]
  · intro q hq
    have h0 : q.natDegree = 0 := by omega
    rw [eq_C_of_natDegree_eq_zero h0, mul_comm, ← pow_one (X : ℚ[X]), integ_C_mul_X_pow, mom_odd 0, mul_zero]
  · intro r hr
    have h0 : r.natDegree = 0 := by omega
    rw [eq_C_of_natDegree_eq_zero h0, integ_C]
    simp [quad]

/-! ### interpolatory weights -/

variable [DecidableEq K]

/-- the interpolatory weight of node `x`: the integral of its Lagrange basis polynomial -/
noncomputable def interpWeight (s : Finset K) (x : K) : K := integ (Lagrange.basis s id x)

/-- the nodal polynomial `∏_{x ∈ s} (X − x)` -/
noncomputable def nodal (s : Finset K) : K[X] := ∏ x ∈ s, (X - C x)

/-- **interp_weights_exact**: with interpolatory weights the rule on ANY `n` distinct nodes is exact on
    every polynomial of degree `< n` (Lagrange interpolation) — so the weight hypothesis of
    `gl_exact_of_orthogonality` can always be met, and only in one way (`interp_weights_unique`). -/
theorem interp_weights_exact (s : Finset K) (r : K[X]) (hr : r.degree < s.card) :
    quad s (interpWeight s) r = integ r := by
  have h := Lagrange.eq_interpolate (s := s) (v := id) (f := r) (Set.injOn_id _) hr
  conv_rhs => rw [h]
  rw [Lagrange.interpolate_apply, map_sum]
  unfold quad interpWeight
  refine Finset.sum_congr rfl (fun x _ => ?_)
  rw [← smul_eq_C_mul, map_smul, smul_eq_mul, id, mul_comm]

/-- weights exact on degree `< n` at `n` distinct nodes are the interpolatory ones -/
theorem interp_weights_unique (s : Finset K) (w : K → K)
    (hint : ∀ r : K[X], r.degree < s.card → quad s w r = integ r) (x : K) (hx : x ∈ s) :
    w x = interpWeight s x := by
  have hd : (Lagrange.basis s id x).degree < s.card := by
    rw [Lagrange.degree_basis (Set.injOn_id _) hx]
    have : 0 < s.card := Finset.card_pos.mpr ⟨x, hx⟩
    exact_mod_cast Nat.sub_lt this Nat.one_pos
  have h := hint _ hd
  unfold interpWeight
  rw [← h]
  unfold quad
  rw [Finset.sum_eq_single x]
  · have := Lagrange.eval_basis_self (v := id) (Set.injOn_id _) hx
    simp only [id] at this
    rw [this, mul_one]
  · intro y hy hyx
    have := Lagrange.eval_basis_of_ne (v := id) (s := s) (i := x) (j := y) (Ne.symm hyx) hy
    simp only [id] at this
    rw [this, mul_zero]
  · intro h; exact absurd hx h

omit [DecidableEq K] in
theorem nodal_natDegree (s : Finset K) : (nodal s).natDegree = s.card := by
  unfold nodal
  exact natDegree_finsetProd_X_sub_C_eq_card s id

omit [DecidableEq K] in
theorem nodal_root (s : Finset K) (x : K) (hx : x ∈ s) : (nodal s).eval x = 0 := by
  unfold nodal
  rw [eval_prod]
  exact Finset.prod_eq_zero hx (by simp)

/-- **gl_exact_nodal**: the Gauss rule in its usual form — `n` distinct nodes whose nodal polynomial is
    orthogonal to all lower degrees, interpolatory weights — is exact to degree `2n−1`.  The only
    hypothesis left is orthogonality. -/
theorem gl_exact_nodal (s : Finset K)
    (horth : ∀ q : K[X], q.natDegree < s.card → integ (nodal s * q) = 0) :
    ∀ p : K[X], p.natDegree < 2 * s.card → quad s (interpWeight s) p = integ p := by
  intro p hp
  have hn : 0 < s.card := by omega
  refine gl_exact_of_orthogonality s.card s (interpWeight s) (nodal s) (nodal_natDegree s)
    (nodal_root s) horth ?_ p hp
  intro r hr
  apply interp_weights_exact
  by_cases h0 : r = 0
  · rw [h0, degree_zero]; exact WithBot.bot_lt_coe _
  · rw [degree_eq_natDegree h0]; exact_mod_cast hr

/-- non-vacuity of `gl_exact_nodal` (n = 1, node 0) -/
example : ∀ q : ℚ[X], q.natDegree < ({0} : Finset ℚ).card → integ (nodal ({0} : Finset ℚ) * q) = 0 := by
  intro q hq
  have h0 : q.natDegree = 0 := by simpa using hq
  have e : nodal ({0} : Finset ℚ) = X := by simp [nodal]
  rw [e, eq_C_of_natDegree_eq_zero h0, mul_comm, ← pow_one (X : ℚ[X]), integ_C_mul_X_pow, mom_odd 0, mul_zero]

end Lp.C12
