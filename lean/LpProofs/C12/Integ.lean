/-
  C12 [T2]: the integral over [-1,1] defined ALGEBRAICALLY on polynomials over a field `K`
  (`∫ x^k = (1 - (-1)^(k+1))/(k+1)`), as a `K`-linear map; fundamental theorem and integration by parts.
  No analysis is imported: everything is an identity of polynomial coefficients.
-/
import Mathlib.Algebra.Polynomial.Derivative
import Mathlib.Algebra.Polynomial.Coeff
import Mathlib.Algebra.Polynomial.Degree.Support
import Mathlib.Algebra.Polynomial.Eval.Defs
import Mathlib.Tactic.Ring
import Mathlib.Tactic.FieldSimp
import Mathlib.Tactic.LinearCombination
namespace Lp.C12
open Polynomial

/-- the moment `∫_{-1}^{1} x^k dx = (1 - (-1)^(k+1))/(k+1)` (antiderivative of the monomial) -/
def mom (K : Type) [Field K] (k : ℕ) : K := (1 - (-1) ^ (k + 1)) / ((k : K) + 1)

variable {K : Type} [Field K]

/-- the algebraic integral over `[-1,1]`: the linear extension of `x^k ↦ mom k` -/
noncomputable def integ : K[X] →ₗ[K] K := Polynomial.lsum (fun k => mom K k • LinearMap.id)

theorem integ_monomial (k : ℕ) (a : K) : integ (monomial k a) = mom K k * a := by
  unfold integ
  rw [Polynomial.lsum_apply, Polynomial.sum_monomial_index]
  · simp
  · simp

theorem integ_eq_sum (p : K[X]) : integ p = p.sum (fun k a => mom K k * a) := by
  unfold integ
  rw [Polynomial.lsum_apply]
  simp

theorem integ_X_pow (k : ℕ) : integ ((X : K[X]) ^ k) = mom K k := by
  rw [← monomial_one_right_eq_X_pow, integ_monomial, mul_one]

theorem integ_C_mul_X_pow (k : ℕ) (a : K) : integ (C a * (X : K[X]) ^ k) = a * mom K k := by
  rw [← smul_eq_C_mul, map_smul, integ_X_pow, smul_eq_mul]

theorem integ_C_mul (a : K) (p : K[X]) : integ (C a * p) = a * integ p := by
  rw [← smul_eq_C_mul, map_smul, smul_eq_mul]

theorem integ_mul_C_mul (P : K[X]) (a : K) (p : K[X]) : integ (P * (C a * p)) = a * integ (P * p) := by
  rw [← mul_assoc, mul_comm P (C a), mul_assoc, integ_C_mul]

theorem mom_zero : mom K 0 = 2 := by
  unfold mom; norm_num

theorem integ_one : integ (1 : K[X]) = 2 := by
  rw [← pow_zero (X : K[X]), integ_X_pow, mom_zero]

theorem integ_C (a : K) : integ (C a) = 2 * a := by
  rw [← monomial_zero_left, integ_monomial, mom_zero]

/-- odd moments vanish -/
theorem mom_odd (j : ℕ) : mom K (2 * j + 1) = 0 := by
  unfold mom
  have : ((-1 : K)) ^ (2 * j + 1 + 1) = 1 := by
    rw [show 2 * j + 1 + 1 = 2 * (j + 1) by ring, pow_mul]; simp
  rw [this, sub_self, zero_div]

/-- **fundamental theorem** for the algebraic integral: `∫ p' = p(1) − p(−1)` -/
theorem integ_derivative [CharZero K] (p : K[X]) :
    integ (derivative p) = p.eval 1 - p.eval (-1) := by
  induction p using Polynomial.induction_on' with
  | add p q hp hq =>
    rw [derivative_add, map_add, hp, hq, eval_add, eval_add]; ring
  | monomial n a =>
    rw [derivative_monomial, integ_monomial, eval_monomial, eval_monomial]
    cases n with
    | zero => simp
    | succ m =>
      have pos : ((m : K) + 1) ≠ 0 := by
        have : ((m + 1 : ℕ) : K) ≠ 0 := Nat.cast_ne_zero.mpr (Nat.succ_ne_zero m)
        simpa using this
      simp only [Nat.add_sub_cancel, mom, Nat.cast_add, Nat.cast_one, one_pow]
      field_simp

/-- **integration by parts**: `∫ f' g + ∫ f g' = (f g)(1) − (f g)(−1)` -/
theorem integ_by_parts [CharZero K] (f g : K[X]) :
    integ (derivative f * g) + integ (f * derivative g)
      = f.eval 1 * g.eval 1 - f.eval (-1) * g.eval (-1) := by
  have h := integ_derivative (f * g)
  rw [derivative_mul, map_add, eval_mul, eval_mul] at h
  exact h

/-- the integral of a polynomial of degree `< n` from its coefficients -/
theorem integ_eq_sum_range (p : K[X]) (n : ℕ) (hn : p.natDegree < n) :
    integ p = ∑ k ∈ Finset.range n, p.coeff k * mom K k := by
  conv_lhs => rw [p.as_sum_range_C_mul_X_pow' hn]
  rw [map_sum]
  exact Finset.sum_congr rfl (fun k _ => integ_C_mul_X_pow k _)

/-- ring homomorphisms of fields commute with the algebraic integral -/
theorem integ_map {L : Type} [Field L] (φ : K →+* L) (p : K[X]) :
    integ (p.map φ) = φ (integ p) := by
  induction p using Polynomial.induction_on' with
  | add p q hp hq => rw [Polynomial.map_add, map_add, hp, hq, map_add, map_add]
  | monomial n a =>
    rw [map_monomial, integ_monomial, integ_monomial, map_mul]
    congr 1
    unfold mom
    simp

end Lp.C12
