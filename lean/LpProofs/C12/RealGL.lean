/-
  C12 [T2]: the hypotheses of `gl_exact_n2_field` / `gl_exact_n3_field` / `gl_exact_legendre` are met in ℝ:
  with the true irrational nodes `±√(1/3)` (resp. `0, ±√(3/5)`) and the coded weights, the rule is exact to
  degree 3 (resp. 5).  Only `Real.sqrt` is imported from analysis; the integral stays the algebraic one.
-/
import LpProofs.C12.Small
import Mathlib.Analysis.Real.Sqrt
namespace Lp.C12
open Polynomial

theorem sqrt_third : 3 * Real.sqrt (1 / 3) * Real.sqrt (1 / 3) = 1 := by
  rw [mul_assoc, Real.mul_self_sqrt (by norm_num)]; norm_num

theorem sqrt_three_fifths : 5 * Real.sqrt (3 / 5) * Real.sqrt (3 / 5) = 3 := by
  rw [mul_assoc, Real.mul_self_sqrt (by norm_num)]; norm_num

/-- **gl_exact_n2_real**: the two-point Gauss–Legendre rule with the true nodes `±1/√3` and the coded
    weights integrates every real polynomial of degree `≤ 3` exactly over `[-1,1]`. -/
theorem gl_exact_n2_real (p : ℝ[X]) (hp : p.natDegree < 4) :
    p.eval (-Real.sqrt (1 / 3)) + p.eval (Real.sqrt (1 / 3)) = integ p :=
  gl_exact_n2_field (Real.sqrt (1 / 3)) sqrt_third p hp

/-- **gl_exact_n3_real**: the three-point rule with the true nodes `0, ±√(3/5)` and the coded weights
    `8/9, 5/9` integrates every real polynomial of degree `≤ 5` exactly over `[-1,1]`. -/
theorem gl_exact_n3_real (p : ℝ[X]) (hp : p.natDegree < 6) :
    5 / 9 * p.eval (-Real.sqrt (3 / 5)) + 8 / 9 * p.eval 0 + 5 / 9 * p.eval (Real.sqrt (3 / 5)) = integ p :=
  gl_exact_n3_field (Real.sqrt (3 / 5)) sqrt_three_fifths p hp

/-- a concrete instance: `∫_{-1}^{1} x² dx = 2/3` is reproduced by the two-point rule -/
example : (1 / 3 : ℝ) + 1 / 3 = integ ((X : ℝ[X]) ^ 2) := by
  have h := gl_exact_n2_real ((X : ℝ[X]) ^ 2) (by rw [natDegree_X_pow]; norm_num)
  simp only [eval_pow, eval_X] at h
  rw [← h, neg_sq, Real.sq_sqrt (by norm_num)]

end Lp.C12
