/-
  C12 [T2]: the polynomial `P_n` of the CODED recurrence has `n` distinct real roots, all in `(-1,1)`, for every
  `n ≥ 1` — which discharges the hypothesis of `gl_exact_legendre` over ℝ — and the coded weights are positive.
  Route: the algebraic `integ` on ℝ[X] IS the interval integral, hence positive on non-zero polynomials that are
  `≥ 0` on `[-1,1]`; if `P_n` had fewer than `n` roots of odd multiplicity in `(-1,1)`, multiplying by the
  product `q` of the corresponding linear factors gives a polynomial of constant sign on `[-1,1]` whose integral
  vanishes by `legendre_orthogonal_K` — contradiction.
-/
import LpProofs.C12.Interval
import Mathlib.Analysis.SpecialFunctions.Integrals.Basic
import Mathlib.Order.Interval.Set.Infinite
import Mathlib.Topology.Algebra.Polynomial
namespace Lp.C12
open Polynomial

/-! ### the algebraic integral on ℝ[X] is the interval integral -/

/-- **integ_eq_intervalIntegral**: on real polynomials the algebraic integral (moments `(1−(−1)^(k+1))/(k+1)`)
    is the Lebesgue/interval integral of the polynomial function over `[-1,1]`. -/
theorem integ_eq_intervalIntegral (p : ℝ[X]) : integ p = ∫ x in (-1 : ℝ)..1, p.eval x := by
  induction p using Polynomial.induction_on' with
  | add p q hp hq =>
    rw [map_add, hp, hq, ← intervalIntegral.integral_add]
    · simp only [eval_add]
    · exact (Polynomial.continuous p).intervalIntegrable _ _
    · exact (Polynomial.continuous q).intervalIntegrable _ _
  | monomial k a =>
    rw [integ_monomial]
    simp only [eval_monomial]
    rw [intervalIntegral.integral_const_mul, integral_pow]
    unfold mom
    simp only [one_pow]
    ring

/-- **integ_pos_of_nonneg**: a non-zero real polynomial that is `≥ 0` on `[-1,1]` has positive integral. -/
theorem integ_pos_of_nonneg (p : ℝ[X]) (hp : p ≠ 0) (h : ∀ x ∈ Set.Icc (-1 : ℝ) 1, 0 ≤ p.eval x) :
    0 < integ p := by
  rw [integ_eq_intervalIntegral]
  obtain ⟨c, hc, hcr⟩ := (Set.Icc_infinite (show (-1 : ℝ) < 1 by norm_num)).exists_notMem_finset p.roots.toFinset
  have hc0 : p.eval c ≠ 0 := by
    intro h0
    apply hcr
    rw [Multiset.mem_toFinset, mem_roots hp]
    exact h0
  refine intervalIntegral.integral_pos (by norm_num) (Polynomial.continuous p).continuousOn
    (fun x hx => h x (Set.Ioc_subset_Icc_self hx)) ⟨c, hc, lt_of_le_of_ne (h c hc) (Ne.symm hc0)⟩

example : (0 : ℝ) < integ ((X : ℝ[X]) ^ 2) :=
  integ_pos_of_nonneg _ (pow_ne_zero 2 X_ne_zero) (fun x _ => by simp only [eval_pow, eval_X]; positivity)

/-! ### constant sign after multiplying by the odd-multiplicity factors -/

/-- a real polynomial without real roots has constant sign: `Q(0)·Q(x) > 0` (intermediate value theorem) -/
theorem noRoots_sign (Q : ℝ[X]) (hQ : ∀ x, Q.eval x ≠ 0) (x : ℝ) : 0 < Q.eval 0 * Q.eval x := by
  rcases lt_or_gt_of_ne (hQ 0) with h0 | h0 <;> rcases lt_or_gt_of_ne (hQ x) with hx | hx
  · exact mul_pos_of_neg_of_neg h0 hx
  · exfalso
    have hz : (0 : ℝ) ∈ Set.uIcc (Q.eval 0) (Q.eval x) := Set.mem_uIcc.mpr (Or.inl ⟨h0.le, hx.le⟩)
    obtain ⟨y, _, hy⟩ := intermediate_value_uIcc (f := fun t => Q.eval t) (Polynomial.continuous Q).continuousOn hz
    exact hQ y hy
  · exfalso
    have hz : (0 : ℝ) ∈ Set.uIcc (Q.eval 0) (Q.eval x) := Set.mem_uIcc.mpr (Or.inr ⟨hx.le, h0.le⟩)
    obtain ⟨y, _, hy⟩ := intermediate_value_uIcc (f := fun t => Q.eval t) (Polynomial.continuous Q).continuousOn hz
    exact hQ y hy
  · exact mul_pos h0 hx

/-- **exists_sign_fixer**: for every non-zero real polynomial `P` there is a set `T` of roots of `P` inside `(-1,1)`
    (those of odd multiplicity) such that `P · ∏_{a∈T}(X − a)` has constant weak sign on `[-1,1]`. -/
theorem exists_sign_fixer (P : ℝ[X]) (hP : P ≠ 0) :
    ∃ T : Finset ℝ, T ⊆ P.roots.toFinset ∧ (∀ a ∈ T, a ∈ Set.Ioo (-1 : ℝ) 1) ∧
      ∃ c : ℝ, c ≠ 0 ∧ ∀ x ∈ Set.Icc (-1 : ℝ) 1, 0 ≤ c * (P * nodal T).eval x := by
  classical
  obtain ⟨Q, hPQ, -, hQr⟩ := exists_prod_multiset_X_sub_C_mul P
  rw [prod_multiset_root_eq_finset_root] at hPQ
  have hQ0 : Q ≠ 0 := by
    rintro rfl; rw [mul_zero] at hPQ; exact hP hPQ.symm
  have hQx : ∀ x, Q.eval x ≠ 0 := by
    intro x h
    have : x ∈ Q.roots := (mem_roots hQ0).mpr h
    rw [hQr] at this
    exact absurd this (Multiset.notMem_zero x)
  let cond : ℝ → Prop := fun a => a ∈ Set.Ioo (-1 : ℝ) 1 ∧ Odd (rootMultiplicity a P)
  let ε : ℝ → ℝ := fun a => if 1 ≤ a then (-1) ^ rootMultiplicity a P else 1
  refine ⟨P.roots.toFinset.filter cond, Finset.filter_subset _ _, fun a ha => (Finset.mem_filter.mp ha).2.1,
    Q.eval 0 * ∏ a ∈ P.roots.toFinset, ε a, ?_, ?_⟩
  · refine mul_ne_zero (hQx 0) (Finset.prod_ne_zero_iff.mpr (fun a _ => ?_))
    show (if 1 ≤ a then (-1 : ℝ) ^ rootMultiplicity a P else 1) ≠ 0
    split_ifs
    · exact pow_ne_zero _ (by norm_num)
    · exact one_ne_zero
  · intro x hx
    have hev : (P * nodal (P.roots.toFinset.filter cond)).eval x
        = (∏ a ∈ P.roots.toFinset, ((x - a) ^ rootMultiplicity a P * (if cond a then (x - a) else 1))) * Q.eval x := by
      have hPe : P.eval x = (∏ a ∈ P.roots.toFinset, (x - a) ^ rootMultiplicity a P) * Q.eval x := by
        have h := congrArg (Polynomial.eval x) hPQ.symm
        rw [eval_mul, eval_prod] at h
        simpa only [eval_pow, eval_sub, eval_X, eval_C] using h
      have hNe : (nodal (P.roots.toFinset.filter cond)).eval x
          = ∏ a ∈ P.roots.toFinset, (if cond a then (x - a) else 1) := by
        unfold nodal
        rw [Finset.prod_filter, eval_prod]
        refine Finset.prod_congr rfl (fun a _ => ?_)
        split_ifs <;> simp
      rw [eval_mul, hPe, hNe, Finset.prod_mul_distrib]
      ring
    rw [hev]
    have hre : Q.eval 0 * (∏ a ∈ P.roots.toFinset, ε a)
          * ((∏ a ∈ P.roots.toFinset, ((x - a) ^ rootMultiplicity a P * (if cond a then (x - a) else 1))) * Q.eval x)
        = (Q.eval 0 * Q.eval x)
          * ∏ a ∈ P.roots.toFinset, (ε a * ((x - a) ^ rootMultiplicity a P * (if cond a then (x - a) else 1))) := by
      simp only [Finset.prod_mul_distrib]; ring
    rw [hre]
    refine mul_nonneg (noRoots_sign Q hQx x).le (Finset.prod_nonneg (fun a _ => ?_))
    show 0 ≤ (if 1 ≤ a then (-1 : ℝ) ^ rootMultiplicity a P else 1)
      * ((x - a) ^ rootMultiplicity a P * (if cond a then (x - a) else 1))
    by_cases h1 : 1 ≤ a
    · have hc : ¬ cond a := fun h => absurd h.1.2 (not_lt.mpr h1)
      rw [if_pos h1, if_neg hc, mul_one, ← mul_pow]
      exact pow_nonneg (by linarith [hx.2]) _
    · rw [if_neg h1, one_mul]
      by_cases hc : cond a
      · rw [if_pos hc, ← pow_succ]
        exact Even.pow_nonneg (Odd.add_one hc.2) _
      · rw [if_neg hc, mul_one]
        by_cases hm : -1 < a
        · have : ¬ Odd (rootMultiplicity a P) := fun ho => hc ⟨⟨hm, not_le.mp h1⟩, ho⟩
          exact Even.pow_nonneg (Nat.not_odd_iff_even.mp this) _
        · exact pow_nonneg (by linarith [hx.1, not_lt.mp hm]) _

/-! ### the roots of the coded `P_n` -/

/-- **legendre_real_roots**: for every `n ≥ 1` the polynomial `P_n` of the coded recurrence, over ℝ, has exactly
    `n` distinct roots, all of them in the open interval `(-1,1)` (so all its roots are real, simple and inside). -/
theorem legendre_real_roots (n : ℕ) (hn : 0 < n) :
    ∃ s : Finset ℝ, s.card = n ∧ s = (legPolyK ℝ n).roots.toFinset ∧
      ∀ z ∈ s, z ∈ Set.Ioo (-1 : ℝ) 1 ∧ (legPolyK ℝ n).eval z = 0 := by
  have hP : legPolyK ℝ n ≠ 0 := by
    intro h
    have := legPolyK_natDegree (K := ℝ) n
    rw [h, natDegree_zero] at this
    omega
  obtain ⟨T, hTA, hTI, c, hc, hsign⟩ := exists_sign_fixer (legPolyK ℝ n) hP
  have hle : n ≤ T.card := by
    by_contra hlt
    have hlt' : T.card < n := not_le.mp hlt
    have h0 : integ (legPolyK ℝ n * nodal T) = 0 :=
      legendre_orthogonal_K n (nodal T) (by rw [nodal_natDegree]; exact hlt')
    have hT0 : nodal T ≠ 0 := by
      unfold nodal
      exact Finset.prod_ne_zero_iff.mpr (fun a _ => X_sub_C_ne_zero a)
    have hpos := integ_pos_of_nonneg (C c * (legPolyK ℝ n * nodal T))
      (mul_ne_zero (C_ne_zero.mpr hc) (mul_ne_zero hP hT0))
      (fun x hx => by rw [eval_mul, eval_C]; exact hsign x hx)
    rw [integ_C_mul, h0, mul_zero] at hpos
    exact lt_irrefl _ hpos
  have hA : (legPolyK ℝ n).roots.toFinset.card ≤ n := by
    refine (Multiset.toFinset_card_le _).trans ?_
    have := card_roots' (legPolyK ℝ n)
    rwa [legPolyK_natDegree] at this
  have hTA' : T = (legPolyK ℝ n).roots.toFinset := Finset.eq_of_subset_of_card_le hTA (hA.trans hle)
  refine ⟨T, le_antisymm ((Finset.card_le_card hTA).trans hA) hle, hTA', fun z hz => ⟨hTI z hz, ?_⟩⟩
  have := hTA hz
  rw [Multiset.mem_toFinset, mem_roots hP] at this
  exact this

/-- every real root of the coded `P_n` is simple (`n ≥ 1`) -/
theorem legendre_roots_nodup (n : ℕ) (hn : 0 < n) : (legPolyK ℝ n).roots.Nodup := by
  obtain ⟨s, hcard, hs, -⟩ := legendre_real_roots n hn
  have h1 : (legPolyK ℝ n).roots.toFinset.card = n := hs ▸ hcard
  have h2 : Multiset.card (legPolyK ℝ n).roots ≤ n := by
    have := card_roots' (legPolyK ℝ n)
    rwa [legPolyK_natDegree] at this
  have h3 := Multiset.toFinset_card_le (legPolyK ℝ n).roots
  exact Multiset.toFinset_card_eq_card_iff_nodup.mp (by omega)

/-! ### Gauss–Legendre over ℝ without hypotheses -/

/-- **gl_exact_legendre_real**: for every `n ≥ 1` there are `n` distinct real nodes in `(-1,1)` — the roots of the
    coded `P_n` — such that the rule with the CODED weights `2/((1−z²)pp(z)²)` integrates every real polynomial of
    degree `≤ 2n−1` exactly over `[-1,1]`; all weights are positive and they sum to `2`. -/
theorem gl_exact_legendre_real (n : ℕ) (hn : 0 < n) :
    ∃ s : Finset ℝ, s.card = n ∧
      (∀ z ∈ s, -1 < z ∧ z < 1 ∧ (legPolyK ℝ n).eval z = 0) ∧
      (∀ p : ℝ[X], p.natDegree < 2 * n → quad s (codedWeight n) p = integ p) ∧
      (∀ z ∈ s, 0 < codedWeight n z) ∧
      ∑ z ∈ s, codedWeight n z = 2 := by
  classical
  obtain ⟨s, hcard, -, hs⟩ := legendre_real_roots n hn
  have hroot : ∀ x ∈ s, (legPolyK ℝ n).eval x = 0 := fun x hx => (hs x hx).2
  have hexact := gl_exact_legendre n s hcard hroot
  refine ⟨s, hcard, fun z hz => ⟨(hs z hz).1.1, (hs z hz).1.2, (hs z hz).2⟩, hexact, ?_, ?_⟩
  · intro z hz
    have hint : ∀ r : ℝ[X], r.natDegree < n → quad s (interpWeight s) r = integ r := by
      intro r hr
      apply interp_weights_exact
      rw [hcard]
      by_cases h0 : r = 0
      · rw [h0, degree_zero]; exact WithBot.bot_lt_coe _
      · rw [degree_eq_natDegree h0]; exact_mod_cast hr
    obtain ⟨hne, -⟩ := gl_weight_formula n hn s (interpWeight s) hroot hint z hz
    have hz1 : 0 < 1 - z * z := by nlinarith [(hs z hz).1.1, (hs z hz).1.2]
    have hzz : z * z - 1 ≠ 0 := by linarith
    have hd : (derivative (legPolyK ℝ n)).eval z ≠ 0 := by
      intro h0; apply hne; rw [h0]; ring
    unfold codedWeight
    rw [ppK_eq_deriv n z hzz, mul_assoc]
    exact div_pos two_pos (mul_pos hz1 (mul_self_pos.mpr hd))
  · have h1 := hexact 1 (by rw [natDegree_one]; omega)
    unfold quad at h1
    simp only [eval_one, mul_one] at h1
    rw [h1, integ_one]

/-- the same on every interval `[a,b]`: nodes `m + h z`, weights `2h/((1−z²)pp²)` (sign of `b−a`), sum `b−a` -/
theorem gl_exact_legendre_real_interval (n : ℕ) (hn : 0 < n) (a b : ℝ) :
    ∃ s : Finset ℝ, s.card = n ∧ (∀ z ∈ s, -1 < z ∧ z < 1) ∧
      (∀ p : ℝ[X], p.natDegree < 2 * n →
        ∑ z ∈ s, 2 * ((b - a) / 2) / ((1 - z * z) * ppK n z * ppK n z) * p.eval ((a + b) / 2 + (b - a) / 2 * z)
          = integAB a b p) ∧
      ∑ z ∈ s, 2 * ((b - a) / 2) / ((1 - z * z) * ppK n z * ppK n z) = b - a := by
  classical
  obtain ⟨s, hcard, -, hs⟩ := legendre_real_roots n hn
  have hroot : ∀ x ∈ s, (legPolyK ℝ n).eval x = 0 := fun x hx => (hs x hx).2
  exact ⟨s, hcard, fun z hz => ⟨(hs z hz).1.1, (hs z hz).1.2⟩,
    fun p hp => gl_exact_legendre_interval n s hcard hroot a b p hp, gl_weights_sum n hn s hcard hroot a b⟩

end Lp.C12
