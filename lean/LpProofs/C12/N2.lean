import LpProofs.C12.Legendre
namespace Lp.C12

theorem legendreP_two (s : Rat) : legendreP 2 s = (3 * s * s - 1) / 2 ∧ (s * s - 1 ≠ 0 → legendreDeriv 2 s = 3 * s) := by
  have h1 : legendreP 2 s = (3 * s * s - 1) / 2 := by
    unfold legendreP
    rw [legPair_succ, legPair_succ, legPair_zero']
    norm_num
    try ring
  refine ⟨h1, ?_⟩
  intro hs
  unfold legendreDeriv ppOf
  rw [h1]
  have h2 : legendrePrev 2 s = s := by
    unfold legendrePrev
    rw [legPair_succ, legPair_succ, legPair_zero']
    norm_num
  rw [h2]
  have hs2 : s ^ 2 - 1 ≠ 0 := by rwa [pow_two]
  have hs3 : s * s - 1 ≠ 0 := hs
  rw [div_eq_iff hs3]
  ring

/-- **gl_n2_defect**: the two-point rule built from ANY candidate root value `s` (with the coded
    derivative `pp = P_2'(s) = 3s`) integrates every cubic with a defect that is `P_2(s)` times an
    expression regular at the root: the rule is exact to degree 3 = 2n−1 precisely because the
    iteration drives `P_2(s)` to zero (the root `1/√3` itself is irrational, so the statement is about
    the defect as a rational function of `s`). -/
theorem gl_n2_defect (a b c0 c1 c2 c3 s : Rat) (z pp : Nat → Rat) (hz : z 0 = s) (hp : pp 0 = 3 * s)
    (hs0 : s ≠ 0) (hs1 : 1 - s * s ≠ 0) :
    let m := (a + b) / 2
    let h := (b - a) / 2
    let pm := c0 + c1 * m + c2 * m * m + c3 * m * m * m
    let ppm := 2 * c2 + 6 * c3 * m
    glSum (fun x => c0 + c1 * x + c2 * x * x + c3 * x * x * x) 2 a b z pp
      - (c0 * (b - a) + c1 * (b ^ 2 - a ^ 2) / 2 + c2 * (b ^ 3 - a ^ 3) / 3 + c3 * (b ^ 4 - a ^ 4) / 4)
      = legendreP 2 s * (2 * (2 * h * pm * (3 * s * s - 2) / (9 * s * s * (1 - s * s)) + ppm * h * h * h / (9 * (1 - s * s)))) := by
  intro m h pm ppm
  have hn0 : node 2 a b z pp 0 = (a + b) / 2 - (b - a) / 2 * s := by
    unfold node
    rw [glTable_closed 2 a b z pp 0 (by norm_num)]
    simp [half, hz, xMiddle, xHalfWidth]; ring
  have hn1 : node 2 a b z pp 1 = (a + b) / 2 + (b - a) / 2 * s := by
    unfold node
    rw [glTable_closed 2 a b z pp 1 (by norm_num)]
    simp [half, hz, xMiddle, xHalfWidth]; ring
  have hw0 : weight 2 a b z pp 0 = (b - a) / ((1 - s * s) * (3 * s) * (3 * s)) := by
    unfold weight
    rw [glTable_closed 2 a b z pp 0 (by norm_num)]
    simp [rootIdx, half, hz, hp, weightOf, xHalfWidth]
    try ring
  have hw1 : weight 2 a b z pp 1 = (b - a) / ((1 - s * s) * (3 * s) * (3 * s)) := by
    unfold weight
    rw [glTable_closed 2 a b z pp 1 (by norm_num)]
    simp [rootIdx, half, hz, hp, weightOf, xHalfWidth]
    try ring
  rw [(legendreP_two s).1]
  unfold glSum
  simp only [List.range_succ, List.range_zero, List.nil_append, List.cons_append, List.foldl_cons, List.foldl_nil,
    hn0, hn1, hw0, hw1]
  simp only [m, h, pm, ppm]
  have h1' : 1 - s ^ 2 ≠ 0 := by rwa [pow_two]
  have h1'' : (1 - s * s) * (3 * s) * (3 * s) ≠ 0 := mul_ne_zero (mul_ne_zero hs1 (mul_ne_zero (by norm_num) hs0)) (mul_ne_zero (by norm_num) hs0)
  field_simp
  ring

example : (1 : Rat) - (1 / 2) * (1 / 2) ≠ 0 := by norm_num

end Lp.C12
