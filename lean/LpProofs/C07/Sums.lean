/-
  Helper lemmas for C07: the accumulation loops of the code are finite sums.
-/
import LpModel.C07
import Mathlib.Algebra.BigOperators.Group.Finset.Basic
import Mathlib.Algebra.BigOperators.Intervals
import Mathlib.Tactic.Ring
import Mathlib.Tactic.Linarith

namespace Lp.C07
open Finset

theorem foldl_range_add (f : Nat → Rat) (n : Nat) :
    (List.range n).foldl (fun acc i => acc + f i) 0 = ∑ i ∈ Finset.range n, f i := by
  induction n with
  | zero => simp
  | succ n ih => rw [List.range_succ, List.foldl_append, ih, Finset.sum_range_succ]; simp

theorem foldl_add_eq_sum {α : Type} (f : α → Rat) (l : List α) (z : Rat) :
    l.foldl (fun acc t => acc + f t) z = z + (l.map f).sum := by
  induction l generalizing z with
  | nil => simp
  | cons a r ih => simp only [List.foldl_cons, List.map_cons, List.sum_cons, ih]; ring

theorem exp_list_sum {α : Type} (T : Fn) (h0 : T.exp 0 = 1) (hadd : ∀ a b, T.exp (a + b) = T.exp a * T.exp b)
    (f : α → Rat) (l : List α) : T.exp ((l.map f).sum) = (l.map (fun t => T.exp (f t))).prod := by
  induction l with
  | nil => simpa using h0
  | cons a r ih => simp only [List.map_cons, List.sum_cons, List.prod_cons, hadd, ih]

theorem sumLog_eq (T : Fn) (lo n : Nat) :
    sumLog T lo n = ∑ k ∈ Finset.range (n + 1 - lo), T.log ((lo + k : Nat) : Rat) := by
  unfold sumLog; exact foldl_range_add _ _

/-- the loop from `j = 1` adds `log 1` to the loop from `i = 2` -/
theorem sumLog_one_two (T : Fn) (n : Nat) (hn : 1 ≤ n) : sumLog T 1 n = T.log 1 + sumLog T 2 n := by
  rw [sumLog_eq, sumLog_eq]
  have e1 : n + 1 - 1 = (n + 1 - 2) + 1 := by omega
  rw [e1, Finset.sum_range_succ']
  have : ∀ k, ((1 + (k + 1) : Nat) : Rat) = ((2 + k : Nat) : Rat) := by intro k; congr 1; omega
  simp only [this]
  simp [add_comm]

end Lp.C07
