/-
  Helper lemmas for C07: the exact integral of an interpolation (C08/C09 `pInteg`) scales with the prefactor.
-/
import LpProofs.C07.Sums
import LpProofs.C09.Object
import Mathlib.Tactic.Ring
namespace Lp.C07
open Lp.Interp Lp.C09

theorem list_sum_scale (p : Rat) (F G : Nat → Rat) (h : ∀ i, F i = p * G i) (l : List Nat) :
    (l.map F).sum = p * (l.map G).sum := by
  induction l with
  | nil => simp
  | cons a r ih => simp only [List.map_cons, List.sum_cons, ih, h a]; ring

theorem segSum_scale (o : Obj) (p : Rat) (i1 n : Nat) (lo hi : Rat) :
    segSum { o with pref := p } i1 n lo hi = p * segSum { o with pref := 1 } i1 n lo hi := by
  unfold segSum
  simp only []
  rw [foldl_add_eq_sum, foldl_add_eq_sum, zero_add, zero_add]
  apply list_sum_scale
  intro i
  have hx1 : ∀ q : Rat, ({ o with pref := q } : Obj).x = o.x := fun _ => rfl
  have hy1 : ∀ q : Rat, ({ o with pref := q } : Obj).y = o.y := fun _ => rfl
  simp only [hx1, hy1]
  ring

theorem pInteg_scale (o : Obj) (p a b : Rat) :
    pInteg { o with pref := p } a b = (pInteg { o with pref := 1 } a b).map (p * ·) := by
  have hx1 : ∀ q : Rat, ({ o with pref := q } : Obj).x = o.x := fun _ => rfl
  unfold pInteg pIntegCore
  simp only [hx1]
  split_ifs <;>
  · cases locateCanon o.N o.x _ with
    | error e => rfl
    | ok i1 =>
      cases locateCanon o.N o.x _ with
      | error e => rfl
      | ok i2 => simp only [Except.map]; rw [segSum_scale]; congr 1; ring

end Lp.C07
