/-
  C07 (coverage extension) — `PDF_Gauss_2D`: product of the two one-dimensional normal densities,
  non-negativity.  Hypotheses about `exp`, `sqrt`, `π` are stated only at the arguments used.
-/
import LpModel.C07
import Mathlib.Tactic.Ring
import Mathlib.Tactic.Linarith
import Mathlib.Tactic.FieldSimp
import Mathlib.Tactic.Positivity
namespace Lp.C07

/-- the exponent of the one-dimensional density at `x` -/
def gaussArg (x mu sigma : Rat) : Rat := -(((x - mu) / sigma) ^ 2) / 2

/-- **pdfGauss2D_eq_product**: `PDF_Gauss_2D(x, y, (μ₁,μ₂), (σ₁,σ₂)) = PDF_Gauss(x, μ₁, σ₁) · PDF_Gauss(y, μ₂, σ₂)`,
    given (at the arguments used only) that `exp` turns the sum of the two exponents into the product and that
    `sqrt(2π)² = 2π`; `σ₁, σ₂ ≠ 0`, `π ≠ 0`. -/
theorem pdfGauss2D_eq_product (T : Fn) (x y m1 m2 s1 s2 : Rat) (h1 : s1 ≠ 0) (h2 : s2 ≠ 0) (hpi : T.pi ≠ 0)
    (hsq : T.sqrt (2 * T.pi) * T.sqrt (2 * T.pi) = 2 * T.pi)
    (hexp : T.exp (gaussArg x m1 s1 + gaussArg y m2 s2) = T.exp (gaussArg x m1 s1) * T.exp (gaussArg y m2 s2)) :
    pdfGauss2D T x y m1 m2 s1 s2 = pdfGauss T x m1 s1 * pdfGauss T y m2 s2 := by
  have harg : -(1 / 2) * ((x - m1) * (x - m1) / s1 / s1 + (y - m2) * (y - m2) / s2 / s2)
      = gaussArg x m1 s1 + gaussArg y m2 s2 := by
    unfold gaussArg; field_simp; ring
  have hs0 : T.sqrt (2 * T.pi) ≠ 0 := by
    intro h; rw [h] at hsq; simp at hsq; exact hpi hsq
  unfold pdfGauss2D pdfGauss
  simp only
  rw [harg, hexp]
  have e1 : -((x - m1) / s1) ^ 2 / 2 = gaussArg x m1 s1 := rfl
  have e2 : -((y - m2) / s2) ^ 2 / 2 = gaussArg y m2 s2 := rfl
  rw [e1, e2]
  have key : 1 / 2 / T.pi / s1 / s2 = 1 / T.sqrt (2 * T.pi) / s1 * (1 / T.sqrt (2 * T.pi) / s2) := by
    have : 1 / T.sqrt (2 * T.pi) / s1 * (1 / T.sqrt (2 * T.pi) / s2) = 1 / (T.sqrt (2 * T.pi) * T.sqrt (2 * T.pi)) / s1 / s2 := by
      field_simp
    rw [this, hsq]; field_simp
  rw [key]; ring

/-- the hypotheses are met by a non-trivial instance: `exp ≡ 1` at the arguments, `sqrt(2π) = 2` for `π = 2` -/
example : ∃ T : Fn, T.pi ≠ 0 ∧ T.sqrt (2 * T.pi) * T.sqrt (2 * T.pi) = 2 * T.pi ∧
    T.exp (gaussArg 1 0 2 + gaussArg 3 1 1) = T.exp (gaussArg 1 0 2) * T.exp (gaussArg 3 1 1) :=
  ⟨⟨fun _ => 1, fun _ => 0, fun _ => 2, fun _ => 0, fun _ _ => 0, 2, fun _ => 0, fun _ => 0, fun _ _ => 0, fun _ _ => 0,
    fun _ _ => 0, fun _ => 0⟩, by norm_num, by norm_num, by norm_num⟩

/-- **pdfGauss2D_nonneg**: non-negative for positive widths, given `π > 0` and `exp ≥ 0` at the argument used -/
theorem pdfGauss2D_nonneg (T : Fn) (x y m1 m2 s1 s2 : Rat) (h1 : 0 < s1) (h2 : 0 < s2) (hpi : 0 < T.pi)
    (hexp : 0 ≤ T.exp (-(1 / 2) * ((x - m1) * (x - m1) / s1 / s1 + (y - m2) * (y - m2) / s2 / s2))) :
    0 ≤ pdfGauss2D T x y m1 m2 s1 s2 := by
  unfold pdfGauss2D
  exact mul_nonneg (div_nonneg (div_nonneg (div_nonneg (by norm_num) hpi.le) h1.le) h2.le) hexp

/-- as coded the sign follows `σ₁·σ₂`: widths of opposite sign give a non-positive "density" (no guard in the C++) -/
theorem pdfGauss2D_sign (T : Fn) (x y m1 m2 s1 s2 : Rat) (h : s1 * s2 < 0) (hpi : 0 < T.pi)
    (hexp : 0 ≤ T.exp (-(1 / 2) * ((x - m1) * (x - m1) / s1 / s1 + (y - m2) * (y - m2) / s2 / s2))) :
    pdfGauss2D T x y m1 m2 s1 s2 ≤ 0 := by
  unfold pdfGauss2D
  have : 1 / 2 / T.pi / s1 / s2 = 1 / 2 / T.pi / (s1 * s2) := by rw [div_div (1 / 2 / T.pi) s1 s2]
  rw [this]
  exact mul_nonpos_of_nonpos_of_nonneg (div_nonpos_of_nonneg_of_nonpos (div_nonneg (by norm_num) hpi.le) h.le) hexp

example : (1 : Rat) * (-1) < 0 := by norm_num

end Lp.C07
