/-
  C15 — property theorems: QR factors and eigenpairs satisfy their defining equations.
  The algebraic clauses are stated over Mathlib matrices (`Matrix n n ℚ`, any finite index type, i.e.
  every size); the clauses about the loops are stated on the executable model (`LpModel/C15.lean`).
  Definitions: `LpProofs/C15/Defs.lean`; bridging lemmas list model ↔ Mathlib: `LpProofs/C15/Bridge.lean`.
  End to end on the list model (no rounding, `sq` exact at exactly the arguments the run uses,
  `qrSqOK` / `eigSqOK`): `qr_list_model` (Q·R = M, QᵀQ = 1, R upper triangular, for every
  non-singular M), `eigenvalues_similar` / `eigenvalues_trace` (iterates of `Eigenvalues`).
  Convergence of the unshifted iteration and termination of inverse iteration are NOT theorems
  (correspondence / oracle only, DESIGN.md §6 C15).
-/
import LpModel.C15
import LpProofs.C15.Defs
import LpProofs.C15.Bridge
import LpProofs.C15.QR
import Mathlib.LinearAlgebra.Matrix.Trace
import Mathlib.LinearAlgebra.Matrix.Determinant.Basic
import Mathlib.LinearAlgebra.Matrix.NonsingularInverse
import Mathlib.LinearAlgebra.Matrix.Charpoly.Basic
import Mathlib.Tactic.Ring
import Mathlib.Tactic.LinearCombination
import Mathlib.Tactic.Linarith
import Mathlib.Tactic.FieldSimp
namespace Lp.C15
open Matrix

section Algebra
variable {n : Type} [Fintype n] [DecidableEq n]

theorem householder_orthogonal_symmetric (u : n → ℚ) (hu : u ⬝ᵥ u = 1) :
    (reflector u)ᵀ = reflector u ∧ reflector u * reflector u = 1 := by
  constructor
  · simp only [reflector, transpose_sub, transpose_one, transpose_smul, transpose_vecMulVec]
  · have h2 : vecMulVec u u * vecMulVec u u = vecMulVec u u := by
      rw [vecMulVec_mul_vecMulVec, hu, one_smul]
    simp only [reflector, sub_mul, mul_sub, one_mul, mul_one, smul_mul_assoc, mul_smul_comm, h2]
    ext i j
    simp only [Matrix.sub_apply, Matrix.smul_apply, smul_eq_mul]
    ring

/-- what the reflector does to a vector: `H x = x − 2 (u·x) u` -/
theorem reflector_mulVec (u x : n → ℚ) : reflector u *ᵥ x = x - (2 * (u ⬝ᵥ x)) • u := by
  simp only [reflector, sub_mulVec, one_mulVec, smul_mulVec, vecMulVec_mulVec]
  ext i
  simp only [Pi.sub_apply, Pi.smul_apply, MulOpposite.smul_eq_mul_unop, MulOpposite.unop_op, smul_eq_mul]
  ring

/-- **Householder maps the column to a multiple of e₁**: with `α² = x·x`, `w = x − α e`,
    `N² = w·w ≠ 0` and `u = w/N`: `(1 − 2uuᵀ) x = α e` (for either sign of `α`; the code takes
    `α = −sign(x₀)‖x‖`, which makes `w ≠ 0` whenever `x ≠ 0`, see `hh_no_cancellation`). -/
theorem householder_maps_to_e1 (x : n → ℚ) (i0 : n) (α N : ℚ) (hα : α * α = x ⬝ᵥ x)
    (hN : N * N = (x - α • Pi.single i0 1) ⬝ᵥ (x - α • Pi.single i0 1)) (hN0 : N ≠ 0) :
    reflector (N⁻¹ • (x - α • Pi.single i0 1)) *ᵥ x = α • Pi.single i0 1 := by
  set e : n → ℚ := Pi.single i0 1 with he
  have hee : e ⬝ᵥ e = 1 := by simp [he]
  have hex : e ⬝ᵥ x = x i0 := by simp [he]
  have hxe : x ⬝ᵥ e = x i0 := by simp [he]
  -- w·w = 2 (w·x)
  have hww : (x - α • e) ⬝ᵥ (x - α • e) = 2 * ((x - α • e) ⬝ᵥ x) := by
    simp only [sub_dotProduct, dotProduct_sub, smul_dotProduct, dotProduct_smul, smul_eq_mul, hee, hex, hxe]
    linear_combination hα
  rw [reflector_mulVec, smul_dotProduct, smul_eq_mul]
  have hcoef : 2 * (N⁻¹ * ((x - α • e) ⬝ᵥ x)) * N⁻¹ = 1 := by
    have : 2 * ((x - α • e) ⬝ᵥ x) = N * N := by rw [hN, hww]
    field_simp
    linear_combination this
  rw [smul_smul, hcoef, one_smul]
  abel

/-! ### the QR loop: `R ← P·R`, `Q ← Q·P` for a sequence of symmetric orthogonal `P` -/

/-- `Q·R = M` and `QᵀQ = 1` for **every** sequence of symmetric orthogonal `P_i`
    (`Q = P₁⋯P_k`, `R = P_k⋯P₁·M`), from any state satisfying the invariant -/
theorem qr_product_inv (Ps : List (Matrix n n ℚ)) (hP : ∀ P ∈ Ps, Pᵀ = P ∧ P * P = 1)
    (M Q R : Matrix n n ℚ) (hQR : Q * R = M) (hQ : Qᵀ * Q = 1) :
    (qrFold Ps (Q, R)).1 * (qrFold Ps (Q, R)).2 = M ∧ (qrFold Ps (Q, R)).1ᵀ * (qrFold Ps (Q, R)).1 = 1 := by
  induction Ps generalizing Q R with
  | nil => exact ⟨hQR, hQ⟩
  | cons P Ps ih =>
    have hPs : ∀ P' ∈ Ps, P'ᵀ = P' ∧ P' * P' = 1 := fun P' h => hP P' (List.mem_cons_of_mem _ h)
    obtain ⟨hPt, hPP⟩ := hP P List.mem_cons_self
    simp only [qrFold, List.foldl_cons]
    apply ih hPs
    · calc Q * P * (P * R) = Q * (P * P) * R := by simp only [Matrix.mul_assoc]
        _ = M := by rw [hPP, Matrix.mul_one, hQR]
    · calc (Q * P)ᵀ * (Q * P) = Pᵀ * (Qᵀ * Q) * P := by simp only [transpose_mul, Matrix.mul_assoc]
        _ = 1 := by rw [hQ, Matrix.mul_one, hPt, hPP]

theorem qr_product (Ps : List (Matrix n n ℚ)) (hP : ∀ P ∈ Ps, Pᵀ = P ∧ P * P = 1) (M : Matrix n n ℚ) :
    (qrFold Ps (1, M)).1 * (qrFold Ps (1, M)).2 = M ∧ (qrFold Ps (1, M)).1ᵀ * (qrFold Ps (1, M)).1 = 1 :=
  qr_product_inv Ps hP M 1 M (Matrix.one_mul M) (by simp)

/-- the block embedding `[[1,0],[0,P]]` of a symmetric orthogonal reflector is symmetric orthogonal -/
theorem embed_symm_orth {m k : Type} [Fintype m] [DecidableEq m] [Fintype k] [DecidableEq k]
    (P : Matrix k k ℚ) (hPt : Pᵀ = P) (hPP : P * P = 1) :
    (fromBlocks (1 : Matrix m m ℚ) 0 0 P)ᵀ = fromBlocks 1 0 0 P ∧
      fromBlocks (1 : Matrix m m ℚ) 0 0 P * fromBlocks 1 0 0 P = 1 := by
  constructor
  · rw [fromBlocks_transpose, transpose_one, transpose_zero, transpose_zero, hPt]
  · rw [fromBlocks_multiply]
    simp only [Matrix.one_mul, Matrix.mul_zero, Matrix.zero_mul, add_zero, zero_add, hPP, fromBlocks_one]

/-- **sign gauge of a QR factorisation.**  For a diagonal matrix `D` of signs (`d i * d i = 1`):
    `(Q·D)·(D·R) = Q·R`, `Q·D` is orthogonal iff `Q` is (here: if), and `D·R` is upper triangular
    with `R`.  So every clause of the property (product, orthogonality, triangularity) is invariant
    under flipping column `k` of `Q` together with row `k` of `R`; the property does not fix the
    signs of `diag R`, and the comparator compares implementation and model in the gauge `R k k ≥ 0`. -/
theorem qr_sign_gauge {n : Type} [Fintype n] [LinearOrder n]
    (Q R : Matrix n n ℚ) (d : n → ℚ) (hd : ∀ i, d i * d i = 1) :
    (Q * Matrix.diagonal d) * (Matrix.diagonal d * R) = Q * R ∧
    (Qᵀ * Q = 1 → (Q * Matrix.diagonal d)ᵀ * (Q * Matrix.diagonal d) = 1) ∧
    ((∀ i j, j < i → R i j = 0) → ∀ i j, j < i → (Matrix.diagonal d * R) i j = 0) ∧
    (∀ k, (Matrix.diagonal d * R) k k = d k * R k k) := by
  have hDD : Matrix.diagonal d * Matrix.diagonal d = (1 : Matrix n n ℚ) := by
    rw [Matrix.diagonal_mul_diagonal]
    simp only [hd]
    exact Matrix.diagonal_one
  refine ⟨?_, ?_, ?_, ?_⟩
  · calc Q * Matrix.diagonal d * (Matrix.diagonal d * R) = Q * (Matrix.diagonal d * Matrix.diagonal d) * R := by
          simp only [Matrix.mul_assoc]
      _ = Q * R := by rw [hDD, Matrix.mul_one]
  · intro hQ
    calc (Q * Matrix.diagonal d)ᵀ * (Q * Matrix.diagonal d) = Matrix.diagonal d * (Qᵀ * Q) * Matrix.diagonal d := by
          simp only [transpose_mul, Matrix.diagonal_transpose, Matrix.mul_assoc]
      _ = 1 := by rw [hQ, Matrix.mul_one, hDD]
  · intro hR i j hji
    rw [Matrix.diagonal_mul, hR i j hji, mul_zero]
  · intro k
    rw [Matrix.diagonal_mul]

/-! ### one step `A ↦ R·Q` of the unshifted QR algorithm is an orthogonal similarity -/

theorem qrStep_similar (A Q R : Matrix n n ℚ) (hA : Q * R = A) (hQ : Qᵀ * Q = 1) :
    R * Q = Qᵀ * A * Q ∧ trace (R * Q) = trace A ∧ det (R * Q) = det A ∧
      (R * Q).charpoly = A.charpoly ∧ (Aᵀ = A → (R * Q)ᵀ = R * Q) := by
  have hsim : R * Q = Qᵀ * A * Q := by
    rw [← hA, ← Matrix.mul_assoc, hQ, Matrix.one_mul]
  refine ⟨hsim, ?_, ?_, ?_, ?_⟩
  · rw [trace_mul_comm, hA]
  · rw [det_mul, mul_comm, ← det_mul, hA]
  · rw [charpoly_mul_comm, hA]
  · intro hs
    rw [hsim]
    simp only [transpose_mul, transpose_transpose, hs, Matrix.mul_assoc]

/-- whatever iterate `Eigenvalues` stops at: trace, determinant and characteristic polynomial are
    those of the matrix it was given (so the returned diagonal sums to the trace exactly, and
    multiplies to the determinant up to the sub-diagonal mass it tolerates) -/
theorem qrIter_invariants (A B : Matrix n n ℚ) (h : Relation.ReflTransGen IsQRStep A B) :
    B.charpoly = A.charpoly ∧ trace B = trace A ∧ det B = det A ∧ (Aᵀ = A → Bᵀ = B) := by
  induction h with
  | refl => exact ⟨rfl, rfl, rfl, id⟩
  | tail _ hstep ih =>
    obtain ⟨Q, R, hA, hQ, rfl⟩ := hstep
    obtain ⟨_, h2, h3, h4, h5⟩ := qrStep_similar _ Q R hA hQ
    exact ⟨h4.trans ih.1, h2.trans ih.2.1, h3.trans ih.2.2.1, fun hs => h5 (ih.2.2.2 hs)⟩

end Algebra
/-! ### the model: sign convention of `alpha`, no cancellation, the Rayleigh loop -/

/-- `alpha = Sign(‖x‖, −x₀)` is `−sign(x₀)·‖x‖`, with `−‖x‖` for `x₀ = 0` -/
theorem sign2_alpha (nx x0 : Rat) (hnx : 0 < nx) :
    sign2 nx (-x0) = if x0 < 0 then nx else -nx := by
  unfold sign2 sign1
  have h1 : nx > 0 := hnx
  by_cases hneg : x0 < 0
  · have : -x0 > 0 := by linarith
    simp [h1, this, hneg]
  · by_cases h0 : x0 = 0
    · subst h0; simp [h1]
    · have hpos : 0 < x0 := lt_of_le_of_ne (not_lt.mp hneg) (Ne.symm h0)
      have h2 : ¬ (-x0 > 0) := by intro h; linarith
      have h3 : ¬ (-x0 = 0) := by intro h; apply h0; linarith
      simp [h1, h2, h3, hneg]

/-- with that sign there is no cancellation in `w = x − alpha·e₁`: `‖w‖² = 2(‖x‖² + |x₀|·‖x‖) > 0`
    for every non-zero column, so `u.Normalize()` divides by zero only for a zero column
    (`xx` stands for `x·x`, `nx` for its root). -/
theorem hh_no_cancellation (xx nx x0 : Rat) (hnx : 0 < nx) (hsq : nx * nx = xx) :
    let alpha := sign2 nx (-x0)
    alpha * alpha = xx ∧ xx - 2 * alpha * x0 + alpha * alpha = 2 * (xx + rabs x0 * nx) ∧
      0 < xx - 2 * alpha * x0 + alpha * alpha := by
  intro alpha
  have ha : alpha = if x0 < 0 then nx else -nx := sign2_alpha nx x0 hnx
  have hxx : 0 < xx := by rw [← hsq]; exact mul_pos hnx hnx
  by_cases hneg : x0 < 0
  · rw [if_pos hneg] at ha
    have hr : rabs x0 = -x0 := by simp [rabs, hneg]
    rw [ha, hr]
    refine ⟨hsq, by linear_combination hsq, ?_⟩
    nlinarith [mul_pos hnx (neg_pos.mpr hneg)]
  · rw [if_neg hneg] at ha
    have hr : rabs x0 = x0 := by simp [rabs, hneg]
    rw [ha, hr]
    refine ⟨by linear_combination hsq, by linear_combination hsq, ?_⟩
    nlinarith [mul_nonneg hnx.le (not_lt.mp hneg)]

/-- **Rayleigh loop, exit condition**: if `Find_Eigenvector_Rayleigh` returns `(b, λ)` then `b` is the
    normalisation of a vector (hence a unit vector, `normalize_unit`) and `λ` is its Rayleigh
    quotient `b·(M b)` — for every matrix, shift, `Inverse` and amount of fuel.  (That `b` is an
    eigenvector is *not* implied: the loop only compares successive iterates.) -/
theorem rayleigh_fixed_point (sq : Rat → Rat) (inv : Nat → Mat → Option Mat) (n : Nat) (M : Mat)
    (fuel : Nat) (b0 : List Rat) (ev0 : Rat) (it0 : Nat) (b : List Rat) (ev : Rat) (it : Nat)
    (h : rayleighLoop sq inv n M fuel b0 ev0 it0 = .ok b ev it) :
    (∃ v, b = normalize sq n v) ∧ ev = dotL n b (matVec n M b) := by
  induction fuel generalizing b0 ev0 it0 with
  | zero => simp [rayleighLoop] at h
  | succ f ih =>
    simp only [rayleighLoop] at h
    split at h
    · simp at h
    · rename_i X hX
      split at h
      · exact ih _ _ _ h
      · simp only [RayOut.ok.injEq] at h
        obtain ⟨hb, hev, _⟩ := h
        subst hb
        exact ⟨⟨_, rfl⟩, hev.symm⟩

theorem findEigenvectorRayleigh_spec (sq : Rat → Rat) (inv : Nat → Mat → Option Mat) (n : Nat) (M : Mat)
    (ev0 : Rat) (fuel : Nat) (b : List Rat) (ev : Rat) (it : Nat)
    (h : findEigenvectorRayleigh sq inv n M ev0 fuel = .ok b ev it) :
    (∃ v, b = normalize sq n v) ∧ ev = dotL n b (matVec n M b) :=
  rayleigh_fixed_point sq inv n M fuel _ _ _ b ev it h

/-- `b.Normalize()` yields a unit vector whenever the norm is the exact non-zero root -/
theorem normalize_unit (sq : Rat → Rat) (n : Nat) (v : List Rat)
    (hsq : sq (dotL n v v) * sq (dotL n v v) = dotL n v v) (h0 : dotL n v v ≠ 0) :
    dotL n (normalize sq n v) (normalize sq n v) = 1 := by
  have hN0 : sq (dotL n v v) ≠ 0 := by
    intro h; rw [h] at hsq; exact h0 (by linarith)
  set N := sq (dotL n v v) with hN
  have hget : ∀ i, (normalize sq n v).getD i 0 = v.getD i 0 / N := by
    intro i
    simp only [normalize, ← hN, List.getD_eq_getElem?_getD, List.getElem?_map]
    cases v[i]? <;> simp
  have hsum : dotL n (normalize sq n v) (normalize sq n v)
      = sumTo n (fun i => (1 / (N * N)) * (v.getD i 0 * v.getD i 0)) := by
    unfold dotL
    congr 1
    funext i
    rw [hget]
    field_simp
  rw [hsum, sumTo_mul]
  have : sumTo n (fun i => v.getD i 0 * v.getD i 0) = dotL n v v := rfl
  rw [this, ← hsq]
  field_simp

/-- the convergence test of `Eigenvalues` as an inequality: no sub-diagonal mass at all (0850cf3), or the
    sub-diagonal mass is below `1e-12` of the diagonal mass -/
theorem converged_spec (n : Nat) (A : Mat) (h : converged n A = true) :
    offSum n A = 0 ∨ offSum n A < convThreshold * diagSum n A := by
  simp only [converged, decide_eq_true_eq] at h
  rcases h with h | ⟨h0, h1⟩
  · exact Or.inl h
  right
  have hd : 0 ≤ diagSum n A := by
    unfold diagSum sumTo
    have : ∀ (l : List Nat) (acc : Rat), 0 ≤ acc →
        0 ≤ l.foldl (fun acc k => acc + rabs (get A k k)) acc := by
      intro l
      induction l with
      | nil => intro acc h; exact h
      | cons a l ih =>
        intro acc h
        apply ih
        have : 0 ≤ rabs (get A a a) := by unfold rabs; split <;> linarith
        linarith
    exact this _ 0 (le_refl 0)
  have hpos : 0 < diagSum n A := lt_of_le_of_ne hd (Ne.symm h0)
  rwa [div_lt_iff₀ hpos] at h1

theorem eigLoop_spec (sq rnd : Rat → Rat) (n i left : Nat) (A : Mat) (l : List Rat) (k : Nat)
    (h : eigLoop sq rnd n i left A = .ok l k) :
    ∃ j A', 1 ≤ j ∧ j ≤ left ∧ k = i + j ∧ 11 < k ∧ qrIterate sq rnd n j A = some A' ∧
      converged n A' = true ∧ l = diagonal n A' := by
  induction left generalizing i A with
  | zero => simp [eigLoop] at h
  | succ f ih =>
    simp only [eigLoop] at h
    split at h
    · simp at h
    · rename_i A' hA'
      split at h
      · rename_i hc
        simp only [EigOut.ok.injEq] at h
        obtain ⟨hl, hk⟩ := h
        exact ⟨1, A', le_refl 1, by omega, hk.symm, by omega, by simp [qrIterate, hA'], hc.2, hl.symm⟩
      · obtain ⟨j, B, hj1, hj2, hk, hk11, hit, hc, hl⟩ := ih _ _ h
        exact ⟨j + 1, B, by omega, by omega, by omega, hk11, by simp [qrIterate, hA', hit], hc, hl⟩

/-- **what `Eigenvalues` returns**: the diagonal of the iterate after `k` QR steps, `12 ≤ k ≤ 200`,
    the first one (from the 12th on) that passes the convergence test -/
theorem eigenvalues_spec (sq rnd : Rat → Rat) (n : Nat) (M : Mat) (l : List Rat) (k : Nat)
    (h : eigenvalues sq rnd n M = .ok l k) :
    ∃ A', 12 ≤ k ∧ k ≤ 200 ∧ qrIterate sq rnd n k M = some A' ∧ converged n A' = true ∧ l = diagonal n A' := by
  obtain ⟨j, A', hj1, hj2, hk, hk11, hit, hc, hl⟩ := eigLoop_spec sq rnd n 0 200 M l k h
  have : k = j := by omega
  subst this
  exact ⟨A', by omega, hj2, hit, hc, hl⟩

/-- **the model's `Householder_Matrix` (no rounding) is the reflector `1 − 2uuᵀ` of `u = w/‖w‖`** -/
theorem toM_householder_refl (sq : Rat → Rat) (k : Nat) (A H : Mat) (h : householderRefl sq id k A = some H) :
    hhNw sq k A ≠ 0 ∧ toM k H = reflector (fun i => hhWvec sq k A i / hhNw sq k A) := by
  have hw : ∀ i, i < k → ((List.range k).map fun i => get A i 0 - hhAlpha sq k A * delta i 0).getD i 0
      = get A i 0 - hhAlpha sq k A * delta i 0 := by
    intro i hi
    simp [List.getD_eq_getElem?_getD, hi]
  have hsum : (sumTo k fun i => ((List.range k).map fun i => get A i 0 - hhAlpha sq k A * delta i 0).getD i 0 *
      ((List.range k).map fun i => get A i 0 - hhAlpha sq k A * delta i 0).getD i 0)
      = sumTo k fun i => hhW sq k A i * hhW sq k A i := by
    rw [sumTo_eq_sum, sumTo_eq_sum]
    apply Finset.sum_congr rfl
    intro i _
    rw [hw i i.2]; rfl
  simp only [householderRefl] at h
  rw [hsum] at h
  split at h
  · simp at h
  · rename_i hne
    refine ⟨hne, ?_⟩
    simp only [Option.some.injEq] at h
    subst h
    ext i j
    simp only [toM, reflector, Matrix.sub_apply, Matrix.smul_apply, vecMulVec_apply, smul_eq_mul, id]
    rw [get_tab k _ i j i.2 j.2]
    have hu : ∀ i, i < k → (((List.range k).map fun i => get A i 0 - hhAlpha sq k A * delta i 0).map
        fun x => x / sq (sumTo k fun i => hhW sq k A i * hhW sq k A i)).getD i 0
        = (get A i 0 - hhAlpha sq k A * delta i 0) / hhNw sq k A := by
      intro i hi
      simp [List.getD_eq_getElem?_getD, hi, hhNw]
    rw [hu i i.2, hu j j.2]
    simp only [hhWvec, delta, Matrix.one_apply, Fin.ext_iff]

/-- … hence symmetric and orthogonal when the norm is the exact root -/
theorem toM_householder_orthogonal_refl (sq : Rat → Rat) (k : Nat) (A H : Mat) (h : householderRefl sq id k A = some H)
    (hsq : hhNw sq k A * hhNw sq k A = sumTo k fun i => hhW sq k A i * hhW sq k A i) :
    (toM k H)ᵀ = toM k H ∧ toM k H * toM k H = 1 := by
  obtain ⟨hne, hH⟩ := toM_householder_refl sq k A H h
  rw [hH]
  apply householder_orthogonal_symmetric
  simp only [dotProduct, hhWvec]
  rw [sumTo_eq_sum] at hsq
  have : ∀ i : Fin k, (get A i 0 - hhAlpha sq k A * delta i 0) / hhNw sq k A * ((get A i 0 - hhAlpha sq k A * delta i 0) / hhNw sq k A)
      = (hhW sq k A i * hhW sq k A i) / (hhNw sq k A * hhNw sq k A) := by
    intro i; simp only [hhW]; field_simp
  have h2 : ∀ i : Fin k, hhW sq k A i * hhW sq k A i / (hhNw sq k A * hhNw sq k A)
      = hhW sq k A i * hhW sq k A i * (hhNw sq k A * hhNw sq k A)⁻¹ := fun i => div_eq_mul_inv _ _
  simp only [this, h2]
  rw [← Finset.sum_mul, ← hsq]
  field_simp

/-! ### `QR_Decomposition` on the list model, end to end (no rounding, exact square roots) -/

/-- `alpha² = ‖x‖²` whichever sign `Sign(‖x‖, −x₀)` picks -/
theorem hhAlpha_sq (sq : Rat → Rat) (k : Nat) (A : Mat)
    (h : sq (colSq k A) * sq (colSq k A) = colSq k A) :
    hhAlpha sq k A * hhAlpha sq k A = colSq k A := by
  have : hhAlpha sq k A = sq (colSq k A) ∨ hhAlpha sq k A = - sq (colSq k A) := by
    unfold hhAlpha sign2
    rw [show (sumTo k fun i => get A i 0 * get A i 0) = colSq k A from rfl]
    split <;> simp
  rcases this with h1 | h1 <;> rw [h1] <;> linear_combination h

/-- **the model's reflector maps the first column of the sub-matrix to `alpha·e₁`**
    (`householder_maps_to_e1` applied to the list model) -/
theorem householder_maps_col_refl (sq : Rat → Rat) (k : Nat) (A P : Mat) (hk : 0 < k)
    (hP : householderRefl sq id k A = some P)
    (hα : sq (colSq k A) * sq (colSq k A) = colSq k A)
    (hN : sq (wSq sq k A) * sq (wSq sq k A) = wSq sq k A) :
    toM k P *ᵥ (fun i : Fin k => get A i 0) = hhAlpha sq k A • Pi.single (⟨0, hk⟩ : Fin k) 1 := by
  obtain ⟨hne, hH⟩ := toM_householder_refl sq k A P hP
  have hw : (fun i : Fin k => hhWvec sq k A i)
      = (fun i : Fin k => get A i 0) - hhAlpha sq k A • Pi.single (⟨0, hk⟩ : Fin k) 1 := by
    funext i
    simp [hhWvec, delta, Pi.single_apply, Fin.ext_iff]
  have hu : (fun i : Fin k => hhWvec sq k A i / hhNw sq k A)
      = (hhNw sq k A)⁻¹ • ((fun i : Fin k => get A i 0) - hhAlpha sq k A • Pi.single (⟨0, hk⟩ : Fin k) 1) := by
    rw [← hw]
    funext i
    simp [div_eq_inv_mul]
  rw [hH, hu]
  refine householder_maps_to_e1 (fun i : Fin k => get A i 0) ⟨0, hk⟩ (hhAlpha sq k A) (hhNw sq k A) ?_ ?_ hne
  · rw [hhAlpha_sq sq k A hα, colSq, sumTo_eq_sum]
    simp only [dotProduct]
  · rw [← hw]
    have : hhNw sq k A = sq (wSq sq k A) := rfl
    rw [this, hN, wSq, sumTo_eq_sum]
    simp only [dotProduct, hhWvec, hhW]

/-- … so the product `P_sub·R_sub` has a zero first column below its first entry -/
theorem householder_col_zero_refl (sq : Rat → Rat) (k : Nat) (A P : Mat)
    (hP : householderRefl sq id k A = some P)
    (hα : sq (colSq k A) * sq (colSq k A) = colSq k A)
    (hN : sq (wSq sq k A) * sq (wSq sq k A) = wSq sq k A) :
    ∀ a, 0 < a → a < k → get (mul id k P A) a 0 = 0 := by
  intro a ha0 hak
  have hk : 0 < k := by omega
  have h1 : get (mul id k P A) a 0 = (toM k P * toM k A) ⟨a, hak⟩ ⟨0, hk⟩ := by
    rw [← toM_mul]; rfl
  have h2 : (toM k P * toM k A) ⟨a, hak⟩ ⟨0, hk⟩ = (toM k P *ᵥ (fun i : Fin k => get A i 0)) ⟨a, hak⟩ := rfl
  rw [h1, h2, householder_maps_col_refl sq k A P hk hP hα hN]
  have : (⟨a, hak⟩ : Fin k) ≠ ⟨0, hk⟩ := by
    intro h; rw [Fin.ext_iff] at h; simp at h; omega
  simp [this]

/-- `Householder_Matrix` as coded since e9c6d4b: the identity for a zero column, else the reflector -/
theorem householder_cases (sq rnd : Rat → Rat) (k : Nat) (A P : Mat) (h : householder sq rnd k A = some P) :
    (sq (colSq k A) = 0 ∧ P = ident k) ∨ (sq (colSq k A) ≠ 0 ∧ householderRefl sq rnd k A = some P) := by
  unfold householder at h
  split at h
  · rename_i h0
    left
    exact ⟨h0, by simpa using h.symm⟩
  · rename_i h0
    right
    exact ⟨h0, h⟩

/-- every `P_sub` the loop uses is symmetric and orthogonal — the identity of a zero column included -/
theorem toM_householder_orthogonal (sq : Rat → Rat) (k : Nat) (A H : Mat) (h : householder sq id k A = some H)
    (hsq : hhNw sq k A * hhNw sq k A = sumTo k fun i => hhW sq k A i * hhW sq k A i) :
    (toM k H)ᵀ = toM k H ∧ toM k H * toM k H = 1 := by
  rcases householder_cases sq id k A H h with ⟨_, rfl⟩ | ⟨_, hr⟩
  · rw [toM_ident]; simp
  · exact toM_householder_orthogonal_refl sq k A H hr hsq

/-- `P_sub·R_sub` has a zero first column below its first entry — for the identity of a zero column
    because the column is zero (`Householder_Matrix` then "maps" `x = 0` to `alpha·e₁` with `alpha = 0`) -/
theorem householder_col_zero (sq : Rat → Rat) (k : Nat) (A P : Mat)
    (hP : householder sq id k A = some P)
    (hα : sq (colSq k A) * sq (colSq k A) = colSq k A)
    (hN : sq (wSq sq k A) * sq (wSq sq k A) = wSq sq k A) :
    ∀ a, 0 < a → a < k → get (mul id k P A) a 0 = 0 := by
  rcases householder_cases sq id k A P hP with ⟨h0, rfl⟩ | ⟨_, hr⟩
  · intro a ha0 hak
    have hc : colSq k A = 0 := by rw [← hα, h0]; ring
    have hz := sumTo_sq_eq_zero k (fun c => get A c 0) hc
    have hk : 0 < k := by omega
    have h1 : get (mul id k (ident k) A) a 0 = (toM k (ident k) * toM k A) ⟨a, hak⟩ ⟨0, hk⟩ := by
      rw [← toM_mul]; rfl
    rw [h1, toM_ident, Matrix.one_mul]
    exact hz a hak
  · exact householder_col_zero_refl sq k A P hr hα hN

/-- **each step's `P`** (block embedding `[[1,0],[0,P_sub]]` of the reflector of the current
    sub-matrix) **is symmetric and orthogonal** -/
theorem qr_P_symm_orth (sq : Rat → Rat) (n i : Nat) (hi : i ≤ n) (Rsub P : Mat)
    (hP : householder sq id (n - i) Rsub = some P)
    (hN : sq (wSq sq (n - i) Rsub) * sq (wSq sq (n - i) Rsub) = wSq sq (n - i) Rsub) :
    (toM n (embed n i P))ᵀ = toM n (embed n i P) ∧ toM n (embed n i P) * toM n (embed n i P) = 1 := by
  have hPo := toM_householder_orthogonal sq (n - i) Rsub P hP hN
  exact toM_embed_symm_orth n i hi P hPo.1 hPo.2

/-- **one iteration of the loop of `QR_Decomposition` preserves the invariant** `QRInv`
    (`Q·R = M`, `Q` orthogonal, first `i` columns of `R` upper triangular, `R_submatrix` = trailing
    block of `R`); in particular the explicit zeroing changes nothing (`zeroBelow_noop`). -/
theorem qr_step_inv (sq : Rat → Rat) (n i : Nat) (hi : i < n) (M Q R Rsub P : Mat)
    (inv : QRInv n i M Q R Rsub) (hP : householder sq id (n - i) Rsub = some P)
    (hα : sq (colSq (n - i) Rsub) * sq (colSq (n - i) Rsub) = colSq (n - i) Rsub)
    (hN : sq (wSq sq (n - i) Rsub) * sq (wSq sq (n - i) Rsub) = wSq sq (n - i) Rsub) :
    QRInv n (i + 1) M (mul id n Q (embed n i P)) (zeroBelow n i (mul id n (embed n i P) R))
      (sub00 (n - i) (mul id (n - i) P Rsub)) := by
  have hcol := householder_col_zero sq (n - i) Rsub P hP hα hN
  have hPo := toM_householder_orthogonal sq (n - i) Rsub P hP hN
  obtain ⟨hEt, hEE⟩ := toM_embed_symm_orth n i hi.le P hPo.1 hPo.2
  have hR' : toM n (zeroBelow n i (mul id n (embed n i P) R)) = toM n (embed n i P) * toM n R := by
    rw [← toM_mul]
    exact toM_congr n _ _ (fun a b ha hb => zeroBelow_noop n i hi P R Rsub inv.sub hcol a b ha hb)
  refine ⟨?_, ?_, ?_, ?_⟩
  · rw [hR', toM_mul]
    calc toM n Q * toM n (embed n i P) * (toM n (embed n i P) * toM n R)
        = toM n Q * (toM n (embed n i P) * toM n (embed n i P)) * toM n R := by
          simp only [Matrix.mul_assoc]
      _ = toM n M := by rw [hEE, Matrix.mul_one, inv.prod]
  · rw [toM_mul]
    calc (toM n Q * toM n (embed n i P))ᵀ * (toM n Q * toM n (embed n i P))
        = (toM n (embed n i P))ᵀ * ((toM n Q)ᵀ * toM n Q) * toM n (embed n i P) := by
          simp only [transpose_mul, Matrix.mul_assoc]
      _ = 1 := by rw [inv.orth, Matrix.mul_one, hEt, hEE]
  · intro a b ha hb hba
    exact step_upper n i hi P R Rsub inv.upper inv.sub hcol a b ha hb hba
  · intro a b ha hb
    exact step_sub n i hi P R Rsub inv.sub hcol a b ha hb

/-- `‖x − alpha·e₁‖² = ‖x‖² − 2·alpha·x₀ + alpha²` -/
theorem wSq_eq (sq : Rat → Rat) (k : Nat) (A : Mat) (hk : 0 < k) :
    wSq sq k A = colSq k A - 2 * hhAlpha sq k A * get A 0 0 + hhAlpha sq k A * hhAlpha sq k A := by
  unfold wSq colSq
  rw [sumTo_split 1 k hk, sumTo_split 1 k hk (fun i => get A i 0 * get A i 0)]
  have h : sumTo (k - 1) (fun c => hhW sq k A (c + 1) * hhW sq k A (c + 1))
      = sumTo (k - 1) (fun c => get A (c + 1) 0 * get A (c + 1) 0) :=
    sumTo_congr _ _ _ (fun c _ => by simp [hhW, delta])
  rw [h]
  simp only [sumTo, List.range_one, List.foldl_cons, List.foldl_nil, hhW, delta, if_true]
  ring

/-- **`Householder_Matrix` does not divide by zero on a non-zero column** (exact roots): with the
    coded sign of `alpha` there is no cancellation in `x − alpha·e₁` (`hh_no_cancellation`). -/
theorem householder_isSome_refl (sq : Rat → Rat) (k : Nat) (A : Mat) (hk : 0 < k)
    (h1 : SqAt sq (colSq k A)) (h2 : SqAt sq (wSq sq k A)) (h0 : colSq k A ≠ 0) :
    ∃ P, householderRefl sq id k A = some P := by
  have hnx : 0 < sq (colSq k A) := by
    rcases lt_or_eq_of_le h1.sq_nonneg with h | h
    · exact h
    · exfalso; apply h0; rw [← h1.sq_mul, ← h]; ring
  have hpos := (hh_no_cancellation (colSq k A) (sq (colSq k A)) (get A 0 0) hnx h1.sq_mul).2.2
  have hw : 0 < wSq sq k A := by
    rw [wSq_eq sq k A hk]
    exact hpos
  have hne : hhNw sq k A ≠ 0 := by
    intro h
    have h3 := h2.sq_mul
    rw [show sq (wSq sq k A) = hhNw sq k A from rfl, h] at h3
    linarith
  have hwl : ∀ i, i < k → ((List.range k).map fun i => get A i 0 - hhAlpha sq k A * delta i 0).getD i 0
      = get A i 0 - hhAlpha sq k A * delta i 0 := by
    intro i hi
    simp [List.getD_eq_getElem?_getD, hi]
  have hsum : (sumTo k fun i => ((List.range k).map fun i => get A i 0 - hhAlpha sq k A * delta i 0).getD i 0 *
      ((List.range k).map fun i => get A i 0 - hhAlpha sq k A * delta i 0).getD i 0)
      = sumTo k fun i => hhW sq k A i * hhW sq k A i := by
    apply sumTo_congr
    intro i hi
    rw [hwl i hi]; rfl
  simp only [householderRefl]
  rw [hsum, if_neg (show ¬ sq (sumTo k fun i => hhW sq k A i * hhW sq k A i) = 0 from hne)]
  exact ⟨_, rfl⟩

/-- **`Householder_Matrix` always returns** (exact roots): the identity for a zero column, the reflector
    otherwise — so `QR_Decomposition` returns for singular matrices too (e9c6d4b). -/
theorem householder_isSome (sq : Rat → Rat) (k : Nat) (A : Mat) (hk : 0 < k)
    (h1 : SqAt sq (colSq k A)) (h2 : SqAt sq (wSq sq k A)) :
    ∃ P, householder sq id k A = some P := by
  by_cases h0 : sq (colSq k A) = 0
  · exact ⟨ident k, by unfold householder; rw [if_pos (show sq (sumTo k fun i => get A i 0 * get A i 0) = 0 from h0)]⟩
  · have hc : colSq k A ≠ 0 := by
      intro hc; apply h0
      have := h1.sq_mul; rw [hc] at this
      rw [hc]; exact mul_self_eq_zero.mp this
    obtain ⟨P, hP⟩ := householder_isSome_refl sq k A hk h1 h2 hc
    exact ⟨P, by unfold householder; rw [if_neg (show ¬ sq (sumTo k fun i => get A i 0 * get A i 0) = 0 from h0)]; exact hP⟩

/-- **a non-singular matrix never meets a zero pivot column**: under the loop invariant, if the
    first column of `R_submatrix` vanished, `R` (hence `M = Q·R`) would be singular. -/
theorem colSq_ne_zero_of_det (n i : Nat) (hi : i < n) (M Q R Rsub : Mat) (inv : QRInv n i M Q R Rsub)
    (hdet : (toM n M).det ≠ 0) : colSq (n - i) Rsub ≠ 0 := by
  intro h0
  have hz := sumTo_sq_eq_zero (n - i) (fun c => get Rsub c 0) h0
  apply hdet
  rw [← inv.prod, det_mul]
  have : (toM n R).det = 0 := by
    apply det_eq_zero_of_pivot_col_zero (toM n R) ⟨i, hi⟩
    · intro a b hb hba
      exact inv.upper a b a.2 hb hba
    · intro a ha
      have ha' : ¬ (a : Nat) < i := ha
      have h1 := inv.sub (a - i) 0 (by omega) (by omega)
      have h2 : (a : Nat) - i + i = a := by omega
      rw [h2, Nat.zero_add] at h1
      show get R a i = 0
      rw [← h1]
      exact hz (a - i) (by omega)
  rw [this, mul_zero]

/-- the loop of `QR_Decomposition` from any state satisfying the invariant: whatever it returns is
    a QR factorisation -/
theorem qrLoop_inv (sq : Rat → Rat) (n : Nat) (M : Mat) (steps i : Nat) (hn : i + steps = n)
    (Q R Rsub : Mat) (inv : QRInv n i M Q R Rsub) (hsq : qrSqOK sq n i steps Rsub)
    (Q' R' : Mat) (h : qrLoop sq id n i steps Q R Rsub = some (Q', R')) :
    toM n Q' * toM n R' = toM n M ∧ (toM n Q')ᵀ * toM n Q' = 1 ∧
      ∀ a b, a < n → b < a → get R' a b = 0 := by
  induction steps generalizing i Q R Rsub with
  | zero =>
    simp only [qrLoop, Option.some.injEq, Prod.mk.injEq] at h
    obtain ⟨rfl, rfl⟩ := h
    have : i = n := by omega
    subst this
    exact ⟨inv.prod, inv.orth, fun a b ha hba => inv.upper a b ha (by omega) hba⟩
  | succ s ih =>
    simp only [qrLoop] at h
    obtain ⟨h1, h2, h3⟩ := hsq
    split at h
    · simp at h
    · rename_i P hP
      exact ih (i + 1) (by omega) _ _ _ (qr_step_inv sq n i (by omega) M Q R Rsub P inv hP h1.sq_mul h2.sq_mul)
        (h3 P hP) h

/-- … and it always returns (since e9c6d4b also when a zero pivot column is met: singular matrices) -/
theorem qrLoop_isSome (sq : Rat → Rat) (n : Nat) (M : Mat)
    (steps i : Nat) (hn : i + steps = n)
    (Q R Rsub : Mat) (inv : QRInv n i M Q R Rsub) (hsq : qrSqOK sq n i steps Rsub) :
    ∃ Q' R', qrLoop sq id n i steps Q R Rsub = some (Q', R') := by
  induction steps generalizing i Q R Rsub with
  | zero => exact ⟨Q, R, rfl⟩
  | succ s ih =>
    obtain ⟨h1, h2, h3⟩ := hsq
    have hi : i < n := by omega
    obtain ⟨P, hP⟩ := householder_isSome sq (n - i) Rsub (by omega) h1 h2
    obtain ⟨Q', R', h⟩ := ih (i + 1) (by omega) _ _ _
      (qr_step_inv sq n i hi M Q R Rsub P inv hP h1.sq_mul h2.sq_mul) (h3 P hP)
    refine ⟨Q', R', ?_⟩
    simp only [qrLoop, hP]
    exact h

/-- the invariant holds initially: `Q = 1`, `R = R_submatrix = M` -/
theorem qrInv_init (n : Nat) (M : Mat) : QRInv n 0 M (ident n) M M :=
  ⟨by rw [toM_ident, Matrix.one_mul], by rw [toM_ident]; simp, fun _ _ _ hb _ => absurd hb (Nat.not_lt_zero _),
   fun _ _ _ _ => rfl⟩

/-- **QR_Decomposition, list model, end to end — whatever it returns**: without rounding and with
    exact square roots at the arguments actually used (`qrSqOK`), a result `(Q, R)` of the model's
    `qrDecomposition` satisfies `Q·R = M`, `QᵀQ = 1`, and `R` is upper triangular. -/
theorem qr_list_model_of_some (sq : Rat → Rat) (n : Nat) (M : Mat) (hsq : qrSqOK sq n 0 n M)
    (Q R : Mat) (h : qrDecomposition sq id n M = some (Q, R)) :
    toM n Q * toM n R = toM n M ∧ (toM n Q)ᵀ * toM n Q = 1 ∧ ∀ a b : Fin n, b < a → toM n R a b = 0 := by
  obtain ⟨h1, h2, h3⟩ := qrLoop_inv sq n M n 0 (by omega) _ _ _ (qrInv_init n M) hsq Q R h
  exact ⟨h1, h2, fun a b hba => h3 a b a.2 hba⟩

/-- **QR_Decomposition, list model, end to end**: for **every** square matrix over ℚ — singular ones
    included since e9c6d4b (then some `R k k = 0`) — for which the square roots taken by the run exist
    rationally, the model (no rounding) returns `(Q, R)` with `Q·R = M`, `Q` orthogonal and `R` upper triangular. -/
theorem qr_list_model (sq : Rat → Rat) (n : Nat) (M : Mat) (hsq : qrSqOK sq n 0 n M) :
    ∃ Q R, qrDecomposition sq id n M = some (Q, R) ∧
      toM n Q * toM n R = toM n M ∧ (toM n Q)ᵀ * toM n Q = 1 ∧ ∀ a b : Fin n, b < a → toM n R a b = 0 := by
  obtain ⟨Q, R, h⟩ := qrLoop_isSome sq n M n 0 (by omega) _ _ _ (qrInv_init n M) hsq
  exact ⟨Q, R, h, qr_list_model_of_some sq n M hsq Q R h⟩

/-- for a singular matrix the triangular factor has a zero on its diagonal (and only then) -/
theorem qr_list_model_singular (sq : Rat → Rat) (n : Nat) (M Q R : Mat) (hsq : qrSqOK sq n 0 n M)
    (h : qrDecomposition sq id n M = some (Q, R)) :
    (toM n M).det = 0 ↔ ∃ k : Fin n, toM n R k k = 0 := by
  obtain ⟨hprod, horth, hup⟩ := qr_list_model_of_some sq n M hsq Q R h
  have hQ : (toM n Q).det ≠ 0 := by
    intro h0
    have := congrArg Matrix.det horth
    rw [det_mul, det_transpose, h0, mul_zero, det_one] at this
    exact zero_ne_one this
  have hR : (toM n R).det = ∏ k : Fin n, toM n R k k :=
    Matrix.det_of_upperTriangular (fun a b hba => hup a b hba)
  rw [← hprod, det_mul, mul_eq_zero, hR, Finset.prod_eq_zero_iff]
  constructor
  · rintro (h0 | ⟨k, _, hk⟩)
    · exact absurd h0 hQ
    · exact ⟨k, hk⟩
  · rintro ⟨k, hk⟩
    exact Or.inr ⟨k, Finset.mem_univ k, hk⟩

theorem qrSqOK_of_check (sq : Rat → Rat) (n : Nat) (steps i : Nat) (Rsub : Mat)
    (h : qrSqCheck sq n i steps Rsub = true) : qrSqOK sq n i steps Rsub := by
  induction steps generalizing i Rsub with
  | zero => trivial
  | succ s ih =>
    simp only [qrSqCheck, Bool.and_eq_true, decide_eq_true_eq] at h
    obtain ⟨⟨⟨h1, h1'⟩, h2, h2'⟩, h3⟩ := h
    refine ⟨⟨h1, h1'⟩, ⟨h2, h2'⟩, ?_⟩
    intro P hP
    rw [hP] at h3
    exact ih _ _ h3

-- non-vacuity of `qr_list_model`: the 2×2 and 3×3 Pythagorean matrices, with the driver's square root
-- (exact on rational squares); and the factors the model returns for the 2×2 one
example : (toM 2 exM2).det ≠ 0 ∧ qrSqOK (sqApprox 0) 2 0 2 exM2 := by
  refine ⟨?_, qrSqOK_of_check _ _ _ _ _ (by decide +kernel)⟩
  rw [Matrix.det_fin_two]
  simp only [toM]
  decide +kernel
example : (toM 3 exM3).det ≠ 0 ∧ qrSqOK (sqApprox 0) 3 0 3 exM3 := by
  refine ⟨?_, qrSqOK_of_check _ _ _ _ _ (by decide +kernel)⟩
  rw [Matrix.det_fin_three]
  simp only [toM]
  decide +kernel
-- the hypotheses of the step lemmas (`householder_maps_col`, `qr_step_inv`, `householder_isSome`) on it:
-- `‖(7,24)‖² = 625`, `‖(7,24) + 25·e₁‖² = 1600`, the reflector is the rational matrix shown
example : householder (sqApprox 0) id 2 exM2 = some [[-7/25, -24/25], [-24/25, 7/25]] ∧
    SqAt (sqApprox 0) (colSq 2 exM2) ∧ SqAt (sqApprox 0) (wSq (sqApprox 0) 2 exM2) ∧
    colSq 2 exM2 = 625 ∧ wSq (sqApprox 0) 2 exM2 = 1600 :=
  ⟨by decide +kernel, ⟨by decide +kernel, by decide +kernel⟩, ⟨by decide +kernel, by decide +kernel⟩,
   by decide +kernel, by decide +kernel⟩
example : qrDecomposition (sqApprox 0) id 2 exM2 = some ([[-7/25, 24/25], [-24/25, -7/25]], [[-25, -24], [0, -7]]) := by
  decide +kernel

/-! ### the iterates of `Eigenvalues` are orthogonally similar to the matrix (list model, no rounding) -/

/-- one model step `A ↦ R·Q` is a QR step in the sense of `IsQRStep`, with the `Q` of the model -/
theorem qrStep_model (sq : Rat → Rat) (n : Nat) (A A' : Mat) (hsq : qrSqOK sq n 0 n A)
    (h : qrStep sq id n A = some A') :
    ∃ Q : Matrix (Fin n) (Fin n) ℚ, Qᵀ * Q = 1 ∧ toM n A' = Qᵀ * toM n A * Q ∧ IsQRStep (toM n A) (toM n A') := by
  simp only [qrStep] at h
  split at h
  · simp at h
  · rename_i Q R hQR
    simp only [Option.some.injEq] at h
    subst h
    obtain ⟨h1, h2, _⟩ := qr_list_model_of_some sq n A hsq Q R hQR
    have hsim := (qrStep_similar (toM n A) (toM n Q) (toM n R) h1 h2).1
    exact ⟨toM n Q, h2, by rw [toM_mul, hsim], toM n Q, toM n R, h1, h2, toM_mul n R Q⟩

theorem eigSqOK_of_check (sq : Rat → Rat) (n k : Nat) (A : Mat) (h : eigSqCheck sq n k A = true) :
    eigSqOK sq n k A := by
  induction k generalizing A with
  | zero => trivial
  | succ k ih =>
    simp only [eigSqCheck, Bool.and_eq_true] at h
    refine ⟨qrSqOK_of_check _ _ _ _ _ h.1, ?_⟩
    intro A' hA'
    have h2 := h.2
    rw [hA'] at h2
    exact ih _ h2

/-- **every iterate of the model's `Eigenvalues` loop is `Qₖᵀ·M·Qₖ` for an orthogonal `Qₖ`**
    (no rounding, exact roots at the arguments used), hence has the characteristic polynomial,
    trace and determinant of `M`, and is symmetric when `M` is. -/
theorem eigenvalues_similar (sq : Rat → Rat) (n k : Nat) (M A' : Mat) (hsq : eigSqOK sq n k M)
    (h : qrIterate sq id n k M = some A') :
    (∃ Qk : Matrix (Fin n) (Fin n) ℚ, Qkᵀ * Qk = 1 ∧ toM n A' = Qkᵀ * toM n M * Qk) ∧
      (toM n A').charpoly = (toM n M).charpoly ∧ trace (toM n A') = trace (toM n M) ∧
      det (toM n A') = det (toM n M) ∧ ((toM n M)ᵀ = toM n M → (toM n A')ᵀ = toM n A') := by
  have key : (∃ Qk : Matrix (Fin n) (Fin n) ℚ, Qkᵀ * Qk = 1 ∧ toM n A' = Qkᵀ * toM n M * Qk) ∧
      Relation.ReflTransGen IsQRStep (toM n M) (toM n A') := by
    induction k generalizing M with
    | zero =>
      simp only [qrIterate, Option.some.injEq] at h
      subst h
      exact ⟨⟨1, by simp, by simp⟩, Relation.ReflTransGen.refl⟩
    | succ k ih =>
      simp only [qrIterate] at h
      cases h1 : qrStep sq id n M with
      | none => rw [h1] at h; simp at h
      | some A1 =>
        rw [h1] at h
        simp only [Option.bind_some] at h
        obtain ⟨Q, hQ, hA1, hstep⟩ := qrStep_model sq n M A1 hsq.1 h1
        obtain ⟨⟨Q', hQ', hA'⟩, hrel⟩ := ih A1 (hsq.2 A1 h1) h
        refine ⟨⟨Q * Q', ?_, ?_⟩, Relation.ReflTransGen.head hstep hrel⟩
        · calc (Q * Q')ᵀ * (Q * Q') = Q'ᵀ * (Qᵀ * Q) * Q' := by
                simp only [transpose_mul, Matrix.mul_assoc]
            _ = 1 := by rw [hQ, Matrix.mul_one, hQ']
        · rw [hA', hA1]
          simp only [transpose_mul, Matrix.mul_assoc]
  exact ⟨key.1, qrIter_invariants _ _ key.2⟩

/-- **what `Eigenvalues` returns sums to the trace exactly** (and is the diagonal of a matrix with the
    characteristic polynomial of `M`): list model without rounding, exact roots along the run. -/
theorem eigenvalues_trace (sq : Rat → Rat) (n : Nat) (M : Mat) (l : List Rat) (k : Nat)
    (h : eigenvalues sq id n M = .ok l k) (hsq : eigSqOK sq n k M) :
    l.sum = trace (toM n M) ∧
      ∃ A', l = diagonal n A' ∧ converged n A' = true ∧ (toM n A').charpoly = (toM n M).charpoly ∧
        det (toM n A') = det (toM n M) := by
  obtain ⟨A', _, _, hit, hc, hl⟩ := eigenvalues_spec sq id n M l k h
  obtain ⟨_, hcp, htr, hdet, _⟩ := eigenvalues_similar sq n k M A' hsq hit
  refine ⟨?_, A', hl, hc, hcp, hdet⟩
  rw [← htr, hl, diagonal, sum_map_range_eq_sumTo, sumTo_eq_sum]
  rfl

-- non-vacuity of `eigenvalues_similar` / `eigenvalues_trace`: one step on the Pythagorean matrix
-- (trace 32 = 7 + 25 kept), and a full run of `Eigenvalues` (12 steps) on diag(2,1)
example : eigSqOK (sqApprox 0) 2 1 exM2 ∧
    qrIterate (sqApprox 0) id 2 1 exM2 = some [[751/25, -432/25], [168/25, 49/25]] :=
  ⟨eigSqOK_of_check _ _ _ _ (by decide +kernel), by decide +kernel⟩
example : eigenvalues (sqApprox 0) id 2 witnessM = .ok [2, 1] 12 ∧ eigSqOK (sqApprox 0) 2 12 witnessM :=
  ⟨by decide +kernel, eigSqOK_of_check _ _ _ _ (by decide +kernel)⟩

/-! ### known finding: Eigensystem / Eigenvectors (DESIGN.md §6 C15) -/

/-- **known finding, on the model**: handed the exact eigenvalue 2 of diag(2,1), the first thing
    `Find_Eigenvector_Rayleigh` does is to invert `M − 2·1 = diag(0,−1)`, which is singular:
    `Inverse()` stops the process ("not invertible").  In floating point the eigenvalue returned by
    `Eigenvalues` is exact for a diagonal matrix, so the C++ does the same
    (replay: `c15.eigensystem 2 0x1p+1 0x0p+0 0x0p+0 0x1p+0` → err). -/
theorem eigensystem_witness (sq : Rat → Rat) (fuel : Nat) :
    findEigenvectorRayleigh sq inverseExact 2 witnessM 2 (fuel + 1) = .err := by
  have h : inverseExact 2 (shifted 2 witnessM 2) = none := by decide +kernel
  simp only [findEigenvectorRayleigh, rayleighLoop, h]

/-- FULL statement of the eigenvector clause on the model (exact arithmetic): handed an eigenvalue,
    the Rayleigh loop returns, for some amount of fuel, an eigenpair.  It is **false** — see
    `eigensystem_FULL_false` — and is recorded as a known finding; what does hold of the loop is
    `rayleigh_fixed_point` / `normalize_unit` (unit vector, Rayleigh quotient). -/
def eigensystem_FULL : Prop :=
  ∀ (sq : Rat → Rat) (n : Nat) (M : Mat) (ev : Rat), IsEigenvalue n M ev →
    ∃ fuel b l it, findEigenvectorRayleigh sq inverseExact n M ev fuel = .ok b l it ∧
      matVec n M b = b.map (l * ·)

theorem eigensystem_FULL_false : ¬ eigensystem_FULL := by
  intro h
  have hev : IsEigenvalue 2 witnessM 2 := ⟨[1, 0], rfl, ⟨1, by simp, by norm_num⟩, by decide +kernel⟩
  obtain ⟨fuel, b, l, it, hok, _⟩ := h (fun y => y) 2 witnessM 2 hev
  cases fuel with
  | zero => simp [findEigenvectorRayleigh, rayleighLoop] at hok
  | succ f => rw [eigensystem_witness] at hok; simp at hok

-- non-vacuity
example : sign2 5 (-(3 : Rat)) = -5 ∧ sign2 5 (-(-3 : Rat)) = 5 ∧ sign2 5 (-(0 : Rat)) = -5 := by
  simp [sign2, sign1]
example : ∃ u : Fin 2 → ℚ, u ⬝ᵥ u = 1 ∧ reflector u ≠ 1 := by
  refine ⟨![3/5, 4/5], by simp [dotProduct, Fin.sum_univ_two]; norm_num, ?_⟩
  intro h
  have := congrFun (congrFun h 0) 1
  simp [reflector] at this

end Lp.C15
