/-
  C15 — property theorems: QR factors and eigenpairs satisfy their defining equations.
  The algebraic clauses are stated over Mathlib matrices (`Matrix n n ℚ`, any finite index type, i.e.
  every size); the clauses about the loops are stated on the executable model (`LpModel/C15.lean`).
  Definitions: `LpProofs/C15/Defs.lean`; bridging lemmas list model ↔ Mathlib: `LpProofs/C15/Bridge.lean`.
  Convergence of the unshifted iteration and termination of inverse iteration are NOT theorems
  (correspondence / oracle only, DESIGN.md §6 C15).
-/
import LpModel.C15
import LpProofs.C15.Defs
import LpProofs.C15.Bridge
import Mathlib.LinearAlgebra.Matrix.Trace
import Mathlib.LinearAlgebra.Matrix.Determinant.Basic
import Mathlib.LinearAlgebra.Matrix.NonsingularInverse
import Mathlib.LinearAlgebra.Matrix.Charpoly.Basic
import Mathlib.Tactic.Ring
import Mathlib.Tactic.LinearCombination
import Mathlib.Tactic.Linarith
import Mathlib.Tactic.FieldSimp
namespace Lp.C15
open Matrix

section Algebra
variable {n : Type} [Fintype n] [DecidableEq n]

theorem householder_orthogonal_symmetric (u : n → ℚ) (hu : u ⬝ᵥ u = 1) :
    (reflector u)ᵀ = reflector u ∧ reflector u * reflector u = 1 := by
  constructor
  · simp only [reflector, transpose_sub, transpose_one, transpose_smul, transpose_vecMulVec]
  · have h2 : vecMulVec u u * vecMulVec u u = vecMulVec u u := by
      rw [vecMulVec_mul_vecMulVec, hu, one_smul]
    simp only [reflector, sub_mul, mul_sub, one_mul, mul_one, smul_mul_assoc, mul_smul_comm, h2]
    ext i j
    simp only [Matrix.sub_apply, Matrix.smul_apply, smul_eq_mul]
    ring

/-- what the reflector does to a vector: `H x = x − 2 (u·x) u` -/
theorem reflector_mulVec (u x : n → ℚ) : reflector u *ᵥ x = x - (2 * (u ⬝ᵥ x)) • u := by
  simp only [reflector, sub_mulVec, one_mulVec, smul_mulVec, vecMulVec_mulVec]
  ext i
  simp only [Pi.sub_apply, Pi.smul_apply, MulOpposite.smul_eq_mul_unop, MulOpposite.unop_op, smul_eq_mul]
  ring

/-- **Householder maps the column to a multiple of e₁**: with `α² = x·x`, `w = x − α e`,
    `N² = w·w ≠ 0` and `u = w/N`: `(1 − 2uuᵀ) x = α e` (for either sign of `α`; the code takes
    `α = −sign(x₀)‖x‖`, which makes `w ≠ 0` whenever `x ≠ 0`, see `hh_no_cancellation`). -/
theorem householder_maps_to_e1 (x : n → ℚ) (i0 : n) (α N : ℚ) (hα : α * α = x ⬝ᵥ x)
    (hN : N * N = (x - α • Pi.single i0 1) ⬝ᵥ (x - α • Pi.single i0 1)) (hN0 : N ≠ 0) :
    reflector (N⁻¹ • (x - α • Pi.single i0 1)) *ᵥ x = α • Pi.single i0 1 := by
  set e : n → ℚ := Pi.single i0 1 with he
  have hee : e ⬝ᵥ e = 1 := by simp [he]
  have hex : e ⬝ᵥ x = x i0 := by simp [he]
  have hxe : x ⬝ᵥ e = x i0 := by simp [he]
  -- w·w = 2 (w·x)
  have hww : (x - α • e) ⬝ᵥ (x - α • e) = 2 * ((x - α • e) ⬝ᵥ x) := by
    simp only [sub_dotProduct, dotProduct_sub, smul_dotProduct, dotProduct_smul, smul_eq_mul, hee, hex, hxe]
    linear_combination hα
  rw [reflector_mulVec, smul_dotProduct, smul_eq_mul]
  have hcoef : 2 * (N⁻¹ * ((x - α • e) ⬝ᵥ x)) * N⁻¹ = 1 := by
    have : 2 * ((x - α • e) ⬝ᵥ x) = N * N := by rw [hN, hww]
    field_simp
    linear_combination this
  rw [smul_smul, hcoef, one_smul]
  abel

/-! ### the QR loop: `R ← P·R`, `Q ← Q·P` for a sequence of symmetric orthogonal `P` -/

/-- `Q·R = M` and `QᵀQ = 1` for **every** sequence of symmetric orthogonal `P_i`
    (`Q = P₁⋯P_k`, `R = P_k⋯P₁·M`), from any state satisfying the invariant -/
theorem qr_product_inv (Ps : List (Matrix n n ℚ)) (hP : ∀ P ∈ Ps, Pᵀ = P ∧ P * P = 1)
    (M Q R : Matrix n n ℚ) (hQR : Q * R = M) (hQ : Qᵀ * Q = 1) :
    (qrFold Ps (Q, R)).1 * (qrFold Ps (Q, R)).2 = M ∧ (qrFold Ps (Q, R)).1ᵀ * (qrFold Ps (Q, R)).1 = 1 := by
  induction Ps generalizing Q R with
  | nil => exact ⟨hQR, hQ⟩
  | cons P Ps ih =>
    have hPs : ∀ P' ∈ Ps, P'ᵀ = P' ∧ P' * P' = 1 := fun P' h => hP P' (List.mem_cons_of_mem _ h)
    obtain ⟨hPt, hPP⟩ := hP P List.mem_cons_self
    simp only [qrFold, List.foldl_cons]
    apply ih hPs
    · calc Q * P * (P * R) = Q * (P * P) * R := by simp only [Matrix.mul_assoc]
        _ = M := by rw [hPP, Matrix.mul_one, hQR]
    · calc (Q * P)ᵀ * (Q * P) = Pᵀ * (Qᵀ * Q) * P := by simp only [transpose_mul, Matrix.mul_assoc]
        _ = 1 := by rw [hQ, Matrix.mul_one, hPt, hPP]

theorem qr_product (Ps : List (Matrix n n ℚ)) (hP : ∀ P ∈ Ps, Pᵀ = P ∧ P * P = 1) (M : Matrix n n ℚ) :
    (qrFold Ps (1, M)).1 * (qrFold Ps (1, M)).2 = M ∧ (qrFold Ps (1, M)).1ᵀ * (qrFold Ps (1, M)).1 = 1 :=
  qr_product_inv Ps hP M 1 M (Matrix.one_mul M) (by simp)

/-- the block embedding `[[1,0],[0,P]]` of a symmetric orthogonal reflector is symmetric orthogonal -/
theorem embed_symm_orth {m k : Type} [Fintype m] [DecidableEq m] [Fintype k] [DecidableEq k]
    (P : Matrix k k ℚ) (hPt : Pᵀ = P) (hPP : P * P = 1) :
    (fromBlocks (1 : Matrix m m ℚ) 0 0 P)ᵀ = fromBlocks 1 0 0 P ∧
      fromBlocks (1 : Matrix m m ℚ) 0 0 P * fromBlocks 1 0 0 P = 1 := by
  constructor
  · rw [fromBlocks_transpose, transpose_one, transpose_zero, transpose_zero, hPt]
  · rw [fromBlocks_multiply]
    simp only [Matrix.one_mul, Matrix.mul_zero, Matrix.zero_mul, add_zero, zero_add, hPP, fromBlocks_one]

/-! ### one step `A ↦ R·Q` of the unshifted QR algorithm is an orthogonal similarity -/

theorem qrStep_similar (A Q R : Matrix n n ℚ) (hA : Q * R = A) (hQ : Qᵀ * Q = 1) :
    R * Q = Qᵀ * A * Q ∧ trace (R * Q) = trace A ∧ det (R * Q) = det A ∧
      (R * Q).charpoly = A.charpoly ∧ (Aᵀ = A → (R * Q)ᵀ = R * Q) := by
  have hsim : R * Q = Qᵀ * A * Q := by
    rw [← hA, ← Matrix.mul_assoc, hQ, Matrix.one_mul]
  refine ⟨hsim, ?_, ?_, ?_, ?_⟩
  · rw [trace_mul_comm, hA]
  · rw [det_mul, mul_comm, ← det_mul, hA]
  · rw [charpoly_mul_comm, hA]
  · intro hs
    rw [hsim]
    simp only [transpose_mul, transpose_transpose, hs, Matrix.mul_assoc]

/-- whatever iterate `Eigenvalues` stops at: trace, determinant and characteristic polynomial are
    those of the matrix it was given (so the returned diagonal sums to the trace exactly, and
    multiplies to the determinant up to the sub-diagonal mass it tolerates) -/
theorem qrIter_invariants (A B : Matrix n n ℚ) (h : Relation.ReflTransGen IsQRStep A B) :
    B.charpoly = A.charpoly ∧ trace B = trace A ∧ det B = det A ∧ (Aᵀ = A → Bᵀ = B) := by
  induction h with
  | refl => exact ⟨rfl, rfl, rfl, id⟩
  | tail _ hstep ih =>
    obtain ⟨Q, R, hA, hQ, rfl⟩ := hstep
    obtain ⟨_, h2, h3, h4, h5⟩ := qrStep_similar _ Q R hA hQ
    exact ⟨h4.trans ih.1, h2.trans ih.2.1, h3.trans ih.2.2.1, fun hs => h5 (ih.2.2.2 hs)⟩

end Algebra
/-! ### the model: sign convention of `alpha`, no cancellation, the Rayleigh loop -/

/-- `alpha = Sign(‖x‖, −x₀)` is `−sign(x₀)·‖x‖`, with `−‖x‖` for `x₀ = 0` -/
theorem sign2_alpha (nx x0 : Rat) (hnx : 0 < nx) :
    sign2 nx (-x0) = if x0 < 0 then nx else -nx := by
  unfold sign2 sign1
  have h1 : nx > 0 := hnx
  by_cases hneg : x0 < 0
  · have : -x0 > 0 := by linarith
    simp [h1, this, hneg]
  · by_cases h0 : x0 = 0
    · subst h0; simp [h1]
    · have hpos : 0 < x0 := lt_of_le_of_ne (not_lt.mp hneg) (Ne.symm h0)
      have h2 : ¬ (-x0 > 0) := by intro h; linarith
      have h3 : ¬ (-x0 = 0) := by intro h; apply h0; linarith
      simp [h1, h2, h3, hneg]

/-- with that sign there is no cancellation in `w = x − alpha·e₁`: `‖w‖² = 2(‖x‖² + |x₀|·‖x‖) > 0`
    for every non-zero column, so `u.Normalize()` divides by zero only for a zero column
    (`xx` stands for `x·x`, `nx` for its root). -/
theorem hh_no_cancellation (xx nx x0 : Rat) (hnx : 0 < nx) (hsq : nx * nx = xx) :
    let alpha := sign2 nx (-x0)
    alpha * alpha = xx ∧ xx - 2 * alpha * x0 + alpha * alpha = 2 * (xx + rabs x0 * nx) ∧
      0 < xx - 2 * alpha * x0 + alpha * alpha := by
  intro alpha
  have ha : alpha = if x0 < 0 then nx else -nx := sign2_alpha nx x0 hnx
  have hxx : 0 < xx := by rw [← hsq]; exact mul_pos hnx hnx
  by_cases hneg : x0 < 0
  · rw [if_pos hneg] at ha
    have hr : rabs x0 = -x0 := by simp [rabs, hneg]
    rw [ha, hr]
    refine ⟨hsq, by linear_combination hsq, ?_⟩
    nlinarith [mul_pos hnx (neg_pos.mpr hneg)]
  · rw [if_neg hneg] at ha
    have hr : rabs x0 = x0 := by simp [rabs, hneg]
    rw [ha, hr]
    refine ⟨by linear_combination hsq, by linear_combination hsq, ?_⟩
    nlinarith [mul_nonneg hnx.le (not_lt.mp hneg)]

/-- **Rayleigh loop, exit condition**: if `Find_Eigenvector_Rayleigh` returns `(b, λ)` then `b` is the
    normalisation of a vector (hence a unit vector, `normalize_unit`) and `λ` is its Rayleigh
    quotient `b·(M b)` — for every matrix, shift, `Inverse` and amount of fuel.  (That `b` is an
    eigenvector is *not* implied: the loop only compares successive iterates.) -/
theorem rayleigh_fixed_point (sq : Rat → Rat) (inv : Nat → Mat → Option Mat) (n : Nat) (M : Mat)
    (fuel : Nat) (b0 : List Rat) (ev0 : Rat) (it0 : Nat) (b : List Rat) (ev : Rat) (it : Nat)
    (h : rayleighLoop sq inv n M fuel b0 ev0 it0 = .ok b ev it) :
    (∃ v, b = normalize sq n v) ∧ ev = dotL n b (matVec n M b) := by
  induction fuel generalizing b0 ev0 it0 with
  | zero => simp [rayleighLoop] at h
  | succ f ih =>
    simp only [rayleighLoop] at h
    split at h
    · simp at h
    · rename_i X hX
      split at h
      · exact ih _ _ _ h
      · simp only [RayOut.ok.injEq] at h
        obtain ⟨hb, hev, _⟩ := h
        subst hb
        exact ⟨⟨_, rfl⟩, hev.symm⟩

theorem findEigenvectorRayleigh_spec (sq : Rat → Rat) (inv : Nat → Mat → Option Mat) (n : Nat) (M : Mat)
    (ev0 : Rat) (fuel : Nat) (b : List Rat) (ev : Rat) (it : Nat)
    (h : findEigenvectorRayleigh sq inv n M ev0 fuel = .ok b ev it) :
    (∃ v, b = normalize sq n v) ∧ ev = dotL n b (matVec n M b) :=
  rayleigh_fixed_point sq inv n M fuel _ _ _ b ev it h

/-- `b.Normalize()` yields a unit vector whenever the norm is the exact non-zero root -/
theorem normalize_unit (sq : Rat → Rat) (n : Nat) (v : List Rat)
    (hsq : sq (dotL n v v) * sq (dotL n v v) = dotL n v v) (h0 : dotL n v v ≠ 0) :
    dotL n (normalize sq n v) (normalize sq n v) = 1 := by
  have hN0 : sq (dotL n v v) ≠ 0 := by
    intro h; rw [h] at hsq; exact h0 (by linarith)
  set N := sq (dotL n v v) with hN
  have hget : ∀ i, (normalize sq n v).getD i 0 = v.getD i 0 / N := by
    intro i
    simp only [normalize, ← hN, List.getD_eq_getElem?_getD, List.getElem?_map]
    cases v[i]? <;> simp
  have hsum : dotL n (normalize sq n v) (normalize sq n v)
      = sumTo n (fun i => (1 / (N * N)) * (v.getD i 0 * v.getD i 0)) := by
    unfold dotL
    congr 1
    funext i
    rw [hget]
    field_simp
  rw [hsum, sumTo_mul]
  have : sumTo n (fun i => v.getD i 0 * v.getD i 0) = dotL n v v := rfl
  rw [this, ← hsq]
  field_simp

/-- the convergence test of `Eigenvalues` as an inequality: the sub-diagonal mass is below
    `1e-12` of the diagonal mass -/
theorem converged_spec (n : Nat) (A : Mat) (h : converged n A = true) :
    offSum n A < convThreshold * diagSum n A := by
  simp only [converged, decide_eq_true_eq] at h
  obtain ⟨h0, h1⟩ := h
  have hd : 0 ≤ diagSum n A := by
    unfold diagSum sumTo
    have : ∀ (l : List Nat) (acc : Rat), 0 ≤ acc →
        0 ≤ l.foldl (fun acc k => acc + rabs (get A k k)) acc := by
      intro l
      induction l with
      | nil => intro acc h; exact h
      | cons a l ih =>
        intro acc h
        apply ih
        have : 0 ≤ rabs (get A a a) := by unfold rabs; split <;> linarith
        linarith
    exact this _ 0 (le_refl 0)
  have hpos : 0 < diagSum n A := lt_of_le_of_ne hd (Ne.symm h0)
  rwa [div_lt_iff₀ hpos] at h1

theorem eigLoop_spec (sq rnd : Rat → Rat) (n i left : Nat) (A : Mat) (l : List Rat) (k : Nat)
    (h : eigLoop sq rnd n i left A = .ok l k) :
    ∃ j A', 1 ≤ j ∧ j ≤ left ∧ k = i + j ∧ 11 < k ∧ qrIterate sq rnd n j A = some A' ∧
      converged n A' = true ∧ l = diagonal n A' := by
  induction left generalizing i A with
  | zero => simp [eigLoop] at h
  | succ f ih =>
    simp only [eigLoop] at h
    split at h
    · simp at h
    · rename_i A' hA'
      split at h
      · rename_i hc
        simp only [EigOut.ok.injEq] at h
        obtain ⟨hl, hk⟩ := h
        exact ⟨1, A', le_refl 1, by omega, hk.symm, by omega, by simp [qrIterate, hA'], hc.2, hl.symm⟩
      · obtain ⟨j, B, hj1, hj2, hk, hk11, hit, hc, hl⟩ := ih _ _ h
        exact ⟨j + 1, B, by omega, by omega, by omega, hk11, by simp [qrIterate, hA', hit], hc, hl⟩

/-- **what `Eigenvalues` returns**: the diagonal of the iterate after `k` QR steps, `12 ≤ k ≤ 200`,
    the first one (from the 12th on) that passes the convergence test -/
theorem eigenvalues_spec (sq rnd : Rat → Rat) (n : Nat) (M : Mat) (l : List Rat) (k : Nat)
    (h : eigenvalues sq rnd n M = .ok l k) :
    ∃ A', 12 ≤ k ∧ k ≤ 200 ∧ qrIterate sq rnd n k M = some A' ∧ converged n A' = true ∧ l = diagonal n A' := by
  obtain ⟨j, A', hj1, hj2, hk, hk11, hit, hc, hl⟩ := eigLoop_spec sq rnd n 0 200 M l k h
  have : k = j := by omega
  subst this
  exact ⟨A', by omega, hj2, hit, hc, hl⟩

/-- **the model's `Householder_Matrix` (no rounding) is the reflector `1 − 2uuᵀ` of `u = w/‖w‖`** -/
theorem toM_householder (sq : Rat → Rat) (k : Nat) (A H : Mat) (h : householder sq id k A = some H) :
    hhNw sq k A ≠ 0 ∧ toM k H = reflector (fun i => hhWvec sq k A i / hhNw sq k A) := by
  have hw : ∀ i, i < k → ((List.range k).map fun i => get A i 0 - hhAlpha sq k A * delta i 0).getD i 0
      = get A i 0 - hhAlpha sq k A * delta i 0 := by
    intro i hi
    simp [List.getD_eq_getElem?_getD, hi]
  have hsum : (sumTo k fun i => ((List.range k).map fun i => get A i 0 - hhAlpha sq k A * delta i 0).getD i 0 *
      ((List.range k).map fun i => get A i 0 - hhAlpha sq k A * delta i 0).getD i 0)
      = sumTo k fun i => hhW sq k A i * hhW sq k A i := by
    rw [sumTo_eq_sum, sumTo_eq_sum]
    apply Finset.sum_congr rfl
    intro i _
    rw [hw i i.2]; rfl
  simp only [householder] at h
  rw [hsum] at h
  split at h
  · simp at h
  · rename_i hne
    refine ⟨hne, ?_⟩
    simp only [Option.some.injEq] at h
    subst h
    ext i j
    simp only [toM, reflector, Matrix.sub_apply, Matrix.smul_apply, vecMulVec_apply, smul_eq_mul, id]
    rw [get_tab k _ i j i.2 j.2]
    have hu : ∀ i, i < k → (((List.range k).map fun i => get A i 0 - hhAlpha sq k A * delta i 0).map
        fun x => x / sq (sumTo k fun i => hhW sq k A i * hhW sq k A i)).getD i 0
        = (get A i 0 - hhAlpha sq k A * delta i 0) / hhNw sq k A := by
      intro i hi
      simp [List.getD_eq_getElem?_getD, hi, hhNw]
    rw [hu i i.2, hu j j.2]
    simp only [hhWvec, delta, Matrix.one_apply, Fin.ext_iff]

/-- … hence symmetric and orthogonal when the norm is the exact root -/
theorem toM_householder_orthogonal (sq : Rat → Rat) (k : Nat) (A H : Mat) (h : householder sq id k A = some H)
    (hsq : hhNw sq k A * hhNw sq k A = sumTo k fun i => hhW sq k A i * hhW sq k A i) :
    (toM k H)ᵀ = toM k H ∧ toM k H * toM k H = 1 := by
  obtain ⟨hne, hH⟩ := toM_householder sq k A H h
  rw [hH]
  apply householder_orthogonal_symmetric
  simp only [dotProduct, hhWvec]
  rw [sumTo_eq_sum] at hsq
  have : ∀ i : Fin k, (get A i 0 - hhAlpha sq k A * delta i 0) / hhNw sq k A * ((get A i 0 - hhAlpha sq k A * delta i 0) / hhNw sq k A)
      = (hhW sq k A i * hhW sq k A i) / (hhNw sq k A * hhNw sq k A) := by
    intro i; simp only [hhW]; field_simp
  have h2 : ∀ i : Fin k, hhW sq k A i * hhW sq k A i / (hhNw sq k A * hhNw sq k A)
      = hhW sq k A i * hhW sq k A i * (hhNw sq k A * hhNw sq k A)⁻¹ := fun i => div_eq_mul_inv _ _
  simp only [this, h2]
  rw [← Finset.sum_mul, ← hsq]
  field_simp

/-! ### known finding: Eigensystem / Eigenvectors (DESIGN.md §6 C15) -/

/-- **known finding, on the model**: handed the exact eigenvalue 2 of diag(2,1), the first thing
    `Find_Eigenvector_Rayleigh` does is to invert `M − 2·1 = diag(0,−1)`, which is singular:
    `Inverse()` stops the process ("not invertible").  In floating point the eigenvalue returned by
    `Eigenvalues` is exact for a diagonal matrix, so the C++ does the same
    (replay: `c15.eigensystem 2 0x1p+1 0x0p+0 0x0p+0 0x1p+0` → err). -/
theorem eigensystem_witness (sq : Rat → Rat) (fuel : Nat) :
    findEigenvectorRayleigh sq inverseExact 2 witnessM 2 (fuel + 1) = .err := by
  have h : inverseExact 2 (shifted 2 witnessM 2) = none := by decide +kernel
  simp only [findEigenvectorRayleigh, rayleighLoop, h]

/-- FULL statement of the eigenvector clause on the model (exact arithmetic): handed an eigenvalue,
    the Rayleigh loop returns, for some amount of fuel, an eigenpair.  It is **false** — see
    `eigensystem_FULL_false` — and is recorded as a known finding; what does hold of the loop is
    `rayleigh_fixed_point` / `normalize_unit` (unit vector, Rayleigh quotient). -/
def eigensystem_FULL : Prop :=
  ∀ (sq : Rat → Rat) (n : Nat) (M : Mat) (ev : Rat), IsEigenvalue n M ev →
    ∃ fuel b l it, findEigenvectorRayleigh sq inverseExact n M ev fuel = .ok b l it ∧
      matVec n M b = b.map (l * ·)

theorem eigensystem_FULL_false : ¬ eigensystem_FULL := by
  intro h
  have hev : IsEigenvalue 2 witnessM 2 := ⟨[1, 0], rfl, ⟨1, by simp, by norm_num⟩, by decide +kernel⟩
  obtain ⟨fuel, b, l, it, hok, _⟩ := h (fun y => y) 2 witnessM 2 hev
  cases fuel with
  | zero => simp [findEigenvectorRayleigh, rayleighLoop] at hok
  | succ f => rw [eigensystem_witness] at hok; simp at hok

-- non-vacuity
example : sign2 5 (-(3 : Rat)) = -5 ∧ sign2 5 (-(-3 : Rat)) = 5 ∧ sign2 5 (-(0 : Rat)) = -5 := by
  simp [sign2, sign1]
example : ∃ u : Fin 2 → ℚ, u ⬝ᵥ u = 1 ∧ reflector u ≠ 1 := by
  refine ⟨![3/5, 4/5], by simp [dotProduct, Fin.sum_univ_two]; norm_num, ?_⟩
  intro h
  have := congrFun (congrFun h 0) 1
  simp [reflector] at this

end Lp.C15
