import LpModel.C15
namespace Lp.C15
theorem sign2_zero (x : Rat) (hx : x ≠ 0) : sign2 x 0 = -x := by
  unfold sign2 sign1
  by_cases h : x > 0
  · simp [h]
  · simp [h, hx]
end Lp.C15
