/-
  C11 helper lemmas: in exact arithmetic (`rnd = id`) every trial abscissa of Brent's loop lies in
  the current bracket `[a,b]`.
-/
import LpModel.C11
import LpProofs.C11.OneDim
import Mathlib.Tactic.Linarith
import Mathlib.Tactic.SplitIfs
import Mathlib.Tactic.FieldSimp
namespace Lp.C11

/-- the abscissa chosen from the step `d` (line 751) -/
def uOf (x tol1 d : Rat) : Rat := if rabs d ≥ tol1 then id (x + d) else id (x + sign2 tol1 d)

theorem rabs_eq (x : Rat) : rabs x = |x| := by
  unfold rabs
  split_ifs with h
  · exact (abs_of_neg h).symm
  · exact (abs_of_nonneg (not_lt.mp h)).symm

theorem sign2_pos_of_pos {t y : Rat} (ht : 0 < t) (hy : 0 < y) : sign2 t y = t := by
  simp [sign2, sgn, ht, hy]

theorem sign2_pos_of_nonpos {t y : Rat} (ht : 0 < t) (hy : y ≤ 0) : sign2 t y = -t := by
  unfold sign2 sgn
  have h1 : ¬ y > 0 := not_lt.mpr hy
  simp only [ht, if_true, h1, if_false]
  split_ifs <;> simp_all

theorem uOf_mem {a b x tol1 d : Rat} (ht : 0 < tol1) (hax : a ≤ x) (hxb : x ≤ b)
    (h1 : a ≤ x + d) (h2 : x + d ≤ b) (h3 : d ≤ 0 → a ≤ x - tol1) (h4 : 0 < d → x + tol1 ≤ b) :
    a ≤ uOf x tol1 d ∧ uOf x tol1 d ≤ b := by
  unfold uOf
  simp only [id]
  split_ifs with h
  · exact ⟨h1, h2⟩
  · by_cases hd : 0 < d
    · rw [sign2_pos_of_pos ht hd]
      exact ⟨by linarith, h4 hd⟩
    · have hd' : d ≤ 0 := not_lt.mp hd
      rw [sign2_pos_of_nonpos ht hd']
      have := h3 hd'
      exact ⟨by linarith, by linarith⟩

theorem cgold_pos : 0 < CGOLD := by unfold CGOLD; norm_num
theorem cgold_lt_one : CGOLD < 1 := by unfold CGOLD; norm_num

/-- golden-section step into the larger part of the bracket -/
theorem golden_mem {a b x xm tol1 : Rat} (ht : 0 < tol1) (hax : a ≤ x) (hxb : x ≤ b)
    (hL : x ≥ xm → x - a > 2 * tol1) (hR : ¬ x ≥ xm → b - x > 2 * tol1) :
    a ≤ uOf x tol1 (CGOLD * (if x ≥ xm then a - x else b - x)) ∧
      uOf x tol1 (CGOLD * (if x ≥ xm then a - x else b - x)) ≤ b := by
  have c0 := cgold_pos
  have c1 := cgold_lt_one
  split_ifs with h
  · have hl := hL h
    have h1 : CGOLD * (a - x) ≤ 0 := mul_nonpos_of_nonneg_of_nonpos (le_of_lt c0) (by linarith)
    have h2 : 0 ≤ (1 - CGOLD) * (x - a) := mul_nonneg (by linarith) (by linarith)
    apply uOf_mem ht hax hxb
    · nlinarith
    · linarith
    · intro _; linarith
    · intro hd; linarith
  · have hr := hR h
    have h1 : 0 < CGOLD * (b - x) := mul_pos c0 (by linarith)
    have h2 : 0 ≤ (1 - CGOLD) * (b - x) := mul_nonneg (by linarith) (by linarith)
    apply uOf_mem ht hax hxb
    · linarith
    · nlinarith
    · intro hd; linarith
    · intro _; linarith

/-- an accepted parabolic step lands strictly inside the bracket -/
theorem parab_mem {a b x p q : Rat} (hq : 0 ≤ q) (h1 : ¬ p ≤ q * (a - x)) (h2 : ¬ p ≥ q * (b - x)) :
    a < x + p / q ∧ x + p / q < b := by
  have hq0 : 0 < q := by
    rcases lt_or_eq_of_le hq with h | h
    · exact h
    · exfalso
      rw [← h] at h1 h2
      simp only [zero_mul] at h1 h2
      exact h2 (le_of_lt (not_le.mp h1))
  have e1 : a - x < p / q := by
    rw [lt_div_iff₀ hq0]
    have := not_le.mp h1
    linarith
  have e2 : p / q < b - x := by
    rw [div_lt_iff₀ hq0]
    have := not_le.mp h2
    linarith
  exact ⟨by linarith, by linarith⟩

section cases
variable {a b x xm tol1 tol2 : Rat} (ht : 0 < tol1) (ht2 : tol2 = 2 * tol1) (hax : a ≤ x) (hxb : x ≤ b)
  (hL : x ≥ xm → x - a > 2 * tol1) (hR : ¬ x ≥ xm → b - x > 2 * tol1)
include ht hax hxb hL hR

theorem goldL (h : x ≥ xm) : a ≤ uOf x tol1 (CGOLD * (a - x)) ∧ uOf x tol1 (CGOLD * (a - x)) ≤ b := by
  have := golden_mem ht hax hxb hL hR
  rwa [if_pos h] at this

theorem goldR (h : ¬ x ≥ xm) : a ≤ uOf x tol1 (CGOLD * (b - x)) ∧ uOf x tol1 (CGOLD * (b - x)) ≤ b := by
  have := golden_mem ht hax hxb hL hR
  rwa [if_neg h] at this

theorem edge_case : a ≤ uOf x tol1 (sign2 tol1 (xm - x)) ∧ uOf x tol1 (sign2 tol1 (xm - x)) ≤ b := by
  by_cases hm : 0 < xm - x
  · rw [sign2_pos_of_pos ht hm]
    have hr := hR (by intro hge; linarith)
    exact uOf_mem ht hax hxb (by linarith) (by linarith) (by intro hd; linarith) (by intro _; linarith)
  · rw [sign2_pos_of_nonpos ht (not_lt.mp hm)]
    have hl := hL (by linarith)
    exact uOf_mem ht hax hxb (by linarith) (by linarith) (by intro _; linarith) (by intro hd; linarith)

omit hL hR in
include ht2 in
theorem parab_case (A : Prop) (p q : Rat) (hq : 0 ≤ q) (h : ¬ (A ∨ p ≤ q * (a - x) ∨ p ≥ q * (b - x)))
    (h' : ¬ (x + p / q - a < tol2 ∨ b - (x + p / q) < tol2)) :
    a ≤ uOf x tol1 (p / q) ∧ uOf x tol1 (p / q) ≤ b := by
  push Not at h h'
  obtain ⟨_, hr1, hr2⟩ := h
  obtain ⟨he1, he2⟩ := h'
  obtain ⟨m1, m2⟩ := parab_mem hq (not_le.mpr hr1) (not_le.mpr hr2)
  apply uOf_mem ht hax hxb (le_of_lt m1) (le_of_lt m2)
  · intro hd; linarith
  · intro hd; linarith

end cases

theorem parabPQ_nonneg (s : Bt) : 0 ≤ (parabPQ id s).2.1 := by
  unfold parabPQ
  dsimp only
  rw [rabs_eq]
  exact abs_nonneg _

/-- in exact arithmetic the trial abscissa of a pass lies in the bracket -/
theorem brentTrial_mem (s : Bt) (xm tol1 tol2 : Rat) (ht : 0 < tol1) (ht2 : tol2 = 2 * tol1)
    (hax : s.a ≤ s.x) (hxb : s.x ≤ s.b)
    (hL : s.x ≥ xm → s.x - s.a > 2 * tol1) (hR : ¬ s.x ≥ xm → s.b - s.x > 2 * tol1) :
    s.a ≤ uOf s.x tol1 (brentTrial id s xm tol1 tol2).1 ∧ uOf s.x tol1 (brentTrial id s xm tol1 tol2).1 ≤ s.b := by
  have hg : s.a ≤ uOf s.x tol1 (goldenStep id s xm).1 ∧ uOf s.x tol1 (goldenStep id s xm).1 ≤ s.b := by
    unfold goldenStep
    simp only [id]
    exact golden_mem ht hax hxb hL hR
  have hq := parabPQ_nonneg s
  unfold brentTrial brentDE
  simp only [id]
  generalize parabPQ id s = pq at *
  split_ifs with h1 h2 h3
  · exact hg
  · exact edge_case ht hax hxb hL hR
  · exact parab_case ht ht2 hax hxb _ _ _ hq h2 h3
  · exact hg

theorem zeps_pos : 0 < ZEPS := by unfold ZEPS; norm_num

/-- `brent_in_bracket`, one pass, exact arithmetic: the abscissa at which the pass evaluates the
    objective lies in the current bracket -/
theorem brentIter_in_bracket {f : Rat → Rat} {tol : Rat} {s s' : Bt} {ev : Ev} (htol : 0 ≤ tol)
    (hax : s.a ≤ s.x) (hxb : s.x ≤ s.b) (h : brentIter id f tol s = .next s' ev) :
    s.a ≤ ev.1 ∧ ev.1 ≤ s.b := by
  have ht : 0 < tol * rabs s.x + ZEPS := by
    have h1 : 0 ≤ rabs s.x := by rw [rabs_eq]; exact abs_nonneg _
    have := mul_nonneg htol h1
    have := zeps_pos
    linarith
  unfold brentIter at h
  simp only [id] at h
  by_cases hstop : rabs (s.x - 1 / 2 * (s.a + s.b)) ≤ 2 * (tol * rabs s.x + ZEPS) - 1 / 2 * (s.b - s.a)
  · rw [if_pos hstop] at h
    cases h
  · rw [if_neg hstop] at h
    rw [rabs_eq] at hstop
    have hL : s.x ≥ 1 / 2 * (s.a + s.b) → s.x - s.a > 2 * (tol * rabs s.x + ZEPS) := by
      intro hge
      rw [abs_of_nonneg (by linarith)] at hstop
      linarith
    have hR : ¬ s.x ≥ 1 / 2 * (s.a + s.b) → s.b - s.x > 2 * (tol * rabs s.x + ZEPS) := by
      intro hlt
      rw [abs_of_neg (by linarith)] at hstop
      linarith
    have key := brentTrial_mem s (1 / 2 * (s.a + s.b)) (tol * rabs s.x + ZEPS) (2 * (tol * rabs s.x + ZEPS)) ht rfl hax hxb hL hR
    unfold uOf at key
    simp only [id] at key
    split_ifs at h <;> simp only [BtStep.next.injEq] at h
    all_goals
      obtain ⟨_, rfl⟩ := h
      dsimp only
      split_ifs at key ⊢ <;> exact key

/-- all abscissae evaluated by the loop lie in the bracket the loop started with -/
theorem brentLoop_in_bracket {f : Rat → Rat} {tol : Rat} (htol : 0 ≤ tol) : ∀ (n : Nat) (s : Bt),
    s.a ≤ s.x → s.x ≤ s.b → ∀ ev ∈ (brentLoop id f tol n s).2, s.a ≤ ev.1 ∧ ev.1 ≤ s.b
  | 0, s, _, _, ev, hev => by simp [brentLoop] at hev
  | n + 1, s, hax, hxb, ev, hev => by
    unfold brentLoop at hev
    split at hev
    · simp at hev
    · rename_i s1 ev1 heq
      have h1 := brentIter_in_bracket htol hax hxb heq
      obtain ⟨n1, n2, n3, n4⟩ := brentIter_nested id f heq hax hxb h1.1 h1.2
      simp only [List.mem_cons] at hev
      rcases hev with rfl | hev
      · exact h1
      · obtain ⟨i1, i2⟩ := brentLoop_in_bracket htol n s1 n1 n2 ev hev
        exact ⟨le_trans n3 i1, le_trans i2 n4⟩

end Lp.C11
