/-
  C11 helper lemmas: `psum` holds the column sums of the simplex at the head of every pass of the
  Nelder–Mead loop — in exact arithmetic (`rnd = id`; with rounding the incremental update of
  `amotry` and a fresh `get_psum` differ by rounding errors, absorbed by the correspondence run).
-/
import LpProofs.C11.Simplex
import Mathlib.Tactic.Ring
namespace Lp.C11

variable (f : Pt → Rat)

theorem foldl_shift (j : Nat) : ∀ (l : List Pt) (a d : Rat),
    l.foldl (fun s row => id (s + row.getD j 0)) (a + d) = l.foldl (fun s row => id (s + row.getD j 0)) a + d
  | [], a, d => by simp
  | row :: rest, a, d => by
    simp only [List.foldl_cons, id]
    have := foldl_shift j rest (a + row.getD j 0) d
    simp only [id] at this
    rw [← this]
    congr 1
    ring

theorem foldl_set (j : Nat) (v : Pt) : ∀ (p : List Pt) (i : Nat) (a : Rat), i < p.length →
    (p.set i v).foldl (fun s row => id (s + row.getD j 0)) a =
      p.foldl (fun s row => id (s + row.getD j 0)) a + (v.getD j 0 - (p.getD i []).getD j 0)
  | [], i, a, h => by simp at h
  | row :: rest, 0, a, _ => by
    simp only [List.set_cons_zero, List.foldl_cons, id, List.getD_cons_zero]
    have := foldl_shift j rest (a + row.getD j 0) (v.getD j 0 - row.getD j 0)
    simp only [id] at this
    rw [← this]
    congr 1
    ring
  | row :: rest, i + 1, a, h => by
    simp only [List.set_cons_succ, List.foldl_cons, List.getD_cons_succ]
    exact foldl_set j v rest i _ (by simpa using h)

theorem colSum_set (p : List Pt) (i j : Nat) (v : Pt) (hi : i < p.length) :
    colSum id (p.set i v) j = colSum id p j + (v.getD j 0 - (p.getD i []).getD j 0) := by
  unfold colSum
  exact foldl_set j v p i 0 hi

/-- `psum` is the vector of column sums of the current simplex -/
def PsInv (ndim : Nat) (s : NM) : Prop := s.psum = getPsum id ndim s.p

theorem getPsum_getD (ndim : Nat) (p : List Pt) (j : Nat) (hj : j < ndim) :
    (getPsum id ndim p).getD j 0 = colSum id p j := by
  simp [getPsum, List.getD_eq_getElem?_getD, hj]

theorem amotry_psum (ndim : Nat) (s : NM) (ihi : Nat) (fac : Rat) (hi : ihi < s.p.length) (h : PsInv ndim s) :
    PsInv ndim (amotry id f ndim s ihi fac).1 := by
  unfold PsInv at *
  unfold amotry
  dsimp only
  split_ifs
  · simp only [id]
    unfold getPsum
    apply List.map_congr_left
    intro j hj
    have hj' : j < ndim := by simpa using hj
    rw [colSum_set _ _ _ _ hi, h, getPsum_getD ndim s.p j hj']
  · exact h

theorem amotry_plength (rnd : Rat → Rat) (ndim : Nat) (s : NM) (ihi : Nat) (fac : Rat) :
    (amotry rnd f ndim s ihi fac).1.p.length = s.p.length := by
  unfold amotry; dsimp only; split_ifs <;> simp

/-- every pass of the loop that continues re-establishes `psum = column sums` (the reflection,
    expansion and contraction through the incremental update of `amotry`, the shrink step through
    the recomputation by `get_psum`) -/
theorem nmStep_psum {ftol : Rat} {ndim : Nat} {s s' : NM} {tr : List EvN} (hn : 2 ≤ s.y.length)
    (hinv : NMInv f s) (hps : PsInv ndim s) (h : nmStep id f ftol ndim s = .cont s' tr) : PsInv ndim s' := by
  have hc := scan_ok hn
  have hpl : s.p.length = s.y.length := by rw [hinv, List.length_map]
  have hi : (scan s.y).ihi < s.p.length := by rw [hpl]; exact hc.ihi_lt
  have hps0 : PsInv ndim { s with nfunc := s.nfunc + 2 } := hps
  unfold nmStep at h
  dsimp only at h
  split_ifs at h <;> simp only [NMStep.cont.injEq] at h
  · obtain ⟨rfl, _⟩ := h
    exact amotry_psum f _ _ _ _ (by rw [amotry_plength]; exact hi) (amotry_psum f _ _ _ _ hi hps0)
  · obtain ⟨rfl, _⟩ := h
    rfl
  · obtain ⟨rfl, _⟩ := h
    exact amotry_psum f _ _ _ _ (by rw [amotry_plength]; exact hi) (amotry_psum f _ _ _ _ hi hps0)
  · obtain ⟨rfl, _⟩ := h
    exact amotry_psum f _ _ _ _ hi hps0

end Lp.C11
