/-
  C11 helper lemmas, Nelder–Mead part: `amotry`, the ilo/ihi scan, the shrink loop, for every
  objective `f` and every rounding function `rnd`.
-/
import LpModel.C11
import Mathlib.Tactic.Linarith
import Mathlib.Tactic.SplitIfs
namespace Lp.C11

variable (rnd : Rat → Rat) (f : Pt → Rat)

/-- the vertex values are the objective at the vertices -/
def NMInv (s : NM) : Prop := s.y = s.p.map f

/-- some vertex value is at most `M` -/
def Below (y : List Rat) (M : Rat) : Prop := ∃ (i : Nat) (v : Rat), y[i]? = some v ∧ v ≤ M

theorem getD_of_getElem? {y : List Rat} {i : Nat} {v : Rat} (h : y[i]? = some v) : y.getD i 0 = v := by
  simp [List.getD_eq_getElem?_getD, h]

theorem getElem?_of_lt {y : List Rat} {i : Nat} (h : i < y.length) : y[i]? = some (y.getD i 0) := by
  simp [List.getD_eq_getElem?_getD, List.getElem?_eq_getElem h]

/-! ### amotry -/

theorem amotry_ytry (ndim : Nat) (s : NM) (ihi : Nat) (fac : Rat) :
    (amotry rnd f ndim s ihi fac).2.1 = f (amotry rnd f ndim s ihi fac).2.2 := by
  unfold amotry; dsimp only; split_ifs <;> rfl

theorem amotry_y (ndim : Nat) (s : NM) (ihi : Nat) (fac : Rat) :
    (amotry rnd f ndim s ihi fac).1.y =
      if (amotry rnd f ndim s ihi fac).2.1 < s.y.getD ihi 0 then s.y.set ihi (amotry rnd f ndim s ihi fac).2.1 else s.y := by
  unfold amotry; dsimp only; split_ifs <;> rfl

theorem amotry_nfunc (ndim : Nat) (s : NM) (ihi : Nat) (fac : Rat) :
    (amotry rnd f ndim s ihi fac).1.nfunc = s.nfunc := by
  unfold amotry; dsimp only; split_ifs <;> rfl

theorem amotry_inv (ndim : Nat) (s : NM) (ihi : Nat) (fac : Rat) (h : NMInv f s) :
    NMInv f (amotry rnd f ndim s ihi fac).1 := by
  unfold NMInv at *
  unfold amotry; dsimp only; split_ifs
  · simp [List.map_set, h]
  · exact h

theorem set_below {y : List Rat} {M : Rat} (ihi : Nat) (w : Rat) (hw : w < y.getD ihi 0) (h : Below y M) :
    Below (y.set ihi w) M := by
  obtain ⟨i, v, hi, hv⟩ := h
  by_cases hih : ihi = i
  · subst hih
    have hlt : ihi < y.length := by
      by_contra hc
      simp [List.getElem?_eq_none (not_lt.mp hc)] at hi
    refine ⟨ihi, w, by simp [List.getElem?_set, hlt], ?_⟩
    rw [getD_of_getElem? hi] at hw
    linarith
  · exact ⟨i, v, by simp [List.getElem?_set, hih, hi], hv⟩

theorem amotry_below (ndim : Nat) (s : NM) (ihi : Nat) (fac : Rat) {M : Rat} (h : Below s.y M) :
    Below (amotry rnd f ndim s ihi fac).1.y M := by
  rw [amotry_y]
  split_ifs with hlt
  · exact set_below ihi _ hlt h
  · exact h

theorem amotry_length (ndim : Nat) (s : NM) (ihi : Nat) (fac : Rat) :
    (amotry rnd f ndim s ihi fac).1.y.length = s.y.length := by
  rw [amotry_y]; split_ifs <;> simp

/-! ### the scan -/

structure ScanOK (y : List Rat) (k : Nat) (c : Scan) : Prop where
  ilo_lt : c.ilo < y.length
  ihi_lt : c.ihi < y.length
  lo_min : ∀ j, j < k → y.getD c.ilo 0 ≤ y.getD j 0

theorem scanStep_ok {y : List Rat} {k : Nat} {c : Scan} (h : ScanOK y k c) (hk : k < y.length) :
    ScanOK y (k + 1) (scanStep y c k) := by
  obtain ⟨h1, h2, h3⟩ := h
  have key : ∀ c' : Scan, c'.ilo = (if y.getD k 0 ≤ y.getD c.ilo 0 then k else c.ilo) →
      (c'.ihi = k ∨ c'.ihi = c.ihi) → ScanOK y (k + 1) c' := by
    intro c' hlo hhi
    refine ⟨?_, ?_, ?_⟩
    · rw [hlo]; split_ifs <;> assumption
    · rcases hhi with h | h <;> rw [h] <;> assumption
    · intro j hj
      rw [hlo]
      split_ifs with hle
      · rcases Nat.lt_succ_iff_lt_or_eq.mp hj with hj' | rfl
        · exact le_trans hle (h3 j hj')
        · exact le_refl _
      · rcases Nat.lt_succ_iff_lt_or_eq.mp hj with hj' | rfl
        · exact h3 j hj'
        · exact le_of_lt (not_le.mp hle)
  unfold scanStep
  dsimp only
  by_cases c1 : y.getD k 0 > y.getD c.ihi 0
  · rw [if_pos c1]; exact key _ rfl (Or.inl rfl)
  · rw [if_neg c1]
    by_cases c2 : (y.getD k 0 > y.getD c.inhi 0 ∧ k ≠ c.ihi)
    · rw [if_pos c2]; exact key _ rfl (Or.inr rfl)
    · rw [if_neg c2]; exact key _ rfl (Or.inr rfl)

theorem scan_fold_ok {y : List Rat} {c0 : Scan} (h0 : ScanOK y 0 c0) :
    ∀ k, k ≤ y.length → ScanOK y k ((List.range k).foldl (scanStep y) c0)
  | 0, _ => by simpa using h0
  | k + 1, hk => by
    rw [List.range_succ, List.foldl_append]
    simp only [List.foldl_cons, List.foldl_nil]
    exact scanStep_ok (scan_fold_ok h0 k (Nat.le_of_succ_le hk)) hk

theorem scan_ok {y : List Rat} (hn : 2 ≤ y.length) : ScanOK y y.length (scan y) := by
  unfold scan
  dsimp only
  apply scan_fold_ok _ _ (le_refl _)
  split_ifs
  · exact ⟨by simp; omega, by simp; omega, by intro j hj; omega⟩
  · exact ⟨by simp; omega, by simp; omega, by intro j hj; omega⟩

/-- the scan also finds a highest vertex: no value among the first `k` exceeds `y[ihi]` -/
def HiOK (y : List Rat) (k : Nat) (c : Scan) : Prop := ∀ j, j < k → y.getD j 0 ≤ y.getD c.ihi 0

theorem scanStep_hi {y : List Rat} {k : Nat} {c : Scan} (h : HiOK y k c) : HiOK y (k + 1) (scanStep y c k) := by
  unfold scanStep
  dsimp only
  by_cases c1 : y.getD k 0 > y.getD c.ihi 0
  · rw [if_pos c1]
    intro j hj
    dsimp only
    rcases Nat.lt_succ_iff_lt_or_eq.mp hj with hj' | rfl
    · exact le_trans (h j hj') (le_of_lt c1)
    · exact le_refl _
  · rw [if_neg c1]
    have key : ∀ c' : Scan, c'.ihi = c.ihi → HiOK y (k + 1) c' := by
      intro c' e j hj
      rw [e]
      rcases Nat.lt_succ_iff_lt_or_eq.mp hj with hj' | rfl
      · exact h j hj'
      · exact not_lt.mp c1
    by_cases c2 : (y.getD k 0 > y.getD c.inhi 0 ∧ k ≠ c.ihi)
    · rw [if_pos c2]; exact key _ rfl
    · rw [if_neg c2]; exact key _ rfl

theorem scan_fold_hi {y : List Rat} {c0 : Scan} :
    ∀ k, HiOK y k ((List.range k).foldl (scanStep y) c0)
  | 0 => by intro j hj; omega
  | k + 1 => by
    rw [List.range_succ, List.foldl_append]
    simp only [List.foldl_cons, List.foldl_nil]
    exact scanStep_hi (scan_fold_hi k)

theorem scan_hi (y : List Rat) : ∀ j, j < y.length → y.getD j 0 ≤ y.getD (scan y).ihi 0 := by
  unfold scan
  dsimp only
  exact scan_fold_hi y.length

/-! ### the shrink loop -/

theorem shrinkAll_inv (ndim ilo : Nat) (plo : Pt) : ∀ (p : List Pt) (i : Nat) (ys : List Rat), ys = p.map f →
    (shrinkAll rnd f ndim ilo plo i p ys).2 = (shrinkAll rnd f ndim ilo plo i p ys).1.map f
  | [], i, ys, _ => by simp [shrinkAll]
  | row :: rest, i, ys, h => by
    subst h
    unfold shrinkAll
    dsimp only
    have ih := shrinkAll_inv ndim ilo plo rest (i + 1) (rest.map f) rfl
    split_ifs
    · simp [ih]
    · simp [ih]

theorem shrinkAll_length (ndim ilo : Nat) (plo : Pt) : ∀ (p : List Pt) (i : Nat) (ys : List Rat),
    (shrinkAll rnd f ndim ilo plo i p ys).2.length = p.length
  | [], i, ys => by simp [shrinkAll]
  | row :: rest, i, ys => by
    unfold shrinkAll
    dsimp only
    have ih := shrinkAll_length ndim ilo plo rest (i + 1) ys.tail
    split_ifs <;> simp [ih]

theorem shrinkAll_keep (ndim ilo : Nat) (plo : Pt) : ∀ (p : List Pt) (i k : Nat) (ys : List Rat),
    ys.length = p.length → i + k = ilo → k < p.length →
    (shrinkAll rnd f ndim ilo plo i p ys).2[k]? = ys[k]?
  | [], i, k, ys, _, _, hk => by simp at hk
  | row :: rest, i, k, ys, hl, hik, hk => by
    unfold shrinkAll
    dsimp only
    cases ys with
    | nil => simp at hl
    | cons y0 yr =>
      cases k with
      | zero =>
        have : i = ilo := by omega
        simp [this]
      | succ k' =>
        have hne : ¬ i = ilo := by omega
        have ih := shrinkAll_keep ndim ilo plo rest (i + 1) k' yr (by simpa using hl) (by omega) (by simpa using hk)
        simp [hne, ih]

/-! ### one pass of the main loop -/

/-- after the reflection was not good enough (`ytry > y[ilo]`), the best vertex of the scan is
    still the best vertex: whatever vertex value is at most `M`, `y[ilo]` is -/
theorem lo_still_min {y0 : List Rat} {c : Scan} (hc : ScanOK y0 y0.length c) (ytry : Rat) (y1 : List Rat)
    (hy1 : y1 = if ytry < y0.getD c.ihi 0 then y0.set c.ihi ytry else y0)
    (hgt : ¬ ytry ≤ y1.getD c.ilo 0) {M : Rat} (hb : Below y1 M) : y1.getD c.ilo 0 ≤ M := by
  obtain ⟨hlo, hhi, hmin⟩ := hc
  obtain ⟨i, v, hi, hv⟩ := hb
  refine le_trans ?_ hv
  split_ifs at hy1 with hlt
  · subst hy1
    have hne : ¬ c.ihi = c.ilo := by
      intro e
      apply hgt
      simp [List.getD_eq_getElem?_getD, List.getElem?_set, e, hlo]
    have hlo' : (y0.set c.ihi ytry).getD c.ilo 0 = y0.getD c.ilo 0 := by
      simp [List.getD_eq_getElem?_getD, List.getElem?_set, hne]
    rw [hlo'] at hgt ⊢
    by_cases hih : c.ihi = i
    · subst hih
      simp [List.getElem?_set, hhi] at hi
      subst hi
      exact le_of_lt (not_le.mp hgt)
    · simp [List.getElem?_set, hih] at hi
      have hil : i < y0.length := by
        by_contra hcon
        simp [List.getElem?_eq_none (not_lt.mp hcon)] at hi
      rw [← getD_of_getElem? hi]
      exact hmin i hil
  · subst hy1
    have hil : i < y1.length := by
      by_contra hcon
      simp [List.getElem?_eq_none (not_lt.mp hcon)] at hi
    rw [← getD_of_getElem? hi]
    exact hmin i hil

/-- what one pass that continues preserves -/
def Good (s s' : NM) : Prop :=
  NMInv f s' ∧ s'.y.length = s.y.length ∧ ∀ M, Below s.y M → Below s'.y M

theorem nmStep_cont {ftol : Rat} {ndim : Nat} {s s' : NM} {tr : List EvN} (hn : 2 ≤ s.y.length)
    (hinv : NMInv f s) (h : nmStep rnd f ftol ndim s = .cont s' tr) : Good f s s' := by
  have hc := scan_ok hn
  have hinv0 : NMInv f { s with nfunc := s.nfunc + 2 } := hinv
  unfold nmStep at h
  dsimp only at h
  split_ifs at h with h1 h2 h3 h4 h5 <;> simp only [NMStep.cont.injEq] at h
  · -- expansion
    obtain ⟨rfl, _⟩ := h
    refine ⟨amotry_inv rnd f _ _ _ _ (amotry_inv rnd f _ _ _ _ hinv0), ?_, ?_⟩
    · rw [amotry_length, amotry_length]
    · intro M hb
      exact amotry_below rnd f _ _ _ _ (amotry_below rnd f _ _ _ _ hb)
  · -- contraction failed: shrink towards the best vertex
    obtain ⟨rfl, _⟩ := h
    have hinv1 := amotry_inv rnd f ndim _ (scan s.y).ihi K.nmReflect hinv0
    have hinv2 := amotry_inv rnd f ndim _ (scan s.y).ihi K.nmContract hinv1
    have hy2 := amotry_y rnd f ndim (amotry rnd f ndim { s with nfunc := s.nfunc + 2 } (scan s.y).ihi K.nmReflect).1 (scan s.y).ihi K.nmContract
    rw [if_neg (not_lt.mpr h5)] at hy2
    have hlen2 : (amotry rnd f ndim (amotry rnd f ndim { s with nfunc := s.nfunc + 2 } (scan s.y).ihi K.nmReflect).1 (scan s.y).ihi K.nmContract).1.y.length = s.y.length := by
      rw [amotry_length, amotry_length]
    have hpl : (amotry rnd f ndim (amotry rnd f ndim { s with nfunc := s.nfunc + 2 } (scan s.y).ihi K.nmReflect).1 (scan s.y).ihi K.nmContract).1.p.length = s.y.length := by
      rw [← hlen2, hinv2, List.length_map]
    refine ⟨?_, ?_, ?_⟩
    · exact shrinkAll_inv rnd f _ _ _ _ _ _ hinv2
    · simp only
      rw [shrinkAll_length, hpl]
    · intro M hb
      have hb1 : Below (amotry rnd f ndim { s with nfunc := s.nfunc + 2 } (scan s.y).ihi K.nmReflect).1.y M :=
        amotry_below rnd f _ _ _ _ hb
      have hle := lo_still_min hc _ _ (amotry_y rnd f ndim { s with nfunc := s.nfunc + 2 } (scan s.y).ihi K.nmReflect) h3 hb1
      refine ⟨(scan s.y).ilo, _, ?_, hle⟩
      simp only
      rw [shrinkAll_keep rnd f ndim _ _ _ 0 (scan s.y).ilo _ (by rw [hlen2, hpl]) (by omega) (by rw [hpl]; exact hc.ilo_lt), hy2]
      apply getElem?_of_lt
      rw [amotry_length]
      exact hc.ilo_lt
  · -- contraction accepted
    obtain ⟨rfl, _⟩ := h
    refine ⟨amotry_inv rnd f _ _ _ _ (amotry_inv rnd f _ _ _ _ hinv0), ?_, ?_⟩
    · rw [amotry_length, amotry_length]
    · intro M hb
      exact amotry_below rnd f _ _ _ _ (amotry_below rnd f _ _ _ _ hb)
  · -- reflection accepted
    obtain ⟨rfl, _⟩ := h
    refine ⟨amotry_inv rnd f _ _ _ _ hinv0, ?_, ?_⟩
    · simp only; rw [amotry_length]
    · intro M hb
      exact amotry_below rnd f _ _ _ _ hb

/-! ### the exit: swap to best-first -/

theorem swap0_map {α β : Type} (g : α → β) (l : List α) (i : Nat) (a : α) (b : β) (hi : i < l.length) :
    swap0 (l.map g) i b = (swap0 l i a).map g := by
  have h0 : 0 < l.length := by omega
  unfold swap0
  simp [List.map_set, List.getD_eq_getElem?_getD, List.getElem?_eq_getElem hi, List.getElem?_eq_getElem h0]

theorem nmStep_done {ftol : Rat} {ndim : Nat} {s s' : NM} {pmin : Pt} {fmin m : Rat} (hn : 2 ≤ s.y.length)
    (hinv : NMInv f s) (h : nmStep rnd f ftol ndim s = .done pmin fmin s' m) :
    NMInv f s' ∧ fmin = f pmin ∧ pmin = s'.p.getD 0 [] ∧ fmin = s'.y.getD 0 0 ∧
      (∀ v ∈ s'.y, fmin ≤ v) ∧ (∀ M, Below s.y M → fmin ≤ M) := by
  obtain ⟨hlo, hhi, hmin⟩ := scan_ok hn
  have hpl : s.p.length = s.y.length := by rw [hinv, List.length_map]
  have h0 : 0 < s.y.length := by omega
  unfold nmStep at h
  dsimp only at h
  split_ifs at h <;> simp only [NMStep.done.injEq] at h
  obtain ⟨rfl, rfl, rfl, _⟩ := h
  have hsw : swap0 s.y (scan s.y).ilo 0 = (swap0 s.p (scan s.y).ilo []).map f := by
    have := swap0_map f s.p (scan s.y).ilo [] 0 (by rw [hpl]; exact hlo)
    rw [← hinv] at this
    exact this
  have hfirst : (swap0 s.y (scan s.y).ilo 0).getD 0 0 = s.y.getD (scan s.y).ilo 0 := by
    unfold swap0
    by_cases e : (scan s.y).ilo = 0
    · simp [e, List.getD_eq_getElem?_getD, List.getElem?_set, h0]
    · simp [List.getD_eq_getElem?_getD, List.getElem?_set, e, h0, Ne.symm e]
  refine ⟨hsw, ?_, rfl, rfl, ?_, ?_⟩
  · rw [hsw]
    have : 0 < (swap0 s.p (scan s.y).ilo []).length := by unfold swap0; simp; omega
    simp [List.getD_eq_getElem?_getD, List.getElem?_eq_getElem this]
  · intro v hv
    simp only at hv
    rw [hfirst]
    unfold swap0 at hv
    rcases List.mem_or_eq_of_mem_set hv with hv | rfl
    · rcases List.mem_or_eq_of_mem_set hv with hv | rfl
      · obtain ⟨j, hj, rfl⟩ := List.getElem_of_mem hv
        have := hmin j hj
        simpa [List.getD_eq_getElem?_getD, List.getElem?_eq_getElem hj] using this
      · exact le_refl _
    · exact hmin 0 h0
  · intro M ⟨i, v, hi, hv⟩
    rw [hfirst]
    have hil : i < s.y.length := by
      by_contra hcon
      simp [List.getElem?_eq_none (not_lt.mp hcon)] at hi
    rw [← getD_of_getElem? hi] at hv
    exact le_trans (hmin i hil) hv

/-- used by the non-vacuity examples: a run that ends with `ok` -/
def isOkN : Option (OutN × List EvN) → Bool
  | some (.ok .., _) => true
  | _ => false

theorem exists_of_isOkN {r : Option (OutN × List EvN)} (h : isOkN r = true) :
    ∃ p fm s m t, r = some (.ok p fm s m, t) := by
  match r, h with
  | some (.ok p fm s m, t), _ => exact ⟨p, fm, s, m, t, rfl⟩

end Lp.C11

namespace Lp.C11

variable (rnd : Rat → Rat) (f : Pt → Rat)

/-! ### `nfunc` counts the evaluations after the initial simplex -/

theorem shrinkAll_length1 (ndim ilo : Nat) (plo : Pt) : ∀ (p : List Pt) (i : Nat) (ys : List Rat),
    (shrinkAll rnd f ndim ilo plo i p ys).1.length = p.length
  | [], i, ys => by simp [shrinkAll]
  | row :: rest, i, ys => by
    unfold shrinkAll
    dsimp only
    have ih := shrinkAll_length1 ndim ilo plo rest (i + 1) ys.tail
    split_ifs <;> simp [ih]

theorem filter_ne_length : ∀ (n k : Nat), k < n → ((List.range n).filter (· ≠ k)).length = n - 1
  | 0, k, h => by omega
  | n + 1, k, h => by
    rw [List.range_succ, List.filter_append, List.length_append]
    by_cases hk : k = n
    · subst hk
      have : (List.range k).filter (· ≠ k) = List.range k := by
        apply List.filter_eq_self.mpr
        intro a ha
        have := List.mem_range.mp ha
        simp; omega
      rw [this]
      simp
    · have hlt : k < n := by omega
      rw [filter_ne_length n k hlt]
      have : n ≠ k := fun e => hk e.symm
      simp [this]
      omega

theorem nmStep_nfunc {ftol : Rat} {ndim : Nat} {s s' : NM} {tr : List EvN} (hn : 2 ≤ s.y.length)
    (hinv : NMInv f s) (hm : s.p.length = ndim + 1) (h : nmStep rnd f ftol ndim s = .cont s' tr) :
    s'.nfunc = s.nfunc + tr.length := by
  have hc := scan_ok hn
  have hpl : s.p.length = s.y.length := by rw [hinv, List.length_map]
  unfold nmStep at h
  dsimp only at h
  split_ifs at h <;> simp only [NMStep.cont.injEq] at h
  · obtain ⟨rfl, rfl⟩ := h
    simp [amotry_nfunc]
  · obtain ⟨rfl, rfl⟩ := h
    have hl : (amotry rnd f ndim (amotry rnd f ndim { s with nfunc := s.nfunc + 2 } (scan s.y).ihi K.nmReflect).1 (scan s.y).ihi K.nmContract).1.p.length = ndim + 1 := by
      rw [← hm]
      unfold amotry; dsimp only; split_ifs <;> simp
    simp only [List.length_append, List.length_cons, List.length_nil, List.length_map, shrinkAll_length1, amotry_nfunc]
    rw [filter_ne_length _ _ (by rw [hl, ← hm, hpl]; exact hc.ilo_lt), hl]
    omega
  · obtain ⟨rfl, rfl⟩ := h
    simp [amotry_nfunc]
  · obtain ⟨rfl, rfl⟩ := h
    simp [amotry_nfunc]

end Lp.C11
