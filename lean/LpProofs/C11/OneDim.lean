/-
  C11 helper lemmas, one-dimensional part: invariants of `bracketStep` / `bracketLoop` and of
  `brentIter` / `brentLoop`, for every objective `f` and every rounding function `rnd`.
-/
import LpModel.C11
import Mathlib.Tactic.Linarith
import Mathlib.Tactic.SplitIfs
namespace Lp.C11

variable (rnd : Rat → Rat) (f : Rat → Rat)

/-- what the bookkeeping of `Bracket` maintains: the stored values are the objective at the stored
    abscissae, the middle value is not above the first one nor above the bound `M` -/
structure BrInv (M : Rat) (s : Br) : Prop where
  ha : s.fa = f s.ax
  hb : s.fb = f s.bx
  hc : s.fc = f s.cx
  hba : s.fb ≤ s.fa
  hM : s.fb ≤ M

theorem bracketInit_inv (a b : Rat) :
    BrInv f (min (f a) (f b)) (bracketInit rnd f a b).1 := by
  unfold bracketInit
  by_cases h : f b > f a
  · constructor <;> simp [h]
    · exact le_of_lt h
    · exact le_of_lt h
  · have h' : f b ≤ f a := not_lt.mp h
    constructor <;> simp [h, h']

theorem bracketStep_ret {M : Rat} {s s' : Br} {t : List Ev} (hs : BrInv f M s) (hlt : s.fb > s.fc)
    (h : bracketStep rnd f s = (.ret s', t)) : BrInv f M s' ∧ s'.fb ≤ s'.fc := by
  obtain ⟨ha, hb, hc, hba, hM⟩ := hs
  unfold bracketStep at h
  dsimp only at h
  split_ifs at h <;> simp only [Prod.mk.injEq, BrStep.ret.injEq, reduceCtorEq, false_and] at h
  · obtain ⟨rfl, _⟩ := h
    refine ⟨⟨?_, ?_, ?_, ?_, ?_⟩, ?_⟩ <;> simp_all <;> linarith
  · obtain ⟨rfl, _⟩ := h
    refine ⟨⟨?_, ?_, ?_, ?_, ?_⟩, ?_⟩ <;> simp_all <;> linarith

theorem bracketStep_cont {M : Rat} {s s' : Br} {t : List Ev} (hs : BrInv f M s) (hlt : s.fb > s.fc)
    (h : bracketStep rnd f s = (.cont s', t)) : BrInv f M s' := by
  obtain ⟨ha, hb, hc, hba, hM⟩ := hs
  unfold bracketStep at h
  dsimp only at h
  split_ifs at h <;> simp only [Prod.mk.injEq, BrStep.cont.injEq, reduceCtorEq, false_and] at h
  all_goals
    obtain ⟨rfl, _⟩ := h
    refine ⟨?_, ?_, ?_, ?_, ?_⟩ <;> simp_all <;> linarith

theorem bracketLoop_inv {M : Rat} : ∀ (n : Nat) (s s' : Br) (t : List Ev), BrInv f M s →
    bracketLoop rnd f n s = (some s', t) → BrInv f M s' ∧ s'.fb ≤ s'.fc
  | 0, s, s', t, hs, h => by
    unfold bracketLoop at h
    split_ifs at h with hlt
    · simp at h
    · simp only [Prod.mk.injEq, Option.some.injEq] at h
      obtain ⟨rfl, _⟩ := h
      exact ⟨hs, not_lt.mp hlt⟩
  | n + 1, s, s', t, hs, h => by
    unfold bracketLoop at h
    split_ifs at h with hlt
    · split at h
      · rename_i s1 t1 heq
        simp only [Prod.mk.injEq, Option.some.injEq] at h
        obtain ⟨rfl, _⟩ := h
        exact bracketStep_ret rnd f hs hlt heq
      · rename_i s1 t1 heq
        simp only [Prod.mk.injEq] at h
        obtain ⟨h1, _⟩ := h
        have hs1 := bracketStep_cont rnd f hs hlt heq
        exact bracketLoop_inv n s1 s' (bracketLoop rnd f n s1).2 hs1 (by rw [← h1])
    · simp only [Prod.mk.injEq, Option.some.injEq] at h
      obtain ⟨rfl, _⟩ := h
      obtain ⟨ha, hb, hc, hba, hM⟩ := hs
      exact ⟨⟨ha, hb, hc, hba, hM⟩, not_lt.mp hlt⟩

/-- Brent's bookkeeping: `fx` is the objective at `x` and never exceeds the bound -/
structure BtInv (M : Rat) (s : Bt) : Prop where
  hx : s.fx = f s.x
  hM : s.fx ≤ M

theorem brentIter_inv {M tol : Rat} {s s' : Bt} {ev : Ev} (hs : BtInv f M s)
    (h : brentIter rnd f tol s = .next s' ev) : BtInv f M s' := by
  obtain ⟨hx, hM⟩ := hs
  unfold brentIter at h
  dsimp only at h
  split_ifs at h <;> simp only [BtStep.next.injEq] at h
  all_goals
    obtain ⟨rfl, _⟩ := h
    refine ⟨?_, ?_⟩ <;> simp_all <;> linarith

/-- the abscissa of the event of an iteration is the point at which the objective was evaluated
    and, if the step improved, the new `x` -/
theorem brentLoop_inv {M tol : Rat} : ∀ (n : Nat) (s : Bt) (x fx m : Rat) (t : List Ev), BtInv f M s →
    brentLoop rnd f tol n s = (.ok x fx m, t) → fx = f x ∧ fx ≤ M
  | 0, s, x, fx, m, t, hs, h => by simp [brentLoop] at h
  | n + 1, s, x, fx, m, t, hs, h => by
    unfold brentLoop at h
    split at h
    · simp only [Prod.mk.injEq, Out1.ok.injEq] at h
      obtain ⟨⟨rfl, rfl, _⟩, _⟩ := h
      exact ⟨hs.hx, hs.hM⟩
    · rename_i s1 ev heq
      simp only [Prod.mk.injEq] at h
      obtain ⟨h1, _⟩ := h
      exact brentLoop_inv n s1 x fx m (brentLoop rnd f tol n s1).2 (brentIter_inv rnd f hs heq) (by rw [← h1])

/-- bookkeeping half of "all abscissae lie in the bracket": if the trial point of a pass lies in
    `[a,b]` (and `x` does), the new bracket is nested in the old one and contains the new `x` -/
theorem brentIter_nested {tol : Rat} {s s' : Bt} {ev : Ev} (h : brentIter rnd f tol s = .next s' ev)
    (hax : s.a ≤ s.x) (hxb : s.x ≤ s.b) (hau : s.a ≤ ev.1) (hub : ev.1 ≤ s.b) :
    s'.a ≤ s'.x ∧ s'.x ≤ s'.b ∧ s.a ≤ s'.a ∧ s'.b ≤ s.b := by
  unfold brentIter at h
  dsimp only at h
  split_ifs at h <;> simp only [BtStep.next.injEq] at h
  all_goals
    obtain ⟨rfl, rfl⟩ := h
    dsimp only at hau hub ⊢
    refine ⟨?_, ?_, ?_, ?_⟩ <;> first | linarith | (split_ifs <;> linarith)

/-- used by the non-vacuity examples: a run that ends with `ok` -/
def Out1.isOk : Out1 → Bool
  | .ok .. => true
  | _ => false

theorem exists_of_isOk {r : Out1 × List Ev} (h : r.1.isOk = true) : ∃ x fx m t, r = (.ok x fx m, t) := by
  obtain ⟨o, t⟩ := r
  cases o <;> simp [Out1.isOk] at h
  exact ⟨_, _, _, _, rfl⟩

end Lp.C11
