/-
  Helper lemmas for C16: the square-root parameter, normalisation, orthonormal frames.
-/
import LpModel.C16
import Mathlib.Tactic.Ring
import Mathlib.Tactic.LinearCombination
import Mathlib.Tactic.Linarith
import Mathlib.Tactic.FieldSimp
import Mathlib.Tactic.Positivity
namespace Lp.C16

/-- What the theorems assume of the square-root parameter — **at the argument actually used**:
    `sq y` is the non-negative root of `y`.  (A global hypothesis `∀ y ≥ 0, sq y * sq y = y` is
    unsatisfiable for `sq : ℚ → ℚ` — √2 is irrational — and would make every theorem vacuous; so
    each theorem names the one or two arguments at which it needs the root to be exact.  The
    conclusions are polynomial identities, hence hold for the real square root by the same proof.) -/
structure SqAt (sq : Rat → Rat) (y : Rat) : Prop where
  sq_mul : sq y * sq y = y
  sq_nonneg : 0 ≤ sq y

theorem V3.dot_self_nonneg (a : V3) : 0 ≤ a.dot a := by
  simp only [V3.dot]; nlinarith [mul_self_nonneg a.x, mul_self_nonneg a.y, mul_self_nonneg a.z]

theorem SqAt.unique {sq : Rat → Rat} {y t : Rat} (h : SqAt sq y) (ht : 0 ≤ t) (hy : t * t = y) :
    sq y = t := by
  have h1 := h.sq_mul
  have h2 := h.sq_nonneg
  have h3 : (sq y - t) * (sq y + t) = 0 := by linear_combination h1 - hy
  rcases mul_eq_zero.mp h3 with h4 | h4
  · linarith
  · have : sq y = 0 := by linarith
    have : t = 0 := by linarith
    linarith

theorem SqAt.ne_zero {sq : Rat → Rat} {y : Rat} (h : SqAt sq y) (hy0 : y ≠ 0) : sq y ≠ 0 := by
  intro h0
  have := h.sq_mul
  rw [h0] at this
  exact hy0 (by linarith)

theorem SqAt.eq_zero_iff {sq : Rat → Rat} {y : Rat} (h : SqAt sq y) : sq y = 0 ↔ y = 0 := by
  constructor
  · intro h0
    have := h.sq_mul
    rw [h0] at this
    linarith
  · intro h0
    have := h.sq_mul
    rw [h0] at this
    rw [h0]
    exact mul_self_eq_zero.mp this

/-- What the theorems assume of `Vector::Norm()` at the axis: the coded norm is the exact non-negative
    root of `a·a`.  It follows from `SqAt` at the one argument the code hands to `sqrt`
    (`norm3_scaled_noop`): the power-of-two scaling of 8a680df is value-neutral over the rationals. -/
structure NormAt (sq : Rat → Rat) (a : V3) : Prop where
  mul_self : norm3 sq a * norm3 sq a = a.dot a
  nonneg : 0 ≤ norm3 sq a

theorem rabs_nonneg (x : Rat) : 0 ≤ rabs x := by unfold rabs; split <;> linarith
theorem rabs_eq_zero {x : Rat} (h : rabs x = 0) : x = 0 := by
  unfold rabs at h; split at h <;> linarith
theorem le_rmax_left (x y : Rat) : x ≤ rmax x y := by unfold rmax; split <;> linarith
theorem le_rmax_right (x y : Rat) : y ≤ rmax x y := by unfold rmax; split <;> linarith

theorem maxAbs3_eq_zero {a : V3} (h : maxAbs3 a = 0) : a.x = 0 ∧ a.y = 0 ∧ a.z = 0 := by
  unfold maxAbs3 at h
  have hz := le_rmax_right (rmax (rmax 0 (rabs a.x)) (rabs a.y)) (rabs a.z)
  have h1 := le_rmax_left (rmax (rmax 0 (rabs a.x)) (rabs a.y)) (rabs a.z)
  have hy := le_rmax_right (rmax 0 (rabs a.x)) (rabs a.y)
  have h2 := le_rmax_left (rmax 0 (rabs a.x)) (rabs a.y)
  have hx := le_rmax_right 0 (rabs a.x)
  refine ⟨rabs_eq_zero ?_, rabs_eq_zero ?_, rabs_eq_zero ?_⟩
  · have := rabs_nonneg a.x; linarith
  · have := rabs_nonneg a.y; linarith
  · have := rabs_nonneg a.z; linarith

/-- **8a680df is value-neutral over the rationals**: with the root exact at the scaled sum of squares
    (the only argument the code passes to `sqrt`), the coded `Vector::Norm()` is the non-negative root
    of `a·a`, whatever power of two the components were scaled by. -/
theorem norm3_scaled_noop {sq : Rat → Rat} (a : V3)
    (h : SqAt sq ((a.divs (pow2 (frexpExp (maxAbs3 a)))).dot (a.divs (pow2 (frexpExp (maxAbs3 a)))))) :
    NormAt sq a := by
  have hp : pow2 (frexpExp (maxAbs3 a)) ≠ 0 := by unfold pow2; exact zpow_ne_zero _ (by norm_num)
  have hp0 : 0 ≤ pow2 (frexpExp (maxAbs3 a)) := by unfold pow2; exact zpow_nonneg (by norm_num) _
  by_cases h0 : maxAbs3 a = 0
  · obtain ⟨hx, hy, hz⟩ := maxAbs3_eq_zero h0
    constructor <;> simp [norm3, h0, V3.dot, hx, hy, hz]
  · constructor
    · simp only [norm3, if_neg h0]
      have := h.sq_mul
      generalize pow2 (frexpExp (maxAbs3 a)) = p at *
      generalize hS : sq ((a.divs p).dot (a.divs p)) = S at *
      have hd : (a.divs p).dot (a.divs p) * (p * p) = a.dot a := by
        simp only [V3.divs, V3.dot]; field_simp
      rw [← hd, ← this]; ring
    · simp only [norm3, if_neg h0]
      exact mul_nonneg hp0 h.sq_nonneg

/-- two non-negative numbers with the same square are equal -/
theorem eq_of_mul_self_eq {x t : Rat} (hx : 0 ≤ x) (ht : 0 ≤ t) (h : x * x = t * t) : x = t := by
  have h3 : (x - t) * (x + t) = 0 := by linear_combination h
  rcases mul_eq_zero.mp h3 with h4 | h4
  · linarith
  · have : x = 0 := by linarith
    have : t = 0 := by linarith
    linarith

theorem NormAt.unique {sq : Rat → Rat} {a : V3} (h : NormAt sq a) {t : Rat} (ht : 0 ≤ t) (hy : t * t = a.dot a) :
    norm3 sq a = t :=
  eq_of_mul_self_eq h.nonneg ht (by rw [h.mul_self, hy])

/-- the norm of a non-zero vector is non-zero and squares to the dot product -/
theorem norm3_mul_self {sq : Rat → Rat} (a : V3) (h : NormAt sq a) : norm3 sq a * norm3 sq a = a.dot a :=
  h.mul_self

theorem norm3_ne_zero {sq : Rat → Rat} (a : V3) (h : NormAt sq a) (ha : a.dot a ≠ 0) : norm3 sq a ≠ 0 := by
  intro h0
  have := h.mul_self
  rw [h0] at this
  exact ha (by linarith)

theorem norm3_pos {sq : Rat → Rat} (a : V3) (h : NormAt sq a) (ha : a.dot a ≠ 0) : 0 < norm3 sq a :=
  lt_of_le_of_ne h.nonneg (Ne.symm (norm3_ne_zero a h ha))

/-- `Normalized()` of a non-zero vector is a unit vector -/
theorem normalize3_unit {sq : Rat → Rat} (a : V3) (h : NormAt sq a) (ha : a.dot a ≠ 0) :
    (normalize3 sq a).dot (normalize3 sq a) = 1 := by
  have hN := norm3_mul_self a h
  have hN0 := norm3_ne_zero a h ha
  simp only [normalize3, V3.divs, V3.dot] at *
  field_simp
  linear_combination -hN

/-- … and the vector is its norm times it -/
theorem smul_normalize3 {sq : Rat → Rat} (a : V3) (h : NormAt sq a) (ha : a.dot a ≠ 0) :
    V3.smul (norm3 sq a) (normalize3 sq a) = a := by
  have hN0 := norm3_ne_zero a h ha
  ext <;> simp only [normalize3, V3.divs, V3.smul] <;> field_simp

/-- a right-handed orthonormal frame `(e1, e2, e)` -/
structure IsRightFrame (e1 e2 e : V3) : Prop where
  n1 : e1.dot e1 = 1
  n2 : e2.dot e2 = 1
  n3 : e.dot e = 1
  o12 : e1.dot e2 = 0
  o13 : e1.dot e = 0
  o23 : e2.dot e = 0
  rh : e1.cross e2 = e

/-- the point at polar angle (ct,st) from `e` and azimuth (cp,sp) in the frame, at distance r -/
def framePoint (r ct st cp sp : Rat) (e1 e2 e : V3) : V3 :=
  V3.smul r (V3.add (V3.add (V3.smul ct e) (V3.smul (st * cp) e1)) (V3.smul (st * sp) e2))

theorem mulVec_smul (m : M3) (k : Rat) (v : V3) : m.mulVec (V3.smul k v) = V3.smul k (m.mulVec v) := by
  ext <;> simp only [M3.mulVec, V3.smul, V3.dot] <;> ring

end Lp.C16
