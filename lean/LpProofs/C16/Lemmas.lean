/-
  Helper lemmas for C16: the square-root parameter, normalisation, orthonormal frames.
-/
import LpModel.C16
import Mathlib.Tactic.Ring
import Mathlib.Tactic.LinearCombination
import Mathlib.Tactic.Linarith
import Mathlib.Tactic.FieldSimp
import Mathlib.Tactic.Positivity
namespace Lp.C16

/-- What the theorems assume of the square-root parameter — **at the argument actually used**:
    `sq y` is the non-negative root of `y`.  (A global hypothesis `∀ y ≥ 0, sq y * sq y = y` is
    unsatisfiable for `sq : ℚ → ℚ` — √2 is irrational — and would make every theorem vacuous; so
    each theorem names the one or two arguments at which it needs the root to be exact.  The
    conclusions are polynomial identities, hence hold for the real square root by the same proof.) -/
structure SqAt (sq : Rat → Rat) (y : Rat) : Prop where
  sq_mul : sq y * sq y = y
  sq_nonneg : 0 ≤ sq y

theorem V3.dot_self_nonneg (a : V3) : 0 ≤ a.dot a := by
  simp only [V3.dot]; nlinarith [mul_self_nonneg a.x, mul_self_nonneg a.y, mul_self_nonneg a.z]

theorem SqAt.unique {sq : Rat → Rat} {y t : Rat} (h : SqAt sq y) (ht : 0 ≤ t) (hy : t * t = y) :
    sq y = t := by
  have h1 := h.sq_mul
  have h2 := h.sq_nonneg
  have h3 : (sq y - t) * (sq y + t) = 0 := by linear_combination h1 - hy
  rcases mul_eq_zero.mp h3 with h4 | h4
  · linarith
  · have : sq y = 0 := by linarith
    have : t = 0 := by linarith
    linarith

theorem SqAt.ne_zero {sq : Rat → Rat} {y : Rat} (h : SqAt sq y) (hy0 : y ≠ 0) : sq y ≠ 0 := by
  intro h0
  have := h.sq_mul
  rw [h0] at this
  exact hy0 (by linarith)

theorem SqAt.eq_zero_iff {sq : Rat → Rat} {y : Rat} (h : SqAt sq y) : sq y = 0 ↔ y = 0 := by
  constructor
  · intro h0
    have := h.sq_mul
    rw [h0] at this
    linarith
  · intro h0
    have := h.sq_mul
    rw [h0] at this
    rw [h0]
    exact mul_self_eq_zero.mp this

/-- the norm of a non-zero vector is non-zero and squares to the dot product -/
theorem norm3_mul_self {sq : Rat → Rat} (a : V3) (h : SqAt sq (a.dot a)) : norm3 sq a * norm3 sq a = a.dot a :=
  h.sq_mul

theorem norm3_ne_zero {sq : Rat → Rat} (a : V3) (h : SqAt sq (a.dot a)) (ha : a.dot a ≠ 0) : norm3 sq a ≠ 0 :=
  h.ne_zero ha

theorem norm3_pos {sq : Rat → Rat} (a : V3) (h : SqAt sq (a.dot a)) (ha : a.dot a ≠ 0) : 0 < norm3 sq a :=
  lt_of_le_of_ne h.sq_nonneg (Ne.symm (norm3_ne_zero a h ha))

/-- `Normalized()` of a non-zero vector is a unit vector -/
theorem normalize3_unit {sq : Rat → Rat} (a : V3) (h : SqAt sq (a.dot a)) (ha : a.dot a ≠ 0) :
    (normalize3 sq a).dot (normalize3 sq a) = 1 := by
  have hN := norm3_mul_self a h
  have hN0 := norm3_ne_zero a h ha
  simp only [normalize3, V3.divs, V3.dot] at *
  field_simp
  linear_combination -hN

/-- … and the vector is its norm times it -/
theorem smul_normalize3 {sq : Rat → Rat} (a : V3) (h : SqAt sq (a.dot a)) (ha : a.dot a ≠ 0) :
    V3.smul (norm3 sq a) (normalize3 sq a) = a := by
  have hN0 := norm3_ne_zero a h ha
  ext <;> simp only [normalize3, V3.divs, V3.smul] <;> field_simp

/-- a right-handed orthonormal frame `(e1, e2, e)` -/
structure IsRightFrame (e1 e2 e : V3) : Prop where
  n1 : e1.dot e1 = 1
  n2 : e2.dot e2 = 1
  n3 : e.dot e = 1
  o12 : e1.dot e2 = 0
  o13 : e1.dot e = 0
  o23 : e2.dot e = 0
  rh : e1.cross e2 = e

/-- the point at polar angle (ct,st) from `e` and azimuth (cp,sp) in the frame, at distance r -/
def framePoint (r ct st cp sp : Rat) (e1 e2 e : V3) : V3 :=
  V3.smul r (V3.add (V3.add (V3.smul ct e) (V3.smul (st * cp) e1)) (V3.smul (st * sp) e2))

theorem mulVec_smul (m : M3) (k : Rat) (v : V3) : m.mulVec (V3.smul k v) = V3.smul k (m.mulVec v) := by
  ext <;> simp only [M3.mulVec, V3.smul, V3.dot] <;> ring

end Lp.C16
