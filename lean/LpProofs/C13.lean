import LpModel.C13
namespace Lp.C13

theorem integrate3Dsph_def (I : Integ) (MC : MCInteg) (sph : Rat → Rat → Rat → Vec3) (acos : Rat → Rat)
    (name : String) (p : Int) (f : Vec3 → Rat) (r1 r2 c1 c2 phi1 phi2 : Rat) :
    integrate3Dsph I MC sph acos name p f r1 r2 c1 c2 phi1 phi2
      = integrate3D I MC name p (fun r c phi => r * r * f (sph r (acos c) phi)) r1 r2 c1 c2 phi1 phi2 := rfl

end Lp.C13
