/-
  C13 — property theorems for the dispatch / nesting model (LpModel/C13.lean).
  `I` is an ARBITRARY family of 1-D rules (Boost rules, the library's own rules): the theorems use
  only that it is a function, plus the named hypotheses (homogeneity, exactness on constants).
-/
import LpModel.C13
import Mathlib.Tactic.Ring
import Mathlib.Tactic.Linarith
import Mathlib.Tactic.NormNum
import Mathlib.Algebra.Order.AbsoluteValue.Basic
namespace Lp.C13

/-! ## [T1] int1D_eq, int1D_swap -/

/-- equal limits give zero for every recognised method name -/
theorem int1D_eq (I : Integ) (name : String) (m : Method) (hm : parseMethod name = some m) (p : Int)
    (f : Rat → Rat) (a : Rat) :
    integrate1D I name p f a a = .ok 0 := by
  simp [integrate1D, hm, int1]

theorem int1_eq (I : Integ) (m : Method) (p : Int) (f : Rat → Rat) (a : Rat) : int1 I m p f a a = 0 := by
  simp [int1]

/-- ordered limits: the rule is called as is -/
theorem int1_ordered (I : Integ) (m : Method) (p : Int) (f : Rat → Rat) (a b : Rat) (h : a < b) :
    int1 I m p f a b = I m (effParam m p) f a b := by
  have h1 : a ≠ b := ne_of_lt h
  have h2 : ¬ (a > b) := not_lt.mpr (le_of_lt h)
  simp [int1, checkLimits, h1, h2]

/-- reversing the limits negates the result, for every method and every rule `I` -/
theorem int1_swap (I : Integ) (m : Method) (p : Int) (f : Rat → Rat) (a b : Rat) :
    int1 I m p f b a = - int1 I m p f a b := by
  rcases lt_trichotomy a b with h | h | h
  · have h1 : a ≠ b := ne_of_lt h
    have h2 : ¬ (a > b) := not_lt.mpr (le_of_lt h)
    have h3 : b ≠ a := fun e => h1 e.symm
    simp [int1, checkLimits, h1, h2, h3, h]
  · subst h; simp [int1]
  · have h1 : a ≠ b := ne_of_gt h
    have h2 : ¬ (b > a) := not_lt.mpr (le_of_lt h)
    have h3 : b ≠ a := fun e => h1 e.symm
    simp [int1, checkLimits, h1, h2, h3, h]

theorem integrate1D_known (I : Integ) (name : String) (m : Method) (hm : parseMethod name = some m) (p : Int)
    (f : Rat → Rat) (a b : Rat) : integrate1D I name p f a b = .ok (int1 I m p f a b) := by
  simp [integrate1D, hm]

/-- **int1D_swap**: `Integrate(f,b,a,method,p) = -Integrate(f,a,b,method,p)` for every recognised method -/
theorem int1D_swap (I : Integ) (name : String) (m : Method) (hm : parseMethod name = some m) (p : Int)
    (f : Rat → Rat) (a b : Rat) :
    integrate1D I name p f b a = .ok (- int1 I m p f a b) ∧ integrate1D I name p f a b = .ok (int1 I m p f a b) := by
  rw [integrate1D_known I name m hm, integrate1D_known I name m hm, int1_swap]
  exact ⟨rfl, rfl⟩

example : parseMethod "Tanh-Sinh" = some .tanhSinh := by decide

/-! ## [T1] unknown_method → diagnostic at every level -/

/-- an unknown method name is a diagnostic on every interval, also a degenerate one (fix d39b5c1) -/
theorem unknown_method_1D (I : Integ) (name : String) (h : parseMethod name = none) (p : Int) (f : Rat → Rat)
    (a b : Rat) : integrate1D I name p f a b = .error .diag := by
  simp [integrate1D, h]

theorem unknown_method_2D (I : Integ) (MC : MCInteg) (name : String) (h : parseMethod name = none)
    (h' : parseMC name = none) (p : Int) (f : Rat → Rat → Rat) (x1 x2 y1 y2 : Rat) :
    integrate2D I MC name p f x1 x2 y1 y2 = .error .diag := by
  simp [integrate2D, h, h']

theorem unknown_method_3D (I : Integ) (MC : MCInteg) (name : String) (h : parseMethod name = none)
    (h' : parseMC name = none) (p : Int) (f : Rat → Rat → Rat → Rat) (x1 x2 y1 y2 z1 z2 : Rat) :
    integrate3D I MC name p f x1 x2 y1 y2 z1 z2 = .error .diag := by
  simp [integrate3D, h, h']

theorem unknown_method_sph (I : Integ) (MC : MCInteg) (sph : Rat → Rat → Rat → Vec3) (acos : Rat → Rat)
    (name : String) (h : parseMethod name = none) (h' : parseMC name = none) (p : Int) (f : Vec3 → Rat)
    (r1 r2 c1 c2 f1 f2 : Rat) :
    integrate3Dsph I MC sph acos name p f r1 r2 c1 c2 f1 f2 = .error .diag := by
  simp [integrate3Dsph, integrate3D, h, h']

theorem unknown_method_MC (MC : MCInteg) (name : String) (h' : parseMC name = none) (g : List Rat → Rat)
    (region : List Rat) (n : Int) : integrateMC MC name g region n = .error .diag := by
  simp [integrateMC, h']

example : parseMethod "gauss-legendre" = none ∧ parseMC "gauss-legendre" = none := by decide

/-! ## [T1] nested_order -/

/-- **nested_order (2-D)**: the outer rule runs over the first pair of limits with variable `x`, the
    inner one over the second pair with variable `y`, and `f` receives `(x, y)` in this order. -/
theorem nested_order_2D (I : Integ) (MC : MCInteg) (name : String) (m : Method) (hm : parseMethod name = some m)
    (p : Int) (f : Rat → Rat → Rat) (x1 x2 y1 y2 : Rat) :
    integrate2D I MC name p f x1 x2 y1 y2
      = .ok (int1 I m p (fun x => int1 I m p (fun y => f x y) y1 y2) x1 x2) := by
  simp [integrate2D, hm]

/-- with ordered limits this is literally `I (λx. I (λy. f x y) y1 y2) x1 x2` -/
theorem nested_order_2D_ordered (I : Integ) (MC : MCInteg) (name : String) (m : Method)
    (hm : parseMethod name = some m) (p : Int) (f : Rat → Rat → Rat) (x1 x2 y1 y2 : Rat) (hx : x1 < x2) (hy : y1 < y2) :
    integrate2D I MC name p f x1 x2 y1 y2
      = .ok (I m (effParam m p) (fun x => I m (effParam m p) (fun y => f x y) y1 y2) x1 x2) := by
  rw [nested_order_2D I MC name m hm, int1_ordered I m p _ x1 x2 hx]
  congr 2
  funext x
  exact int1_ordered I m p _ y1 y2 hy

theorem nested_order_3D (I : Integ) (MC : MCInteg) (name : String) (m : Method) (hm : parseMethod name = some m)
    (p : Int) (f : Rat → Rat → Rat → Rat) (x1 x2 y1 y2 z1 z2 : Rat) :
    integrate3D I MC name p f x1 x2 y1 y2 z1 z2
      = .ok (int1 I m p (fun x => int1 I m p (fun y => int1 I m p (fun z => f x y z) z1 z2) y1 y2) x1 x2) := by
  simp [integrate3D, hm]

/-- reversing the limits of any one axis negates the nested result -/
theorem nested_swap_inner (I : Integ) (MC : MCInteg) (name : String) (m : Method) (hm : parseMethod name = some m)
    (p : Int) (f : Rat → Rat → Rat) (x1 x2 y1 y2 : Rat)
    (hI : ∀ q g a b, I m q (fun x => - g x) a b = - I m q g a b) :
    integrate2D I MC name p f x1 x2 y2 y1
      = .ok (- int1 I m p (fun x => int1 I m p (fun y => f x y) y1 y2) x1 x2) := by
  rw [nested_order_2D I MC name m hm]
  congr 1
  have e : (fun x => int1 I m p (fun y => f x y) y2 y1) = fun x => - int1 I m p (fun y => f x y) y1 y2 := by
    funext x; exact int1_swap I m p _ y1 y2
  rw [e]
  unfold int1 checkLimits
  by_cases h : x1 = x2
  · simp [h]
  · by_cases h2 : x1 > x2 <;> simp [h, h2, hI]

/-! ## [T1] nested_separable -/

/-- homogeneity of the rule: `I (c·g) = c·I g` (true of every rule with fixed nodes and of
    relative-tolerance adaptive rules) -/
def Homogeneous (I : Integ) : Prop := ∀ m q (c : Rat) (g : Rat → Rat) a b, I m q (fun x => c * g x) a b = c * I m q g a b

theorem int1_homogeneous (I : Integ) (hI : Homogeneous I) (m : Method) (p : Int) (c : Rat) (g : Rat → Rat) (a b : Rat) :
    int1 I m p (fun x => c * g x) a b = c * int1 I m p g a b := by
  unfold int1 checkLimits
  by_cases h : a = b
  · simp [h]
  · by_cases h2 : a > b <;> simp [h, h2, hI m] <;> ring

/-- **nested_separable (2-D)**: for `f x y = g x * h y` the result is the product of the 1-D integrals -/
theorem nested_separable_2D (I : Integ) (hI : Homogeneous I) (MC : MCInteg) (name : String) (m : Method)
    (hm : parseMethod name = some m) (p : Int) (g h : Rat → Rat) (x1 x2 y1 y2 : Rat) :
    integrate2D I MC name p (fun x y => g x * h y) x1 x2 y1 y2
      = .ok (int1 I m p g x1 x2 * int1 I m p h y1 y2) := by
  rw [nested_order_2D I MC name m hm]
  congr 1
  have e : (fun x => int1 I m p (fun y => g x * h y) y1 y2) = fun x => int1 I m p h y1 y2 * g x := by
    funext x; rw [int1_homogeneous I hI]; ring
  rw [e, int1_homogeneous I hI]; ring

theorem nested_separable_3D (I : Integ) (hI : Homogeneous I) (MC : MCInteg) (name : String) (m : Method)
    (hm : parseMethod name = some m) (p : Int) (g h k : Rat → Rat) (x1 x2 y1 y2 z1 z2 : Rat) :
    integrate3D I MC name p (fun x y z => g x * h y * k z) x1 x2 y1 y2 z1 z2
      = .ok (int1 I m p g x1 x2 * int1 I m p h y1 y2 * int1 I m p k z1 z2) := by
  rw [nested_order_3D I MC name m hm]
  congr 1
  have e1 : ∀ x y, int1 I m p (fun z => g x * h y * k z) z1 z2 = (g x * h y) * int1 I m p k z1 z2 := by
    intro x y; rw [int1_homogeneous I hI]
  have e2 : ∀ x, int1 I m p (fun y => int1 I m p (fun z => g x * h y * k z) z1 z2) y1 y2
      = g x * (int1 I m p k z1 z2 * int1 I m p h y1 y2) := by
    intro x
    have : (fun y => int1 I m p (fun z => g x * h y * k z) z1 z2) = fun y => (g x * int1 I m p k z1 z2) * h y := by
      funext y; rw [e1]; ring
    rw [this, int1_homogeneous I hI]; ring
  have e3 : (fun x => int1 I m p (fun y => int1 I m p (fun z => g x * h y * k z) z1 z2) y1 y2)
      = fun x => (int1 I m p k z1 z2 * int1 I m p h y1 y2) * g x := by
    funext x; rw [e2]; ring
  rw [e3, int1_homogeneous I hI]; ring

/-- a homogeneous rule exists: a fixed-node rule -/
example : Homogeneous (fun _ _ f a b => (b - a) * f ((a + b) / 2)) := by
  intro m q c g a b; ring

/-! ## [T1] mc_region_layout -/

/-- **mc_region_layout**: the Monte-Carlo front ends hand over `region = {lower…, upper…}`
    (`region[i]`, `region[i+d]` the lower/upper limit of axis `i`), `ncalls` defaulting to 30000, and an
    integrand that passes `args[i]` to the `i`-th argument of `f`. -/
theorem mc_region_layout_2D (I : Integ) (MC : MCInteg) (name : String) (mc : MCMethod)
    (h : parseMethod name = none) (h' : parseMC name = some mc) (p : Int) (f : Rat → Rat → Rat) (x1 x2 y1 y2 : Rat) :
    ∃ (g : List Rat → Rat) (region : List Rat),
      integrate2D I MC name p f x1 x2 y1 y2 = .ok (MC mc g region (if p = 0 then 30000 else p)) ∧
      region.length = 2 * 2 ∧
      region.getD 0 0 = x1 ∧ region.getD (0 + 2) 0 = x2 ∧ region.getD 1 0 = y1 ∧ region.getD (1 + 2) 0 = y2 ∧
      ∀ x y, g [x, y] = f x y := by
  refine ⟨fun args => f (args.getD 0 0) (args.getD 1 0), [x1, y1, x2, y2], ?_, rfl, rfl, rfl, rfl, rfl, ?_⟩
  · simp [integrate2D, h, h', ncallsOf]
  · intro x y; rfl

theorem mc_region_layout_3D (I : Integ) (MC : MCInteg) (name : String) (mc : MCMethod)
    (h : parseMethod name = none) (h' : parseMC name = some mc) (p : Int) (f : Rat → Rat → Rat → Rat)
    (x1 x2 y1 y2 z1 z2 : Rat) :
    ∃ (g : List Rat → Rat) (region : List Rat),
      integrate3D I MC name p f x1 x2 y1 y2 z1 z2 = .ok (MC mc g region (if p = 0 then 30000 else p)) ∧
      region.length = 2 * 3 ∧
      region.getD 0 0 = x1 ∧ region.getD (0 + 3) 0 = x2 ∧ region.getD 1 0 = y1 ∧ region.getD (1 + 3) 0 = y2 ∧
      region.getD 2 0 = z1 ∧ region.getD (2 + 3) 0 = z2 ∧
      ∀ x y z, g [x, y, z] = f x y z := by
  refine ⟨fun args => f (args.getD 0 0) (args.getD 1 0) (args.getD 2 0), [x1, y1, z1, x2, y2, z2], ?_,
    rfl, rfl, rfl, rfl, rfl, rfl, rfl, ?_⟩
  · simp [integrate3D, h, h', ncallsOf]
  · intro x y z; rfl

example : parseMethod "Vegas" = none ∧ parseMC "Vegas" = some .vegas := by decide

/-! ## [T1] spherical_wrapper -/

/-- **spherical_wrapper**: the spherical overload is the Cartesian one on `(r, cosθ, φ) ↦ r²·f(v)` with
    `v = Spherical_Coordinates(r, acos(cosθ), φ)`, the three pairs of limits in this order. -/
theorem spherical_wrapper (I : Integ) (MC : MCInteg) (sph : Rat → Rat → Rat → Vec3) (acos : Rat → Rat)
    (name : String) (p : Int) (f : Vec3 → Rat) (r1 r2 c1 c2 phi1 phi2 : Rat) :
    integrate3Dsph I MC sph acos name p f r1 r2 c1 c2 phi1 phi2
      = integrate3D I MC name p (fun r c phi => r * r * f (sph r (acos c) phi)) r1 r2 c1 c2 phi1 phi2 := rfl

/-- exactness on constants: `I (λ_. c) a b = c (b - a)` -/
def ExactOnConstants (I : Integ) : Prop := ∀ m q (c a b : Rat), I m q (fun _ => c) a b = c * (b - a)

theorem int1_const (I : Integ) (hC : ExactOnConstants I) (m : Method) (p : Int) (c a b : Rat) :
    int1 I m p (fun _ => c) a b = c * (b - a) := by
  unfold int1 checkLimits
  by_cases h : a = b
  · simp [h]
  · by_cases h2 : a > b <;> simp [h, h2, hC m] <;> ring

/-- **spherical_radial**: for a radial `f(v) = g(‖v‖)` (`nrm (sph r θ φ) = r`, proved for
    `Spherical_Coordinates` in C16) and a rule that is homogeneous and exact on constants, the result
    is `(φ2-φ1)(c2-c1)·∫ r² g(r) dr` — `4π ∫ r² g` on the full sphere `c ∈ [-1,1], φ ∈ [0,2π]`. -/
theorem spherical_radial (I : Integ) (hI : Homogeneous I) (hC : ExactOnConstants I) (MC : MCInteg)
    (sph : Rat → Rat → Rat → Vec3) (acos : Rat → Rat) (nrm : Vec3 → Rat) (hn : ∀ r th ph, nrm (sph r th ph) = r)
    (name : String) (m : Method) (hm : parseMethod name = some m) (p : Int) (g : Rat → Rat)
    (r1 r2 c1 c2 phi1 phi2 : Rat) :
    integrate3Dsph I MC sph acos name p (fun v => g (nrm v)) r1 r2 c1 c2 phi1 phi2
      = .ok ((phi2 - phi1) * (c2 - c1) * int1 I m p (fun r => r * r * g r) r1 r2) := by
  rw [spherical_wrapper, nested_order_3D I MC name m hm]
  congr 1
  have e : (fun r => int1 I m p (fun c => int1 I m p (fun phi => r * r * g (nrm (sph r (acos c) phi))) phi1 phi2) c1 c2)
      = fun r => ((phi2 - phi1) * (c2 - c1)) * (r * r * g r) := by
    funext r
    simp only [hn]
    rw [int1_const I hC, int1_const I hC]; ring
  rw [e, int1_homogeneous I hI]

/-- the midpoint rule is homogeneous and exact on constants: the hypotheses are satisfiable -/
example : ExactOnConstants (fun _ _ f a b => (b - a) * f ((a + b) / 2)) := by
  intro m q c a b; ring

/-! ## history independence (class D justification) -/

/-- **int_history_independent**: in any sequence of calls the answer at a position is the answer of that
    call made alone — whatever methods, parameters and limits were used before or after. -/
theorem int_history_independent (I : Integ) (MC : MCInteg) (pre post : List Call) (c : Call) :
    (runSeq I MC (pre ++ c :: post))[pre.length]? = some (runCall I MC c) ∧
    runSeq I MC [c] = [runCall I MC c] := by
  simp [runSeq]

/-! ## reversing the limits of one axis negates the nested result exactly -/

/-- oddness of the rule in the integrand: `I (-g) = -I g` (every rule that is a weighted sum of values, and every
    adaptive rule whose decisions depend on magnitudes only) -/
def OddRule (I : Integ) : Prop := ∀ m q (g : Rat → Rat) a b, I m q (fun x => - g x) a b = - I m q g a b

theorem int1_neg (I : Integ) (hI : OddRule I) (m : Method) (p : Int) (g : Rat → Rat) (a b : Rat) :
    int1 I m p (fun x => - g x) a b = - int1 I m p g a b := by
  unfold int1 checkLimits
  by_cases h : a = b
  · simp [h]
  · by_cases h2 : a > b <;> simp [h, h2, hI m]

/-- **nested_swap_axes_3D**: in `Integrate_3D`, exchanging the two limits of any ONE axis negates the result exactly
    (so any subset of reversed axes multiplies it by the product of the signs). -/
theorem nested_swap_axes_3D (I : Integ) (hI : OddRule I) (MC : MCInteg) (name : String) (m : Method)
    (hm : parseMethod name = some m) (p : Int) (f : Rat → Rat → Rat → Rat) (x1 x2 y1 y2 z1 z2 : Rat) :
    let base := int1 I m p (fun x => int1 I m p (fun y => int1 I m p (fun z => f x y z) z1 z2) y1 y2) x1 x2
    integrate3D I MC name p f x2 x1 y1 y2 z1 z2 = .ok (- base) ∧
    integrate3D I MC name p f x1 x2 y2 y1 z1 z2 = .ok (- base) ∧
    integrate3D I MC name p f x1 x2 y1 y2 z2 z1 = .ok (- base) := by
  intro base
  refine ⟨?_, ?_, ?_⟩
  · rw [nested_order_3D I MC name m hm]; congr 1; exact int1_swap I m p _ x1 x2
  · rw [nested_order_3D I MC name m hm]; congr 1
    have e : (fun x => int1 I m p (fun y => int1 I m p (fun z => f x y z) z1 z2) y2 y1)
        = fun x => - int1 I m p (fun y => int1 I m p (fun z => f x y z) z1 z2) y1 y2 := by
      funext x; exact int1_swap I m p _ y1 y2
    rw [e, int1_neg I hI]
  · rw [nested_order_3D I MC name m hm]; congr 1
    have e : (fun x => int1 I m p (fun y => int1 I m p (fun z => f x y z) z2 z1) y1 y2)
        = fun x => - int1 I m p (fun y => int1 I m p (fun z => f x y z) z1 z2) y1 y2 := by
      funext x
      have e2 : (fun y => int1 I m p (fun z => f x y z) z2 z1) = fun y => - int1 I m p (fun z => f x y z) z1 z2 := by
        funext y; exact int1_swap I m p _ z1 z2
      rw [e2, int1_neg I hI]
    rw [e, int1_neg I hI]

/-- the midpoint rule is odd: the hypothesis is satisfiable -/
example : OddRule (fun _ _ f a b => (b - a) * f ((a + b) / 2)) := by
  intro m q g a b; ring

/-! ## re-entrant use: a named method inside the integrand of a named method -/

/-- **nested_methods_eq**: the nested call is the outer rule (method `m1`, parameter `p1`) applied to the function whose
    value at `x` is the inner rule (method `m2`, parameter `p2`) on `[lo x, hi x]` — each level with its OWN method,
    parameter and limits, whatever the other level uses. -/
theorem nested_methods_eq (I : Integ) (name1 name2 : String) (m1 m2 : Method) (h1 : parseMethod name1 = some m1)
    (h2 : parseMethod name2 = some m2) (p1 p2 : Int) (g : Rat → Rat → Rat) (lo hi : Rat → Rat) (a b : Rat) :
    nestedCall I name1 p1 name2 p2 g lo hi a b
      = .ok (int1 I m1 p1 (fun x => int1 I m2 p2 (g x) (lo x) (hi x)) a b) := by
  unfold nestedCall
  rw [h2]
  simp only []
  rw [integrate1D_known I name1 m1 h1]
  congr 2
  funext x
  rw [integrate1D_known I name2 m2 h2]
  rfl

/-- with ordered limits at both levels this is literally `I m1 q1 (λx. I m2 q2 (g x) (lo x) (hi x)) a b` with the
    effective parameters `q = effParam m p` of each level -/
theorem nested_methods_ordered (I : Integ) (name1 name2 : String) (m1 m2 : Method) (h1 : parseMethod name1 = some m1)
    (h2 : parseMethod name2 = some m2) (p1 p2 : Int) (g : Rat → Rat → Rat) (lo hi : Rat → Rat) (a b : Rat)
    (hab : a < b) (hlh : ∀ x, lo x < hi x) :
    nestedCall I name1 p1 name2 p2 g lo hi a b
      = .ok (I m1 (effParam m1 p1) (fun x => I m2 (effParam m2 p2) (g x) (lo x) (hi x)) a b) := by
  rw [nested_methods_eq I name1 name2 m1 m2 h1 h2, int1_ordered I m1 p1 _ a b hab]
  congr 2
  funext x
  exact int1_ordered I m2 p2 _ _ _ (hlh x)

/-- the integrand handed to the spherical rule at ANY evaluation point is `r² f(Spherical_Coordinates(r, acos c, φ))`
    of that very point — also at the first one, and whatever was evaluated before -/
theorem sphericalIntegrand_pointwise (sph : Rat → Rat → Rat → Vec3) (acos : Rat → Rat) (f : Vec3 → Rat) (r c phi : Rat) :
    sphericalIntegrand sph acos f r c phi = r * r * f (sph r (acos c) phi) := rfl

/-! ## the explicit method parameter is honoured as given (no silent cap) -/

/-- **gk_depth_honoured**: an explicit `method_parameter` `p ≠ 0` reaches the Gauss–Kronrod rule unchanged as its
    `max_depth`, however large (in particular beyond 10), and `evaluation_points` of Gauss-Legendre_2 likewise; with
    ordered limits the dispatch is literally the rule at that depth. -/
theorem gk_depth_honoured (I : Integ) (p : Int) (hp : p ≠ 0) (f : Rat → Rat) (a b : Rat) (hab : a < b) :
    effParam .gaussKronrod p = p ∧ effParam .gaussLegendre2 p = p ∧
    integrate1D I "Gauss-Kronrod" p f a b = .ok (I .gaussKronrod p f a b) := by
  have e : effParam .gaussKronrod p = p := by simp [effParam, hp]
  refine ⟨e, by simp [effParam, hp], ?_⟩
  rw [integrate1D_known I "Gauss-Kronrod" .gaussKronrod (by decide) p f a b, int1_ordered I .gaussKronrod p f a b hab, e]

/-- accuracy at the requested depth: if the rule is within `tol` of `J` at every depth `≥ D` (it converges when the
    depth is increased), the named method with an explicit depth `p ≥ D` is within `tol` — conditional on the
    external rule, like `nested_accuracy_2D`. -/
theorem gk_accuracy_at_requested_depth (I : Integ) (J tol : Rat) (D : Int) (hD : 0 < D) (f : Rat → Rat) (a b : Rat)
    (hab : a < b) (hconv : ∀ d : Int, D ≤ d → |I .gaussKronrod d f a b - J| ≤ tol) (p : Int) (hp : D ≤ p) :
    ∃ v, integrate1D I "Gauss-Kronrod" p f a b = .ok v ∧ |v - J| ≤ tol := by
  have hp0 : p ≠ 0 := by omega
  exact ⟨_, (gk_depth_honoured I p hp0 f a b hab).2.2, hconv p hp⟩

example : effParam .gaussKronrod 20 = 20 := by decide

/-! ## helpers of §1.1 -/

theorem checkLimits_spec (a b : Rat) :
    (a > b → checkLimits a b 1 = (b, a, -1)) ∧ (¬ a > b → checkLimits a b 1 = (a, b, 1)) := by
  unfold checkLimits
  constructor <;> intro h <;> simp [h]

/-- `Find_Epsilon` is `precision` times Simpson's three-point estimate -/
theorem findEpsilon_spec (f : Rat → Rat) (a b pr : Rat) :
    findEpsilon f a b pr = pr * ((b - a) / 6 * (f a + 4 * f ((a + b) / 2) + f b)) := rfl

/-- the "Adaptive-Simpson" branch asks for `1e-10 ·` (Simpson's three-point estimate) (fix ad02385), so
    that four times the request — the bound C03 proves — is `4e-10` of the coarse estimate -/
theorem adaptiveSimpson_request (S : (Rat → Rat) → Rat → Rat → Rat → Rat) (f : Rat → Rat) (a b : Rat) :
    adaptiveSimpsonBranch S f a b
      = S f a b (1 / (10 : Rat) ^ 10 * ((b - a) / 6 * (f a + 4 * f ((a + b) / 2) + f b))) ∧
    4 * simpsonPrecision < 1 / (10 : Rat) ^ 9 := by
  refine ⟨rfl, ?_⟩
  unfold simpsonPrecision; norm_num

/-- method-parameter defaults: 5 (`max_depth`) and 30 (`evaluation_points`) -/
theorem effParam_defaults : effParam .gaussKronrod 0 = 5 ∧ effParam .gaussLegendre2 0 = 30 ∧
    (∀ p, p ≠ 0 → effParam .gaussKronrod p = p ∧ effParam .gaussLegendre2 p = p) := by
  refine ⟨rfl, rfl, ?_⟩
  intro p hp; simp [effParam, hp]

/-! ## [T1, conditional] nested_accuracy

The accuracy of the external rules is an assumption (`AccurateRule`): on integrands bounded by `M` on
`[a,b]` the rule `I` is within `τ·(b-a)·M` of a reference functional `J` ("the integral"), `I` is
Lipschitz with constant `(b-a)` in the sup norm (true of every rule with non-negative weights summing
to `b-a`), and `|J g| ≤ (b-a)·sup|g|`.  None of this is proved of Boost — it is what "the method's
accuracy" means; the theorem shows the nesting does not lose more than a factor two. -/

structure AccurateRule (I J : (Rat → Rat) → Rat → Rat → Rat) (τ : Rat) : Prop where
  acc : ∀ g a b M, a < b → (∀ x, a ≤ x → x ≤ b → |g x| ≤ M) → |I g a b - J g a b| ≤ τ * (b - a) * M
  lip : ∀ g g' a b D, a < b → (∀ x, a ≤ x → x ≤ b → |g x - g' x| ≤ D) → |I g a b - I g' a b| ≤ (b - a) * D
  jbound : ∀ g a b M, a < b → (∀ x, a ≤ x → x ≤ b → |g x| ≤ M) → |J g a b| ≤ (b - a) * M

/-- **nested_accuracy (2-D)**: the nested result is within `2τ·area·M` of the iterated reference
    integral, for every integrand bounded by `M` on the box. -/
theorem nested_accuracy_2D (Iall : Integ) (MC : MCInteg) (name : String) (m : Method) (hm : parseMethod name = some m)
    (p : Int) (J : (Rat → Rat) → Rat → Rat → Rat) (τ : Rat) (hτ : 0 ≤ τ)
    (hA : AccurateRule (Iall m (effParam m p)) J τ)
    (f : Rat → Rat → Rat) (x1 x2 y1 y2 M : Rat) (hx : x1 < x2) (hy : y1 < y2)
    (hM : ∀ x y, x1 ≤ x → x ≤ x2 → y1 ≤ y → y ≤ y2 → |f x y| ≤ M) :
    ∃ v, integrate2D Iall MC name p f x1 x2 y1 y2 = .ok v ∧
      |v - J (fun x => J (fun y => f x y) y1 y2) x1 x2| ≤ 2 * τ * ((x2 - x1) * (y2 - y1)) * M := by
  refine ⟨_, nested_order_2D_ordered Iall MC name m hm p f x1 x2 y1 y2 hx hy, ?_⟩
  set I := Iall m (effParam m p) with hI
  have hxp : 0 ≤ x2 - x1 := by linarith
  have hyp : 0 ≤ y2 - y1 := by linarith
  -- inner error, uniformly in x
  have inner : ∀ x, x1 ≤ x → x ≤ x2 →
      |I (fun y => f x y) y1 y2 - J (fun y => f x y) y1 y2| ≤ τ * (y2 - y1) * M :=
    fun x h1 h2 => hA.acc _ y1 y2 M hy (fun y h3 h4 => hM x y h1 h2 h3 h4)
  have jin : ∀ x, x1 ≤ x → x ≤ x2 → |J (fun y => f x y) y1 y2| ≤ (y2 - y1) * M :=
    fun x h1 h2 => hA.jbound _ y1 y2 M hy (fun y h3 h4 => hM x y h1 h2 h3 h4)
  have t1 := hA.lip (fun x => I (fun y => f x y) y1 y2) (fun x => J (fun y => f x y) y1 y2) x1 x2
    (τ * (y2 - y1) * M) hx inner
  have t2 := hA.acc (fun x => J (fun y => f x y) y1 y2) x1 x2 ((y2 - y1) * M) hx jin
  have tri : |I (fun x => I (fun y => f x y) y1 y2) x1 x2 - J (fun x => J (fun y => f x y) y1 y2) x1 x2|
      ≤ |I (fun x => I (fun y => f x y) y1 y2) x1 x2 - I (fun x => J (fun y => f x y) y1 y2) x1 x2|
        + |I (fun x => J (fun y => f x y) y1 y2) x1 x2 - J (fun x => J (fun y => f x y) y1 y2) x1 x2| := by
    have := abs_add_le (I (fun x => I (fun y => f x y) y1 y2) x1 x2 - I (fun x => J (fun y => f x y) y1 y2) x1 x2)
      (I (fun x => J (fun y => f x y) y1 y2) x1 x2 - J (fun x => J (fun y => f x y) y1 y2) x1 x2)
    simpa using this
  calc _ ≤ _ := tri
    _ ≤ (x2 - x1) * (τ * (y2 - y1) * M) + τ * (x2 - x1) * ((y2 - y1) * M) := add_le_add t1 t2
    _ = 2 * τ * ((x2 - x1) * (y2 - y1)) * M := by ring

/-- the hypotheses are satisfiable: the midpoint rule against itself with `τ = 0` -/
example : AccurateRule (fun f a b => (b - a) * f ((a + b) / 2)) (fun f a b => (b - a) * f ((a + b) / 2)) 0 where
  acc := by intro g a b M _ _; simp
  lip := by
    intro g g' a b D hab h
    have hm := h ((a + b) / 2) (by linarith) (by linarith)
    have : (b - a) * g ((a + b) / 2) - (b - a) * g' ((a + b) / 2) = (b - a) * (g ((a + b) / 2) - g' ((a + b) / 2)) := by ring
    rw [this, abs_mul, abs_of_pos (by linarith : (0 : Rat) < b - a)]
    exact mul_le_mul_of_nonneg_left hm (by linarith)
  jbound := by
    intro g a b M hab h
    have hm := h ((a + b) / 2) (by linarith) (by linarith)
    rw [abs_mul, abs_of_pos (by linarith : (0 : Rat) < b - a)]
    exact mul_le_mul_of_nonneg_left hm (by linarith)

/-- the midpoint rule against itself, named (for the instances below) -/
theorem midpoint_accurate :
    AccurateRule (fun f a b => (b - a) * f ((a + b) / 2)) (fun f a b => (b - a) * f ((a + b) / 2)) 0 where
  acc := by intro g a b M _ _; simp
  lip := by
    intro g g' a b D hab h
    have hm := h ((a + b) / 2) (by linarith) (by linarith)
    have : (b - a) * g ((a + b) / 2) - (b - a) * g' ((a + b) / 2) = (b - a) * (g ((a + b) / 2) - g' ((a + b) / 2)) := by ring
    rw [this, abs_mul, abs_of_pos (by linarith : (0 : Rat) < b - a)]
    exact mul_le_mul_of_nonneg_left hm (by linarith)
  jbound := by
    intro g a b M hab h
    have hm := h ((a + b) / 2) (by linarith) (by linarith)
    rw [abs_mul, abs_of_pos (by linarith : (0 : Rat) < b - a)]
    exact mul_le_mul_of_nonneg_left hm (by linarith)

/-- with ordered limits the 3-D nested result is literally `I (λx. I (λy. I (λz. f x y z) z1 z2) y1 y2) x1 x2` -/
theorem nested_order_3D_ordered (I : Integ) (MC : MCInteg) (name : String) (m : Method)
    (hm : parseMethod name = some m) (p : Int) (f : Rat → Rat → Rat → Rat) (x1 x2 y1 y2 z1 z2 : Rat)
    (hx : x1 < x2) (hy : y1 < y2) (hz : z1 < z2) :
    integrate3D I MC name p f x1 x2 y1 y2 z1 z2
      = .ok (I m (effParam m p) (fun x => I m (effParam m p) (fun y =>
          I m (effParam m p) (fun z => f x y z) z1 z2) y1 y2) x1 x2) := by
  rw [nested_order_3D I MC name m hm, int1_ordered I m p _ x1 x2 hx]
  congr 2
  funext x
  rw [int1_ordered I m p _ y1 y2 hy]
  congr 1
  funext y
  exact int1_ordered I m p _ z1 z2 hz

/-- the two-level core of `nested_accuracy_2D`, on the rule itself -/
theorem nested2_core {I J : (Rat → Rat) → Rat → Rat → Rat} {τ : Rat} (hA : AccurateRule I J τ)
    (f : Rat → Rat → Rat) (x1 x2 y1 y2 M : Rat) (hx : x1 < x2) (hy : y1 < y2)
    (hM : ∀ x y, x1 ≤ x → x ≤ x2 → y1 ≤ y → y ≤ y2 → |f x y| ≤ M) :
    |I (fun x => I (fun y => f x y) y1 y2) x1 x2 - J (fun x => J (fun y => f x y) y1 y2) x1 x2|
      ≤ 2 * τ * ((x2 - x1) * (y2 - y1)) * M := by
  have inner : ∀ x, x1 ≤ x → x ≤ x2 →
      |I (fun y => f x y) y1 y2 - J (fun y => f x y) y1 y2| ≤ τ * (y2 - y1) * M :=
    fun x h1 h2 => hA.acc _ y1 y2 M hy (fun y h3 h4 => hM x y h1 h2 h3 h4)
  have jin : ∀ x, x1 ≤ x → x ≤ x2 → |J (fun y => f x y) y1 y2| ≤ (y2 - y1) * M :=
    fun x h1 h2 => hA.jbound _ y1 y2 M hy (fun y h3 h4 => hM x y h1 h2 h3 h4)
  have t1 := hA.lip (fun x => I (fun y => f x y) y1 y2) (fun x => J (fun y => f x y) y1 y2) x1 x2
    (τ * (y2 - y1) * M) hx inner
  have t2 := hA.acc (fun x => J (fun y => f x y) y1 y2) x1 x2 ((y2 - y1) * M) hx jin
  have tri := abs_sub_le (I (fun x => I (fun y => f x y) y1 y2) x1 x2)
    (I (fun x => J (fun y => f x y) y1 y2) x1 x2) (J (fun x => J (fun y => f x y) y1 y2) x1 x2)
  calc _ ≤ _ := tri
    _ ≤ (x2 - x1) * (τ * (y2 - y1) * M) + τ * (x2 - x1) * ((y2 - y1) * M) := add_le_add t1 t2
    _ = 2 * τ * ((x2 - x1) * (y2 - y1)) * M := by ring

/-- **nested_accuracy (3-D)**: under the same `AccurateRule` hypothesis the three-fold nested result is
    within `3τ·volume·M` of the iterated reference integral, for every integrand bounded by `M` on the box
    (one `τ` per nesting level: the nesting loses no more than a factor three). -/
theorem nested_accuracy_3D (Iall : Integ) (MC : MCInteg) (name : String) (m : Method) (hm : parseMethod name = some m)
    (p : Int) (J : (Rat → Rat) → Rat → Rat → Rat) (τ : Rat) (hτ : 0 ≤ τ)
    (hA : AccurateRule (Iall m (effParam m p)) J τ)
    (f : Rat → Rat → Rat → Rat) (x1 x2 y1 y2 z1 z2 M : Rat) (hx : x1 < x2) (hy : y1 < y2) (hz : z1 < z2)
    (hM : ∀ x y z, x1 ≤ x → x ≤ x2 → y1 ≤ y → y ≤ y2 → z1 ≤ z → z ≤ z2 → |f x y z| ≤ M) :
    ∃ v, integrate3D Iall MC name p f x1 x2 y1 y2 z1 z2 = .ok v ∧
      |v - J (fun x => J (fun y => J (fun z => f x y z) z1 z2) y1 y2) x1 x2|
        ≤ 3 * τ * ((x2 - x1) * (y2 - y1) * (z2 - z1)) * M := by
  have _ := hτ
  refine ⟨_, nested_order_3D_ordered Iall MC name m hm p f x1 x2 y1 y2 z1 z2 hx hy hz, ?_⟩
  set I := Iall m (effParam m p) with hI
  -- the two inner levels, uniformly in x
  have inner : ∀ x, x1 ≤ x → x ≤ x2 →
      |I (fun y => I (fun z => f x y z) z1 z2) y1 y2 - J (fun y => J (fun z => f x y z) z1 z2) y1 y2|
        ≤ 2 * τ * ((y2 - y1) * (z2 - z1)) * M :=
    fun x h1 h2 => nested2_core hA (f x) y1 y2 z1 z2 M hy hz (fun y z h3 h4 h5 h6 => hM x y z h1 h2 h3 h4 h5 h6)
  have jz : ∀ x y, x1 ≤ x → x ≤ x2 → y1 ≤ y → y ≤ y2 → |J (fun z => f x y z) z1 z2| ≤ (z2 - z1) * M :=
    fun x y h1 h2 h3 h4 => hA.jbound _ z1 z2 M hz (fun z h5 h6 => hM x y z h1 h2 h3 h4 h5 h6)
  have jin : ∀ x, x1 ≤ x → x ≤ x2 →
      |J (fun y => J (fun z => f x y z) z1 z2) y1 y2| ≤ (y2 - y1) * ((z2 - z1) * M) :=
    fun x h1 h2 => hA.jbound _ y1 y2 ((z2 - z1) * M) hy (fun y h3 h4 => jz x y h1 h2 h3 h4)
  have t1 := hA.lip (fun x => I (fun y => I (fun z => f x y z) z1 z2) y1 y2)
    (fun x => J (fun y => J (fun z => f x y z) z1 z2) y1 y2) x1 x2 (2 * τ * ((y2 - y1) * (z2 - z1)) * M) hx inner
  have t2 := hA.acc (fun x => J (fun y => J (fun z => f x y z) z1 z2) y1 y2) x1 x2
    ((y2 - y1) * ((z2 - z1) * M)) hx jin
  have tri := abs_sub_le (I (fun x => I (fun y => I (fun z => f x y z) z1 z2) y1 y2) x1 x2)
    (I (fun x => J (fun y => J (fun z => f x y z) z1 z2) y1 y2) x1 x2)
    (J (fun x => J (fun y => J (fun z => f x y z) z1 z2) y1 y2) x1 x2)
  calc _ ≤ _ := tri
    _ ≤ (x2 - x1) * (2 * τ * ((y2 - y1) * (z2 - z1)) * M) + τ * (x2 - x1) * ((y2 - y1) * ((z2 - z1) * M)) :=
        add_le_add t1 t2
    _ = 3 * τ * ((x2 - x1) * (y2 - y1) * (z2 - z1)) * M := by ring

/-- non-vacuity: the midpoint rule (all methods), the integrand `x + y·z` on `[0,1]×[0,2]×[-1,1]`, bound `M = 3` -/
example : ∃ v, integrate3D (fun _ _ f a b => (b - a) * f ((a + b) / 2)) (fun _ _ _ _ => 0) "Trapezoidal" 0
      (fun x y z => x + y * z) 0 1 0 2 (-1) 1 = .ok v ∧
    |v - (fun f a b => (b - a) * f ((a + b) / 2)) (fun x => (fun f a b => (b - a) * f ((a + b) / 2)) (fun y =>
        (fun f a b => (b - a) * f ((a + b) / 2)) (fun z => x + y * z) (-1) 1) 0 2) 0 1|
      ≤ 3 * 0 * ((1 - 0) * (2 - 0) * (1 - (-1))) * 3 :=
  nested_accuracy_3D (fun _ _ f a b => (b - a) * f ((a + b) / 2)) (fun _ _ _ _ => 0) "Trapezoidal" .trapezoidal
    (by decide) 0 _ 0 (le_refl _) midpoint_accurate (fun x y z => x + y * z) 0 1 0 2 (-1) 1 3
    (by norm_num) (by norm_num) (by norm_num)
    (by
      intro x y z h1 h2 h3 h4 h5 h6
      rw [abs_le]
      constructor <;> nlinarith [mul_nonneg h3 (show 0 ≤ z + 1 by linarith), mul_nonneg h3 (show 0 ≤ 1 - z by linarith)])

/-! ## [T1] spherical_full_sphere -/

/-- **spherical_full_sphere**: for a radial `f(v) = g(‖v‖)`, a rule that is homogeneous and exact on constants,
    and the limits of the full sphere `r ∈ [r1,r2]`, `cos θ ∈ [-1,1]`, `φ ∈ [0,2π]` (`π` any number — the
    library passes its own constant) the spherical overload returns `4π·∫ r² g(r) dr`. -/
theorem spherical_full_sphere (I : Integ) (hI : Homogeneous I) (hC : ExactOnConstants I) (MC : MCInteg)
    (sph : Rat → Rat → Rat → Vec3) (acos : Rat → Rat) (nrm : Vec3 → Rat) (hn : ∀ r th ph, nrm (sph r th ph) = r)
    (name : String) (m : Method) (hm : parseMethod name = some m) (p : Int) (g : Rat → Rat)
    (r1 r2 pi : Rat) :
    integrate3Dsph I MC sph acos name p (fun v => g (nrm v)) r1 r2 (-1) 1 0 (2 * pi)
      = .ok (4 * pi * int1 I m p (fun r => r * r * g r) r1 r2) := by
  rw [spherical_radial I hI hC MC sph acos nrm hn name m hm p g r1 r2 (-1) 1 0 (2 * pi)]
  congr 1; ring

/-- … and the same value with BOTH angular pairs of limits reversed (two sign changes cancel; cf. finding C13-g) -/
theorem spherical_full_sphere_reversed (I : Integ) (hI : Homogeneous I) (hC : ExactOnConstants I) (MC : MCInteg)
    (sph : Rat → Rat → Rat → Vec3) (acos : Rat → Rat) (nrm : Vec3 → Rat) (hn : ∀ r th ph, nrm (sph r th ph) = r)
    (name : String) (m : Method) (hm : parseMethod name = some m) (p : Int) (g : Rat → Rat)
    (r1 r2 pi : Rat) :
    integrate3Dsph I MC sph acos name p (fun v => g (nrm v)) r1 r2 1 (-1) (2 * pi) 0
      = .ok (4 * pi * int1 I m p (fun r => r * r * g r) r1 r2) := by
  rw [spherical_radial I hI hC MC sph acos nrm hn name m hm p g r1 r2 1 (-1) (2 * pi) 0]
  congr 1; ring

/-- non-vacuity: the midpoint rule is homogeneous and exact on constants; `sph r θ φ = (r,θ,φ)` with the norm
    read off the first component satisfies `hn` (the real `Spherical_Coordinates`/`Norm` pair: C16) -/
example : ∃ (I : Integ) (sph : Rat → Rat → Rat → Vec3) (nrm : Vec3 → Rat),
    Homogeneous I ∧ ExactOnConstants I ∧ (∀ r th ph, nrm (sph r th ph) = r) ∧ parseMethod "Gauss-Legendre" = some .gaussLegendre :=
  ⟨fun _ _ f a b => (b - a) * f ((a + b) / 2), fun r th ph => (r, th, ph), fun v => v.1,
    by intro m q c g a b; ring, by intro m q c a b; ring, fun _ _ _ => rfl, by decide⟩

end Lp.C13
