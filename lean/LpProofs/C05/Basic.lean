/-
  Helper lemmas for C05: entries of the Gauss–Jordan stages, pivot search bounds, the two
  invariants of the elimination loop.
-/
import LpProofs.C04
import LpModel.C05
import Mathlib.LinearAlgebra.Matrix.NonsingularInverse
import Mathlib.LinearAlgebra.Matrix.Block
import Mathlib.Tactic.FieldSimp

namespace Lp.C05
open Lp.C04 Lp.C04.Mat Matrix

theorem sgn_eq (j : ℕ) : sgn j = (-1 : ℚ) ^ j := by
  unfold sgn
  rcases Nat.even_or_odd j with h | h
  · rw [Nat.even_iff.mp h, h.neg_one_pow]; simp
  · rw [Nat.odd_iff.mp h, h.neg_one_pow]; simp

/-! ### pivot search -/

theorem pivot_fold_bounds (W : Mat) (i : ℕ) (l : List ℕ) (p : ℕ) (N : ℕ) (hp : i ≤ p ∧ p < N)
    (hl : ∀ d ∈ l, i + 1 + d < N) :
    let r := l.foldl (fun p d => let j := i + 1 + d; if rabs (W.get j i) > rabs (W.get p i) then j else p) p
    i ≤ r ∧ r < N := by
  induction l generalizing p with
  | nil => simpa using hp
  | cons d l ih =>
    simp only [List.foldl_cons]
    apply ih
    · split
      · exact ⟨by omega, hl d (by simp)⟩
      · exact hp
    · intro d' hd'; exact hl d' (by simp [hd'])

theorem pivotRow_bounds (W : Mat) {N i : ℕ} (hi : i < N) : i ≤ pivotRow W N i ∧ pivotRow W N i < N := by
  unfold pivotRow
  apply pivot_fold_bounds W i _ i N ⟨le_refl _, hi⟩
  intro d hd
  simp only [List.mem_range] at hd
  omega

/-! ### entries of the stages (shape `N × 2N`) -/

theorem get_swapRows {W : Mat} {i p r k : ℕ} (hr : r < W.rows) (hk : k < W.cols) :
    (swapRows W i p).get r k = W.get (if r = i then p else if r = p then i else r) k := by
  simp [swapRows, get_ofFn _ hr hk]

theorem get_eliminate {W : Mat} {i j k : ℕ} (hj : j < W.rows) (hk : k < W.cols) :
    (eliminate W i).get j k =
      if j = i then W.get j k else W.get j k - (W.get j i / W.get i i) * W.get i k := by
  simp [eliminate, get_ofFn _ hj hk]

/-- `Left = Right · M`, row by row, for the two halves of the augmented matrix -/
def RowInv (N : ℕ) (M : Matrix (Fin N) (Fin N) ℚ) (W : Mat) : Prop :=
  ∀ i j : Fin N, W.get i j = ∑ k : Fin N, W.get i (k + N) * M k j

/-- columns `< t` of the left half are done: non-zero diagonal entry, zeros elsewhere -/
def ColsDone (N t : ℕ) (W : Mat) : Prop :=
  ∀ c, c < t → W.get c c ≠ 0 ∧ ∀ j, j < N → j ≠ c → W.get j c = 0

def Shape (N : ℕ) (W : Mat) : Prop := W.rows = N ∧ W.cols = 2 * N

theorem shape_augment (A : Mat) : Shape A.rows (augment A) := ⟨rfl, rfl⟩
theorem shape_swapRows {N W} (h : Shape N W) (i p) : Shape N (swapRows W i p) := h
theorem shape_eliminate {N W} (h : Shape N W) (i) : Shape N (eliminate W i) := h

theorem rowInv_augment (A : Mat) : RowInv A.rows (toM A A.rows A.rows) (augment A) := by
  intro i j
  have hi := i.isLt; have hj := j.isLt
  rw [augment, get_ofFn _ hi (by omega)]
  simp only [hj, if_true]
  rw [Finset.sum_eq_single i]
  · rw [get_ofFn _ hi (by omega)]
    simp
  · intro k _ hk
    rw [get_ofFn _ hi (by have := k.isLt; omega)]
    have : ¬ ((k : ℕ) + A.rows < A.rows) := by omega
    have hne : (k : ℕ) ≠ i := fun e => hk (Fin.ext e)
    simp [this, hne]
  · simp

theorem rowInv_swapRows {N M W} (hs : Shape N W) (h : RowInv N M W) {i p : ℕ} (hi : i < N) (hp : p < N) :
    RowInv N M (swapRows W i p) := by
  intro r j
  obtain ⟨h1, h2⟩ := hs
  have hr : (r : ℕ) < W.rows := by rw [h1]; exact r.isLt
  rw [get_swapRows hr (by rw [h2]; have := j.isLt; omega)]
  have key : ∀ k : Fin N, (swapRows W i p).get r (k + N) =
      W.get (if (r : ℕ) = i then p else if (r : ℕ) = p then i else r) (k + N) :=
    fun k => get_swapRows hr (by rw [h2]; have := k.isLt; omega)
  simp only [key]
  by_cases e1 : (r : ℕ) = i
  · simp only [e1, if_true]; exact h ⟨p, hp⟩ j
  · by_cases e2 : (r : ℕ) = p
    · simp only [if_neg e1, if_pos e2]
      exact h ⟨i, hi⟩ j
    · simp only [if_neg e1, if_neg e2]; exact h r j

theorem rowInv_eliminate {N M W} (hs : Shape N W) (h : RowInv N M W) {i : ℕ} (hi : i < N) :
    RowInv N M (eliminate W i) := by
  intro r j
  obtain ⟨h1, h2⟩ := hs
  have hr : (r : ℕ) < W.rows := by rw [h1]; exact r.isLt
  rw [get_eliminate hr (by rw [h2]; have := j.isLt; omega)]
  have key : ∀ k : Fin N, (eliminate W i).get r (k + N) =
      if (r : ℕ) = i then W.get r (k + N) else W.get r (k + N) - (W.get r i / W.get i i) * W.get i (k + N) :=
    fun k => get_eliminate hr (by rw [h2]; have := k.isLt; omega)
  simp only [key]
  by_cases e1 : (r : ℕ) = i
  · simp only [e1, if_true]
    have := h r j
    simpa [e1] using this
  · simp only [e1, if_false]
    rw [h r j, h ⟨i, hi⟩ j]
    simp only [sub_mul, Finset.sum_sub_distrib, Finset.mul_sum, mul_assoc]

theorem colsDone_swapRows {N W t} (hs : Shape N W) (h : ColsDone N t W) {p : ℕ} (ht : t ≤ p) (hp : p < N) :
    ColsDone N t (swapRows W t p) := by
  obtain ⟨h1, h2⟩ := hs
  intro c hc
  have hcN : c < N := by omega
  obtain ⟨hd, hz⟩ := h c hc
  constructor
  · rw [get_swapRows (by omega) (by omega)]
    have e1 : c ≠ t := by omega
    have e2 : c ≠ p := by omega
    simpa [e1, e2] using hd
  · intro j hj hjc
    rw [get_swapRows (by omega) (by omega)]
    by_cases e1 : j = t
    · simp only [e1, if_true]; exact hz p hp (by omega)
    · by_cases e2 : j = p
      · simp only [e1, e2, if_true, if_false]
        split
        · exact hz p hp (by omega)
        · exact hz t (by omega) (by omega)
      · simp only [e1, e2, if_false]; exact hz j hj hjc

theorem colsDone_eliminate {N W t} (hs : Shape N W) (h : ColsDone N t W) (ht : t < N) (hpiv : W.get t t ≠ 0) :
    ColsDone N (t + 1) (eliminate W t) := by
  obtain ⟨h1, h2⟩ := hs
  intro c hc
  have hcN : c < N := by omega
  rcases Nat.lt_succ_iff_lt_or_eq.mp hc with hlt | heq
  · obtain ⟨hd, hz⟩ := h c hlt
    have hzt : W.get t c = 0 := hz t ht (by omega)
    constructor
    · rw [get_eliminate (by omega) (by omega)]
      simp [hzt, hd]
    · intro j hj hjc
      rw [get_eliminate (by omega) (by omega)]
      split
      · rename_i e; rw [e]; exact hzt
      · rw [hz j hj hjc, hzt]; simp
  · subst heq
    constructor
    · rw [get_eliminate (by omega) (by omega)]; simpa using hpiv
    · intro j hj hjc
      rw [get_eliminate (by omega) (by omega)]
      simp only [hjc, if_false]
      field_simp
      ring

end Lp.C05
