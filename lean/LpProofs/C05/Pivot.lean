/-
  Helper lemmas for C05 (totality of the pivoted elimination): the pivot search returns a row of
  largest magnitude; the left half of the work matrix keeps a non-zero determinant under the row
  exchange and the elimination step; a vanishing pivot column makes the left half singular.
-/
import LpProofs.C05.Basic
import Mathlib.LinearAlgebra.Matrix.SchurComplement

namespace Lp.C05
open Lp.C04 Lp.C04.Mat Matrix

/-! ### absolute values and the pivot search -/

theorem rabs_nonneg (x : ℚ) : 0 ≤ rabs x := by
  unfold rabs; split <;> linarith

theorem rabs_eq_zero {x : ℚ} (h : rabs x ≤ 0) : x = 0 := by
  unfold rabs at h; split at h <;> linarith

theorem rabs_zero : rabs (0 : ℚ) = 0 := by simp [rabs]

theorem pivot_fold_max (W : Mat) (i : ℕ) (l : List ℕ) (p : ℕ) :
    let r := l.foldl (fun p d => let j := i + 1 + d; if rabs (W.get j i) > rabs (W.get p i) then j else p) p
    rabs (W.get p i) ≤ rabs (W.get r i) ∧ ∀ d ∈ l, rabs (W.get (i + 1 + d) i) ≤ rabs (W.get r i) := by
  induction l generalizing p with
  | nil => simp
  | cons d l ih =>
    simp only [List.foldl_cons]
    by_cases hgt : rabs (W.get (i + 1 + d) i) > rabs (W.get p i)
    · simp only [hgt, if_true]
      obtain ⟨h1, h2⟩ := ih (i + 1 + d)
      refine ⟨le_trans (le_of_lt hgt) h1, fun d' hd' => ?_⟩
      rcases List.mem_cons.mp hd' with rfl | hm
      · exact h1
      · exact h2 d' hm
    · simp only [hgt, if_false]
      obtain ⟨h1, h2⟩ := ih p
      refine ⟨h1, fun d' hd' => ?_⟩
      rcases List.mem_cons.mp hd' with rfl | hm
      · exact le_trans (not_lt.mp hgt) h1
      · exact h2 d' hm

/-- the pivot row carries the largest magnitude of column `i` at or below the diagonal -/
theorem pivotRow_max (W : Mat) {N i j : ℕ} (hij : i ≤ j) (hj : j < N) :
    rabs (W.get j i) ≤ rabs (W.get (pivotRow W N i) i) := by
  obtain ⟨h1, h2⟩ := pivot_fold_max W i (List.range (N - (i + 1))) i
  rcases Nat.eq_or_lt_of_le hij with rfl | hlt
  · exact h1
  · have := h2 (j - (i + 1)) (by simp only [List.mem_range]; omega)
    rwa [show i + 1 + (j - (i + 1)) = j by omega] at this

/-! ### the left half keeps a non-zero determinant -/

/-- the left half of the work matrix -/
def left (N : ℕ) (W : Mat) : Matrix (Fin N) (Fin N) ℚ := toM W N N

theorem left_augment (A : Mat) : left A.rows (augment A) = toM A A.rows A.rows := by
  ext i j
  simp only [left, toM_apply, augment]
  rw [get_ofFn _ i.isLt (by have := j.isLt; omega)]
  simp [j.isLt]

theorem left_swapRows {N : ℕ} {W : Mat} (hs : Shape N W) (i p : Fin N) :
    left N (swapRows W i p) = (left N W).submatrix (Equiv.swap i p) id := by
  obtain ⟨h1, h2⟩ := hs
  ext r k
  simp only [left, toM_apply, Matrix.submatrix_apply, id]
  rw [get_swapRows (by rw [h1]; exact r.isLt) (by rw [h2]; have := k.isLt; omega)]
  congr 1
  by_cases e1 : r = i
  · subst e1; simp
  · by_cases e2 : r = p
    · subst e2
      have : (r : ℕ) ≠ i := fun e => e1 (Fin.ext e)
      simp [this]
    · have h1 : (r : ℕ) ≠ i := fun e => e1 (Fin.ext e)
      have h2 : (r : ℕ) ≠ p := fun e => e2 (Fin.ext e)
      simp [h1, h2, Equiv.swap_apply_of_ne_of_ne e1 e2]

theorem det_left_swapRows {N : ℕ} {W : Mat} (hs : Shape N W) (i p : Fin N) (h : (left N W).det ≠ 0) :
    (left N (swapRows W i p)).det ≠ 0 := by
  rw [left_swapRows hs, Matrix.det_permute]
  refine mul_ne_zero ?_ h
  rcases Int.units_eq_one_or (Equiv.Perm.sign (Equiv.swap i p)) with e | e <;> simp [e]

theorem left_eliminate {N : ℕ} {W : Mat} (hs : Shape N W) (t : Fin N) :
    left N (eliminate W t) =
      (1 + Matrix.replicateCol (Fin 1) (fun i : Fin N => if i = t then 0 else -(W.get i t / W.get t t))
          * Matrix.replicateRow (Fin 1) (Pi.single t (1 : ℚ))) * left N W := by
  obtain ⟨h1, h2⟩ := hs
  ext r k
  rw [Matrix.add_mul, Matrix.one_mul]
  simp only [left, toM_apply, Matrix.add_apply, Matrix.mul_apply, Matrix.replicateCol_apply,
    Matrix.replicateRow_apply, Finset.univ_unique, Finset.sum_singleton]
  rw [get_eliminate (by rw [h1]; exact r.isLt) (by rw [h2]; have := k.isLt; omega)]
  rw [Finset.sum_eq_single t]
  · by_cases e : r = t
    · subst e; simp
    · have : (r : ℕ) ≠ t := fun h => e (Fin.ext h)
      simp [e, this]; ring
  · intro b _ hb
    simp [Pi.single_apply, hb]
  · simp

theorem det_left_eliminate {N : ℕ} {W : Mat} (hs : Shape N W) (t : Fin N) (h : (left N W).det ≠ 0) :
    (left N (eliminate W t)).det ≠ 0 := by
  rw [left_eliminate hs, Matrix.det_mul]
  have hE := Matrix.det_one_add_replicateCol_mul_replicateRow (ι := Fin 1)
    (fun i : Fin N => if i = t then 0 else -(W.get i t / W.get t t)) (Pi.single t (1 : ℚ))
  refine mul_ne_zero ?_ h
  have hE' : (1 + Matrix.replicateCol (Fin 1) (fun i : Fin N => if i = t then 0 else -(W.get i t / W.get t t))
      * Matrix.replicateRow (Fin 1) (Pi.single t (1 : ℚ))).det = 1 := by
    refine Eq.trans hE ?_
    simp only [dotProduct, Pi.single_apply]
    rw [Finset.sum_eq_zero]; · simp
    intro x _
    by_cases e : x = t <;> simp [e]
  rw [hE']
  exact one_ne_zero

/-- if column `t` vanishes at and below the diagonal while the columns before it are done, the
    left half is singular -/
theorem det_left_eq_zero {N t : ℕ} {W : Mat} (ht : t < N) (hD : ColsDone N t W)
    (hz : ∀ j, t ≤ j → j < N → W.get j t = 0) : (left N W).det = 0 := by
  -- row `t` … `N-1` vanish in the columns `≤ t`: block triangular with a zero row in the first block
  let b : Fin N → Fin 2 := fun i => if (i : ℕ) ≤ t then 0 else 1
  have hrow : ∀ i j : Fin N, t ≤ (i : ℕ) → (j : ℕ) ≤ t → left N W i j = 0 := by
    intro i j hi hj
    simp only [left, toM_apply]
    rcases Nat.eq_or_lt_of_le hj with e | hlt
    · rw [e]; exact hz i hi i.isLt
    · exact (hD j hlt).2 i i.isLt (by omega)
  have hbt : (left N W).BlockTriangular b := by
    intro i j hij
    have hj : (j : ℕ) ≤ t := by
      by_contra hc
      simp only [b, hc, if_false] at hij
      split at hij <;> simp at hij
    have hi : ¬ (i : ℕ) ≤ t := by
      intro hc
      simp only [b, hc, hj, if_true] at hij
      exact absurd hij (lt_irrefl _)
    exact hrow i j (by omega) hj
  rw [hbt.det_fintype]
  apply Finset.prod_eq_zero (Finset.mem_univ (0 : Fin 2))
  have hbt0 : b ⟨t, ht⟩ = 0 := by simp [b]
  apply Matrix.det_eq_zero_of_row_eq_zero (⟨⟨t, ht⟩, hbt0⟩ : {i // b i = 0})
  intro j
  simp only [Matrix.toSquareBlock_def, Matrix.of_apply]
  apply hrow _ _ (le_refl _)
  have := j.2
  by_contra hc
  simp only [b, hc, if_false] at this
  exact absurd this (by decide)

end Lp.C05
