/-
  `Lp.C02.frexpExp` (LpModel/C02.lean) is `std::frexp`'s exponent: `2^(e-1) ≤ m < 2^e` for `m > 0`.
  Consequences for the scaled function values of commit e02ed3d: the largest scaled magnitude lies in
  `[1/2, 1)`, the scaled discriminant is bounded below.
-/
import LpProofs.C02.Lemmas
import Mathlib.Data.Rat.Lemmas
namespace Lp.C02

theorem pow2_add (a b : Int) : Lp.pow2 (a + b) = Lp.pow2 a * Lp.pow2 b := by
  unfold Lp.pow2; exact zpow_add₀ (by norm_num) a b

theorem pow2_natCast (n : Nat) : Lp.pow2 (n : Int) = ((2 ^ n : Nat) : Rat) := by
  unfold Lp.pow2; rw [zpow_natCast]; push_cast; rfl

theorem pow2_one : Lp.pow2 1 = 2 := by unfold Lp.pow2; norm_num

theorem pow2_neg_one : Lp.pow2 (-1) = 1 / 2 := by unfold Lp.pow2; norm_num

theorem pow2_neg_mul (a : Int) : Lp.pow2 (-a) * Lp.pow2 a = 1 := by
  rw [← pow2_add]; simp [Lp.pow2]

/-- **frexpExp_spec**: for `m > 0`, `2^(e-1) ≤ m < 2^e` with `e = frexpExp m` (what `std::frexp` returns) -/
theorem frexpExp_spec (m : Rat) (hm : 0 < m) :
    Lp.pow2 (frexpExp m - 1) ≤ m ∧ m < Lp.pow2 (frexpExp m) := by
  have hnum : 0 < m.num := Rat.num_pos.mpr hm
  set n := m.num.toNat with hn
  set d := m.den with hd
  have hn0 : n ≠ 0 := by omega
  have hd0 : d ≠ 0 := m.den_nz
  have hnQ : (m.num : Rat) = (n : Rat) := by
    have : (n : Int) = m.num := Int.toNat_of_nonneg (le_of_lt hnum)
    rw [← this]; push_cast; rfl
  have hmd : m = (n : Rat) / (d : Rat) := by rw [← hnQ]; exact (Rat.num_div_den m).symm
  have hdQ : (0 : Rat) < (d : Rat) := by exact_mod_cast Nat.pos_of_ne_zero hd0
  -- bit lengths
  have a1 : ((2 ^ n.log2 : Nat) : Rat) ≤ (n : Rat) := by exact_mod_cast Nat.log2_self_le hn0
  have a2 : (n : Rat) < ((2 ^ (n.log2 + 1) : Nat) : Rat) := by exact_mod_cast (Nat.lt_log2_self (n := n))
  have b1 : ((2 ^ d.log2 : Nat) : Rat) ≤ (d : Rat) := by exact_mod_cast Nat.log2_self_le hd0
  have b2 : (d : Rat) < ((2 ^ (d.log2 + 1) : Nat) : Rat) := by exact_mod_cast (Nat.lt_log2_self (n := d))
  rw [← pow2_natCast] at a1 a2 b1 b2
  push_cast at a2 b2
  rw [pow2_add, pow2_one] at a2 b2
  have pa := pow2_pos (n.log2 : Int)
  have pb := pow2_pos (d.log2 : Int)
  -- m lies in (2^(k-1), 2^(k+1)) with k = log2 n - log2 d
  have hk : Lp.pow2 ((n.log2 : Int) - (d.log2 : Int)) = Lp.pow2 (n.log2 : Int) / Lp.pow2 (d.log2 : Int) := by
    rw [sub_eq_add_neg, pow2_add, eq_div_iff (ne_of_gt pb), mul_assoc, pow2_neg_mul, mul_one]
  have lower : Lp.pow2 ((n.log2 : Int) - (d.log2 : Int) - 1) < m := by
    have : Lp.pow2 ((n.log2 : Int) - (d.log2 : Int) - 1) = Lp.pow2 (n.log2 : Int) / (Lp.pow2 (d.log2 : Int) * 2) := by
      rw [sub_eq_add_neg _ (1 : Int), pow2_add, hk, pow2_neg_one]
      field_simp
    rw [this, hmd, div_lt_div_iff₀ (by positivity) hdQ]
    nlinarith
  have upper : m < Lp.pow2 ((n.log2 : Int) - (d.log2 : Int) + 1) := by
    rw [pow2_add, pow2_one, hk, hmd, div_mul_eq_mul_div, div_lt_div_iff₀ hdQ pb]
    nlinarith
  unfold frexpExp
  rw [if_neg (not_le.mpr hm)]
  simp only []
  rw [← hn, ← hd]
  by_cases hc : Lp.pow2 ((n.log2 : Int) - (d.log2 : Int)) ≤ m
  · rw [if_pos hc]
    exact ⟨by simpa using hc, upper⟩
  · rw [if_neg hc]
    exact ⟨le_of_lt lower, not_le.mp hc⟩

/-- the largest of the three scaled magnitudes lies in `[1/2, 1)` (when not all values vanish): the
    scaled products can neither underflow to zero together nor overflow -/
theorem scaled_max_in_half_one (f1 f2 f3 : Rat) (h : f1 * f2 < 0) :
    let M := Lp.rmax (Lp.rabs f3) (Lp.rmax (Lp.rabs f1) (Lp.rabs f2))
    1 / 2 ≤ M * ridderScale f1 f2 f3 ∧ M * ridderScale f1 f2 f3 < 1 := by
  intro M
  have hM : 0 < M := by
    have h1 : f1 ≠ 0 := by rintro rfl; simp at h
    have : 0 < Lp.rabs f1 := by rw [rabs_eq_abs]; exact abs_pos.mpr h1
    have h2 : Lp.rabs f1 ≤ Lp.rmax (Lp.rabs f1) (Lp.rabs f2) := by rw [rmax_eq_max]; exact le_max_left _ _
    have h3 : Lp.rmax (Lp.rabs f1) (Lp.rabs f2) ≤ M := by
      simp only [M]; rw [rmax_eq_max (Lp.rabs f3)]; exact le_max_right _ _
    linarith
  obtain ⟨s1, s2⟩ := frexpExp_spec M hM
  have hsc : ridderScale f1 f2 f3 = Lp.pow2 (-(frexpExp M)) := rfl
  have hp := pow2_pos (-(frexpExp M))
  have e1 : Lp.pow2 (frexpExp M - 1) * Lp.pow2 (-(frexpExp M)) = 1 / 2 := by
    rw [← pow2_add]
    have : frexpExp M - 1 + -frexpExp M = -1 := by ring
    rw [this]
    rw [pow2_neg_one]
  have e2 : Lp.pow2 (frexpExp M) * Lp.pow2 (-(frexpExp M)) = 1 := by
    rw [mul_comm]; exact pow2_neg_mul _
  rw [hsc]
  constructor
  · rw [← e1]; exact mul_le_mul_of_nonneg_right s1 (le_of_lt hp)
  · rw [← e2]; exact mul_lt_mul_of_pos_right s2 hp

/-- **scaled_discriminant_lower**: with opposite signs at the ends the scaled discriminant
    `g3² − g1·g2 = g3² + |g1|·|g2|` is at least `g3²` and at least `|g1|·|g2|`, where the largest of
    `|g1|, |g2|, |g3|` is at least `1/2`: it is `≥ 1/4` when the midpoint value dominates and
    `≥ min(|g1|,|g2|)/2` otherwise — never a product of two tiny numbers. -/
theorem scaled_discriminant_lower (f1 f2 f3 : Rat) (h : f1 * f2 < 0) :
    let c := ridderScale f1 f2 f3
    let D := (f3 * c) * (f3 * c) - (f1 * c) * (f2 * c)
    0 < D ∧ (1 / 4 ≤ D ∨ min |f1 * c| |f2 * c| / 2 ≤ D) := by
  intro c D
  have hc : 0 < c := ridderScale_pos f1 f2 f3
  have hpos : 0 < D := scaled_discriminant_pos f1 f2 f3 c hc h
  refine ⟨hpos, ?_⟩
  obtain ⟨m1, _⟩ := scaled_max_in_half_one f1 f2 f3 h
  rw [rmax_eq_max, rmax_eq_max, rabs_eq_abs, rabs_eq_abs, rabs_eq_abs] at m1
  have hg12 : (f1 * c) * (f2 * c) < 0 := by
    have : (f1 * c) * (f2 * c) = (c * c) * (f1 * f2) := by ring
    rw [this]; exact mul_neg_of_pos_of_neg (mul_pos hc hc) h
  have habs12 : |f1 * c| * |f2 * c| = -((f1 * c) * (f2 * c)) := by
    rw [← abs_mul, abs_of_neg hg12]
  have hD : D = (f3 * c) * (f3 * c) + |f1 * c| * |f2 * c| := by simp only [D]; rw [habs12]; ring
  have hsq3 : (f3 * c) * (f3 * c) = |f3 * c| * |f3 * c| := (abs_mul_abs_self _).symm
  have ac : ∀ x : Rat, |x * c| = |x| * c := fun x => by rw [abs_mul, abs_of_pos hc]
  rcases le_total (max |f1| |f2|) |f3| with h3 | h3
  · -- the midpoint value is the largest: |g3| ≥ 1/2
    left
    rw [max_eq_left h3] at m1
    have : 1 / 2 ≤ |f3 * c| := by rw [ac]; exact m1
    rw [hD, hsq3]
    nlinarith [abs_nonneg (f1 * c), abs_nonneg (f2 * c), mul_nonneg (abs_nonneg (f1 * c)) (abs_nonneg (f2 * c))]
  · right
    rw [max_eq_right h3] at m1
    rw [hD]
    have hn3 : 0 ≤ (f3 * c) * (f3 * c) := mul_self_nonneg _
    rcases le_total |f1| |f2| with h12 | h12
    · rw [max_eq_right h12] at m1
      have hb : 1 / 2 ≤ |f2 * c| := by rw [ac]; exact m1
      have hle : |f1 * c| ≤ |f2 * c| := by rw [ac, ac]; exact mul_le_mul_of_nonneg_right h12 (le_of_lt hc)
      rw [min_eq_left hle]
      nlinarith [abs_nonneg (f1 * c)]
    · rw [max_eq_left h12] at m1
      have hb : 1 / 2 ≤ |f1 * c| := by rw [ac]; exact m1
      have hle : |f2 * c| ≤ |f1 * c| := by rw [ac, ac]; exact mul_le_mul_of_nonneg_right h12 (le_of_lt hc)
      rw [min_eq_right hle]
      nlinarith [abs_nonneg (f2 * c)]

/-- **scaled_values_lt_one**: because the exponent is taken from the largest of the THREE magnitudes
    (midpoint value included), every scaled value satisfies `|g_i| < 1`: `ldexp(f_i, -exponent)` cannot
    overflow, whatever the ratio between the midpoint value and the end values (a scale taken from the
    end values alone would let `g3` overflow when the function's interior lies hundreds of decades above
    its tails). -/
theorem scaled_values_lt_one (f1 f2 f3 : Rat) (h : f1 * f2 < 0) :
    |f1 * ridderScale f1 f2 f3| < 1 ∧ |f2 * ridderScale f1 f2 f3| < 1 ∧ |f3 * ridderScale f1 f2 f3| < 1 := by
  have hc : 0 < ridderScale f1 f2 f3 := ridderScale_pos f1 f2 f3
  obtain ⟨_, m2⟩ := scaled_max_in_half_one f1 f2 f3 h
  rw [rmax_eq_max, rmax_eq_max, rabs_eq_abs, rabs_eq_abs, rabs_eq_abs] at m2
  have ac : ∀ x : Rat, |x * ridderScale f1 f2 f3| = |x| * ridderScale f1 f2 f3 := fun x => by
    rw [abs_mul, abs_of_pos hc]
  have le3 : |f3| ≤ max |f3| (max |f1| |f2|) := le_max_left _ _
  have le1 : |f1| ≤ max |f3| (max |f1| |f2|) := le_trans (le_max_left _ _) (le_max_right _ _)
  have le2 : |f2| ≤ max |f3| (max |f1| |f2|) := le_trans (le_max_right _ _) (le_max_right _ _)
  refine ⟨?_, ?_, ?_⟩
  · rw [ac]; exact lt_of_le_of_lt (mul_le_mul_of_nonneg_right le1 (le_of_lt hc)) m2
  · rw [ac]; exact lt_of_le_of_lt (mul_le_mul_of_nonneg_right le2 (le_of_lt hc)) m2
  · rw [ac]; exact lt_of_le_of_lt (mul_le_mul_of_nonneg_right le3 (le_of_lt hc)) m2

end Lp.C02
