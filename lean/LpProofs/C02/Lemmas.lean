/-
  Helper lemmas for C02 (Ridder's method): two-argument Sign, location of the new iterate,
  specification of one pass through the loop body.
-/
import LpModel.C02
import Mathlib.Tactic.Ring
import Mathlib.Tactic.Linarith
import Mathlib.Tactic.FieldSimp
import Mathlib.Tactic.Positivity
import Mathlib.Algebra.Order.Field.Rat
import Mathlib.Algebra.Order.Ring.Abs
namespace Lp.C02

theorem rabs_eq_abs (x : Rat) : Lp.rabs x = |x| := by
  unfold Lp.rabs
  split
  · rename_i h; rw [abs_of_neg h]
  · rename_i h; rw [abs_of_nonneg (not_lt.mp h)]

/-! ### Sign -/

theorem sign1_pos {x : Rat} (h : 0 < x) : sign1 x = 1 := by
  unfold sign1; rw [if_pos h]

theorem sign1_neg {x : Rat} (h : x < 0) : sign1 x = -1 := by
  unfold sign1; rw [if_neg (not_lt.mpr (le_of_lt h)), if_neg (ne_of_lt h)]

theorem sign1_zero : sign1 0 = 0 := by
  unfold sign1; simp

/-- `Sign(f,g) != f` (with `g ≠ 0`) says exactly that `f` and `g` have strictly opposite signs -/
theorem sign2_ne_iff (f g : Rat) (hg : g ≠ 0) : sign2 f g ≠ f ↔ f * g < 0 := by
  unfold sign2
  rcases lt_trichotomy f 0 with hf | hf | hf
  · rcases lt_or_gt_of_ne hg with hg' | hg'
    · rw [sign1_neg hf, sign1_neg hg']
      simp only [if_true, ne_eq, not_true_eq_false, false_iff, not_lt]
      exact le_of_lt (mul_pos_of_neg_of_neg hf hg')
    · rw [sign1_neg hf, sign1_pos hg']
      simp only [show ¬ ((-1 : Int) = 1) by decide, if_false]
      constructor
      · intro _; exact mul_neg_of_neg_of_pos hf hg'
      · intro _ h; linarith
  · subst hf
    rw [sign1_zero]
    constructor
    · intro h; exfalso; apply h; split <;> simp
    · intro h; simp at h
  · rcases lt_or_gt_of_ne hg with hg' | hg'
    · rw [sign1_pos hf, sign1_neg hg']
      simp only [show ¬ ((1 : Int) = -1) by decide, if_false]
      constructor
      · intro _; exact mul_neg_of_pos_of_neg hf hg'
      · intro _ h; linarith
    · rw [sign1_pos hf, sign1_pos hg']
      simp only [if_true, ne_eq, not_true_eq_false, false_iff, not_lt]
      exact le_of_lt (mul_pos hf hg')

/-- with `f1·f2 < 0`, `Sign(f1 - f2)` is the sign of `f1` -/
theorem sign1_diff {f1 f2 : Rat} (h : f1 * f2 < 0) :
    (0 < f1 ∧ f2 < 0 ∧ sign1 (f1 - f2) = 1) ∨ (f1 < 0 ∧ 0 < f2 ∧ sign1 (f1 - f2) = -1) := by
  rcases lt_trichotomy f1 0 with h1 | h1 | h1
  · right
    have h2 : 0 < f2 := by
      by_contra hn; push Not at hn
      have := mul_nonneg_of_nonpos_of_nonpos (le_of_lt h1) hn; linarith
    exact ⟨h1, h2, sign1_neg (by linarith)⟩
  · subst h1; simp at h
  · left
    have h2 : f2 < 0 := by
      by_contra hn; push Not at hn
      have := mul_nonneg (le_of_lt h1) hn; linarith
    exact ⟨h1, h2, sign1_pos (by linarith)⟩

/-! ### the Ridder factor `t = Sign(f1-f2)·f3/sqrt(f3²-f1·f2)` -/

/-- what the theorems need of the square root -/
def SqOK (sq : Rat → Rat) : Prop := ∀ y : Rat, 0 < y → 0 < sq y ∧ y ≤ sq y * sq y

/-- the unscaled factor `Sign(f1-f2)·f3/sqrt(f3²-f1·f2)` -/
def ridderT0 (sq : Rat → Rat) (f1 f2 f3 : Rat) : Rat :=
  ((sign1 (f1 - f2) : Int) : Rat) * f3 / sq (f3 * f3 - f1 * f2)

theorem pow2_pos (e : Int) : 0 < Lp.pow2 e := by
  unfold Lp.pow2; exact zpow_pos (by norm_num) e

theorem ridderScale_pos (f1 f2 f3 : Rat) : 0 < ridderScale f1 f2 f3 := by
  unfold ridderScale; exact pow2_pos _

/-- the factor as coded (commit e02ed3d): on the values scaled by `ridderScale`, `0` (= the midpoint) when the
    square root of the scaled discriminant is not positive -/
def ridderT (sq : Rat → Rat) (f1 f2 f3 : Rat) : Rat :=
  let c := ridderScale f1 f2 f3
  if sq ((f3 * c) * (f3 * c) - (f1 * c) * (f2 * c)) > 0 then ridderT0 sq (f1 * c) (f2 * c) (f3 * c) else 0

theorem ridderX4_id (sq : Rat → Rat) (x1 f1 f2 x3 f3 : Rat) :
    ridderX4 sq id x1 f1 f2 x3 f3 = x3 + (x3 - x1) * ridderT sq f1 f2 f3 := by
  unfold ridderX4 ridderT ridderT0
  simp only [id]
  split
  · ring
  · ring

/-- `|t| < 1`, and `t` has the sign of `f1·f3` -/
theorem ridderT0_bounds (sq : Rat → Rat) (hsq : SqOK sq) (f1 f2 f3 : Rat) (h : f1 * f2 < 0) :
    -1 < ridderT0 sq f1 f2 f3 ∧ ridderT0 sq f1 f2 f3 < 1 ∧
    (f1 * f3 ≤ 0 → ridderT0 sq f1 f2 f3 ≤ 0) ∧ (0 ≤ f1 * f3 → 0 ≤ ridderT0 sq f1 f2 f3) := by
  have hD : 0 < f3 * f3 - f1 * f2 := by nlinarith [mul_self_nonneg f3]
  obtain ⟨hs, hss⟩ := hsq _ hD
  set s := sq (f3 * f3 - f1 * f2) with hsdef
  have hlt : f3 * f3 < s * s := by linarith
  have habs : -s < f3 ∧ f3 < s := by
    constructor
    · by_contra hn; push Not at hn
      have : s * s ≤ f3 * f3 := by nlinarith
      linarith
    · by_contra hn; push Not at hn
      have : s * s ≤ f3 * f3 := by nlinarith
      linarith
  unfold ridderT0
  rw [← hsdef]
  rcases sign1_diff h with ⟨h1, _, hsg⟩ | ⟨h1, _, hsg⟩
  · rw [hsg]
    simp only [Int.cast_one, one_mul]
    refine ⟨by rw [lt_div_iff₀ hs]; linarith [habs.1], by rw [div_lt_iff₀ hs]; linarith [habs.2], ?_, ?_⟩
    · intro h13
      have : f3 ≤ 0 := by by_contra hn; push Not at hn; have := mul_pos h1 hn; linarith
      exact div_nonpos_of_nonpos_of_nonneg this (le_of_lt hs)
    · intro h13
      have : 0 ≤ f3 := by by_contra hn; push Not at hn; have := mul_neg_of_pos_of_neg h1 hn; linarith
      exact div_nonneg this (le_of_lt hs)
  · rw [hsg]
    simp only [Int.cast_neg, Int.cast_one, neg_mul, one_mul]
    refine ⟨by rw [lt_div_iff₀ hs]; linarith [habs.2], by rw [div_lt_iff₀ hs]; linarith [habs.1], ?_, ?_⟩
    · intro h13
      have : 0 ≤ f3 := by by_contra hn; push Not at hn; have := mul_pos_of_neg_of_neg h1 hn; linarith
      exact div_nonpos_of_nonpos_of_nonneg (by linarith) (le_of_lt hs)
    · intro h13
      have : f3 ≤ 0 := by by_contra hn; push Not at hn; have := mul_neg_of_neg_of_pos h1 hn; linarith
      exact div_nonneg (by linarith) (le_of_lt hs)

/-! ### the scaling of commit e02ed3d -/

/-- the scaled discriminant is positive whenever `f1`, `f2` have strictly opposite signs (for any positive
    scale factor, in particular the power of two `ridderScale`) -/
theorem scaled_discriminant_pos (f1 f2 f3 c : Rat) (hc : 0 < c) (h : f1 * f2 < 0) :
    0 < (f3 * c) * (f3 * c) - (f1 * c) * (f2 * c) := by
  have e : (f3 * c) * (f3 * c) - (f1 * c) * (f2 * c) = (c * c) * (f3 * f3 - f1 * f2) := by ring
  rw [e]
  exact mul_pos (mul_pos hc hc) (by nlinarith [mul_self_nonneg f3])

/-- **ridder_fallback_unreachable**: with a square root that is positive on positive arguments and a
    bracket with a sign change, the `s > 0` test of the code succeeds: the midpoint fallback is dead
    code in exact arithmetic (it only catches a discriminant that vanishes by rounding). -/
theorem ridder_fallback_unreachable (sq : Rat → Rat) (hsq : SqOK sq) (f1 f2 f3 : Rat) (h : f1 * f2 < 0) :
    sq ((f3 * ridderScale f1 f2 f3) * (f3 * ridderScale f1 f2 f3)
        - (f1 * ridderScale f1 f2 f3) * (f2 * ridderScale f1 f2 f3)) > 0 :=
  (hsq _ (scaled_discriminant_pos f1 f2 f3 _ (ridderScale_pos f1 f2 f3) h)).1

theorem sign1_mul_pos (x c : Rat) (hc : 0 < c) : sign1 (x * c) = sign1 x := by
  rcases lt_trichotomy x 0 with h | h | h
  · rw [sign1_neg h, sign1_neg (mul_neg_of_neg_of_pos h hc)]
  · subst h; simp
  · rw [sign1_pos h, sign1_pos (mul_pos h hc)]

/-- **ridder_scale_invariant**: Ridders' formula is homogeneous of degree zero in `(f1,f2,f3)`: with a
    square root that commutes with the scale factor on the discriminant at hand
    (`sq (c²·D) = c·sq D`, true of the real square root for every `c > 0`) and `sq D > 0`, the new
    point computed on the scaled values is the one of the unscaled formula
    `x3 + (x3 − x1)·Sign(f1 − f2)·f3 / sqrt(f3² − f1·f2)`. -/
theorem ridder_scale_invariant (sq : Rat → Rat) (x1 f1 f2 x3 f3 : Rat)
    (hpos : 0 < sq (f3 * f3 - f1 * f2))
    (hhom : sq (ridderScale f1 f2 f3 * ridderScale f1 f2 f3 * (f3 * f3 - f1 * f2))
              = ridderScale f1 f2 f3 * sq (f3 * f3 - f1 * f2)) :
    ridderX4 sq id x1 f1 f2 x3 f3
      = x3 + (x3 - x1) * ((sign1 (f1 - f2) : Int) : Rat) * f3 / sq (f3 * f3 - f1 * f2) := by
  have hc := ridderScale_pos f1 f2 f3
  unfold ridderX4
  simp only [id]
  set c := ridderScale f1 f2 f3
  have e : (f3 * c) * (f3 * c) - (f1 * c) * (f2 * c) = c * c * (f3 * f3 - f1 * f2) := by ring
  have e2 : f1 * c - f2 * c = (f1 - f2) * c := by ring
  rw [e, hhom, e2, sign1_mul_pos _ _ hc, if_pos (mul_pos hc hpos)]
  have hcne : c ≠ 0 := ne_of_gt hc
  have hsne : sq (f3 * f3 - f1 * f2) ≠ 0 := ne_of_gt hpos
  field_simp

/-- `|t| < 1`, and `t` has the sign of `f1·f3` — for the factor as coded (scaled values, fallback) -/
theorem ridderT_bounds (sq : Rat → Rat) (hsq : SqOK sq) (f1 f2 f3 : Rat) (h : f1 * f2 < 0) :
    -1 < ridderT sq f1 f2 f3 ∧ ridderT sq f1 f2 f3 < 1 ∧
    (f1 * f3 ≤ 0 → ridderT sq f1 f2 f3 ≤ 0) ∧ (0 ≤ f1 * f3 → 0 ≤ ridderT sq f1 f2 f3) := by
  have hc := ridderScale_pos f1 f2 f3
  have hfb := ridder_fallback_unreachable sq hsq f1 f2 f3 h
  unfold ridderT
  simp only []
  rw [if_pos hfb]
  set c := ridderScale f1 f2 f3
  have hg : (f1 * c) * (f2 * c) < 0 := by
    have : (f1 * c) * (f2 * c) = (c * c) * (f1 * f2) := by ring
    rw [this]; exact mul_neg_of_pos_of_neg (mul_pos hc hc) h
  obtain ⟨b1, b2, b3, b4⟩ := ridderT0_bounds sq hsq (f1 * c) (f2 * c) (f3 * c) hg
  have e13 : (f1 * c) * (f3 * c) = (c * c) * (f1 * f3) := by ring
  refine ⟨b1, b2, ?_, ?_⟩
  · intro h13; apply b3; rw [e13]; exact mul_nonpos_of_nonneg_of_nonpos (le_of_lt (mul_pos hc hc)) h13
  · intro h13; apply b4; rw [e13]; exact mul_nonneg (le_of_lt (mul_pos hc hc)) h13

/-! ### where the new iterate lies -/

theorem x4_geometry (lo hi x1 x2 t : Rat) (ht1 : -1 < t) (ht2 : t < 1)
    (h1 : lo ≤ x1) (h1' : x1 ≤ hi) (h2 : lo ≤ x2) (h2' : x2 ≤ hi) :
    let x3 := (x1 + x2) / 2
    let x4 := x3 + (x3 - x1) * t
    lo ≤ x3 ∧ x3 ≤ hi ∧ lo ≤ x4 ∧ x4 ≤ hi ∧ |x4 - x3| ≤ |x2 - x1| / 2 ∧
    (t ≤ 0 → |x4 - x1| ≤ |x2 - x1| / 2) ∧ (0 ≤ t → |x2 - x4| ≤ |x2 - x1| / 2) := by
  intro x3 x4
  have e4 : x4 = x1 * ((1 - t) / 2) + x2 * ((1 + t) / 2) := by simp only [x4, x3]; ring
  have ha : 0 ≤ (1 - t) / 2 := by linarith
  have hb : 0 ≤ (1 + t) / 2 := by linarith
  refine ⟨by simp only [x3]; linarith, by simp only [x3]; linarith, ?_, ?_, ?_, ?_, ?_⟩
  · have := mul_le_mul_of_nonneg_right h1 ha
    have := mul_le_mul_of_nonneg_right h2 hb
    rw [e4]; nlinarith
  · have := mul_le_mul_of_nonneg_right h1' ha
    have := mul_le_mul_of_nonneg_right h2' hb
    rw [e4]; nlinarith
  · have : x4 - x3 = (x2 - x1) * (t / 2) := by simp only [x4, x3]; ring
    rw [this, abs_mul]
    have : |t / 2| ≤ 1 / 2 := by rw [abs_le]; constructor <;> linarith
    have := mul_le_mul_of_nonneg_left this (abs_nonneg (x2 - x1))
    linarith
  · intro ht
    have : x4 - x1 = (x2 - x1) * ((1 + t) / 2) := by simp only [x4, x3]; ring
    rw [this, abs_mul, abs_of_nonneg hb]
    have : (1 + t) / 2 ≤ 1 / 2 := by linarith
    have := mul_le_mul_of_nonneg_left this (abs_nonneg (x2 - x1))
    linarith
  · intro ht
    have : x2 - x4 = (x2 - x1) * ((1 - t) / 2) := by simp only [x4, x3]; ring
    rw [this, abs_mul, abs_of_nonneg ha]
    have : (1 - t) / 2 ≤ 1 / 2 := by linarith
    have := mul_le_mul_of_nonneg_left this (abs_nonneg (x2 - x1))
    linarith

/-! ### the clamp of commit 008fb03 -/

theorem rmin_eq_min (x y : Rat) : Lp.rmin x y = min x y := by
  unfold Lp.rmin
  by_cases h : y < x
  · rw [if_pos h, min_eq_right (le_of_lt h)]
  · rw [if_neg h, min_eq_left (not_lt.mp h)]

theorem rmax_eq_max (x y : Rat) : Lp.rmax x y = max x y := by
  unfold Lp.rmax
  by_cases h : x < y
  · rw [if_pos h, max_eq_right (le_of_lt h)]
  · rw [if_neg h, max_eq_left (not_lt.mp h)]

/-- the clamped iterate is inside the current bracket, whatever was computed -/
theorem clampX4_mem (x1 x2 x4 : Rat) : min x1 x2 ≤ clampX4 x1 x2 x4 ∧ clampX4 x1 x2 x4 ≤ max x1 x2 := by
  unfold clampX4
  rw [rmin_eq_min, rmax_eq_max]
  by_cases h1 : x4 < min x1 x2
  · rw [if_pos h1]; exact ⟨le_refl _, min_le_max⟩
  · rw [if_neg h1]
    by_cases h2 : x4 > max x1 x2
    · rw [if_pos h2]; exact ⟨min_le_max, le_refl _⟩
    · rw [if_neg h2]; exact ⟨not_lt.mp h1, not_lt.mp h2⟩

/-- the clamp does nothing to an iterate that is inside the bracket (exact arithmetic) -/
theorem clampX4_of_mem (x1 x2 x4 : Rat) (h1 : min x1 x2 ≤ x4) (h2 : x4 ≤ max x1 x2) : clampX4 x1 x2 x4 = x4 := by
  unfold clampX4
  rw [rmin_eq_min, rmax_eq_max, if_neg (not_lt.mpr h1), if_neg (not_lt.mpr h2)]

/-! ### one pass through the loop body -/

/-- a bracket with a sign change, inside `[lo, hi]` -/
def Br (f : Rat → Option Rat) (lo hi x1 x2 f1 f2 : Rat) : Prop :=
  f x1 = some f1 ∧ f x2 = some f2 ∧ f1 * f2 < 0 ∧ lo ≤ x1 ∧ x1 ≤ hi ∧ lo ≤ x2 ∧ x2 ≤ hi

/-- `r` is an end of a bracket `[u,v] ⊆ [lo,hi]` with `f u · f v < 0`, not wider than `w`
    (strictly shorter when `strict`) -/
def Witness (f : Rat → Option Rat) (lo hi w : Rat) (strict : Bool) (r : Rat) : Prop :=
  ∃ u v fu fv : Rat, f u = some fu ∧ f v = some fv ∧ fu * fv < 0 ∧ (r = u ∨ r = v) ∧
    (if strict then |v - u| < w else |v - u| ≤ w) ∧ lo ≤ u ∧ u ≤ hi ∧ lo ≤ v ∧ v ≤ hi

def StepPost (f : Rat → Option Rat) (lo hi acc x1 x2 : Rat) : Step → Prop
  | .done o ev => (∀ x ∈ ev, lo ≤ x ∧ x ≤ hi) ∧
      (o = .nanInside ∨ ∃ r, o = .root r ∧ lo ≤ r ∧ r ≤ hi ∧ (f r = some 0 ∨ Witness f lo hi acc true r))
  | .next y1 y2 g1 g2 r ev => (∀ x ∈ ev, lo ≤ x ∧ x ≤ hi) ∧ Br f lo hi y1 y2 g1 g2 ∧
      |y2 - y1| ≤ |x2 - x1| / 2 ∧ (r = y1 ∨ r = y2)

theorem step_spec (f : Rat → Option Rat) (sq : Rat → Rat) (hsq : SqOK sq) (lo hi acc x1 x2 f1 f2 : Rat)
    (hbr : Br f lo hi x1 x2 f1 f2) : StepPost f lo hi acc x1 x2 (step f sq id acc x1 x2 f1 f2) := by
  obtain ⟨hf1, hf2, hsc, hl1, hh1, hl2, hh2⟩ := hbr
  unfold step
  simp only []
  split
  · -- f x3 = NaN
    rename_i h3
    have g := x4_geometry lo hi x1 x2 0 (by norm_num) (by norm_num) hl1 hh1 hl2 hh2
    refine ⟨?_, Or.inl rfl⟩
    intro x hx
    simp only [List.mem_cons, List.not_mem_nil, or_false] at hx
    subst hx; exact ⟨g.1, g.2.1⟩
  · rename_i f3 h3
    rw [ridderX4_id]
    obtain ⟨ht1, ht2, htneg, htpos⟩ := ridderT_bounds sq hsq f1 f2 f3 hsc
    have g0 := x4_geometry (min x1 x2) (max x1 x2) x1 x2 (ridderT sq f1 f2 f3) ht1 ht2
      (min_le_left _ _) (le_max_left _ _) (min_le_right _ _) (le_max_right _ _)
    simp only [] at g0
    rw [clampX4_of_mem x1 x2 _ g0.2.2.1 g0.2.2.2.1]
    have g := x4_geometry lo hi x1 x2 (ridderT sq f1 f2 f3) ht1 ht2 hl1 hh1 hl2 hh2
    simp only [] at g
    obtain ⟨g3l, g3h, g4l, g4h, gw3, gw1, gw2⟩ := g
    have hev : ∀ x ∈ [(x1 + x2) / 2, (x1 + x2) / 2 + ((x1 + x2) / 2 - x1) * ridderT sq f1 f2 f3], lo ≤ x ∧ x ≤ hi := by
      intro x hx
      simp only [List.mem_cons, List.not_mem_nil, or_false] at hx
      rcases hx with rfl | rfl
      · exact ⟨g3l, g3h⟩
      · exact ⟨g4l, g4h⟩
    split
    · exact ⟨hev, Or.inl rfl⟩
    · rename_i f4 h4
      by_cases hz : f4 = 0
      · rw [if_pos hz]
        subst hz
        exact ⟨hev, Or.inr ⟨_, rfl, g4l, g4h, Or.inl h4⟩⟩
      · rw [if_neg hz]
        -- the generic conclusion for a new bracket (y1,y2,g1,g2) one of whose ends is x4
        have fin : ∀ y1 y2 g1 g2 : Rat, Br f lo hi y1 y2 g1 g2 →
            |y2 - y1| ≤ |x2 - x1| / 2 →
            ((x1 + x2) / 2 + ((x1 + x2) / 2 - x1) * ridderT sq f1 f2 f3 = y1 ∨
              (x1 + x2) / 2 + ((x1 + x2) / 2 - x1) * ridderT sq f1 f2 f3 = y2) →
            StepPost f lo hi acc x1 x2
              (if Lp.rabs (y2 - y1) < acc then
                Step.done (.root ((x1 + x2) / 2 + ((x1 + x2) / 2 - x1) * ridderT sq f1 f2 f3))
                  [(x1 + x2) / 2, (x1 + x2) / 2 + ((x1 + x2) / 2 - x1) * ridderT sq f1 f2 f3]
              else Step.next y1 y2 g1 g2 ((x1 + x2) / 2 + ((x1 + x2) / 2 - x1) * ridderT sq f1 f2 f3)
                  [(x1 + x2) / 2, (x1 + x2) / 2 + ((x1 + x2) / 2 - x1) * ridderT sq f1 f2 f3]) := by
          intro y1 y2 g1 g2 hb hw hend
          by_cases hacc : Lp.rabs (y2 - y1) < acc
          · rw [if_pos hacc]
            rw [rabs_eq_abs] at hacc
            obtain ⟨b1, b2, b3, b4, b5, b6, b7⟩ := hb
            refine ⟨hev, Or.inr ⟨_, rfl, g4l, g4h, Or.inr ⟨y1, y2, g1, g2, b1, b2, b3, hend, ?_, b4, b5, b6, b7⟩⟩⟩
            simpa using hacc
          · rw [if_neg hacc]
            exact ⟨hev, hb, hw, hend⟩
        unfold rebracket
        by_cases ha : sign2 f3 f4 ≠ f3
        · rw [if_pos ha]
          have h34 := (sign2_ne_iff f3 f4 hz).mp ha
          refine fin _ _ f3 f4 ⟨h3, h4, h34, g3l, g3h, g4l, g4h⟩ gw3 (Or.inr rfl)
        · rw [if_neg ha]
          have h34 : ¬ f3 * f4 < 0 := fun h => ha ((sign2_ne_iff f3 f4 hz).mpr h)
          by_cases hb : sign2 f1 f4 ≠ f1
          · rw [if_pos hb]
            have h14 := (sign2_ne_iff f1 f4 hz).mp hb
            -- f1·f3 ≤ 0, hence t ≤ 0
            have h13 : f1 * f3 ≤ 0 := by
              by_contra hn; push Not at hn
              have : 0 < (f1 * f3) * (f4 * f4) := mul_pos hn (mul_self_pos.mpr hz)
              have : (f1 * f4) * (f3 * f4) = (f1 * f3) * (f4 * f4) := by ring
              push Not at h34
              nlinarith
            refine fin _ _ f1 f4 ⟨hf1, h4, h14, hl1, hh1, g4l, g4h⟩ (gw1 (htneg h13)) (Or.inr rfl)
          · rw [if_neg hb]
            have h14 : ¬ f1 * f4 < 0 := fun h => hb ((sign2_ne_iff f1 f4 hz).mpr h)
            -- f1·f4 > 0 (both nonzero), so f2·f4 < 0: branch c is taken
            have hf1ne : f1 ≠ 0 := by rintro rfl; simp at hsc
            have h14p : 0 < f1 * f4 := lt_of_le_of_ne (not_lt.mp h14) (Ne.symm (mul_ne_zero hf1ne hz))
            have h24 : f2 * f4 < 0 := by
              have : (f1 * f4) * (f2 * f4) = (f1 * f2) * (f4 * f4) := by ring
              have h44 : 0 < f4 * f4 := mul_self_pos.mpr hz
              by_contra hn; push Not at hn
              nlinarith [mul_nonneg (le_of_lt h14p) hn, mul_neg_of_neg_of_pos hsc h44]
            have hc : sign2 f2 f4 ≠ f2 := (sign2_ne_iff f2 f4 hz).mpr h24
            rw [if_pos hc]
            have h13 : 0 ≤ f1 * f3 := by
              push Not at h34
              by_contra hn; push Not at hn
              have : (f1 * f4) * (f3 * f4) = (f1 * f3) * (f4 * f4) := by ring
              have h44 : 0 < f4 * f4 := mul_self_pos.mpr hz
              nlinarith [mul_nonneg (le_of_lt h14p) h34, mul_neg_of_neg_of_pos hn h44]
            have hbr' : Br f lo hi ((x1 + x2) / 2 + ((x1 + x2) / 2 - x1) * ridderT sq f1 f2 f3) x2 f4 f2 :=
              ⟨h4, hf2, by linarith [mul_comm f2 f4], g4l, g4h, hl2, hh2⟩
            exact fin _ _ f4 f2 hbr' (gw2 (htpos h13)) (Or.inl rfl)

/-! ### containment for every square root and every rounding -/

/-- both ends of the bracket inside `[lo, hi]` (no sign condition) -/
def InHull (lo hi x1 x2 : Rat) : Prop := lo ≤ x1 ∧ x1 ≤ hi ∧ lo ≤ x2 ∧ x2 ≤ hi

def StepHull (lo hi : Rat) : Step → Prop
  | .done _ ev => ∀ x ∈ ev, lo ≤ x ∧ x ≤ hi
  | .next y1 y2 _ _ r ev => (∀ x ∈ ev, lo ≤ x ∧ x ≤ hi) ∧ InHull lo hi y1 y2 ∧ lo ≤ r ∧ r ≤ hi

theorem step_hull (f : Rat → Option Rat) (sq rnd : Rat → Rat) (lo hi acc x1 x2 f1 f2 : Rat)
    (hin : InHull lo hi x1 x2) : StepHull lo hi (step f sq rnd acc x1 x2 f1 f2) := by
  obtain ⟨hl1, hh1, hl2, hh2⟩ := hin
  have h3 : lo ≤ (x1 + x2) / 2 ∧ (x1 + x2) / 2 ≤ hi := by constructor <;> linarith
  have hmin : lo ≤ min x1 x2 := le_min hl1 hl2
  have hmax : max x1 x2 ≤ hi := max_le hh1 hh2
  unfold step
  simp only []
  split
  · intro x hx
    simp only [List.mem_cons, List.not_mem_nil, or_false] at hx
    subst hx; exact h3
  · rename_i f3 _
    have hc := clampX4_mem x1 x2 (ridderX4 sq rnd x1 f1 f2 ((x1 + x2) / 2) f3)
    have h4 : lo ≤ clampX4 x1 x2 (ridderX4 sq rnd x1 f1 f2 ((x1 + x2) / 2) f3) ∧
        clampX4 x1 x2 (ridderX4 sq rnd x1 f1 f2 ((x1 + x2) / 2) f3) ≤ hi :=
      ⟨le_trans hmin hc.1, le_trans hc.2 hmax⟩
    have hev : ∀ x ∈ [(x1 + x2) / 2, clampX4 x1 x2 (ridderX4 sq rnd x1 f1 f2 ((x1 + x2) / 2) f3)], lo ≤ x ∧ x ≤ hi := by
      intro x hx
      simp only [List.mem_cons, List.not_mem_nil, or_false] at hx
      rcases hx with rfl | rfl
      · exact h3
      · exact h4
    split
    · exact hev
    · rename_i f4 _
      by_cases hz : f4 = 0
      · rw [if_pos hz]; exact hev
      · rw [if_neg hz]
        unfold rebracket
        by_cases ha : sign2 f3 f4 ≠ f3
        · rw [if_pos ha]; simp only []
          split
          · exact hev
          · exact ⟨hev, ⟨h3.1, h3.2, h4.1, h4.2⟩, h4.1, h4.2⟩
        · rw [if_neg ha]
          by_cases hb : sign2 f1 f4 ≠ f1
          · rw [if_pos hb]; simp only []
            split
            · exact hev
            · exact ⟨hev, ⟨hl1, hh1, h4.1, h4.2⟩, h4.1, h4.2⟩
          · rw [if_neg hb]
            by_cases hc' : sign2 f2 f4 ≠ f2
            · rw [if_pos hc']; simp only []
              split
              · exact hev
              · exact ⟨hev, ⟨h4.1, h4.2, hl2, hh2⟩, h4.1, h4.2⟩
            · rw [if_neg hc']; exact hev

theorem loop_hull (f : Rat → Option Rat) (sq rnd : Rat → Rat) (lo hi acc : Rat) (n : Nat) :
    ∀ x1 x2 f1 f2 res : Rat, InHull lo hi x1 x2 → (n = 0 → lo ≤ res ∧ res ≤ hi) →
      ∀ x ∈ (loop f sq rnd acc n x1 x2 f1 f2 res).evals, lo ≤ x ∧ x ≤ hi := by
  induction n with
  | zero =>
    intro x1 x2 f1 f2 res _ hres x hx
    rw [loop] at hx
    simp only [List.mem_cons, List.not_mem_nil, or_false] at hx
    subst hx; exact hres rfl
  | succ n ih =>
    intro x1 x2 f1 f2 res hin _ x hx
    have hs := step_hull f sq rnd lo hi acc x1 x2 f1 f2 hin
    rw [loop] at hx
    generalize step f sq rnd acc x1 x2 f1 f2 = st at hs hx
    cases st with
    | done o ev => exact hs x hx
    | next y1 y2 g1 g2 r ev =>
      obtain ⟨hev, hin', hr⟩ := hs
      simp only [List.mem_append] at hx
      rcases hx with hx | hx
      · exact hev x hx
      · exact ih y1 y2 g1 g2 r hin' (fun _ => hr) x hx

end Lp.C02
