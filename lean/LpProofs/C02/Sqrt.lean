/-
  The driver's square root `Lp.C02.sqrtRat` (LpModel/C02.lean) meets the hypotheses the C02 theorems
  put on their `sq` parameter: `SqOK sqrtRat` (positive and rounded UP: `y ≤ sq y · sq y`) and
  exactness on squares (`sqrtRat (t·t) = |t|`, the hypothesis of `findRoot_linear_exact`).
-/
import LpProofs.C02.Lemmas
import Mathlib.Data.Nat.Sqrt
import Mathlib.Data.Rat.Lemmas
namespace Lp.C02

theorem pow2_pos' (k : Int) : 0 < Lp.pow2 k := by unfold Lp.pow2; exact zpow_pos (by norm_num) k

theorem pow2_double (k : Int) : Lp.pow2 (2 * k) = Lp.pow2 k * Lp.pow2 k := by
  unfold Lp.pow2; rw [two_mul, zpow_add₀ (by norm_num)]

/-- the exact branch: numerator and denominator are perfect squares -/
theorem sqrt_exact_branch (y : Rat) (hy : 0 < y) (sn sd : Nat) (hn : sn * sn = y.num.toNat) (hd : sd * sd = y.den) :
    0 < mkRat sn sd ∧ mkRat sn sd * mkRat sn sd = y := by
  have hnum : 0 < y.num := Rat.num_pos.mpr hy
  have hsd : sd ≠ 0 := by
    rintro rfl
    have := y.den_pos
    omega
  have hsn : sn ≠ 0 := by
    rintro rfl
    have : y.num.toNat = 0 := by omega
    omega
  have hsdQ : (0 : Rat) < (sd : Rat) := by exact_mod_cast Nat.pos_of_ne_zero hsd
  have hsnQ : (0 : Rat) < (sn : Rat) := by exact_mod_cast Nat.pos_of_ne_zero hsn
  have e : mkRat (sn : Int) sd = (sn : Rat) / (sd : Rat) := by
    rw [Rat.mkRat_eq_div]; push_cast; rfl
  rw [e]
  refine ⟨div_pos hsnQ hsdQ, ?_⟩
  have hyd : y = (y.num : Rat) / (y.den : Rat) := (Rat.num_div_den y).symm
  have hnQ : (y.num : Rat) = (sn : Rat) * (sn : Rat) := by
    have : (y.num.toNat : Int) = y.num := Int.toNat_of_nonneg (le_of_lt hnum)
    have h2 : ((sn * sn : Nat) : Int) = y.num := by rw [hn]; exact this
    have h3 : (((sn * sn : Nat) : Int) : Rat) = (y.num : Rat) := by rw [h2]
    rw [← h3]; push_cast; ring
  have hdQ : (y.den : Rat) = (sd : Rat) * (sd : Rat) := by
    rw [← hd]; push_cast; ring
  rw [hyd, hnQ, hdQ, div_mul_div_comm]

/-- the rounded branch: `⌊√⌊y·4^k⌋⌋ + 1` over `2^k` lies strictly above the square root, for every scaling `k` -/
theorem sqrt_round_branch (y : Rat) (hy : 0 < y) (k : Int) :
    0 < ((Nat.sqrt (y * Lp.pow2 (2 * k)).floor.toNat + 1 : Nat) : Rat) / Lp.pow2 k ∧
    y < ((Nat.sqrt (y * Lp.pow2 (2 * k)).floor.toNat + 1 : Nat) : Rat) / Lp.pow2 k *
        (((Nat.sqrt (y * Lp.pow2 (2 * k)).floor.toNat + 1 : Nat) : Rat) / Lp.pow2 k) := by
  have hP := pow2_pos' k
  set t := y * Lp.pow2 (2 * k) with ht
  have htpos : 0 < t := mul_pos hy (pow2_pos' _)
  have hfl0 : (0 : Int) ≤ t.floor := Rat.le_floor_iff.mpr (by simpa using le_of_lt htpos)
  set m := t.floor.toNat with hm
  have hmI : (m : Int) = t.floor := Int.toNat_of_nonneg hfl0
  have hlt : t < (m : Rat) + 1 := by
    have h := Rat.lt_floor_add_one t
    rw [← hmI] at h
    push_cast at h
    exact h
  set s := Nat.sqrt m with hs
  have hN : m + 1 ≤ (s + 1) * (s + 1) := Nat.succ_le_succ_sqrt m
  have hQ : (m : Rat) + 1 ≤ ((s + 1 : Nat) : Rat) * ((s + 1 : Nat) : Rat) := by exact_mod_cast hN
  have hS : (0 : Rat) < ((s + 1 : Nat) : Rat) := by exact_mod_cast Nat.succ_pos s
  refine ⟨div_pos hS hP, ?_⟩
  rw [div_mul_div_comm, lt_div_iff₀ (mul_pos hP hP), ← pow2_double]
  linarith

/-- **the driver's square root satisfies `SqOK`**: positive, and rounded up -/
theorem sqrtRat_SqOK : SqOK sqrtRat := by
  intro y hy
  simp only [sqrtRat]
  rw [if_neg (not_le.mpr hy)]
  split_ifs with h
  · obtain ⟨a, b⟩ := sqrt_exact_branch y hy _ _ h.1 h.2
    exact ⟨a, le_of_eq b.symm⟩
  · obtain ⟨a, b⟩ := sqrt_round_branch y hy (256 - ((Nat.log2 y.num.toNat : Int) - (Nat.log2 y.den : Int)) / 2)
    exact ⟨a, le_of_lt b⟩

/-- it never rounds down, and is exact precisely when it takes the exact branch: `y = sq y · sq y`
    whenever numerator and denominator of `y` are perfect squares -/
theorem sqrtRat_exact_on_squares (t : Rat) : sqrtRat (t * t) = |t| := by
  rcases eq_or_ne t 0 with rfl | ht
  · simp [sqrtRat]
  have hpos : 0 < t * t := mul_self_pos.mpr ht
  simp only [sqrtRat]
  rw [if_neg (not_le.mpr hpos)]
  have hn : (t * t).num.toNat = t.num.natAbs * t.num.natAbs := by
    rw [Rat.mul_self_num]
    have : t.num * t.num = ((t.num.natAbs * t.num.natAbs : Nat) : Int) := by
      push_cast; rw [← abs_mul_abs_self t.num, Int.abs_eq_natAbs]
    rw [this, Int.toNat_natCast]
  have hd : (t * t).den = t.den * t.den := Rat.mul_self_den t
  rw [hn, hd, Nat.sqrt_eq, Nat.sqrt_eq, if_pos ⟨rfl, rfl⟩]
  rw [Rat.mkRat_eq_div]
  have hden : (0 : Rat) < (t.den : Rat) := by exact_mod_cast t.den_pos
  conv_rhs => rw [← Rat.num_div_den t]
  rw [abs_div, abs_of_pos hden]
  congr 1
  push_cast
  first | exact Int.cast_abs | exact Int.cast_abs.symm | norm_cast

end Lp.C02
