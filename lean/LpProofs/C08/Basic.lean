/-
  Helper lemmas for C08: `rmin`/`rmax` folds, the linear fold of `Integrate`.
-/
import LpProofs.C09.Object
import Mathlib.Tactic.Ring
import Mathlib.Tactic.Linarith
namespace Lp.C08
open Lp Lp.Interp Lp.C09

theorem rmin_le_left (a b : Rat) : rmin a b ≤ a := by unfold rmin; split <;> linarith
theorem rmin_le_right (a b : Rat) : rmin a b ≤ b := by unfold rmin; split <;> linarith
theorem le_rmax_left (a b : Rat) : a ≤ rmax a b := by unfold rmax; split <;> linarith
theorem le_rmax_right (a b : Rat) : b ≤ rmax a b := by unfold rmax; split <;> linarith
theorem rmin_mem (a b : Rat) : rmin a b = a ∨ rmin a b = b := by unfold rmin; split <;> simp
theorem rmax_mem (a b : Rat) : rmax a b = a ∨ rmax a b = b := by unfold rmax; split <;> simp
theorem le_rmin {a b c : Rat} (h1 : c ≤ a) (h2 : c ≤ b) : c ≤ rmin a b := by unfold rmin; split <;> assumption
theorem rmax_le {a b c : Rat} (h1 : a ≤ c) (h2 : b ≤ c) : rmax a b ≤ c := by unfold rmax; split <;> assumption

theorem foldl_rmin_le : ∀ (l : List Rat) (a : Rat), l.foldl rmin a ≤ a ∧ ∀ v ∈ l, l.foldl rmin a ≤ v
  | [], a => ⟨le_refl _, fun _ h => by cases h⟩
  | b :: t, a => by
    obtain ⟨h1, h2⟩ := foldl_rmin_le t (rmin a b)
    refine ⟨le_trans h1 (rmin_le_left a b), fun v hv => ?_⟩
    rcases List.mem_cons.mp hv with hv | hv
    · rw [hv]; exact le_trans h1 (rmin_le_right a b)
    · exact h2 v hv

theorem le_foldl_rmax : ∀ (l : List Rat) (a : Rat), a ≤ l.foldl rmax a ∧ ∀ v ∈ l, v ≤ l.foldl rmax a
  | [], a => ⟨le_refl _, fun _ h => by cases h⟩
  | b :: t, a => by
    obtain ⟨h1, h2⟩ := le_foldl_rmax t (rmax a b)
    refine ⟨le_trans (le_rmax_left a b) h1, fun v hv => ?_⟩
    rcases List.mem_cons.mp hv with hv | hv
    · rw [hv]; exact le_trans (le_rmax_right a b) h1
    · exact h2 v hv

theorem listMin_le (l : List Rat) (d v : Rat) (hv : v ∈ l) : listMin l d ≤ v :=
  (foldl_rmin_le l (l.headD d)).2 v hv

theorem le_listMax (l : List Rat) (d v : Rat) (hv : v ∈ l) : v ≤ listMax l d :=
  (le_foldl_rmax l (l.headD d)).2 v hv

theorem listMin_le_listMax (l : List Rat) (d : Rat) : listMin l d ≤ listMax l d := by
  cases l with
  | nil => exact le_refl _
  | cons a t =>
    exact le_trans (foldl_rmin_le (a :: t) a).1 (le_foldl_rmax (a :: t) a).1

/-- the fold is attained: on a non-empty list it is a member -/
theorem foldl_rmin_mem : ∀ (l : List Rat) (a : Rat), l.foldl rmin a = a ∨ l.foldl rmin a ∈ l
  | [], a => Or.inl rfl
  | b :: t, a => by
    rcases foldl_rmin_mem t (rmin a b) with h | h
    · rcases rmin_mem a b with e | e
      · left; show t.foldl rmin (rmin a b) = a; rw [h, e]
      · right; show t.foldl rmin (rmin a b) ∈ b :: t; rw [h, e]; exact List.mem_cons_self
    · right; exact List.mem_cons_of_mem _ h

theorem foldl_rmax_mem : ∀ (l : List Rat) (a : Rat), l.foldl rmax a = a ∨ l.foldl rmax a ∈ l
  | [], a => Or.inl rfl
  | b :: t, a => by
    rcases foldl_rmax_mem t (rmax a b) with h | h
    · rcases rmax_mem a b with e | e
      · left; show t.foldl rmax (rmax a b) = a; rw [h, e]
      · right; show t.foldl rmax (rmax a b) ∈ b :: t; rw [h, e]; exact List.mem_cons_self
    · right; exact List.mem_cons_of_mem _ h

theorem listMin_mem (a : Rat) (t : List Rat) (d : Rat) : listMin (a :: t) d ∈ a :: t := by
  rcases foldl_rmin_mem (a :: t) a with h | h
  · show (a :: t).foldl rmin a ∈ a :: t; rw [h]; exact List.mem_cons_self
  · exact h

theorem listMax_mem (a : Rat) (t : List Rat) (d : Rat) : listMax (a :: t) d ∈ a :: t := by
  rcases foldl_rmax_mem (a :: t) a with h | h
  · show (a :: t).foldl rmax a ∈ a :: t; rw [h]; exact List.mem_cons_self
  · exact h

/-- scaled extrema: for `mn ≤ v ≤ mx`, `p·v` lies between `min(p·mn, p·mx)` and `max(p·mn, p·mx)`, either sign of `p` -/
theorem scaled_between (p mn mx v : Rat) (h1 : mn ≤ v) (h2 : v ≤ mx) :
    rmin (p * mn) (p * mx) ≤ p * v ∧ p * v ≤ rmax (p * mn) (p * mx) := by
  rcases le_total 0 p with hp | hp
  · exact ⟨le_trans (rmin_le_left _ _) (mul_le_mul_of_nonneg_left h1 hp),
      le_trans (mul_le_mul_of_nonneg_left h2 hp) (le_rmax_right _ _)⟩
  · exact ⟨le_trans (rmin_le_right _ _) (mul_le_mul_of_nonpos_left h2 hp),
      le_trans (mul_le_mul_of_nonpos_left h1 hp) (le_rmax_left _ _)⟩

/-- … and they are `p·mn`, `p·mx` for `p ≥ 0`, swapped for `p < 0` -/
theorem scaled_extrema (p mn mx : Rat) (h : mn ≤ mx) :
    (0 ≤ p → rmin (p * mn) (p * mx) = p * mn ∧ rmax (p * mn) (p * mx) = p * mx) ∧
    (p < 0 → rmin (p * mn) (p * mx) = p * mx ∧ rmax (p * mn) (p * mx) = p * mn) := by
  constructor
  · intro hp
    have : p * mn ≤ p * mx := mul_le_mul_of_nonneg_left h hp
    unfold rmin rmax
    constructor <;> split <;> first | rfl | linarith
  · intro hp
    have : p * mx ≤ p * mn := mul_le_mul_of_nonpos_left h (le_of_lt hp)
    unfold rmin rmax
    constructor <;> split <;> first | rfl | linarith

/-- a fold that adds `p·f i` is `p` times the fold that adds `f i` -/
theorem foldl_add_mul (p : Rat) (f : Nat → Rat) : ∀ (l : List Nat) (acc : Rat),
    l.foldl (fun a i => a + p * f i) (p * acc) = p * l.foldl (fun a i => a + f i) acc
  | [], acc => rfl
  | i :: t, acc => by
    show t.foldl (fun a i => a + p * f i) (p * acc + p * f i) = p * t.foldl (fun a i => a + f i) (acc + f i)
    rw [← mul_add]
    exact foldl_add_mul p f t (acc + f i)

end Lp.C08
