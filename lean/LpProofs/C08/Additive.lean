/-
  Helper lemmas for C08: the sum over segments that `Integrate` forms is the difference of ONE
  global antiderivative (`segSum_eq`, pure algebra), the index is monotone in the abscissa, hence
  `Integrate(a,b) = anti b − anti a` for all limits in the domain.
-/
import LpProofs.C08.Basic
namespace Lp.C08
open Lp Lp.Interp Lp.C09

/-- the stem function of segment `j` (with the prefactor) -/
def stemAt (o : Obj) (j : Nat) (X : Rat) : Rat :=
  o.pref * segStem (coefA o.N o.x o.y j) (coefB o.N o.x o.y j) (coefC o.N o.x o.y j) (coefD o.y j) (o.x j) X

/-- integral over the whole segment `j` -/
def full (o : Obj) (j : Nat) : Rat := stemAt o j (o.x (j + 1)) - stemAt o j (o.x j)

def sumTo (f : Nat → Rat) : Nat → Rat
  | 0 => 0
  | n + 1 => sumTo f n + f n

/-- integral from the first knot to knot `j` -/
def cum (o : Obj) (j : Nat) : Rat := sumTo (full o) j

/-- the global antiderivative at `v`, given the segment index `j` of `v` -/
def antiAt (o : Obj) (j : Nat) (v : Rat) : Rat := cum o j + (stemAt o j v - stemAt o j (o.x j))

/-- the antiderivative as a function of the abscissa alone -/
def anti (o : Obj) (v : Rat) : Rat :=
  match locateCanon o.N o.x v with
  | .ok j => antiAt o j v
  | .error _ => 0

theorem foldl_range_add (f : Nat → Rat) : ∀ n : Nat, (List.range n).foldl (fun acc i => acc + f i) 0 = sumTo f n
  | 0 => rfl
  | n + 1 => by
    rw [List.range_succ, List.foldl_append, foldl_range_add f n]
    rfl

theorem sumTo_congr {f g : Nat → Rat} : ∀ n : Nat, (∀ i, i < n → f i = g i) → sumTo f n = sumTo g n
  | 0, _ => rfl
  | n + 1, h => by
    show sumTo f n + f n = sumTo g n + g n
    rw [sumTo_congr n (fun i hi => h i (by omega)), h n (by omega)]

/-- the term of segment `i1+i` in `Integrate` -/
def tTerm (o : Obj) (i1 n : Nat) (lo hi : Rat) (i : Nat) : Rat :=
  stemAt o (i1 + i) (if i = n then hi else o.x (i1 + i + 1)) - stemAt o (i1 + i) (if i = 0 then lo else o.x (i1 + i))

theorem segSum_fold (o : Obj) (i1 n : Nat) (lo hi : Rat) :
    segSum o i1 n lo hi = sumTo (tTerm o i1 n lo hi) (n + 1) := by
  unfold segSum
  exact foldl_range_add (tTerm o i1 n lo hi) (n + 1)

/-- terms before the last one: the first starts at `lo`, the others are whole segments -/
def gTerm (o : Obj) (i1 : Nat) (lo : Rat) (i : Nat) : Rat :=
  stemAt o (i1 + i) (o.x (i1 + i + 1)) - stemAt o (i1 + i) (if i = 0 then lo else o.x (i1 + i))

theorem sumTo_gTerm (o : Obj) (i1 : Nat) (lo : Rat) : ∀ m : Nat,
    sumTo (gTerm o i1 lo) (m + 1) = cum o (i1 + m + 1) - cum o i1 - (stemAt o i1 lo - stemAt o i1 (o.x i1))
  | 0 => by
    show (0 : Rat) + gTerm o i1 lo 0 = (cum o i1 + full o i1) - cum o i1 - _
    unfold gTerm full
    simp only [if_true, Nat.add_zero]
    ring
  | m + 1 => by
    show sumTo (gTerm o i1 lo) (m + 1) + gTerm o i1 lo (m + 1) = (cum o (i1 + m + 1) + full o (i1 + m + 1)) - cum o i1 - _
    rw [sumTo_gTerm o i1 lo m]
    unfold gTerm full
    have : ¬ (m + 1 = 0) := by omega
    simp only [this, if_false]
    show _ + (stemAt o (i1 + m + 1) (o.x (i1 + m + 1 + 1)) - stemAt o (i1 + m + 1) (o.x (i1 + m + 1))) = _
    ring

/-- **the sum over segments is a difference of the global antiderivative** (all `i1 n lo hi`) -/
theorem segSum_eq (o : Obj) (i1 n : Nat) (lo hi : Rat) :
    segSum o i1 n lo hi = antiAt o (i1 + n) hi - antiAt o i1 lo := by
  rw [segSum_fold]
  cases n with
  | zero =>
    show (0 : Rat) + tTerm o i1 0 lo hi 0 = _
    unfold tTerm antiAt
    simp only [if_true, Nat.add_zero]
    ring
  | succ m =>
    show sumTo (tTerm o i1 (m + 1) lo hi) (m + 1) + tTerm o i1 (m + 1) lo hi (m + 1) = _
    have hc : sumTo (tTerm o i1 (m + 1) lo hi) (m + 1) = sumTo (gTerm o i1 lo) (m + 1) := by
      apply sumTo_congr
      intro i hi'
      unfold tTerm gTerm
      have : ¬ (i = m + 1) := by omega
      simp only [this, if_false]
    rw [hc, sumTo_gTerm o i1 lo m]
    unfold tTerm antiAt
    have h0 : ¬ (m + 1 = 0) := by omega
    simp only [h0, if_false, if_true]
    show _ + (stemAt o (i1 + m + 1) hi - stemAt o (i1 + m + 1) (o.x (i1 + m + 1))) =
      cum o (i1 + m + 1) + (stemAt o (i1 + m + 1) hi - stemAt o (i1 + m + 1) (o.x (i1 + m + 1))) - _
    ring

/-! ### prefactor -/

theorem stemAt_pref (o : Obj) (p : Rat) (j : Nat) (X : Rat) :
    stemAt { o with pref := p } j X = p * stemAt { o with pref := 1 } j X := by
  show p * _ = p * (1 * _)
  rw [one_mul]
  rfl

theorem full_pref (o : Obj) (p : Rat) (j : Nat) : full { o with pref := p } j = p * full { o with pref := 1 } j := by
  unfold full
  rw [stemAt_pref o p j, stemAt_pref o p j]
  show p * stemAt { o with pref := 1 } j (o.x (j + 1)) - p * stemAt { o with pref := 1 } j (o.x j) =
    p * (stemAt { o with pref := 1 } j (o.x (j + 1)) - stemAt { o with pref := 1 } j (o.x j))
  ring

theorem cum_pref (o : Obj) (p : Rat) : ∀ n : Nat, cum { o with pref := p } n = p * cum { o with pref := 1 } n
  | 0 => by show (0 : Rat) = p * 0; ring
  | n + 1 => by
    show cum { o with pref := p } n + full { o with pref := p } n = p * (cum { o with pref := 1 } n + full { o with pref := 1 } n)
    rw [cum_pref o p n, full_pref]
    ring

theorem antiAt_pref (o : Obj) (p : Rat) (j : Nat) (v : Rat) :
    antiAt { o with pref := p } j v = p * antiAt { o with pref := 1 } j v := by
  unfold antiAt
  rw [cum_pref, stemAt_pref o p j, stemAt_pref o p j]
  show p * cum { o with pref := 1 } j + (p * stemAt { o with pref := 1 } j v - p * stemAt { o with pref := 1 } j (o.x j)) =
    p * (cum { o with pref := 1 } j + (stemAt { o with pref := 1 } j v - stemAt { o with pref := 1 } j (o.x j)))
  ring

/-! ### the index is monotone, `Integrate` is `anti b − anti a` -/

theorem canon_mono {N : Nat} {x : Nat → Rat} (m : Mono N x) {a b : Rat} {i j : Nat}
    (ha : Canon N x a i) (hb : Canon N x b j) (hab : a ≤ b) : i ≤ j := by
  by_contra hc
  have hji : j < i := by omega
  obtain ⟨bi, li, _, _⟩ := ha
  obtain ⟨_, _, _, sj⟩ := hb
  have h1 : b < x (j + 1) := sj (by omega)
  have h2 : x (j + 1) ≤ x i := m.le (by omega) (by omega)
  linarith

theorem pInteg_eq_anti (o : Obj) (t : Tbl o) (a b : Rat)
    (ha : o.x 0 ≤ a ∧ a ≤ o.x (o.N - 1)) (hb : o.x 0 ≤ b ∧ b ≤ o.x (o.N - 1)) :
    pInteg o a b = .ok (anti o b - anti o a) := by
  obtain ⟨ia, ca, ea⟩ := locateCanon_in t.mono t.hN a (by intro c; rcases c with c | c <;> linarith [ha.1, ha.2])
  obtain ⟨ib, cb, eb⟩ := locateCanon_in t.mono t.hN b (by intro c; rcases c with c | c <;> linarith [hb.1, hb.2])
  unfold pInteg pIntegCore anti
  by_cases h : a > b
  · have hle : ib ≤ ia := canon_mono t.mono cb ca (le_of_lt h)
    simp only [h, if_true, ea, eb]
    rw [segSum_eq]
    have : ib + (ia - ib) = ia := by omega
    rw [this]
    congr 1
    ring
  · have hle : ia ≤ ib := canon_mono t.mono ca cb (le_of_not_gt h)
    simp only [h, if_false, ea, eb]
    rw [segSum_eq]
    have : ia + (ib - ia) = ib := by omega
    rw [this]
    congr 1
    ring

end Lp.C08
