/-
  Helper lemmas for C08: composition of C01 (each cubic piece is monotone between its knots), C09
  (which index `Locate` returns) and `extVal` (the candidates of `Local_Minimum/Maximum`):
  every curve value on `[x1,x2]` lies between the two results, also with limits in the 1 %
  extrapolation zone when the edge cubic is monotone between the limit and the end knot.
-/
import LpProofs.C01
import LpProofs.C08.Additive
import LpProofs.C09
namespace Lp.C08
open Lp Lp.Interp Lp.C09

-- the square root of `Stationary_Values` is a parameter (class `SqrtFn`): everything below holds for every instance
variable [SqrtFn]

/-! ### the three places a located abscissa can be -/

theorem strictInc_of_tbl {o : Obj} (t : Tbl o) : Lp.C01.StrictInc o.N o.x :=
  fun i hi => t.mono i (i + 1) (by omega) hi

/-- a located abscissa lies below the domain (index 0), in the domain (canonical bracket) or above
    it (index `N-2`) -/
theorem located_cases {o : Obj} (t : Tbl o) {v : Rat} {j : Nat} (h : locateCanon o.N o.x v = .ok j) :
    (v < o.x 0 ∧ j = 0) ∨ Canon o.N o.x v j ∨ (o.x (o.N - 1) < v ∧ j + 2 = o.N) := by
  have hN := t.hN
  by_cases hd : v < o.x 0 ∨ v > o.x (o.N - 1)
  · have h01 : o.x 0 < o.x 1 := t.mono 0 1 (by omega) (by omega)
    have hl : o.x (o.N - 2) < o.x (o.N - 1) := t.mono _ _ (by omega) (by omega)
    have h0l : o.x 0 ≤ o.x (o.N - 2) := t.mono.le (by omega) (by omega)
    have h1l : o.x 1 ≤ o.x (o.N - 1) := t.mono.le (by omega) (by omega)
    unfold locateCanon at h
    rw [locate_out o.N o.x _ v hd] at h
    unfold edgeIdx at h
    by_cases c1 : rabs (v - o.x 0) ≤ (1 : Rat) / 100 * (o.x 1 - o.x 0)
    · simp only [c1, if_true] at h
      have e : j = 0 := by injection h with h; exact h.symm
      rcases hd with hd | hd
      · exact Or.inl ⟨hd, e⟩
      · exfalso
        have c1' : rabs (v - o.x 0) ≤ (1 : Rat) / 100 * (o.x 1 - o.x 0) := c1
        unfold rabs at c1'
        split at c1' <;> linarith
    · simp only [c1, if_false] at h
      by_cases c2 : rabs (v - o.x (o.N - 1)) ≤ (1 : Rat) / 100 * (o.x (o.N - 1) - o.x (o.N - 2))
      · simp only [c2, if_true] at h
        have e : j = o.N - 2 := by injection h with h; exact h.symm
        rcases hd with hd | hd
        · exfalso
          have c2' : rabs (v - o.x (o.N - 1)) ≤ (1 : Rat) / 100 * (o.x (o.N - 1) - o.x (o.N - 2)) := c2
          unfold rabs at c2'
          split at c2' <;> linarith
        · exact Or.inr (Or.inr ⟨hd, by omega⟩)
      · simp only [c2, if_false] at h
        cases h
  · have hlo : o.x 0 ≤ v := le_of_not_gt (fun c => hd (Or.inl c))
    have hhi : v ≤ o.x (o.N - 1) := le_of_not_gt (fun c => hd (Or.inr c))
    exact Or.inr (Or.inl (locateCanon_canon t.mono t.hN hlo hhi h))

theorem located_bound {o : Obj} (t : Tbl o) {v : Rat} {j : Nat} (h : locateCanon o.N o.x v = .ok j) : j + 2 ≤ o.N :=
  locateCanon_bound t.mono t.hN h

/-- a canonical bracket is what `locateCanon` returns -/
theorem canon_located {o : Obj} (t : Tbl o) {v : Rat} {j : Nat} (hc : Canon o.N o.x v j) :
    locateCanon o.N o.x v = .ok j := by
  have hN := t.hN
  have hc0 := hc
  obtain ⟨b, l, r, _⟩ := hc
  have hlo : o.x 0 ≤ v := le_trans (t.mono.le (Nat.zero_le j) (by omega)) l
  have hhi : v ≤ o.x (o.N - 1) := le_trans r (t.mono.le (by omega) (by omega))
  obtain ⟨j', hc', he⟩ := locateCanon_in t.mono t.hN v (by intro c; rcases c with c | c <;> linarith)
  rw [he, Canon.unique t.mono hc' hc0]

/-- in the domain every abscissa is located -/
theorem located_of_domain {o : Obj} (t : Tbl o) {v : Rat} (hlo : o.x 0 ≤ v) (hhi : v ≤ o.x (o.N - 1)) :
    ∃ j, Canon o.N o.x v j ∧ locateCanon o.N o.x v = .ok j :=
  locateCanon_in t.mono t.hN v (by intro c; rcases c with c | c <;> linarith)

/-- the canonical bracket of a knot `k ≤ N-2` is `k`; the last knot belongs to interval `N-2` -/
theorem canon_knot {o : Obj} (t : Tbl o) {k : Nat} (hk : k + 2 ≤ o.N) : Canon o.N o.x (o.x k) k :=
  ⟨hk, le_refl _, le_of_lt (t.mono k (k + 1) (by omega) (by omega)), fun _ => t.mono k (k + 1) (by omega) (by omega)⟩

theorem canon_last {o : Obj} (t : Tbl o) : Canon o.N o.x (o.x (o.N - 1)) (o.N - 2) := by
  have hN := t.hN
  have e : o.N - 2 + 1 = o.N - 1 := by omega
  refine ⟨by omega, ?_, ?_, fun h => by omega⟩
  · exact t.mono.le (by omega) (by omega)
  · rw [e]

/-- the located index is monotone in the abscissa (also across the extrapolation zones) -/
theorem located_mono {o : Obj} (t : Tbl o) {a b : Rat} {i j : Nat}
    (ha : locateCanon o.N o.x a = .ok i) (hb : locateCanon o.N o.x b = .ok j) (hab : a ≤ b) : i ≤ j := by
  have hN := t.hN
  have bj := located_bound t hb
  rcases located_cases t ha with ⟨_, e⟩ | ca | ⟨a1, e⟩
  · omega
  · rcases located_cases t hb with ⟨b1, _⟩ | cb | ⟨_, e'⟩
    · exfalso
      have : o.x 0 ≤ o.x i := t.mono.le (Nat.zero_le i) (by have := ca.1; omega)
      linarith [ca.2.1]
    · exact canon_mono t.mono ca cb hab
    · have := ca.1; omega
  · rcases located_cases t hb with ⟨b1, _⟩ | cb | ⟨_, e'⟩
    · exfalso
      have : o.x 0 ≤ o.x (o.N - 1) := t.mono.le (Nat.zero_le _) (by omega)
      linarith
    · exfalso
      have : o.x (j + 1) ≤ o.x (o.N - 1) := t.mono.le (by have := cb.1; omega) (by omega)
      linarith [cb.2.2.1]
    · omega

/-! ### the candidates of `Local_Minimum/Maximum` -/

/-- the knot `k` of the candidate range is a member of `knotValues first last` -/
theorem knot_mem (o : Obj) (first last k : Nat) (h1 : first ≤ k) (h2 : k ≤ last) :
    o.y k ∈ o.knotValues first last := by
  unfold Obj.knotValues
  refine List.mem_map.mpr ⟨k - first, List.mem_range.mpr (by omega), ?_⟩
  congr 1; omega

theorem mem_knotValues (o : Obj) (first last : Nat) (v : Rat) (h : v ∈ o.knotValues first last) :
    ∃ k, first ≤ k ∧ k ≤ last ∧ v = o.y k := by
  unfold Obj.knotValues at h
  obtain ⟨k, hk, e⟩ := List.mem_map.mp h
  have := List.mem_range.mp hk
  exact ⟨first + k, by omega, by omega, e.symm⟩

/-- first and last candidate knot of `Local_*` -/
def firstK (o : Obj) (v1 v2 : Rat) (i1 : Nat) : Nat := if v1 < o.x 0 ∧ v2 ≥ o.x 0 then i1 else i1 + 1
def lastK (o : Obj) (v1 v2 : Rat) (i2 : Nat) : Nat := if v2 > o.x (o.N - 1) ∧ v1 ≤ o.x (o.N - 1) then i2 + 1 else i2

/-- stationary values of the continued edge cubics that `Local_*` considers (empty unless a limit is extrapolated) -/
def statL (o : Obj) (v1 v2 : Rat) : List Rat := if v1 < o.x 0 then o.stationaryValues 0 v1 (rmin v2 (o.x 0)) else []
def statR (o : Obj) (v1 v2 : Rat) : List Rat :=
  if v2 > o.x (o.N - 1) then o.stationaryValues (o.N - 2) (rmax v1 (o.x (o.N - 1))) v2 else []

/-- the value before the stationary values are folded in: end values and knots -/
def extKnots (o : Obj) (isMax : Bool) (first last : Nat) (fl fr : Rat) : Rat :=
  let pick := if isMax then rmax else rmin
  if first ≤ last then
    pick (pick (pick fl fr) (o.pref * listMin (o.knotValues first last) 0)) (o.pref * listMax (o.knotValues first last) 0)
  else pick fl fr

theorem extVal_eq (o : Obj) (isMax : Bool) (v1 v2 fl fr : Rat) (i1 i2 : Nat) :
    extVal o isMax v1 v2 fl fr i1 i2 =
      (statR o v1 v2).foldl (if isMax then rmax else rmin)
        ((statL o v1 v2).foldl (if isMax then rmax else rmin) (extKnots o isMax (firstK o v1 v2 i1) (lastK o v1 v2 i2) fl fr)) := by
  unfold extVal Obj.extValue statL statR extKnots firstK lastK
  simp only
  by_cases hl : v1 < o.x 0 <;> by_cases hr : v2 > o.x (o.N - 1) <;> simp only [hl, hr, if_true, if_false, List.foldl_nil]

theorem extKnots_candidates (o : Obj) (first last : Nat) (fl fr : Rat) :
    extKnots o false first last fl fr ≤ fl ∧ extKnots o false first last fl fr ≤ fr ∧
    fl ≤ extKnots o true first last fl fr ∧ fr ≤ extKnots o true first last fl fr ∧
    ∀ k, first ≤ k → k ≤ last →
      extKnots o false first last fl fr ≤ o.pref * o.y k ∧ o.pref * o.y k ≤ extKnots o true first last fl fr := by
  unfold extKnots
  simp only [Bool.false_eq_true, if_false, if_true]
  by_cases h : first ≤ last
  · simp only [h, if_true]
    refine ⟨le_trans (rmin_le_left _ _) (le_trans (rmin_le_left _ _) (rmin_le_left _ _)),
      le_trans (rmin_le_left _ _) (le_trans (rmin_le_left _ _) (rmin_le_right _ _)),
      le_trans (le_trans (le_rmax_left _ _) (le_rmax_left _ _)) (le_rmax_left _ _),
      le_trans (le_trans (le_rmax_right _ _) (le_rmax_left _ _)) (le_rmax_left _ _), fun k a b => ?_⟩
    have hm := knot_mem o first last k a b
    obtain ⟨s1, s2⟩ := scaled_between o.pref _ _ (o.y k) (listMin_le _ 0 _ hm) (le_listMax _ 0 _ hm)
    constructor
    · refine le_trans ?_ s1
      apply le_rmin
      · exact le_trans (rmin_le_left _ _) (rmin_le_right _ _)
      · exact rmin_le_right _ _
    · refine le_trans s2 ?_
      apply rmax_le
      · exact le_trans (le_rmax_right _ _) (le_rmax_left _ _)
      · exact le_rmax_right _ _
  · simp only [h, if_false]
    exact ⟨rmin_le_left _ _, rmin_le_right _ _, le_rmax_left _ _, le_rmax_right _ _, fun k a b => absurd (le_trans a b) h⟩

theorem extVal_le_knots (o : Obj) (v1 v2 fl fr : Rat) (i1 i2 : Nat) :
    extVal o false v1 v2 fl fr i1 i2 ≤ extKnots o false (firstK o v1 v2 i1) (lastK o v1 v2 i2) fl fr ∧
    extKnots o true (firstK o v1 v2 i1) (lastK o v1 v2 i2) fl fr ≤ extVal o true v1 v2 fl fr i1 i2 := by
  rw [extVal_eq, extVal_eq]
  simp only [Bool.false_eq_true, if_false, if_true]
  exact ⟨le_trans (foldl_rmin_le _ _).1 (foldl_rmin_le _ _).1, le_trans (le_foldl_rmax _ _).1 (le_foldl_rmax _ _).1⟩

/-- `Local_Minimum` is a lower bound of, `Local_Maximum` an upper bound of, every candidate: end values and knots … -/
theorem extVal_candidates (o : Obj) (v1 v2 fl fr : Rat) (i1 i2 : Nat) :
    extVal o false v1 v2 fl fr i1 i2 ≤ fl ∧ extVal o false v1 v2 fl fr i1 i2 ≤ fr ∧
    fl ≤ extVal o true v1 v2 fl fr i1 i2 ∧ fr ≤ extVal o true v1 v2 fl fr i1 i2 ∧
    ∀ k, firstK o v1 v2 i1 ≤ k → k ≤ lastK o v1 v2 i2 →
      extVal o false v1 v2 fl fr i1 i2 ≤ o.pref * o.y k ∧ o.pref * o.y k ≤ extVal o true v1 v2 fl fr i1 i2 := by
  obtain ⟨a, b⟩ := extVal_le_knots o v1 v2 fl fr i1 i2
  obtain ⟨c1, c2, c3, c4, c5⟩ := extKnots_candidates o (firstK o v1 v2 i1) (lastK o v1 v2 i2) fl fr
  exact ⟨le_trans a c1, le_trans a c2, le_trans c3 b, le_trans c4 b,
    fun k k1 k2 => ⟨le_trans a (c5 k k1 k2).1, le_trans (c5 k k1 k2).2 b⟩⟩

/-- … and the stationary values of the edge cubics inside the extrapolated part of the range (fix 51ca844) -/
theorem extVal_stationary (o : Obj) (v1 v2 fl fr : Rat) (i1 i2 : Nat) (s : Rat)
    (hs : s ∈ statL o v1 v2 ∨ s ∈ statR o v1 v2) :
    extVal o false v1 v2 fl fr i1 i2 ≤ s ∧ s ≤ extVal o true v1 v2 fl fr i1 i2 := by
  rw [extVal_eq, extVal_eq]
  simp only [Bool.false_eq_true, if_false, if_true]
  rcases hs with hs | hs
  · exact ⟨le_trans (foldl_rmin_le _ _).1 ((foldl_rmin_le _ _).2 s hs), le_trans ((le_foldl_rmax _ _).2 s hs) (le_foldl_rmax _ _).1⟩
  · exact ⟨(foldl_rmin_le _ _).2 s hs, (le_foldl_rmax _ _).2 s hs⟩

theorem extKnots_is_candidate (o : Obj) (isMax : Bool) (first last : Nat) (fl fr : Rat) :
    extKnots o isMax first last fl fr = fl ∨ extKnots o isMax first last fl fr = fr ∨
    ∃ k, first ≤ k ∧ k ≤ last ∧ extKnots o isMax first last fl fr = o.pref * o.y k := by
  unfold extKnots
  simp only
  have pick_mem : ∀ a b : Rat, (if isMax = true then rmax else rmin) a b = a ∨ (if isMax = true then rmax else rmin) a b = b := by
    intro a b
    cases isMax
    · simpa using rmin_mem a b
    · simpa using rmax_mem a b
  by_cases h : first ≤ last
  · simp only [h, if_true]
    have hne : o.knotValues first last ≠ [] := by
      intro e
      have := knot_mem o first last first (le_refl _) h
      rw [e] at this; cases this
    obtain ⟨a, tl, eks⟩ := List.exists_cons_of_ne_nil hne
    have hmn : ∃ k, first ≤ k ∧ k ≤ last ∧ listMin (o.knotValues first last) 0 = o.y k := by
      apply mem_knotValues
      rw [eks]; exact listMin_mem a tl 0
    have hmx : ∃ k, first ≤ k ∧ k ≤ last ∧ listMax (o.knotValues first last) 0 = o.y k := by
      apply mem_knotValues
      rw [eks]; exact listMax_mem a tl 0
    generalize listMin (o.knotValues first last) 0 = mn at hmn
    generalize listMax (o.knotValues first last) 0 = mx at hmx
    obtain ⟨kn, n1, n2, en⟩ := hmn
    obtain ⟨kx, x1, x2, ex⟩ := hmx
    rcases pick_mem ((if isMax = true then rmax else rmin) ((if isMax = true then rmax else rmin) fl fr) (o.pref * mn)) (o.pref * mx) with e | e
    · rw [e]
      rcases pick_mem ((if isMax = true then rmax else rmin) fl fr) (o.pref * mn) with e | e
      · rw [e]
        rcases pick_mem fl fr with e | e
        · exact Or.inl e
        · exact Or.inr (Or.inl e)
      · exact Or.inr (Or.inr ⟨kn, n1, n2, by rw [e, en]⟩)
    · exact Or.inr (Or.inr ⟨kx, x1, x2, by rw [e, ex]⟩)
  · simp only [h, if_false]
    rcases pick_mem fl fr with e | e
    · exact Or.inl e
    · exact Or.inr (Or.inl e)

theorem foldl_pick_mem (isMax : Bool) (l : List Rat) (a : Rat) :
    l.foldl (if isMax then rmax else rmin) a = a ∨ l.foldl (if isMax then rmax else rmin) a ∈ l := by
  cases isMax
  · simpa using foldl_rmin_mem l a
  · simpa using foldl_rmax_mem l a

/-- the result is one of the candidates (so it is attained): an end value, a knot, or a stationary value -/
theorem extVal_is_candidate (o : Obj) (isMax : Bool) (v1 v2 fl fr : Rat) (i1 i2 : Nat) :
    extVal o isMax v1 v2 fl fr i1 i2 = fl ∨ extVal o isMax v1 v2 fl fr i1 i2 = fr ∨
    (∃ k, firstK o v1 v2 i1 ≤ k ∧ k ≤ lastK o v1 v2 i2 ∧ extVal o isMax v1 v2 fl fr i1 i2 = o.pref * o.y k) ∨
    extVal o isMax v1 v2 fl fr i1 i2 ∈ statL o v1 v2 ∨ extVal o isMax v1 v2 fl fr i1 i2 ∈ statR o v1 v2 := by
  rw [extVal_eq]
  rcases foldl_pick_mem isMax (statR o v1 v2) ((statL o v1 v2).foldl (if isMax then rmax else rmin)
    (extKnots o isMax (firstK o v1 v2 i1) (lastK o v1 v2 i2) fl fr)) with e | e
  · rw [e]
    rcases foldl_pick_mem isMax (statL o v1 v2) (extKnots o isMax (firstK o v1 v2 i1) (lastK o v1 v2 i2) fl fr) with e | e
    · rw [e]
      rcases extKnots_is_candidate o isMax (firstK o v1 v2 i1) (lastK o v1 v2 i2) fl fr with c | c | c
      · exact Or.inl c
      · exact Or.inr (Or.inl c)
      · exact Or.inr (Or.inr (Or.inl c))
    · exact Or.inr (Or.inr (Or.inr (Or.inl e)))
  · exact Or.inr (Or.inr (Or.inr (Or.inr e)))

/-! ### monotone pieces -/

/-- the cubic of piece `j` is monotone (in either direction) on `[a,b]` -/
def MonoOn (o : Obj) (j : Nat) (a b : Rat) : Prop :=
  (∀ u w, a ≤ u → u ≤ w → w ≤ b → Lp.C01.cubic o.N o.x o.y j u ≤ Lp.C01.cubic o.N o.x o.y j w) ∨
  (∀ u w, a ≤ u → u ≤ w → w ≤ b → Lp.C01.cubic o.N o.x o.y j w ≤ Lp.C01.cubic o.N o.x o.y j u)

/-- C01: between its two knots every piece is monotone -/
theorem monoOn_segment {o : Obj} (t : Tbl o) {j : Nat} (hj : j + 2 ≤ o.N) : MonoOn o j (o.x j) (o.x (j + 1)) := by
  have hx := strictInc_of_tbl t
  rcases le_total (o.y j) (o.y (j + 1)) with hy | hy
  · exact Or.inl fun u w h0 h1 h2 => (Lp.C01.interp_monotone_on_segment hx (by omega) h0 h1 h2).1 hy
  · exact Or.inr fun u w h0 h1 h2 => (Lp.C01.interp_monotone_on_segment hx (by omega) h0 h1 h2).2 hy

/-- on a monotone piece the value at `w` lies between the values at any `L ≤ w ≤ R` (any prefactor) -/
theorem between_of_monoOn {o : Obj} {j : Nat} {a b L w R : Rat} (hm : MonoOn o j a b)
    (h0 : a ≤ L) (h1 : L ≤ w) (h2 : w ≤ R) (h3 : R ≤ b) :
    rmin (o.cubicAt j L) (o.cubicAt j R) ≤ o.cubicAt j w ∧ o.cubicAt j w ≤ rmax (o.cubicAt j L) (o.cubicAt j R) := by
  rw [Lp.C01.cubicAt_eq, Lp.C01.cubicAt_eq, Lp.C01.cubicAt_eq]
  apply Lp.C01.scale_between
  rcases hm with hm | hm
  · have e1 := hm L w h0 h1 (le_trans h2 h3)
    have e2 := hm w R (le_trans h0 h1) h2 h3
    exact ⟨le_trans (rmin_le_left _ _) e1, le_trans e2 (le_rmax_right _ _)⟩
  · have e1 := hm L w h0 h1 (le_trans h2 h3)
    have e2 := hm w R (le_trans h0 h1) h2 h3
    exact ⟨le_trans (rmin_le_right _ _) e2, le_trans e1 (le_rmax_left _ _)⟩

theorem cubicAt_left (o : Obj) (j : Nat) : o.cubicAt j (o.x j) = o.pref * o.y j := by
  rw [Lp.C01.cubicAt_eq, Lp.C01.cubic_left]

theorem cubicAt_right {o : Obj} (t : Tbl o) {j : Nat} (hj : j + 2 ≤ o.N) : o.cubicAt j (o.x (j + 1)) = o.pref * o.y (j + 1) := by
  rw [Lp.C01.cubicAt_eq, Lp.C01.cubic_right (strictInc_of_tbl t) (by omega)]

/-! ### every curve value on `[v1,v2]` is bounded by the two results -/

/-- `val` lies between `Local_Minimum(v1,v2)` and `Local_Maximum(v1,v2)` -/
def Bd (o : Obj) (v1 v2 : Rat) (i1 i2 : Nat) (val : Rat) : Prop :=
  extVal o false v1 v2 (o.cubicAt i1 v1) (o.cubicAt i2 v2) i1 i2 ≤ val ∧
  val ≤ extVal o true v1 v2 (o.cubicAt i1 v1) (o.cubicAt i2 v2) i1 i2

theorem bd_fl (o : Obj) (v1 v2 : Rat) (i1 i2 : Nat) : Bd o v1 v2 i1 i2 (o.cubicAt i1 v1) :=
  ⟨(extVal_candidates o v1 v2 _ _ i1 i2).1, (extVal_candidates o v1 v2 _ _ i1 i2).2.2.1⟩

theorem bd_fr (o : Obj) (v1 v2 : Rat) (i1 i2 : Nat) : Bd o v1 v2 i1 i2 (o.cubicAt i2 v2) :=
  ⟨(extVal_candidates o v1 v2 _ _ i1 i2).2.1, (extVal_candidates o v1 v2 _ _ i1 i2).2.2.2.1⟩

theorem bd_knot (o : Obj) (v1 v2 : Rat) (i1 i2 k : Nat) (h1 : firstK o v1 v2 i1 ≤ k) (h2 : k ≤ lastK o v1 v2 i2) :
    Bd o v1 v2 i1 i2 (o.pref * o.y k) :=
  (extVal_candidates o v1 v2 _ _ i1 i2).2.2.2.2 k h1 h2

theorem bd_between {o : Obj} {v1 v2 : Rat} {i1 i2 : Nat} {a b c : Rat} (ha : Bd o v1 v2 i1 i2 a) (hb : Bd o v1 v2 i1 i2 b)
    (h : rmin a b ≤ c ∧ c ≤ rmax a b) : Bd o v1 v2 i1 i2 c :=
  ⟨le_trans (le_rmin ha.1 hb.1) h.1, le_trans h.2 (rmax_le ha.2 hb.2)⟩

/-! ### the continued edge cubic is monotone between consecutive candidates (fix 51ca844)

    `Stationary_Values` finds the roots of the derivative `A τ² + B τ + C` of the edge piece with the
    stable quadratic formula.  What is needed of the square root — only at the discriminant actually
    passed to it — is `SqrtOkAt`.  Then the derivative does not change sign on any interval that
    contains none of the computed roots in its interior, so the piece is monotone between
    consecutive candidates and takes its extreme values at candidates. -/

/-- the square root is correct at the discriminant of `A τ² + B τ + C` — asked only when it is called (`A ≠ 0`, `disc ≥ 0`) -/
def SqrtOkAt (A B C : Rat) : Prop :=
  A ≠ 0 → 0 ≤ B * B - 4 * A * C →
    0 ≤ SqrtFn.sq (B * B - 4 * A * C) ∧ SqrtFn.sq (B * B - 4 * A * C) * SqrtFn.sq (B * B - 4 * A * C) = B * B - 4 * A * C

/-- … for the derivative of piece `j` -/
def SqrtOk (o : Obj) (j : Nat) : Prop :=
  SqrtOkAt (3 * coefA o.N o.x o.y j) (2 * coefB o.N o.x o.y j) (coefC o.N o.x o.y j)

/-- `f` does not change sign on `[u,v]` -/
def SignOn (f : Rat → Rat) (u v : Rat) : Prop :=
  (∀ t, u ≤ t → t ≤ v → 0 ≤ f t) ∨ (∀ t, u ≤ t → t ≤ v → f t ≤ 0)

omit [SqrtFn] in
theorem signOn_const (c u v : Rat) : SignOn (fun _ => c) u v := by
  rcases le_total 0 c with h | h
  · exact Or.inl fun _ _ _ => h
  · exact Or.inr fun _ _ _ => h

omit [SqrtFn] in
theorem signOn_linear (r u v : Rat) (h : r ≤ u ∨ v ≤ r) : SignOn (fun t => t - r) u v := by
  rcases h with h | h
  · exact Or.inl fun t a _ => by linarith
  · exact Or.inr fun t _ b => by linarith

omit [SqrtFn] in
theorem signOn_mul {f g : Rat → Rat} {u v : Rat} (hf : SignOn f u v) (hg : SignOn g u v) :
    SignOn (fun t => f t * g t) u v := by
  rcases hf with hf | hf <;> rcases hg with hg | hg
  · exact Or.inl fun t a b => mul_nonneg (hf t a b) (hg t a b)
  · exact Or.inr fun t a b => mul_nonpos_iff.mpr (Or.inl ⟨hf t a b, hg t a b⟩)
  · exact Or.inr fun t a b => mul_nonpos_iff.mpr (Or.inr ⟨hf t a b, hg t a b⟩)
  · exact Or.inl fun t a b => mul_nonneg_iff.mpr (Or.inr ⟨hf t a b, hg t a b⟩)

omit [SqrtFn] in
theorem signOn_congr {f g : Rat → Rat} {u v : Rat} (h : ∀ t, f t = g t) (hg : SignOn g u v) : SignOn f u v := by
  rcases hg with hg | hg
  · exact Or.inl fun t a b => by rw [h t]; exact hg t a b
  · exact Or.inr fun t a b => by rw [h t]; exact hg t a b

omit [SqrtFn] in
/-- with `q = −(B + σ s)/2`, `σ = ±1`, `s² = B² − 4AC`: `q` solves `z² + B z + A C = 0`, so `q/A` and `C/q` are the two roots -/
theorem quad_factor (A B C s σ q t : Rat) (hA : A ≠ 0) (hσ : σ * σ = 1) (hs : s * s = B * B - 4 * A * C)
    (hqd : q = -(1 / 2 : Rat) * (B + σ * s)) (hq : q ≠ 0) :
    A * t ^ 2 + B * t + C = A * ((t - q / A) * (t - C / q)) := by
  have hqq : q * q + B * q + A * C = 0 := by
    rw [hqd]
    linear_combination (s * s / 4) * hσ + (1 / 4 : Rat) * hs
  have hB : B = -(q + A * C / q) := by
    field_simp
    linear_combination hqq
  rw [hB]
  field_simp
  ring

/-- the derivative `A τ² + B τ + C` keeps its sign on `[u,v]` when none of the roots `Stationary_Values` computes lies strictly inside -/
theorem quad_signOn (A B C : Rat) (hs : SqrtOkAt A B C) (u v : Rat)
    (hno : ∀ r ∈ statRoots A B C, r ≤ u ∨ v ≤ r) : SignOn (fun t => A * t ^ 2 + B * t + C) u v := by
  unfold statRoots at hno
  by_cases hA : A = 0
  · simp only [hA, if_true] at hno
    by_cases hB : B = 0
    · exact signOn_congr (g := fun _ => C) (fun t => by rw [hA, hB]; ring) (signOn_const C u v)
    · simp only [hB, ne_eq, not_false_eq_true, if_true] at hno
      have hr := hno (-C / B) (List.mem_singleton.mpr rfl)
      refine signOn_congr (g := fun t => B * (t - -C / B)) (fun t => ?_) (signOn_mul (signOn_const B u v) (signOn_linear _ u v hr))
      rw [hA]; field_simp; ring
  · simp only [hA, if_false] at hno
    by_cases hd : B * B - 4 * A * C ≥ 0
    · simp only [hd, if_true] at hno
      obtain ⟨s0, ss⟩ := hs hA hd
      generalize SqrtFn.sq (B * B - 4 * A * C) = s at hno s0 ss
      have hσ : (if B ≥ 0 then (1 : Rat) else -1) * (if B ≥ 0 then (1 : Rat) else -1) = 1 := by
        split <;> norm_num
      generalize hσd : (if B ≥ 0 then (1 : Rat) else -1) = σ at hno hσ
      by_cases hq : -(1 / 2 : Rat) * (B + σ * s) = 0
      · -- q = 0: B = 0 and s = 0, the derivative is A τ²
        have hB0 : B = 0 ∧ s = 0 := by
          by_cases hB : B ≥ 0
          · rw [if_pos hB] at hσd; subst hσd
            constructor <;> nlinarith
          · rw [if_neg hB] at hσd; subst hσd
            exfalso; have : B < 0 := lt_of_not_ge hB; nlinarith
        obtain ⟨eB, es⟩ := hB0
        have hC : C = 0 := by
          have : A * C = 0 := by rw [eB, es] at ss; linarith
          rcases mul_eq_zero.mp this with h | h
          · exact absurd h hA
          · exact h
        refine signOn_congr (g := fun t => A * (t * t)) (fun t => by rw [eB, hC]; ring) ?_
        rcases le_total 0 A with h | h
        · exact Or.inl fun t _ _ => mul_nonneg h (mul_self_nonneg t)
        · exact Or.inr fun t _ _ => mul_nonpos_iff.mpr (Or.inr ⟨h, mul_self_nonneg t⟩)
      · simp only [hq, ne_eq, not_false_eq_true, if_true] at hno
        have r1 := hno (-(1 / 2 : Rat) * (B + σ * s) / A) (List.mem_cons_self)
        have r2 := hno (C / (-(1 / 2 : Rat) * (B + σ * s))) (List.mem_cons_of_mem _ (List.mem_singleton.mpr rfl))
        refine signOn_congr (fun t => quad_factor A B C s σ _ t hA hσ ss rfl hq) ?_
        exact signOn_mul (signOn_const A u v) (signOn_mul (signOn_linear _ u v r1) (signOn_linear _ u v r2))
    · -- negative discriminant: the sign of A everywhere
      have hd' : B * B - 4 * A * C < 0 := lt_of_not_ge hd
      rcases lt_or_gt_of_ne hA with h | h
      · refine Or.inr fun t _ _ => ?_
        nlinarith [mul_self_nonneg (2 * A * t + B)]
      · refine Or.inl fun t _ _ => ?_
        nlinarith [mul_self_nonneg (2 * A * t + B)]

omit [SqrtFn] in
/-- a derivative that keeps its sign makes the piece monotone (Simpson's rule is exact for the quadratic derivative) -/
theorem monoOn_of_sign (o : Obj) (j : Nat) (a b : Rat)
    (h : (∀ u, a ≤ u → u ≤ b → 0 ≤ Lp.C01.cubicD1 o.N o.x o.y j u) ∨ (∀ u, a ≤ u → u ≤ b → Lp.C01.cubicD1 o.N o.x o.y j u ≤ 0)) :
    MonoOn o j a b := by
  have key : ∀ u w : Rat, Lp.C01.cubic o.N o.x o.y j w - Lp.C01.cubic o.N o.x o.y j u =
      (w - u) * (Lp.C01.cubicD1 o.N o.x o.y j u + 4 * Lp.C01.cubicD1 o.N o.x o.y j ((u + w) / 2)
        + Lp.C01.cubicD1 o.N o.x o.y j w) / 6 := by
    intro u w
    unfold Lp.C01.cubic Lp.C01.cubicD1
    rw [Lp.C01.seg_diff, show (u + w) / 2 - o.x j = (u - o.x j + (w - o.x j)) / 2 by ring]
    ring
  rcases h with h | h
  · refine Or.inl fun u w h0 h1 h2 => ?_
    have d1 := h u h0 (le_trans h1 h2)
    have d2 := h ((u + w) / 2) (by linarith) (by linarith)
    have d3 := h w (le_trans h0 h1) h2
    have := key u w
    have := mul_nonneg (sub_nonneg.mpr h1) (by linarith : 0 ≤ Lp.C01.cubicD1 o.N o.x o.y j u
      + 4 * Lp.C01.cubicD1 o.N o.x o.y j ((u + w) / 2) + Lp.C01.cubicD1 o.N o.x o.y j w)
    linarith
  · refine Or.inr fun u w h0 h1 h2 => ?_
    have d1 := h u h0 (le_trans h1 h2)
    have d2 := h ((u + w) / 2) (by linarith) (by linarith)
    have d3 := h w (le_trans h0 h1) h2
    have := key u w
    have := mul_nonneg (sub_nonneg.mpr h1) (by linarith : 0 ≤ -(Lp.C01.cubicD1 o.N o.x o.y j u
      + 4 * Lp.C01.cubicD1 o.N o.x o.y j ((u + w) / 2) + Lp.C01.cubicD1 o.N o.x o.y j w))
    linarith

/-- piece `j` is monotone on `[u,v]` when no stationary abscissa that `Stationary_Values` computes lies strictly inside -/
theorem monoOn_between_roots (o : Obj) (j : Nat) (hs : SqrtOk o j) (u v : Rat)
    (hno : ∀ r ∈ statRoots (3 * coefA o.N o.x o.y j) (2 * coefB o.N o.x o.y j) (coefC o.N o.x o.y j),
      o.x j + r ≤ u ∨ v ≤ o.x j + r) : MonoOn o j u v := by
  have hq := quad_signOn _ _ _ hs (u - o.x j) (v - o.x j) (fun r hr => by
    rcases hno r hr with h | h
    · left; linarith
    · right; linarith)
  have e : ∀ w, Lp.C01.cubicD1 o.N o.x o.y j w =
      3 * coefA o.N o.x o.y j * (w - o.x j) ^ 2 + 2 * coefB o.N o.x o.y j * (w - o.x j) + coefC o.N o.x o.y j := by
    intro w; unfold Lp.C01.cubicD1 segD1; ring
  apply monoOn_of_sign
  rcases hq with hq | hq
  · exact Or.inl fun w a b => by rw [e]; exact hq (w - o.x j) (by linarith) (by linarith)
  · exact Or.inr fun w a b => by rw [e]; exact hq (w - o.x j) (by linarith) (by linarith)

omit [SqrtFn] in
theorem exists_nearest_below (l : List Rat) (L w : Rat) (hL : L ≤ w) :
    ∃ u, (u = L ∨ u ∈ l) ∧ L ≤ u ∧ u ≤ w ∧ ∀ p ∈ l, p ≤ w → p ≤ u := by
  induction l with
  | nil => exact ⟨L, Or.inl rfl, le_refl _, hL, fun p hp => by cases hp⟩
  | cons a l ih =>
    obtain ⟨u, hu, h0, h1, h2⟩ := ih
    by_cases ha : a ≤ w ∧ u ≤ a
    · refine ⟨a, Or.inr List.mem_cons_self, le_trans h0 ha.2, ha.1, fun p hp hpw => ?_⟩
      rcases List.mem_cons.mp hp with e | e
      · rw [e]
      · exact le_trans (h2 p e hpw) ha.2
    · refine ⟨u, ?_, h0, h1, fun p hp hpw => ?_⟩
      · rcases hu with e | e
        · exact Or.inl e
        · exact Or.inr (List.mem_cons_of_mem _ e)
      · rcases List.mem_cons.mp hp with e | e
        · rw [e] at hpw ⊢
          by_contra hc
          exact ha ⟨hpw, le_of_lt (lt_of_not_ge hc)⟩
        · exact h2 p e hpw

omit [SqrtFn] in
theorem exists_nearest_above (l : List Rat) (R w : Rat) (hR : w ≤ R) :
    ∃ v, (v = R ∨ v ∈ l) ∧ v ≤ R ∧ w ≤ v ∧ ∀ p ∈ l, w ≤ p → v ≤ p := by
  induction l with
  | nil => exact ⟨R, Or.inl rfl, le_refl _, hR, fun p hp => by cases hp⟩
  | cons a l ih =>
    obtain ⟨v, hv, h0, h1, h2⟩ := ih
    by_cases ha : w ≤ a ∧ a ≤ v
    · refine ⟨a, Or.inr List.mem_cons_self, le_trans ha.2 h0, ha.1, fun p hp hpw => ?_⟩
      rcases List.mem_cons.mp hp with e | e
      · rw [e]
      · exact le_trans ha.2 (h2 p e hpw)
    · refine ⟨v, ?_, h0, h1, fun p hp hpw => ?_⟩
      · rcases hv with e | e
        · exact Or.inl e
        · exact Or.inr (List.mem_cons_of_mem _ e)
      · rcases List.mem_cons.mp hp with e | e
        · rw [e] at hpw ⊢
          by_contra hc
          exact ha ⟨hpw, le_of_lt (lt_of_not_ge hc)⟩
        · exact h2 p e hpw

/-- **the payoff of fix 51ca844**: on a window `[L,R]` of piece `j` the curve lies between the candidates — the two
    ends and the stationary values `Stationary_Values(j, L, R)` — with no monotonicity hypothesis -/
theorem bd_window {o : Obj} {v1 v2 : Rat} {i1 i2 : Nat} (j : Nat) (hs : SqrtOk o j) (L R : Rat)
    (bL : Bd o v1 v2 i1 i2 (o.cubicAt j L)) (bR : Bd o v1 v2 i1 i2 (o.cubicAt j R))
    (bS : ∀ s ∈ o.stationaryValues j L R, Bd o v1 v2 i1 i2 s)
    {w : Rat} (h1 : L ≤ w) (h2 : w ≤ R) : Bd o v1 v2 i1 i2 (o.cubicAt j w) := by
  let roots := statRoots (3 * coefA o.N o.x o.y j) (2 * coefB o.N o.x o.y j) (coefC o.N o.x o.y j)
  let pts := (roots.filter (fun t => decide (o.x j + t > L ∧ o.x j + t < R))).map (fun t => o.x j + t)
  have bP : ∀ p ∈ pts, Bd o v1 v2 i1 i2 (o.cubicAt j p) := by
    intro p hp
    obtain ⟨t, ht, e⟩ := List.mem_map.mp hp
    apply bS
    unfold Obj.stationaryValues
    refine List.mem_map.mpr ⟨t, ht, ?_⟩
    rw [← e]
    unfold Obj.cubicAt
    rw [show o.x j + t - o.x j = t by ring]
  have memP : ∀ r ∈ roots, L < o.x j + r → o.x j + r < R → o.x j + r ∈ pts := by
    intro r hr a b
    exact List.mem_map.mpr ⟨r, List.mem_filter.mpr ⟨hr, by simp only [decide_eq_true_eq]; exact ⟨a, b⟩⟩, rfl⟩
  obtain ⟨u, hu, u0, u1, u2⟩ := exists_nearest_below pts L w h1
  obtain ⟨v, hv, v0, v1', v2'⟩ := exists_nearest_above pts R w h2
  have hm : MonoOn o j u v := by
    apply monoOn_between_roots o j hs u v
    intro r hr
    by_contra hc
    have c1 : u < o.x j + r := lt_of_not_ge (fun h => hc (Or.inl h))
    have c2 : o.x j + r < v := lt_of_not_ge (fun h => hc (Or.inr h))
    have hmem := memP r hr (lt_of_le_of_lt u0 c1) (lt_of_lt_of_le c2 v0)
    rcases le_total (o.x j + r) w with hw | hw
    · have := u2 _ hmem hw; linarith
    · have := v2' _ hmem hw; linarith
  have bu : Bd o v1 v2 i1 i2 (o.cubicAt j u) := by
    rcases hu with e | e
    · rw [e]; exact bL
    · exact bP u e
  have bv : Bd o v1 v2 i1 i2 (o.cubicAt j v) := by
    rcases hv with e | e
    · rw [e]; exact bR
    · exact bP v e
  exact bd_between bu bv (between_of_monoOn hm (le_refl _) u1 v1' (le_refl _))

/-- the hypotheses shared by the statements below: limits located, ordered, and — only where a limit
    lies in the 1 % extrapolation zone — the square root correct at the discriminant of that edge piece -/
structure Lims (o : Obj) (v1 v2 : Rat) (i1 i2 : Nat) : Prop where
  le : v1 ≤ v2
  l1 : locateCanon o.N o.x v1 = .ok i1
  l2 : locateCanon o.N o.x v2 = .ok i2
  sqL : v1 < o.x 0 → SqrtOk o 0
  sqR : o.x (o.N - 1) < v2 → SqrtOk o (o.N - 2)

/-- `w` in the domain, `j` its canonical bracket -/
theorem bd_canon {o : Obj} (t : Tbl o) {v1 v2 : Rat} {i1 i2 : Nat} (L : Lims o v1 v2 i1 i2)
    {w : Rat} {j : Nat} (hc : Canon o.N o.x w j) (h1 : v1 ≤ w) (h2 : w ≤ v2) : Bd o v1 v2 i1 i2 (o.cubicAt j w) := by
  have hN := t.hN
  have hw := canon_located t hc
  have hi1 : i1 ≤ j := located_mono t L.l1 hw h1
  have hi2 : j ≤ i2 := located_mono t hw L.l2 h2
  have bi2 := located_bound t L.l2
  obtain ⟨bj, xl, xr, _⟩ := hc
  have hx0 : o.x 0 ≤ w := le_trans (t.mono.le (Nat.zero_le j) (by omega)) xl
  have hxN : w ≤ o.x (o.N - 1) := le_trans xr (t.mono.le (by omega) (by omega))
  have first_le : firstK o v1 v2 i1 ≤ i1 + 1 := by unfold firstK; split <;> omega
  have le_last : i2 ≤ lastK o v1 v2 i2 := by unfold lastK; split <;> omega
  -- left anchor
  have hLft : ∃ P, o.x j ≤ P ∧ P ≤ w ∧ Bd o v1 v2 i1 i2 (o.cubicAt j P) := by
    rcases located_cases t L.l1 with ⟨a1, e⟩ | c1 | ⟨a1, _⟩
    · refine ⟨o.x j, le_refl _, xl, ?_⟩
      rw [cubicAt_left]
      refine bd_knot o v1 v2 i1 i2 j ?_ (le_trans hi2 le_last)
      have : firstK o v1 v2 i1 = i1 := by
        unfold firstK; rw [if_pos ⟨a1, le_trans hx0 h2⟩]
      omega
    · by_cases e : i1 = j
      · subst e
        exact ⟨v1, c1.2.1, h1, bd_fl o v1 v2 i1 i2⟩
      · refine ⟨o.x j, le_refl _, xl, ?_⟩
        rw [cubicAt_left]
        exact bd_knot o v1 v2 i1 i2 j (by omega) (le_trans hi2 le_last)
    · exfalso; linarith
  -- right anchor
  have hRgt : ∃ P, w ≤ P ∧ P ≤ o.x (j + 1) ∧ Bd o v1 v2 i1 i2 (o.cubicAt j P) := by
    rcases located_cases t L.l2 with ⟨a2, _⟩ | c2 | ⟨a2, e⟩
    · exfalso; linarith
    · by_cases e : i2 = j
      · subst e
        exact ⟨v2, h2, c2.2.2.1, bd_fr o v1 v2 i1 i2⟩
      · refine ⟨o.x (j + 1), xr, le_refl _, ?_⟩
        rw [cubicAt_right t bj]
        exact bd_knot o v1 v2 i1 i2 (j + 1) (by omega) (le_trans (by omega) le_last)
    · refine ⟨o.x (j + 1), xr, le_refl _, ?_⟩
      rw [cubicAt_right t bj]
      refine bd_knot o v1 v2 i1 i2 (j + 1) (by omega) ?_
      have : lastK o v1 v2 i2 = i2 + 1 := by
        unfold lastK; rw [if_pos ⟨a2, le_trans h1 hxN⟩]
      omega
  obtain ⟨P, p1, p2, bP⟩ := hLft
  obtain ⟨Q, q1, q2, bQ⟩ := hRgt
  exact bd_between bP bQ (between_of_monoOn (monoOn_segment t bj) p1 p2 q1 q2)

/-- `w` belongs to piece `j`: between the knots `j`, `j+1`; the first piece also serves the
    abscissae below the domain, the last one those above -/
def OnIdx (o : Obj) (j : Nat) (w : Rat) : Prop :=
  j + 2 ≤ o.N ∧ (j = 0 ∨ o.x j ≤ w) ∧ (j + 2 = o.N ∨ w ≤ o.x (j + 1))

theorem onIdx_of_located {o : Obj} (t : Tbl o) {v : Rat} {j : Nat} (h : locateCanon o.N o.x v = .ok j) : OnIdx o j v := by
  rcases located_cases t h with ⟨_, e⟩ | c | ⟨_, e⟩
  · have := t.hN
    exact ⟨by omega, Or.inl e, Or.inr (le_trans (le_of_lt ‹v < o.x 0›) (by rw [e]; exact t.mono.le (by omega) (by omega)))⟩
  · exact ⟨c.1, Or.inr c.2.1, Or.inr c.2.2.1⟩
  · have hN := t.hN
    refine ⟨by omega, Or.inr (le_trans ?_ (le_of_lt ‹o.x (o.N - 1) < v›)), Or.inl e⟩
    exact t.mono.le (by omega) (by omega)

/-- **every value of every piece over `[v1,v2]` lies between the two results** -/
theorem bd_onIdx {o : Obj} (t : Tbl o) {v1 v2 : Rat} {i1 i2 : Nat} (L : Lims o v1 v2 i1 i2)
    {w : Rat} {j : Nat} (hj : OnIdx o j w) (h1 : v1 ≤ w) (h2 : w ≤ v2) : Bd o v1 v2 i1 i2 (o.cubicAt j w) := by
  have hN := t.hN
  obtain ⟨bj, lo, hi⟩ := hj
  by_cases hlo : o.x j ≤ w
  · by_cases hhi : w ≤ o.x (j + 1)
    · -- closed segment
      by_cases hc : j + 2 < o.N ∧ w = o.x (j + 1)
      · obtain ⟨hc1, hc2⟩ := hc
        have : o.cubicAt j w = o.cubicAt (j + 1) w := by
          rw [hc2, cubicAt_right t bj, cubicAt_left]
        rw [this]
        exact bd_canon t L (by rw [hc2]; exact canon_knot t (by omega)) h1 h2
      · refine bd_canon t L ⟨bj, hlo, hhi, fun h => ?_⟩ h1 h2
        rcases lt_or_eq_of_le hhi with c | c
        · exact c
        · exact absurd ⟨h, c⟩ hc
    · -- above the domain
      have hhi' : o.x (j + 1) < w := lt_of_not_ge hhi
      have ej : j + 2 = o.N := by rcases hi with h | h; exact h; exact absurd h hhi
      have e1 : j + 1 = o.N - 1 := by omega
      have e2 : j = o.N - 2 := by omega
      rw [e1] at hhi'
      have a2 : o.x (o.N - 1) < v2 := lt_of_lt_of_le hhi' h2
      have ei2 : i2 = j := by
        rcases located_cases t L.l2 with ⟨b, _⟩ | c | ⟨_, e⟩
        · exfalso
          have : o.x 0 ≤ o.x (o.N - 1) := t.mono.le (Nat.zero_le _) (by omega)
          linarith
        · exfalso
          have : o.x (i2 + 1) ≤ o.x (o.N - 1) := t.mono.le (by have := c.1; omega) (by omega)
          linarith [c.2.2.1]
        · omega
      have hs := L.sqR a2
      rw [← e2] at hs
      have hR : Bd o v1 v2 i1 i2 (o.cubicAt j v2) := by rw [← ei2]; exact bd_fr o v1 v2 i1 i2
      have bS : ∀ s ∈ o.stationaryValues j (rmax v1 (o.x (o.N - 1))) v2, Bd o v1 v2 i1 i2 s := by
        intro s hs'
        refine extVal_stationary o v1 v2 _ _ i1 i2 s (Or.inr ?_)
        unfold statR
        rw [if_pos a2, ← e2]; exact hs'
      have hP : o.x (o.N - 1) ≤ rmax v1 (o.x (o.N - 1)) ∧ rmax v1 (o.x (o.N - 1)) ≤ w ∧
          Bd o v1 v2 i1 i2 (o.cubicAt j (rmax v1 (o.x (o.N - 1)))) := by
        by_cases a1 : o.x (o.N - 1) < v1
        · have ei1 : i1 = j := by
            have := located_mono t L.l1 L.l2 L.le
            rcases located_cases t L.l1 with ⟨b, _⟩ | c | ⟨_, e⟩
            · exfalso
              have : o.x 0 ≤ o.x (o.N - 1) := t.mono.le (Nat.zero_le _) (by omega)
              linarith
            · exfalso
              have : o.x (i1 + 1) ≤ o.x (o.N - 1) := t.mono.le (by have := c.1; omega) (by omega)
              linarith [c.2.2.1]
            · omega
          have er : rmax v1 (o.x (o.N - 1)) = v1 := by unfold rmax; rw [if_neg (not_lt.mpr (le_of_lt a1))]
          rw [er]
          refine ⟨le_of_lt a1, h1, ?_⟩
          rw [← ei1]; exact bd_fl o v1 v2 i1 i2
        · have a1' : v1 ≤ o.x (o.N - 1) := le_of_not_gt a1
          have er : rmax v1 (o.x (o.N - 1)) = o.x (o.N - 1) := by
            unfold rmax
            split
            · rfl
            · linarith
          rw [er]
          refine ⟨le_refl _, le_of_lt hhi', ?_⟩
          rw [← e1, cubicAt_right t bj]
          have bi1 := located_bound t L.l1
          refine bd_knot o v1 v2 i1 i2 (j + 1) ?_ ?_
          · have : firstK o v1 v2 i1 ≤ i1 + 1 := by unfold firstK; split <;> omega
            omega
          · have : lastK o v1 v2 i2 = i2 + 1 := by unfold lastK; rw [if_pos ⟨a2, a1'⟩]
            omega
      exact bd_window j hs _ v2 hP.2.2 hR bS hP.2.1 h2
  · -- below the domain
    have hlo' : w < o.x j := lt_of_not_ge hlo
    have ej : j = 0 := by rcases lo with h | h; exact h; exact absurd h hlo
    subst ej
    have a1 : v1 < o.x 0 := lt_of_le_of_lt h1 hlo'
    have ei1 : i1 = 0 := by
      rcases located_cases t L.l1 with ⟨_, e⟩ | c | ⟨b, _⟩
      · exact e
      · exfalso
        have : o.x 0 ≤ o.x i1 := t.mono.le (Nat.zero_le _) (by have := c.1; omega)
        linarith [c.2.1]
      · exfalso
        have : o.x 0 ≤ o.x (o.N - 1) := t.mono.le (Nat.zero_le _) (by omega)
        linarith
    have hs := L.sqL a1
    have hLf : Bd o v1 v2 i1 i2 (o.cubicAt 0 v1) := by
      have := bd_fl o v1 v2 i1 i2
      rwa [ei1] at this ⊢
    have bS : ∀ s ∈ o.stationaryValues 0 v1 (rmin v2 (o.x 0)), Bd o v1 v2 i1 i2 s := by
      intro s hs'
      refine extVal_stationary o v1 v2 _ _ i1 i2 s (Or.inl ?_)
      unfold statL
      rw [if_pos a1]; exact hs'
    have hP : w ≤ rmin v2 (o.x 0) ∧ Bd o v1 v2 i1 i2 (o.cubicAt 0 (rmin v2 (o.x 0))) := by
      by_cases a2 : v2 < o.x 0
      · have ei2 : i2 = 0 := by
          rcases located_cases t L.l2 with ⟨_, e⟩ | c | ⟨b, _⟩
          · exact e
          · exfalso
            have : o.x 0 ≤ o.x i2 := t.mono.le (Nat.zero_le _) (by have := c.1; omega)
            linarith [c.2.1]
          · exfalso
            have : o.x 0 ≤ o.x (o.N - 1) := t.mono.le (Nat.zero_le _) (by omega)
            linarith
        have er : rmin v2 (o.x 0) = v2 := by unfold rmin; rw [if_neg (not_lt.mpr (le_of_lt a2))]
        rw [er]
        refine ⟨h2, ?_⟩
        have := bd_fr o v1 v2 i1 i2
        rwa [ei2] at this ⊢
      · have a2' : o.x 0 ≤ v2 := le_of_not_gt a2
        have er : rmin v2 (o.x 0) = o.x 0 := by
          unfold rmin
          split
          · rfl
          · linarith
        rw [er]
        refine ⟨le_of_lt hlo', ?_⟩
        rw [cubicAt_left]
        refine bd_knot o v1 v2 i1 i2 0 ?_ (Nat.zero_le _)
        have : firstK o v1 v2 i1 = i1 := by unfold firstK; rw [if_pos ⟨a1, a2'⟩]
        omega
    exact bd_window 0 hs v1 _ hLf hP.2 bS h1 hP.1

/-! ### the integral over `[a,b]` lies between `m·(b−a)` and `M·(b−a)` -/

/-- Simpson's rule is exact on the cubic of one piece -/
theorem antiAt_simpson (o : Obj) (j : Nat) (a b : Rat) :
    antiAt o j b - antiAt o j a = (b - a) * (o.cubicAt j a + 4 * o.cubicAt j ((a + b) / 2) + o.cubicAt j b) / 6 := by
  unfold antiAt stemAt Obj.cubicAt segStem segEval; ring

/-- the global antiderivative is continuous across a knot -/
theorem antiAt_knot (o : Obj) (j : Nat) : antiAt o (j + 1) (o.x (j + 1)) = antiAt o j (o.x (j + 1)) := by
  unfold antiAt
  show cum o j + full o j + _ = _
  unfold full; ring

theorem onIdx_convex {o : Obj} {j : Nat} {a b w : Rat} (ha : OnIdx o j a) (hb : OnIdx o j b) (h1 : a ≤ w) (h2 : w ≤ b) :
    OnIdx o j w := by
  obtain ⟨bj, la, _⟩ := ha
  obtain ⟨_, _, rb⟩ := hb
  refine ⟨bj, ?_, ?_⟩
  · rcases la with h | h
    · exact Or.inl h
    · exact Or.inr (le_trans h h1)
  · rcases rb with h | h
    · exact Or.inl h
    · exact Or.inr (le_trans h2 h)

theorem anti_bounds_one {o : Obj} (m M : Rat) (i : Nat) (a b : Rat) (hab : a ≤ b) (ha : OnIdx o i a) (hb : OnIdx o i b)
    (hbd : ∀ j w, OnIdx o j w → a ≤ w → w ≤ b → m ≤ o.cubicAt j w ∧ o.cubicAt j w ≤ M) :
    m * (b - a) ≤ antiAt o i b - antiAt o i a ∧ antiAt o i b - antiAt o i a ≤ M * (b - a) := by
  rw [antiAt_simpson]
  have hmid1 : a ≤ (a + b) / 2 := by linarith
  have hmid2 : (a + b) / 2 ≤ b := by linarith
  obtain ⟨p1, p2⟩ := hbd i a ha (le_refl _) hab
  obtain ⟨q1, q2⟩ := hbd i ((a + b) / 2) (onIdx_convex ha hb hmid1 hmid2) hmid1 hmid2
  obtain ⟨r1, r2⟩ := hbd i b hb hab (le_refl _)
  have hd : 0 ≤ b - a := by linarith
  generalize o.cubicAt i a = fa at *
  generalize o.cubicAt i ((a + b) / 2) = fm at *
  generalize o.cubicAt i b = fb at *
  constructor
  · have := mul_nonneg hd (by linarith : 0 ≤ fa + 4 * fm + fb - 6 * m)
    linarith
  · have := mul_nonneg hd (by linarith : 0 ≤ 6 * M - (fa + 4 * fm + fb))
    linarith

theorem anti_bounds {o : Obj} (t : Tbl o) (m M : Rat) : ∀ (n i : Nat) (a b : Rat), a ≤ b → OnIdx o i a → OnIdx o (i + n) b →
    (∀ j w, OnIdx o j w → a ≤ w → w ≤ b → m ≤ o.cubicAt j w ∧ o.cubicAt j w ≤ M) →
    m * (b - a) ≤ antiAt o (i + n) b - antiAt o i a ∧ antiAt o (i + n) b - antiAt o i a ≤ M * (b - a)
  | 0, i, a, b, hab, ha, hb, hbd => anti_bounds_one m M i a b hab ha hb hbd
  | n + 1, i, a, b, hab, ha, hb, hbd => by
    obtain ⟨bb, lb, _⟩ := hb
    have hac : a ≤ o.x (i + 1) := by
      rcases ha.2.2 with h | h
      · omega
      · exact h
    have hcb : o.x (i + 1) ≤ b := by
      rcases lb with h | h
      · omega
      · exact le_trans (t.mono.le (by omega) (by omega)) h
    have e : i + (n + 1) = (i + 1) + n := by omega
    have hc1 : OnIdx o i (o.x (i + 1)) :=
      ⟨by omega, Or.inr (le_of_lt (t.mono i (i + 1) (by omega) (by omega))), Or.inr (le_refl _)⟩
    have hc2 : OnIdx o (i + 1) (o.x (i + 1)) :=
      ⟨by omega, Or.inr (le_refl _), Or.inr (le_of_lt (t.mono (i + 1) (i + 1 + 1) (by omega) (by omega)))⟩
    obtain ⟨s1, s2⟩ := anti_bounds_one m M i a (o.x (i + 1)) hac ha hc1
      (fun j w hj h1 h2 => hbd j w hj h1 (le_trans h2 hcb))
    obtain ⟨u1, u2⟩ := anti_bounds t m M n (i + 1) (o.x (i + 1)) b hcb hc2 (by rw [← e]; exact ⟨bb, lb, ‹_›⟩)
      (fun j w hj h1 h2 => hbd j w hj (le_trans hac h1) h2)
    rw [antiAt_knot] at u1 u2
    rw [e]
    constructor <;> linarith

/-- `Integrate(a,b)` for located, ordered limits (also in the extrapolation zones) -/
theorem pInteg_located {o : Obj} (t : Tbl o) {a b : Rat} {i1 i2 : Nat} (hab : a ≤ b)
    (h1 : locateCanon o.N o.x a = .ok i1) (h2 : locateCanon o.N o.x b = .ok i2) :
    pInteg o a b = .ok (antiAt o i2 b - antiAt o i1 a) := by
  have hle := located_mono t h1 h2 hab
  unfold pInteg pIntegCore
  have : ¬ a > b := not_lt.mpr hab
  simp only [this, if_false, h1, h2]
  rw [segSum_eq, show i1 + (i2 - i1) = i2 by omega]
  congr 1; ring

/-! ### glue to the pure queries -/

theorem pLocalExt_located (o : Obj) (isMax : Bool) {v1 v2 : Rat} {i1 i2 : Nat} (hle : v1 ≤ v2)
    (h1 : locateCanon o.N o.x v1 = .ok i1) (h2 : locateCanon o.N o.x v2 = .ok i2) :
    pLocalExt o isMax v1 v2 = .ok (extVal o isMax v1 v2 (o.cubicAt i1 v1) (o.cubicAt i2 v2) i1 i2) := by
  unfold pLocalExt
  have : ¬ v2 < v1 := not_lt.mpr hle
  simp only [this, if_false, h1, h2]

theorem pLocalExt_inv (o : Obj) (isMax : Bool) {v1 v2 m : Rat} (h : pLocalExt o isMax v1 v2 = .ok m) :
    ∃ i1 i2, v1 ≤ v2 ∧ locateCanon o.N o.x v1 = .ok i1 ∧ locateCanon o.N o.x v2 = .ok i2 ∧
      m = extVal o isMax v1 v2 (o.cubicAt i1 v1) (o.cubicAt i2 v2) i1 i2 := by
  unfold pLocalExt at h
  by_cases hlt : v2 < v1
  · simp only [hlt, if_true] at h; cases h
  · simp only [hlt, if_false] at h
    cases h1 : locateCanon o.N o.x v1 with
    | error e => rw [h1] at h; cases h
    | ok i1 =>
      cases h2 : locateCanon o.N o.x v2 with
      | error e => rw [h1, h2] at h; cases h
      | ok i2 =>
        rw [h1, h2] at h
        refine ⟨i1, i2, le_of_not_gt hlt, rfl, rfl, ?_⟩
        injection h with h; exact h.symm

theorem pInterp_inv (o : Obj) {v fv : Rat} (h : pInterp o v = .ok fv) :
    ∃ j, locateCanon o.N o.x v = .ok j ∧ fv = o.cubicAt j v := by
  unfold pInterp at h
  cases hj : locateCanon o.N o.x v with
  | error e => rw [hj] at h; cases h
  | ok j => rw [hj] at h; injection h with h; exact ⟨j, rfl, h.symm⟩

theorem pInterp_located (o : Obj) {v : Rat} {j : Nat} (h : locateCanon o.N o.x v = .ok j) :
    pInterp o v = .ok (o.cubicAt j v) := by
  unfold pInterp; rw [h]

/-- `Interpolate` at a knot returns the tabulated value times the prefactor -/
theorem pInterp_knot {o : Obj} (t : Tbl o) {k : Nat} (hk : k < o.N) : pInterp o (o.x k) = .ok (o.pref * o.y k) := by
  have hN := t.hN
  by_cases h : k + 2 ≤ o.N
  · rw [pInterp_located o (canon_located t (canon_knot t h)), cubicAt_left]
  · have e : k = o.N - 2 + 1 := by omega
    have e' : o.N - 1 = o.N - 2 + 1 := by omega
    have hl := canon_located t (canon_last t)
    rw [e'] at hl
    rw [e, pInterp_located o hl, cubicAt_right t (by omega)]

/-- a candidate knot lies between the limits -/
theorem knot_in_limits {o : Obj} (t : Tbl o) {v1 v2 : Rat} {i1 i2 k : Nat}
    (h1 : locateCanon o.N o.x v1 = .ok i1) (h2 : locateCanon o.N o.x v2 = .ok i2)
    (hf : firstK o v1 v2 i1 ≤ k) (hl : k ≤ lastK o v1 v2 i2) : k < o.N ∧ v1 ≤ o.x k ∧ o.x k ≤ v2 := by
  have hN := t.hN
  have b1 := located_bound t h1
  have b2 := located_bound t h2
  have hkN : k < o.N := by
    have : lastK o v1 v2 i2 ≤ i2 + 1 := by unfold lastK; split <;> omega
    omega
  refine ⟨hkN, ?_, ?_⟩
  · rcases located_cases t h1 with ⟨a1, _⟩ | c1 | ⟨a1, e1⟩
    · exact le_trans (le_of_lt a1) (t.mono.le (Nat.zero_le k) hkN)
    · have hx0 : o.x 0 ≤ v1 := le_trans (t.mono.le (Nat.zero_le i1) (by omega)) c1.2.1
      have : firstK o v1 v2 i1 = i1 + 1 := by
        unfold firstK; rw [if_neg]; intro h; linarith [h.1]
      exact le_trans c1.2.2.1 (t.mono.le (by omega) hkN)
    · exfalso
      have hx0 : o.x 0 ≤ o.x (o.N - 1) := t.mono.le (Nat.zero_le _) (by omega)
      have f : firstK o v1 v2 i1 = i1 + 1 := by
        unfold firstK; rw [if_neg]; intro h; linarith [h.1]
      have l : lastK o v1 v2 i2 = i2 := by
        unfold lastK; rw [if_neg]; intro h; linarith [h.2]
      omega
  · rcases located_cases t h2 with ⟨a2, e2⟩ | c2 | ⟨a2, _⟩
    · exfalso
      have hx0 : o.x 0 ≤ o.x (o.N - 1) := t.mono.le (Nat.zero_le _) (by omega)
      have f : firstK o v1 v2 i1 = i1 + 1 := by
        unfold firstK; rw [if_neg]; intro h; linarith [h.2]
      have l : lastK o v1 v2 i2 = i2 := by
        unfold lastK; rw [if_neg]; intro h; linarith [h.1]
      omega
    · have hxN : v2 ≤ o.x (o.N - 1) := le_trans c2.2.2.1 (t.mono.le (by omega) (by omega))
      have : lastK o v1 v2 i2 = i2 := by
        unfold lastK; rw [if_neg]; intro h; linarith [h.1]
      exact le_trans (t.mono.le (by omega) (by omega)) c2.2.1
    · exact le_trans (t.mono.le (by omega) (by omega)) (le_of_lt a2)

/-! ### an instance with limits in both extrapolation zones (non-vacuity of the `_zone` statements) -/

/-- a straight-line table with a negative prefactor: its edge cubics are monotone beyond the end knots -/
def lin : Obj := { N := 3, xs := #[0, 1, 2], ys := #[0, 1, 2], pref := -2, st := ⟨0, false⟩ }

theorem lin_tbl : Tbl lin :=
  have t := (Lp.C09.mk_WF [0, 1, 2] [0, 1, 2] (-1) (-1) { lin with pref := 1 } (by rfl)).tbl
  ⟨t.hN, t.mono⟩

theorem lin_cubic (j : Nat) (hj : j + 1 < 3) (v : Rat) : Lp.C01.cubic lin.N lin.x lin.y j v = 1 * v + 0 :=
  (Lp.C01.steffen_linear_exact (N := 3) (by decide) (strictInc_of_tbl lin_tbl) (m := 1) (q := 0)
    (fun i hi => by
      rcases i with _ | _ | _ | i
      · decide +kernel
      · decide +kernel
      · decide +kernel
      · omega) hj v).1

theorem lin_mono (j : Nat) (hj : j + 1 < 3) (a b : Rat) : MonoOn lin j a b :=
  Or.inl fun u w _ h _ => by
    show Lp.C01.cubic lin.N lin.x lin.y j u ≤ Lp.C01.cubic lin.N lin.x lin.y j w
    rw [lin_cubic j hj, lin_cubic j hj]; linarith

/-! ### abscissae between an extrapolated limit and the end knot are located on the edge piece -/

theorem zone_left_located {o : Obj} (t : Tbl o) {v w : Rat} {j : Nat} (h : locateCanon o.N o.x v = .ok j)
    (hv : v < o.x 0) (h1 : v ≤ w) (h2 : w < o.x 0) : locateCanon o.N o.x w = .ok 0 := by
  have hN := t.hN
  have h0l : o.x 0 ≤ o.x (o.N - 2) := t.mono.le (by omega) (by omega)
  have hl : o.x (o.N - 2) < o.x (o.N - 1) := t.mono _ _ (by omega) (by omega)
  have h1l : o.x 1 ≤ o.x (o.N - 1) := t.mono.le (by omega) (by omega)
  have h01 : o.x 0 < o.x 1 := t.mono 0 1 (by omega) (by omega)
  have c1 : rabs (v - o.x 0) ≤ (1 : Rat) / 100 * (o.x 1 - o.x 0) := by
    by_contra c1
    unfold locateCanon at h
    rw [locate_out o.N o.x _ v (Or.inl hv)] at h
    unfold edgeIdx at h
    simp only [c1, if_false] at h
    by_cases c2 : rabs (v - o.x (o.N - 1)) ≤ (1 : Rat) / 100 * (o.x (o.N - 1) - o.x (o.N - 2))
    · have c2' := c2
      unfold rabs at c2'
      split at c2' <;> linarith
    · simp only [c2, if_false] at h
      cases h
  have c1w : rabs (w - o.x 0) ≤ (1 : Rat) / 100 * (o.x 1 - o.x 0) := by
    unfold rabs at c1 ⊢
    split at c1 <;> split <;> linarith
  unfold locateCanon
  rw [locate_out o.N o.x _ w (Or.inl h2)]
  unfold edgeIdx
  simp only [c1w, if_true]

theorem zone_right_located {o : Obj} (t : Tbl o) {v w : Rat} {j : Nat} (h : locateCanon o.N o.x v = .ok j)
    (hv : o.x (o.N - 1) < v) (h1 : w ≤ v) (h2 : o.x (o.N - 1) < w) : locateCanon o.N o.x w = .ok (o.N - 2) := by
  have hN := t.hN
  have hl : o.x (o.N - 2) < o.x (o.N - 1) := t.mono _ _ (by omega) (by omega)
  have h1l : o.x 1 ≤ o.x (o.N - 1) := t.mono.le (by omega) (by omega)
  have h01 : o.x 0 < o.x 1 := t.mono 0 1 (by omega) (by omega)
  have nc1 : ∀ u, o.x (o.N - 1) < u → ¬ rabs (u - o.x 0) ≤ (1 : Rat) / 100 * (o.x 1 - o.x 0) := by
    intro u hu c
    unfold rabs at c
    split at c <;> linarith
  have c2 : rabs (v - o.x (o.N - 1)) ≤ (1 : Rat) / 100 * (o.x (o.N - 1) - o.x (o.N - 2)) := by
    by_contra c2
    unfold locateCanon at h
    rw [locate_out o.N o.x _ v (Or.inr hv)] at h
    unfold edgeIdx at h
    simp only [nc1 v hv, c2, if_false] at h
    cases h
  have c2w : rabs (w - o.x (o.N - 1)) ≤ (1 : Rat) / 100 * (o.x (o.N - 1) - o.x (o.N - 2)) := by
    unfold rabs at c2 ⊢
    split at c2 <;> split <;> linarith
  unfold locateCanon
  rw [locate_out o.N o.x _ w (Or.inr h2)]
  unfold edgeIdx
  simp only [nc1 w h2, c2w, if_false, if_true]

/-- a stationary value is the curve at an abscissa strictly inside the window it was asked for -/
theorem mem_stationaryValues {o : Obj} {j : Nat} {lo hi s : Rat} (h : s ∈ o.stationaryValues j lo hi) :
    ∃ w, lo < w ∧ w < hi ∧ s = o.cubicAt j w := by
  unfold Obj.stationaryValues at h
  obtain ⟨t, ht, e⟩ := List.mem_map.mp h
  have hf := (List.mem_filter.mp ht).2
  simp only [decide_eq_true_eq] at hf
  refine ⟨o.x j + t, hf.1, hf.2, ?_⟩
  rw [← e]
  unfold Obj.cubicAt
  rw [show o.x j + t - o.x j = t by ring]

end Lp.C08
