/-
  C07 — densities, CDFs, quantiles and likelihoods are mutually coherent: the property theorems
  (DESIGN.md §6 C07 [T1]).  Model: LpModel/C07.lean; `exp, log, sqrt, erf, pow, π` and the library's
  `Gamma, GammaP, GammaQ, Inv_GammaQ, Inv_Erf` are parameters `T : Fn` and every theorem carries
  exactly the algebraic facts about them it uses.

  Correspondence-only (not theorems): CDF_Poisson = Σ PMF_Poisson (numerical GammaQ), CDF = ∫ pdf
  for Gauss / chi-square / Maxwell–Boltzmann, accuracy of Inv_CDF_Poisson and of Inv_Erf, far tails,
  KDE values and normalisation.
-/
import LpProofs.C07.Sums
-- coverage extension: PDF_Gauss_2D (property theorems in this module)
import LpProofs.C07.Gauss2D
import LpProofs.C07.KDE
import Mathlib.Data.Nat.Choose.Sum
import Mathlib.Tactic.FieldSimp
import Mathlib.Tactic.Positivity

namespace Lp.C07
open Finset

/-! ## Uniform family — complete, no hypotheses on any transcendental function -/

theorem pdfUniform_nonneg (x lo hi : Rat) : 0 ≤ pdfUniform x lo hi := by
  unfold pdfUniform
  split_ifs with h
  · exact le_refl _
  · have h' : lo ≤ x ∧ x ≤ hi := by
      constructor
      · by_contra hc; exact h (Or.inl (not_le.mp hc))
      · by_contra hc; exact h (Or.inr (not_le.mp hc))
    exact div_nonneg zero_le_one (by linarith [h'.1, h'.2])

theorem cdfUniform_range (x lo hi : Rat) (h : lo < hi) : 0 ≤ cdfUniform x lo hi ∧ cdfUniform x lo hi ≤ 1 := by
  unfold cdfUniform
  have hd : 0 < hi - lo := by linarith
  split_ifs with h1 h2
  · exact ⟨le_refl _, zero_le_one⟩
  · exact ⟨zero_le_one, le_refl _⟩
  · refine ⟨div_nonneg (by linarith [not_lt.mp h1]) hd.le, ?_⟩
    rw [div_le_one hd]; linarith [not_lt.mp h2]

theorem cdfUniform_ends (x lo hi : Rat) (h : lo < hi) :
    (x ≤ lo → cdfUniform x lo hi = 0) ∧ (hi ≤ x → cdfUniform x lo hi = 1) := by
  have hd : hi - lo ≠ 0 := by linarith
  constructor
  · intro hx
    unfold cdfUniform
    split_ifs with h1 h2
    · rfl
    · linarith
    · have : x = lo := le_antisymm hx (not_lt.mp h1)
      rw [this]; simp
  · intro hx
    unfold cdfUniform
    split_ifs with h1 h2
    · linarith
    · rfl
    · have : x = hi := le_antisymm (not_lt.mp h2) hx
      rw [this]; exact div_self hd

/-- the CDF in closed form: `clamp((x − lo)/(hi − lo), 0, 1)` -/
theorem cdfUniform_eq_clamp (x lo hi : Rat) (h : lo < hi) :
    cdfUniform x lo hi = (max lo (min x hi) - lo) / (hi - lo) := by
  have hd : hi - lo ≠ 0 := by linarith
  unfold cdfUniform
  split_ifs with h1 h2
  · rw [max_eq_left (le_trans (min_le_left _ _) h1.le)]; simp
  · rw [min_eq_right h2.le, max_eq_right h.le, div_self hd]
  · rw [min_eq_left (not_lt.mp h2), max_eq_right (not_lt.mp h1)]

theorem cdfUniform_mono (x y lo hi : Rat) (h : lo < hi) (hxy : x ≤ y) : cdfUniform x lo hi ≤ cdfUniform y lo hi := by
  rw [cdfUniform_eq_clamp x lo hi h, cdfUniform_eq_clamp y lo hi h]
  have hd : 0 < hi - lo := by linarith
  apply div_le_div_of_nonneg_right _ hd.le
  have : max lo (min x hi) ≤ max lo (min y hi) := max_le_max (le_refl _) (min_le_min hxy (le_refl _))
  linarith

/-- **CDF difference = exact integral of the piece-wise constant density**:
    `cdf b − cdf a = length([a,b] ∩ [lo,hi]) / (hi − lo)` -/
theorem cdfUniform_diff (a b lo hi : Rat) (h : lo < hi) (hab : a ≤ b) :
    cdfUniform b lo hi - cdfUniform a lo hi = max 0 (min b hi - max a lo) / (hi - lo) := by
  rw [cdfUniform_eq_clamp a lo hi h, cdfUniform_eq_clamp b lo hi h, ← sub_div]
  congr 1
  rcases le_total a lo with h1 | h1 <;> rcases le_total a hi with h2 | h2 <;> rcases le_total b lo with h3 | h3 <;>
    rcases le_total b hi with h4 | h4 <;>
    simp only [min_def, max_def] <;> split_ifs <;> linarith

example : cdfUniform 3 1 5 - cdfUniform 0 1 5 = 1 / 2 := by decide +kernel

/-! ## Non-negativity of every density / mass function -/

theorem pdfGauss_nonneg (T : Fn) (hexp : ∀ y, 0 < T.exp y) (hsq : ∀ y, 0 ≤ T.sqrt y) (x mu sigma : Rat) (hs : 0 < sigma) :
    0 ≤ pdfGauss T x mu sigma := by
  unfold pdfGauss
  exact mul_nonneg (div_nonneg (div_nonneg zero_le_one (hsq _)) hs.le) (hexp _).le

theorem pmfBinomial_nonneg (binom : Nat → Nat → Rat) (hb : ∀ n k, 0 ≤ binom n k) (t : Nat) (p : Rat) (x : Nat) (v : Rat)
    (h : pmfBinomial binom t p x = .ok v) : 0 ≤ v := by
  unfold pmfBinomial at h
  split_ifs at h with hp
  cases h
  have h0 : 0 ≤ p := by by_contra hc; exact hp (Or.inl (not_le.mp hc))
  have h1 : 0 ≤ 1 - p := by
    have : p ≤ 1 := by by_contra hc; exact hp (Or.inr (not_le.mp hc))
    linarith
  exact mul_nonneg (mul_nonneg (hb _ _) (pow_nonneg h0 _)) (pow_nonneg h1 _)

theorem pmfPoisson_nonneg (T : Fn) (hexp : ∀ y, 0 < T.exp y) (mu : Rat) (n : Nat) (v : Rat) (h : pmfPoisson T mu n = .ok v) : 0 ≤ v := by
  unfold pmfPoisson at h
  split_ifs at h <;> cases h
  · exact zero_le_one
  · exact le_refl _
  · exact (hexp _).le

theorem pdfChiSq_nonneg (T : Fn) (hexp : ∀ y, 0 < T.exp y) (x dof : Rat) : 0 ≤ pdfChiSq T x dof := by
  unfold pdfChiSq
  split_ifs with h
  · exact le_refl _
  · exact (hexp _).le

theorem pdfExponential_nonneg (T : Fn) (hexp : ∀ y, 0 < T.exp y) (x mean v : Rat) (h : pdfExponential T x mean = .ok v) : 0 ≤ v := by
  unfold pdfExponential at h
  split_ifs at h with h1 h2 <;> cases h
  · exact le_refl _
  · exact mul_nonneg (div_nonneg zero_le_one (not_le.mp h1).le) (hexp _).le

theorem pdfMB_nonneg (T : Fn) (hexp : ∀ y, 0 < T.exp y) (hsq : ∀ y, 0 ≤ T.sqrt y) (x a v : Rat) (h : pdfMB T x a = .ok v) : 0 ≤ v := by
  unfold pdfMB at h
  split_ifs at h with h1 h2 <;> cases h
  · exact le_refl _
  · have ha : 0 ≤ a := (not_le.mp h1).le
    have hx : 0 ≤ x := not_lt.mp h2
    exact mul_nonneg (div_nonneg (div_nonneg (div_nonneg (mul_nonneg (mul_nonneg (hsq _) hx) hx) ha) ha) ha) (hexp _).le

/-! ## Binomial: the CDF is the sum of the mass function, and the masses sum to one -/

theorem cdfBinomialSum_eq (binom : Nat → Nat → Rat) (t : Nat) (p : Rat) (x : Nat) :
    cdfBinomialSum binom t p x = ∑ i ∈ Finset.range (x + 1), binom t i * p ^ i * (1 - p) ^ (t - i) := by
  unfold cdfBinomialSum; exact foldl_range_add _ _

/-- the coded CDF (after `fix:` 1f73a00): below the number of trials it is `min(1, Σ_{i≤x} pmf)`, from there on 1 -/
theorem cdf_binomial_is_sum (binom : Nat → Nat → Rat) (t : Nat) (p : Rat) (x : Nat) (hp : 0 ≤ p ∧ p ≤ 1) :
    (x < t → cdfBinomial binom t p x = .ok (rmin 1 (∑ i ∈ Finset.range (x + 1), binom t i * p ^ i * (1 - p) ^ (t - i)))) ∧
      (t ≤ x → cdfBinomial binom t p x = .ok 1) ∧
      ∀ i, pmfBinomial binom t p i = .ok (binom t i * p ^ i * (1 - p) ^ (t - i)) := by
  have h : ¬ (p < 0 ∨ p > 1) := by intro h; rcases h with h | h <;> linarith [hp.1, hp.2]
  refine ⟨?_, ?_, ?_⟩
  · intro hx
    unfold cdfBinomial
    rw [if_neg h, if_neg (by omega), cdfBinomialSum_eq]
  · intro hx
    unfold cdfBinomial
    rw [if_neg h, if_pos hx]
  · intro i; unfold pmfBinomial; rw [if_neg h]

/-- the binomial theorem: the masses sum to one -/
theorem binomial_masses_total (t : Nat) (p : Rat) :
    ∑ i ∈ Finset.range (t + 1), ((t.choose i : Nat) : Rat) * p ^ i * (1 - p) ^ (t - i) = 1 := by
  have key := add_pow p (1 - p) t
  have e : p + (1 - p) = 1 := by ring
  rw [e, one_pow] at key
  refine Eq.trans ?_ key.symm
  apply Finset.sum_congr rfl
  intro i _
  ring

theorem binomial_partial_le_one (t : Nat) (p : Rat) (hp : 0 ≤ p ∧ p ≤ 1) (x : Nat) (hx : x ≤ t) :
    ∑ i ∈ Finset.range (x + 1), ((t.choose i : Nat) : Rat) * p ^ i * (1 - p) ^ (t - i) ≤ 1 := by
  have h1 : 0 ≤ 1 - p := by linarith [hp.2]
  refine le_trans ?_ (le_of_eq (binomial_masses_total t p))
  apply Finset.sum_le_sum_of_subset_of_nonneg
  · exact Finset.range_mono (by omega)
  · intro i _ _
    exact mul_nonneg (mul_nonneg (Nat.cast_nonneg _) (pow_nonneg hp.1 _)) (pow_nonneg h1 _)

/-- **the CDF is the sum of the mass function** (with `Binomial_Coefficient = C(n,k)`, C06), for every `x`:
    the `min(1, ·)` and the early return of `fix:` 1f73a00 are value-neutral in exact arithmetic -/
theorem cdf_binomial_is_sum_choose (t : Nat) (p : Rat) (x : Nat) (hp : 0 ≤ p ∧ p ≤ 1) :
    cdfBinomial (fun n k => ((n.choose k : Nat) : Rat)) t p x =
      .ok (∑ i ∈ Finset.range (min x t + 1), ((t.choose i : Nat) : Rat) * p ^ i * (1 - p) ^ (t - i)) := by
  by_cases hx : x < t
  · rw [(cdf_binomial_is_sum _ t p x hp).1 hx, Nat.min_eq_left hx.le]
    have := binomial_partial_le_one t p hp x hx.le
    unfold rmin
    split_ifs with h
    · rfl
    · congr 1; linarith [not_lt.mp h]
  · have hx' : t ≤ x := not_lt.mp hx
    rw [(cdf_binomial_is_sum _ t p x hp).2.1 hx', Nat.min_eq_right hx', binomial_masses_total]

/-- normalised: `CDF(trials) = 1` -/
theorem cdf_binomial_total (t : Nat) (p : Rat) (hp : 0 ≤ p ∧ p ≤ 1) :
    cdfBinomial (fun n k => ((n.choose k : Nat) : Rat)) t p t = .ok 1 :=
  (cdf_binomial_is_sum _ t p t hp).2.1 (le_refl _)

/-- the CDF never exceeds one, whatever `Binomial_Coefficient` returns (exact clause after `fix:` 1f73a00) -/
theorem cdf_binomial_le_one (binom : Nat → Nat → Rat) (t : Nat) (p : Rat) (x : Nat) (v : Rat)
    (h : cdfBinomial binom t p x = .ok v) : v ≤ 1 := by
  unfold cdfBinomial at h
  split_ifs at h with h1 h2
  · cases h; exact le_refl _
  · cases h; unfold rmin; split_ifs with h3
    · exact h3.le
    · exact le_refl _

theorem binomial_guard (binom : Nat → Nat → Rat) (t : Nat) (p : Rat) (x : Nat) (hp : p < 0 ∨ p > 1) :
    pmfBinomial binom t p x = .error .diag ∧ cdfBinomial binom t p x = .error .diag := by
  unfold pmfBinomial cdfBinomial; rw [if_pos hp, if_pos hp]; exact ⟨rfl, rfl⟩

/-! ## Chi-square = regularized incomplete gamma; chi-bar-square = mixture -/

/-- **cdf_chisq_is_P**: on the support the CDF is the regularized incomplete gamma function -/
theorem cdf_chisq_is_P (T : Fn) (x dof : Rat) (hx : 0 ≤ x) (hd : dofEps ≤ rabs dof) :
    cdfChiSq T x dof = T.gammaP (x / 2) (dof / 2) := by
  unfold cdfChiSq
  rw [if_neg (not_lt.mpr hx), if_neg (not_lt.mpr hd)]

/-- the product form used before the repair agrees with it whenever `Gamma(dof/2)` is a non-zero
    number (it is `inf` in double for dof/2 > 171.6: the repaired overflow) -/
theorem cdf_chisq_product_form (T : Fn) (x dof : Rat) (hg : T.gamma (dof / 2) ≠ 0) :
    cdfChiSqProduct T x dof = cdfChiSq T x dof := by
  unfold cdfChiSqProduct cdfChiSq lowerGamma
  split_ifs <;> first | rfl | (field_simp)

theorem cdfChiSq_dof_zero (T : Fn) (x : Rat) (hx : 0 ≤ x) : cdfChiSq T x 0 = 1 := by
  unfold cdfChiSq
  rw [if_neg (not_lt.mpr hx), if_pos (by unfold rabs dofEps; norm_num)]

/-- **chibar_is_mixture**: below the clip the CDF is `Σ_k w_k · CDF_χ²(x; k)`, the `k = 0` term being `w_0`;
    the density is `Σ_{k ≥ 1} w_k · pdf_χ²(x; k)` -/
theorem chibar_is_mixture (T : Fn) (x : Rat) (w : List Rat) :
    cdfChiBarSum T x w = ∑ k ∈ Finset.range w.length, w.getD k 0 * cdfChiSq T x ((k : Nat) : Rat) ∧
      (0 < x → pdfChiBar T x w = ∑ k ∈ Finset.range (w.length - 1), w.getD (k + 1) 0 * pdfChiSq T x ((k + 1 : Nat) : Rat)) ∧
      (0 ≤ x → cdfChiBarSum T x w ≤ 1 → cdfChiBar T x w = cdfChiBarSum T x w) ∧ (x < 0 → cdfChiBar T x w = 0) := by
  refine ⟨foldl_range_add _ _, ?_, ?_, ?_⟩
  · intro hx
    unfold pdfChiBar
    rw [if_neg (not_le.mpr hx)]
    exact foldl_range_add _ _
  · intro hx h1
    unfold cdfChiBar
    rw [if_neg (not_lt.mpr hx)]
    simp only
    rw [if_neg (not_lt.mpr h1)]
  · intro hx
    unfold cdfChiBar
    rw [if_pos hx]

/-- linear in the weights -/
theorem chibar_linear (T : Fn) (x c : Rat) (w : List Rat) :
    cdfChiBarSum T x (w.map (c * ·)) = c * cdfChiBarSum T x w := by
  rw [(chibar_is_mixture T x _).1, (chibar_is_mixture T x w).1, Finset.mul_sum, List.length_map]
  apply Finset.sum_congr rfl
  intro k hk
  have hk' : k < w.length := Finset.mem_range.mp hk
  simp [List.getD_eq_getElem?_getD, hk', mul_assoc]

/-! ## Exponential and normal CDFs are monotone with range [0,1] (from monotone `exp` / `erf`) -/

theorem cdfExponential_mono (T : Fn) (hmono : ∀ a b, a ≤ b → T.exp a ≤ T.exp b) (h0 : T.exp 0 = 1) (hpos : ∀ y, 0 < T.exp y)
    (x y mean vx vy : Rat) (hm : 0 < mean) (hxy : x ≤ y)
    (hx : cdfExponential T x mean = .ok vx) (hy : cdfExponential T y mean = .ok vy) : vx ≤ vy ∧ 0 ≤ vx ∧ vx ≤ 1 := by
  unfold cdfExponential at hx hy
  rw [if_neg (not_le.mpr hm)] at hx hy
  have key : ∀ z, 0 ≤ z → T.exp (-1 / mean * z) ≤ 1 := by
    intro z hz
    have e : -1 / mean * z = -(z / mean) := by field_simp
    have hz' : 0 ≤ z / mean := div_nonneg hz hm.le
    calc T.exp (-1 / mean * z) ≤ T.exp 0 := hmono _ _ (by rw [e]; linarith)
      _ = 1 := h0
  split_ifs at hx hy with h1 h2 h2
  · cases hx; cases hy; exact ⟨le_refl _, le_refl _, zero_le_one⟩
  · cases hx; cases hy
    exact ⟨by linarith [key y (not_lt.mp h2)], le_refl _, zero_le_one⟩
  · linarith
  · cases hx; cases hy
    refine ⟨?_, by linarith [key x (not_lt.mp h1)], by linarith [hpos (-1 / mean * x)]⟩
    have : T.exp (-1 / mean * y) ≤ T.exp (-1 / mean * x) := by
      apply hmono
      have e1 : -1 / mean * y = -(y / mean) := by field_simp
      have e2 : -1 / mean * x = -(x / mean) := by field_simp
      rw [e1, e2]
      have : x / mean ≤ y / mean := div_le_div_of_nonneg_right hxy hm.le
      linarith
    linarith

theorem cdfGauss_mono (T : Fn) (hmono : ∀ a b, a ≤ b → T.erf a ≤ T.erf b) (hs2 : 0 < T.sqrt 2)
    (x y mu sigma : Rat) (hs : 0 < sigma) (hxy : x ≤ y) : cdfGauss T x mu sigma ≤ cdfGauss T y mu sigma := by
  unfold cdfGauss
  have : T.erf ((x - mu) / (T.sqrt 2 * sigma)) ≤ T.erf ((y - mu) / (T.sqrt 2 * sigma)) := by
    apply hmono
    exact div_le_div_of_nonneg_right (by linarith) (mul_pos hs2 hs).le
  linarith

theorem cdfGauss_range (T : Fn) (herf : ∀ y, -1 ≤ T.erf y ∧ T.erf y ≤ 1) (x mu sigma : Rat) :
    0 ≤ cdfGauss T x mu sigma ∧ cdfGauss T x mu sigma ≤ 1 := by
  unfold cdfGauss
  have := herf ((x - mu) / (T.sqrt 2 * sigma))
  constructor <;> linarith [this.1, this.2]

/-- **quantile_gauss_inverts**: `CDF_Gauss(Quantile_Gauss(p)) = p` given `erf(invErf q) = q` on the root branch -/
theorem quantile_gauss_inverts (T : Fn) (p mu sigma q : Rat) (hs : sigma ≠ 0) (hs2 : T.sqrt 2 ≠ 0)
    (hroot : ¬ rabs (2 * p - 1 - 1) < 1e-16) (hroot' : ¬ rabs (2 * p - 1 + 1) < 1e-16) (herf : T.erf (T.invErf (2 * p - 1)) = 2 * p - 1)
    (hq : quantileGauss T p mu sigma = .ok q) : cdfGauss T q mu sigma = p := by
  unfold quantileGauss invErfSym at hq
  rw [if_neg hroot, if_neg hroot'] at hq
  split_ifs at hq with h2
  · cases hq
  · cases hq
    unfold cdfGauss
    have : (mu + T.sqrt 2 * sigma * T.invErf (2 * p - 1) - mu) / (T.sqrt 2 * sigma) = T.invErf (2 * p - 1) := by
      field_simp
      ring
    rw [this, herf]
    ring

theorem quantile_gauss_guard (T : Fn) (p mu sigma : Rat) (hp : p ≤ -1e-16 ∨ 1 + 1e-16 ≤ p) : quantileGauss T p mu sigma = .error .diag := by
  unfold quantileGauss invErfSym
  have h1' : ¬ rabs (2 * p - 1 + 1) < 1e-16 := by
    unfold rabs; rcases hp with h | h <;> split_ifs <;> norm_num at * <;> linarith
  have h1 : ¬ rabs (2 * p - 1 - 1) < 1e-16 := by
    unfold rabs; rcases hp with h | h <;> split_ifs <;> norm_num at * <;> linarith
  have h2 : rabs (2 * p - 1) ≥ 1 := by
    unfold rabs; rcases hp with h | h <;> split_ifs <;> norm_num at * <;> linarith
  by_cases hs : sigma < 0
  · rw [if_pos hs]
  · rw [if_neg hs, if_neg h1, if_neg h1', if_pos h2]; rfl

/-- `fix:` d65f15f: a negative standard deviation is rejected (zero is accepted: the quantile is `mu`) -/
theorem quantile_gauss_sigma_guard (T : Fn) (p mu sigma : Rat) (hs : sigma < 0) : quantileGauss T p mu sigma = .error .diag := by
  unfold quantileGauss; rw [if_pos hs]

/-! ## Likelihoods -/

/-- **likelihood_is_pmf**: `Likelihood_Poisson(s, n, b) = PMF_Poisson(s + b, n)` (needs only `log 1 = 0`) -/
theorem likelihood_is_pmf (T : Fn) (hlog1 : T.log 1 = 0) (s b : Rat) (n : Nat) (h : 0 < s + b) :
    pmfPoisson T (s + b) n = .ok (likelihoodPoisson T s n b) := by
  unfold pmfPoisson likelihoodPoisson logLikelihoodPoisson
  rw [if_neg (by linarith), if_neg (by intro hh; linarith [hh.1]), if_neg (by intro hh; linarith [hh.1])]
  congr 2
  rcases Nat.eq_zero_or_pos n with rfl | hn
  · simp [sumLog]
  · rw [if_neg (by omega), sumLog_one_two T n hn, hlog1]; ring

/-- the log version is the logarithm (needs `log ∘ exp = id`) -/
theorem log_likelihood_is_log (T : Fn) (hle : ∀ y, T.log (T.exp y) = y) (s b : Rat) (n : Nat) :
    T.log (likelihoodPoisson T s n b) = logLikelihoodPoisson T s n b := hle _

/-- mismatched bin counts → diagnostic -/
theorem binned_mismatch (T : Fn) (s : List Rat) (n : List Nat) (b : List Rat)
    (h : n.length ≠ s.length ∨ (¬ b.isEmpty ∧ b.length ≠ s.length)) :
    logLikelihoodBinned T s n b = .error .diag ∧ likelihoodBinned T s n b = .error .diag := by
  have hb : bins s n b = .error .diag := by
    unfold bins
    rcases h with h | ⟨h1, h2⟩
    · simp [h]
    · simp [h1, h2]
  unfold likelihoodBinned logLikelihoodBinned
  rw [hb]; exact ⟨rfl, rfl⟩

/-- **binned = product over bins** (needs `exp 0 = 1`, `exp (a+b) = exp a · exp b`); log version = sum -/
theorem binned_is_product (T : Fn) (h0 : T.exp 0 = 1) (hadd : ∀ a b, T.exp (a + b) = T.exp a * T.exp b)
    (s : List Rat) (n : List Nat) (b : List Rat) (l : List (Rat × Nat × Rat)) (hb : bins s n b = .ok l)
    (hnn : ∀ t ∈ l, 0 ≤ t.1 ∧ 0 ≤ t.2.2) :
    logLikelihoodBinned T s n b = .ok ((l.map (fun t => logLikelihoodPoisson T t.1 t.2.1 t.2.2)).sum) ∧
      likelihoodBinned T s n b = .ok ((l.map (fun t => likelihoodPoisson T t.1 t.2.1 t.2.2)).prod) := by
  have e1 : logLikelihoodBinned T s n b = .ok ((l.map (fun t => logLikelihoodPoisson T t.1 t.2.1 t.2.2)).sum) := by
    unfold logLikelihoodBinned
    rw [hb]
    have hany : l.any (fun t => decide (t.1 < 0 ∨ t.2.2 < 0)) = false := by
      rw [List.any_eq_false]
      intro t ht
      have := hnn t ht
      simp only [decide_eq_true_eq]
      intro h; rcases h with h | h <;> linarith [this.1, this.2]
    simp only [hany]
    show Except.ok (List.foldl (fun acc t => acc + logLikelihoodPoisson T t.1 t.2.1 t.2.2) 0 l) = _
    rw [foldl_add_eq_sum (fun t => logLikelihoodPoisson T t.1 t.2.1 t.2.2) l 0, zero_add]
  refine ⟨e1, ?_⟩
  unfold likelihoodBinned
  rw [e1]
  show Except.ok _ = _
  congr 1
  exact exp_list_sum T h0 hadd (fun t => logLikelihoodPoisson T t.1 t.2.1 t.2.2) l

/-! ## KDE: pseudo-data indices, non-negativity of the tabulated values -/

/-- the pseudo-data loop reads `data[2i]`, `data[3i]` only inside the sample (`i < N/3`) -/
theorem kde_pseudo_indices (N i : Nat) (h : i < nPseudo N) : 2 * i < N ∧ 3 * i < N := by
  unfold nPseudo at h
  omega

/-! ## non-vacuity: a parameter record meeting the algebraic hypotheses used above
    (`exp ≡ 1`, `log ≡ 0`, `erf ≡ 0`: every law that is used holds; the laws are those of the real functions) -/

def Ttriv : Fn := ⟨fun _ => 1, fun _ => 0, fun _ => 1, fun _ => 0, fun _ _ => 1, 3, fun _ => 1, fun _ => 0, fun _ _ => 1, fun _ _ => 0, fun _ _ => 0, fun _ => 0⟩

example : Ttriv.exp 0 = 1 ∧ (∀ a b, Ttriv.exp (a + b) = Ttriv.exp a * Ttriv.exp b) ∧ (∀ y, 0 < Ttriv.exp y) ∧
    (∀ a b, a ≤ b → Ttriv.exp a ≤ Ttriv.exp b) ∧ Ttriv.log 1 = 0 ∧ (∀ a b, a ≤ b → Ttriv.erf a ≤ Ttriv.erf b) ∧
    (∀ y, -1 ≤ Ttriv.erf y ∧ Ttriv.erf y ≤ 1) ∧ 0 < Ttriv.sqrt 2 := by
  simp [Ttriv]

example : bins [1, 2] [3, 4] [] = .ok [(1, 3, 0), (2, 4, 0)] := by decide +kernel
example : bins [1, 2] [3] [] = .error .diag := by decide +kernel
example : cdfBinomial chooseR 5 (1 / 3) 5 = .ok 1 := by decide +kernel
example : pmfBinomial chooseR 5 (1 / 3) 2 = .ok (80 / 243) := by decide +kernel
example : (quantileGauss Ttriv (1 / 4) 0 1) = .ok 0 ∧ quantileGauss Ttriv 0 0 1 = .ok (-10) ∧ quantileGauss Ttriv 1 0 1 = .ok 10 ∧ quantileGauss Ttriv (-1) 0 1 = .error .diag := by
  decide +kernel
example : cdfChiSq Ttriv 1 0 = 1 ∧ cdfChiSq Ttriv (-1) 3 = 0 ∧ pdfChiSq Ttriv 0 3 = 0 := by decide +kernel

/-! ## Empty bins and explicit backgrounds -/

/-- a bin without predicted signal and without observed events still contributes `exp(-b)` -/
theorem likelihood_empty_bin (T : Fn) (b : Rat) : likelihoodPoisson T 0 0 b = T.exp (-b) := by
  unfold likelihoodPoisson logLikelihoodPoisson
  congr 1
  simp

/-- with an explicit background vector of the right length the bins are the triples `(s_i, n_i, b_i)` -/
theorem bins_explicit (s : List Rat) (n : List Nat) (b : List Rat) (hb : b ≠ []) (hn : n.length = s.length) (hl : b.length = s.length) :
    bins s n b = .ok (s.zip (n.zip b)) := by
  unfold bins
  have : b.isEmpty = false := by cases b <;> simp_all
  simp [this, hn, hl]

/-- the binned likelihood of `(0, 0, b₀)` followed by further bins is `exp(-b₀)` times the rest: no bin may be skipped -/
theorem binned_empty_bin_factor (T : Fn) (h0 : T.exp 0 = 1) (hadd : ∀ a b, T.exp (a + b) = T.exp a * T.exp b)
    (b0 : Rat) (s : List Rat) (n : List Nat) (b : List Rat) (hn : n.length = s.length) (hl : b.length = s.length)
    (hb0 : 0 ≤ b0) (hnn : ∀ t ∈ s.zip (n.zip b), 0 ≤ t.1 ∧ 0 ≤ t.2.2) :
    likelihoodBinned T (0 :: s) (0 :: n) (b0 :: b) =
      .ok (T.exp (-b0) * ((s.zip (n.zip b)).map (fun t => likelihoodPoisson T t.1 t.2.1 t.2.2)).prod) := by
  have hb := bins_explicit (0 :: s) (0 :: n) (b0 :: b) (by simp) (by simp [hn]) (by simp [hl])
  have hnn' : ∀ t ∈ ((0 : Rat) :: s).zip (((0 : Nat) :: n).zip (b0 :: b)), 0 ≤ t.1 ∧ 0 ≤ t.2.2 := by
    intro t ht
    simp only [List.zip_cons_cons, List.mem_cons] at ht
    rcases ht with rfl | ht
    · exact ⟨le_refl _, hb0⟩
    · exact hnn t ht
  rw [(binned_is_product T h0 hadd _ _ _ _ hb hnn').2]
  simp [likelihood_empty_bin]

example : bins [0, 2] [0, 3] [1, 0] = .ok [(0, 0, 1), (2, 3, 0)] := by decide +kernel

/-! ## Scale families: density(c·x; c·a) = density(x; a)/c, CDF(c·x; c·a) = CDF(x; a) for every c > 0
    (no hypothesis on the transcendental parameters: the arguments handed to them are equal) -/

theorem pdfMB_scale (T : Fn) (c x a : Rat) (hc : 0 < c) :
    pdfMB T (c * x) (c * a) = (pdfMB T x a).map (fun v => v / c) := by
  unfold pdfMB
  by_cases ha : a ≤ 0
  · have : c * a ≤ 0 := mul_nonpos_of_nonneg_of_nonpos hc.le ha
    rw [if_pos ha, if_pos this]; rfl
  · have ha' : 0 < a := not_le.mp ha
    have : ¬ c * a ≤ 0 := not_le.mpr (mul_pos hc ha')
    rw [if_neg ha, if_neg this]
    by_cases hx : x < 0
    · have : c * x < 0 := mul_neg_of_pos_of_neg hc hx
      rw [if_pos hx, if_pos this]; simp [Except.map]
    · have : ¬ c * x < 0 := not_lt.mpr (mul_nonneg hc.le (not_lt.mp hx))
      rw [if_neg hx, if_neg this]
      simp only [Except.map]
      have e : -(c * x) * (c * x) / 2 / (c * a) / (c * a) = -x * x / 2 / a / a := by field_simp
      rw [e]
      congr 1
      field_simp

theorem cdfMB_scale (T : Fn) (c x a : Rat) (hc : 0 < c) : cdfMB T (c * x) (c * a) = cdfMB T x a := by
  unfold cdfMB
  by_cases ha : a ≤ 0
  · have : c * a ≤ 0 := mul_nonpos_of_nonneg_of_nonpos hc.le ha
    rw [if_pos ha, if_pos this]
  · have ha' : 0 < a := not_le.mp ha
    have : ¬ c * a ≤ 0 := not_le.mpr (mul_pos hc ha')
    rw [if_neg ha, if_neg this]
    by_cases hx : x < 0
    · have : c * x < 0 := mul_neg_of_pos_of_neg hc hx
      rw [if_pos hx, if_pos this]
    · have : ¬ c * x < 0 := not_lt.mpr (mul_nonneg hc.le (not_lt.mp hx))
      rw [if_neg hx, if_neg this]
      have e1 : -(c * x) * (c * x) / 2 / (c * a) / (c * a) = -x * x / 2 / a / a := by field_simp
      have e2 : c * x / T.sqrt 2 / (c * a) = x / T.sqrt 2 / a := by
        by_cases h2 : T.sqrt 2 = 0
        · simp [h2]
        · field_simp
      have e3 : T.sqrt (2 / T.pi) * (c * x) / (c * a) = T.sqrt (2 / T.pi) * x / a := by field_simp
      have e4 : c * x / (c * a) = x / a := by field_simp
      rw [e1, e2, e3, e4]

theorem pdfExponential_scale (T : Fn) (c x m : Rat) (hc : 0 < c) :
    pdfExponential T (c * x) (c * m) = (pdfExponential T x m).map (fun v => v / c) := by
  unfold pdfExponential
  by_cases hm : m ≤ 0
  · have : c * m ≤ 0 := mul_nonpos_of_nonneg_of_nonpos hc.le hm
    rw [if_pos hm, if_pos this]; rfl
  · have hm' : 0 < m := not_le.mp hm
    have : ¬ c * m ≤ 0 := not_le.mpr (mul_pos hc hm')
    rw [if_neg hm, if_neg this]
    by_cases hx : x < 0
    · have : c * x < 0 := mul_neg_of_pos_of_neg hc hx
      rw [if_pos hx, if_pos this]; simp [Except.map]
    · have : ¬ c * x < 0 := not_lt.mpr (mul_nonneg hc.le (not_lt.mp hx))
      rw [if_neg hx, if_neg this]
      simp only [Except.map]
      have e : -1 / (c * m) * (c * x) = -1 / m * x := by field_simp
      rw [e]
      congr 1
      field_simp

theorem cdfExponential_scale (T : Fn) (c x m : Rat) (hc : 0 < c) : cdfExponential T (c * x) (c * m) = cdfExponential T x m := by
  unfold cdfExponential
  by_cases hm : m ≤ 0
  · have : c * m ≤ 0 := mul_nonpos_of_nonneg_of_nonpos hc.le hm
    rw [if_pos hm, if_pos this]
  · have hm' : 0 < m := not_le.mp hm
    have : ¬ c * m ≤ 0 := not_le.mpr (mul_pos hc hm')
    rw [if_neg hm, if_neg this]
    by_cases hx : x < 0
    · have : c * x < 0 := mul_neg_of_pos_of_neg hc hx
      rw [if_pos hx, if_pos this]
    · have : ¬ c * x < 0 := not_lt.mpr (mul_nonneg hc.le (not_lt.mp hx))
      rw [if_neg hx, if_neg this]
      have e : -1 / (c * m) * (c * x) = -1 / m * x := by field_simp
      rw [e]

theorem pdfGauss_scale (T : Fn) (c x mu sigma : Rat) (hc : 0 < c) (hs : sigma ≠ 0) :
    pdfGauss T (c * x) (c * mu) (c * sigma) = pdfGauss T x mu sigma / c := by
  unfold pdfGauss
  have e : (c * x - c * mu) / (c * sigma) = (x - mu) / sigma := by field_simp
  rw [e]
  by_cases h2 : T.sqrt (2 * T.pi) = 0
  · simp [h2]
  · field_simp

theorem cdfGauss_scale (T : Fn) (c x mu sigma : Rat) (hc : 0 < c) :
    cdfGauss T (c * x) (c * mu) (c * sigma) = cdfGauss T x mu sigma := by
  unfold cdfGauss
  have e : (c * x - c * mu) / (T.sqrt 2 * (c * sigma)) = (x - mu) / (T.sqrt 2 * sigma) := by
    by_cases h2 : T.sqrt 2 = 0
    · simp [h2]
    · by_cases hs : sigma = 0
      · simp [hs]
      · field_simp
  rw [e]

/-! ## No observed events (audit defect 15) -/

/-- no observed events: the log-likelihood is `-(s+b)` — the logarithm drops out (`0 * log _ = 0` in exact arithmetic), so
    the early return `if(N_observed == 0) return -(s+b)` proposed for `Likelihood_Poisson(0,0,0) = nan` is value-neutral in the model -/
theorem logLikelihood_zero_obs (T : Fn) (s b : Rat) : logLikelihoodPoisson T s 0 b = -(s + b) := by
  unfold logLikelihoodPoisson
  simp [sumLog]

/-- … and the mass function at mean 0, count 0 is 1: the value the likelihood must have for `s + b = 0`, `n = 0` given `exp 0 = 1` -/
theorem likelihood_000 (T : Fn) (h0 : T.exp 0 = 1) : likelihoodPoisson T 0 0 0 = 1 ∧ pmfPoisson T 0 0 = .ok 1 := by
  constructor
  · unfold likelihoodPoisson; rw [logLikelihood_zero_obs]; simpa using h0
  · unfold pmfPoisson; simp

section Fixes
open Lp.Interp

/-! ## Parameter guards of `fix:` d65f15f: rejected exactly outside the parameter range, otherwise the formula -/

theorem uniformE_spec (x lo hi : Rat) :
    (hi ≤ lo → pdfUniformE x lo hi = .error .diag ∧ cdfUniformE x lo hi = .error .diag) ∧
      (lo < hi → pdfUniformE x lo hi = .ok (pdfUniform x lo hi) ∧ cdfUniformE x lo hi = .ok (cdfUniform x lo hi)) := by
  unfold pdfUniformE cdfUniformE
  constructor
  · intro h; rw [if_pos h, if_pos h]; exact ⟨rfl, rfl⟩
  · intro h; rw [if_neg (not_le.mpr h), if_neg (not_le.mpr h)]; exact ⟨rfl, rfl⟩

theorem gaussE_spec (T : Fn) (x mu sigma : Rat) :
    (sigma ≤ 0 → pdfGaussE T x mu sigma = .error .diag ∧ cdfGaussE T x mu sigma = .error .diag) ∧
      (0 < sigma → pdfGaussE T x mu sigma = .ok (pdfGauss T x mu sigma) ∧ cdfGaussE T x mu sigma = .ok (cdfGauss T x mu sigma)) := by
  unfold pdfGaussE cdfGaussE
  constructor
  · intro h; rw [if_pos h, if_pos h]; exact ⟨rfl, rfl⟩
  · intro h; rw [if_neg (not_le.mpr h), if_neg (not_le.mpr h)]; exact ⟨rfl, rfl⟩

theorem chiSqE_spec (T : Fn) (x dof : Rat) :
    (dof < 0 → pdfChiSqE T x dof = .error .diag ∧ cdfChiSqE T x dof = .error .diag) ∧
      (0 ≤ dof → pdfChiSqE T x dof = .ok (pdfChiSq T x dof) ∧ cdfChiSqE T x dof = .ok (cdfChiSq T x dof)) := by
  unfold pdfChiSqE cdfChiSqE
  constructor
  · intro h; rw [if_pos h, if_pos h]; exact ⟨rfl, rfl⟩
  · intro h; rw [if_neg (not_lt.mpr h), if_neg (not_lt.mpr h)]; exact ⟨rfl, rfl⟩

theorem logLikelihoodE_spec (T : Fn) (s b : Rat) (n : Nat) :
    ((s < 0 ∨ b < 0) → logLikelihoodPoissonE T s n b = .error .diag ∧ likelihoodPoissonE T s n b = .error .diag) ∧
      (0 ≤ s → 0 ≤ b → logLikelihoodPoissonE T s n b = .ok (logLikelihoodPoisson T s n b) ∧
        likelihoodPoissonE T s n b = .ok (likelihoodPoisson T s n b)) := by
  unfold likelihoodPoissonE logLikelihoodPoissonE
  constructor
  · intro h; rw [if_pos h]; exact ⟨rfl, rfl⟩
  · intro h1 h2
    rw [if_neg (by intro h; rcases h with h | h <;> linarith)]
    exact ⟨rfl, rfl⟩

/-- a bin with a negative expectation ends the binned likelihoods with a diagnostic -/
theorem binned_negative (T : Fn) (s : List Rat) (n : List Nat) (b : List Rat) (l : List (Rat × Nat × Rat)) (hb : bins s n b = .ok l)
    (t : Rat × Nat × Rat) (ht : t ∈ l) (hneg : t.1 < 0 ∨ t.2.2 < 0) :
    logLikelihoodBinned T s n b = .error .diag ∧ likelihoodBinned T s n b = .error .diag := by
  have e : logLikelihoodBinned T s n b = .error .diag := by
    unfold logLikelihoodBinned
    rw [hb]
    have hany : l.any (fun t => decide (t.1 < 0 ∨ t.2.2 < 0)) = true := by
      rw [List.any_eq_true]; exact ⟨t, ht, by simpa using hneg⟩
    simp only [hany, if_true]
  refine ⟨e, ?_⟩
  unfold likelihoodBinned; rw [e]; rfl

/-! ## Maxwell–Boltzmann: the series branch (`fix:` a8d8068) is non-negative and increasing on [0, 1/10) -/

/-- the Horner form as coded is the alternating series `c · Σ_k (−1)^k t^(2k+3) / (2^k k! (2k+3))`, six terms -/
theorem mbSeries_expand (c t : Rat) :
    mbSeries c t = c * (t ^ 3 / 3 - t ^ 5 / 10 + t ^ 7 / 56 - t ^ 9 / 432 + t ^ 11 / 4224 - t ^ 13 / 49920) := by
  unfold mbSeries; ring

/-- two consecutive terms `a t^m − b t^(m+2)` with `2b ≤ a` increase on [0,1]: `t^(m+2) − s^(m+2) ≤ 2 (t^m − s^m)` -/
theorem pow_pair (k : Nat) (s t : Rat) (hs : 0 ≤ s) (hst : s ≤ t) (ht : t ≤ 1) :
    t ^ (k + 4) - s ^ (k + 4) ≤ 2 * (t ^ (k + 2) - s ^ (k + 2)) := by
  have hA : s ^ k ≤ t ^ k := pow_le_pow_left₀ hs hst k
  have hB : 0 ≤ s ^ k := pow_nonneg hs k
  have ht0 : 0 ≤ t := le_trans hs hst
  have hs1 : s ≤ 1 := le_trans hst ht
  have a1 : 0 ≤ t ^ 2 - s ^ 2 := by nlinarith
  have a2 : 0 ≤ 2 - t ^ 2 - s ^ 2 := by nlinarith
  have a3 := mul_nonneg a1 a2
  have hphi : s ^ 2 * (2 - s ^ 2) ≤ t ^ 2 * (2 - t ^ 2) := by nlinarith [a3]
  have hphis : 0 ≤ s ^ 2 * (2 - s ^ 2) := mul_nonneg (sq_nonneg s) (by nlinarith)
  have hphit : 0 ≤ t ^ 2 * (2 - t ^ 2) := le_trans hphis hphi
  have h1 : s ^ k * (s ^ 2 * (2 - s ^ 2)) ≤ t ^ k * (t ^ 2 * (2 - t ^ 2)) :=
    mul_le_mul hA hphi hphis (le_trans hB hA)
  have e1 : t ^ (k + 4) = t ^ k * t ^ 4 := by ring
  have e2 : s ^ (k + 4) = s ^ k * s ^ 4 := by ring
  have e3 : t ^ (k + 2) = t ^ k * t ^ 2 := by ring
  have e4 : s ^ (k + 2) = s ^ k * s ^ 2 := by ring
  rw [e1, e2, e3, e4]
  nlinarith [h1]

theorem mbSeries_nonneg (c t : Rat) (hc : 0 ≤ c) (h0 : 0 ≤ t) (h1 : t ≤ 1) : 0 ≤ mbSeries c t := by
  rw [mbSeries_expand]
  apply mul_nonneg hc
  have p1 := pow_pair 1 0 t (le_refl _) h0 h1
  have p5 := pow_pair 5 0 t (le_refl _) h0 h1
  have p9 := pow_pair 9 0 t (le_refl _) h0 h1
  have q3 : 0 ≤ t ^ 3 := pow_nonneg h0 3
  have q7 : 0 ≤ t ^ 7 := pow_nonneg h0 7
  have q11 : 0 ≤ t ^ 11 := pow_nonneg h0 11
  norm_num at p1 p5 p9
  linarith

/-- **monotone**: on `0 ≤ s ≤ t ≤ 1` (in particular on the branch `t < 1/10`) the series value does not decrease -/
theorem mbSeries_mono (c s t : Rat) (hc : 0 ≤ c) (hs : 0 ≤ s) (hst : s ≤ t) (ht : t ≤ 1) : mbSeries c s ≤ mbSeries c t := by
  rw [mbSeries_expand, mbSeries_expand]
  apply mul_le_mul_of_nonneg_left _ hc
  have p1 := pow_pair 1 s t hs hst ht
  have p5 := pow_pair 5 s t hs hst ht
  have p9 := pow_pair 9 s t hs hst ht
  have q3 : s ^ 3 ≤ t ^ 3 := pow_le_pow_left₀ hs hst 3
  have q7 : s ^ 7 ≤ t ^ 7 := pow_le_pow_left₀ hs hst 7
  have q11 : s ^ 11 ≤ t ^ 11 := pow_le_pow_left₀ hs hst 11
  norm_num at p1 p5 p9
  linarith

/-- `CDF_Maxwell_Boltzmann ≥ 0` on the series branch, for every `sqrt` that is non-negative; and the CDF does not decrease there -/
theorem cdfMB_series_branch (T : Fn) (hsq : 0 ≤ T.sqrt (2 / T.pi)) (x y a : Rat) (ha : 0 < a) (hx : 0 ≤ x) (hxy : x ≤ y) (hy : y / a < 1 / 10) :
    ∃ vx vy, cdfMB T x a = .ok vx ∧ cdfMB T y a = .ok vy ∧ 0 ≤ vx ∧ vx ≤ vy := by
  have hxa : x / a ≤ y / a := div_le_div_of_nonneg_right hxy ha.le
  have hx0 : 0 ≤ x / a := div_nonneg hx ha.le
  refine ⟨mbSeries (T.sqrt (2 / T.pi)) (x / a), mbSeries (T.sqrt (2 / T.pi)) (y / a), ?_, ?_, ?_, ?_⟩
  · unfold cdfMB
    rw [if_neg (not_le.mpr ha), if_neg (not_lt.mpr hx)]
    simp only
    rw [if_pos (lt_of_le_of_lt hxa hy)]
  · unfold cdfMB
    rw [if_neg (not_le.mpr ha), if_neg (not_lt.mpr (le_trans hx hxy))]
    simp only
    rw [if_pos hy]
  · exact mbSeries_nonneg _ _ hsq hx0 (by linarith)
  · exact mbSeries_mono _ _ _ hsq hx0 hxa (by linarith)

/-- above the switch the coded function is the closed form (the agreement of the two branches at `x/a = 1/10` is a
    statement about `erf` and `exp`: correspondence-only) -/
theorem cdfMB_closed_branch (T : Fn) (x a : Rat) (ha : 0 < a) (hx : 1 / 10 ≤ x / a) : cdfMB T x a = cdfMBClosed T x a := by
  have hx0 : 0 ≤ x := by
    by_contra h
    have : x / a < 0 := div_neg_of_neg_of_pos (not_le.mp h) ha
    linarith
  unfold cdfMB cdfMBClosed
  rw [if_neg (not_le.mpr ha), if_neg (not_lt.mpr hx0), if_neg (not_le.mpr ha), if_neg (not_lt.mpr hx0)]
  simp only
  rw [if_neg (not_lt.mpr hx)]

/-! ## KDE: normalised with the exact integral of its own interpolation (`fix:` f8bedae, through C08) -/

/-- **kde_normalised**: if the exact integral (C08 `pInteg`) of the tabulated estimate over the window is `I ≠ 0`, the
    estimate scaled by `1/I` integrates to exactly 1 -/
theorem kde_normalised (o : Obj) (a b I : Rat) (hI : Lp.C09.pInteg o a b = .ok I) (h0 : I ≠ 0) :
    Lp.C09.pInteg (kdeNormalise o I) a b = .ok 1 := by
  have e1 : o = { o with pref := o.pref } := rfl
  have h1 := pInteg_scale o o.pref a b
  rw [← e1, hI] at h1
  have h2 := pInteg_scale o (o.pref * (1 / I)) a b
  unfold kdeNormalise Obj.multiply
  rw [h2]
  cases hJ : Lp.C09.pInteg { o with pref := 1 } a b with
  | error e => rw [hJ] at h1; cases h1
  | ok J =>
    rw [hJ] at h1
    simp only [Except.map] at h1 ⊢
    injection h1 with h1
    congr 1
    rw [mul_assoc, mul_comm (1 / I), ← mul_assoc, ← h1]
    field_simp

end Fixes

/-! ## Mirrors of the repairs proposed by the second audit: value-neutrality / specification of the new forms -/

theorem invErfSym_agrees (T : Fn) (p : Rat) (h : ¬ rabs (p + 1) < 1e-16) : invErfSym T p = invErf T p := by
  unfold invErfSym invErf; rw [if_neg h]

theorem invErfSym_window (T : Fn) (p : Rat) (h : rabs (p + 1) < 1e-16) : invErfSym T p = .ok (-10) := by
  unfold invErfSym
  have h1 : ¬ rabs (p - 1) < 1e-16 := by
    unfold rabs at h ⊢
    split_ifs at h ⊢ <;> norm_num at * <;> linarith
  rw [if_neg h1, if_pos h]

theorem chiBarE_spec (T : Fn) (x : Rat) (w : List Rat) :
    ((∀ v ∈ w, 0 ≤ v ∧ v ≤ 1) → pdfChiBarE T x w = .ok (pdfChiBar T x w) ∧ cdfChiBarE T x w = .ok (cdfChiBar T x w)) ∧
      ((∃ v ∈ w, v < 0 ∨ 1 < v) → pdfChiBarE T x w = .error .diag ∧ cdfChiBarE T x w = .error .diag) := by
  unfold pdfChiBarE cdfChiBarE chiBarWeightsOk
  constructor
  · intro h
    have : w.all (fun v => decide (0 ≤ v ∧ v ≤ 1)) = true := by
      rw [List.all_eq_true]; intro v hv; simpa using h v hv
    rw [if_pos this, if_pos this]; exact ⟨rfl, rfl⟩
  · rintro ⟨v, hv, hbad⟩
    have : w.all (fun v => decide (0 ≤ v ∧ v ≤ 1)) = false := by
      rw [List.all_eq_false]
      refine ⟨v, hv, ?_⟩
      simp only [decide_eq_true_eq]
      intro h; rcases hbad with hb | hb <;> linarith [h.1, h.2]
    rw [this]; exact ⟨rfl, rfl⟩

/-- the `t = x/a` forms are value-neutral in exact arithmetic -/
theorem pdfMBt_eq (T : Fn) (x a : Rat) : pdfMBt T x a = pdfMB T x a := by
  unfold pdfMBt pdfMB
  by_cases ha : a ≤ 0
  · rw [if_pos ha, if_pos ha]
  · have ha0 : a ≠ 0 := by intro h; exact ha (by rw [h])
    rw [if_neg ha, if_neg ha]
    by_cases hx : x < 0
    · rw [if_pos hx, if_pos hx]
    · rw [if_neg hx, if_neg hx]
      simp only
      have e : -(x / a) * (x / a) / 2 = -x * x / 2 / a / a := by field_simp
      rw [e]
      congr 1
      field_simp

theorem cdfMBt_eq (T : Fn) (x a : Rat) : cdfMBt T x a = cdfMB T x a := by
  unfold cdfMBt cdfMB
  by_cases ha : a ≤ 0
  · rw [if_pos ha, if_pos ha]
  · have ha0 : a ≠ 0 := by intro h; exact ha (by rw [h])
    rw [if_neg ha, if_neg ha]
    by_cases hx : x < 0
    · rw [if_pos hx, if_pos hx]
    · rw [if_neg hx, if_neg hx]
      simp only
      have e1 : -(x / a) * (x / a) / 2 = -x * x / 2 / a / a := by field_simp
      have e2 : x / a / T.sqrt 2 = x / T.sqrt 2 / a := by
        by_cases h2 : T.sqrt 2 = 0
        · simp [h2]
        · field_simp
      have e3 : T.sqrt (2 / T.pi) * (x / a) = T.sqrt (2 / T.pi) * x / a := by field_simp
      rw [e1, e2, e3]

theorem kdeAutoBandwidth_pos (r xMin xMax : Rat) (h : xMin < xMax) :
    0 < kdeAutoBandwidth r xMin xMax ∧ (xMax - xMin) / 149 / 64 < kdeAutoBandwidth r xMin xMax := by
  unfold kdeAutoBandwidth
  have hs : 0 < (xMax - xMin) / 149 := div_pos (by linarith) (by norm_num)
  simp only
  by_cases hr : r > (xMax - xMin) / 149 / 64
  · rw [if_neg (not_not.mpr hr)]
    exact ⟨lt_trans (div_pos hs (by norm_num)) hr, hr⟩
  · rw [if_pos hr]
    exact ⟨hs, by linarith [div_lt_self hs (by norm_num : (1 : Rat) < 64)]⟩

end Lp.C07
