/-
  C17 — property theorems (DESIGN.md §6 C17 [T1]).  Helper lemmas: LpProofs/C17/*.lean.
-/
import LpModel.C17
import LpProofs.C17.Basic
import LpProofs.C17.Tables
import LpProofs.C17.Round
import LpProofs.C17.Hist
namespace Lp.C17
open Lp.Dec

/-! ## Sign, StepFunction, Relative_Difference, Floats_Equal -/

/-- **sign2 table** (as coded): `x` when the signs agree, `−x` otherwise — in particular `−x`
    for `y = 0 ≠ x`, and `0` for `x = 0` -/
theorem sign2_table (x y : ℚ) :
    (0 < x → 0 < y → sign2 x y = x) ∧ (x < 0 → y < 0 → sign2 x y = x) ∧
    (0 < x → y < 0 → sign2 x y = -x) ∧ (x < 0 → 0 < y → sign2 x y = -x) ∧
    (x ≠ 0 → y = 0 → sign2 x y = -x) ∧ (x = 0 → sign2 x y = 0) := by
  unfold sign2
  refine ⟨?_, ?_, ?_, ?_, ?_, ?_⟩
  · intro hx hy
    rcases sign1_cases x with ⟨_, h1⟩ | ⟨h, _⟩ | ⟨h, _⟩ <;> rcases sign1_cases y with ⟨_, h2⟩ | ⟨h', _⟩ | ⟨h', _⟩ <;>
      first | linarith | simp [h1, h2]
  · intro hx hy
    rcases sign1_cases x with ⟨h, _⟩ | ⟨h, _⟩ | ⟨_, h1⟩ <;> rcases sign1_cases y with ⟨h', _⟩ | ⟨h', _⟩ | ⟨_, h2⟩ <;>
      first | linarith | simp [h1, h2]
  · intro hx hy
    rcases sign1_cases x with ⟨_, h1⟩ | ⟨h, _⟩ | ⟨h, _⟩ <;> rcases sign1_cases y with ⟨h', _⟩ | ⟨h', _⟩ | ⟨_, h2⟩ <;>
      first | linarith | simp [h1, h2]
  · intro hx hy
    rcases sign1_cases x with ⟨h, _⟩ | ⟨h, _⟩ | ⟨_, h1⟩ <;> rcases sign1_cases y with ⟨_, h2⟩ | ⟨h', _⟩ | ⟨h', _⟩ <;>
      first | linarith | simp [h1, h2]
  · intro hx hy
    subst hy
    have h0 : sign1 (0 : ℚ) = 0 := by simp [sign1]
    rcases sign1_cases x with ⟨_, h1⟩ | ⟨h, _⟩ | ⟨_, h1⟩
    · rw [h1, h0]; norm_num
    · exact absurd h hx
    · rw [h1, h0]; norm_num
  · intro hx; subst hx; simp

/-- `|Sign(x,y)| = |x|` always -/
theorem sign2_abs (x y : ℚ) : |sign2 x y| = |x| := by
  unfold sign2; split <;> simp

theorem sign1_spec (x : ℚ) : (0 < x → sign1 x = 1) ∧ (x = 0 → sign1 x = 0) ∧ (x < 0 → sign1 x = -1) := by
  rcases sign1_cases x with ⟨h, h1⟩ | ⟨h, h1⟩ | ⟨h, h1⟩ <;>
    exact ⟨fun h' => by first | exact h1 | linarith, fun h' => by first | exact h1 | linarith,
      fun h' => by first | exact h1 | linarith⟩

theorem step_spec (x : ℚ) : (0 ≤ x → step x = 1) ∧ (x < 0 → step x = 0) := by
  unfold step
  constructor
  · intro h; rw [if_pos h]
  · intro h; rw [if_neg (by linarith)]

theorem relDiff_symm (a b : ℚ) : relDiff a b = relDiff b a := by
  unfold relDiff
  simp only [rabs_eq_abs, rmax_eq_max, abs_sub_comm a b, max_comm |a| |b|]

theorem relDiff_self (a : ℚ) : relDiff a a = 0 := by
  unfold relDiff; simp [rabs_eq_abs]

theorem relDiff_nonneg (a b : ℚ) : 0 ≤ relDiff a b := by
  unfold relDiff
  simp only [rabs_eq_abs, rmax_eq_max]
  split
  · exact le_refl _
  · exact div_nonneg (abs_nonneg _) (le_max_of_le_left (abs_nonneg _))

/-- **floatsEqual_symm** -/
theorem floatsEqual_symm (a b tol : ℚ) : floatsEqual a b tol = floatsEqual b a tol := by
  unfold floatsEqual; rw [relDiff_symm]

/-- **floatsEqual_refl** (true of the repaired code a32e880 + e33c234: every argument, every
    tolerance `≥ 0`, the zero tolerance included) -/
theorem floatsEqual_refl (a tol : ℚ) (ht : 0 ≤ tol) : floatsEqual a a tol = true := by
  unfold floatsEqual; rw [relDiff_self]; simpa using ht

/-- a negative tolerance accepts nothing (the relative difference is `≥ 0`) -/
theorem floatsEqual_neg_tol (a b tol : ℚ) (ht : tol < 0) : floatsEqual a b tol = false := by
  unfold floatsEqual
  have := relDiff_nonneg a b
  simp only [decide_eq_false_iff_not, not_le]; linarith

/-- with a zero tolerance `Floats_Equal` is equality -/
theorem floatsEqual_zero_tol (a b : ℚ) : floatsEqual a b 0 = true ↔ a = b := by
  unfold floatsEqual relDiff
  simp only [rabs_eq_abs, rmax_eq_max, decide_eq_true_eq]
  constructor
  · intro h
    by_contra hne
    have hd : |a - b| ≠ 0 := by simpa [sub_eq_zero] using hne
    rw [if_neg hd] at h
    have hpos : 0 < |a - b| := lt_of_le_of_ne (abs_nonneg _) (Ne.symm hd)
    have hm : 0 < max |a| |b| := by
      rcases lt_or_eq_of_le (le_max_of_le_left (abs_nonneg a) : (0 : ℚ) ≤ max |a| |b|) with h1 | h1
      · exact h1
      · exfalso
        have ha : |a| ≤ 0 := by rw [h1]; exact le_max_left _ _
        have hb : |b| ≤ 0 := by rw [h1]; exact le_max_right _ _
        have ha0 : a = 0 := abs_eq_zero.mp (le_antisymm ha (abs_nonneg a))
        have hb0 : b = 0 := abs_eq_zero.mp (le_antisymm hb (abs_nonneg b))
        exact hne (by rw [ha0, hb0])
    have := div_pos hpos hm
    linarith
  · intro h; subst h; simp

/-- the comparison before e33c234 (strict `<`) is **not** reflexive at a zero tolerance -/
theorem floatsEqualStrict_not_refl (a : ℚ) : floatsEqualStrict a a 0 = false := by
  unfold floatsEqualStrict; rw [relDiff_self]; simp

/-- … and differs from the repaired comparison only on the boundary `relDiff = tol` -/
theorem floatsEqual_eq_strict (a b tol : ℚ) (h : relDiff a b ≠ tol) : floatsEqual a b tol = floatsEqualStrict a b tol := by
  unfold floatsEqual floatsEqualStrict
  rcases lt_or_gt_of_ne h with h1 | h1
  · simp [h1, h1.le]
  · simp [not_lt.mpr h1.le, not_le.mpr h1]

example : floatsEqual 0 0 0 = true ∧ floatsEqual 1 1 0 = true ∧ floatsEqual 0 0 (1 / 10 ^ 10) = true := by decide +kernel

/-- the formula before a32e880 is **not** reflexive: `(0,0)` is a witness for every tolerance -/
theorem floatsEqualOld_not_refl (tol : ℚ) : floatsEqualOld 0 0 tol = false := by
  unfold floatsEqualOld relDiffOld; simp [rabs, rmax]

/-- … and agrees with the repaired formula wherever it is defined (not both arguments zero) -/
theorem relDiffOld_eq (a b : ℚ) (h : a ≠ 0 ∨ b ≠ 0) : relDiffOld a b = some (relDiff a b) := by
  unfold relDiffOld relDiff
  simp only [rabs_eq_abs, rmax_eq_max]
  have hm : max |a| |b| ≠ 0 := by
    have : 0 < max |a| |b| := by
      rcases h with h | h
      · exact lt_max_of_lt_left (abs_pos.mpr h)
      · exact lt_max_of_lt_right (abs_pos.mpr h)
    linarith
  rw [if_neg hm]
  split
  · rename_i h0; rw [h0]; simp
  · rfl

/-! ## Round

`roundSig N d e` mirrors the C++ with the value `e` of `floor(log10|N|)` as a parameter;
`round N d` (what the driver evaluates) uses the exact decimal exponent `expo10 |N|`
(`expo10_spec`); `roundExact N d` is its value in closed form (`round_eq_roundExact`). -/

/-- `Round(N,d)` is defined for `d ≤ 7` and equals the closed form -/
theorem round_defined (N : ℚ) (d : ℕ) (hd1 : 1 ≤ d) (hd : d ≤ 7) : round N d = .ok (roundExact N d) :=
  round_eq_roundExact N d hd1 hd

/-- zero significant digits → diagnostic (f9320d5), whatever the argument -/
theorem round_zero_digits (N : ℚ) : round N 0 = .error .diag := by
  unfold round roundSigG; simp

/-- **digits > 7 → diagnostic** (any argument, zero included, any exponent); `Round(0,d) = 0` for `d ≤ 7` -/
theorem round_digits_guard (N : ℚ) (d : ℕ) (e : Int) :
    (7 < d → roundSig N d e = .error .diag) ∧ (d ≤ 7 → roundSig 0 d e = .ok 0) :=
  ⟨fun hd => roundSig_guard N d e hd, fun hd => round_zero d e hd⟩

/-- the guard for `digits = 0` (f9320d5) changes nothing for the stated digit counts `1..7` (nor for `> 7`),
    and rejects zero digits -/
theorem roundSigG_spec (N : ℚ) (d : ℕ) (e : Int) :
    (1 ≤ d → roundSigG N d e = roundSig N d e) ∧ roundSigG N 0 e = .error .diag := by
  unfold roundSigG
  exact ⟨fun h => by rw [if_neg (by omega)], by simp⟩

/-- **round_odd**: for every exponent parameter, and for the exact exponent -/
theorem round_odd (N : ℚ) (d : ℕ) :
    (∀ e, roundSig (-N) d e = (roundSig N d e).map (fun r => -r)) ∧ roundExact (-N) d = - roundExact N d :=
  ⟨fun e => roundSig_odd N d e, roundExact_neg N d⟩

/-- **round_half_unit**: `|Round(N,d) − N| ≤ ½·10^(e−d+1)`, `e = ⌊log₁₀|N|⌋` — half a unit of the
    `d`-th significant digit -/
theorem round_half_unit (N : ℚ) (d : ℕ) (hN : N ≠ 0) (hd : d ≤ 7) :
    pow10 (expo10 |N|) ≤ |N| ∧ |N| < pow10 (expo10 |N| + 1) ∧
    |roundExact N d - N| ≤ 1 / 2 * pow10 (expo10 |N| - d + 1) := by
  have hs := expo10_spec |N| (abs_pos.mpr hN)
  refine ⟨hs.1, hs.2, ?_⟩
  obtain ⟨r, hr, hb⟩ := roundSig_half_unit N d (expo10 |N|) hN hd
  have : r = roundExact N d := by
    have h1 := roundSig_rval N d (expo10 |N|) hN hd
    rw [hr] at h1
    unfold roundExact; rw [if_neg hN]
    exact Except.ok.inj h1
  rw [← this]; exact hb

/-- **round_exponent_robust**: within `10⁻¹⁵` (relative) of a power of ten, on either side, the two
    exponents a rounded `floor(log10)` can return give the same result `±10^(e+1)` -/
theorem round_exponent_robust (N : ℚ) (d : ℕ) (e : Int) (hN : N ≠ 0) (hd1 : 1 ≤ d) (hd : d ≤ 7)
    (hlo : pow10 (e + 1) * (1 - 1 / 10 ^ 15) ≤ |N|) (hhi : |N| ≤ pow10 (e + 1) * (1 + 1 / 10 ^ 15)) :
    roundSig N d e = roundSig N d (e + 1) := by
  obtain ⟨h1, h2⟩ := roundSig_exponent_robust N d e hN hd1 hd hlo hhi
  rw [h1, h2]

example : roundSig (9999999999999999 / 10000000000000) 3 2 = roundSig (9999999999999999 / 10000000000000) 3 3 := by
  decide +kernel

/-- **round_idempotent**: `Round(Round(N,d),d) = Round(N,d)` (exact exponents) -/
theorem round_idempotent (N : ℚ) (d : ℕ) (hd1 : 1 ≤ d) (hd : d ≤ 7) :
    roundExact (roundExact N d) d = roundExact N d := by
  by_cases hN : N = 0
  · subst hN; simp [roundExact]
  · have hs := expo10_spec |N| (abs_pos.mpr hN)
    obtain ⟨_, hfix, hlo, hhi⟩ := roundSig_idempotent N d (expo10 |N|) hN hd1 hd hs.1 hs.2
    have hr : roundExact N d = rval N d (expo10 |N|) := by unfold roundExact; rw [if_neg hN]
    rw [hr]
    set r := rval N d (expo10 |N|) with hrdef
    have hrpos : 0 < |r| := lt_of_lt_of_le (pow10_pos _) hlo
    have hr0 : r ≠ 0 := abs_pos.mp hrpos
    have hs' := expo10_spec |r| hrpos
    -- the exact exponent of r is e or e+1
    have hval : roundSig r d (expo10 |r|) = .ok r := by
      rcases lt_or_eq_of_le hhi with hlt | heq
      · have : expo10 |r| = expo10 |N| := expo_unique hs'.1 hs'.2 hlo hlt
        rw [this]; exact hfix
      · have h2 : |r| < pow10 (expo10 |N| + 1 + 1) := by
          rw [heq]; exact pow10_lt_iff.mpr (by omega)
        have : expo10 |r| = expo10 |N| + 1 := expo_unique hs'.1 hs'.2 (le_of_eq heq.symm) h2
        rw [this]
        have hp := pow10_pos (expo10 |N| + 1)
        have := roundSig_exponent_robust r d (expo10 |N|) hr0 hd1 hd
          (by rw [heq]; nlinarith) (by rw [heq]; nlinarith)
        rw [this.2, ← this.1]; exact hfix
    have h1 := roundSig_rval r d (expo10 |r|) hr0 hd
    rw [hval] at h1
    unfold roundExact; rw [if_neg hr0]
    exact (Except.ok.inj h1).symm

/-- **round_monotone**: `x ≤ y → Round(x,d) ≤ Round(y,d)`, all signs, all decades -/
theorem round_monotone (x y : ℚ) (d : ℕ) (hd1 : 1 ≤ d) (hd : d ≤ 7) (hxy : x ≤ y) :
    roundExact x d ≤ roundExact y d := roundExact_mono x y d hd1 hd hxy

example : round (123456 / 10) 3 = .ok 12300 ∧ round (-5 / 2) 1 = .ok (-3) ∧ round 12300 3 = .ok 12300 := by
  decide +kernel

/-! ## Dawson, Erfi, Inv_Erf -/

/-- **dawson_odd**: both branches, for every `exp` (no property of `exp` is needed) -/
theorem dawson_odd (exp : ℚ → ℚ) (x : ℚ) : dawson exp (-x) = - dawson exp x := by
  unfold dawson
  rw [rabs_neg]
  split
  · exact dawsonSmall_odd x
  · rename_i h
    have hx : x ≠ 0 := by
      rintro rfl
      apply h
      simp [rabs]
    exact dawsonLarge_odd exp x hx

theorem erfi_odd (exp : ℚ → ℚ) (c x : ℚ) : erfi exp c (-x) = - erfi exp c x := by
  unfold erfi
  have : (1 : ℚ) / 2 * -x * -x = 1 / 2 * x * x := by ring
  simp only [dawson_odd, this]; ring

/-- **erfi_split_noop**: the evaluation order of 09597b4 is value-neutral whenever `exp` is
    multiplicative at the one pair of arguments used, `exp(x²/2 + x²/2) = exp(x²/2)·exp(x²/2)` — a true
    statement about the real exponential; over exact arithmetic only the order in which the double
    products are formed changes (which is what avoids the intermediate overflow) -/
theorem erfi_split_noop (exp : ℚ → ℚ) (c x : ℚ)
    (hexp : exp (1 / 2 * x * x + 1 / 2 * x * x) = exp (1 / 2 * x * x) * exp (1 / 2 * x * x)) :
    erfi exp c x = erfiDirect exp c x := by
  unfold erfi erfiDirect
  have hx : x * x = 1 / 2 * x * x + 1 / 2 * x * x := by ring
  rw [hx, hexp]; ring

example : (fun _ : ℚ => (1 : ℚ)) (1 / 2 * 3 * 3 + 1 / 2 * 3 * 3) = (fun _ : ℚ => (1 : ℚ)) (1 / 2 * 3 * 3) * (fun _ : ℚ => (1 : ℚ)) (1 / 2 * 3 * 3) := by
  norm_num

/-- the series branch is the exact polynomial `x − 2x³/3 + 4x⁵/15 − 8x⁷/105` -/
theorem dawson_small (exp : ℚ → ℚ) (x : ℚ) (h : |x| < 2 / 10) :
    dawson exp x = x - 2 / 3 * x ^ 3 + 4 / 15 * x ^ 5 - 8 / 105 * x ^ 7 := by
  unfold dawson
  rw [rabs_eq_abs, if_pos h]
  unfold dawsonSmall dawsonA1 dawsonA2 dawsonA3
  ring

theorem invErf_guard (p : ℚ) :
    (1 ≤ |p| → 1 / 10 ^ 16 ≤ |p - 1| → 1 / 10 ^ 16 ≤ |p + 1| → invErfCase p = .diag) ∧
    (|p| < 1 → 1 / 10 ^ 16 ≤ |p - 1| → 1 / 10 ^ 16 ≤ |p + 1| → invErfCase p = .root) := by
  unfold invErfCase
  simp only [rabs_eq_abs]
  constructor
  · intro h1 h2 h3; rw [if_neg (by linarith), if_neg (by linarith), if_pos h1]
  · intro h1 h2 h3; rw [if_neg (by linarith), if_neg (by linarith), if_neg (by linarith)]

/-- the window next to the end points is symmetric (e9e1286): the case of `−p` is the mirrored case of `p` -/
theorem invErf_window_symm (p : ℚ) :
    (invErfCase p = .ten ↔ invErfCase (-p) = .minusTen) ∧ (invErfCase p = .diag ↔ invErfCase (-p) = .diag) := by
  unfold invErfCase
  simp only [rabs_eq_abs]
  have e1 : |-p - 1| = |p + 1| := by rw [← abs_neg]; congr 1; ring
  have e2 : |-p + 1| = |p - 1| := by rw [← abs_neg]; congr 1; ring
  rw [e1, e2, abs_neg]
  by_cases h1 : |p - 1| < 1 / 10 ^ 16
  · have h2 : ¬ |p + 1| < 1 / 10 ^ 16 := by
      intro h2
      rw [abs_lt] at h1 h2
      norm_num at h1 h2
      linarith
    simp only [if_pos h1, if_neg h2]
    simp
  · by_cases h2 : |p + 1| < 1 / 10 ^ 16
    · simp only [if_neg h1, if_pos h2]
      simp
    · simp only [if_neg h1, if_neg h2]
      by_cases h3 : |p| ≥ 1
      · simp only [if_pos h3]; simp
      · simp only [if_neg h3]; simp

/-! ## Vector spherical harmonics: the coefficient tables -/

/-- component index outside {0,1,2} → diagnostic -/
theorem vsh_component_guard (c l m lh mh : Int) (h : c ≠ 0 ∧ c ≠ 1 ∧ c ≠ 2) :
    vshY c l m lh mh = .error .diag ∧ vshPsi c l m lh mh = .error .diag := by
  unfold vshY vshPsi
  simp [h.1, h.2.1, h.2.2]

/-- **selection rules**: zero unless `l̂ = l ± 1` and `m̂ = m ± 1` (components 0, 1) resp. `m̂ = m`
    (component 2) -/
theorem vsh_selection (c l m lh mh : Int) (hc : c = 0 ∨ c = 1 ∨ c = 2)
    (h : (lh ≠ l - 1 ∧ lh ≠ l + 1) ∨ (c ≠ 2 ∧ mh ≠ m - 1 ∧ mh ≠ m + 1) ∨ (c = 2 ∧ mh ≠ m)) :
    vshY c l m lh mh = .ok .zero ∧ vshPsi c l m lh mh = .ok .zero := by
  unfold vshY vshPsi
  rcases hc with rfl | rfl | rfl
  · have h' : (lh ≠ l - 1 ∧ lh ≠ l + 1) ∨ (mh ≠ m - 1 ∧ mh ≠ m + 1) := by
      rcases h with h | h | h
      · exact Or.inl h
      · exact Or.inr h.2
      · omega
    simp [h']
  · have h' : (lh ≠ l - 1 ∧ lh ≠ l + 1) ∨ (mh ≠ m - 1 ∧ mh ≠ m + 1) := by
      rcases h with h | h | h
      · exact Or.inl h
      · exact Or.inr h.2
      · omega
    simp [h']
  · have h' : (lh ≠ l - 1 ∧ lh ≠ l + 1) ∨ mh ≠ m := by
      rcases h with h | h | h
      · exact Or.inl h
      · omega
      · exact Or.inr h.2
    simp [h']

/-- the denominators `2l+1`, `2l+3`, `2l−1` never vanish for an integer `l` -/
theorem denoms (l : Int) :
    (2 * (l : ℚ) + 1 ≠ 0) ∧ (2 * (l : ℚ) + 3 ≠ 0) ∧ (2 * (l : ℚ) - 1 ≠ 0) := by
  have h1 : (2 * l + 1 : Int) ≠ 0 := by omega
  have h2 : (2 * l + 3 : Int) ≠ 0 := by omega
  have h3 : (2 * l - 1 : Int) ≠ 0 := by omega
  refine ⟨?_, ?_, ?_⟩
  · exact_mod_cast h1
  · exact_mod_cast h2
  · exact_mod_cast h3

/-- **vshY_norm**: `Σ |c|² = 1` over the three components and all `(l̂, m̂)` of the loop, as a
    rational identity in `l, m`, for every integer `l` — `l = 0` included — and every `m` -/
theorem vshY_norm (l m : Int) : vshNormSq vshY l m = 1 := by
  obtain ⟨h1, h3, hm⟩ := denoms l
  unfold vshNormSq
  rw [vshIndex_eq]
  simp only [List.map, rsum, List.foldr, coefOf, Coef.normSq, Coef.zero,
    vshY_0_dn_m, vshY_0_dn_z, vshY_0_dn_p, vshY_0_up_m, vshY_0_up_z, vshY_0_up_p,
    vshY_1_dn_m, vshY_1_dn_z, vshY_1_dn_p, vshY_1_up_m, vshY_1_up_z, vshY_1_up_p,
    vshY_2_dn_m, vshY_2_dn_z, vshY_2_dn_p, vshY_2_up_m, vshY_2_up_z, vshY_2_up_p]
  field_simp
  ring

/-- **vshPsi_norm**: `Σ |c|² = l(l+1)` -/
theorem vshPsi_norm (l m : Int) : vshNormSq vshPsi l m = (l : ℚ) * ((l : ℚ) + 1) := by
  obtain ⟨h1, h3, hm⟩ := denoms l
  unfold vshNormSq
  rw [vshIndex_eq]
  simp only [List.map, rsum, List.foldr, coefOf, Coef.normSq, Coef.zero,
    vshPsi_0_dn_m, vshPsi_0_dn_z, vshPsi_0_dn_p, vshPsi_0_up_m, vshPsi_0_up_z, vshPsi_0_up_p,
    vshPsi_1_dn_m, vshPsi_1_dn_z, vshPsi_1_dn_p, vshPsi_1_up_m, vshPsi_1_up_z, vshPsi_1_up_p,
    vshPsi_2_dn_m, vshPsi_2_dn_z, vshPsi_2_dn_p, vshPsi_2_up_m, vshPsi_2_up_z, vshPsi_2_up_p]
  -- clear the three denominators by hand: a = 2l+1, b = 2l+3, c = 2l−1
  generalize ha : (2 * (l : ℚ) + 1) = a at h1 ⊢
  generalize hb : (2 * (l : ℚ) + 3) = b at h3 ⊢
  generalize hc : (2 * (l : ℚ) - 1) = c at hm ⊢
  have hb' : b = a + 2 := by rw [← ha, ← hb]; ring
  have hc' : c = a - 2 := by rw [← ha, ← hc]; ring
  have hl' : (l : ℚ) = (a - 1) / 2 := by rw [← ha]; ring
  field_simp
  rw [hl', hb', hc']
  ring

/-- **vshY_Psi_orthogonal**: `Σ conj(c_Y)·c_Ψ = 0` (real and imaginary part) -/
theorem vshY_Psi_orthogonal (l m : Int) : vshInner l m = (0, 0) := by
  obtain ⟨h1, h3, hm⟩ := denoms l
  unfold vshInner
  rw [vshIndex_eq]
  simp only [List.map, rsum, List.foldr, coefOf, Coef.zero, psiRootFactor,
    vshY_0_dn_m, vshY_0_dn_z, vshY_0_dn_p, vshY_0_up_m, vshY_0_up_z, vshY_0_up_p,
    vshY_1_dn_m, vshY_1_dn_z, vshY_1_dn_p, vshY_1_up_m, vshY_1_up_z, vshY_1_up_p,
    vshY_2_dn_m, vshY_2_dn_z, vshY_2_dn_p, vshY_2_up_m, vshY_2_up_z, vshY_2_up_p,
    vshPsi_0_dn_m, vshPsi_0_dn_z, vshPsi_0_dn_p, vshPsi_0_up_m, vshPsi_0_up_z, vshPsi_0_up_p,
    vshPsi_1_dn_m, vshPsi_1_dn_z, vshPsi_1_dn_p, vshPsi_1_up_m, vshPsi_1_up_z, vshPsi_1_up_p,
    vshPsi_2_dn_m, vshPsi_2_dn_z, vshPsi_2_dn_p, vshPsi_2_up_m, vshPsi_2_up_z, vshPsi_2_up_p]
  have e1 : ¬ (l - 1 = l + 1) := by omega
  simp only [e1, if_true, if_false, show ¬ ((0 : Int) = 1) by decide, show ¬ ((2 : Int) = 1) by decide]
  refine Prod.ext ?_ ?_
  · simp only; field_simp; ring
  · simp only; ring

/-- the radicand of every Ψ coefficient is `k²` times the radicand of the Y coefficient at the same
    position, `k = psiRootFactor ≥ 0`: this is what makes each product `conj(c_Y)·c_Ψ` rational -/
theorem vsh_radicands (l m : Int) (hl : 0 ≤ l) : ∀ p ∈ vshIndex l m,
    (coefOf (vshPsi p.1 l m p.2.1 p.2.2)).q
      = psiRootFactor p.1 l p.2.1 * psiRootFactor p.1 l p.2.1 * (coefOf (vshY p.1 l m p.2.1 p.2.2)).q ∧
    0 ≤ psiRootFactor p.1 l p.2.1 := by
  have hl' : (0 : ℚ) ≤ (l : ℚ) := by exact_mod_cast hl
  have e1 : ¬ (l - 1 = l + 1) := by omega
  intro p hp
  rw [vshIndex_eq] at hp
  simp only [List.mem_cons, List.not_mem_nil, or_false] at hp
  rcases hp with rfl | rfl | rfl | rfl | rfl | rfl | rfl | rfl | rfl | rfl | rfl | rfl | rfl | rfl | rfl | rfl | rfl | rfl <;>
    simp only [coefOf, Coef.zero, psiRootFactor,
      vshY_0_dn_m, vshY_0_dn_z, vshY_0_dn_p, vshY_0_up_m, vshY_0_up_z, vshY_0_up_p,
      vshY_1_dn_m, vshY_1_dn_z, vshY_1_dn_p, vshY_1_up_m, vshY_1_up_z, vshY_1_up_p,
      vshY_2_dn_m, vshY_2_dn_z, vshY_2_dn_p, vshY_2_up_m, vshY_2_up_z, vshY_2_up_p,
      vshPsi_0_dn_m, vshPsi_0_dn_z, vshPsi_0_dn_p, vshPsi_0_up_m, vshPsi_0_up_z, vshPsi_0_up_p,
      vshPsi_1_dn_m, vshPsi_1_dn_z, vshPsi_1_dn_p, vshPsi_1_up_m, vshPsi_1_up_z, vshPsi_1_up_p,
      vshPsi_2_dn_m, vshPsi_2_dn_z, vshPsi_2_dn_p, vshPsi_2_up_m, vshPsi_2_up_z, vshPsi_2_up_p,
      e1, if_true, if_false, show ¬ ((0 : Int) = 1) by decide, show ¬ ((2 : Int) = 1) by decide] <;>
    constructor <;> first | (ring_nf; done) | linarith

example : vshNormSq vshY 3 (-2) = 1 ∧ vshNormSq vshPsi 3 (-2) = 12 ∧ vshInner 3 (-2) = (0, 0) := by decide +kernel

/-- the summation loop of `Vector_Spherical_Harmonics_Y/Psi` skips the positions with `|m̂| > l̂`
    (where `Y_{l̂,m̂}` does not exist); for admissible orders `|m| ≤ l`, `l ≥ 0`, these positions are
    all at `l̂ = l − 1`, where the lower-degree radicands vanish at `m = ±l`, `±(l−1)` -/
def skippedZero (l m : Int) : Bool :=
  (vshIndex l m).all fun (c, lh, mh) =>
    decide (mh.natAbs ≤ lh) || (decide ((coefOf (vshY c l m lh mh)).normSq = 0) && decide ((coefOf (vshPsi c l m lh mh)).normSq = 0))

/-- **l = 0** (inside the property's quantifier): the three `l̂ = −1` positions are skipped and carry
    zero coefficients, so the loop over `l̂ = 1` alone has `Σ|c_Y|² = 1` and `Σ|c_Ψ|² = 0`:
    `Y_{00}`-vector `= r̂/√(4π)`, `Ψ_{00} = 0` -/
theorem vsh_l0 :
    skippedZero 0 0 = true ∧
    rsum (((vshIndex 0 0).filter fun p => p.2.1 = 1).map fun (c, lh, mh) => (coefOf (vshY c 0 0 lh mh)).normSq) = 1 ∧
    rsum (((vshIndex 0 0).filter fun p => p.2.1 = 1).map fun (c, lh, mh) => (coefOf (vshPsi c 0 0 lh mh)).normSq) = 0 := by
  decide +kernel

/-- the skipped positions carry zero coefficients for every `(l, m)`, `l ≤ 12`, `|m| ≤ l`
    (kernel evaluation over the 169 pairs of the property's quantifier) -/
theorem vsh_skipped_zero_le12 :
    ((List.range 13).all fun l => (List.range (2 * l + 1)).all fun k => skippedZero (l : Int) ((k : Int) - l)) = true := by
  decide +kernel

end Lp.C17
