/-
  C10 helper: `std::sort` + `std::unique` on an abscissa column, modelled as
  `sortDedup l = (l.mergeSort (· ≤ ·)).eraseDups` (LpModel/C10.lean), meets the SPEC
  "the strictly increasing list of the distinct values of `l`":
    * `sortDedup_pairwise`  — the result is strictly increasing,
    * `mem_sortDedup`       — it has exactly the elements of `l`,
    * `strictInc_unique`    — there is only one such list,
  hence `sortDedup_eq_of_spec`.  Plus the row-major grid listing and the row-by-row comparison.
-/
import LpProofs.C10.Lemmas
namespace Lp.C10

/-- `eraseDups` of a `≤`-sorted list is `<`-sorted -/
theorem eraseDups_sorted : ∀ (n : Nat) (l : List Rat), l.length ≤ n → l.Pairwise (· ≤ ·) →
    l.eraseDups.Pairwise (· < ·) := by
  intro n
  induction n with
  | zero =>
    intro l hl _
    have : l = [] := List.eq_nil_of_length_eq_zero (by omega)
    subst this; simp
  | succ n ih =>
    intro l hl hp
    cases l with
    | nil => simp
    | cons a l =>
      rw [List.eraseDups_cons]
      have hp' := List.pairwise_cons.mp hp
      refine List.pairwise_cons.mpr ⟨?_, ih _ ?_ (hp'.2.filter _)⟩
      · intro b hb
        rw [List.mem_eraseDups, List.mem_filter] at hb
        have hne : b ≠ a := by simpa using hb.2
        exact lt_of_le_of_ne (hp'.1 b hb.1) (Ne.symm hne)
      · have := List.length_filter_le (fun b => !b == a) l
        simp only [List.length_cons] at hl
        omega

theorem sortDedup_pairwise (l : List Rat) : (sortDedup l).Pairwise (· < ·) := by
  unfold sortDedup
  refine eraseDups_sorted _ _ (Nat.le_refl _) ?_
  have := List.pairwise_mergeSort (le := fun a b : Rat => decide (a ≤ b))
    (by intro a b c h1 h2; simp only [decide_eq_true_eq] at *; exact le_trans h1 h2)
    (by intro a b; simp only [Bool.or_eq_true, decide_eq_true_eq]; exact le_total a b) l
  exact this.imp (by intro a b h; simpa using h)

theorem mem_sortDedup (l : List Rat) (a : Rat) : a ∈ sortDedup l ↔ a ∈ l := by
  unfold sortDedup
  rw [List.mem_eraseDups, (List.mergeSort_perm l _).mem_iff]

/-- a strictly increasing list is determined by its set of elements -/
theorem strictInc_unique : ∀ (l1 l2 : List Rat), l1.Pairwise (· < ·) → l2.Pairwise (· < ·) →
    (∀ a, a ∈ l1 ↔ a ∈ l2) → l1 = l2 := by
  intro l1
  induction l1 with
  | nil =>
    intro l2 _ _ h
    symm
    exact List.eq_nil_iff_forall_not_mem.mpr (fun a ha => by have := (h a).mpr ha; simp at this)
  | cons a l1 ih =>
    intro l2 h1 h2 h
    cases l2 with
    | nil => have := (h a).mp List.mem_cons_self; simp at this
    | cons b l2 =>
      have p1 := List.pairwise_cons.mp h1
      have p2 := List.pairwise_cons.mp h2
      have hab : a = b := by
        rcases List.mem_cons.mp ((h a).mp List.mem_cons_self) with e | ha
        · exact e
        · have hba := p2.1 a ha
          rcases List.mem_cons.mp ((h b).mpr List.mem_cons_self) with e | hb
          · exact e.symm
          · have := p1.1 b hb; linarith
      subst hab
      congr 1
      refine ih l2 p1.2 p2.2 (fun c => ⟨fun hc => ?_, fun hc => ?_⟩)
      · rcases List.mem_cons.mp ((h c).mp (List.mem_cons_of_mem _ hc)) with e | hc'
        · have := p1.1 c hc; linarith
        · exact hc'
      · rcases List.mem_cons.mp ((h c).mpr (List.mem_cons_of_mem _ hc)) with e | hc'
        · have := p2.1 c hc; linarith
        · exact hc'

/-- SPEC of `std::sort` + `std::unique`: the ONLY strictly increasing list with the elements of `l` -/
theorem sortDedup_eq_of_spec {l xs : List Rat} (hp : xs.Pairwise (· < ·)) (hm : ∀ a, a ∈ xs ↔ a ∈ l) :
    sortDedup l = xs :=
  strictInc_unique _ _ (sortDedup_pairwise l) hp (fun a => by rw [mem_sortDedup, hm])

theorem sortDedup_spec (l : List Rat) :
    (sortDedup l).Pairwise (· < ·) ∧ (∀ a, a ∈ sortDedup l ↔ a ∈ l)
    ∧ ∀ xs : List Rat, xs.Pairwise (· < ·) → (∀ a, a ∈ xs ↔ a ∈ l) → xs = sortDedup l :=
  ⟨sortDedup_pairwise l, mem_sortDedup l, fun _ hp hm => (sortDedup_eq_of_spec hp hm).symm⟩

example : sortDedup [3, 1, 2, 3, 1] = [1, 2, 3] :=
  sortDedup_eq_of_spec (by simp [List.pairwise_cons]; norm_num) (by intro a; simp; tauto)

/-! ### the row-major listing of a grid -/

/-- `xs × ys`, x-major: what the table constructor expects row by row -/
abbrev gridOf (xs ys : List Rat) : List (Rat × Rat) := xs.flatMap (fun a => ys.map (fun b => (a, b)))

theorem gridOf_length (xs ys : List Rat) : (gridOf xs ys).length = xs.length * ys.length := by
  induction xs with
  | nil => simp
  | cons a xs ih =>
    simp only [gridOf, List.flatMap_cons, List.length_append, List.length_map, List.length_cons] at ih ⊢
    rw [ih, Nat.succ_mul]; omega

theorem mem_gridOf_fst (xs ys : List Rat) (hy : ys ≠ []) (a : Rat) :
    a ∈ (gridOf xs ys).map Prod.fst ↔ a ∈ xs := by
  obtain ⟨b, hb⟩ := List.exists_mem_of_ne_nil ys hy
  simp only [gridOf, List.mem_map, List.mem_flatMap, Prod.exists]
  constructor
  · rintro ⟨a', b', ⟨a'', ha'', b'', _, he⟩, rfl⟩
    simp only [Prod.mk.injEq] at he
    rw [← he.1]; exact ha''
  · intro ha; exact ⟨a, b, ⟨a, ha, b, hb, rfl⟩, rfl⟩

theorem mem_gridOf_snd (xs ys : List Rat) (hx : xs ≠ []) (b : Rat) :
    b ∈ (gridOf xs ys).map Prod.snd ↔ b ∈ ys := by
  obtain ⟨a, ha⟩ := List.exists_mem_of_ne_nil xs hx
  simp only [gridOf, List.mem_map, List.mem_flatMap, Prod.exists]
  constructor
  · rintro ⟨a', b', ⟨a'', _, b'', hb'', he⟩, rfl⟩
    simp only [Prod.mk.injEq] at he
    rw [← he.2]; exact hb''
  · intro hb; exact ⟨a, b, ⟨a, ha, b, hb, rfl⟩, rfl⟩

/-- the row-by-row comparison of the constructor: all rows agree ↔ the table IS the listing -/
theorem zip_all_iff : ∀ (g : List (Rat × Rat)) (t : List (List Rat)), g.length = t.length →
    ((List.zip g t).all (fun p => decide (p.1.1 = p.2.getD 0 0) && decide (p.1.2 = p.2.getD 1 0)) = true
      ↔ t.map (fun r => (r.getD 0 0, r.getD 1 0)) = g) := by
  intro g
  induction g with
  | nil => intro t ht; have : t = [] := List.eq_nil_of_length_eq_zero ht.symm
           subst this; simp
  | cons p g ih =>
    intro t ht
    cases t with
    | nil => simp at ht
    | cons r t =>
      have ht' : g.length = t.length := by simpa using ht
      simp only [List.zip_cons_cons, List.all_cons, Bool.and_eq_true, decide_eq_true_eq, List.map_cons,
        List.cons.injEq]
      rw [ih t ht']
      constructor
      · rintro ⟨⟨h1, h2⟩, h3⟩; exact ⟨Prod.ext h1.symm h2.symm, h3⟩
      · rintro ⟨h1, h3⟩; subst h1; exact ⟨⟨rfl, rfl⟩, h3⟩

/-- a complete grid table over valid abscissae: the sorted distinct columns are the abscissa lists -/
theorem sortDedup_of_grid {t : List (List Rat)} {xs ys : List Rat} (hx : validAbscissae xs) (hy : validAbscissae ys)
    (ht : t.map (fun r => (r.getD 0 0, r.getD 1 0)) = gridOf xs ys) :
    sortDedup (t.map (fun r => r.getD 0 0)) = xs ∧ sortDedup (t.map (fun r => r.getD 1 0)) = ys := by
  have hxne : xs ≠ [] := by intro h; have := hx.1; rw [h] at this; simp at this
  have hyne : ys ≠ [] := by intro h; have := hy.1; rw [h] at this; simp at this
  have e0 : t.map (fun r => r.getD 0 0) = (gridOf xs ys).map Prod.fst := by
    rw [← ht, List.map_map]; rfl
  have e1 : t.map (fun r => r.getD 1 0) = (gridOf xs ys).map Prod.snd := by
    rw [← ht, List.map_map]; rfl
  constructor
  · rw [e0]; exact sortDedup_eq_of_spec hx.2 (fun a => (mem_gridOf_fst xs ys hyne a).symm)
  · rw [e1]; exact sortDedup_eq_of_spec hy.2 (fun b => (mem_gridOf_snd xs ys hxne b).symm)

end Lp.C10
