import Mathlib.Tactic.Linarith
import Mathlib.Tactic.SplitIfs
import Mathlib.Algebra.Order.Field.Rat
import LpModel.C10
namespace Lp.C10

theorem Mat.get_isSome {m : Mat} (h : m.wf) {i j : Nat} (hi : i < m.rows) (hj : j < m.cols) :
    (m.get i j).isSome = true := by
  obtain ⟨h1, h2⟩ := h
  have hi' : i < m.c.length := by omega
  have hr : (m.c[i]).length = m.cols := h2 _ (List.getElem_mem hi')
  unfold Mat.get
  rw [List.getElem?_eq_getElem hi']
  simp [hr, hj]

theorem Mat.row_isSome {m : Mat} (h : m.wf) {i : Nat} (hi : i < m.rows) : (m.row i).isSome = true := by
  obtain ⟨h1, _⟩ := h
  have hi' : i < m.c.length := by omega
  unfold Mat.row
  rw [List.getElem?_eq_getElem hi']
  simp

theorem Mat.const_wf (r c : Nat) (v : Rat) : (Mat.const r c v).wf := by
  constructor
  · simp [Mat.const]
  · intro x hx
    simp [Mat.const] at hx
    simp [hx.2, Mat.const]

/-! ### Interpolation: shared model `Lp.Interp` -/
open Lp.Interp


theorem locate_cases (N : Nat) (x : Nat → Rat) (st : Interp.LState) (v : Rat) :
    (inDomain N x v ∧ ∃ j st', Interp.locate N x st v = .ok (j, st')) ∨
    (¬ inDomain N x v ∧ Interp.locate N x st v = .error .diag) := by
  unfold Interp.locate inDomain
  simp only []
  by_cases h1 : v < x 0 ∨ v > x (N - 1)
  · rw [if_pos h1]
    by_cases h2 : rabs (v - x 0) ≤ 1 / 100 * (x 1 - x 0)
    · rw [if_pos h2]
      left
      refine ⟨Or.inr (Or.inl (by linarith)), _, _, rfl⟩
    · rw [if_neg h2]
      by_cases h3 : rabs (v - x (N - 1)) ≤ 1 / 100 * (x (N - 1) - x (N - 2))
      · rw [if_pos h3]
        left
        refine ⟨Or.inr (Or.inr (by linarith)), _, _, rfl⟩
      · rw [if_neg h3]
        right
        refine ⟨?_, rfl⟩
        rintro (⟨ha, hb⟩ | hc | hd)
        · rcases h1 with h1 | h1 <;> linarith
        · exact h2 (by linarith)
        · exact h3 (by linarith)
  · rw [if_neg h1]
    left
    push Not at h1
    refine ⟨Or.inl ⟨h1.1, h1.2⟩, _, _, rfl⟩

theorem bisectionF_bound (x : Nat → Rat) (v : Rat) :
    ∀ (f jl jr : Nat), jl < jr → jl ≤ bisectionF x v f jl jr ∧ bisectionF x v f jl jr < jr := by
  intro f
  induction f with
  | zero => intro jl jr h; simp [bisectionF]; exact h
  | succ f ih =>
    intro jl jr h
    unfold bisectionF
    split
    · rename_i h1
      simp only []
      split
      · have := ih ((jr + jl) / 2) jr (by omega)
        omega
      · have := ih jl ((jr + jl) / 2) (by omega)
        omega
    · exact ⟨Nat.le_refl _, h⟩

theorem bisection_bound (x : Nat → Rat) (v : Rat) (jl jr : Nat) (h : jl < jr) :
    jl ≤ bisection x v jl jr ∧ bisection x v jl jr < jr := bisectionF_bound x v _ jl jr h

theorem huntUp_bound (N : Nat) (x : Nat → Rat) (v : Rat) (hv : v ≤ x (N - 1)) :
    ∀ (f jd ju dj : Nat), jd < ju → ju ≤ N - 1 → 0 < dj →
      (huntUp N x v f jd ju dj).1 < (huntUp N x v f jd ju dj).2 ∧ (huntUp N x v f jd ju dj).2 ≤ N - 1 := by
  intro f
  induction f with
  | zero => intro jd ju dj h1 h2 _; simp [huntUp]; exact ⟨h1, h2⟩
  | succ f ih =>
    intro jd ju dj h1 h2 h3
    unfold huntUp
    split
    · rename_i hgt
      have hne : ju ≠ N - 1 := by
        intro he; rw [he] at hgt; linarith
      simp only []
      split
      · exact ⟨by simp; omega, by simp⟩
      · exact ih ju (ju + dj) (dj + dj) (by omega) (by omega) (by omega)
    · exact ⟨h1, h2⟩

theorem huntDown_bound (x : Nat → Rat) (v : Rat) (B : Nat) :
    ∀ (f : Nat) (jd : Int) (ju dj : Nat), jd.toNat ≤ B → ju ≤ B →
      (huntDown x v f jd ju dj).1 ≤ B ∧ (huntDown x v f jd ju dj).2 ≤ B := by
  intro f
  induction f with
  | zero => intro jd ju dj h1 h2; unfold huntDown; exact ⟨h1, h2⟩
  | succ f ih =>
    intro jd ju dj h1 h2
    unfold huntDown
    split
    · simp only []
      split
      · exact ⟨by simp, by simpa using h1⟩
      · exact ih (jd - dj) jd.toNat (dj + dj) (by omega) h1
    · exact ⟨h1, h2⟩

theorem hunt_bound (N : Nat) (x : Nat → Rat) (v : Rat) (jLast : Nat) (hN : 2 ≤ N) (hj : jLast ≤ N - 2)
    (hv : v ≤ x (N - 1)) : hunt N x v jLast ≤ N - 2 := by
  unfold hunt
  split
  · have hb := huntUp_bound N x v hv N jLast (jLast + 1) 1 (by omega) (by omega) (by omega)
    generalize huntUp N x v N jLast (jLast + 1) 1 = p at hb
    obtain ⟨jd, ju⟩ := p
    simp only [] at hb ⊢
    split
    · have := bisection_bound x v jd ju hb.1
      omega
    · omega
  · split
    · have hb := huntDown_bound x v jLast N ((jLast : Int) - 1) jLast 1 (by omega) (Nat.le_refl _)
      generalize huntDown x v N ((jLast : Int) - 1) jLast 1 = p at hb
      obtain ⟨jd, ju⟩ := p
      simp only [] at hb ⊢
      split
      · rename_i hgt
        have := bisection_bound x v jd ju (by omega)
        omega
      · omega
    · exact hj

theorem locate_ok_bound (N : Nat) (x : Nat → Rat) (st : LState) (v : Rat) (hN : 2 ≤ N) (hst : st.jLast ≤ N - 2)
    (j : Nat) (st' : LState) (h : locate N x st v = .ok (j, st')) : j ≤ N - 2 ∧ st'.jLast = j := by
  unfold locate at h
  simp only [] at h
  by_cases h1 : v < x 0 ∨ v > x (N - 1)
  · rw [if_pos h1] at h
    by_cases h2 : rabs (v - x 0) ≤ 1 / 100 * (x 1 - x 0)
    · rw [if_pos h2] at h
      simp only [Except.ok.injEq, Prod.mk.injEq] at h
      obtain ⟨rfl, rfl⟩ := h
      exact ⟨by omega, rfl⟩
    · rw [if_neg h2] at h
      by_cases h3 : rabs (v - x (N - 1)) ≤ 1 / 100 * (x (N - 1) - x (N - 2))
      · rw [if_pos h3] at h
        simp only [Except.ok.injEq, Prod.mk.injEq] at h
        obtain ⟨rfl, rfl⟩ := h
        exact ⟨by omega, rfl⟩
      · rw [if_neg h3] at h
        simp at h
  · rw [if_neg h1] at h
    push Not at h1
    simp only [Except.ok.injEq, Prod.mk.injEq] at h
    obtain ⟨rfl, rfl⟩ := h
    refine ⟨?_, rfl⟩
    have hj0 : (if st.corr = true then hunt N x v st.jLast else bisection x v 0 (N - 1)) ≤ N - 2 := by
      split
      · exact hunt_bound N x v st.jLast hN hst h1.2
      · have := bisection_bound x v 0 (N - 1) (by omega)
        omega
    generalize (if st.corr = true then hunt N x v st.jLast else bisection x v 0 (N - 1)) = j0 at hj0 ⊢
    split
    · rename_i hc; omega
    · exact hj0

theorem strictlyIncreasing_iff (xs : List Rat) : strictlyIncreasing xs = true ↔ xs.Pairwise (· < ·) := by
  induction xs with
  | nil => simp [strictlyIncreasing]
  | cons a r ih =>
    cases r with
    | nil => simp [strictlyIncreasing]
    | cons b r' =>
      unfold strictlyIncreasing
      rw [Bool.and_eq_true, ih, decide_eq_true_eq]
      constructor
      · rintro ⟨hab, hbr⟩
        refine List.pairwise_cons.mpr ⟨?_, hbr⟩
        intro c hc
        rcases List.mem_cons.mp hc with rfl | hc
        · exact hab
        · exact lt_trans hab ((List.pairwise_cons.mp hbr).1 c hc)
      · intro h
        have h' := List.pairwise_cons.mp h
        exact ⟨h'.1 b (List.mem_cons_self), h'.2⟩

theorem isSorted_iff (xs : List Rat) : isSorted xs = true ↔ xs.Pairwise (· ≤ ·) := by
  induction xs with
  | nil => simp [isSorted]
  | cons a r ih =>
    cases r with
    | nil => simp [isSorted]
    | cons b r' =>
      unfold isSorted
      rw [Bool.and_eq_true, ih, decide_eq_true_eq]
      constructor
      · rintro ⟨hab, hbr⟩
        refine List.pairwise_cons.mpr ⟨?_, hbr⟩
        intro c hc
        rcases List.mem_cons.mp hc with rfl | hc
        · exact hab
        · exact le_trans hab ((List.pairwise_cons.mp hbr).1 c hc)
      · intro h
        have h' := List.pairwise_cons.mp h
        exact ⟨h'.1 b (List.mem_cons_self), h'.2⟩

/-- the 1-D constructor of the shared model stops exactly on the invalid tables -/
theorem mk_cases (xs ys : List Rat) (xd fd : Rat) :
    ((xs.length = ys.length ∧ 3 ≤ xs.length ∧ xs.Pairwise (· < ·)) ∧ ∃ o, Interp.mk xs ys xd fd = .ok o) ∨
    (¬ (xs.length = ys.length ∧ 3 ≤ xs.length ∧ xs.Pairwise (· < ·)) ∧ Interp.mk xs ys xd fd = .error .diag) := by
  unfold Interp.mk
  by_cases h1 : xs.length ≠ ys.length
  · rw [if_pos h1]; right; exact ⟨fun h => h1 h.1, rfl⟩
  · rw [if_neg h1]
    by_cases h2 : xs.length < 3
    · rw [if_pos h2]; right; exact ⟨fun h => by omega, rfl⟩
    · rw [if_neg h2]
      by_cases h3 : strictlyIncreasing xs = true
      · left
        have hc : ¬ ((!strictlyIncreasing xs) = true) := by simp [h3]
        rw [if_neg hc]
        exact ⟨⟨by omega, by omega, (strictlyIncreasing_iff xs).mp h3⟩, _, rfl⟩
      · right
        have hc : (!strictlyIncreasing xs) = true := by simpa using h3
        rw [if_pos hc]
        exact ⟨fun h => h3 ((strictlyIncreasing_iff xs).mpr h.2.2), rfl⟩


theorem scaled_valid (xs : List Rat) (d : Rat) :
    validAbscissae (if d > 0 then xs.map (· * d) else xs) ↔ validAbscissae xs := by
  unfold validAbscissae
  split
  · rename_i hd
    rw [List.length_map, List.pairwise_map]
    have : ∀ a b : Rat, a * d < b * d ↔ a < b := fun a b => by
      constructor
      · intro h; by_contra hn; push Not at hn; nlinarith
      · intro h; nlinarith
    simp only [this]
  · rfl

theorem mk2_cases (xs ys : List Rat) (f : List (List Rat)) (xd yd fd : Rat) :
    (interp2CtorMeaningful xs ys f ∧ ∃ o, Interp.mk2 xs ys f xd yd fd = .ok o) ∨
    (¬ interp2CtorMeaningful xs ys f ∧ Interp.mk2 xs ys f xd yd fd = .error .diag) := by
  unfold Interp.mk2 interp2CtorMeaningful
  by_cases h1 : f.length ≠ xs.length ∨ (!(f.all (fun r => decide (r.length = ys.length)))) = true
  · rw [if_pos h1]
    right
    refine ⟨?_, rfl⟩
    rintro ⟨ha, hb, _, _⟩
    rcases h1 with h1 | h1
    · exact h1 ha
    · simp only [Bool.not_eq_true', List.all_eq_false, decide_eq_true_eq] at h1
      obtain ⟨r, hr, hne⟩ := h1
      exact hne (hb r hr)
  · rw [if_neg h1]
    push Not at h1
    obtain ⟨ha, hb⟩ := h1
    simp only [Bool.not_eq_true, Bool.not_eq_false', List.all_eq_true, decide_eq_true_eq] at hb
    simp only []
    have vx := scaled_valid xs xd
    have vy := scaled_valid ys yd
    generalize (if xd > 0 then xs.map (· * xd) else xs) = xs' at vx ⊢
    generalize (if yd > 0 then ys.map (· * yd) else ys) = ys' at vy ⊢
    rcases mk_cases xs' (xs'.map fun _ => 0) (-1) (-1) with ⟨mx, ox, hx⟩ | ⟨mx, hx⟩
    · rcases mk_cases ys' (ys'.map fun _ => 0) (-1) (-1) with ⟨my, oy, hy⟩ | ⟨my, hy⟩
      · rw [hx, hy]
        left
        exact ⟨⟨ha, hb, vx.mp ⟨mx.2.1, mx.2.2⟩, vy.mp ⟨my.2.1, my.2.2⟩⟩, _, rfl⟩
      · rw [hx, hy]
        right
        refine ⟨?_, rfl⟩
        rintro ⟨_, _, _, hvy⟩
        have := vy.mpr hvy
        exact my ⟨by simp, this.1, this.2⟩
    · rw [hx]
      right
      refine ⟨?_, rfl⟩
      rintro ⟨_, _, hvx, _⟩
      have := vx.mpr hvx
      exact mx ⟨by simp, this.1, this.2⟩

end Lp.C10
