/-
  C10 — translator tie.  `LpModel/C10/GeneratedGuards.lean` is regenerated from the text of the C++ sources on
  every run (translators/guards.py).  For EVERY regenerated guard `gen_<Entry>` this file proves, for all arguments,
  that it equals the hand-written guard of `LpModel/C10.lean` (`(…Guard …).stops`, or the stage of a multi-stage
  guard).  The `…_guard_iff` theorems of `LpProofs/C10.lean` therefore apply to what the source says NOW; a changed
  comparison or connective breaks the corresponding obligation here.  The proofs reason by case split + arithmetic,
  so an equivalent re-spelling of a condition (`dimension <= i` for `i >= dimension`) still closes.
-/
import Mathlib.Tactic.Linarith
import Mathlib.Tactic.SplitIfs
import Mathlib.Tactic.Tauto
import Mathlib.Tactic.Ring
import Mathlib.Algebra.Order.Field.Rat
import LpModel.C10
import LpModel.C10.GeneratedGuards
import LpProofs.C10.Lemmas
set_option linter.unusedTactic false
set_option linter.unreachableTactic false
set_option linter.unusedSimpArgs false
set_option linter.unnecessarySeqFocus false
namespace Lp.C10
open Lp.C10.Gen

/-- closes the arithmetic / propositional residue of a comparison between two guard spellings -/
macro "gen_arith" : tactic => `(tactic| first
  | omega
  | linarith
  | tauto
  | (constructor <;> intro _h <;> first
      | omega | linarith | tauto
      | (rcases _h with _h | _h <;> first | omega | linarith | (left; linarith) | (right; linarith) | (left; omega) | (right; omega))
      | (left; linarith) | (right; linarith) | (left; omega) | (right; omega)
      | (constructor <;> first | omega | linarith)))

/-- `generated Bool = (model guard).stops`: split the model's tests, normalise, finish with arithmetic -/
macro "gen_eq" : tactic => `(tactic| (split_ifs <;> simp_all [G.stops, stop, pass, rabs] <;> gen_arith))

/-! ## Vector -/
theorem gen_Vector_index_eq (i dimension : Nat) : gen_Vector_index i dimension = (vecIndexGuard dimension i).stops := by
  unfold gen_Vector_index vecIndexGuard; gen_eq
theorem gen_Vector_index_const_eq (i dimension : Nat) : gen_Vector_index_const i dimension = (vecIndexGuard dimension i).stops := by
  unfold gen_Vector_index_const vecIndexGuard; gen_eq
theorem gen_Vector_Dot_eq (d r : Nat) : gen_Vector_Dot d r = (vecPairGuard d r).stops := by
  unfold gen_Vector_Dot vecPairGuard; gen_eq
theorem gen_Vector_Cross_eq (d r : Nat) : gen_Vector_Cross d r = (crossGuard d r).stops := by
  unfold gen_Vector_Cross crossGuard; gen_eq
theorem gen_Vector_plus_eq (d r : Nat) : gen_Vector_plus d r = (vecPairGuard d r).stops := by
  unfold gen_Vector_plus vecPairGuard; gen_eq
theorem gen_Vector_minus_eq (d r : Nat) : gen_Vector_minus d r = (vecPairGuard d r).stops := by
  unfold gen_Vector_minus vecPairGuard; gen_eq
theorem gen_Vector_pluseq_eq (d r : Nat) : gen_Vector_pluseq d r = (vecPairGuard d r).stops := by
  unfold gen_Vector_pluseq vecPairGuard; gen_eq
theorem gen_Vector_minuseq_eq (d r : Nat) : gen_Vector_minuseq d r = (vecPairGuard d r).stops := by
  unfold gen_Vector_minuseq vecPairGuard; gen_eq

/-! ## Matrix -/
/-- the constructor loop `for(i < rows) if(entries[i].size() != columns)` with `columns` the first row's length -/
theorem gen_Matrix_entries_row_eq (lens : List Nat) :
    (lens.any fun l => gen_Matrix_entries_row l (lens.headD 0)) = (matEntriesGuard lens).stops := by
  unfold matEntriesGuard
  cases lens with
  | nil => simp [G.stops, pass]
  | cons l0 rest =>
    simp only [List.headD_cons]
    rw [Bool.eq_iff_iff]
    split_ifs with h
    · simp only [List.all_eq_true, decide_eq_true_eq] at h
      simp only [G.stops, pass, List.any_eq_true, Bool.false_eq_true, iff_false, not_exists, not_and]
      intro l hl; have := h l hl; unfold gen_Matrix_entries_row; simp_all
    · simp only [List.all_eq_true, decide_eq_true_eq, not_forall] at h
      obtain ⟨l, hl, hne⟩ := h
      simp only [G.stops, stop, List.any_eq_true, iff_true]
      exact ⟨l, hl, by unfold gen_Matrix_entries_row; simp_all <;> gen_arith⟩
theorem gen_Matrix_Delete_Row_eq (row rows : Nat) : gen_Matrix_Delete_Row row rows = (matRowGuard rows row).stops := by
  unfold gen_Matrix_Delete_Row matRowGuard; gen_eq
theorem gen_Matrix_Delete_Column_eq (c cs : Nat) : gen_Matrix_Delete_Column c cs = (matColGuard cs c).stops := by
  unfold gen_Matrix_Delete_Column matColGuard; gen_eq
theorem gen_Matrix_Return_Row_eq (row rows : Nat) : gen_Matrix_Return_Row row rows = (matRowGuard rows row).stops := by
  unfold gen_Matrix_Return_Row matRowGuard; gen_eq
theorem gen_Matrix_Return_Column_eq (c cs : Nat) : gen_Matrix_Return_Column c cs = (matColGuard cs c).stops := by
  unfold gen_Matrix_Return_Column matColGuard; gen_eq
theorem gen_Matrix_Plus_eq (r c mr mc : Nat) : gen_Matrix_Plus r c mr mc = (matSumGuard r c mr mc).stops := by
  unfold gen_Matrix_Plus matSumGuard; gen_eq
theorem gen_Matrix_Minus_eq (r c mr mc : Nat) : gen_Matrix_Minus r c mr mc = (matSumGuard r c mr mc).stops := by
  unfold gen_Matrix_Minus matSumGuard; gen_eq
theorem gen_Matrix_pluseq_eq (r c mr mc : Nat) : gen_Matrix_pluseq r c mr mc = (matSumGuard r c mr mc).stops := by
  unfold gen_Matrix_pluseq matSumGuard; gen_eq
theorem gen_Matrix_minuseq_eq (r c mr mc : Nat) : gen_Matrix_minuseq r c mr mc = (matSumGuard r c mr mc).stops := by
  unfold gen_Matrix_minuseq matSumGuard; gen_eq
theorem gen_Matrix_Product_eq (r c mr mc : Nat) : gen_Matrix_Product r c mr mc = (matProdGuard r c mr mc).stops := by
  unfold gen_Matrix_Product matProdGuard; gen_eq
theorem gen_Matrix_Product_Vector_eq (r c n : Nat) : gen_Matrix_Product_Vector r c n = (matVecGuard r c n).stops := by
  unfold gen_Matrix_Product_Vector matVecGuard; gen_eq
theorem gen_Vector_times_Matrix_eq (n r c : Nat) : gen_Vector_times_Matrix n r c = (vecMatGuard n r c).stops := by
  unfold gen_Vector_times_Matrix vecMatGuard; gen_eq
theorem gen_Matrix_Trace_eq (r c : Nat) : gen_Matrix_Trace r c = (squareGuard r c).stops := by
  unfold gen_Matrix_Trace squareGuard; gen_eq
theorem gen_Matrix_Determinant_eq (r c : Nat) : gen_Matrix_Determinant r c = (squareGuard r c).stops := by
  unfold gen_Matrix_Determinant squareGuard; gen_eq
/-- `if(!Square()) … else if(!Invertible())` with `Invertible() = Square() && Determinant() != 0` -/
theorem gen_Matrix_Inverse_eq (r c : Nat) (det : Rat) :
    (gen_Matrix_Inverse_square r c || gen_Matrix_Inverse_singular (decide (r = c ∧ det ≠ 0))) = (inverseGuard r c det).stops := by
  unfold gen_Matrix_Inverse_square gen_Matrix_Inverse_singular inverseGuard; gen_eq
theorem gen_Matrix_index_eq (i rows : Nat) : gen_Matrix_index i rows = (matIndexGuard rows i).stops := by
  unfold gen_Matrix_index matIndexGuard; gen_eq
theorem gen_Matrix_index_const_eq (i rows : Nat) : gen_Matrix_index_const i rows = (matIndexGuard rows i).stops := by
  unfold gen_Matrix_index_const matIndexGuard; gen_eq
/-- `if(dim == 2) … else if(dim == 3){ if(axis.Size() != 3) exit } else exit` -/
theorem gen_Rotation_eq (dim : Int) (n : Nat) :
    (!gen_Rotation_dim2 dim && (!gen_Rotation_dim3 dim || gen_Rotation_axis n)) = (rotationGuard dim n).stops := by
  unfold gen_Rotation_dim2 gen_Rotation_dim3 gen_Rotation_axis rotationGuard; gen_eq

/-! ## Interpolation -/
/-- the loop `for(i = 1; i < N; i++) if(<order test on x[i-1], x[i]>)` -/
def adjAny (p : Rat → Rat → Bool) : List Rat → Bool
  | [] => false
  | [_] => false
  | a :: b :: r => p a b || adjAny p (b :: r)

theorem adjAny_order (xs : List Rat) : adjAny gen_Interpolation_order xs = !Interp.strictlyIncreasing xs := by
  induction xs with
  | nil => simp [adjAny, Interp.strictlyIncreasing]
  | cons a r ih =>
    cases r with
    | nil => simp [adjAny, Interp.strictlyIncreasing]
    | cons b r' =>
      have e : gen_Interpolation_order a b = !decide (a < b) := by
        unfold gen_Interpolation_order
        first
          | rfl
          | (rw [Bool.eq_iff_iff]; first | done | (simp <;> gen_arith))
      unfold adjAny Interp.strictlyIncreasing
      rw [ih, Bool.not_and, e]

theorem gen_Interpolation_eq (xs ys : List Rat) (xd fd : Rat) :
    (gen_Interpolation_lengths xs.length ys.length || gen_Interpolation_short xs.length || adjAny gen_Interpolation_order xs)
      = (interpCtorGuard xs ys xd fd).stops := by
  rw [adjAny_order]
  unfold gen_Interpolation_lengths gen_Interpolation_short interpCtorGuard Interp.mk
  split_ifs <;> simp_all [G.stops, stop, pass] <;> gen_arith

theorem gen_Interpolation_table_eq (data : List (List Rat)) (xd fd : Rat) :
    interpTableGuard data xd fd =
      if (data.any fun r => gen_Interpolation_table_row r.length) then stop
      else interpCtorGuard (data.map (fun r => r.getD 0 0)) (data.map (fun r => r.getD 1 0)) xd fd := by
  unfold interpTableGuard
  have : (data.any fun r => gen_Interpolation_table_row r.length) = !(data.all fun r => decide (r.length = 2)) := by
    rw [Bool.eq_iff_iff]
    simp only [List.any_eq_true, Bool.not_eq_true', List.all_eq_false, decide_eq_true_eq]
    constructor <;> rintro ⟨r, hr, h⟩ <;> refine ⟨r, hr, ?_⟩ <;> unfold gen_Interpolation_table_row at * <;> simp_all <;> gen_arith
  rw [this]
  cases data.all fun r => decide (r.length = 2) <;> simp

theorem gen_Locate_tolerance_eq : gen_Locate_tolerance_left = 1 / 100 ∧ gen_Locate_tolerance_right = 1 / 100 := by
  unfold gen_Locate_tolerance_left gen_Locate_tolerance_right; constructor <;> norm_num

/-- `Locate`: outside the domain AND not within the left tolerance AND not within the right one -/
theorem gen_Locate_eq (N : Nat) (x : Nat → Rat) (st : Interp.LState) (v : Rat) :
    (gen_Locate_outside v (x 0) (x (N - 1))
      && !gen_Locate_tolerated_left v (x 0) (gen_Locate_tolerance_left * (x 1 - x 0))
      && !gen_Locate_tolerated_right v (x (N - 1)) (gen_Locate_tolerance_right * (x (N - 1) - x (N - 2))))
      = (locateGuard N x st v).stops := by
  have hs : (locateGuard N x st v).stops = true ↔ ¬ inDomain N x v := by
    unfold locateGuard
    rcases locate_cases N x st v with ⟨hd, j, st', h⟩ | ⟨hd, h⟩ <;> rw [h] <;> simp [G.stops, stop, pass, hd]
  rw [Bool.eq_iff_iff, hs, gen_Locate_tolerance_eq.1, gen_Locate_tolerance_eq.2]
  unfold gen_Locate_outside gen_Locate_tolerated_left gen_Locate_tolerated_right inDomain
  simp only [Bool.and_eq_true, Bool.or_eq_true, decide_eq_true_eq, Bool.not_eq_true', decide_eq_false_iff_not]
  have e1 : (1 : Rat) / 100 * (x 1 - x 0) = (x 1 - x 0) / 100 := by ring
  have e2 : (1 : Rat) / 100 * (x (N - 1) - x (N - 2)) = (x (N - 1) - x (N - 2)) / 100 := by ring
  rw [e1, e2]
  constructor
  · rintro ⟨⟨ho, hl⟩, hr⟩ (⟨ha, hb⟩ | hc | hd)
    · rcases ho with ho | ho <;> linarith
    · exact hl hc
    · exact hr hd
  · intro h
    refine ⟨⟨?_, fun hc => h (Or.inr (Or.inl hc))⟩, fun hd => h (Or.inr (Or.inr hd))⟩
    by_contra hn
    apply h; left
    constructor <;> by_contra hh <;> apply hn
    · left; linarith
    · right; linarith

/-! ## Integration, special functions -/
theorem gen_Gauss_Legendre_sizes_eq (n m : Nat) : gen_Gauss_Legendre_sizes n m = (gaussLegendreGuard n m).stops := by
  unfold gen_Gauss_Legendre_sizes gaussLegendreGuard; gen_eq
theorem gen_Factorial_eq (n : Nat) : gen_Factorial n = (factorialGuard n).stops := by
  unfold gen_Factorial factorialGuard; gen_eq
theorem gen_Binomial_Coefficient_eq (n k : Int) : gen_Binomial_Coefficient n k = (binomialGuard n k).stops := by
  unfold gen_Binomial_Coefficient binomialGuard; gen_eq
theorem gen_GammaLn_eq (x : Rat) : gen_GammaLn x = (gammaLnGuard x).stops := by
  unfold gen_GammaLn gammaLnGuard; gen_eq
theorem gen_Gamma_eq (x : Rat) : gen_Gamma x = (gammaLnGuard x).stops := by
  unfold gen_Gamma gammaLnGuard; gen_eq
theorem gen_GammaQ_eq (x a : Rat) : gen_GammaQ x a = (gammaQGuard x a).stops := by
  unfold gen_GammaQ gammaQGuard; gen_eq
theorem gen_Inv_GammaP_eq (a : Rat) : gen_Inv_GammaP a = (invGammaPGuard a).stops := by
  unfold gen_Inv_GammaP invGammaPGuard; gen_eq
theorem gen_Round_digits_eq (N : Rat) (digits : Nat) : gen_Round_digits digits = (roundGuard N digits).stops := by
  unfold gen_Round_digits gen_Round_digits_max roundGuard; gen_eq
/-- `if(fabs(p - 1.0) < 1e-16) return 10; else if(fabs(p + 1.0) < 1e-16) return -10; else if(fabs(p) >= 1.0) exit` -/
theorem gen_Inv_Erf_eq (p : Rat) :
    (!gen_Inv_Erf_saturated p && !gen_Inv_Erf_saturated_minus p && gen_Inv_Erf_outside p) = (invErfGuard p).stops := by
  unfold gen_Inv_Erf_saturated gen_Inv_Erf_saturated_minus gen_Inv_Erf_outside invErfGuard invErfEps
  have e : ((1 : Rat) / 10000000000000000) = 1 / 10 ^ 16 := by norm_num
  rw [e]
  generalize (1 : Rat) / 10 ^ 16 = ε
  by_cases h1 : rabs (p - 1) < ε
  · simp [h1, G.stops, pass]
  · by_cases h2 : rabs (p + 1) < ε
    · simp [h1, h2, G.stops, pass]
    · by_cases h3 : rabs p ≥ 1
      · simp [h1, h2, h3, G.stops, stop]
      · simp [h1, h2, h3, G.stops, pass]

/-! ## Statistics -/
theorem gen_PMF_Binomial_eq (p : Rat) : gen_PMF_Binomial p = (probabilityGuard p).stops := by
  unfold gen_PMF_Binomial probabilityGuard; gen_eq
theorem gen_CDF_Binomial_eq (p : Rat) : gen_CDF_Binomial p = (probabilityGuard p).stops := by
  unfold gen_CDF_Binomial probabilityGuard; gen_eq
theorem gen_PMF_Poisson_eq (mu : Rat) (events : Nat) : gen_PMF_Poisson mu events = (poissonMeanGuard mu).stops := by
  unfold gen_PMF_Poisson poissonMeanGuard; gen_eq
theorem gen_CDF_Poisson_eq (mu : Rat) (events : Nat) : gen_CDF_Poisson mu events = (poissonMeanGuard mu).stops := by
  unfold gen_CDF_Poisson poissonMeanGuard; gen_eq
theorem gen_Inv_CDF_Poisson_eq (c : Rat) : gen_Inv_CDF_Poisson c = (probabilityGuard c).stops := by
  unfold gen_Inv_CDF_Poisson probabilityGuard; gen_eq
theorem gen_PDF_Exponential_eq (m : Rat) : gen_PDF_Exponential m = (positiveGuard m).stops := by
  unfold gen_PDF_Exponential positiveGuard; gen_eq
theorem gen_CDF_Exponential_eq (m : Rat) : gen_CDF_Exponential m = (positiveGuard m).stops := by
  unfold gen_CDF_Exponential positiveGuard; gen_eq
theorem gen_PDF_Maxwell_Boltzmann_eq (a : Rat) : gen_PDF_Maxwell_Boltzmann a = (positiveGuard a).stops := by
  unfold gen_PDF_Maxwell_Boltzmann positiveGuard; gen_eq
theorem gen_CDF_Maxwell_Boltzmann_eq (a : Rat) : gen_CDF_Maxwell_Boltzmann a = (positiveGuard a).stops := by
  unfold gen_CDF_Maxwell_Boltzmann positiveGuard; gen_eq
/-- the test runs after an empty background list has been replaced by `N_bins` zeros -/
theorem gen_Log_Likelihood_Poisson_Binned_eq (nPred nObs nBkg : Nat) :
    gen_Log_Likelihood_Poisson_Binned nObs nPred (if nBkg = 0 then nPred else nBkg) = (binnedGuard nPred nObs nBkg).stops := by
  unfold gen_Log_Likelihood_Poisson_Binned binnedGuard
  by_cases hb : nBkg = 0 <;> simp only [hb, if_true, if_false] <;> gen_eq
theorem gen_Sample_Metropolis_eq (n : Nat) :
    (!gen_Sample_Metropolis_unbounded n && !gen_Sample_Metropolis_bounded n) = (metropolisGuard 2 n).stops := by
  unfold gen_Sample_Metropolis_unbounded gen_Sample_Metropolis_bounded metropolisGuard; gen_eq
theorem gen_Sample_Metropolis_2D_eq (n : Nat) :
    (!gen_Sample_Metropolis_2D_unbounded n && !gen_Sample_Metropolis_2D_bounded n) = (metropolisGuard 4 n).stops := by
  unfold gen_Sample_Metropolis_2D_unbounded gen_Sample_Metropolis_2D_bounded metropolisGuard; gen_eq

/-! ## Parameter guards added for audit defect 18 and the length-0 quantifier -/
theorem gen_PDF_Uniform_eq (a b : Rat) : gen_PDF_Uniform a b = (intervalGuard a b).stops := by
  unfold gen_PDF_Uniform intervalGuard; gen_eq
theorem gen_CDF_Uniform_eq (a b : Rat) : gen_CDF_Uniform a b = (intervalGuard a b).stops := by
  unfold gen_CDF_Uniform intervalGuard; gen_eq
theorem gen_PDF_Gauss_eq (s : Rat) : gen_PDF_Gauss s = (positiveGuard s).stops := by
  unfold gen_PDF_Gauss positiveGuard; gen_eq
theorem gen_CDF_Gauss_eq (s : Rat) : gen_CDF_Gauss s = (positiveGuard s).stops := by
  unfold gen_CDF_Gauss positiveGuard; gen_eq
theorem gen_Quantile_Gauss_eq (p s : Rat) :
    (gen_Quantile_Gauss s || (invErfGuard (2 * p - 1)).stops) = (quantileGaussGuard p s).stops := by
  unfold gen_Quantile_Gauss quantileGaussGuard
  by_cases h : s < 0 <;> simp [h, G.stops, stop]
theorem gen_PDF_Gauss_2D_eq (sx sy : Rat) : gen_PDF_Gauss_2D sx sy = (gauss2DGuard sx sy).stops := by
  unfold gen_PDF_Gauss_2D gauss2DGuard; gen_eq
theorem gen_PDF_Chi_Square_eq (d : Rat) : gen_PDF_Chi_Square d = (poissonMeanGuard d).stops := by
  unfold gen_PDF_Chi_Square poissonMeanGuard; gen_eq
theorem gen_CDF_Chi_Square_eq (d : Rat) : gen_CDF_Chi_Square d = (poissonMeanGuard d).stops := by
  unfold gen_CDF_Chi_Square poissonMeanGuard; gen_eq
theorem gen_Log_Likelihood_Poisson_eq (a b : Rat) : gen_Log_Likelihood_Poisson a b = (likelihoodPoissonGuard a b).stops := by
  unfold gen_Log_Likelihood_Poisson likelihoodPoissonGuard; gen_eq
theorem gen_Sample_Uniform_eq (a b : Rat) : gen_Sample_Uniform a b = (weakIntervalGuard a b).stops := by
  unfold gen_Sample_Uniform weakIntervalGuard; gen_eq
theorem gen_Sample_Gauss_eq (s : Rat) : gen_Sample_Gauss s = (poissonMeanGuard s).stops := by
  unfold gen_Sample_Gauss poissonMeanGuard; gen_eq
theorem gen_Sample_Poisson_eq (m : Rat) : gen_Sample_Poisson m = (poissonMeanGuard m).stops := by
  unfold gen_Sample_Poisson poissonMeanGuard; gen_eq
theorem gen_Inv_GammaP_full_eq (p a : Rat) :
    (gen_Inv_GammaP a || gen_Inv_GammaP_probability p) = (invGammaPFullGuard p a).stops := by
  unfold gen_Inv_GammaP gen_Inv_GammaP_probability invGammaPFullGuard; gen_eq
theorem gen_Inv_GammaQ_eq (q a : Rat) :
    (gen_Inv_GammaQ_probability q || gen_Inv_GammaP a) = (invGammaPFullGuard (1 - q) a).stops := by
  have e : (1 - q < 0 ∨ 1 - q > 1) ↔ (q < 0 ∨ q > 1) := by
    constructor
    · rintro (h | h)
      · right; linarith
      · left; linarith
    · rintro (h | h)
      · right; linarith
      · left; linarith
  unfold gen_Inv_GammaQ_probability gen_Inv_GammaP invGammaPFullGuard
  rw [Bool.eq_iff_iff]
  by_cases ha : a ≤ 0
  · simp [ha, G.stops, stop]
  · rw [if_neg ha]
    by_cases hq : (q < 0 ∨ q > 1)
    · rw [if_pos (e.mpr hq)]
      simp only [G.stops, stop, Bool.or_eq_true, decide_eq_true_eq, iff_true]
      exact Or.inl hq
    · rw [if_neg (fun h => hq (e.mp h))]
      simp only [G.stops, pass, Bool.or_eq_true, decide_eq_true_eq, Bool.false_eq_true, iff_false]
      rintro (h | h)
      · exact hq h
      · exact ha h
theorem gen_Locate_Closest_Location_eq (l : List Rat) :
    (gen_Locate_Closest_Location_empty l.length || (closestGuard l).stops) = (closestAllGuard l).stops := by
  unfold gen_Locate_Closest_Location_empty closestAllGuard
  by_cases h : l.length = 0 <;> simp [h, G.stops, stop]

/-! ## Lists, units, files -/
theorem any_eq_stops_of_all {α} (l : List α) (p q : α → Bool) (h : ∀ a, p a = !q a) :
    l.any p = (if l.all q then pass else stop).stops := by
  rw [Bool.eq_iff_iff]
  split_ifs with hq
  · simp only [List.all_eq_true] at hq
    simp only [G.stops, pass, List.any_eq_true, Bool.false_eq_true, iff_false, not_exists, not_and]
    intro a ha; rw [h a, hq a ha]; simp
  · simp only [List.all_eq_true, not_forall] at hq
    obtain ⟨a, ha, hn⟩ := hq
    simp only [G.stops, stop, List.any_eq_true, iff_true]
    exact ⟨a, ha, by rw [h a]; simpa using hn⟩

theorem gen_Gauss_Legendre_func_row_eq (lens : List Nat) :
    (lens.any fun l => gen_Gauss_Legendre_func_row l) = (gaussLegendreFuncGuard lens).stops := by
  unfold gaussLegendreFuncGuard
  apply any_eq_stops_of_all
  intro a; unfold gen_Gauss_Legendre_func_row; rw [Bool.eq_iff_iff]; simp <;> gen_arith
theorem gen_Gauss_Legendre_rows_eq (n : Nat) (lens : List Nat) :
    (gen_Gauss_Legendre_sizes n lens.length || lens.any fun l => gen_Gauss_Legendre_row l) = (gaussLegendreRowsGuard n lens).stops := by
  unfold gaussLegendreRowsGuard gen_Gauss_Legendre_sizes
  by_cases h : n ≠ lens.length
  · simp [h, G.stops, stop]
  · have e : (lens.any fun l => gen_Gauss_Legendre_row l) = (if lens.all (fun l => decide (l = 2)) then pass else stop).stops := by
      apply any_eq_stops_of_all
      intro a; unfold gen_Gauss_Legendre_row; rw [Bool.eq_iff_iff]; simp <;> gen_arith
    push Not at h
    rw [if_neg (by simpa using h), e]
    simp [h]
theorem gen_Transpose_Lists_eq (l0 : Nat) (rest : List Nat) :
    (rest.any fun l => gen_Transpose_Lists_row l l0) = (transposeGuard l0 rest).stops := by
  unfold transposeGuard
  apply any_eq_stops_of_all
  intro a; unfold gen_Transpose_Lists_row; rw [Bool.eq_iff_iff]; simp <;> gen_arith
theorem gen_In_Units_eq (lens : List Nat) (nd : Nat) :
    (lens.any fun l => gen_In_Units_row l nd) = (inUnitsGuard lens nd).stops := by
  unfold inUnitsGuard
  apply any_eq_stops_of_all
  intro a; unfold gen_In_Units_row; rw [Bool.eq_iff_iff]; simp <;> gen_arith
theorem gen_Export_Table_eq (lens : List Nat) (nd : Nat) :
    (lens.any fun l => gen_Export_Table_row nd l) = (exportTableGuard lens nd).stops := by
  unfold exportTableGuard
  apply any_eq_stops_of_all
  intro a; unfold gen_Export_Table_row; rw [Bool.eq_iff_iff]; simp <;> gen_arith
theorem gen_Import_Table_eq (cols nd : Nat) : gen_Import_Table_columns nd cols = (importTableGuard true cols nd).stops := by
  unfold gen_Import_Table_columns importTableGuard; gen_eq

theorem gen_PDF_Chi_Bar_Square_eq (ws : List Rat) :
    (ws.any fun w => gen_PDF_Chi_Bar_Square_weight w) = (chiBarGuard ws).stops := by
  unfold chiBarGuard
  apply any_eq_stops_of_all
  intro a; unfold gen_PDF_Chi_Bar_Square_weight; rw [Bool.eq_iff_iff]; simp <;> gen_arith
theorem gen_CDF_Chi_Bar_Square_eq (ws : List Rat) :
    (ws.any fun w => gen_CDF_Chi_Bar_Square_weight w) = (chiBarGuard ws).stops := by
  unfold chiBarGuard
  apply any_eq_stops_of_all
  intro a; unfold gen_CDF_Chi_Bar_Square_weight; rw [Bool.eq_iff_iff]; simp <;> gen_arith

/-! ## Guards added by the second audit (list lengths, negative dimensions, Monte Carlo region / calls) -/
theorem gen_Minimize_deltas_eq (n m : Nat) : gen_Minimize_deltas n m = (simplexDeltasGuard n m).stops := by
  unfold gen_Minimize_deltas simplexDeltasGuard; gen_eq
theorem gen_Arithmetic_Mean_eq (n : Nat) : gen_Arithmetic_Mean n = (dataLengthGuard 1 n).stops := by
  unfold gen_Arithmetic_Mean dataLengthGuard; gen_eq
theorem gen_Median_eq (n : Nat) : gen_Median n = (dataLengthGuard 1 n).stops := by
  unfold gen_Median dataLengthGuard; gen_eq
theorem gen_Variance_eq (n : Nat) : gen_Variance n = (dataLengthGuard 2 n).stops := by
  unfold gen_Variance dataLengthGuard; gen_eq
theorem gen_Weighted_Average_eq (n : Nat) : gen_Weighted_Average n = (dataLengthGuard 2 n).stops := by
  unfold gen_Weighted_Average dataLengthGuard; gen_eq
theorem gen_Matrix_Resize_eq (r c : Int) : gen_Matrix_Resize r c = (matDimsGuard r c).stops := by
  unfold gen_Matrix_Resize matDimsGuard; gen_eq
theorem gen_Matrix_Assign_eq (r c : Int) : gen_Matrix_Assign r c = (matDimsGuard r c).stops := by
  unfold gen_Matrix_Assign matDimsGuard; gen_eq
/-- region test, then number of calls, then the method dispatch -/
theorem gen_Integrate_MC_eq (rs : Nat) (n : Int) (method : String) :
    (gen_Integrate_MC_region rs || gen_Integrate_MC_ncalls n method || (integrateMCGuard method).stops)
      = (integrateMCShapeGuard rs n method).stops := by
  unfold gen_Integrate_MC_region gen_Integrate_MC_ncalls integrateMCShapeGuard
  by_cases h1 : rs = 0 ∨ rs % 2 ≠ 0
  · rw [if_pos h1]; rcases h1 with h1 | h1 <;> simp [h1, G.stops, stop]
  · rw [if_neg h1]; push Not at h1
    by_cases h2 : n < 1 ∨ (method = "Vegas" ∧ n < 2)
    · rw [if_pos h2]
      rcases h2 with h2 | ⟨hm, h2⟩
      · simp [h2, G.stops, stop]
      · simp [hm, h2, G.stops, stop]
    · rw [if_neg h2]; push Not at h2
      have e1 : decide (rs = 0) = false := by simp [h1.1]
      have e2 : decide (rs % 2 ≠ 0) = false := by simp [h1.2]
      have e3 : decide (n < 1) = false := by simp; omega
      have e4 : (decide (method = "Vegas") && decide (n < 2)) = false := by
        by_cases hm : method = "Vegas"
        · have := h2.2 hm; simp [hm]; omega
        · simp [hm]
      simp only [e1, e2, e3, e4, Bool.or_false, Bool.false_or, Nat.cast_ofNat]
      first | done | simp

/-! ## Early exits and early returns of every anchored function: the regenerated lists equal the committed expectation.
    An additional (or removed, or re-ordered, or changed) early `if( … ) exit/return` breaks the obligation; the test of a
    table entry appears as `@gen_<Entry>` and is pinned by its `gen_<Entry>_eq` theorem, so re-spelling it is harmless. -/
theorem gen_Vector_index_early_eq : gen_Vector_index_early =
    ["@gen_Vector_index"] := by decide
theorem gen_Vector_index_const_early_eq : gen_Vector_index_const_early =
    ["@gen_Vector_index_const"] := by decide
theorem gen_Vector_Dot_early_eq : gen_Vector_Dot_early =
    ["@gen_Vector_Dot"] := by decide
theorem gen_Vector_Cross_early_eq : gen_Vector_Cross_early =
    ["@gen_Vector_Cross"] := by decide
theorem gen_Vector_plus_early_eq : gen_Vector_plus_early =
    ["@gen_Vector_plus"] := by decide
theorem gen_Vector_minus_early_eq : gen_Vector_minus_early =
    ["@gen_Vector_minus"] := by decide
theorem gen_Vector_pluseq_early_eq : gen_Vector_pluseq_early =
    ["@gen_Vector_pluseq"] := by decide
theorem gen_Vector_minuseq_early_eq : gen_Vector_minuseq_early =
    ["@gen_Vector_minuseq"] := by decide
theorem gen_Matrix_entries_row_early_eq : gen_Matrix_entries_row_early =
    [] := by decide
theorem gen_Matrix_Delete_Row_early_eq : gen_Matrix_Delete_Row_early =
    ["@gen_Matrix_Delete_Row"] := by decide
theorem gen_Matrix_Delete_Column_early_eq : gen_Matrix_Delete_Column_early =
    ["@gen_Matrix_Delete_Column"] := by decide
theorem gen_Matrix_Return_Row_early_eq : gen_Matrix_Return_Row_early =
    ["@gen_Matrix_Return_Row"] := by decide
theorem gen_Matrix_Return_Column_early_eq : gen_Matrix_Return_Column_early =
    ["@gen_Matrix_Return_Column"] := by decide
theorem gen_Matrix_Plus_early_eq : gen_Matrix_Plus_early =
    ["@gen_Matrix_Plus"] := by decide
theorem gen_Matrix_Minus_early_eq : gen_Matrix_Minus_early =
    ["@gen_Matrix_Minus"] := by decide
theorem gen_Matrix_pluseq_early_eq : gen_Matrix_pluseq_early =
    ["@gen_Matrix_pluseq"] := by decide
theorem gen_Matrix_minuseq_early_eq : gen_Matrix_minuseq_early =
    ["@gen_Matrix_minuseq"] := by decide
theorem gen_Matrix_Product_early_eq : gen_Matrix_Product_early =
    ["@gen_Matrix_Product"] := by decide
theorem gen_Matrix_Product_Vector_early_eq : gen_Matrix_Product_Vector_early =
    ["@gen_Matrix_Product_Vector"] := by decide
theorem gen_Vector_times_Matrix_early_eq : gen_Vector_times_Matrix_early =
    ["@gen_Vector_times_Matrix"] := by decide
theorem gen_Matrix_Trace_early_eq : gen_Matrix_Trace_early =
    ["@gen_Matrix_Trace"] := by decide
theorem gen_Matrix_Determinant_early_eq : gen_Matrix_Determinant_early =
    ["@gen_Matrix_Determinant", "1 == rows", "2 == rows"] := by decide
theorem gen_Matrix_Inverse_square_early_eq : gen_Matrix_Inverse_square_early =
    ["@gen_Matrix_Inverse_square", "@gen_Matrix_Inverse_singular"] := by decide
theorem gen_Matrix_index_early_eq : gen_Matrix_index_early =
    ["@gen_Matrix_index"] := by decide
theorem gen_Matrix_index_const_early_eq : gen_Matrix_index_const_early =
    ["@gen_Matrix_index_const"] := by decide
theorem gen_Rotation_dim2_early_eq : gen_Rotation_dim2_early =
    ["@gen_Rotation_dim2", "@gen_Rotation_dim3", "else"] := by decide
theorem gen_Interpolation_lengths_early_eq : gen_Interpolation_lengths_early =
    ["@gen_Interpolation_lengths", "@gen_Interpolation_short"] := by decide
theorem gen_Interpolation_table_row_early_eq : gen_Interpolation_table_row_early =
    [] := by decide
theorem gen_Locate_outside_early_eq : gen_Locate_outside_early =
    ["@gen_Locate_outside"] := by decide
theorem gen_Local_Minimum_order_early_eq : gen_Local_Minimum_order_early =
    ["@gen_Local_Minimum_order"] := by decide
theorem gen_Local_Maximum_order_early_eq : gen_Local_Maximum_order_early =
    ["@gen_Local_Maximum_order"] := by decide
theorem gen_Gauss_Legendre_sizes_early_eq : gen_Gauss_Legendre_sizes_early =
    ["@gen_Gauss_Legendre_sizes"] := by decide
theorem gen_Gauss_Legendre_func_row_early_eq : gen_Gauss_Legendre_func_row_early =
    [] := by decide
theorem gen_Factorial_early_eq : gen_Factorial_early =
    ["@gen_Factorial", "n < FactorialList.size()"] := by decide
theorem gen_Binomial_Coefficient_early_eq : gen_Binomial_Coefficient_early =
    ["@gen_Binomial_Coefficient", "n < k"] := by decide
theorem gen_GammaLn_early_eq : gen_GammaLn_early =
    ["@gen_GammaLn"] := by decide
theorem gen_Gamma_early_eq : gen_Gamma_early =
    ["@gen_Gamma"] := by decide
theorem gen_GammaQ_early_eq : gen_GammaQ_early =
    ["@gen_GammaQ", "0 == x"] := by decide
theorem gen_Inv_GammaP_early_eq : gen_Inv_GammaP_early =
    ["@gen_Inv_GammaP", "@gen_Inv_GammaP_probability", "1 <= p", "p <= 0"] := by decide
theorem gen_Round_digits_early_eq : gen_Round_digits_early =
    ["@gen_Round_digits", "0 == N"] := by decide
theorem gen_Inv_Erf_saturated_early_eq : gen_Inv_Erf_saturated_early =
    ["@gen_Inv_Erf_saturated", "@gen_Inv_Erf_saturated_minus", "@gen_Inv_Erf_outside"] := by decide
theorem gen_PMF_Binomial_early_eq : gen_PMF_Binomial_early =
    ["@gen_PMF_Binomial"] := by decide
theorem gen_CDF_Binomial_early_eq : gen_CDF_Binomial_early =
    ["@gen_CDF_Binomial", "trials <= x"] := by decide
theorem gen_PMF_Poisson_early_eq : gen_PMF_Poisson_early =
    ["@gen_PMF_Poisson", "0 == events && 0 == expected_events", "0 < events && 0 == expected_events"] := by decide
theorem gen_CDF_Poisson_early_eq : gen_CDF_Poisson_early =
    ["@gen_CDF_Poisson", "0 <= gq"] := by decide
theorem gen_Inv_CDF_Poisson_early_eq : gen_Inv_CDF_Poisson_early =
    ["@gen_Inv_CDF_Poisson", "0 == observed_events"] := by decide
theorem gen_PDF_Exponential_early_eq : gen_PDF_Exponential_early =
    ["@gen_PDF_Exponential", "x < 0"] := by decide
theorem gen_CDF_Exponential_early_eq : gen_CDF_Exponential_early =
    ["@gen_CDF_Exponential", "x < 0"] := by decide
theorem gen_PDF_Maxwell_Boltzmann_early_eq : gen_PDF_Maxwell_Boltzmann_early =
    ["@gen_PDF_Maxwell_Boltzmann", "x < 0"] := by decide
theorem gen_CDF_Maxwell_Boltzmann_early_eq : gen_CDF_Maxwell_Boltzmann_early =
    ["@gen_CDF_Maxwell_Boltzmann", "x < 0", "t < 1/10"] := by decide
theorem gen_PDF_Uniform_early_eq : gen_PDF_Uniform_early =
    ["@gen_PDF_Uniform", "x < x_min || x_max < x"] := by decide
theorem gen_CDF_Uniform_early_eq : gen_CDF_Uniform_early =
    ["@gen_CDF_Uniform", "x < x_min", "x_max < x"] := by decide
theorem gen_PDF_Gauss_early_eq : gen_PDF_Gauss_early =
    ["@gen_PDF_Gauss"] := by decide
theorem gen_CDF_Gauss_early_eq : gen_CDF_Gauss_early =
    ["@gen_CDF_Gauss"] := by decide
theorem gen_Quantile_Gauss_early_eq : gen_Quantile_Gauss_early =
    ["@gen_Quantile_Gauss"] := by decide
theorem gen_PDF_Gauss_2D_early_eq : gen_PDF_Gauss_2D_early =
    ["@gen_PDF_Gauss_2D"] := by decide
theorem gen_PDF_Chi_Square_early_eq : gen_PDF_Chi_Square_early =
    ["@gen_PDF_Chi_Square", "dof < 1/1000000 || x <= 0"] := by decide
theorem gen_CDF_Chi_Square_early_eq : gen_CDF_Chi_Square_early =
    ["@gen_CDF_Chi_Square", "x < 0", "fabs(dof) < 1/1000000"] := by decide
theorem gen_Log_Likelihood_Poisson_early_eq : gen_Log_Likelihood_Poisson_early =
    ["@gen_Log_Likelihood_Poisson", "0 == N_observed"] := by decide
theorem gen_Sample_Uniform_early_eq : gen_Sample_Uniform_early =
    ["@gen_Sample_Uniform"] := by decide
theorem gen_Sample_Gauss_early_eq : gen_Sample_Gauss_early =
    ["@gen_Sample_Gauss"] := by decide
theorem gen_Sample_Poisson_early_eq : gen_Sample_Poisson_early =
    ["@gen_Sample_Poisson"] := by decide
theorem gen_Inv_GammaQ_probability_early_eq : gen_Inv_GammaQ_probability_early =
    ["@gen_Inv_GammaQ_probability"] := by decide
theorem gen_Locate_Closest_Location_empty_early_eq : gen_Locate_Closest_Location_empty_early =
    ["@gen_Locate_Closest_Location_empty", "false == std::is_sorted(std::begin(sorted_list), std::end(sorted_list))", "it == sorted_list.end()", "0 == index", "index == sorted_list.size()", "diff1 < diff2"] := by decide
theorem gen_Minimize_deltas_early_eq : gen_Minimize_deltas_early =
    ["@gen_Minimize_deltas"] := by decide
theorem gen_Arithmetic_Mean_early_eq : gen_Arithmetic_Mean_early =
    ["@gen_Arithmetic_Mean"] := by decide
theorem gen_Median_early_eq : gen_Median_early =
    ["@gen_Median", "0 == data.size() % 2"] := by decide
theorem gen_Variance_early_eq : gen_Variance_early =
    ["@gen_Variance"] := by decide
theorem gen_Weighted_Average_early_eq : gen_Weighted_Average_early =
    ["@gen_Weighted_Average"] := by decide
theorem gen_Matrix_Resize_early_eq : gen_Matrix_Resize_early =
    ["@gen_Matrix_Resize"] := by decide
theorem gen_Matrix_Assign_early_eq : gen_Matrix_Assign_early =
    ["@gen_Matrix_Assign"] := by decide
theorem gen_Integrate_MC_region_early_eq : gen_Integrate_MC_region_early =
    ["@gen_Integrate_MC_region", "@gen_Integrate_MC_ncalls", "\"Monte-Carlo\" == method", "\"Vegas\" == method", "\"Miser\" == method", "else"] := by decide
theorem gen_PDF_Chi_Bar_Square_weight_early_eq : gen_PDF_Chi_Bar_Square_weight_early =
    ["x <= 0"] := by decide
theorem gen_CDF_Chi_Bar_Square_weight_early_eq : gen_CDF_Chi_Bar_Square_weight_early =
    ["x < 0", "1 < cdf"] := by decide
theorem gen_Log_Likelihood_Poisson_Binned_early_eq : gen_Log_Likelihood_Poisson_Binned_early =
    ["@gen_Log_Likelihood_Poisson_Binned"] := by decide
theorem gen_Sample_Metropolis_unbounded_early_eq : gen_Sample_Metropolis_unbounded_early =
    ["else"] := by decide
theorem gen_Sample_Metropolis_2D_unbounded_early_eq : gen_Sample_Metropolis_2D_unbounded_early =
    ["else"] := by decide
theorem gen_Transpose_Lists_row_early_eq : gen_Transpose_Lists_row_early =
    ["lists.empty()"] := by decide
theorem gen_In_Units_row_early_eq : gen_In_Units_row_early =
    [] := by decide
theorem gen_Export_Table_row_early_eq : gen_Export_Table_row_early =
    [] := by decide
theorem gen_Import_Table_columns_early_eq : gen_Import_Table_columns_early =
    ["inputfile.good()", "else"] := by decide

end Lp.C10
