/-
  C05 — Inverse and Determinant are correct for every square matrix.
  Property theorems about the model LpModel/C05.lean (mirroring Matrix::Determinant,
  Matrix::Invertible, Matrix::Inverse of src/Linear_Algebra.cpp after fix f73d8c5).
  Helper lemmas: LpProofs/C05/Basic.lean.
-/
import LpProofs.C05.Basic
import LpProofs.C05.Pivot

namespace Lp.C05
open Lp.C04 Lp.C04.Mat Matrix

/-! ## Determinant -/

/-- skipping the cofactor of a vanishing first-row entry (fix 07c574c) does not change the term -/
theorem detN_skip_noop (f d : ℚ) : (if f = 0 then 0 else f * d) = f * d := by
  by_cases h : f = 0 <;> simp [h]

/-- the Laplace expansion as coded is Mathlib's determinant, for every size `n ≥ 1` -/
theorem detN_refines (n : ℕ) : ∀ A : Mat, A.rows = n + 1 → A.cols = n + 1 →
    detN (n + 1) A = Matrix.det (toM A (n + 1) (n + 1)) := by
  induction n with
  | zero => intro A _ _; simp [detN, Matrix.det_fin_one]
  | succ n ih =>
    intro A hr hc
    cases n with
    | zero => simp [detN, Matrix.det_fin_two]
    | succ m =>
      rw [Matrix.det_succ_row_zero]
      show sumRange (m + 3) _ = _
      rw [sumRange_eq_sum]
      apply Finset.sum_congr rfl
      intro j _
      have hsub := subMatrix_refines (A := A) (m := m + 2) (n := m + 2) hr hc 0 j
      have hIH := ih (subMatrixN A 0 j) (by simp [subMatrixN, hr]) (by simp [subMatrixN, hc])
      rw [detN_skip_noop, hIH]
      simp only [Fin.val_zero] at hsub
      rw [hsub, sgn_eq, Fin.succAbove_zero]
      simp

theorem det_defined_iff (A : Mat) : (∃ d, det A = .ok d) ↔ A.rows = A.cols := by
  unfold det; split <;> simp_all

/-- a non-square matrix gives the diagnostic -/
theorem det_nonsquare (A : Mat) (h : A.rows ≠ A.cols) : det A = .error .diag := by simp [det, h]

/-- `Determinant()` returns the determinant of every square matrix of size `≥ 1` -/
theorem det_refines {A : Mat} {d : ℚ} (h : det A = .ok d) (h0 : A.rows ≠ 0) :
    A.rows = A.cols ∧ d = Matrix.det (toM A A.rows A.rows) := by
  unfold det at h; split at h
  · cases h
  · rename_i hs
    cases h
    have hs' : A.rows = A.cols := by omega
    refine ⟨hs', ?_⟩
    obtain ⟨n, hn⟩ : ∃ n, A.rows = n + 1 := ⟨A.rows - 1, by omega⟩
    have := detN_refines n A hn (by omega)
    rw [hn]; exact this

/-- as coded, the empty matrix has "determinant" 0 (outside the quantifier `n ≥ 1`) -/
theorem det_empty (A : Mat) (h : A.rows = 0) (hc : A.cols = 0) : det A = .ok 0 := by
  simp [det, h, hc, detN]

/-! ### the determinant laws, from Mathlib, for every size -/

theorem det_mul {A B C : Mat} {n : ℕ} (hA : A.rows = n + 1 ∧ A.cols = n + 1)
    (hB : B.rows = n + 1 ∧ B.cols = n + 1) (hC : mul A B = .ok C) :
    detN (n + 1) C = detN (n + 1) A * detN (n + 1) B := by
  obtain ⟨-, hr, hc, hm⟩ := mul_refines hC
  rw [detN_refines n C (by omega) (by omega), detN_refines n A hA.1 hA.2, detN_refines n B hB.1 hB.2,
    ← Matrix.det_mul]
  rw [hA.1, hA.2, hB.2] at hm
  rw [hm]

theorem det_transpose {A : Mat} {n : ℕ} (hA : A.rows = n + 1 ∧ A.cols = n + 1) :
    detN (n + 1) (transpose A) = detN (n + 1) A := by
  have h := toM_transpose A
  rw [hA.1, hA.2] at h
  rw [detN_refines n (transpose A) (by simp [C04.transpose, hA.2]) (by simp [C04.transpose, ofFnE, hA.1, hA.2]),
    detN_refines n A hA.1 hA.2, h, Matrix.det_transpose]

/-- exchanging two different rows flips the sign -/
theorem det_swapRows {A : Mat} {n : ℕ} (hA : A.rows = n + 1 ∧ A.cols = n + 1) (i p : Fin (n + 1)) (hip : i ≠ p) :
    detN (n + 1) (swapRows A i p) = - detN (n + 1) A := by
  rw [detN_refines n (swapRows A i p) hA.1 hA.2, detN_refines n A hA.1 hA.2]
  have : toM (swapRows A i p) (n + 1) (n + 1) = (toM A (n + 1) (n + 1)).submatrix (Equiv.swap i p) id := by
    ext r k
    simp only [toM_apply, Matrix.submatrix_apply, id]
    rw [get_swapRows (by rw [hA.1]; exact r.isLt) (by rw [hA.2]; exact k.isLt)]
    congr 1
    by_cases e1 : r = i
    · subst e1; simp
    · by_cases e2 : r = p
      · subst e2
        have : (r : ℕ) ≠ i := fun e => e1 (Fin.ext e)
        simp [this]
      · have h1 : (r : ℕ) ≠ i := fun e => e1 (Fin.ext e)
        have h2 : (r : ℕ) ≠ p := fun e => e2 (Fin.ext e)
        simp [h1, h2, Equiv.swap_apply_of_ne_of_ne e1 e2]
  rw [this, Matrix.det_permute, Equiv.Perm.sign_swap hip]
  simp

/-- triangular matrices: the product of the diagonal -/
theorem det_upperTriangular {A : Mat} {n : ℕ} (hA : A.rows = n + 1 ∧ A.cols = n + 1)
    (h : ∀ i j, j < i → i < n + 1 → A.get i j = 0) :
    detN (n + 1) A = ∏ i : Fin (n + 1), A.get i i := by
  rw [detN_refines n A hA.1 hA.2, Matrix.det_of_isUpperTriangular]
  · simp
  · intro i j hij
    exact h i j hij i.isLt

theorem det_lowerTriangular {A : Mat} {n : ℕ} (hA : A.rows = n + 1 ∧ A.cols = n + 1)
    (h : ∀ i j, i < j → j < n + 1 → A.get i j = 0) :
    detN (n + 1) A = ∏ i : Fin (n + 1), A.get i i := by
  rw [detN_refines n A hA.1 hA.2, Matrix.det_of_isLowerTriangular]
  · simp
  · intro i j hij
    exact h i j hij j.isLt

/-- `Invertible()` is true exactly when the matrix is square with non-zero determinant,
    i.e. exactly when it is a unit of the matrix ring -/
theorem invertible_iff {A : Mat} {n : ℕ} (hr : A.rows = n + 1) :
    invertible A = true ↔ (A.cols = n + 1 ∧ Matrix.det (toM A (n + 1) (n + 1)) ≠ 0) := by
  unfold invertible
  split
  · rename_i h; simp; omega
  · rename_i h
    have hc : A.cols = n + 1 := by omega
    rw [hr, detN_refines n A hr hc]
    simp [hc]

theorem invertible_iff_isUnit {A : Mat} {n : ℕ} (hr : A.rows = n + 1) (hc : A.cols = n + 1) :
    invertible A = true ↔ IsUnit (toM A (n + 1) (n + 1)) := by
  rw [invertible_iff hr, Matrix.isUnit_iff_isUnit_det, isUnit_iff_ne_zero]
  simp [hc]

/-! ## Gauss–Jordan inversion -/

/-- one pass of the outer loop keeps `Left = Right · M` (whatever row the pivot search picks)
    and finishes column `i` -/
theorem gjStep_invariant {N : ℕ} {M : Matrix (Fin N) (Fin N) ℚ} {W W' : Mat} {i : ℕ} (hi : i < N)
    (hs : Shape N W) (hI : RowInv N M W) (hD : ColsDone N i W) (h : gjStep N W i = some W') :
    Shape N W' ∧ RowInv N M W' ∧ ColsDone N (i + 1) W' := by
  obtain ⟨hp1, hp2⟩ := pivotRow_bounds W hi
  by_cases hpi : pivotRow W N i ≠ i
  · by_cases hpiv : (swapRows W i (pivotRow W N i)).get i i = 0
    · simp [gjStep, hpi, hpiv] at h
    · unfold gjStep at h
      simp only [] at h
      rw [if_pos hpi, if_neg hpiv] at h
      cases h
      exact ⟨shape_eliminate (shape_swapRows hs _ _) _,
        rowInv_eliminate (shape_swapRows hs _ _) (rowInv_swapRows hs hI hi hp2) hi,
        colsDone_eliminate (shape_swapRows hs _ _) (colsDone_swapRows hs hD hp1 hp2) hi hpiv⟩
  · by_cases hpiv : W.get i i = 0
    · simp [gjStep, hpi, hpiv] at h
    · unfold gjStep at h
      simp only [] at h
      rw [if_neg hpi, if_neg hpiv] at h
      cases h
      exact ⟨shape_eliminate hs _, rowInv_eliminate hs hI hi, colsDone_eliminate hs hD hi hpiv⟩

theorem gjLoop_invariant {N : ℕ} {M : Matrix (Fin N) (Fin N) ℚ} (len : ℕ) : ∀ (s : ℕ) (W W' : Mat),
    s + len = N → Shape N W → RowInv N M W → ColsDone N s W →
    gjLoop N (List.range' s len) W = some W' →
    Shape N W' ∧ RowInv N M W' ∧ ColsDone N N W' := by
  induction len with
  | zero =>
    intro s W W' hsl hs hI hD h
    simp only [List.range'_zero, gjLoop] at h
    cases h
    have : s = N := by omega
    subst this
    exact ⟨hs, hI, hD⟩
  | succ len ih =>
    intro s W W' hsl hs hI hD h
    rw [List.range'_succ] at h
    simp only [gjLoop] at h
    split at h
    · cases h
    · rename_i W1 hstep
      obtain ⟨hs1, hI1, hD1⟩ := gjStep_invariant (by omega) hs hI hD hstep
      exact ih (s + 1) W1 W' (by omega) hs1 hI1 hD1 h

/-- **Gauss–Jordan invariant**: whenever the elimination runs to its end, the two halves of the
    work matrix satisfy `Left = Right · M` and the left half is diagonal with non-zero diagonal -/
theorem gaussJordan_invariant {A W : Mat}
    (h : gjLoop A.rows (List.range A.rows) (augment A) = some W) :
    Shape A.rows W ∧ RowInv A.rows (toM A A.rows A.rows) W ∧ ColsDone A.rows A.rows W := by
  rw [List.range_eq_range'] at h
  exact gjLoop_invariant A.rows 0 (augment A) W (by omega) (shape_augment A) (rowInv_augment A)
    (fun c hc => absurd hc (Nat.not_lt_zero c)) h

/-- **soundness of the final scaling**: if `Left = Right · M` and the left half is diagonal with
    non-zero diagonal, the returned `X` (right half, row `i` divided by the pivot) is a two-sided inverse -/
theorem inverse_sound {N : ℕ} {M : Matrix (Fin N) (Fin N) ℚ} {W : Mat}
    (hI : RowInv N M W) (hD : ColsDone N N W) :
    toM (normalise N W) N N * M = 1 ∧ M * toM (normalise N W) N N = 1 := by
  have key : toM (normalise N W) N N * M = 1 := by
    ext i j
    simp only [Matrix.mul_apply, toM_apply, normalise]
    have : ∀ k : Fin N, (ofFn N N fun i j => W.get i (j + N) / W.get i i).get i k * M k j
        = (W.get i (k + N) * M k j) / W.get i i := by
      intro k; rw [get_ofFn _ i.isLt k.isLt]; ring
    simp only [this]
    simp only [div_eq_mul_inv]
    rw [← Finset.sum_mul, ← hI i j]
    obtain ⟨hd, hz⟩ := hD i i.isLt
    by_cases e : i = j
    · subst e; simp [hd]
    · have : (i : ℕ) ≠ j := fun h => e (Fin.ext h)
      obtain ⟨_, hzj⟩ := hD j j.isLt
      rw [hzj i i.isLt this]
      simp [e]
  exact ⟨key, mul_eq_one_comm.mp key⟩

/-- the diagonal test in front of the final scaling (fix f4da51d) is dead in exact arithmetic: a
    finished elimination leaves a non-zero diagonal -/
theorem diagZero_dead {N : ℕ} {W : Mat} (hD : ColsDone N N W) : diagZero N W = false := by
  unfold diagZero
  rw [Bool.eq_false_iff]
  intro h
  simp only [List.any_eq_true, List.mem_range, decide_eq_true_eq] at h
  obtain ⟨i, hi, h0⟩ := h
  exact (hD i hi).1 h0

theorem inverse_nonsquare (A : Mat) (h : A.rows ≠ A.cols) : inverse A = .error .diag := by
  simp [inverse, h]

/-- a singular matrix stops with the diagnostic instead of yielding numbers -/
theorem inverse_singular {A : Mat} {n : ℕ} (hr : A.rows = n + 1) (hc : A.cols = n + 1)
    (hd : Matrix.det (toM A (n + 1) (n + 1)) = 0) : inverse A = .error .diag := by
  have : invertible A = false := by
    have := (invertible_iff (A := A) hr).not
    simp only [Bool.not_eq_true] at this
    rw [this]; simp [hd]
  simp [inverse, hr, hc, this]

/-- the gate in front of the elimination: whenever `Invertible()` is false — i.e. whenever the
    determinant the library itself computes vanishes — `Inverse` gives the diagnostic, whatever the
    elimination would do (a rounded pivot is never consulted) -/
theorem inverse_err_of_not_invertible {A : Mat} (h : invertible A = false) : inverse A = .error .diag := by
  unfold inverse
  split
  · rfl
  · simp [h]

/-- `Inverse` never leaves the modelled domain and a diagnostic is its only failure -/
theorem inverse_err_or_ok (A : Mat) : inverse A = .error .diag ∨ ∃ X, inverse A = .ok X := by
  unfold inverse
  split; · simp
  split; · simp
  split
  · simp
  · split <;> simp

/-- **correctness of every returned inverse**: whatever `Inverse` returns is the two-sided inverse,
    for every size and whatever the position of zero or small entries -/
theorem inverse_correct {A X : Mat} (h : inverse A = .ok X) :
    X.WellShaped ∧ X.rows = A.rows ∧ X.cols = A.rows ∧ A.rows = A.cols ∧
    toM X A.rows A.rows * toM A A.rows A.rows = 1 ∧ toM A A.rows A.rows * toM X A.rows A.rows = 1 := by
  unfold inverse at h
  split at h; · cases h
  rename_i hsq
  split at h; · cases h
  split at h
  · cases h
  · rename_i W hW
    split at h; · cases h
    cases h
    obtain ⟨-, hI, hD⟩ := gaussJordan_invariant hW
    obtain ⟨h1, h2⟩ := inverse_sound hI hD
    exact ⟨wellShaped_ofFn _ _ _, rfl, rfl, by omega, h1, h2⟩

/-- the returned inverse is the inverse Mathlib defines -/
theorem inverse_eq_inv {A X : Mat} (h : inverse A = .ok X) :
    toM X A.rows A.rows = (toM A A.rows A.rows)⁻¹ := by
  obtain ⟨-, -, -, -, h1, -⟩ := inverse_correct h
  exact (Matrix.inv_eq_left_inv h1).symm

/-- totality (DESIGN.md C05 [T2]), full statement: with partial pivoting a non-zero determinant
    forces a non-zero pivot at every step, so every invertible matrix gets an inverse. -/
def inverse_total_FULL : Prop :=
  ∀ (A : Mat) (n : ℕ), A.rows = n + 1 → A.cols = n + 1 →
    Matrix.det (toM A (n + 1) (n + 1)) ≠ 0 → ∃ X, inverse A = .ok X

/-- with partial pivoting a non-singular left half always offers a non-zero pivot -/
theorem gjStep_total {N : ℕ} {W : Mat} {t : ℕ} (ht : t < N) (hs : Shape N W) (hD : ColsDone N t W)
    (hdet : (left N W).det ≠ 0) :
    ∃ W', gjStep N W t = some W' ∧ (left N W').det ≠ 0 := by
  obtain ⟨hp1, hp2⟩ := pivotRow_bounds W ht
  obtain ⟨h1, h2⟩ := hs
  -- the pivot candidate is non-zero, else column t vanishes at and below the diagonal
  have hpne : W.get (pivotRow W N t) t ≠ 0 := by
    intro h0
    apply hdet
    apply det_left_eq_zero ht hD
    intro j htj hj
    have := pivotRow_max W (N := N) htj hj
    rw [h0, rabs_zero] at this
    exact rabs_eq_zero this
  by_cases hpi : pivotRow W N t ≠ t
  · have hpiv : (swapRows W t (pivotRow W N t)).get t t ≠ 0 := by
      rw [get_swapRows (by omega) (by omega)]; simpa using hpne
    refine ⟨eliminate (swapRows W t (pivotRow W N t)) t, ?_, ?_⟩
    · unfold gjStep; simp only []; rw [if_pos hpi, if_neg hpiv]
    · exact det_left_eliminate (shape_swapRows ⟨h1, h2⟩ _ _) ⟨t, ht⟩
        (det_left_swapRows ⟨h1, h2⟩ ⟨t, ht⟩ ⟨pivotRow W N t, hp2⟩ hdet)
  · have hpt : pivotRow W N t = t := not_not.mp hpi
    have hpiv : W.get t t ≠ 0 := by rw [hpt] at hpne; exact hpne
    refine ⟨eliminate W t, ?_, det_left_eliminate ⟨h1, h2⟩ ⟨t, ht⟩ hdet⟩
    unfold gjStep; simp only []; rw [if_neg hpi, if_neg hpiv]

theorem gjLoop_total {N : ℕ} {M : Matrix (Fin N) (Fin N) ℚ} (len : ℕ) : ∀ (s : ℕ) (W : Mat),
    s + len = N → Shape N W → RowInv N M W → ColsDone N s W → (left N W).det ≠ 0 →
    ∃ W', gjLoop N (List.range' s len) W = some W' := by
  induction len with
  | zero => intro s W _ _ _ _ _; exact ⟨W, by simp [gjLoop]⟩
  | succ len ih =>
    intro s W hsl hs hI hD hdet
    obtain ⟨W1, hstep, hdet1⟩ := gjStep_total (by omega) hs hD hdet
    obtain ⟨hs1, hI1, hD1⟩ := gjStep_invariant (by omega) hs hI hD hstep
    obtain ⟨W', hW'⟩ := ih (s + 1) W1 (by omega) hs1 hI1 hD1 hdet1
    exact ⟨W', by rw [List.range'_succ]; simp only [gjLoop, hstep]; exact hW'⟩

/-- **totality**: with partial pivoting every invertible matrix gets an inverse, whatever the
    position of its zero entries (the clause the code violated before fix f73d8c5) -/
theorem inverse_total : inverse_total_FULL := by
  intro A n hr hc hdet
  have hinv : invertible A = true := (invertible_iff hr).mpr ⟨hc, hdet⟩
  have hdet' : (left A.rows (augment A)).det ≠ 0 := by
    rw [left_augment]; rw [hr]; exact hdet
  obtain ⟨W, hW⟩ := gjLoop_total (M := toM A A.rows A.rows) A.rows 0 (augment A) (by omega) (shape_augment A)
    (rowInv_augment A) (fun c hc => absurd hc (Nat.not_lt_zero c)) hdet'
  rw [← List.range_eq_range'] at hW
  refine ⟨normalise A.rows W, ?_⟩
  have hsq : ¬ A.rows ≠ A.cols := by omega
  have hdead : diagZero A.rows W = false := diagZero_dead (gaussJordan_invariant hW).2.2
  simp [inverse, hsq, hinv, hW, hdead]


/-- every invertible matrix of size `n ≥ 1` is inverted, and the result is its two-sided inverse -/
theorem inverse_complete {A : Mat} {n : ℕ} (hr : A.rows = n + 1) (hc : A.cols = n + 1)
    (hdet : Matrix.det (toM A (n + 1) (n + 1)) ≠ 0) :
    ∃ X, inverse A = .ok X ∧ toM X A.rows A.rows * toM A A.rows A.rows = 1 ∧
      toM A A.rows A.rows * toM X A.rows A.rows = 1 := by
  obtain ⟨X, hX⟩ := inverse_total A n hr hc hdet
  obtain ⟨-, -, -, -, h1, h2⟩ := inverse_correct hX
  exact ⟨X, hX, h1, h2⟩

/-! ## Non-vacuity: concrete instances -/

example : det ⟨3, 3, [[2, 0, 1], [1, 3, 2], [1, 1, 4]]⟩ = .ok 18 := by decide +kernel
example : det ⟨2, 3, [[1, 2, 3], [4, 5, 6]]⟩ = .error .diag := by decide +kernel
-- the exchange matrix (zero leading pivot): inverted by the row exchange
example : inverse ⟨2, 2, [[0, 1], [1, 0]]⟩ = .ok ⟨2, 2, [[0, 1], [1, 0]]⟩ := by decide +kernel
example : inverse ⟨3, 3, [[0, 2, 0], [0, 0, 3], [5, 0, 0]]⟩
    = .ok ⟨3, 3, [[0, 0, 1/5], [1/2, 0, 0], [0, 1/3, 0]]⟩ := by decide +kernel
example : inverse ⟨2, 2, [[1, 2], [2, 4]]⟩ = .error .diag := by decide +kernel
example : invertible ⟨2, 2, [[1, 2], [3, 4]]⟩ = true := by decide +kernel
-- hypotheses of `gjStep_invariant` are met by the initial state of a 2×2 inversion
example : Shape 2 (augment ⟨2, 2, [[0, 1], [1, 0]]⟩) ∧ ColsDone 2 0 (augment ⟨2, 2, [[0, 1], [1, 0]]⟩) :=
  ⟨shape_augment _, fun c hc => absurd hc (Nat.not_lt_zero c)⟩

end Lp.C05
