/-
  C17 helper lemmas: sign/relative difference, Dawson oddness, evaluation of the VSH tables.
-/
import LpModel.C17
import LpProofs.C20.Dec
namespace Lp.C17
open Lp.Dec

theorem rabs_neg (x : ℚ) : rabs (-x) = rabs x := by rw [rabs_eq_abs, rabs_eq_abs, abs_neg]

theorem rmax_eq_max (x y : ℚ) : rmax x y = max x y := by
  unfold rmax
  split
  · rw [max_eq_right (by linarith)]
  · rw [max_eq_left (by linarith)]

theorem sign1_neg (x : ℚ) : sign1 (-x) = - sign1 x := by
  unfold sign1
  rcases lt_trichotomy x 0 with h | h | h
  · have h1 : -x > 0 := by linarith
    have h2 : ¬ x > 0 := by linarith
    have h3 : x ≠ 0 := by linarith
    simp [h1, h2, h3]
  · subst h; simp
  · have h1 : ¬ -x > 0 := by linarith
    have h2 : -x ≠ 0 := by linarith
    simp [h1, h2, h]

theorem sign1_cases (x : ℚ) : (0 < x ∧ sign1 x = 1) ∨ (x = 0 ∧ sign1 x = 0) ∨ (x < 0 ∧ sign1 x = -1) := by
  unfold sign1
  rcases lt_trichotomy x 0 with h | h | h
  · right; right
    have h2 : ¬ x > 0 := by linarith
    have h3 : x ≠ 0 := by linarith
    simp [h, h2, h3]
  · right; left; subst h; simp
  · left; simp [h]

/-- `Sign(e, −x) = −Sign(e, x)` for `x ≠ 0` -/
theorem sign2_neg_right (e x : ℚ) (hx : x ≠ 0) : sign2 e (-x) = - sign2 e x := by
  unfold sign2
  rw [sign1_neg]
  rcases sign1_cases x with ⟨h, hs⟩ | ⟨h, _⟩ | ⟨h, hs⟩
  · rcases sign1_cases e with ⟨_, he⟩ | ⟨h0, he⟩ | ⟨_, he⟩ <;> simp [hs, he] <;> try (subst h0; simp)
  · exact absurd h hx
  · rcases sign1_cases e with ⟨_, he⟩ | ⟨h0, he⟩ | ⟨_, he⟩ <;> simp [hs, he] <;> try (subst h0; simp)

theorem dawsonLarge_odd (exp : ℚ → ℚ) (x : ℚ) (hx : x ≠ 0) :
    dawsonLarge exp (-x) = - dawsonLarge exp x := by
  unfold dawsonLarge
  simp only [rabs_neg]
  rw [sign2_neg_right _ _ hx]
  ring

theorem dawsonSmall_odd (x : ℚ) : dawsonSmall (-x) = - dawsonSmall x := by
  unfold dawsonSmall; ring

end Lp.C17
