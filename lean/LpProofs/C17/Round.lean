/-
  Laws of `Round` (roundSig): closed form, oddness, half-unit bound, robustness against the
  neighbouring exponent, idempotence, monotonicity.
-/
import LpModel.C17
import LpProofs.C17.Basic
namespace Lp.C17
open Lp.Dec

theorem sign1_mul (N : ℚ) : N * ((sign1 N : Int) : ℚ) = |N| := by
  rcases sign1_cases N with ⟨h, hs⟩ | ⟨h, hs⟩ | ⟨h, hs⟩
  · rw [hs, abs_of_pos h]; simp
  · rw [hs, h]; simp
  · rw [hs, abs_of_neg h]; simp

theorem sign1_sq (N : ℚ) (hN : N ≠ 0) : ((sign1 N : Int) : ℚ) * ((sign1 N : Int) : ℚ) = 1 := by
  rcases sign1_cases N with ⟨h, hs⟩ | ⟨h, hs⟩ | ⟨h, hs⟩
  · rw [hs]; simp
  · exact absurd h hN
  · rw [hs]; simp

theorem sign1_abs (N : ℚ) : ((sign1 N : Int) : ℚ) * |N| = N := by
  rcases sign1_cases N with ⟨h, hs⟩ | ⟨h, hs⟩ | ⟨h, hs⟩
  · rw [hs, abs_of_pos h]; simp
  · rw [hs, h]; simp
  · rw [hs, abs_of_neg h]; simp

/-- the rounded mantissa `floor(|N|·10^(−e)·10^(d−1) + ½)` -/
def mant (N : ℚ) (d : ℕ) (e : Int) : Int := ⌊|N| * pow10 (-e) * pow10 ((d : Int) - 1) + 1 / 2⌋

/-- **round_carry_noop**: over exact rationals the carry normalisation of fbce818
    (`prefactor/10`, `DecimalPower+1` when the rounded mantissa reaches `10^digits`) does not change
    the value — every law of `Round` proved for the un-normalised form carries over; the branch only
    selects which of the two equal products `10.0·10^k = 1.0·10^(k+1)` is formed in double arithmetic -/
theorem round_carry_noop (N : ℚ) (d : ℕ) (e : Int) : roundSig N d e = roundSigNoCarry N d e := by
  unfold roundSig roundSigNoCarry
  split
  · rfl
  · split
    · rfl
    · simp only
      split
      · have h10 : pow10 (e + 1) = pow10 e * 10 := pow10_succ e
        rw [h10]; congr 1; ring
      · rfl

/-- closed form of the value `Round` computes -/
theorem roundSig_ok (N : ℚ) (d : ℕ) (e : Int) (hN : N ≠ 0) (hd : d ≤ 7) :
    roundSig N d e = .ok (((sign1 N : Int) : ℚ) * ((mant N d e : ℚ) * pow10 (-(d : Int) + 1)) * pow10 e) := by
  rw [round_carry_noop]
  unfold roundSigNoCarry mant
  rw [if_neg (by omega), if_neg hN]
  simp only [sign1_mul]
  rfl

theorem round_zero (d : ℕ) (e : Int) (hd : d ≤ 7) : roundSig 0 d e = .ok 0 := by
  rw [round_carry_noop]; unfold roundSigNoCarry; rw [if_neg (by omega)]; simp

/-- more than seven digits → diagnostic (for every argument, zero included: 710b478) -/
theorem roundSig_guard (N : ℚ) (d : ℕ) (e : Int) (hd : 7 < d) : roundSig N d e = .error .diag := by
  rw [round_carry_noop]; unfold roundSigNoCarry; rw [if_pos hd]

theorem mant_neg (N : ℚ) (d : ℕ) (e : Int) : mant (-N) d e = mant N d e := by unfold mant; rw [abs_neg]

/-- **roundSig_odd** -/
theorem roundSig_odd (N : ℚ) (d : ℕ) (e : Int) :
    roundSig (-N) d e = (roundSig N d e).map (fun r => -r) := by
  by_cases hd : d ≤ 7
  · by_cases hN : N = 0
    · subst hN; simp [round_zero _ _ hd, Except.map]
    · rw [roundSig_ok N d e hN hd, roundSig_ok (-N) d e (neg_ne_zero.mpr hN) hd, mant_neg, sign1_neg]
      simp only [Except.map]; congr 1; push_cast; ring
  · rw [roundSig_guard N d e (by omega), roundSig_guard (-N) d e (by omega)]; rfl

/-- scaled argument and the identity `|N| = s · 10^(e+1−d)` -/
theorem scaled_id (N : ℚ) (d : ℕ) (e : Int) :
    |N| = (|N| * pow10 (-e) * pow10 ((d : Int) - 1)) * pow10 (e - d + 1) := by
  have : pow10 (-e) * pow10 ((d : Int) - 1) * pow10 (e - d + 1) = 1 := by
    rw [← pow10_add, ← pow10_add]
    have : -e + ((d : Int) - 1) + (e - d + 1) = 0 := by ring
    rw [this, pow10_zero]
  rw [mul_assoc, mul_assoc, ← mul_assoc (pow10 (-e)), this, mul_one]

theorem pow_split (d : ℕ) (e : Int) : pow10 (-(d : Int) + 1) * pow10 e = pow10 (e - d + 1) := by
  rw [← pow10_add]; congr 1; ring

/-- **roundSig_half_unit**: `|Round(N,d) − N| ≤ ½ · 10^(e−d+1)` — half a unit of the `d`-th significant
    digit when `e` is the decimal exponent of `N` (holds for every `e`, in fact) -/
theorem roundSig_half_unit (N : ℚ) (d : ℕ) (e : Int) (hN : N ≠ 0) (hd : d ≤ 7) :
    ∃ r, roundSig N d e = .ok r ∧ |r - N| ≤ 1 / 2 * pow10 (e - d + 1) := by
  refine ⟨_, roundSig_ok N d e hN hd, ?_⟩
  set s := |N| * pow10 (-e) * pow10 ((d : Int) - 1) with hs
  have hfl : |((mant N d e : Int) : ℚ) - s| ≤ 1 / 2 := by
    have h1 : ((mant N d e : Int) : ℚ) ≤ s + 1 / 2 := Int.floor_le _
    have h2 : s + 1 / 2 < ((mant N d e : Int) : ℚ) + 1 := Int.lt_floor_add_one _
    rw [abs_le]; constructor <;> linarith
  have hp := pow10_pos (e - d + 1)
  have hN' : N = ((sign1 N : Int) : ℚ) * (s * pow10 (e - d + 1)) := by
    rw [← scaled_id]; exact (sign1_abs N).symm
  have : ((sign1 N : Int) : ℚ) * ((mant N d e : ℚ) * pow10 (-(d : Int) + 1)) * pow10 e - N
      = ((sign1 N : Int) : ℚ) * (((mant N d e : ℚ) - s) * pow10 (e - d + 1)) := by
    have e1 : ((sign1 N : Int) : ℚ) * ((mant N d e : ℚ) * pow10 (-(d : Int) + 1)) * pow10 e - N
        = ((sign1 N : Int) : ℚ) * ((mant N d e : ℚ) * pow10 (-(d : Int) + 1)) * pow10 e
          - ((sign1 N : Int) : ℚ) * (s * pow10 (e - d + 1)) := by rw [← hN']
    rw [e1, ← pow_split]; ring
  rw [this, abs_mul, abs_mul, abs_of_pos hp]
  have hsg : |((sign1 N : Int) : ℚ)| = 1 := by
    rcases sign1_cases N with ⟨_, h⟩ | ⟨h0, _⟩ | ⟨_, h⟩
    · rw [h]; simp
    · exact absurd h0 hN
    · rw [h]; simp
  rw [hsg, one_mul]
  exact mul_le_mul_of_nonneg_right hfl hp.le

/-- value of `Round` when the mantissa is known -/
theorem roundSig_of_mant (N : ℚ) (d : ℕ) (e : Int) (hN : N ≠ 0) (hd : d ≤ 7) (P : Int)
    (hP : (P : ℚ) ≤ |N| * pow10 (-e) * pow10 ((d : Int) - 1) + 1 / 2 ∧
          |N| * pow10 (-e) * pow10 ((d : Int) - 1) + 1 / 2 < (P : ℚ) + 1) :
    roundSig N d e = .ok (((sign1 N : Int) : ℚ) * ((P : ℚ) * pow10 (e - d + 1))) := by
  rw [roundSig_ok N d e hN hd]
  have : mant N d e = P := by
    unfold mant; rw [Int.floor_eq_iff]; exact hP
  rw [this, mul_assoc, mul_assoc, pow_split]

theorem pow10_int (d : ℕ) : (((10 : Int) ^ d : Int) : ℚ) = pow10 (d : Int) := by
  rw [pow10_natCast]; push_cast; rfl

theorem small_le (d : ℕ) (hd : d ≤ 7) : pow10 (d : Int) / 10 ^ 15 ≤ 1 / 10 ^ 8 := by
  have : pow10 (d : Int) ≤ pow10 7 := pow10_mono (by exact_mod_cast hd)
  have h7 : pow10 7 = 10 ^ 7 := by unfold pow10; norm_num
  rw [h7] at this
  have : pow10 (d : Int) / 10 ^ 15 ≤ 10 ^ 7 / 10 ^ 15 := by
    apply div_le_div_of_nonneg_right this (by positivity)
  calc pow10 (d : Int) / 10 ^ 15 ≤ 10 ^ 7 / 10 ^ 15 := this
    _ = 1 / 10 ^ 8 := by norm_num

/-- **roundSig_exponent_robust**: next to a power of ten `10^(e+1)` (within `10⁻¹⁵` relative, on either
    side) the exponent `e` and its neighbour `e+1` — whichever a rounded `floor(log10)` returns —
    give the same result, namely `±10^(e+1)` -/
theorem roundSig_exponent_robust (N : ℚ) (d : ℕ) (e : Int) (hN : N ≠ 0) (hd1 : 1 ≤ d) (hd : d ≤ 7)
    (hlo : pow10 (e + 1) * (1 - 1 / 10 ^ 15) ≤ |N|) (hhi : |N| ≤ pow10 (e + 1) * (1 + 1 / 10 ^ 15)) :
    roundSig N d e = .ok (((sign1 N : Int) : ℚ) * pow10 (e + 1)) ∧
    roundSig N d (e + 1) = .ok (((sign1 N : Int) : ℚ) * pow10 (e + 1)) := by
  have hp1 := pow10_pos (e + 1)
  -- t = |N| / 10^(e+1) ∈ [1 − 1e-15, 1 + 1e-15]
  have hinv : pow10 (-(e + 1)) * pow10 (e + 1) = 1 := pow10_neg_mul (e + 1)
  set t := |N| * pow10 (-(e + 1)) with ht
  have hpi := pow10_pos (-(e + 1))
  have ht1 : 1 - 1 / 10 ^ 15 ≤ t := by
    have := mul_le_mul_of_nonneg_right hlo hpi.le
    calc 1 - 1 / 10 ^ 15 = pow10 (e + 1) * (1 - 1 / 10 ^ 15) * pow10 (-(e + 1)) := by
          rw [mul_comm (pow10 (e + 1)), mul_assoc, mul_comm (pow10 (e + 1)), hinv, mul_one]
      _ ≤ t := this
  have ht2 : t ≤ 1 + 1 / 10 ^ 15 := by
    have := mul_le_mul_of_nonneg_right hhi hpi.le
    calc t ≤ pow10 (e + 1) * (1 + 1 / 10 ^ 15) * pow10 (-(e + 1)) := this
      _ = 1 + 1 / 10 ^ 15 := by
          rw [mul_comm (pow10 (e + 1)), mul_assoc, mul_comm (pow10 (e + 1)), hinv, mul_one]
  have hsm := small_le d hd
  have hpd := pow10_pos (d : Int)
  constructor
  · -- exponent e: scaled = t · 10^d, mantissa 10^d
    have hs : |N| * pow10 (-e) * pow10 ((d : Int) - 1) = t * pow10 (d : Int) := by
      rw [ht, mul_assoc, mul_assoc, ← pow10_add, ← pow10_add]; congr 2; ring
    have := roundSig_of_mant N d e hN hd ((10 : Int) ^ d) (by
      rw [hs, pow10_int]
      constructor
      · have : pow10 (d : Int) * (1 - 1 / 10 ^ 15) ≤ t * pow10 (d : Int) := by
          rw [mul_comm]; exact mul_le_mul_of_nonneg_right ht1 hpd.le
        have e1 : pow10 (d : Int) * (1 - 1 / 10 ^ 15) = pow10 (d : Int) - pow10 (d : Int) / 10 ^ 15 := by ring
        norm_num at hsm ⊢
        linarith
      · have : t * pow10 (d : Int) ≤ pow10 (d : Int) * (1 + 1 / 10 ^ 15) := by
          rw [mul_comm (pow10 (d : Int))]; exact mul_le_mul_of_nonneg_right ht2 hpd.le
        have e1 : pow10 (d : Int) * (1 + 1 / 10 ^ 15) = pow10 (d : Int) + pow10 (d : Int) / 10 ^ 15 := by ring
        norm_num at hsm ⊢
        linarith)
    rw [this, pow10_int, ← pow10_add]
    congr 3; ring
  · -- exponent e+1: scaled = t · 10^(d−1), mantissa 10^(d−1)
    obtain ⟨d', rfl⟩ : ∃ d', d = d' + 1 := ⟨d - 1, by omega⟩
    have hpd' := pow10_pos (d' : Int)
    have hs : |N| * pow10 (-(e + 1)) * pow10 (((d' + 1 : ℕ) : Int) - 1) = t * pow10 (d' : Int) := by
      rw [ht]; congr 2; push_cast; ring
    have hsm' : pow10 (d' : Int) / 10 ^ 15 ≤ 1 / 10 ^ 8 := small_le d' (by omega)
    have := roundSig_of_mant N (d' + 1) (e + 1) hN hd ((10 : Int) ^ d') (by
      rw [hs, pow10_int]
      constructor
      · have : pow10 (d' : Int) * (1 - 1 / 10 ^ 15) ≤ t * pow10 (d' : Int) := by
          rw [mul_comm]; exact mul_le_mul_of_nonneg_right ht1 hpd'.le
        have e1 : pow10 (d' : Int) * (1 - 1 / 10 ^ 15) = pow10 (d' : Int) - pow10 (d' : Int) / 10 ^ 15 := by ring
        norm_num at hsm' ⊢
        linarith
      · have : t * pow10 (d' : Int) ≤ pow10 (d' : Int) * (1 + 1 / 10 ^ 15) := by
          rw [mul_comm (pow10 (d' : Int))]; exact mul_le_mul_of_nonneg_right ht2 hpd'.le
        have e1 : pow10 (d' : Int) * (1 + 1 / 10 ^ 15) = pow10 (d' : Int) + pow10 (d' : Int) / 10 ^ 15 := by ring
        norm_num at hsm' ⊢
        linarith)
    rw [this, pow10_int, ← pow10_add]
    congr 3; push_cast; ring

/-! ### idempotence and monotonicity -/

/-- the value in closed form -/
def rval (N : ℚ) (d : ℕ) (e : Int) : ℚ := ((sign1 N : Int) : ℚ) * ((mant N d e : ℚ) * pow10 (e - d + 1))

theorem roundSig_rval (N : ℚ) (d : ℕ) (e : Int) (hN : N ≠ 0) (hd : d ≤ 7) : roundSig N d e = .ok (rval N d e) := by
  rw [roundSig_ok N d e hN hd]; unfold rval; rw [mul_assoc, mul_assoc, pow_split]

theorem scaled_bounds (N : ℚ) (d : ℕ) (e : Int) (h1 : pow10 e ≤ |N|) (h2 : |N| < pow10 (e + 1)) :
    pow10 ((d : Int) - 1) ≤ |N| * pow10 (-e) * pow10 ((d : Int) - 1) ∧
    |N| * pow10 (-e) * pow10 ((d : Int) - 1) < pow10 (d : Int) := by
  have hq := pow10_pos (-e + ((d : Int) - 1))
  rw [mul_assoc, ← pow10_add]
  constructor
  · have : pow10 e * pow10 (-e + ((d : Int) - 1)) = pow10 ((d : Int) - 1) := by
      rw [← pow10_add]; congr 1; ring
    rw [← this]; exact mul_le_mul_of_nonneg_right h1 hq.le
  · have : pow10 (e + 1) * pow10 (-e + ((d : Int) - 1)) = pow10 (d : Int) := by
      rw [← pow10_add]; congr 1; ring
    rw [← this]; exact mul_lt_mul_of_pos_right h2 hq

/-- the mantissa of an argument with exact exponent lies in `[10^(d−1), 10^d]` -/
theorem mant_bounds (N : ℚ) (d : ℕ) (e : Int) (hd1 : 1 ≤ d) (h1 : pow10 e ≤ |N|) (h2 : |N| < pow10 (e + 1)) :
    (10 : Int) ^ (d - 1) ≤ mant N d e ∧ mant N d e ≤ (10 : Int) ^ d := by
  obtain ⟨b1, b2⟩ := scaled_bounds N d e h1 h2
  obtain ⟨d', rfl⟩ : ∃ d', d = d' + 1 := ⟨d - 1, by omega⟩
  have hc : (((d' + 1 : ℕ) : Int) - 1) = (d' : Int) := by push_cast; ring
  rw [hc] at b1 b2
  unfold mant
  rw [hc]
  constructor
  · rw [Int.le_floor]
    simp only [Nat.add_sub_cancel]
    rw [pow10_int]; linarith
  · have : ⌊|N| * pow10 (-e) * pow10 (d' : Int) + 1 / 2⌋ < (10 : Int) ^ (d' + 1) + 1 := by
      rw [Int.floor_lt]
      push_cast
      have := pow10_int (d' + 1)
      push_cast at this b2
      rw [this]; linarith
    omega

theorem mant_pos (N : ℚ) (d : ℕ) (e : Int) (hd1 : 1 ≤ d) (h1 : pow10 e ≤ |N|) (h2 : |N| < pow10 (e + 1)) :
    0 < mant N d e := by
  have := (mant_bounds N d e hd1 h1 h2).1
  have : (0 : Int) < 10 ^ (d - 1) := by positivity
  omega

/-- rounding a value that already has the form `±P·10^(e−d+1)`, `P ≥ 1` integer, returns it -/
theorem roundSig_fix (σ : ℚ) (hσ : σ = 1 ∨ σ = -1) (P : Int) (hP : 0 < P) (d : ℕ) (e : Int) (hd : d ≤ 7) :
    roundSig (σ * ((P : ℚ) * pow10 (e - d + 1))) d e = .ok (σ * ((P : ℚ) * pow10 (e - d + 1))) := by
  have hPq : (0 : ℚ) < (P : ℚ) := by exact_mod_cast hP
  have hpp := pow10_pos (e - d + 1)
  have hpos : 0 < (P : ℚ) * pow10 (e - d + 1) := mul_pos hPq hpp
  have hne : σ * ((P : ℚ) * pow10 (e - d + 1)) ≠ 0 := by
    rcases hσ with rfl | rfl <;> simp <;> exact ⟨by exact_mod_cast hP.ne', hpp.ne'⟩
  have habs : |σ * ((P : ℚ) * pow10 (e - d + 1))| = (P : ℚ) * pow10 (e - d + 1) := by
    rcases hσ with rfl | rfl
    · rw [one_mul, abs_of_pos hpos]
    · rw [neg_one_mul, abs_neg, abs_of_pos hpos]
  have hsig : ((sign1 (σ * ((P : ℚ) * pow10 (e - d + 1))) : Int) : ℚ) = σ := by
    rcases hσ with rfl | rfl
    · rcases sign1_cases (1 * ((P : ℚ) * pow10 (e - d + 1))) with ⟨_, h⟩ | ⟨h, _⟩ | ⟨h, _⟩
      · rw [h]; simp
      · linarith
      · linarith
    · rcases sign1_cases (-1 * ((P : ℚ) * pow10 (e - d + 1))) with ⟨h, _⟩ | ⟨h, _⟩ | ⟨_, h⟩
      · linarith
      · linarith
      · rw [h]; simp
  have hsc : |σ * ((P : ℚ) * pow10 (e - d + 1))| * pow10 (-e) * pow10 ((d : Int) - 1) = (P : ℚ) := by
    rw [habs, mul_assoc, mul_assoc, ← pow10_add, ← pow10_add]
    have : e - d + 1 + (-e + ((d : Int) - 1)) = 0 := by ring
    rw [this, pow10_zero, mul_one]
  rw [roundSig_of_mant _ d e hne hd P (by rw [hsc]; constructor <;> linarith), hsig]

/-- **roundSig_idempotent**: rounding the result again (with the same exponent, which is the exact
    exponent of the result or — when the mantissa rounded up to `10^d` — its lower neighbour, for
    which `roundSig_exponent_robust` applies) returns the result -/
theorem roundSig_idempotent (N : ℚ) (d : ℕ) (e : Int) (hN : N ≠ 0) (hd1 : 1 ≤ d) (hd : d ≤ 7)
    (h1 : pow10 e ≤ |N|) (h2 : |N| < pow10 (e + 1)) :
    roundSig N d e = .ok (rval N d e) ∧ roundSig (rval N d e) d e = .ok (rval N d e) ∧
    (pow10 e ≤ |rval N d e| ∧ |rval N d e| ≤ pow10 (e + 1)) := by
  have hσ : ((sign1 N : Int) : ℚ) = 1 ∨ ((sign1 N : Int) : ℚ) = -1 := by
    rcases sign1_cases N with ⟨_, h⟩ | ⟨h, _⟩ | ⟨_, h⟩
    · left; rw [h]; simp
    · exact absurd h hN
    · right; rw [h]; simp
  have hP := mant_pos N d e hd1 h1 h2
  obtain ⟨mb1, mb2⟩ := mant_bounds N d e hd1 h1 h2
  refine ⟨roundSig_rval N d e hN hd, roundSig_fix _ hσ _ hP d e hd, ?_⟩
  have hpp := pow10_pos (e - d + 1)
  have hPq : (0 : ℚ) < (mant N d e : ℚ) := by exact_mod_cast hP
  have habs : |rval N d e| = (mant N d e : ℚ) * pow10 (e - d + 1) := by
    unfold rval
    rcases hσ with h | h <;> rw [h]
    · rw [one_mul, abs_of_pos (mul_pos hPq hpp)]
    · rw [neg_one_mul, abs_neg, abs_of_pos (mul_pos hPq hpp)]
  rw [habs]
  obtain ⟨d', rfl⟩ : ∃ d', d = d' + 1 := ⟨d - 1, by omega⟩
  simp only [Nat.add_sub_cancel] at mb1
  have q1 : pow10 (d' : Int) ≤ (mant N (d' + 1) e : ℚ) := by rw [← pow10_int]; exact_mod_cast mb1
  have q2 : (mant N (d' + 1) e : ℚ) ≤ pow10 ((d' + 1 : ℕ) : Int) := by rw [← pow10_int]; exact_mod_cast mb2
  constructor
  · have : pow10 e = pow10 (d' : Int) * pow10 (e - ((d' + 1 : ℕ) : Int) + 1) := by
      rw [← pow10_add]; congr 1; push_cast; ring
    rw [this]; exact mul_le_mul_of_nonneg_right q1 hpp.le
  · have : pow10 (e + 1) = pow10 ((d' + 1 : ℕ) : Int) * pow10 (e - ((d' + 1 : ℕ) : Int) + 1) := by
      rw [← pow10_add]; congr 1; push_cast; ring
    rw [this]; exact mul_le_mul_of_nonneg_right q2 hpp.le

/-- monotone within a decade -/
theorem mant_mono (x y : ℚ) (d : ℕ) (e : Int) (h : |x| ≤ |y|) : mant x d e ≤ mant y d e := by
  unfold mant
  apply Int.floor_le_floor
  have := pow10_pos (-e)
  have := pow10_pos ((d : Int) - 1)
  have : |x| * pow10 (-e) ≤ |y| * pow10 (-e) := mul_le_mul_of_nonneg_right h (pow10_pos _).le
  have : |x| * pow10 (-e) * pow10 ((d : Int) - 1) ≤ |y| * pow10 (-e) * pow10 ((d : Int) - 1) :=
    mul_le_mul_of_nonneg_right this (pow10_pos _).le
  linarith

/-- **round_monotone** on positive arguments, each with its exact decimal exponent -/
theorem round_monotone_pos (x y : ℚ) (d : ℕ) (ex ey : Int) (hd1 : 1 ≤ d) (hd : d ≤ 7) (hx : 0 < x) (hxy : x ≤ y)
    (hx1 : pow10 ex ≤ x) (hx2 : x < pow10 (ex + 1)) (hy1 : pow10 ey ≤ y) (hy2 : y < pow10 (ey + 1)) :
    roundSig x d ex = .ok (rval x d ex) ∧ roundSig y d ey = .ok (rval y d ey) ∧ rval x d ex ≤ rval y d ey := by
  have hy : 0 < y := lt_of_lt_of_le hx hxy
  have ax : |x| = x := abs_of_pos hx
  have ay : |y| = y := abs_of_pos hy
  refine ⟨roundSig_rval x d ex hx.ne' hd, roundSig_rval y d ey hy.ne' hd, ?_⟩
  have sx : ((sign1 x : Int) : ℚ) = 1 := by
    rcases sign1_cases x with ⟨_, h⟩ | ⟨h, _⟩ | ⟨h, _⟩
    · rw [h]; simp
    · linarith
    · linarith
  have sy : ((sign1 y : Int) : ℚ) = 1 := by
    rcases sign1_cases y with ⟨_, h⟩ | ⟨h, _⟩ | ⟨h, _⟩
    · rw [h]; simp
    · linarith
    · linarith
  have hle : ex ≤ ey := by
    have : pow10 ex < pow10 (ey + 1) := by linarith
    have := pow10_lt_iff.mp this
    omega
  have ix := roundSig_idempotent x d ex hx.ne' hd1 hd (by rw [ax]; exact hx1) (by rw [ax]; exact hx2)
  have iy := roundSig_idempotent y d ey hy.ne' hd1 hd (by rw [ay]; exact hy1) (by rw [ay]; exact hy2)
  have px : 0 < rval x d ex := by
    unfold rval; rw [sx, one_mul]
    exact mul_pos (by exact_mod_cast mant_pos x d ex hd1 (by rw [ax]; exact hx1) (by rw [ax]; exact hx2)) (pow10_pos _)
  have py : 0 < rval y d ey := by
    unfold rval; rw [sy, one_mul]
    exact mul_pos (by exact_mod_cast mant_pos y d ey hd1 (by rw [ay]; exact hy1) (by rw [ay]; exact hy2)) (pow10_pos _)
  rcases eq_or_lt_of_le hle with heq | hlt
  · subst heq
    unfold rval; rw [sx, sy, one_mul, one_mul]
    apply mul_le_mul_of_nonneg_right _ (pow10_pos _).le
    exact_mod_cast mant_mono x y d ex (by rw [ax, ay]; exact hxy)
  · have b1 : rval x d ex ≤ pow10 (ex + 1) := by
      have := ix.2.2.2; rwa [abs_of_pos px] at this
    have b2 : pow10 ey ≤ rval y d ey := by
      have := iy.2.2.1; rwa [abs_of_pos py] at this
    have : pow10 (ex + 1) ≤ pow10 ey := pow10_mono (by omega)
    linarith

theorem rval_neg (N : ℚ) (d : ℕ) (e : Int) : rval (-N) d e = - rval N d e := by
  unfold rval; rw [mant_neg, sign1_neg]; push_cast; ring

theorem rval_pos (N : ℚ) (d : ℕ) (e : Int) (hd1 : 1 ≤ d) (hN : 0 < N) (h1 : pow10 e ≤ N) (h2 : N < pow10 (e + 1)) :
    0 < rval N d e := by
  have ax : |N| = N := abs_of_pos hN
  have sx : ((sign1 N : Int) : ℚ) = 1 := by
    rcases sign1_cases N with ⟨_, h⟩ | ⟨h, _⟩ | ⟨h, _⟩
    · rw [h]; simp
    · linarith
    · linarith
  unfold rval; rw [sx, one_mul]
  exact mul_pos (by exact_mod_cast mant_pos N d e hd1 (by rw [ax]; exact h1) (by rw [ax]; exact h2)) (pow10_pos _)

/-- what `Round(N, d)` returns with the exact decimal exponent -/
def roundExact (N : ℚ) (d : ℕ) : ℚ := if N = 0 then 0 else rval N d (expo10 |N|)

theorem round_eq_roundExact (N : ℚ) (d : ℕ) (hd1 : 1 ≤ d) (hd : d ≤ 7) : round N d = .ok (roundExact N d) := by
  unfold round roundSigG roundExact
  rw [if_neg (by omega)]
  by_cases hN : N = 0
  · subst hN; simp [round_zero _ _ hd]
  · rw [if_neg hN, rabs_eq_abs, expo10Fast_eq _ (abs_pos.mpr hN)]
    exact roundSig_rval N d _ hN hd

theorem roundExact_neg (N : ℚ) (d : ℕ) : roundExact (-N) d = - roundExact N d := by
  unfold roundExact
  by_cases hN : N = 0
  · subst hN; simp
  · rw [if_neg hN, if_neg (neg_ne_zero.mpr hN), abs_neg, rval_neg]

theorem roundExact_pos (N : ℚ) (d : ℕ) (hd1 : 1 ≤ d) (hN : 0 < N) : 0 < roundExact N d := by
  unfold roundExact
  rw [if_neg hN.ne']
  have hs := expo10_spec |N| (abs_pos.mpr hN.ne')
  rw [abs_of_pos hN] at hs ⊢
  exact rval_pos N d _ hd1 hN hs.1 hs.2

theorem roundExact_mono_pos (x y : ℚ) (d : ℕ) (hd1 : 1 ≤ d) (hd : d ≤ 7) (hx : 0 < x) (hxy : x ≤ y) :
    roundExact x d ≤ roundExact y d := by
  have hy : 0 < y := lt_of_lt_of_le hx hxy
  unfold roundExact
  rw [if_neg hx.ne', if_neg hy.ne', abs_of_pos hx, abs_of_pos hy]
  have sx := expo10_spec x hx
  have sy := expo10_spec y hy
  exact (round_monotone_pos x y d _ _ hd1 hd hx hxy sx.1 sx.2 sy.1 sy.2).2.2

/-- **round_monotone**, all signs -/
theorem roundExact_mono (x y : ℚ) (d : ℕ) (hd1 : 1 ≤ d) (hd : d ≤ 7) (hxy : x ≤ y) :
    roundExact x d ≤ roundExact y d := by
  rcases lt_trichotomy x 0 with hx | hx | hx
  · rcases lt_trichotomy y 0 with hy | hy | hy
    · -- both negative: use oddness
      have h := roundExact_mono_pos (-y) (-x) d hd1 hd (by linarith) (by linarith)
      rw [roundExact_neg, roundExact_neg] at h
      linarith
    · subst hy
      have h := roundExact_pos (-x) d hd1 (by linarith)
      rw [roundExact_neg] at h
      have : roundExact 0 d = 0 := by simp [roundExact]
      linarith
    · have h := roundExact_pos (-x) d hd1 (by linarith)
      rw [roundExact_neg] at h
      have := roundExact_pos y d hd1 hy
      linarith
  · subst hx
    have h0 : roundExact 0 d = 0 := by simp [roundExact]
    rcases eq_or_lt_of_le hxy with hy | hy
    · rw [← hy]
    · rw [h0]; exact (roundExact_pos y d hd1 hy).le
  · exact roundExact_mono_pos x y d hd1 hd hx hxy

end Lp.C17
