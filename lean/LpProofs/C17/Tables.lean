/-
  GENERATED ONCE by a script (kept as ordinary source): evaluation of the coefficient tables of
  LpModel/C17.lean at the 18 positions of the summation loop, and the explicit index list.
-/
import LpModel.C17
import Mathlib.Tactic.Ring
import Mathlib.Tactic.SplitIfs
namespace Lp.C17

theorem vshIndex_eq (l m : Int) : vshIndex l m =
  [(0, l - 1, m - 1), (0, l - 1, m), (0, l - 1, m + 1), (0, l + 1, m - 1), (0, l + 1, m), (0, l + 1, m + 1),
   (1, l - 1, m - 1), (1, l - 1, m), (1, l - 1, m + 1), (1, l + 1, m - 1), (1, l + 1, m), (1, l + 1, m + 1),
   (2, l - 1, m - 1), (2, l - 1, m), (2, l - 1, m + 1), (2, l + 1, m - 1), (2, l + 1, m), (2, l + 1, m + 1)] := rfl

theorem vshY_0_dn_m (l m : Int) : vshY 0 l m (l - 1) (m - 1) = .ok ⟨-1 / 2, 0, ((l : ℚ) + (m : ℚ) - 1) * ((l : ℚ) + (m : ℚ)) / (2 * (l : ℚ) - 1) / (2 * (l : ℚ) + 1)⟩ := by
  unfold vshY; split_ifs <;> first | rfl | (exfalso; omega)

theorem vshY_0_dn_z (l m : Int) : vshY 0 l m (l - 1) (m) = .ok .zero := by
  unfold vshY; split_ifs <;> first | rfl | (exfalso; omega)

theorem vshY_0_dn_p (l m : Int) : vshY 0 l m (l - 1) (m + 1) = .ok ⟨1 / 2, 0, ((l : ℚ) - (m : ℚ) - 1) * ((l : ℚ) - (m : ℚ)) / (2 * (l : ℚ) - 1) / (2 * (l : ℚ) + 1)⟩ := by
  unfold vshY; split_ifs <;> first | rfl | (exfalso; omega)

theorem vshY_0_up_m (l m : Int) : vshY 0 l m (l + 1) (m - 1) = .ok ⟨1 / 2, 0, ((l : ℚ) - (m : ℚ) + 1) * ((l : ℚ) - (m : ℚ) + 2) / (2 * (l : ℚ) + 3) / (2 * (l : ℚ) + 1)⟩ := by
  unfold vshY; split_ifs <;> first | rfl | (exfalso; omega)

theorem vshY_0_up_z (l m : Int) : vshY 0 l m (l + 1) (m) = .ok .zero := by
  unfold vshY; split_ifs <;> first | rfl | (exfalso; omega)

theorem vshY_0_up_p (l m : Int) : vshY 0 l m (l + 1) (m + 1) = .ok ⟨-1 / 2, 0, ((l : ℚ) + (m : ℚ) + 1) * ((l : ℚ) + (m : ℚ) + 2) / (2 * (l : ℚ) + 3) / (2 * (l : ℚ) + 1)⟩ := by
  unfold vshY; split_ifs <;> first | rfl | (exfalso; omega)

theorem vshY_1_dn_m (l m : Int) : vshY 1 l m (l - 1) (m - 1) = .ok ⟨0, -1 / 2, ((l : ℚ) + (m : ℚ) - 1) * ((l : ℚ) + (m : ℚ)) / (2 * (l : ℚ) - 1) / (2 * (l : ℚ) + 1)⟩ := by
  unfold vshY; split_ifs <;> first | rfl | (exfalso; omega)

theorem vshY_1_dn_z (l m : Int) : vshY 1 l m (l - 1) (m) = .ok .zero := by
  unfold vshY; split_ifs <;> first | rfl | (exfalso; omega)

theorem vshY_1_dn_p (l m : Int) : vshY 1 l m (l - 1) (m + 1) = .ok ⟨0, -1 / 2, ((l : ℚ) - (m : ℚ) - 1) * ((l : ℚ) - (m : ℚ)) / (2 * (l : ℚ) - 1) / (2 * (l : ℚ) + 1)⟩ := by
  unfold vshY; split_ifs <;> first | rfl | (exfalso; omega)

theorem vshY_1_up_m (l m : Int) : vshY 1 l m (l + 1) (m - 1) = .ok ⟨0, 1 / 2, ((l : ℚ) - (m : ℚ) + 1) * ((l : ℚ) - (m : ℚ) + 2) / (2 * (l : ℚ) + 3) / (2 * (l : ℚ) + 1)⟩ := by
  unfold vshY; split_ifs <;> first | rfl | (exfalso; omega)

theorem vshY_1_up_z (l m : Int) : vshY 1 l m (l + 1) (m) = .ok .zero := by
  unfold vshY; split_ifs <;> first | rfl | (exfalso; omega)

theorem vshY_1_up_p (l m : Int) : vshY 1 l m (l + 1) (m + 1) = .ok ⟨0, 1 / 2, ((l : ℚ) + (m : ℚ) + 1) * ((l : ℚ) + (m : ℚ) + 2) / (2 * (l : ℚ) + 3) / (2 * (l : ℚ) + 1)⟩ := by
  unfold vshY; split_ifs <;> first | rfl | (exfalso; omega)

theorem vshY_2_dn_m (l m : Int) : vshY 2 l m (l - 1) (m - 1) = .ok .zero := by
  unfold vshY; split_ifs <;> first | rfl | (exfalso; omega)

theorem vshY_2_dn_z (l m : Int) : vshY 2 l m (l - 1) (m) = .ok ⟨1, 0, ((l : ℚ) - (m : ℚ)) * ((l : ℚ) + (m : ℚ)) / (2 * (l : ℚ) - 1) / (2 * (l : ℚ) + 1)⟩ := by
  unfold vshY; split_ifs <;> first | rfl | (exfalso; omega)

theorem vshY_2_dn_p (l m : Int) : vshY 2 l m (l - 1) (m + 1) = .ok .zero := by
  unfold vshY; split_ifs <;> first | rfl | (exfalso; omega)

theorem vshY_2_up_m (l m : Int) : vshY 2 l m (l + 1) (m - 1) = .ok .zero := by
  unfold vshY; split_ifs <;> first | rfl | (exfalso; omega)

theorem vshY_2_up_z (l m : Int) : vshY 2 l m (l + 1) (m) = .ok ⟨1, 0, ((l : ℚ) - (m : ℚ) + 1) * ((l : ℚ) + (m : ℚ) + 1) / (2 * (l : ℚ) + 3) / (2 * (l : ℚ) + 1)⟩ := by
  unfold vshY; split_ifs <;> first | rfl | (exfalso; omega)

theorem vshY_2_up_p (l m : Int) : vshY 2 l m (l + 1) (m + 1) = .ok .zero := by
  unfold vshY; split_ifs <;> first | rfl | (exfalso; omega)

theorem vshPsi_0_dn_m (l m : Int) : vshPsi 0 l m (l - 1) (m - 1) = .ok ⟨-((l : ℚ) + 1) / 2, 0, ((l : ℚ) + (m : ℚ) - 1) * ((l : ℚ) + (m : ℚ)) / (2 * (l : ℚ) - 1) / (2 * (l : ℚ) + 1)⟩ := by
  unfold vshPsi; split_ifs <;> first | rfl | (exfalso; omega)

theorem vshPsi_0_dn_z (l m : Int) : vshPsi 0 l m (l - 1) (m) = .ok .zero := by
  unfold vshPsi; split_ifs <;> first | rfl | (exfalso; omega)

theorem vshPsi_0_dn_p (l m : Int) : vshPsi 0 l m (l - 1) (m + 1) = .ok ⟨((l : ℚ) + 1) / 2, 0, ((l : ℚ) - (m : ℚ) - 1) * ((l : ℚ) - (m : ℚ)) / (2 * (l : ℚ) - 1) / (2 * (l : ℚ) + 1)⟩ := by
  unfold vshPsi; split_ifs <;> first | rfl | (exfalso; omega)

theorem vshPsi_0_up_m (l m : Int) : vshPsi 0 l m (l + 1) (m - 1) = .ok ⟨-(l : ℚ) / 2, 0, ((l : ℚ) - (m : ℚ) + 1) * ((l : ℚ) - (m : ℚ) + 2) / (2 * (l : ℚ) + 3) / (2 * (l : ℚ) + 1)⟩ := by
  unfold vshPsi; split_ifs <;> first | rfl | (exfalso; omega)

theorem vshPsi_0_up_z (l m : Int) : vshPsi 0 l m (l + 1) (m) = .ok .zero := by
  unfold vshPsi; split_ifs <;> first | rfl | (exfalso; omega)

theorem vshPsi_0_up_p (l m : Int) : vshPsi 0 l m (l + 1) (m + 1) = .ok ⟨(l : ℚ) / 2, 0, ((l : ℚ) + (m : ℚ) + 1) * ((l : ℚ) + (m : ℚ) + 2) / (2 * (l : ℚ) + 3) / (2 * (l : ℚ) + 1)⟩ := by
  unfold vshPsi; split_ifs <;> first | rfl | (exfalso; omega)

theorem vshPsi_1_dn_m (l m : Int) : vshPsi 1 l m (l - 1) (m - 1) = .ok ⟨0, -1 / 2, ((l : ℚ) + 1) * ((l : ℚ) + 1) * ((l : ℚ) + (m : ℚ) - 1) * ((l : ℚ) + (m : ℚ)) / (2 * (l : ℚ) - 1) / (2 * (l : ℚ) + 1)⟩ := by
  unfold vshPsi; split_ifs <;> first | rfl | (exfalso; omega)

theorem vshPsi_1_dn_z (l m : Int) : vshPsi 1 l m (l - 1) (m) = .ok .zero := by
  unfold vshPsi; split_ifs <;> first | rfl | (exfalso; omega)

theorem vshPsi_1_dn_p (l m : Int) : vshPsi 1 l m (l - 1) (m + 1) = .ok ⟨0, -1 / 2, ((l : ℚ) + 1) * ((l : ℚ) + 1) * ((l : ℚ) - (m : ℚ) - 1) * ((l : ℚ) - (m : ℚ)) / (2 * (l : ℚ) - 1) / (2 * (l : ℚ) + 1)⟩ := by
  unfold vshPsi; split_ifs <;> first | rfl | (exfalso; omega)

theorem vshPsi_1_up_m (l m : Int) : vshPsi 1 l m (l + 1) (m - 1) = .ok ⟨0, -1 / 2, (l : ℚ) * (l : ℚ) * ((l : ℚ) - (m : ℚ) + 1) * ((l : ℚ) - (m : ℚ) + 2) / (2 * (l : ℚ) + 3) / (2 * (l : ℚ) + 1)⟩ := by
  unfold vshPsi; split_ifs <;> first | rfl | (exfalso; omega)

theorem vshPsi_1_up_z (l m : Int) : vshPsi 1 l m (l + 1) (m) = .ok .zero := by
  unfold vshPsi; split_ifs <;> first | rfl | (exfalso; omega)

theorem vshPsi_1_up_p (l m : Int) : vshPsi 1 l m (l + 1) (m + 1) = .ok ⟨0, -1 / 2, (l : ℚ) * (l : ℚ) * ((l : ℚ) + (m : ℚ) + 1) * ((l : ℚ) + (m : ℚ) + 2) / (2 * (l : ℚ) + 3) / (2 * (l : ℚ) + 1)⟩ := by
  unfold vshPsi; split_ifs <;> first | rfl | (exfalso; omega)

theorem vshPsi_2_dn_m (l m : Int) : vshPsi 2 l m (l - 1) (m - 1) = .ok .zero := by
  unfold vshPsi; split_ifs <;> first | rfl | (exfalso; omega)

theorem vshPsi_2_dn_z (l m : Int) : vshPsi 2 l m (l - 1) (m) = .ok ⟨1 + (l : ℚ), 0, ((l : ℚ) - (m : ℚ)) * ((l : ℚ) + (m : ℚ)) / (2 * (l : ℚ) - 1) / (2 * (l : ℚ) + 1)⟩ := by
  unfold vshPsi; split_ifs <;> first | rfl | (exfalso; omega)

theorem vshPsi_2_dn_p (l m : Int) : vshPsi 2 l m (l - 1) (m + 1) = .ok .zero := by
  unfold vshPsi; split_ifs <;> first | rfl | (exfalso; omega)

theorem vshPsi_2_up_m (l m : Int) : vshPsi 2 l m (l + 1) (m - 1) = .ok .zero := by
  unfold vshPsi; split_ifs <;> first | rfl | (exfalso; omega)

theorem vshPsi_2_up_z (l m : Int) : vshPsi 2 l m (l + 1) (m) = .ok ⟨-(l : ℚ), 0, ((l : ℚ) - (m : ℚ) + 1) * ((l : ℚ) + (m : ℚ) + 1) / (2 * (l : ℚ) + 3) / (2 * (l : ℚ) + 1)⟩ := by
  unfold vshPsi; split_ifs <;> first | rfl | (exfalso; omega)

theorem vshPsi_2_up_p (l m : Int) : vshPsi 2 l m (l + 1) (m + 1) = .ok .zero := by
  unfold vshPsi; split_ifs <;> first | rfl | (exfalso; omega)

end Lp.C17
