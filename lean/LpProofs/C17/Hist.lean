/-
  History independence of the C17 functions (justifies the class-D self-differential checks
  `c17.premain` and `c17.vshhold`) and what an uninitialised coefficient table would do.
-/
import LpModel.C17.Hist
import LpProofs.C17.Basic
namespace Lp.C17

theorem dawsonLoopC_table (exp : ℚ → ℚ) (e2 : ℚ) : ∀ (f i : ℕ) (d1 d2 e1 sum : ℚ),
    dawsonLoopC (dawsonTable exp) e2 f i d1 d2 e1 sum = dawsonLoop exp e2 f i d1 d2 e1 sum := by
  intro f
  induction f with
  | zero => intro _ _ _ _ _; rfl
  | succ f ih => intro i d1 d2 e1 sum; simp only [dawsonLoopC, dawsonLoop, dawsonTable]; exact ih _ _ _ _ _

/-- with the table the code fills, the parametrised form *is* `Dawson_Integral`'s sum branch:
    the value does not depend on when the table was filled (every call, once, never before) as long
    as it holds `exp(−((2i+1)H)²)` when it is read -/
theorem dawsonLargeC_table (exp : ℚ → ℚ) (x : ℚ) : dawsonLargeC exp (dawsonTable exp) x = dawsonLarge exp x := by
  unfold dawsonLargeC dawsonLarge
  simp only [dawsonLoopC_table]

theorem dawsonLoopC_zero (e2 : ℚ) : ∀ (f i : ℕ) (d1 d2 e1 : ℚ), dawsonLoopC (fun _ => 0) e2 f i d1 d2 e1 0 = 0 := by
  intro f
  induction f with
  | zero => intro _ _ _ _; rfl
  | succ f ih => intro i d1 d2 e1; simp only [dawsonLoopC, zero_mul, add_zero]; exact ih _ _ _ _

/-- **the hazard**: a coefficient table read before it is initialised (zero-initialised storage)
    makes the sum branch return exactly `0` for every argument -/
theorem dawsonLargeC_uninitialised (exp : ℚ → ℚ) (x : ℚ) : dawsonLargeC exp (fun _ => 0) x = 0 := by
  unfold dawsonLargeC
  simp only [dawsonLoopC_zero, mul_zero]

/-- only the coefficients `c 0 … c 5` are read -/
theorem dawsonLargeC_congr (exp : ℚ → ℚ) (c c' : ℕ → ℚ) (h : ∀ i, i < 6 → c i = c' i) (x : ℚ) :
    dawsonLargeC exp c x = dawsonLargeC exp c' x := by
  unfold dawsonLargeC
  simp only [dawsonLoopC, h 0 (by omega), h 1 (by omega), h 2 (by omega), h 3 (by omega), h 4 (by omega), h 5 (by omega)]

/-- **history_independent**: the answer to the `i`-th call of a history is the answer to that call
    alone — for every function of the model (all are pure), every history, every position;
    in particular the first call of the empty history prefix ("no history at all": a call before
    `main`) and results of earlier calls are not changed by later ones -/
theorem history_independent {α β} (f : α → β) (calls : List α) (i : ℕ) (h : i < calls.length) :
    (history f calls)[i]? = some (f calls[i]) := by
  unfold history
  simp [h]

theorem history_append {α β} (f : α → β) (before after : List α) :
    history f (before ++ after) = history f before ++ history f after := by
  unfold history; simp

/-- results held at the same time: the list of answers to `calls ++ later` restricted to `calls` is
    the list of answers to `calls` -/
theorem history_prefix_stable {α β} (f : α → β) (calls later : List α) :
    (history f (calls ++ later)).take calls.length = history f calls := by
  rw [history_append]
  have : calls.length = (history f calls).length := by simp [history]
  rw [this, List.take_left']
  rfl

/-- the last call of any history is answered like that call alone in a fresh process -/
theorem history_fresh {α β} (f : α → β) (before : List α) (c : α) :
    (history f (before ++ [c])).getLast? = some (f c) ∧ history f [c] = [f c] := by
  unfold history; simp

/-- **cached_exact_sound**: a one-entry cache keyed on EXACT equality of the argument is invisible —
    every history is answered like the plain function (from any consistent cache state) -/
theorem cached_exact_sound {α β} [DecidableEq α] (f : α → β) : ∀ (calls : List α) (st : Option (α × β)),
    CacheOK f st → cachedHistory (fun a b => decide (a = b)) f st calls = history f calls := by
  intro calls
  induction calls with
  | nil => intro _ _; rfl
  | cons x r ih =>
    intro st hst
    unfold cachedHistory history
    simp only [List.map_cons]
    cases st with
    | none =>
      simp only [cachedStep]
      congr 1
      exact ih _ (by intro k v h; simp only [Option.some.injEq, Prod.mk.injEq] at h; rw [← h.2, ← h.1])
    | some kv =>
      obtain ⟨k, v⟩ := kv
      simp only [cachedStep]
      by_cases hk : k = x
      · subst hk
        have hv : v = f k := hst k v rfl
        simp only [decide_true, if_true]
        rw [hv]
        congr 1
        exact ih _ (by intro k' v' h; simp only [Option.some.injEq, Prod.mk.injEq] at h; rw [← h.2, ← h.1])
      · simp only [hk, decide_false, Bool.false_eq_true, if_false]
        congr 1
        exact ih _ (by intro k' v' h; simp only [Option.some.injEq, Prod.mk.injEq] at h; rw [← h.2, ← h.1])

/-- … whereas a key compared with a tolerance (anything coarser than equality) makes the second of two
    near-but-different calls return the first one's answer: the cached history is not the history -/
theorem cached_near_unsound :
    cachedHistory (fun (a b : Int) => decide ((a - b).natAbs ≤ 1)) (fun x => x) none [0, 1] = [0, 0] ∧
    history (fun (x : Int) => x) [0, 1] = [0, 1] := by decide

end Lp.C17
