import LpModel.C08
namespace Lp.C08
end Lp.C08
