/-
  C08 — interpolation integrals and extrema are those of the interpolated curve.
  Property theorems about `Integrate`, `Local_Minimum/Maximum`, `Global_Minimum/Maximum`
  (1-D, 2-D) and `Set_Prefactor`/`Multiply` of the model `Lp.Interp` (src/Numerics.cpp §1, after
  fixes 6f59f09 and ede24b1).  The pure forms `pInteg`, `pLocalExt`, … are the values the
  stateful calls return from every admissible search state (`Lp.C09.step_spec`).
  Helper lemmas: `LpProofs/C08/Basic.lean`, `LpProofs/C08/Additive.lean`, `LpProofs/C08/Curve.lean`
  (the latter composes C01's segment monotonicity and C09's index theorems with the candidates).
-/
import LpProofs.C08.Additive
import LpProofs.C08.Curve
import LpProofs.C09
import Mathlib.Tactic.LinearCombination
namespace Lp.C08
open Lp Lp.Interp Lp.C09

-- the square root of `Stationary_Values` is a parameter (class `SqrtFn`): everything below holds for every instance
variable [SqrtFn]

/-! ## [T1] The stem function is *the* antiderivative of the returned cubic -/

/-- `integ_segment`: within one segment the stem-function difference equals Simpson's rule, which is
    exact on cubics — i.e. it is the exact integral of the cubic `segEval a b c d (· − x_j)`. -/
theorem integ_segment (a b c d xj A B : Rat) :
    segStem a b c d xj B - segStem a b c d xj A =
      (B - A) * (segEval a b c d (A - xj) + 4 * segEval a b c d ((A + B) / 2 - xj) + segEval a b c d (B - xj)) / 6 := by
  unfold segStem segEval; ring

/-- the stem function as coded before fix d3bfb03 (linear term `d·X` with the absolute abscissa) -/
def segStemAbs (a b c d xj X : Rat) : Rat :=
  a / 4 * (X - xj) ^ 4 + b / 3 * (X - xj) ^ 3 + c / 2 * (X - xj) ^ 2 + d * X

/-- fix d3bfb03 is value-neutral over the rationals: the constant `d_j·x_j` by which the two stem
    functions differ cancels in `stem(right) − stem(left)`, the only way `Integrate` uses them -/
theorem stem_shift_noop (a b c d xj A B : Rat) :
    segStem a b c d xj B - segStem a b c d xj A = segStemAbs a b c d xj B - segStemAbs a b c d xj A := by
  unfold segStem segStemAbs; ring

theorem segStem_left (a b c d xj : Rat) : segStem a b c d xj xj = 0 := by
  unfold segStem; ring


/-- the Taylor form is the stem-function difference (`stem_shift_noop` generalised: any reference point of the antiderivative
    gives the same integral), so the repair is value-neutral over the rationals and every `integ_*` theorem carries over -/
theorem segInteg_eq_stem (a b c d xj xl w : Rat) :
    segInteg a b c d (xl - xj) w = segStem a b c d xj (xl + w) - segStem a b c d xj xl := by
  unfold segInteg segStem; ring

/-- applying the prefactor once to the sum is the same as applying it to every stem value -/
theorem pref_once (p s1 r1 s2 r2 : Rat) : p * ((r1 - s1) + (r2 - s2)) = (p * r1 - p * s1) + (p * r2 - p * s2) := by ring

/-- `integ_deriv_upper`: difference-quotient identity.  The increment of the stem function is
    `δ·P(X)` plus `δ²` times a polynomial, so its derivative w.r.t. the upper limit is `P(X)`,
    the value `Interpolate` returns (and the higher terms are `Derivative(·,1..3)`). -/
theorem integ_deriv_upper (a b c d xj X δ : Rat) :
    segStem a b c d xj (X + δ) - segStem a b c d xj X =
      δ * segEval a b c d (X - xj) +
        δ ^ 2 * (segD1 a b c (X - xj) / 2 + segD2 a b (X - xj) * δ / 6 + segD3 a * δ ^ 2 / 24) := by
  unfold segStem segEval segD1 segD2 segD3; ring

/-- object level: limits with the same index — `Integrate` is `(hi−lo)/6·(f(lo)+4f(mid)+f(hi))`
    with `f` the cubic `Interpolate` evaluates on that segment -/
theorem integ_one_segment (o : Obj) (lo hi : Rat) (i : Nat) (hle : ¬ lo > hi)
    (h1 : locateCanon o.N o.x lo = .ok i) (h2 : locateCanon o.N o.x hi = .ok i) :
    pInteg o lo hi = .ok ((hi - lo) * (o.cubicAt i lo + 4 * o.cubicAt i ((lo + hi) / 2) + o.cubicAt i hi) / 6) := by
  unfold pInteg pIntegCore
  simp only [hle, if_false, h1, h2, Nat.sub_self]
  rw [segSum_eq, Nat.add_zero]
  unfold antiAt stemAt Obj.cubicAt
  have := integ_segment (coefA o.N o.x o.y i) (coefB o.N o.x o.y i) (coefC o.N o.x o.y i) (coefD o.y i) (o.x i) lo hi
  congr 1
  linear_combination o.pref * this

/-! ## [T1] additivity and antisymmetry (any number of segments and knots, any order of the limits) -/

/-- `Integrate(a,b)` is the difference of one antiderivative `anti o`, for all limits in the domain -/
theorem integ_antiderivative (o : Obj) (t : Tbl o) (a b : Rat)
    (ha : o.x 0 ≤ a ∧ a ≤ o.x (o.N - 1)) (hb : o.x 0 ≤ b ∧ b ≤ o.x (o.N - 1)) :
    pInteg o a b = .ok (anti o b - anti o a) := pInteg_eq_anti o t a b ha hb

theorem integ_additive (o : Obj) (t : Tbl o) (a b c : Rat)
    (ha : o.x 0 ≤ a ∧ a ≤ o.x (o.N - 1)) (hb : o.x 0 ≤ b ∧ b ≤ o.x (o.N - 1)) (hc : o.x 0 ≤ c ∧ c ≤ o.x (o.N - 1)) :
    ∃ iab ibc iac, pInteg o a b = .ok iab ∧ pInteg o b c = .ok ibc ∧ pInteg o a c = .ok iac ∧ iab + ibc = iac :=
  ⟨_, _, _, pInteg_eq_anti o t a b ha hb, pInteg_eq_anti o t b c hb hc, pInteg_eq_anti o t a c ha hc, by ring⟩

theorem integ_antisymm (o : Obj) (t : Tbl o) (a b : Rat)
    (ha : o.x 0 ≤ a ∧ a ≤ o.x (o.N - 1)) (hb : o.x 0 ≤ b ∧ b ≤ o.x (o.N - 1)) :
    ∃ iab iba, pInteg o a b = .ok iab ∧ pInteg o b a = .ok iba ∧ iba = -iab :=
  ⟨_, _, pInteg_eq_anti o t a b ha hb, pInteg_eq_anti o t b a hb ha, by ring⟩

/-- antisymmetry needs no table hypothesis when the limits differ: the code negates the same sum -/
theorem integ_antisymm_any (o : Obj) (a b : Rat) (hne : a ≠ b) :
    pInteg o b a = (pInteg o a b).map (fun v => -v) := by
  unfold pInteg
  rcases lt_or_gt_of_ne hne with h | h
  · have h1 : b > a := h
    have h2 : ¬ a > b := not_lt.mpr (le_of_lt h)
    simp only [h1, h2, if_true, if_false]
    unfold pIntegCore
    cases locateCanon o.N o.x a with
    | error e => rfl
    | ok i1 =>
      cases locateCanon o.N o.x b with
      | error e => rfl
      | ok i2 => simp only [Except.map]; congr 1; ring
  · have h1 : a > b := h
    have h2 : ¬ b > a := not_lt.mpr (le_of_lt h)
    simp only [h1, h2, if_true, if_false]
    unfold pIntegCore
    cases locateCanon o.N o.x b with
    | error e => rfl
    | ok i1 =>
      cases locateCanon o.N o.x a with
      | error e => rfl
      | ok i2 => simp only [Except.map]; congr 1; ring

/-! ## [T1] extrema -/

/-- `Local_Minimum` is a lower bound of, `Local_Maximum` an upper bound of, every candidate: the two
    end values and the curve value `pref·y_k` at every knot `first ≤ k ≤ last` -/
theorem localExt_candidates (o : Obj) (v1 v2 fl fr : Rat) (i1 i2 : Nat) :
    extVal o false v1 v2 fl fr i1 i2 ≤ fl ∧ extVal o false v1 v2 fl fr i1 i2 ≤ fr ∧
    fl ≤ extVal o true v1 v2 fl fr i1 i2 ∧ fr ≤ extVal o true v1 v2 fl fr i1 i2 ∧
    ∀ k, (if v1 < o.x 0 ∧ v2 ≥ o.x 0 then i1 else i1 + 1) ≤ k → k ≤ (if v2 > o.x (o.N - 1) ∧ v1 ≤ o.x (o.N - 1) then i2 + 1 else i2) →
      extVal o false v1 v2 fl fr i1 i2 ≤ o.pref * o.y k ∧ o.pref * o.y k ≤ extVal o true v1 v2 fl fr i1 i2 :=
  extVal_candidates o v1 v2 fl fr i1 i2

/-- for ordered limits in the domain both results exist -/
theorem localExt_defined (o : Obj) (t : Tbl o) (isMax : Bool) (v1 v2 : Rat)
    (h0 : o.x 0 ≤ v1) (h12 : v1 ≤ v2) (h3 : v2 ≤ o.x (o.N - 1)) : ∃ m, pLocalExt o isMax v1 v2 = .ok m := by
  obtain ⟨i1, _, l1⟩ := located_of_domain t h0 (le_trans h12 h3)
  obtain ⟨i2, _, l2⟩ := located_of_domain t (le_trans h0 h12) h3
  exact ⟨_, pLocalExt_located o isMax h12 l1 l2⟩

/-- `localExt_curve_zone` [limits anywhere `Locate` accepts, i.e. also in the 1 % extrapolation zones]:
    every value `Interpolate` returns on `[x1,x2]` lies between `Local_Minimum(x1,x2)` and
    `Local_Maximum(x1,x2)`, for every table the constructor accepts and a prefactor of either sign —
    with NO monotonicity hypothesis (since fix 51ca844 the stationary values of the continued edge cubic are
    candidates, and the cubic is monotone between consecutive candidates: `edge_monotone_between_candidates`).
    The only hypothesis besides the table is `SqrtOk`: where a limit lies outside the tabulated domain, the
    square root is correct at the discriminant of that edge piece (asked only if `sqrt` is called at all). -/
theorem localExt_curve_zone (o : Obj) (t : Tbl o) (v1 v2 v mn mx fv : Rat) (h1 : v1 ≤ v) (h2 : v ≤ v2)
    (hL : v1 < o.x 0 → SqrtOk o 0) (hR : o.x (o.N - 1) < v2 → SqrtOk o (o.N - 2))
    (hmn : pLocalExt o false v1 v2 = .ok mn) (hmx : pLocalExt o true v1 v2 = .ok mx) (hf : pInterp o v = .ok fv) :
    mn ≤ fv ∧ fv ≤ mx := by
  obtain ⟨i1, i2, hle, l1, l2, emn⟩ := pLocalExt_inv o false hmn
  obtain ⟨i1', i2', _, l1', l2', emx⟩ := pLocalExt_inv o true hmx
  rw [l1] at l1'; rw [l2] at l2'
  injection l1' with e1; injection l2' with e2
  subst e1; subst e2
  obtain ⟨j, lj, efv⟩ := pInterp_inv o hf
  have := bd_onIdx t ⟨hle, l1, l2, hL, hR⟩ (onIdx_of_located t lj) h1 h2
  rw [emn, emx, efv]
  exact this

/-- **`localExt_curve`** (`localMin_is_min`, the full statement): for every table the constructor
    accepts (`N ≥ 3`, strictly increasing abscissae), every prefactor of either sign and limits
    `x_0 ≤ x1 ≤ x2 ≤ x_{N-1}`, every value of the curve on `[x1,x2]` — `Interpolate(v)`, i.e.
    `o.cubicAt j v` with `j` the index `Locate` returns from every search state — lies between
    `Local_Minimum(x1,x2)` and `Local_Maximum(x1,x2)`.  Composition of C01 `interp_monotone_on_segment`
    / `interp_reproduces_knots` (each piece is monotone between its knots and takes the tabulated
    values there), C09 `locate_brackets`/`locate_canonical` (which piece) and `localExt_candidates`. -/
theorem localExt_curve (o : Obj) (t : Tbl o) (v1 v2 v mn mx fv : Rat)
    (h0 : o.x 0 ≤ v1) (h1 : v1 ≤ v) (h2 : v ≤ v2) (h3 : v2 ≤ o.x (o.N - 1))
    (hmn : pLocalExt o false v1 v2 = .ok mn) (hmx : pLocalExt o true v1 v2 = .ok mx) (hf : pInterp o v = .ok fv) :
    mn ≤ fv ∧ fv ≤ mx :=
  localExt_curve_zone o t v1 v2 v mn mx fv h1 h2 (fun h => absurd h (not_lt.mpr h0)) (fun h => absurd h (not_lt.mpr h3))
    hmn hmx hf

/-- the same for either piece adjacent to a knot (`x_j ≤ w ≤ x_{j+1}`, not only the canonical one): the
    bound does not depend on which of the two admissible indices a search returns at a knot -/
theorem localExt_curve_piece (o : Obj) (t : Tbl o) (v1 v2 w mn mx : Rat) (j : Nat) (hj : j + 2 ≤ o.N)
    (hw0 : o.x j ≤ w) (hw1 : w ≤ o.x (j + 1)) (h1 : v1 ≤ w) (h2 : w ≤ v2)
    (hL : v1 < o.x 0 → SqrtOk o 0) (hR : o.x (o.N - 1) < v2 → SqrtOk o (o.N - 2))
    (hmn : pLocalExt o false v1 v2 = .ok mn) (hmx : pLocalExt o true v1 v2 = .ok mx) :
    mn ≤ o.cubicAt j w ∧ o.cubicAt j w ≤ mx := by
  obtain ⟨i1, i2, hle, l1, l2, emn⟩ := pLocalExt_inv o false hmn
  obtain ⟨i1', i2', _, l1', l2', emx⟩ := pLocalExt_inv o true hmx
  rw [l1] at l1'; rw [l2] at l2'
  injection l1' with e1; injection l2' with e2
  subst e1; subst e2
  have := bd_onIdx t ⟨hle, l1, l2, hL, hR⟩ (j := j) (w := w) ⟨hj, Or.inr hw0, Or.inr hw1⟩ h1 h2
  rw [emn, emx]
  exact this

/-- a sufficient condition for the hypothesis of the `_zone` statements: the reported first derivative
    (`Derivative(·,1)` without the prefactor) does not change sign between the limit and the end knot -/
theorem monoOn_of_deriv_sign (o : Obj) (j : Nat) (a b : Rat)
    (h : (∀ u, a ≤ u → u ≤ b → 0 ≤ Lp.C01.cubicD1 o.N o.x o.y j u) ∨ (∀ u, a ≤ u → u ≤ b → Lp.C01.cubicD1 o.N o.x o.y j u ≤ 0)) :
    MonoOn o j a b := monoOn_of_sign o j a b h

/-- **the continued edge cubic is monotone between consecutive candidates** (what fix 51ca844 buys): on `[u,v]` with no
    stationary abscissa computed by `Stationary_Values` strictly inside, piece `j` is monotone — given only that the
    square root is correct at the discriminant actually passed to it -/
theorem edge_monotone_between_candidates (o : Obj) (j : Nat) (hs : SqrtOk o j) (u v : Rat)
    (hno : ∀ r ∈ statRoots (3 * coefA o.N o.x o.y j) (2 * coefB o.N o.x o.y j) (coefC o.N o.x o.y j),
      o.x j + r ≤ u ∨ v ≤ o.x j + r) : MonoOn o j u v := monoOn_between_roots o j hs u v hno

/-- the `A = 0` branch of `Stationary_Values` (edge piece exactly a parabola): the single root is the vertex `−C/B` … -/
theorem statRoots_parabola (B C : Rat) (hB : B ≠ 0) : statRoots 0 B C = [-C / B] := by
  unfold statRoots; simp [hB]

/-- … where the piece takes the value `d − c²/(4b)`; the candidate is `prefactor` times it (`Obj.stationaryValues` multiplies
    every value by the prefactor, whichever branch found the root) -/
theorem parabola_vertex_value (b c d : Rat) (hb : b ≠ 0) : segEval 0 b c d (-c / (2 * b)) = d - c ^ 2 / (4 * b) := by
  unfold segEval; field_simp; ring

/-- every stationary candidate is the curve (prefactor included) at an abscissa strictly inside the window it was asked for —
    for the right zone the window starts at `max(x_1, x_{N-1})`, so no candidate lies outside `[x_1,x_2]` -/
theorem stationary_inside_window (o : Obj) (j : Nat) (lo hi s : Rat) (h : s ∈ o.stationaryValues j lo hi) :
    ∃ w, lo < w ∧ w < hi ∧ s = o.cubicAt j w := mem_stationaryValues h

/-- limits in OPPOSITE extrapolation zones in one call: the candidate set is the UNION of the stationary values of both continued
    edge cubics — `Local_Minimum` bounds every member of `statL ++ statR` from below, `Local_Maximum` from above -/
theorem extVal_stationary_union (o : Obj) (v1 v2 fl fr : Rat) (i1 i2 : Nat) (s : Rat) (hs : s ∈ statL o v1 v2 ++ statR o v1 v2) :
    extVal o false v1 v2 fl fr i1 i2 ≤ s ∧ s ≤ extVal o true v1 v2 fl fr i1 i2 :=
  extVal_stationary o v1 v2 fl fr i1 i2 s (List.mem_append.mp hs)

/-- **the extrema are attained on `[x1,x2]`**: each result is the value `Interpolate` returns at some
    abscissa of the interval — a limit, a knot between the limits, or (fix 51ca844) a stationary point of the
    continued edge cubic strictly between an extrapolated limit and the end knot — for all limits `Locate`
    accepts, every square-root function and without any monotonicity hypothesis -/
theorem localExt_attained (o : Obj) (t : Tbl o) (isMax : Bool) (v1 v2 m : Rat) (h : pLocalExt o isMax v1 v2 = .ok m) :
    ∃ w, v1 ≤ w ∧ w ≤ v2 ∧ pInterp o w = .ok m ∧
      (w = v1 ∨ w = v2 ∨ (∃ k, k < o.N ∧ w = o.x k) ∨ (v1 < w ∧ w < o.x 0) ∨ (o.x (o.N - 1) < w ∧ w < v2)) := by
  obtain ⟨i1, i2, hle, l1, l2, em⟩ := pLocalExt_inv o isMax h
  rcases extVal_is_candidate o isMax v1 v2 (o.cubicAt i1 v1) (o.cubicAt i2 v2) i1 i2 with e | e | ⟨k, k1, k2, e⟩ | e | e
  · exact ⟨v1, le_refl _, hle, by rw [em, e]; exact pInterp_located o l1, Or.inl rfl⟩
  · exact ⟨v2, hle, le_refl _, by rw [em, e]; exact pInterp_located o l2, Or.inr (Or.inl rfl)⟩
  · obtain ⟨hk, a, b⟩ := knot_in_limits t l1 l2 k1 k2
    exact ⟨o.x k, a, b, by rw [em, e]; exact pInterp_knot t hk, Or.inr (Or.inr (Or.inl ⟨k, hk, rfl⟩))⟩
  · unfold statL at e
    by_cases hz : v1 < o.x 0
    · simp only [hz, if_true] at e
      obtain ⟨w, w1, w2, ew⟩ := mem_stationaryValues e
      have wv2 : w < v2 := lt_of_lt_of_le w2 (rmin_le_left _ _)
      have wx0 : w < o.x 0 := lt_of_lt_of_le w2 (rmin_le_right _ _)
      have lw := zone_left_located t l1 hz (le_of_lt w1) wx0
      exact ⟨w, le_of_lt w1, le_of_lt wv2, by rw [em, ew]; exact pInterp_located o lw,
        Or.inr (Or.inr (Or.inr (Or.inl ⟨w1, wx0⟩)))⟩
    · simp only [hz, if_false] at e
      cases e
  · unfold statR at e
    by_cases hz : v2 > o.x (o.N - 1)
    · simp only [hz, if_true] at e
      obtain ⟨w, w1, w2, ew⟩ := mem_stationaryValues e
      have wv1 : v1 < w := lt_of_le_of_lt (le_rmax_left _ _) w1
      have wxN : o.x (o.N - 1) < w := lt_of_le_of_lt (le_rmax_right _ _) w1
      have lw := zone_right_located t l2 hz (le_of_lt w2) wxN
      exact ⟨w, le_of_lt wv1, le_of_lt w2, by rw [em, ew]; exact pInterp_located o lw,
        Or.inr (Or.inr (Or.inr (Or.inr ⟨wxN, w2⟩)))⟩
    · simp only [hz, if_false] at e
      cases e

/-! ## [T2] `integ_bounds` -/

/-- limits anywhere `Locate` accepts (monotone edge cubic where a limit lies outside the domain):
    `Local_Minimum·(x2−x1) ≤ Integrate(x1,x2) ≤ Local_Maximum·(x2−x1)`, across any number of pieces -/
theorem integ_bounds_zone (o : Obj) (t : Tbl o) (v1 v2 mn mx I : Rat)
    (hL : v1 < o.x 0 → SqrtOk o 0) (hR : o.x (o.N - 1) < v2 → SqrtOk o (o.N - 2))
    (hmn : pLocalExt o false v1 v2 = .ok mn) (hmx : pLocalExt o true v1 v2 = .ok mx) (hI : pInteg o v1 v2 = .ok I) :
    mn * (v2 - v1) ≤ I ∧ I ≤ mx * (v2 - v1) := by
  obtain ⟨i1, i2, hle, l1, l2, emn⟩ := pLocalExt_inv o false hmn
  obtain ⟨i1', i2', _, l1', l2', emx⟩ := pLocalExt_inv o true hmx
  rw [l1] at l1'; rw [l2] at l2'
  injection l1' with e1; injection l2' with e2
  subst e1; subst e2
  rw [pInteg_located t hle l1 l2] at hI
  injection hI with hI
  have hi := located_mono t l1 l2 hle
  have hb := anti_bounds t mn mx (i2 - i1) i1 v1 v2 hle (onIdx_of_located t l1)
    (by rw [show i1 + (i2 - i1) = i2 by omega]; exact onIdx_of_located t l2)
    (fun j w hj a b => by
      have := bd_onIdx t ⟨hle, l1, l2, hL, hR⟩ hj a b
      rw [emn, emx]; exact this)
  rw [show i1 + (i2 - i1) = i2 by omega, hI] at hb
  exact hb

/-- **`integ_bounds`**: for `x_0 ≤ x1 ≤ x2 ≤ x_{N-1}`,
    `Local_Minimum(x1,x2)·(x2−x1) ≤ Integrate(x1,x2) ≤ Local_Maximum(x1,x2)·(x2−x1)` — every table,
    every prefactor, limits any number of pieces apart (`localExt_curve` + Simpson's rule, which is
    exact on each cubic piece and evaluates it at three abscissae of the piece) -/
theorem integ_bounds (o : Obj) (t : Tbl o) (v1 v2 mn mx I : Rat) (h0 : o.x 0 ≤ v1) (h3 : v2 ≤ o.x (o.N - 1))
    (hmn : pLocalExt o false v1 v2 = .ok mn) (hmx : pLocalExt o true v1 v2 = .ok mx) (hI : pInteg o v1 v2 = .ok I) :
    mn * (v2 - v1) ≤ I ∧ I ≤ mx * (v2 - v1) :=
  integ_bounds_zone o t v1 v2 mn mx I (fun h => absurd h (not_lt.mpr h0)) (fun h => absurd h (not_lt.mpr h3)) hmn hmx hI

/-- `Global_Minimum ≤ pref·y ≤ Global_Maximum` for every tabulated ordinate, for either sign of the
    prefactor (by C01 every evaluation lies between neighbouring ordinates, hence inside too) -/
theorem global_bounds (o : Obj) (v : Rat) (hv : v ∈ o.ys.toList) :
    o.globalExt false ≤ o.pref * v ∧ o.pref * v ≤ o.globalExt true := by
  unfold Obj.globalExt
  simp only [Bool.false_eq_true, if_false, if_true]
  exact scaled_between o.pref _ _ v (listMin_le _ 0 _ hv) (le_listMax _ 0 _ hv)

theorem global_bounds_2D (o : Obj2) (v : Rat) (hv : v ∈ (o.f.toList.map Array.toList).flatten) :
    o.globalExt false ≤ o.pref * v ∧ o.pref * v ≤ o.globalExt true := by
  unfold Obj2.globalExt
  simp only [Bool.false_eq_true, if_false, if_true]
  exact scaled_between o.pref _ _ v (listMin_le _ 0 _ hv) (le_listMax _ 0 _ hv)

/-- the global extrema are attained at a tabulated ordinate (non-empty table) -/
theorem global_attained (o : Obj) (a : Rat) (t : List Rat) (h : o.ys.toList = a :: t) :
    (∃ v ∈ o.ys.toList, o.globalExt false = o.pref * v) ∧ (∃ v ∈ o.ys.toList, o.globalExt true = o.pref * v) := by
  unfold Obj.globalExt
  simp only [Bool.false_eq_true, if_false, if_true]
  rw [h]
  constructor
  · rcases rmin_mem (o.pref * listMin (a :: t) 0) (o.pref * listMax (a :: t) 0) with e | e
    · exact ⟨_, listMin_mem a t 0, e⟩
    · exact ⟨_, listMax_mem a t 0, e⟩
  · rcases rmax_mem (o.pref * listMin (a :: t) 0) (o.pref * listMax (a :: t) 0) with e | e
    · exact ⟨_, listMin_mem a t 0, e⟩
    · exact ⟨_, listMax_mem a t 0, e⟩

/-! ## [T1] `prefactor_scaling` -/

/-- after any sequence of `Set_Prefactor`/`Multiply` the factor is `prefAfter` (`Lp.C09.run_spec`);
    `Interpolate` and `Derivative` scale by it (`Lp.C09.prefactor_only_interp/_deriv`), and so does `Integrate`: -/
theorem segSum_pref (o : Obj) (p : Rat) (i1 n : Nat) (lo hi : Rat) :
    segSum { o with pref := p } i1 n lo hi = p * segSum { o with pref := 1 } i1 n lo hi := by
  rw [segSum_eq, segSum_eq, antiAt_pref o p (i1 + n) hi, antiAt_pref o p i1 lo]
  ring

theorem prefactor_scaling_integ (o : Obj) (p : Rat) (a b : Rat) :
    pInteg { o with pref := p } a b = (pInteg { o with pref := 1 } a b).map (p * ·) := by
  unfold pInteg pIntegCore
  show (if a > b then
      (match locateCanon o.N o.x b with
      | .error e => .error e
      | .ok i1 => match locateCanon o.N o.x a with
        | .error e => .error e
        | .ok i2 => Except.ok (-1 * segSum { o with pref := p } i1 (i2 - i1) b a))
    else
      (match locateCanon o.N o.x a with
      | .error e => .error e
      | .ok i1 => match locateCanon o.N o.x b with
        | .error e => .error e
        | .ok i2 => Except.ok (1 * segSum { o with pref := p } i1 (i2 - i1) a b))) =
    Except.map (p * ·) (if a > b then
      (match locateCanon o.N o.x b with
      | .error e => .error e
      | .ok i1 => match locateCanon o.N o.x a with
        | .error e => .error e
        | .ok i2 => Except.ok (-1 * segSum { o with pref := 1 } i1 (i2 - i1) b a))
    else
      (match locateCanon o.N o.x a with
      | .error e => .error e
      | .ok i1 => match locateCanon o.N o.x b with
        | .error e => .error e
        | .ok i2 => Except.ok (1 * segSum { o with pref := 1 } i1 (i2 - i1) a b)))
  by_cases h : a > b
  · simp only [h, if_true]
    cases locateCanon o.N o.x b with
    | error e => rfl
    | ok i1 =>
      cases locateCanon o.N o.x a with
      | error e => rfl
      | ok i2 => simp only [Except.map]; rw [segSum_pref]; congr 1; ring
  · simp only [h, if_false]
    cases locateCanon o.N o.x a with
    | error e => rfl
    | ok i1 =>
      cases locateCanon o.N o.x b with
      | error e => rfl
      | ok i2 => simp only [Except.map]; rw [segSum_pref]; congr 1; ring

/-- global extrema scale by the factor and swap for a negative one (1-D) -/
theorem prefactor_scaling_global (o : Obj) (p : Rat) :
    (0 ≤ p → Obj.globalExt { o with pref := p } false = p * Obj.globalExt { o with pref := 1 } false ∧
             Obj.globalExt { o with pref := p } true = p * Obj.globalExt { o with pref := 1 } true) ∧
    (p < 0 → Obj.globalExt { o with pref := p } false = p * Obj.globalExt { o with pref := 1 } true ∧
             Obj.globalExt { o with pref := p } true = p * Obj.globalExt { o with pref := 1 } false) := by
  have hle := listMin_le_listMax o.ys.toList 0
  obtain ⟨q1, q2⟩ := scaled_extrema p _ _ hle
  obtain ⟨r1, _⟩ := scaled_extrema 1 _ _ hle
  obtain ⟨e1, e2⟩ := r1 (by norm_num)
  unfold Obj.globalExt
  simp only [Bool.false_eq_true, if_false, if_true]
  constructor
  · intro hp
    obtain ⟨a1, a2⟩ := q1 hp
    exact ⟨by rw [a1, e1, one_mul], by rw [a2, e2, one_mul]⟩
  · intro hp
    obtain ⟨a1, a2⟩ := q2 hp
    exact ⟨by rw [a1, e2, one_mul], by rw [a2, e1, one_mul]⟩

/-- … and for the 2-D object -/
theorem prefactor_scaling_global_2D (o : Obj2) (p : Rat) :
    (0 ≤ p → Obj2.globalExt { o with pref := p } false = p * Obj2.globalExt { o with pref := 1 } false ∧
             Obj2.globalExt { o with pref := p } true = p * Obj2.globalExt { o with pref := 1 } true) ∧
    (p < 0 → Obj2.globalExt { o with pref := p } false = p * Obj2.globalExt { o with pref := 1 } true ∧
             Obj2.globalExt { o with pref := p } true = p * Obj2.globalExt { o with pref := 1 } false) := by
  have hle := listMin_le_listMax ((o.f.toList.map Array.toList).flatten) 0
  obtain ⟨q1, q2⟩ := scaled_extrema p _ _ hle
  obtain ⟨r1, _⟩ := scaled_extrema 1 _ _ hle
  obtain ⟨e1, e2⟩ := r1 (by norm_num)
  unfold Obj2.globalExt
  simp only [Bool.false_eq_true, if_false, if_true]
  constructor
  · intro hp
    obtain ⟨a1, a2⟩ := q1 hp
    exact ⟨by rw [a1, e1, one_mul], by rw [a2, e2, one_mul]⟩
  · intro hp
    obtain ⟨a1, a2⟩ := q2 hp
    exact ⟨by rw [a1, e2, one_mul], by rw [a2, e1, one_mul]⟩

end Lp.C08

namespace Lp.C08
open Lp Lp.Interp Lp.C09

/-! ## Non-vacuity (with one concrete square-root function; the tables below never call it) -/

/-- a square-root function for the examples -/
@[reducible] def exampleSqrt : SqrtFn := ⟨fun _ => 0⟩
attribute [local instance] exampleSqrt

/-- on the straight-line table `sqrt` is never called (`A = 0` on both pieces), so `SqrtOk` holds for every square-root function -/
theorem lin_sqrtOk (j : Nat) (hj : j < 2) : SqrtOk lin j := by
  intro hA
  exfalso; apply hA
  rcases j with _ | _ | j
  · decide +kernel
  · decide +kernel
  · omega

/-- the audit's table `x = 0,1,2`, `y = 0,1,3.98` (defect 16): the edge piece is the parabola `0.99 t² + 0.01 t`, it turns at
    `t = −1/198` inside the 1 % zone -/
def aud : Obj := { N := 3, xs := #[0, 1, 2], ys := #[0, 1, 199 / 50], pref := 1, st := ⟨0, false⟩ }

theorem aud_tbl : Tbl aud :=
  ⟨by decide, fun i j hij hj => by
    have : j < 3 := hj
    rcases j with _ | _ | _ | j <;> rcases i with _ | _ | _ | i <;> first | omega | decide +kernel⟩

/-- `Local_Minimum(−0.009, 0.5)` is the stationary value `−1/39600 = −2.52525e-5` (before fix 51ca844: `−9.81e-6`) and bounds
    `Interpolate(−0.00505) = −2.525e-5`; `sqrt` is not called (`A = 0`) -/
example : pLocalExt aud false (-9 / 1000) (1 / 2) = .ok (-1 / 39600) ∧ pLocalExt aud true (-9 / 1000) (1 / 2) = .ok (101 / 400) ∧
    pInterp aud (-101 / 20000) = .ok (-1010101 / 40000000000) := by decide +kernel

example : (-1 / 39600 : Rat) ≤ -1010101 / 40000000000 ∧ (-1010101 / 40000000000 : Rat) ≤ 101 / 400 :=
  localExt_curve_zone aud aud_tbl (-9 / 1000) (1 / 2) (-101 / 20000) (-1 / 39600) (101 / 400) (-1010101 / 40000000000)
    (by decide +kernel) (by decide +kernel)
    (fun _ hA => absurd (by decide +kernel : (3 * coefA aud.N aud.x aud.y 0) = 0) hA) (fun h => absurd h (by decide +kernel))
    (by decide +kernel) (by decide +kernel) (by decide +kernel)


example : Tbl Lp.C09.demo := (Lp.C09.mk_WF _ _ _ _ _ Lp.C09.demo_mk).tbl
example : (0 : Rat) ∈ Lp.C09.demo.ys.toList := by decide

/-- `localExt_curve`, `localExt_attained`, `integ_bounds` on the table `x = 0..4`, `y = 0,1,0,2,0`: all hypotheses
    hold for the limits `1/2, 5/2` (three pieces apart); the minimum is the knot value at `x_2` — the knot the
    code skipped before fix 6f59f09 -/
example : Lp.C09.demo.x 0 ≤ 1 / 2 ∧ (5 / 2 : Rat) ≤ Lp.C09.demo.x (Lp.C09.demo.N - 1) ∧
    pLocalExt Lp.C09.demo false (1 / 2) (5 / 2) = .ok 0 ∧ pLocalExt Lp.C09.demo true (1 / 2) (5 / 2) = .ok 1 ∧
    pInterp Lp.C09.demo (3 / 2) = .ok (1 / 2) ∧ pInteg Lp.C09.demo (1 / 2) (5 / 2) = .ok (55 / 48) := by decide +kernel

example : (0 : Rat) ≤ 1 / 2 ∧ (1 / 2 : Rat) ≤ 1 :=
  localExt_curve Lp.C09.demo (Lp.C09.mk_WF _ _ _ _ _ Lp.C09.demo_mk).tbl (1 / 2) (5 / 2) (3 / 2) 0 1 (1 / 2)
    (by decide +kernel) (by decide +kernel) (by decide +kernel) (by decide +kernel) (by decide +kernel)
    (by decide +kernel) (by decide +kernel)

example : (0 : Rat) * (5 / 2 - 1 / 2) ≤ 55 / 48 ∧ (55 / 48 : Rat) ≤ 1 * (5 / 2 - 1 / 2) :=
  integ_bounds Lp.C09.demo (Lp.C09.mk_WF _ _ _ _ _ Lp.C09.demo_mk).tbl (1 / 2) (5 / 2) 0 1 (55 / 48)
    (by decide +kernel) (by decide +kernel) (by decide +kernel) (by decide +kernel) (by decide +kernel)

/-- `localExt_curve_piece` at the knot `w = x_2 = 2` with the non-canonical piece `j = 1` -/
example : (0 : Rat) ≤ Lp.C09.demo.cubicAt 1 2 ∧ Lp.C09.demo.cubicAt 1 2 ≤ 1 :=
  localExt_curve_piece Lp.C09.demo (Lp.C09.mk_WF _ _ _ _ _ Lp.C09.demo_mk).tbl (1 / 2) (5 / 2) 2 0 1 1
    (by decide +kernel) (by decide +kernel) (by decide +kernel) (by decide +kernel) (by decide +kernel)
    (fun h => absurd h (by decide +kernel)) (fun h => absurd h (by decide +kernel)) (by decide +kernel) (by decide +kernel)

example : ∃ w, (1 / 2 : Rat) ≤ w ∧ w ≤ 5 / 2 ∧ pInterp Lp.C09.demo w = .ok 0 ∧ (w = 1 / 2 ∨ w = 5 / 2 ∨ (∃ k, k < Lp.C09.demo.N ∧ w = Lp.C09.demo.x k) ∨ ((1 / 2 : Rat) < w ∧ w < Lp.C09.demo.x 0) ∨
      (Lp.C09.demo.x (Lp.C09.demo.N - 1) < w ∧ w < 5 / 2)) :=
  localExt_attained Lp.C09.demo (Lp.C09.mk_WF _ _ _ _ _ Lp.C09.demo_mk).tbl false (1 / 2) (5 / 2) 0 (by decide +kernel)

/-- `monoOn_of_deriv_sign`: the reported derivative of the straight-line table is `1` everywhere -/
example : ∀ u : Rat, -1 / 200 ≤ u → u ≤ lin.x 0 → 0 ≤ Lp.C01.cubicD1 lin.N lin.x lin.y 0 u := fun u _ _ => by
  have := (Lp.C01.steffen_linear_exact (N := 3) (x := lin.x) (y := lin.y) (by decide) (strictInc_of_tbl lin_tbl) (m := 1) (q := 0)
    (fun i hi => by
      rcases i with _ | _ | _ | i
      · decide +kernel
      · decide +kernel
      · decide +kernel
      · omega) (j := 0) (by decide) u).2.1
  show 0 ≤ Lp.C01.cubicD1 3 lin.x lin.y 0 u
  rw [this]; norm_num

/-- the `_zone` statements: straight-line table `x = y = 0,1,2`, prefactor `-2`, both limits in the 1 % zones;
    the edge cubics are monotone there (`lin_mono`), the results are the two end values -/
example : (-1 / 200 : Rat) < lin.x 0 ∧ lin.x (lin.N - 1) < (401 / 200 : Rat) ∧
    SqrtOk lin 0 ∧ SqrtOk lin (lin.N - 2) ∧
    pLocalExt lin false (-1 / 200) (401 / 200) = .ok (-401 / 100) ∧ pLocalExt lin true (-1 / 200) (401 / 200) = .ok (1 / 100) ∧
    pInterp lin (-1 / 400) = .ok (1 / 200) ∧ pInteg lin (-1 / 200) (401 / 200) = .ok (-201 / 50) :=
  ⟨by decide +kernel, by decide +kernel, lin_sqrtOk 0 (by decide), lin_sqrtOk 1 (by decide),
   by decide +kernel, by decide +kernel, by decide +kernel, by decide +kernel⟩

example : (-401 / 100 : Rat) ≤ 1 / 200 ∧ (1 / 200 : Rat) ≤ 1 / 100 :=
  localExt_curve_zone lin lin_tbl (-1 / 200) (401 / 200) (-1 / 400) (-401 / 100) (1 / 100) (1 / 200)
    (by decide +kernel) (by decide +kernel) (fun _ => lin_sqrtOk 0 (by decide)) (fun _ => lin_sqrtOk 1 (by decide))
    (by decide +kernel) (by decide +kernel) (by decide +kernel)

example : (-401 / 100 : Rat) * (401 / 200 - -1 / 200) ≤ -201 / 50 ∧ (-201 / 50 : Rat) ≤ 1 / 100 * (401 / 200 - -1 / 200) :=
  integ_bounds_zone lin lin_tbl (-1 / 200) (401 / 200) (-401 / 100) (1 / 100) (-201 / 50)
    (fun _ => lin_sqrtOk 0 (by decide)) (fun _ => lin_sqrtOk 1 (by decide))
    (by decide +kernel) (by decide +kernel) (by decide +kernel)

end Lp.C08
