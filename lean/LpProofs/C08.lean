/-
  C08 — interpolation integrals and extrema are those of the interpolated curve.
  Property theorems about `Integrate`, `Local_Minimum/Maximum`, `Global_Minimum/Maximum`
  (1-D, 2-D) and `Set_Prefactor`/`Multiply` of the model `Lp.Interp` (src/Numerics.cpp §1, after
  fixes 6f59f09 and ede24b1).  The pure forms `pInteg`, `pLocalExt`, … are the values the
  stateful calls return from every admissible search state (`Lp.C09.step_spec`).
  Helper lemmas: `LpProofs/C08/Basic.lean`, `LpProofs/C08/Additive.lean`.
-/
import LpProofs.C08.Additive
import LpProofs.C09
import Mathlib.Tactic.LinearCombination
namespace Lp.C08
open Lp Lp.Interp Lp.C09

/-! ## [T1] The stem function is *the* antiderivative of the returned cubic -/

/-- `integ_segment`: within one segment the stem-function difference equals Simpson's rule, which is
    exact on cubics — i.e. it is the exact integral of the cubic `segEval a b c d (· − x_j)`. -/
theorem integ_segment (a b c d xj A B : Rat) :
    segStem a b c d xj B - segStem a b c d xj A =
      (B - A) * (segEval a b c d (A - xj) + 4 * segEval a b c d ((A + B) / 2 - xj) + segEval a b c d (B - xj)) / 6 := by
  unfold segStem segEval; ring

/-- `integ_deriv_upper`: difference-quotient identity.  The increment of the stem function is
    `δ·P(X)` plus `δ²` times a polynomial, so its derivative w.r.t. the upper limit is `P(X)`,
    the value `Interpolate` returns (and the higher terms are `Derivative(·,1..3)`). -/
theorem integ_deriv_upper (a b c d xj X δ : Rat) :
    segStem a b c d xj (X + δ) - segStem a b c d xj X =
      δ * segEval a b c d (X - xj) +
        δ ^ 2 * (segD1 a b c (X - xj) / 2 + segD2 a b (X - xj) * δ / 6 + segD3 a * δ ^ 2 / 24) := by
  unfold segStem segEval segD1 segD2 segD3; ring

/-- object level: limits with the same index — `Integrate` is `(hi−lo)/6·(f(lo)+4f(mid)+f(hi))`
    with `f` the cubic `Interpolate` evaluates on that segment -/
theorem integ_one_segment (o : Obj) (lo hi : Rat) (i : Nat) (hle : ¬ lo > hi)
    (h1 : locateCanon o.N o.x lo = .ok i) (h2 : locateCanon o.N o.x hi = .ok i) :
    pInteg o lo hi = .ok ((hi - lo) * (o.cubicAt i lo + 4 * o.cubicAt i ((lo + hi) / 2) + o.cubicAt i hi) / 6) := by
  unfold pInteg pIntegCore
  simp only [hle, if_false, h1, h2, Nat.sub_self]
  rw [segSum_eq, Nat.add_zero]
  unfold antiAt stemAt Obj.cubicAt
  have := integ_segment (coefA o.N o.x o.y i) (coefB o.N o.x o.y i) (coefC o.N o.x o.y i) (coefD o.y i) (o.x i) lo hi
  congr 1
  linear_combination o.pref * this

/-! ## [T1] additivity and antisymmetry (any number of segments and knots, any order of the limits) -/

/-- `Integrate(a,b)` is the difference of one antiderivative `anti o`, for all limits in the domain -/
theorem integ_antiderivative (o : Obj) (t : Tbl o) (a b : Rat)
    (ha : o.x 0 ≤ a ∧ a ≤ o.x (o.N - 1)) (hb : o.x 0 ≤ b ∧ b ≤ o.x (o.N - 1)) :
    pInteg o a b = .ok (anti o b - anti o a) := pInteg_eq_anti o t a b ha hb

theorem integ_additive (o : Obj) (t : Tbl o) (a b c : Rat)
    (ha : o.x 0 ≤ a ∧ a ≤ o.x (o.N - 1)) (hb : o.x 0 ≤ b ∧ b ≤ o.x (o.N - 1)) (hc : o.x 0 ≤ c ∧ c ≤ o.x (o.N - 1)) :
    ∃ iab ibc iac, pInteg o a b = .ok iab ∧ pInteg o b c = .ok ibc ∧ pInteg o a c = .ok iac ∧ iab + ibc = iac :=
  ⟨_, _, _, pInteg_eq_anti o t a b ha hb, pInteg_eq_anti o t b c hb hc, pInteg_eq_anti o t a c ha hc, by ring⟩

theorem integ_antisymm (o : Obj) (t : Tbl o) (a b : Rat)
    (ha : o.x 0 ≤ a ∧ a ≤ o.x (o.N - 1)) (hb : o.x 0 ≤ b ∧ b ≤ o.x (o.N - 1)) :
    ∃ iab iba, pInteg o a b = .ok iab ∧ pInteg o b a = .ok iba ∧ iba = -iab :=
  ⟨_, _, pInteg_eq_anti o t a b ha hb, pInteg_eq_anti o t b a hb ha, by ring⟩

/-- antisymmetry needs no table hypothesis when the limits differ: the code negates the same sum -/
theorem integ_antisymm_any (o : Obj) (a b : Rat) (hne : a ≠ b) :
    pInteg o b a = (pInteg o a b).map (fun v => -v) := by
  unfold pInteg
  rcases lt_or_gt_of_ne hne with h | h
  · have h1 : b > a := h
    have h2 : ¬ a > b := not_lt.mpr (le_of_lt h)
    simp only [h1, h2, if_true, if_false]
    unfold pIntegCore
    cases locateCanon o.N o.x a with
    | error e => rfl
    | ok i1 =>
      cases locateCanon o.N o.x b with
      | error e => rfl
      | ok i2 => simp only [Except.map]; congr 1; ring
  · have h1 : a > b := h
    have h2 : ¬ b > a := not_lt.mpr (le_of_lt h)
    simp only [h1, h2, if_true, if_false]
    unfold pIntegCore
    cases locateCanon o.N o.x b with
    | error e => rfl
    | ok i1 =>
      cases locateCanon o.N o.x a with
      | error e => rfl
      | ok i2 => simp only [Except.map]; congr 1; ring

/-! ## [T1] extrema -/

/-- the knot `k` of the candidate range is a member of `knotValues first last` -/
theorem knot_mem (o : Obj) (first last k : Nat) (h1 : first ≤ k) (h2 : k ≤ last) :
    o.y k ∈ o.knotValues first last := by
  unfold Obj.knotValues
  refine List.mem_map.mpr ⟨k - first, List.mem_range.mpr (by omega), ?_⟩
  congr 1; omega

/-- `Local_Minimum` is a lower bound of, `Local_Maximum` an upper bound of, every candidate: the two
    end values and the curve value `pref·y_k` at every knot `first ≤ k ≤ last` -/
theorem localExt_candidates (o : Obj) (v1 v2 fl fr : Rat) (i1 i2 : Nat) :
    extVal o false v1 v2 fl fr i1 i2 ≤ fl ∧ extVal o false v1 v2 fl fr i1 i2 ≤ fr ∧
    fl ≤ extVal o true v1 v2 fl fr i1 i2 ∧ fr ≤ extVal o true v1 v2 fl fr i1 i2 ∧
    ∀ k, (if v1 < o.x 0 ∧ v2 ≥ o.x 0 then i1 else i1 + 1) ≤ k → k ≤ (if v2 > o.x (o.N - 1) ∧ v1 ≤ o.x (o.N - 1) then i2 + 1 else i2) →
      extVal o false v1 v2 fl fr i1 i2 ≤ o.pref * o.y k ∧ o.pref * o.y k ≤ extVal o true v1 v2 fl fr i1 i2 := by
  unfold extVal
  simp only
  generalize (if v1 < o.x 0 ∧ v2 ≥ o.x 0 then i1 else i1 + 1) = first
  generalize (if v2 > o.x (o.N - 1) ∧ v1 ≤ o.x (o.N - 1) then i2 + 1 else i2) = last
  by_cases h : first > last
  · simp only [h, if_true, Bool.false_eq_true, if_false]
    exact ⟨rmin_le_left _ _, rmin_le_right _ _, le_rmax_left _ _, le_rmax_right _ _, fun k a b => by omega⟩
  · simp only [h, if_false, if_true, Bool.false_eq_true]
    refine ⟨le_trans (rmin_le_left _ _) (le_trans (rmin_le_left _ _) (rmin_le_left _ _)), rmin_le_right _ _,
      le_trans (le_trans (le_rmax_left _ _) (le_rmax_left _ _)) (le_rmax_left _ _), le_rmax_right _ _, fun k a b => ?_⟩
    have hm := knot_mem o first last k a b
    obtain ⟨s1, s2⟩ := scaled_between o.pref _ _ (o.y k) (listMin_le _ 0 _ hm) (le_listMax _ 0 _ hm)
    constructor
    · refine le_trans ?_ s1
      apply le_rmin
      · exact le_trans (rmin_le_left _ _) (le_trans (rmin_le_left _ _) (rmin_le_right _ _))
      · exact le_trans (rmin_le_left _ _) (rmin_le_right _ _)
    · refine le_trans s2 ?_
      apply rmax_le
      · exact le_trans (le_trans (le_rmax_right _ _) (le_rmax_left _ _)) (le_rmax_left _ _)
      · exact le_trans (le_rmax_right _ _) (le_rmax_left _ _)

/-- `localMin_is_min`, full statement: for limits inside the domain, every value of the curve on
    `[x1,x2]` lies between `Local_Minimum` and `Local_Maximum`.  It follows from
    `localExt_candidates` and C01's `interp_monotone_on_segment` / `seg_left` / `seg_right` (each cubic
    piece is monotone and takes the knot values at its ends); the composition with C01's theorems
    is not carried out here (`localExt_candidates` is the part that concerns this mechanism; the
    dense-sampling oracle of the correspondence run checks the composed statement on the code). -/
def localExt_curve_FULL : Prop :=
  ∀ (o : Obj), Tbl o → ∀ (v1 v2 v mn mx fv : Rat), o.x 0 ≤ v1 → v1 ≤ v → v ≤ v2 → v2 ≤ o.x (o.N - 1) →
    pLocalExt o false v1 v2 = .ok mn → pLocalExt o true v1 v2 = .ok mx → pInterp o v = .ok fv →
    mn ≤ fv ∧ fv ≤ mx

/-- `Global_Minimum ≤ pref·y ≤ Global_Maximum` for every tabulated ordinate, for either sign of the
    prefactor (by C01 every evaluation lies between neighbouring ordinates, hence inside too) -/
theorem global_bounds (o : Obj) (v : Rat) (hv : v ∈ o.ys.toList) :
    o.globalExt false ≤ o.pref * v ∧ o.pref * v ≤ o.globalExt true := by
  unfold Obj.globalExt
  simp only [Bool.false_eq_true, if_false, if_true]
  exact scaled_between o.pref _ _ v (listMin_le _ 0 _ hv) (le_listMax _ 0 _ hv)

theorem global_bounds_2D (o : Obj2) (v : Rat) (hv : v ∈ (o.f.toList.map Array.toList).flatten) :
    o.globalExt false ≤ o.pref * v ∧ o.pref * v ≤ o.globalExt true := by
  unfold Obj2.globalExt
  simp only [Bool.false_eq_true, if_false, if_true]
  exact scaled_between o.pref _ _ v (listMin_le _ 0 _ hv) (le_listMax _ 0 _ hv)

/-- the global extrema are attained at a tabulated ordinate (non-empty table) -/
theorem global_attained (o : Obj) (a : Rat) (t : List Rat) (h : o.ys.toList = a :: t) :
    (∃ v ∈ o.ys.toList, o.globalExt false = o.pref * v) ∧ (∃ v ∈ o.ys.toList, o.globalExt true = o.pref * v) := by
  unfold Obj.globalExt
  simp only [Bool.false_eq_true, if_false, if_true]
  rw [h]
  constructor
  · rcases rmin_mem (o.pref * listMin (a :: t) 0) (o.pref * listMax (a :: t) 0) with e | e
    · exact ⟨_, listMin_mem a t 0, e⟩
    · exact ⟨_, listMax_mem a t 0, e⟩
  · rcases rmax_mem (o.pref * listMin (a :: t) 0) (o.pref * listMax (a :: t) 0) with e | e
    · exact ⟨_, listMin_mem a t 0, e⟩
    · exact ⟨_, listMax_mem a t 0, e⟩

/-! ## [T1] `prefactor_scaling` -/

/-- after any sequence of `Set_Prefactor`/`Multiply` the factor is `prefAfter` (`Lp.C09.run_spec`);
    `Interpolate` and `Derivative` scale by it (`Lp.C09.prefactor_only_interp/_deriv`), and so does `Integrate`: -/
theorem segSum_pref (o : Obj) (p : Rat) (i1 n : Nat) (lo hi : Rat) :
    segSum { o with pref := p } i1 n lo hi = p * segSum { o with pref := 1 } i1 n lo hi := by
  rw [segSum_eq, segSum_eq, antiAt_pref o p (i1 + n) hi, antiAt_pref o p i1 lo]
  ring

theorem prefactor_scaling_integ (o : Obj) (p : Rat) (a b : Rat) :
    pInteg { o with pref := p } a b = (pInteg { o with pref := 1 } a b).map (p * ·) := by
  unfold pInteg pIntegCore
  show (if a > b then
      (match locateCanon o.N o.x b with
      | .error e => .error e
      | .ok i1 => match locateCanon o.N o.x a with
        | .error e => .error e
        | .ok i2 => Except.ok (-1 * segSum { o with pref := p } i1 (i2 - i1) b a))
    else
      (match locateCanon o.N o.x a with
      | .error e => .error e
      | .ok i1 => match locateCanon o.N o.x b with
        | .error e => .error e
        | .ok i2 => Except.ok (1 * segSum { o with pref := p } i1 (i2 - i1) a b))) =
    Except.map (p * ·) (if a > b then
      (match locateCanon o.N o.x b with
      | .error e => .error e
      | .ok i1 => match locateCanon o.N o.x a with
        | .error e => .error e
        | .ok i2 => Except.ok (-1 * segSum { o with pref := 1 } i1 (i2 - i1) b a))
    else
      (match locateCanon o.N o.x a with
      | .error e => .error e
      | .ok i1 => match locateCanon o.N o.x b with
        | .error e => .error e
        | .ok i2 => Except.ok (1 * segSum { o with pref := 1 } i1 (i2 - i1) a b)))
  by_cases h : a > b
  · simp only [h, if_true]
    cases locateCanon o.N o.x b with
    | error e => rfl
    | ok i1 =>
      cases locateCanon o.N o.x a with
      | error e => rfl
      | ok i2 => simp only [Except.map]; rw [segSum_pref]; congr 1; ring
  · simp only [h, if_false]
    cases locateCanon o.N o.x a with
    | error e => rfl
    | ok i1 =>
      cases locateCanon o.N o.x b with
      | error e => rfl
      | ok i2 => simp only [Except.map]; rw [segSum_pref]; congr 1; ring

/-- global extrema scale by the factor and swap for a negative one (1-D) -/
theorem prefactor_scaling_global (o : Obj) (p : Rat) :
    (0 ≤ p → Obj.globalExt { o with pref := p } false = p * Obj.globalExt { o with pref := 1 } false ∧
             Obj.globalExt { o with pref := p } true = p * Obj.globalExt { o with pref := 1 } true) ∧
    (p < 0 → Obj.globalExt { o with pref := p } false = p * Obj.globalExt { o with pref := 1 } true ∧
             Obj.globalExt { o with pref := p } true = p * Obj.globalExt { o with pref := 1 } false) := by
  have hle := listMin_le_listMax o.ys.toList 0
  obtain ⟨q1, q2⟩ := scaled_extrema p _ _ hle
  obtain ⟨r1, _⟩ := scaled_extrema 1 _ _ hle
  obtain ⟨e1, e2⟩ := r1 (by norm_num)
  unfold Obj.globalExt
  simp only [Bool.false_eq_true, if_false, if_true]
  constructor
  · intro hp
    obtain ⟨a1, a2⟩ := q1 hp
    exact ⟨by rw [a1, e1, one_mul], by rw [a2, e2, one_mul]⟩
  · intro hp
    obtain ⟨a1, a2⟩ := q2 hp
    exact ⟨by rw [a1, e2, one_mul], by rw [a2, e1, one_mul]⟩

/-- … and for the 2-D object -/
theorem prefactor_scaling_global_2D (o : Obj2) (p : Rat) :
    (0 ≤ p → Obj2.globalExt { o with pref := p } false = p * Obj2.globalExt { o with pref := 1 } false ∧
             Obj2.globalExt { o with pref := p } true = p * Obj2.globalExt { o with pref := 1 } true) ∧
    (p < 0 → Obj2.globalExt { o with pref := p } false = p * Obj2.globalExt { o with pref := 1 } true ∧
             Obj2.globalExt { o with pref := p } true = p * Obj2.globalExt { o with pref := 1 } false) := by
  have hle := listMin_le_listMax ((o.f.toList.map Array.toList).flatten) 0
  obtain ⟨q1, q2⟩ := scaled_extrema p _ _ hle
  obtain ⟨r1, _⟩ := scaled_extrema 1 _ _ hle
  obtain ⟨e1, e2⟩ := r1 (by norm_num)
  unfold Obj2.globalExt
  simp only [Bool.false_eq_true, if_false, if_true]
  constructor
  · intro hp
    obtain ⟨a1, a2⟩ := q1 hp
    exact ⟨by rw [a1, e1, one_mul], by rw [a2, e2, one_mul]⟩
  · intro hp
    obtain ⟨a1, a2⟩ := q2 hp
    exact ⟨by rw [a1, e2, one_mul], by rw [a2, e1, one_mul]⟩

/-! ## Non-vacuity -/

example : Tbl Lp.C09.demo := (Lp.C09.mk_WF _ _ _ _ _ Lp.C09.demo_mk).tbl
example : (0 : Rat) ∈ Lp.C09.demo.ys.toList := by decide

end Lp.C08
