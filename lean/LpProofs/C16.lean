import LpModel.C16
namespace Lp.C16
theorem rotation2_def (c s : Rat) : rotation2 c s = ⟨c, -s, s, c⟩ := rfl
end Lp.C16
