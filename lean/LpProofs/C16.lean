/-
  C16 — property theorems: rotations and spherical coordinates are geometrically correct for
  every axis.  Exact rationals; `cos/sin` enter as pairs with `c*c + s*s = 1`, `sqrt` as a
  function `sq` with `SqAt sq y` (`sq y * sq y = y` and `0 ≤ sq y`) at the arguments used — hypotheses,
  never axioms.  Helper lemmas: `LpProofs/C16/Lemmas.lean`.
-/
import LpModel.C16
import LpProofs.C16.Lemmas
import Mathlib.Tactic.Ring
import Mathlib.Tactic.LinearCombination
import Mathlib.Tactic.Linarith
import Mathlib.Tactic.FieldSimp
import Mathlib.Tactic.NormNum
namespace Lp.C16

-- the coded `Vector::Norm()` (frexp/ldexp scaling) is never unfolded here: the theorems use it through `NormAt`
attribute [local irreducible] norm3

/-! ## 3-D rotations about a unit axis (`rotation3 c s n`, the entries as coded) -/

/-- `RᵀR = 1` -/
theorem rot_orthogonal (c s : Rat) (n : V3) (hc : c * c + s * s = 1) (hn : n.dot n = 1) :
    (rotation3 c s n).transpose.mul (rotation3 c s n) = M3.one := by
  obtain ⟨n1, n2, n3⟩ := n
  simp only [V3.dot] at hn
  ext <;> simp only [rotation3, M3.transpose, M3.mul, M3.one, M3.col1, M3.col2, M3.col3, V3.dot]
  · linear_combination (c^2*n1^2 - c^2 - 2*c*n1^2 + n1^2 + 1) * hn + (n2^2 + n3^2) * hc
  · linear_combination (c^2*n1*n2 - 2*c*n1*n2 + n1*n2) * hn + (-n1*n2) * hc
  · linear_combination (c^2*n1*n3 - 2*c*n1*n3 + n1*n3) * hn + (-n1*n3) * hc
  · linear_combination (c^2*n1*n2 - 2*c*n1*n2 + n1*n2) * hn + (-n1*n2) * hc
  · linear_combination (c^2*n2^2 - 2*c*n2^2 + n2^2 + s^2) * hn + (1 - n2^2) * hc
  · linear_combination (c^2*n2*n3 - 2*c*n2*n3 + n2*n3) * hn + (-n2*n3) * hc
  · linear_combination (c^2*n1*n3 - 2*c*n1*n3 + n1*n3) * hn + (-n1*n3) * hc
  · linear_combination (c^2*n2*n3 - 2*c*n2*n3 + n2*n3) * hn + (-n2*n3) * hc
  · linear_combination (c^2*n3^2 - 2*c*n3^2 + n3^2 + s^2) * hn + (1 - n3^2) * hc

/-- `R Rᵀ = 1` as well (the transpose is a two-sided inverse) -/
theorem rot_orthogonal' (c s : Rat) (n : V3) (hc : c * c + s * s = 1) (hn : n.dot n = 1) :
    (rotation3 c s n).mul (rotation3 c s n).transpose = M3.one := by
  -- the transpose of R(c,s) is R(c,-s)
  have ht : (rotation3 c s n).transpose = rotation3 c (-s) n := by
    obtain ⟨n1, n2, n3⟩ := n
    ext <;> simp only [rotation3, M3.transpose, M3.col1, M3.col2, M3.col3] <;> ring
  have h := rot_orthogonal c (-s) n (by linear_combination hc) hn
  rw [← ht] at h
  have htt : (rotation3 c s n).transpose.transpose = rotation3 c s n := by
    ext <;> simp only [M3.transpose, M3.col1, M3.col2, M3.col3]
  rw [htt] at h
  exact h

/-- determinant one: a proper rotation, not a reflection -/
theorem rot_det_one (c s : Rat) (n : V3) (hc : c * c + s * s = 1) (hn : n.dot n = 1) :
    (rotation3 c s n).det = 1 := by
  obtain ⟨n1, n2, n3⟩ := n
  simp only [V3.dot] at hn
  simp only [rotation3, M3.det, V3.dot, V3.cross]
  linear_combination (-c^3 + c^2 - c*n1^2*s^2 - c*n2^2*s^2 - c*n3^2*s^2 + n1^2*s^2 + n2^2*s^2 + n3^2*s^2 + s^2) * hn + (1) * hc

/-- the axis is left fixed (for every pair `(c,s)`, even off the unit circle) -/
theorem rot_fixes_axis (c s : Rat) (n : V3) (hn : n.dot n = 1) :
    (rotation3 c s n).mulVec n = n := by
  obtain ⟨n1, n2, n3⟩ := n
  simp only [V3.dot] at hn
  ext <;> simp only [rotation3, M3.mulVec, V3.dot]
  · linear_combination (-c*n1 + n1) * hn
  · linear_combination (-c*n2 + n2) * hn
  · linear_combination (-c*n3 + n3) * hn

/-- a vector perpendicular to the axis is turned by the angle in the right-handed sense:
    `R v = cos α · v + sin α · (n × v)` -/
theorem rot_perp (c s : Rat) (n v : V3) (hv : n.dot v = 0) :
    (rotation3 c s n).mulVec v = V3.add (V3.smul c v) (V3.smul s (n.cross v)) := by
  obtain ⟨n1, n2, n3⟩ := n
  obtain ⟨v1, v2, v3⟩ := v
  simp only [V3.dot] at hv
  ext <;> simp only [rotation3, M3.mulVec, V3.dot, V3.add, V3.smul, V3.cross]
  · linear_combination (-c*n1 + n1) * hv
  · linear_combination (-c*n2 + n2) * hv
  · linear_combination (-c*n3 + n3) * hv

/-- rotations about the same axis compose by adding the angles
    (`cos(a+b) = c₁c₂ − s₁s₂`, `sin(a+b) = s₁c₂ + c₁s₂`) -/
theorem rot_compose (c1 s1 c2 s2 : Rat) (n : V3) (hn : n.dot n = 1) :
    (rotation3 c1 s1 n).mul (rotation3 c2 s2 n) = rotation3 (c1 * c2 - s1 * s2) (s1 * c2 + c1 * s2) n := by
  obtain ⟨n1, n2, n3⟩ := n
  simp only [V3.dot] at hn
  ext <;> simp only [rotation3, M3.mul, M3.col1, M3.col2, M3.col3, V3.dot]
  · linear_combination (c1*c2*n1^2 - c1*n1^2 - c2*n1^2 + n1^2 - s1*s2) * hn
  · linear_combination (c1*c2*n1*n2 - c1*n1*n2 - c2*n1*n2 + n1*n2) * hn
  · linear_combination (c1*c2*n1*n3 - c1*n1*n3 - c2*n1*n3 + n1*n3) * hn
  · linear_combination (c1*c2*n1*n2 - c1*n1*n2 - c2*n1*n2 + n1*n2) * hn
  · linear_combination (c1*c2*n2^2 - c1*n2^2 - c2*n2^2 + n2^2 - s1*s2) * hn
  · linear_combination (c1*c2*n2*n3 - c1*n2*n3 - c2*n2*n3 + n2*n3) * hn
  · linear_combination (c1*c2*n1*n3 - c1*n1*n3 - c2*n1*n3 + n1*n3) * hn
  · linear_combination (c1*c2*n2*n3 - c1*n2*n3 - c2*n2*n3 + n2*n3) * hn
  · linear_combination (c1*c2*n3^2 - c1*n3^2 - c2*n3^2 + n3^2 - s1*s2) * hn

/-- the zero angle is the identity -/
theorem rot_zero (n : V3) (hn : n.dot n = 1) : rotation3 1 0 n = M3.one := by
  obtain ⟨n1, n2, n3⟩ := n
  ext <;> simp only [rotation3, M3.one] <;> ring

/-- reversing the axis reverses the sense of rotation -/
theorem rot_neg_axis (c s : Rat) (n : V3) : rotation3 c s n.neg = rotation3 c (-s) n := by
  obtain ⟨n1, n2, n3⟩ := n
  ext <;> simp only [rotation3, V3.neg] <;> ring

-- non-vacuity: a 3-4-5 angle about the unit axis (2/3, -1/3, 2/3)
example : (3/5 : Rat) * (3/5) + (4/5) * (4/5) = 1 ∧ (⟨2/3, -1/3, 2/3⟩ : V3).dot ⟨2/3, -1/3, 2/3⟩ = 1 := by
  simp only [V3.dot]; constructor <;> norm_num
example : (⟨2/3, -1/3, 2/3⟩ : V3).dot ⟨1, 2, 0⟩ = 0 := by simp only [V3.dot]; norm_num

/-! ## 2-D rotations -/

theorem rot2_orthogonal (c s : Rat) (hc : c * c + s * s = 1) :
    (rotation2 c s).transpose.mul (rotation2 c s) = M2.one := by
  ext <;> simp only [rotation2, M2.transpose, M2.mul, M2.one]
  · linear_combination hc
  · ring
  · ring
  · linear_combination hc

theorem rot2_det_one (c s : Rat) (hc : c * c + s * s = 1) : (rotation2 c s).det = 1 := by
  simp only [rotation2, M2.det]; linear_combination hc

/-- counter-clockwise by the angle: `R e_x = (cos α, sin α)`, and in general
    `R v = cos α · v + sin α · v^⊥` with `v^⊥ = (−v_y, v_x)` -/
theorem rot2_turn (c s : Rat) (v : V2) :
    (rotation2 c s).mulVec v = ⟨c * v.x + s * (-v.y), c * v.y + s * v.x⟩ := by
  ext <;> simp only [rotation2, M2.mulVec] <;> ring

theorem rot2_compose (c1 s1 c2 s2 : Rat) :
    (rotation2 c1 s1).mul (rotation2 c2 s2) = rotation2 (c1 * c2 - s1 * s2) (s1 * c2 + c1 * s2) := by
  ext <;> simp only [rotation2, M2.mul] <;> ring

/-! ## Axes of any non-zero length: `Rotation_Matrix(alpha, 3, axis)` normalises first

`SqAt sq y` (Lemmas.lean): `sq y` is the non-negative square root of `y` — assumed only at the
arguments the code actually passes to `sqrt`. -/

/-- an axis of any non-zero length gives the matrix of its direction: scaling the axis by a
    positive factor changes nothing -/
theorem normalize_any_length {sq : Rat → Rat} (a : V3) (k : Rat) (hk : 0 < k)
    (h : NormAt sq a) (hk' : NormAt sq (V3.smul k a))
    (ha : a.dot a ≠ 0) : normalize3 sq (V3.smul k a) = normalize3 sq a := by
  have hN0 := norm3_ne_zero a h ha
  have hkN : norm3 sq (V3.smul k a) = k * norm3 sq a := by
    apply hk'.unique (mul_nonneg hk.le h.nonneg)
    have := norm3_mul_self a h
    simp only [V3.smul, V3.dot] at this ⊢
    linear_combination (k * k) * this
  have hk0 : k ≠ 0 := ne_of_gt hk
  ext <;> simp only [normalize3, V3.divs, hkN] <;> simp only [V3.smul] <;> field_simp

theorem rotationAxis_any_length {sq : Rat → Rat} (c s : Rat) (a : V3) (k : Rat) (hk : 0 < k)
    (h : NormAt sq a) (hk' : NormAt sq (V3.smul k a))
    (ha : a.dot a ≠ 0) : rotationAxis sq c s (V3.smul k a) = rotationAxis sq c s a := by
  have hka : (V3.smul k a).dot (V3.smul k a) ≠ 0 := by
    have : (V3.smul k a).dot (V3.smul k a) = k * k * a.dot a := by simp only [V3.smul, V3.dot]; ring
    rw [this]; exact mul_ne_zero (mul_ne_zero (ne_of_gt hk) (ne_of_gt hk)) ha
  simp only [rotationAxis, if_neg ha, if_neg hka, normalize_any_length a k hk h hk' ha]

/-- the whole statement for the entry point: for every non-zero axis (any length) and every
    angle the result exists, is proper orthogonal, fixes the axis and turns perpendicular
    vectors right-handedly about the axis direction. -/
theorem rotationAxis_proper {sq : Rat → Rat} (c s : Rat) (hc : c * c + s * s = 1)
    (a : V3) (h : NormAt sq a) (ha : a.dot a ≠ 0) :
    ∃ R, rotationAxis sq c s a = some R ∧
      R.transpose.mul R = M3.one ∧ R.mul R.transpose = M3.one ∧ R.det = 1 ∧ R.mulVec a = a ∧
      ∀ v, a.dot v = 0 → R.mulVec v = V3.add (V3.smul c v) (V3.smul s ((normalize3 sq a).cross v)) := by
  have hu := normalize3_unit a h ha
  refine ⟨rotation3 c s (normalize3 sq a), by simp only [rotationAxis, if_neg ha],
    rot_orthogonal c s _ hc hu, rot_orthogonal' c s _ hc hu, rot_det_one c s _ hc hu, ?_, ?_⟩
  · have hfix := rot_fixes_axis c s _ hu
    calc (rotation3 c s (normalize3 sq a)).mulVec a
        = (rotation3 c s (normalize3 sq a)).mulVec (V3.smul (norm3 sq a) (normalize3 sq a)) := by
          rw [smul_normalize3 a h ha]
      _ = a := by rw [mulVec_smul, hfix, smul_normalize3 a h ha]
  · intro v hv
    apply rot_perp
    have hN0 := norm3_ne_zero a h ha
    simp only [normalize3, V3.divs, V3.dot] at hv ⊢
    field_simp
    linear_combination hv

/-- composition for axes of any length -/
theorem rotationAxis_compose {sq : Rat → Rat} (c1 s1 c2 s2 : Rat) (a : V3) (h : NormAt sq a)
    (ha : a.dot a ≠ 0) :
    ∃ R1 R2 R12, rotationAxis sq c1 s1 a = some R1 ∧ rotationAxis sq c2 s2 a = some R2 ∧
      rotationAxis sq (c1 * c2 - s1 * s2) (s1 * c2 + c1 * s2) a = some R12 ∧ R1.mul R2 = R12 :=
  ⟨_, _, _, by simp only [rotationAxis, if_neg ha], by simp only [rotationAxis, if_neg ha],
    by simp only [rotationAxis, if_neg ha], rot_compose c1 s1 c2 s2 _ (normalize3_unit a h ha)⟩

-- non-vacuity: the axis (3,4,12) and its half have rational norms 13 and 13/2; the code hands
-- 169/256 (scaled by 2^-4) and 169/256 (scaled by 2^-3) to `sqrt`, which is exact there
example : ∃ sq : Rat → Rat, NormAt sq ⟨3, 4, 12⟩ ∧ NormAt sq (V3.smul (1/2) ⟨3, 4, 12⟩) ∧
    (⟨3, 4, 12⟩ : V3).dot ⟨3, 4, 12⟩ ≠ 0 :=
  ⟨fun y => if y = 169/256 then 13/16 else 0,
    ⟨by decide +kernel, by decide +kernel⟩, ⟨by decide +kernel, by decide +kernel⟩, by decide +kernel⟩
-- … and `NormAt` follows from exactness of the root at the one argument the code passes (8a680df value-neutral)
example : NormAt (fun y => if y = 169/256 then 13/16 else 0) ⟨3, 4, 12⟩ :=
  norm3_scaled_noop _ ⟨by decide +kernel, by decide +kernel⟩

/-- the guards of the entry point: only `dim = 2` and `dim = 3` with a 3-vector are accepted -/
theorem rotationMatrix_guard (sq : Rat → Rat) (c s : Rat) (dim : Int) (axis : List Rat) :
    (rotationMatrix sq c s dim axis = .err) ↔ (dim ≠ 2 ∧ (dim ≠ 3 ∨ axis.length ≠ 3)) := by
  unfold rotationMatrix
  by_cases h2 : dim = 2
  · simp [h2]
  · by_cases h3 : dim = 3
    · subst h3
      match axis with
      | [] => simp
      | [_] => simp
      | [_, _] => simp
      | [a, b, d] =>
        simp only [List.length_cons, List.length_nil]
        cases rotationAxis sq c s ⟨a, b, d⟩ <;> simp
      | _ :: _ :: _ :: _ :: _ => simp
    · simp [h2, h3]

/-! ## Spherical coordinates

`framePoint r ct st cp sp e1 e2 e = r·(ct·e + st·cp·e1 + st·sp·e2)` (Lemmas.lean) is the point at
distance `r`, polar angle θ from `e` and azimuth φ counted from `e1` towards `e2`.  For a
right-handed orthonormal frame (`IsRightFrame`: unit, mutually perpendicular, `e1 × e2 = e`)
increasing φ turns the point right-handedly about `e`. -/

/-- without an axis: the components as stated -/
theorem spherical_plain (r ct st cp sp : Rat) :
    spherical r ct st cp sp = ⟨r * st * cp, r * st * sp, r * ct⟩ := rfl

/-- norm of a frame point: `‖v‖² = r²` -/
theorem framePoint_norm {e1 e2 e : V3} (hF : IsRightFrame e1 e2 e) (r ct st cp sp : Rat)
    (ht : ct * ct + st * st = 1) (hp : cp * cp + sp * sp = 1) :
    (framePoint r ct st cp sp e1 e2 e).dot (framePoint r ct st cp sp e1 e2 e) = r * r := by
  have key : (framePoint r ct st cp sp e1 e2 e).dot (framePoint r ct st cp sp e1 e2 e)
      = r * r * (ct * ct * e.dot e + st * cp * (st * cp) * e1.dot e1 + st * sp * (st * sp) * e2.dot e2
          + 2 * ct * (st * cp) * e1.dot e + 2 * ct * (st * sp) * e2.dot e + 2 * (st * cp) * (st * sp) * e1.dot e2) := by
    simp only [framePoint, V3.smul, V3.add, V3.dot]; ring
  rw [key, hF.n1, hF.n2, hF.n3, hF.o12, hF.o13, hF.o23]
  linear_combination (r * r) * ht + (r * r * st * st) * hp

/-- polar angle from the axis: `v·e = r cos θ` (for every pair, on the unit circle or not) -/
theorem framePoint_polar {e1 e2 e : V3} (hF : IsRightFrame e1 e2 e) (r ct st cp sp : Rat) :
    (framePoint r ct st cp sp e1 e2 e).dot e = r * ct := by
  have key : (framePoint r ct st cp sp e1 e2 e).dot e
      = r * (ct * e.dot e + st * cp * e1.dot e + st * sp * e2.dot e) := by
    simp only [framePoint, V3.smul, V3.add, V3.dot]; ring
  rw [key, hF.n3, hF.o13, hF.o23]; ring

/-- … and the component perpendicular to the axis has length `r sin θ`: `‖v‖² − (v·e)² = r² sin²θ` -/
theorem framePoint_perp {e1 e2 e : V3} (hF : IsRightFrame e1 e2 e) (r ct st cp sp : Rat)
    (ht : ct * ct + st * st = 1) (hp : cp * cp + sp * sp = 1) :
    (framePoint r ct st cp sp e1 e2 e).dot (framePoint r ct st cp sp e1 e2 e)
      - (framePoint r ct st cp sp e1 e2 e).dot e * (framePoint r ct st cp sp e1 e2 e).dot e = r * r * (st * st) := by
  rw [framePoint_norm hF r ct st cp sp ht hp, framePoint_polar hF]
  linear_combination (-(r * r)) * ht

/-- increasing φ turns right-handedly about the axis:
    `(v(φ₁) × v(φ₂))·e = r² sin²θ · sin(φ₂ − φ₁)` with `sin(φ₂−φ₁) = s₂c₁ − c₂s₁` -/
theorem framePoint_phi_right_handed {e1 e2 e : V3} (hF : IsRightFrame e1 e2 e) (r ct st cp1 sp1 cp2 sp2 : Rat) :
    ((framePoint r ct st cp1 sp1 e1 e2 e).cross (framePoint r ct st cp2 sp2 e1 e2 e)).dot e
      = r * r * (st * st) * (sp2 * cp1 - cp2 * sp1) := by
  have key : ((framePoint r ct st cp1 sp1 e1 e2 e).cross (framePoint r ct st cp2 sp2 e1 e2 e)).dot e
      = r * r * (st * st) * (sp2 * cp1 - cp2 * sp1) * (e1.cross e2).dot e := by
    simp only [framePoint, V3.smul, V3.add, V3.dot, V3.cross]; ring
  rw [key, hF.rh, hF.n3]; ring

/-- what the general branch uses of `tx = ev_x/aux`, `ty = ev_y/aux` (ded1f77): it is a unit vector,
    `tx² + ty² = 1`, and `ev_x = aux·tx`, `ev_y = aux·ty` — whenever `aux` is the exact non-zero
    transverse length `hypot(ev_x, ev_y)`. -/
theorem transverse_unit (ex ey aux : Rat) (ha : aux * aux = ex * ex + ey * ey) (ha0 : aux ≠ 0) :
    ex / aux * (ex / aux) + ey / aux * (ey / aux) = 1 ∧ aux * (ex / aux) = ex ∧ aux * (ey / aux) = ey := by
  refine ⟨?_, by field_simp, by field_simp⟩
  field_simp
  linear_combination -ha

/-- the frame of the general branch is orthonormal and right-handed: `e₁ × e₂ = ê` -/
theorem spherical_frame_right_handed (ev : V3) (aux : Rat) (hev : ev.dot ev = 1)
    (ha : aux * aux = ev.x * ev.x + ev.y * ev.y) (ha0 : aux ≠ 0) :
    IsRightFrame (frameE1 ev aux) (frameE2 ev aux) ev := by
  obtain ⟨ex, ey, ez⟩ := ev
  simp only [V3.dot] at hev
  simp only at ha
  obtain ⟨ht, hx, hy⟩ := transverse_unit ex ey aux ha ha0
  simp only [frameE1, frameE2]
  generalize ex / aux = tx at ht hx ⊢
  generalize ey / aux = ty at ht hy ⊢
  constructor
  · simp only [V3.dot]; linear_combination (ez * ez) * ht + ha + hev
  · simp only [V3.dot]; linear_combination ht
  · simp only [V3.dot]; exact hev
  · simp only [V3.dot]; ring
  · simp only [V3.dot]; linear_combination (ez * aux) * ht - (tx * ez) * hx - (ty * ez) * hy
  · simp only [V3.dot]; linear_combination ty * hx - tx * hy
  · ext <;> simp only [V3.cross]
    · linear_combination hx
    · linear_combination hy
    · linear_combination ez * ht

theorem frame_plain : IsRightFrame ⟨1, 0, 0⟩ ⟨0, 1, 0⟩ ⟨0, 0, 1⟩ := by
  constructor <;> simp [V3.dot, V3.cross]

theorem frame_antiz : IsRightFrame ⟨-1, 0, 0⟩ ⟨0, 1, 0⟩ ⟨0, 0, -1⟩ := by
  constructor <;> simp [V3.dot, V3.cross]

theorem spherical_eq_framePoint (r ct st cp sp : Rat) :
    spherical r ct st cp sp = framePoint r ct st cp sp ⟨1, 0, 0⟩ ⟨0, 1, 0⟩ ⟨0, 0, 1⟩ := by
  ext <;> simp only [spherical, framePoint, V3.smul, V3.add] <;> ring

theorem sphericalFrame_eq_framePoint (r ct st cp sp : Rat) (ev : V3) (aux : Rat) :
    sphericalFrame r ct st cp sp ev aux = framePoint r ct st cp sp (frameE1 ev aux) (frameE2 ev aux) ev := by
  ext <;> simp only [sphericalFrame, framePoint, frameE1, frameE2, V3.smul, V3.add, div_eq_mul_inv] <;> ring

/-- `sphericalAxis` spelled out by branch (definitional) -/
theorem sphericalAxis_eq (sq : Rat → Rat) (r ct st cp sp : Rat) (axis : V3) :
    sphericalAxis sq r ct st cp sp axis =
      match sphericalBranch sq axis with
      | .plain => spherical r ct st cp sp
      | .antiz => ⟨-(spherical r ct st cp sp).x, (spherical r ct st cp sp).y, -(spherical r ct st cp sp).z⟩
      | .general => sphericalFrame r ct st cp sp (normalize3 sq axis)
          (hypot sq (normalize3 sq axis).x (normalize3 sq axis).y) := rfl

/-- **every non-zero axis, all three branches**: the result of
    `Spherical_Coordinates(r,θ,φ,axis)` is the frame point of a right-handed orthonormal frame
    `(e₁, e₂, ê)` whose third vector is the direction of the axis, and the frame depends on the
    axis only.  For `ê = +z` the frame is `(x, y, z)` (plain formula), for `ê = −z` it is
    `(−x, y, −z)`, otherwise the general frame with `aux ≠ 0`. -/
theorem sphericalAxis_spec {sq : Rat → Rat} (axis : V3) (hax : axis.dot axis ≠ 0)
    (h : NormAt sq axis)
    (h' : SqAt sq ((normalize3 sq axis).x * (normalize3 sq axis).x + (normalize3 sq axis).y * (normalize3 sq axis).y)) :
    ∃ e1 e2, IsRightFrame e1 e2 (normalize3 sq axis) ∧
      ∀ r ct st cp sp, sphericalAxis sq r ct st cp sp axis
        = framePoint r ct st cp sp e1 e2 (normalize3 sq axis) := by
  have hu := normalize3_unit axis h hax
  have hN0 := norm3_ne_zero axis h hax
  generalize hev : normalize3 sq axis = ev at hu h'
  obtain ⟨ex, ey, ez⟩ := ev
  simp only at h'
  have haux := h'.sq_mul
  simp only [V3.dot] at hu
  by_cases hz : sq (ex * ex + ey * ey) = 0
  · have hw0 : ex * ex + ey * ey = 0 := h'.eq_zero_iff.mp hz
    have hx : ex = 0 := by nlinarith [mul_self_nonneg ex, mul_self_nonneg ey]
    have hy : ey = 0 := by nlinarith [mul_self_nonneg ex, mul_self_nonneg ey]
    subst hx hy
    have hzz : (ez - 1) * (ez + 1) = 0 := by linear_combination hu
    by_cases hpos : ez > 0
    · have hz1 : ez = 1 := by
        rcases mul_eq_zero.mp hzz with h1 | h1 <;> linarith
      subst hz1
      refine ⟨⟨1, 0, 0⟩, ⟨0, 1, 0⟩, frame_plain, ?_⟩
      intro r ct st cp sp
      have hb : sphericalBranch sq axis = .plain := by
        simp only [sphericalBranch, hypot, hev]
        rw [if_pos (Or.inr ⟨hz, hpos⟩)]
      rw [sphericalAxis_eq, hb]; exact spherical_eq_framePoint r ct st cp sp
    · have hz1 : ez = -1 := by
        rcases mul_eq_zero.mp hzz with h1 | h1
        · exfalso; apply hpos; linarith
        · linarith
      subst hz1
      refine ⟨⟨-1, 0, 0⟩, ⟨0, 1, 0⟩, frame_antiz, ?_⟩
      intro r ct st cp sp
      have hb : sphericalBranch sq axis = .antiz := by
        simp only [sphericalBranch, hypot, hev]
        rw [if_neg (by rintro (h1 | ⟨_, h2⟩); exact hN0 h1; exact hpos h2), if_pos hz]
      rw [sphericalAxis_eq, hb]
      ext <;> simp only [spherical, framePoint, V3.smul, V3.add] <;> ring
  · refine ⟨frameE1 ⟨ex, ey, ez⟩ (sq (ex * ex + ey * ey)), frameE2 ⟨ex, ey, ez⟩ (sq (ex * ex + ey * ey)),
      spherical_frame_right_handed _ _ (by simpa [V3.dot] using hu) haux hz, ?_⟩
    intro r ct st cp sp
    have hb : sphericalBranch sq axis = .general := by
      simp only [sphericalBranch, hypot, hev]
      rw [if_neg (by rintro (h1 | ⟨h1, _⟩); exact hN0 h1; exact hz h1), if_neg hz]
    rw [sphericalAxis_eq, hb]
    simp only [hypot, hev, sphericalFrame_eq_framePoint]

/-- `‖v‖² = r²` for every non-zero axis (all branches) -/
theorem spherical_norm {sq : Rat → Rat} (axis : V3) (hax : axis.dot axis ≠ 0) (h : NormAt sq axis)
    (h' : SqAt sq ((normalize3 sq axis).x * (normalize3 sq axis).x + (normalize3 sq axis).y * (normalize3 sq axis).y))
    (r ct st cp sp : Rat) (ht : ct * ct + st * st = 1) (hp : cp * cp + sp * sp = 1) :
    (sphericalAxis sq r ct st cp sp axis).dot (sphericalAxis sq r ct st cp sp axis) = r * r := by
  obtain ⟨e1, e2, hF, hv⟩ := sphericalAxis_spec axis hax h h'
  rw [hv]; exact framePoint_norm hF r ct st cp sp ht hp

/-- polar angle θ from the axis direction `ê = axis/‖axis‖`: `v·ê = r cos θ` and
    `‖v‖² − (v·ê)² = r² sin² θ`, for every non-zero axis (all branches) -/
theorem spherical_polar {sq : Rat → Rat} (axis : V3) (hax : axis.dot axis ≠ 0) (h : NormAt sq axis)
    (h' : SqAt sq ((normalize3 sq axis).x * (normalize3 sq axis).x + (normalize3 sq axis).y * (normalize3 sq axis).y))
    (r ct st cp sp : Rat) (ht : ct * ct + st * st = 1) (hp : cp * cp + sp * sp = 1) :
    (sphericalAxis sq r ct st cp sp axis).dot (normalize3 sq axis) = r * ct ∧
    (sphericalAxis sq r ct st cp sp axis).dot (sphericalAxis sq r ct st cp sp axis)
      - (sphericalAxis sq r ct st cp sp axis).dot (normalize3 sq axis) * (sphericalAxis sq r ct st cp sp axis).dot (normalize3 sq axis)
      = r * r * (st * st) := by
  obtain ⟨e1, e2, hF, hv⟩ := sphericalAxis_spec axis hax h h'
  rw [hv]; exact ⟨framePoint_polar hF r ct st cp sp, framePoint_perp hF r ct st cp sp ht hp⟩

/-- increasing φ moves the point around the axis in the right-handed sense, for every non-zero
    axis (all branches): `(v(φ₁) × v(φ₂))·ê = r² sin²θ sin(φ₂−φ₁)` -/
theorem spherical_phi_right_handed {sq : Rat → Rat} (axis : V3) (hax : axis.dot axis ≠ 0) (h : NormAt sq axis)
    (h' : SqAt sq ((normalize3 sq axis).x * (normalize3 sq axis).x + (normalize3 sq axis).y * (normalize3 sq axis).y))
    (r ct st cp1 sp1 cp2 sp2 : Rat) :
    ((sphericalAxis sq r ct st cp1 sp1 axis).cross (sphericalAxis sq r ct st cp2 sp2 axis)).dot (normalize3 sq axis)
      = r * r * (st * st) * (sp2 * cp1 - cp2 * sp1) := by
  obtain ⟨e1, e2, hF, hv⟩ := sphericalAxis_spec axis hax h h'
  rw [hv, hv]; exact framePoint_phi_right_handed hF r ct st cp1 sp1 cp2 sp2

/-- the explicit branches: an axis along `+z` of any length `L > 0` gives the plain formula … -/
theorem spherical_axis_plus_z {sq : Rat → Rat} (L : Rat) (hL : 0 < L) (h : NormAt sq ⟨0, 0, L⟩) (h0 : SqAt sq 0)
    (r ct st cp sp : Rat) : sphericalAxis sq r ct st cp sp ⟨0, 0, L⟩ = spherical r ct st cp sp := by
  have hd : (⟨0, 0, L⟩ : V3).dot ⟨0, 0, L⟩ = L * L := by simp only [V3.dot]; ring
  have hn : norm3 sq ⟨0, 0, L⟩ = L := by
    exact h.unique hL.le hd.symm
  have hL0 : L ≠ 0 := ne_of_gt hL
  have hev : normalize3 sq ⟨0, 0, L⟩ = ⟨0, 0, 1⟩ := by
    ext <;> simp only [normalize3, V3.divs, hn]
    · exact zero_div L
    · exact zero_div L
    · exact div_self hL0
  have hb : sphericalBranch sq ⟨0, 0, L⟩ = .plain := by
    simp only [sphericalBranch, hypot, hev]
    rw [if_pos (Or.inr ⟨by norm_num; exact h0.eq_zero_iff.mpr rfl, by norm_num⟩)]
  rw [sphericalAxis_eq, hb]

/-- … and an axis along `−z` gives the frame `(−x, y, −z)` -/
theorem spherical_axis_minus_z {sq : Rat → Rat} (L : Rat) (hL : 0 < L) (h : NormAt sq ⟨0, 0, -L⟩) (h0 : SqAt sq 0)
    (r ct st cp sp : Rat) :
    sphericalAxis sq r ct st cp sp ⟨0, 0, -L⟩ = ⟨-(r * st * cp), r * st * sp, -(r * ct)⟩ := by
  have hd : (⟨0, 0, -L⟩ : V3).dot ⟨0, 0, -L⟩ = L * L := by simp only [V3.dot]; ring
  have hn : norm3 sq ⟨0, 0, -L⟩ = L := by
    exact h.unique hL.le hd.symm
  have hL0 : L ≠ 0 := ne_of_gt hL
  have hev : normalize3 sq ⟨0, 0, -L⟩ = ⟨0, 0, -1⟩ := by
    ext <;> simp only [normalize3, V3.divs, hn]
    · exact zero_div L
    · exact zero_div L
    · rw [neg_div, div_self hL0]
  have hb : sphericalBranch sq ⟨0, 0, -L⟩ = .antiz := by
    simp only [sphericalBranch, hypot, hev, hn]
    have hz : sq (0 * 0 + 0 * 0) = 0 := by norm_num; exact h0.eq_zero_iff.mpr rfl
    rw [if_neg (by rintro (h1 | ⟨_, h2⟩); exact hL0 h1; norm_num at h2), if_pos hz]
  rw [sphericalAxis_eq, hb]
  rfl

-- non-vacuity of the hypotheses of `sphericalAxis_spec` in the general branch: axis (3,4,12)
-- (norm 13, direction (3,4,12)/13, aux = 5/13)
example : ∃ sq : Rat → Rat, let a : V3 := ⟨3, 4, 12⟩
    a.dot a ≠ 0 ∧ NormAt sq a ∧
    SqAt sq ((normalize3 sq a).x * (normalize3 sq a).x + (normalize3 sq a).y * (normalize3 sq a).y) ∧
    sphericalBranch sq a = .general :=
  ⟨fun y => if y = 169/256 then 13/16 else 5/13, by decide +kernel, ⟨by decide +kernel, by decide +kernel⟩,
    ⟨by decide +kernel, by decide +kernel⟩, by decide +kernel⟩
-- … and of the explicit branches
example : ∃ sq : Rat → Rat, NormAt sq ⟨0, 0, 2⟩ ∧ NormAt sq ⟨0, 0, -2⟩ ∧ SqAt sq 0 :=
  ⟨fun y => if y = 0 then 0 else 1/2, ⟨by decide +kernel, by decide +kernel⟩, ⟨by decide +kernel, by decide +kernel⟩,
    ⟨by norm_num, by norm_num⟩⟩
example : IsRightFrame ⟨1, 0, 0⟩ ⟨0, 1, 0⟩ ⟨0, 0, 1⟩ := frame_plain

/-! ## The axis as an object with a history (class D) -/

theorem VecObj.ofList_wf (l : List Rat) : (VecObj.ofList l).WF := rfl
theorem VecObj.assign_wf (o : VecObj) (d : Nat) (e : Rat) : (o.assign d e).WF := by
  simp [VecObj.assign, VecObj.WF]
theorem VecObj.resize_wf (o : VecObj) (d : Nat) : (o.resize d).WF := by
  simp only [VecObj.resize, VecObj.WF, List.length_append, List.length_take, List.length_replicate]
  omega
theorem VecObj.set_wf (o : VecObj) (h : o.WF) (i : Nat) (x : Rat) : (o.set i x).WF := by
  unfold VecObj.set
  split
  · simpa [VecObj.WF] using h
  · exact h
theorem VecObj.copy_wf (o : VecObj) (h : o.WF) : o.copy.WF := h

/-- under the class invariant the storage is exactly what the class exposes -/
theorem VecObj.visible_eq_storage (o : VecObj) (h : o.WF) : o.visible = o.storage := by
  unfold VecObj.visible; rw [← h]; exact List.take_length

/-- **history independence of the norm**: `Norm()` (which runs over the storage) of two well-formed objects with
    the same visible components is the same — whatever their construction / Resize / Assign / copy history.
    The invariant is what makes it true (a shrinking `Resize` that keeps the storage breaks it, see the example). -/
theorem norm_history_independent (sq : Rat → Rat) (o1 o2 : VecObj) (h1 : o1.WF) (h2 : o2.WF)
    (hv : o1.visible = o2.visible) : o1.normCoded sq = o2.normCoded sq := by
  unfold VecObj.normCoded
  rw [← o1.visible_eq_storage h1, ← o2.visible_eq_storage h2, hv]

/-- every history exercised by the harness yields a well-formed object … -/
theorem axisHistory_wf (kind : Nat) (a b c : Rat) (ex : List Rat) : (axisHistory kind a b c ex).WF := by
  unfold axisHistory
  rcases kind with _|_|_|_|_|_|_|_|_ <;>
    first
    | exact VecObj.ofList_wf _
    | exact VecObj.resize_wf _ _
    | exact VecObj.copy_wf _ (VecObj.resize_wf _ _)
    | exact VecObj.set_wf _ (VecObj.resize_wf _ _) _ _

/-- … whose value is the three components `(a,b,c)`, independent of the history and of the extra entries: the
    model's answer of `c16.rot3h` / `c16.sphaxh` depends on the three components only. -/
theorem axisHistory_value (kind : Nat) (a b c : Rat) (ex : List Rat) :
    (axisHistory kind a b c ex).axis3 = some ⟨a, b, c⟩ := by
  unfold axisHistory
  rcases kind with _|_|_|_|_|_|_|_|_ <;>
    simp [VecObj.axis3, VecObj.visible, VecObj.ofList, VecObj.resize, VecObj.set, VecObj.assign, VecObj.copy]

-- the invariant is needed: an object whose storage kept a hidden tail has the same visible components, another norm
example : (VecObj.mk 3 [0, 0, 3, 4]).visible = (VecObj.ofList [0, 0, 3]).visible ∧
    (VecObj.mk 3 [0, 0, 3, 4]).normCoded (sqApprox 64) = 5 ∧ (VecObj.ofList [0, 0, 3]).normCoded (sqApprox 64) = 3 := by
  decide +kernel

end Lp.C16
