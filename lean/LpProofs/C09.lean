/-
  C09 — interpolation results do not depend on the history of earlier calls.
  Property theorems about the model `Lp.Interp` / `Lp.C09` of src/Numerics.cpp §1
  (`Bisection`, `Hunt`, `Locate` and the queries built on them).  Helper lemmas are in
  `LpProofs/C09/Locate.lean` and `LpProofs/C09/Object.lean`.
-/
import LpProofs.C09.Object
namespace Lp.C09
open Lp.Interp

-- the square root of `Stationary_Values` (fix 51ca844) is a parameter: every theorem below holds for every `SqrtFn`
variable [SqrtFn]

/-! ## The constructor establishes the table hypotheses -/

theorem strictlyIncreasing_pairwise : ∀ l : List Rat, strictlyIncreasing l = true → l.Pairwise (· < ·)
  | [], _ => List.Pairwise.nil
  | [_], _ => List.pairwise_singleton _ _
  | a :: b :: r, h => by
    unfold strictlyIncreasing at h
    simp only [Bool.and_eq_true, decide_eq_true_eq] at h
    have ih := strictlyIncreasing_pairwise (b :: r) h.2
    refine List.Pairwise.cons ?_ ih
    intro c hc
    rcases List.mem_cons.mp hc with hc | hc
    · rw [hc]; exact h.1
    · exact lt_trans h.1 (List.rel_of_pairwise_cons ih hc)

theorem mono_of_pairwise (l : List Rat) (h : l.Pairwise (· < ·)) :
    Mono l.length (fun i => l.toArray.getD i 0) := by
  intro i j hij hj
  have hi : i < l.length := by omega
  have := (List.pairwise_iff_getElem.mp h) i j hi hj hij
  simpa [Array.getD, hi, hj] using this

/-- `mk` (the constructor) yields an object satisfying the table hypotheses and the invariant -/
theorem mk_WF (xs ys : List Rat) (xdim fdim : Rat) (o : Obj) (h : mk xs ys xdim fdim = .ok o) : WF o := by
  unfold mk at h
  split at h
  · cases h
  · split at h
    · cases h
    · split at h
      · cases h
      · rename_i h1 h2 h3
        injection h with h
        subst h
        have hsi : strictlyIncreasing xs = true := by simpa using h3
        have hp := strictlyIncreasing_pairwise xs hsi
        have hp' : (if xdim > 0 then xs.map (· * xdim) else xs).Pairwise (· < ·) := by
          by_cases hx : xdim > 0
          · simp only [hx, if_true]
            exact (List.pairwise_map).mpr (hp.imp (fun hab => mul_lt_mul_of_pos_right hab hx))
          · simp only [hx, if_false]; exact hp
        have hlen : (if xdim > 0 then xs.map (· * xdim) else xs).length = xs.length := by
          split <;> simp
        refine ⟨⟨by show 3 ≤ xs.length; omega, ?_⟩, by show 0 + 2 ≤ xs.length; omega⟩
        have := mono_of_pairwise _ hp'
        rw [hlen] at this
        exact this

/-! ## [T1] `locate_inv`, `locate_brackets`, `locate_canonical` -/

/-- `jLast ≤ N-2` is preserved by `Locate` (and `jLast` is the index returned), so the accesses
    `x_values[jLast]`, `x_values[jLast+1]`, `x_values[jLast-1]` of `Hunt` are inside the table. -/
theorem locate_inv {N : Nat} {x : Nat → Rat} (m : Mono N x) (hN : 3 ≤ N) (st : LState)
    (hst : st.jLast + 2 ≤ N) (v : Rat) (j : Nat) (st' : LState) (h : locate N x st v = .ok (j, st')) :
    st'.jLast + 2 ≤ N ∧ st'.jLast = j := by
  rw [locate_closed m hN st hst v] at h
  cases hc : locateCanon N x v with
  | error e => rw [hc] at h; cases h
  | ok j' =>
    rw [hc] at h
    injection h with h
    injection h with h1 h2
    subst h1 h2
    exact ⟨locateCanon_bound m hN hc, rfl⟩

/-- From **every** admissible search state and every abscissa of the domain — whether the index
    is found by hunting upwards, hunting downwards or by bisection — `Locate` succeeds and the
    index brackets the abscissa inside the table. -/
theorem locate_brackets {N : Nat} {x : Nat → Rat} (m : Mono N x) (hN : 3 ≤ N) (st : LState)
    (hst : st.jLast + 2 ≤ N) (v : Rat) (hlo : x 0 ≤ v) (hhi : v ≤ x (N - 1)) :
    ∃ j st', locate N x st v = .ok (j, st') ∧ j + 2 ≤ N ∧ x j ≤ v ∧ v ≤ x (j + 1) ∧ (j + 2 < N → v < x (j + 1)) := by
  have hd : ¬ (v < x 0 ∨ v > x (N - 1)) := by
    intro c; rcases c with c | c <;> linarith
  obtain ⟨j, hc, he⟩ := locateCanon_in m hN v hd
  refine ⟨j, nst st j, ?_, hc⟩
  rw [locate_closed m hN st hst v, he]

/-- the raw searches, before the tie rule is applied (the three cases of `locate_brackets`) -/
theorem hunt_brackets {N : Nat} {x : Nat → Rat} (m : Mono N x) (v : Rat) (jLast : Nat)
    (hj : jLast + 2 ≤ N) (hlo : x 0 ≤ v) (hhi : v ≤ x (N - 1)) :
    hunt N x v jLast + 2 ≤ N ∧ x (hunt N x v jLast) ≤ v ∧ v ≤ x (hunt N x v jLast + 1) :=
  hunt_spec m v jLast hj hlo hhi

theorem bisection_brackets {N : Nat} {x : Nat → Rat} (v : Rat) (hN : 2 ≤ N) (hlo : x 0 ≤ v) (hhi : v ≤ x (N - 1)) :
    bisection x v 0 (N - 1) + 2 ≤ N ∧ x (bisection x v 0 (N - 1)) ≤ v ∧ v ≤ x (bisection x v 0 (N - 1) + 1) :=
  bisect_spec v hN hlo hhi

/-- The index (and whether the call stops with the diagnostic) is the same from all admissible
    search states; with the tie rule of fix c70b127 this includes tabulated abscissae. -/
theorem locate_canonical {N : Nat} {x : Nat → Rat} (m : Mono N x) (hN : 3 ≤ N) (st st' : LState)
    (hst : st.jLast + 2 ≤ N) (hst' : st'.jLast + 2 ≤ N) (v : Rat) :
    (locate N x st v).map Prod.fst = (locate N x st' v).map Prod.fst := by
  rw [locate_closed m hN st hst v, locate_closed m hN st' hst' v]
  cases locateCanon N x v <;> rfl

/-- … and inside the domain it is the unique index with `x j ≤ v < x (j+1)` (`≤` for the last interval) -/
theorem locate_unique {N : Nat} {x : Nat → Rat} (m : Mono N x) (hN : 3 ≤ N) (st : LState)
    (hst : st.jLast + 2 ≤ N) (v : Rat) (hlo : x 0 ≤ v) (hhi : v ≤ x (N - 1)) (j : Nat) (hj : Canon N x v j) :
    (locate N x st v).map Prod.fst = .ok j := by
  obtain ⟨j', st', he, h⟩ := locate_brackets m hN st hst v hlo hhi
  have : j' = j := Canon.unique m h hj
  subst this
  rw [he]; rfl

/-- a tabulated abscissa is the left end of its interval, from every state (fix c70b127) -/
theorem locate_at_knot {N : Nat} {x : Nat → Rat} (m : Mono N x) (hN : 3 ≤ N) (st : LState)
    (hst : st.jLast + 2 ≤ N) (k : Nat) (hk : k + 2 ≤ N) :
    (locate N x st (x k)).map Prod.fst = .ok k :=
  locate_unique m hN st hst (x k) (m.le (Nat.zero_le _) (by omega)) (m.le (by omega) (by omega)) k
    ⟨hk, le_refl _, le_of_lt (m k (k + 1) (by omega) (by omega)), fun _ => m k (k + 1) (by omega) (by omega)⟩

/-! ## [T1] `history_independent` -/

def mapAns {α : Type} (f : α → Ans) (p : Except Err α) : Except Err Ans :=
  match p with
  | .ok v => .ok (f v)
  | .error e => .error e

/-- the answer to a query as a function of table and prefactor alone -/
def pAnswer (o : Obj) : Op → Except Err Ans
  | .interp x => mapAns .val (pInterp o x)
  | .deriv x k => mapAns .val (pDeriv o x k)
  | .integ a b => mapAns .val (pInteg o a b)
  | .locmin a b => mapAns .val (pLocalExt o false a b)
  | .locmax a b => mapAns .val (pLocalExt o true a b)
  | .globmin => .ok (.val (o.globalExt false))
  | .globmax => .ok (.val (o.globalExt true))
  | .locate x => mapAns .idx (locateCanon o.N o.x x)
  | .setpref _ => .ok .unit
  | .mult _ => .ok .unit
  | .copy => .ok .unit

/-- the prefactor after one call -/
def prefStep (p : Rat) : Op → Rat
  | .setpref q => q
  | .mult q => p * q
  | _ => p

theorem prefAfter_cons (p : Rat) (op : Op) (r : List Op) : prefAfter p (op :: r) = prefAfter (prefStep p op) r := by
  cases op <;> rfl

theorem step_of_closed {α : Type} {o : Obj} {st : LState} (op : Op) (f : α → Ans)
    (r : Except Err (α × Obj)) (p : Except Err α)
    (hstep : step { o with st := st } op = liftAns f r)
    (hans : pAnswer o op = mapAns f p)
    (hpref : prefStep o.pref op = o.pref)
    (h : Closed o r p) :
    match pAnswer o op with
    | .ok a => ∃ st', Inv o st' ∧ step { o with st := st } op = .ok (a, { o with pref := prefStep o.pref op, st := st' })
    | .error e => step { o with st := st } op = .error e := by
  rw [hans, hstep, hpref]
  unfold Closed at h
  cases p with
  | error e => simp only at h; rw [h]; rfl
  | ok a => obtain ⟨st', i, e⟩ := h; exact ⟨st', i, by rw [e]; rfl⟩

/-- one call from any admissible state: the answer is `pAnswer`, the table is untouched, the
    prefactor changes only through `Set_Prefactor`/`Multiply`, the new state is admissible -/
theorem step_spec (o : Obj) (t : Tbl o) (st : LState) (hst : Inv o st) (op : Op) :
    match pAnswer o op with
    | .ok a => ∃ st', Inv o st' ∧ step { o with st := st } op = .ok (a, { o with pref := prefStep o.pref op, st := st' })
    | .error e => step { o with st := st } op = .error e := by
  cases op with
  | interp x => exact step_of_closed _ Ans.val _ _ rfl rfl rfl (closed_interpolate o t st hst x)
  | deriv x k => exact step_of_closed _ Ans.val _ _ rfl rfl rfl (closed_derivative o t st hst x k)
  | integ a b => exact step_of_closed _ Ans.val _ _ rfl rfl rfl (closed_integrate o t st hst a b)
  | locmin a b => exact step_of_closed _ Ans.val _ _ rfl rfl rfl (closed_localExt o t st hst false a b)
  | locmax a b => exact step_of_closed _ Ans.val _ _ rfl rfl rfl (closed_localExt o t st hst true a b)
  | locate x => exact step_of_closed _ Ans.idx _ _ rfl rfl rfl (closed_locate o t st hst x)
  | globmin => exact ⟨st, hst, rfl⟩
  | globmax => exact ⟨st, hst, rfl⟩
  | setpref p => exact ⟨st, hst, rfl⟩
  | mult p => exact ⟨st, hst, rfl⟩
  | copy => exact ⟨st, hst, rfl⟩

/-- the answer to a single query does not depend on the search state -/
theorem answer_pure (o : Obj) (t : Tbl o) (st : LState) (hst : Inv o st) (q : Op) :
    answer { o with st := st } q = pAnswer o q := by
  have h := step_spec o t st hst q
  unfold answer
  cases hp : pAnswer o q with
  | error e => rw [hp] at h; simp only at h; rw [h]
  | ok a => rw [hp] at h; obtain ⟨st', _, e⟩ := h; rw [e]

/-- a history changes nothing but the prefactor (as `prefAfter` says) and the search state,
    which stays admissible -/
theorem run_spec : ∀ (h : List Op) (o : Obj) (_ : Tbl o) (st : LState) (_ : Inv o st) (as : List Ans) (o' : Obj),
    run { o with st := st } h = .ok (as, o') →
    ∃ st', Inv o st' ∧ o' = { o with pref := prefAfter o.pref h, st := st' }
  | [], o, _, st, hst, as, o', hr => by
    unfold run at hr
    injection hr with hr
    injection hr with _ h2
    exact ⟨st, hst, h2.symm⟩
  | op :: r, o, t, st, hst, as, o', hr => by
    have hs := step_spec o t st hst op
    unfold run at hr
    cases hp : pAnswer o op with
    | error e =>
      rw [hp] at hs; simp only at hs
      rw [hs] at hr; cases hr
    | ok a =>
      rw [hp] at hs
      obtain ⟨st1, i1, e1⟩ := hs
      rw [e1] at hr
      simp only at hr
      cases hr2 : run { o with pref := prefStep o.pref op, st := st1 } r with
      | error e => rw [hr2] at hr; cases hr
      | ok p =>
        obtain ⟨as2, o2⟩ := p
        rw [hr2] at hr
        simp only at hr
        injection hr with hr
        injection hr with _ h2
        subst h2
        have t' : Tbl { o with pref := prefStep o.pref op } := ⟨t.hN, t.mono⟩
        obtain ⟨st', i', e'⟩ := run_spec r { o with pref := prefStep o.pref op } t' st1 i1 as2 o2 hr2
        refine ⟨st', i', ?_⟩
        rw [e', prefAfter_cons]

/-- **History independence.** After every call history `h` that the object survives, every
    query `q` (evaluation, derivative of any order, integral, local/global extremum, index
    look-up) returns exactly what the never-queried object returns — given the prefactor the
    history's `Set_Prefactor`/`Multiply` calls leave behind; these calls alter nothing else. -/
theorem history_independent (o : Obj) (hwf : WF o) (h : List Op) (o' : Obj) (hr : after o h = .ok o') (q : Op) :
    answer o' q = answer { o with pref := prefAfter o.pref h } q := by
  unfold after at hr
  cases hrun : run o h with
  | error e => rw [hrun] at hr; cases hr
  | ok p =>
    obtain ⟨as, o2⟩ := p
    rw [hrun] at hr
    injection hr with hr
    subst hr
    obtain ⟨st', i', e'⟩ := run_spec h o hwf.tbl o.st hwf.inv as o2 hrun
    have t' : Tbl { o with pref := prefAfter o.pref h } := ⟨hwf.tbl.hN, hwf.tbl.mono⟩
    rw [e']
    exact (answer_pure { o with pref := prefAfter o.pref h } t' st' i' q).trans
      (answer_pure { o with pref := prefAfter o.pref h } t' o.st hwf.inv q).symm

/-- histories without `Set_Prefactor`/`Multiply`: the used object answers as the new one -/
theorem history_independent_same_pref (o : Obj) (hwf : WF o) (h : List Op) (o' : Obj) (hr : after o h = .ok o')
    (hp : prefAfter o.pref h = o.pref) (q : Op) : answer o' q = answer o q := by
  have := history_independent o hwf h o' hr q
  rw [hp] at this
  exact this

/-- the invariant `jLast ≤ N-2` and the table hypotheses hold after every history (object level
    `locate_inv`), so the theorems above apply again to the used object and to its copies -/
theorem run_WF (o : Obj) (hwf : WF o) (h : List Op) (o' : Obj) (hr : after o h = .ok o') : WF o' := by
  unfold after at hr
  cases hrun : run o h with
  | error e => rw [hrun] at hr; cases hr
  | ok p =>
    obtain ⟨as, o2⟩ := p
    rw [hrun] at hr
    injection hr with hr
    subst hr
    obtain ⟨st', i', e'⟩ := run_spec h o hwf.tbl o.st hwf.inv as o2 hrun
    rw [e']
    exact ⟨⟨hwf.tbl.hN, hwf.tbl.mono⟩, i'⟩

/-! ## `prefactor_only`: `Set_Prefactor`/`Multiply` scale evaluations and derivatives exactly
    (the integral and the extrema are C08's `prefactor_scaling`) -/

theorem cubicAt_pref (o : Obj) (p : Rat) (j : Nat) (v : Rat) :
    Obj.cubicAt { o with pref := p } j v = p * Obj.cubicAt { o with pref := 1 } j v := by
  show p * _ = p * (1 * _)
  rw [one_mul]
  rfl

theorem prefactor_only_interp (o : Obj) (p : Rat) (v : Rat) :
    pInterp { o with pref := p } v = (pInterp { o with pref := 1 } v).map (p * ·) := by
  unfold pInterp
  show (match locateCanon o.N o.x v with
    | .ok j => Except.ok (Obj.cubicAt { o with pref := p } j v)
    | .error e => .error e) = Except.map (p * ·) (match locateCanon o.N o.x v with
    | .ok j => Except.ok (Obj.cubicAt { o with pref := 1 } j v)
    | .error e => .error e)
  cases locateCanon o.N o.x v with
  | error e => rfl
  | ok j => simp only [Except.map]; rw [cubicAt_pref]

theorem dval_pref (o : Obj) (p : Rat) (j : Nat) (v : Rat) (k : Nat) :
    dval { o with pref := p } j v k = p * dval { o with pref := 1 } j v k := by
  rcases k with _ | _ | _ | _ | k
  · exact cubicAt_pref o p j v
  · show p * _ = p * (1 * _)
    rw [one_mul]
    rfl
  · show p * _ = p * (1 * _)
    rw [one_mul]
    rfl
  · show p * _ = p * (1 * _)
    rw [one_mul]
    rfl
  · show (0 : Rat) = p * 0
    rw [mul_zero]

theorem prefactor_only_deriv (o : Obj) (p : Rat) (v : Rat) (k : Nat) :
    pDeriv { o with pref := p } v k = (pDeriv { o with pref := 1 } v k).map (p * ·) := by
  unfold pDeriv
  show (match locateCanon o.N o.x v with
    | .ok j => Except.ok (dval { o with pref := p } j v k)
    | .error e => .error e) = Except.map (p * ·) (match locateCanon o.N o.x v with
    | .ok j => Except.ok (dval { o with pref := 1 } j v k)
    | .error e => .error e)
  cases locateCanon o.N o.x v with
  | error e => rfl
  | ok j => simp only [Except.map]; rw [dval_pref]


/-! ## The two-dimensional object: two independent 1-D look-ups -/

/-- `Interpolation_2D::Interpolate` returns the same value (or stops with the diagnostic alike)
    whatever admissible search states its two helper objects `x_int`, `y_int` are in -/
theorem interpolate2_state_independent (o : Obj2) (tx : Tbl o.ox) (ty : Tbl o.oy)
    (sx sx' sy sy' : LState) (hx : Inv o.ox sx) (hx' : Inv o.ox sx') (hy : Inv o.oy sy) (hy' : Inv o.oy sy')
    (vx vy : Rat) :
    (Obj2.interpolate { o with ox := { o.ox with st := sx }, oy := { o.oy with st := sy } } vx vy).map Prod.fst =
    (Obj2.interpolate { o with ox := { o.ox with st := sx' }, oy := { o.oy with st := sy' } } vx vy).map Prod.fst := by
  unfold Obj2.interpolate
  simp only [locate_obj o.ox tx sx hx vx, locate_obj o.ox tx sx' hx' vx, locate_obj o.oy ty sy hy vy,
    locate_obj o.oy ty sy' hy' vy]
  cases locateCanon o.ox.N o.ox.x vx with
  | error e => rfl
  | ok i =>
    cases locateCanon o.oy.N o.oy.x vy with
    | error e => rfl
    | ok j => rfl


/-! ## A pool of objects (copies, assignments, destruction across objects)

    In the model objects are values: a copy is the same value in another slot.  History
    independence across objects is therefore by construction — every slot holds an `Obj` reached by
    some history from a constructed object, and `history_independent` / `run_WF` apply to it. -/

/-- after a copy (construction or assignment) slot `j` holds exactly the value of slot `i`, so it
    answers every query as slot `i` does; no other slot changes -/
theorem pool_copy (tables : Array (List Rat × List Rat)) (pool : Pool) (i j : Nat) (o : Obj)
    (hj : j < pool.size) (hi : pool.getD i none = some o) :
    poolStep tables pool (.copyConstruct i j) = .ok (.unit, pool.set! j (some o)) ∧
    poolStep tables pool (.copyAssign i j) = .ok (.unit, pool.set! j (some o)) ∧
    (pool.set! j (some o)).getD j none = some o ∧
    ∀ k, k ≠ j → (pool.set! j (some o)).getD k none = pool.getD k none := by
  refine ⟨by simp [poolStep, hj, hi], by simp [poolStep, hj, hi], by simp [Array.getD, hj], fun k hk => ?_⟩
  by_cases h : k < pool.size
  · have hne : j ≠ k := Ne.symm hk
    simp [Array.getD, h, hne]
  · simp [Array.getD, h]


/-- **a newly constructed object answers from its own table whatever lived in its storage before**: rebuilding slot `s` (the old
    object evaluates, is destroyed or overwritten, a new object of table `t` is constructed in the same storage and asked
    `Interpolate(xnew)` first) gives exactly what constructing table `t` in that slot and asking gives — the old object and its
    last call do not enter -/
theorem pool_rebuild (tables : Array (List Rat × List Rat)) (pool : Pool) (s t : Nat) (xold xnew : Rat) (o : Obj) (r : Rat × Obj)
    (hs : pool.getD s none = some o) (hold : o.interpolate xold = .ok r) :
    poolStep tables pool (.rebuild s t xold xnew) =
      match poolStep tables pool (.make s t) with
      | .ok (_, pool') => poolStep tables pool' (.call s (.interp xnew))
      | .error e => .error e := by
  simp only [poolStep, hs, hold]
  cases poolMake tables pool s t with
  | error e => rfl
  | ok p => rfl

/-! ## Non-vacuity -/

/-- the zig-zag table of the fix commit's message meets the hypotheses of every theorem above -/
def demo : Obj :=
  { N := 5, xs := #[0, 1, 2, 3, 4], ys := #[0, 1, 0, 2, 0], pref := 1, st := { jLast := 0, corr := false } }

theorem demo_mk : mk [0, 1, 2, 3, 4] [0, 1, 0, 2, 0] (-1) (-1) = .ok demo := by rfl

example : WF demo := mk_WF _ _ _ _ _ demo_mk
example : Mono demo.N demo.x := (mk_WF _ _ _ _ _ demo_mk).tbl.mono
/-- a history that hunts upwards to the knot 3 and stops there (search state `jLast = 3`,
    correlated); the second derivative asked for at that knot afterwards is the one of the new
    object (before fix c70b127 the two differed: 24 vs 18 on the table of the commit message) -/
example : after demo [.locate 2, .locate 3] = .ok { demo with st := { jLast := 3, corr := true } } := by rfl
example : answer { demo with st := { jLast := 3, corr := true } } (.deriv 3 2) = answer demo (.deriv 3 2) :=
  history_independent_same_pref demo (mk_WF _ _ _ _ _ demo_mk) [.locate 2, .locate 3] _ (by rfl) rfl _
example : (locate demo.N demo.x { jLast := 2, corr := true } 3).map Prod.fst = .ok 3 :=
  locate_at_knot (mk_WF _ _ _ _ _ demo_mk).tbl.mono (by decide) _ (by decide) 3 (by decide)

end Lp.C09
