import LpModel.C09
namespace Lp.C09
end Lp.C09
