/-
  C11 — property theorems.  For EVERY objective (`f : Rat → Rat`, `f : List Rat → Rat`, no
  regularity) and EVERY rounding function `rnd` (so also for exact arithmetic `rnd = id` and for
  the driver's round-to-double): the minimisers never end worse than they started and the state
  they report is the objective at the returned point.  Convergence on bowls is NOT a theorem
  (correspondence / oracle only, see props/c11.py CORR_ONLY).
-/
import LpProofs.C11.OneDim
import LpProofs.C11.Simplex
import LpProofs.C11.Psum
import LpProofs.C11.InBracket
namespace Lp.C11

/-! ## one dimension -/
section
variable (rnd : Rat → Rat) (f : Rat → Rat)

/-- `Bracket`: on return the stored values are the objective at the stored abscissae, the middle
    one is the smallest of the three and not above either starting value. -/
theorem bracket_best (a b : Rat) (fuel : Nat) (s : Br) (t : List Ev)
    (h : bracket rnd f a b fuel = (some s, t)) :
    s.fb ≤ s.fa ∧ s.fb ≤ s.fc ∧ s.fa = f s.ax ∧ s.fb = f s.bx ∧ s.fc = f s.cx ∧
      s.fb ≤ min (f a) (f b) := by
  unfold bracket at h
  simp only [Prod.mk.injEq] at h
  obtain ⟨h1, _⟩ := h
  obtain ⟨hs, hbc⟩ := bracketLoop_inv rnd f fuel _ s (bracketLoop rnd f fuel (bracketInit rnd f a b).1).2
    (bracketInit_inv rnd f a b) (by rw [← h1])
  exact ⟨hs.hba, hbc, hs.ha, hs.hb, hs.hc, hs.hM⟩

/-- `Brent::Minimize`: `f_min = f(x_min)` and it is not above the value at the middle point of
    the bracket it was given (`fx = f x` is an invariant, `fx` never increases). -/
theorem brent_best (tol : Rat) (s : Br) (x fx m : Rat) (t : List Ev)
    (h : brent rnd f tol s = (.ok x fx m, t)) : fx = f x ∧ fx ≤ f s.bx := by
  unfold brent at h
  simp only [Prod.mk.injEq] at h
  obtain ⟨h1, _⟩ := h
  have h0 : BtInv f (f s.bx) (brentInit f s).1 := ⟨rfl, le_refl _⟩
  exact brentLoop_inv rnd f ITMAX _ x fx m (brentLoop rnd f tol ITMAX (brentInit f s).1).2 h0 (by rw [← h1])

/-- `Find_Minimum` never ends worse than the better of its two starting abscissae, and the
    reported minimum value is the objective at the returned point. -/
theorem findMinimum_best (xl xr tol : Rat) (fuel : Nat) (x fx m : Rat) (t : List Ev)
    (h : findMinimum rnd f xl xr tol fuel = (.ok x fx m, t)) :
    fx = f x ∧ f x ≤ min (f xl) (f xr) := by
  unfold findMinimum at h
  split at h
  · simp at h
  · rename_i s t0 hb
    simp only [Prod.mk.injEq] at h
    obtain ⟨h1, _⟩ := h
    obtain ⟨_, _, _, hfb, _, hM⟩ := bracket_best rnd f xl xr fuel s t0 hb
    obtain ⟨hx, hle⟩ := brent_best rnd f tol s x fx m (brent rnd f tol s).2 (by rw [← h1])
    refine ⟨hx, ?_⟩
    rw [← hx]
    exact le_trans hle (by rw [← hfb]; exact hM)

/-- `Find_Maximum(f)` is `Find_Minimum(-f)`, literally. -/
theorem findMaximum_neg (xl xr tol : Rat) (fuel : Nat) :
    findMaximum rnd f xl xr tol fuel = findMinimum rnd (fun x => -1 * f x) xl xr tol fuel := rfl

/-- `Find_Maximum` never ends below the better of its two starting abscissae. -/
theorem findMaximum_best (xl xr tol : Rat) (fuel : Nat) (x fx m : Rat) (t : List Ev)
    (h : findMaximum rnd f xl xr tol fuel = (.ok x fx m, t)) :
    fx = -f x ∧ max (f xl) (f xr) ≤ f x := by
  obtain ⟨h1, h2⟩ := findMinimum_best rnd (fun x => -1 * f x) xl xr tol fuel x fx m t h
  refine ⟨by simpa using h1, ?_⟩
  simp only [neg_mul, one_mul, le_min_iff, neg_le_neg_iff] at h2
  exact max_le h2.1 h2.2

/-- `brent_in_bracket` (exact arithmetic `rnd = id`, `0 ≤ tol`): given a triple whose middle point
    lies between the outer ones, every abscissa at which `Brent::Minimize` evaluates the objective
    lies between the outer points.  (Under IEEE rounding the clause is left to the correspondence
    run and the oracle; the bookkeeping half holds for every `rnd`, see below.) -/
theorem brent_in_bracket (f : Rat → Rat) (tol : Rat) (htol : 0 ≤ tol) (s : Br)
    (h1 : min s.ax s.cx ≤ s.bx) (h2 : s.bx ≤ max s.ax s.cx) :
    ∀ ev ∈ (brent id f tol s).2, min s.ax s.cx ≤ ev.1 ∧ ev.1 ≤ max s.ax s.cx := by
  have ha : (brentInit f s).1.a = min s.ax s.cx := by
    unfold brentInit; dsimp only
    split_ifs with h
    · exact (min_eq_left (le_of_lt h)).symm
    · exact (min_eq_right (not_lt.mp h)).symm
  have hb : (brentInit f s).1.b = max s.ax s.cx := by
    unfold brentInit; dsimp only
    split_ifs with h
    · exact (max_eq_left (le_of_lt h)).symm
    · exact (max_eq_right (not_lt.mp h)).symm
  intro ev hev
  unfold brent at hev
  simp only [List.mem_append] at hev
  rcases hev with hev | hev
  · unfold brentInit at hev
    simp only [List.mem_singleton] at hev
    subst hev
    exact ⟨h1, h2⟩
  · have := brentLoop_in_bracket htol ITMAX (brentInit f s).1 (by rw [ha]; exact h1) (by rw [hb]; exact h2) ev hev
    rwa [ha, hb] at this

/-- bookkeeping half of `brent_in_bracket`, for EVERY `rnd`: if the trial abscissa of a pass
    lies in `[a,b]`, the new bracket is nested in the old one and contains the new best point `x`
    (so the bracket never grows and never loses `x`). -/
theorem brent_bracket_nested_partial (tol : Rat) (s s' : Bt) (ev : Ev) (h : brentIter rnd f tol s = .next s' ev)
    (hax : s.a ≤ s.x) (hxb : s.x ≤ s.b) (hau : s.a ≤ ev.1) (hub : ev.1 ≤ s.b) :
    s'.a ≤ s'.x ∧ s'.x ≤ s'.b ∧ s.a ≤ s'.a ∧ s'.b ≤ s.b :=
  brentIter_nested rnd f h hax hxb hau hub

end

/-! ## purity: the runs depend on the VALUES of the objective only -/

theorem lookup_mem {cache : List (Rat × Rat)} {x v : Rat} (h : cache.lookup x = some v) : (x, v) ∈ cache := by
  induction cache with
  | nil => simp at h
  | cons p rest ih =>
    obtain ⟨a, b⟩ := p
    simp only [List.lookup_cons] at h
    split at h
    · rename_i heq
      simp only [Option.some.injEq] at h
      have : x = a := by simpa using heq
      subst this; subst h
      exact List.mem_cons_self
    · exact List.mem_cons_of_mem _ (ih h)

/-- a memoised objective whose table holds true values IS the objective -/
theorem memoised_eq (f : Rat → Rat) (cache : List (Rat × Rat)) (hc : ∀ p ∈ cache, p.2 = f p.1) :
    memoised f cache = f := by
  funext x
  unfold memoised
  split
  · rename_i v hv
    exact hc (x, v) (lookup_mem hv)
  · rfl

/-- the model's run (result AND trace) is unchanged when the objective is replaced by a memoised
    version of itself: evaluating an abscissa again, or not, cannot change anything but the count. -/
theorem findMinimum_memoised (rnd : Rat → Rat) (f : Rat → Rat) (cache : List (Rat × Rat)) (hc : ∀ p ∈ cache, p.2 = f p.1)
    (xl xr tol : Rat) (fuel : Nat) :
    findMinimum rnd (memoised f cache) xl xr tol fuel = findMinimum rnd f xl xr tol fuel := by
  rw [memoised_eq f cache hc]

theorem findMaximum_memoised (rnd : Rat → Rat) (f : Rat → Rat) (cache : List (Rat × Rat)) (hc : ∀ p ∈ cache, p.2 = f p.1)
    (xl xr tol : Rat) (fuel : Nat) :
    findMaximum rnd (memoised f cache) xl xr tol fuel = findMaximum rnd f xl xr tol fuel := by
  rw [memoised_eq f cache hc]

/-- starting Brent from the value `Bracket` already holds at `bx` instead of evaluating there again:
    same outcome, and the trace is the same but for that one repeated abscissa. -/
theorem brentNR_eq (rnd : Rat → Rat) (f : Rat → Rat) (tol : Rat) (s : Br) (h : s.fb = f s.bx) :
    brent rnd f tol s = ((brentNR rnd f tol s).1, (s.bx, rmin s.pm (mc s.ax s.cx)) :: (brentNR rnd f tol s).2) := by
  have e : (brentInit f s).1 = brentInitNR s := by
    unfold brentInit brentInitNR
    simp only [h]
  unfold brent brentNR
  dsimp only
  rw [e]
  rfl

theorem findMinimumNR_outcome (rnd : Rat → Rat) (f : Rat → Rat) (xl xr tol : Rat) (fuel : Nat) :
    (findMinimumNR rnd f xl xr tol fuel).1 = (findMinimum rnd f xl xr tol fuel).1 := by
  unfold findMinimumNR findMinimum
  split
  · rfl
  · rename_i s t hb
    obtain ⟨_, _, _, hfb, _, _⟩ := bracket_best rnd f xl xr fuel s t hb
    simp only [brentNR_eq rnd f tol s hfb]

/-! ## Nelder–Mead -/
section
variable (rnd : Rat → Rat) (f : Pt → Rat)

/-- `nm_values_consistent` / `nm_best_monotone`, one pass: every pass of the loop that continues
    (reflection, expansion, contraction, shrink — where the vertex is written through `psum`)
    keeps `y[i] = f(simplex[i])` for all `i`, keeps the number of vertices, and never loses the
    best value: whatever bound `M` some vertex value met before the pass, one meets after it. -/
theorem nm_step_invariants (ftol : Rat) (ndim : Nat) (s s' : NM) (tr : List EvN) (hn : 2 ≤ s.y.length)
    (hinv : s.y = s.p.map f) (h : nmStep rnd f ftol ndim s = .cont s' tr) :
    s'.y = s'.p.map f ∧ s'.y.length = s.y.length ∧ ∀ M, Below s.y M → Below s'.y M :=
  nmStep_cont rnd f hn hinv h

/-- `psum = column sums` (exact arithmetic): it holds when the loop is entered … -/
theorem nm_psum_init (pp : List Pt) (ndim : Nat) :
    PsInv ndim { p := pp, y := pp.map f, psum := getPsum id ndim pp, nfunc := 0 } := rfl

/-- … and every pass that continues re-establishes it (incremental update in `amotry`,
    recomputation after the shrink step). -/
theorem nm_psum_colsums (ftol : Rat) (ndim : Nat) (s s' : NM) (tr : List EvN) (hn : 2 ≤ s.y.length)
    (hinv : s.y = s.p.map f) (hps : s.psum = getPsum id ndim s.p) (h : nmStep id f ftol ndim s = .cont s' tr) :
    s'.psum = getPsum id ndim s'.p :=
  nmStep_psum f hn hinv hps h

/-- the stopping rule: when a pass returns, the fractional spread between a HIGHEST and a LOWEST
    vertex value — computed as the source computes it, `2|y_hi - y_lo| / (|y_hi| + |y_lo| + TINY)`
    with true differences, not differences of absolute values — is below `ftol`. -/
theorem nm_exit_rule (ftol : Rat) (ndim : Nat) (s s' : NM) (pmin : Pt) (fmin m : Rat) (hn : 2 ≤ s.y.length)
    (h : nmStep rnd f ftol ndim s = .done pmin fmin s' m) :
    ∃ ihi ilo, ihi < s.y.length ∧ ilo < s.y.length ∧
      (∀ j, j < s.y.length → s.y.getD ilo 0 ≤ s.y.getD j 0 ∧ s.y.getD j 0 ≤ s.y.getD ihi 0) ∧
      (rnd (rnd (2 * rabs (rnd (s.y.getD ihi 0 - s.y.getD ilo 0))) /
        rnd (rnd (rabs (s.y.getD ihi 0) + rabs (s.y.getD ilo 0)) + rnd TINYN)) < ftol ∨
       collapsed rnd ndim s.p ilo = true) := by
  obtain ⟨hlo, hhi, hmin⟩ := scan_ok hn
  refine ⟨(scan s.y).ihi, (scan s.y).ilo, hhi, hlo, fun j hj => ⟨hmin j hj, scan_hi s.y j hj⟩, ?_⟩
  unfold nmStep at h
  dsimp only at h
  split_ifs at h with h1
  exact h1

/-- what the second way out means (exact arithmetic): the source has the collapse return with some
    factor `c`, and every vertex lies within `c·ndim·eps·|p_lo,j|` of the best vertex in every
    coordinate — the simplex has shrunk to the resolution of the doubles around its best vertex. -/
theorem collapsed_spec (ndim : Nat) (p : List Pt) (ilo : Nat) (h : collapsed id ndim p ilo = true) :
    ∃ c, Feat.collapseFactor = some c ∧ ∀ row ∈ p, ∀ j, j < ndim →
      |row.getD j 0 - (p.getD ilo []).getD j 0| ≤ c * (ndim : Rat) * ZEPS * |(p.getD ilo []).getD j 0| := by
  unfold collapsed at h
  split at h
  · simp at h
  · rename_i c hc
    refine ⟨c, hc, ?_⟩
    intro row hrow j hj
    simp only [id, List.all_eq_true, decide_eq_true_eq, List.mem_range, rabs_eq] at h
    exact not_lt.mp (h row hrow j hj)

/-- … in exact arithmetic: `2·(max y − min y) < ftol·(|max y| + |min y| + TINY)` on return. -/
theorem nm_exit_rule_exact (ftol : Rat) (ndim : Nat) (s s' : NM) (pmin : Pt) (fmin m : Rat) (hn : 2 ≤ s.y.length)
    (h : nmStep id f ftol ndim s = .done pmin fmin s' m) :
    ∃ ihi ilo, (∀ j, j < s.y.length → s.y.getD ilo 0 ≤ s.y.getD j 0 ∧ s.y.getD j 0 ≤ s.y.getD ihi 0) ∧
      (2 * (s.y.getD ihi 0 - s.y.getD ilo 0) < ftol * (|s.y.getD ihi 0| + |s.y.getD ilo 0| + TINYN) ∨
       collapsed id ndim s.p ilo = true) := by
  obtain ⟨ihi, ilo, h1, h2, h3, h4⟩ := nm_exit_rule id f ftol ndim s s' pmin fmin m hn h
  refine ⟨ihi, ilo, h3, ?_⟩
  rcases h4 with h4 | h4
  swap
  · exact Or.inr h4
  left
  simp only [id, rabs_eq] at h4
  have hpos : 0 < |s.y.getD ihi 0| + |s.y.getD ilo 0| + TINYN := by
    have : 0 < TINYN := by unfold TINYN; norm_num [K.tinyNM]
    positivity
  rw [div_lt_iff₀ hpos] at h4
  have hle := (h3 ilo h2).2
  rw [abs_of_nonneg (by linarith)] at h4
  exact h4

/-- the loop: values stay consistent with the vertices; whatever bound some vertex value met at
    the start, the reported minimum meets; the result is vertex 0 and best-first -/
theorem nmLoop_spec {ftol : Rat} {ndim : Nat} : ∀ (n : Nat) (s s' : NM) (pmin : Pt) (fmin m : Rat) (t : List EvN),
    2 ≤ s.y.length → NMInv f s → nmLoop rnd f ftol ndim n s = (.ok pmin fmin s' m, t) →
    NMInv f s' ∧ fmin = f pmin ∧ pmin = s'.p.getD 0 [] ∧ fmin = s'.y.getD 0 0 ∧
      (∀ v ∈ s'.y, fmin ≤ v) ∧ (∀ M, Below s.y M → fmin ≤ M)
  | 0, s, s', pmin, fmin, m, t, _, _, h => by simp [nmLoop] at h
  | n + 1, s, s', pmin, fmin, m, t, hn, hinv, h => by
    unfold nmLoop at h
    split at h
    · rename_i p1 f1 s1 m1 heq
      simp only [Prod.mk.injEq, OutN.ok.injEq] at h
      obtain ⟨⟨rfl, rfl, rfl, rfl⟩, _⟩ := h
      exact nmStep_done rnd f hn hinv heq
    · simp at h
    · rename_i s1 tr heq
      simp only [Prod.mk.injEq] at h
      obtain ⟨h1, _⟩ := h
      obtain ⟨hinv1, hlen, hbel⟩ := nmStep_cont rnd f hn hinv heq
      obtain ⟨a, b, c, d, e, g⟩ := nmLoop_spec n s1 s' pmin fmin m (nmLoop rnd f ftol ndim n s1).2
        (by rw [hlen]; exact hn) hinv1 (by rw [← h1])
      exact ⟨a, b, c, d, e, fun M hM => g M (hbel M hM)⟩

/-- `nfunc` accounting, one pass: for a proper simplex (`ndim+1` vertices) a pass that continues adds
    to `nfunc` exactly the number of evaluations it made (reflection 1; reflection + expansion or
    contraction 2; shrink `ndim` more). -/
theorem nm_nfunc_step (ftol : Rat) (ndim : Nat) (s s' : NM) (tr : List EvN) (hn : 2 ≤ s.y.length)
    (hinv : s.y = s.p.map f) (hm : s.p.length = ndim + 1) (h : nmStep rnd f ftol ndim s = .cont s' tr) :
    s'.nfunc = s.nfunc + tr.length :=
  nmStep_nfunc rnd f hn hinv hm h

/-- … hence on return `nfunc` is the number of evaluations made after the initial simplex. -/
theorem nm_nfunc_loop {ftol : Rat} {ndim : Nat} : ∀ (n : Nat) (s s' : NM) (pmin : Pt) (fmin m : Rat) (t : List EvN),
    2 ≤ s.y.length → NMInv f s → s.p.length = ndim + 1 → nmLoop rnd f ftol ndim n s = (.ok pmin fmin s' m, t) →
    s'.nfunc = s.nfunc + t.length
  | 0, s, s', pmin, fmin, m, t, _, _, _, h => by simp [nmLoop] at h
  | n + 1, s, s', pmin, fmin, m, t, hn, hinv, hm, h => by
    unfold nmLoop at h
    split at h
    · rename_i p1 f1 s1 m1 heq
      simp only [Prod.mk.injEq, OutN.ok.injEq] at h
      obtain ⟨⟨_, _, rfl, _⟩, rfl⟩ := h
      unfold nmStep at heq
      dsimp only at heq
      split_ifs at heq
      simp only [NMStep.done.injEq] at heq
      obtain ⟨_, _, rfl, _⟩ := heq
      simp
    · simp at h
    · rename_i s1 tr heq
      simp only [Prod.mk.injEq] at h
      obtain ⟨h1, rfl⟩ := h
      obtain ⟨hinv1, hlen, _⟩ := nmStep_cont rnd f hn hinv heq
      have hm1 : s1.p.length = ndim + 1 := by
        have e1 : s1.p.length = s1.y.length := by rw [hinv1, List.length_map]
        have e0 : s.p.length = s.y.length := by rw [hinv, List.length_map]
        omega
      have ih := nm_nfunc_loop n s1 s' pmin fmin m (nmLoop rnd f ftol ndim n s1).2 (by rw [hlen]; exact hn) hinv1 hm1 (by rw [← h1])
      rw [ih, nmStep_nfunc rnd f hn hinv hm heq, List.length_append]
      omega

/-- `nm_values_consistent` + `nm_best_monotone` for `minimize(pp, func)`: on return
    `y = map f simplex` (every `y[i]` is the objective at vertex `i`, including after shrink steps),
    `fmin = f(pmin) = y[0]`, `pmin` is vertex 0, the simplex is best-first, and the result is not
    worse than ANY vertex of the initial simplex. -/
theorem nelderMead_best (ftol : Rat) (pp : List Pt) (fuel : Nat) (pmin : Pt) (fmin m : Rat) (s : NM) (t : List EvN)
    (h : nelderMead rnd f ftol pp fuel = some (.ok pmin fmin s m, t)) :
    s.y = s.p.map f ∧ fmin = f pmin ∧ pmin = s.p.getD 0 [] ∧ fmin = s.y.getD 0 0 ∧
      (∀ v ∈ s.y, fmin ≤ v) ∧ (∀ v ∈ pp, f pmin ≤ f v) := by
  unfold nelderMead at h
  split_ifs at h with hw
  swap
  · simp at h
  simp only [Option.some.injEq, Prod.mk.injEq] at h
  obtain ⟨h1, _⟩ := h
  have h2 : 2 ≤ pp.length := by
    unfold validSimplex at hw
    simp only [Bool.and_eq_true, decide_eq_true_eq] at hw
    exact hw.1.1
  obtain ⟨a, b, c, d, e, g⟩ := nmLoop_spec rnd f fuel
    { p := pp, y := pp.map f, psum := getPsum rnd (pp.getD 0 []).length pp, nfunc := 0 } s pmin fmin m
    (nmLoop rnd f ftol (pp.getD 0 []).length fuel
      { p := pp, y := pp.map f, psum := getPsum rnd (pp.getD 0 []).length pp, nfunc := 0 }).2
    (by simpa using h2) rfl (by rw [← h1])
  refine ⟨a, b, c, d, e, ?_⟩
  intro v hv
  rw [← b]
  obtain ⟨i, hi, rfl⟩ := List.getElem_of_mem hv
  exact g (f pp[i]) ⟨i, f pp[i], by simp [List.getElem?_eq_getElem hi], le_refl _⟩

/-- `nm_three_overloads` (1): the `delta` overload is the `deltas` overload with a constant vector;
    the `deltas` overload is the general one on `simplexOf`. -/
theorem nelderMeadDelta_eq (ftol : Rat) (start : Pt) (delta : Rat) (fuel : Nat) :
    nelderMeadDelta rnd f ftol start delta fuel =
      nelderMeadDeltas rnd f ftol start (List.replicate start.length delta) fuel := rfl

theorem nelderMeadDeltas_eq (ftol : Rat) (start deltas : Pt) (fuel : Nat) (h0 : start ≠ [])
    (h : deltas.length = start.length) :
    nelderMeadDeltas rnd f ftol start deltas fuel = nelderMead rnd f ftol (simplexOf rnd start deltas) fuel := by
  unfold nelderMeadDeltas
  rw [if_neg (by simp [h0, h])]

/-- the shape guards: a malformed simplex, an empty starting point or a displacement vector of
    another length stop with a diagnostic BEFORE the objective is evaluated (empty trace) -/
theorem nelderMead_shape (ftol : Rat) (pp : List Pt) (fuel : Nat) (h : validSimplex pp = false) :
    nelderMead rnd f ftol pp fuel = some (.shape, []) := by
  unfold nelderMead; simp [h]

theorem nelderMeadDeltas_shape (ftol : Rat) (start deltas : Pt) (fuel : Nat) (h : start = [] ∨ deltas.length ≠ start.length) :
    nelderMeadDeltas rnd f ftol start deltas fuel = some (.shape, []) := by
  unfold nelderMeadDeltas; rw [if_pos h]

/-- a run that returns a point was given `n+1` vertices of `n ≥ 1` coordinates -/
theorem nelderMead_ok_shape (ftol : Rat) (pp : List Pt) (fuel : Nat) (pmin : Pt) (fmin m : Rat) (s : NM) (t : List EvN)
    (h : nelderMead rnd f ftol pp fuel = some (.ok pmin fmin s m, t)) : validSimplex pp = true := by
  by_contra hc
  rw [nelderMead_shape rnd f ftol pp fuel (by simpa using hc)] at h
  simp at h

theorem nelderMeadDelta_ok_start (ftol : Rat) (start : Pt) (delta : Rat) (fuel : Nat) (pmin : Pt) (fmin m : Rat) (s : NM)
    (t : List EvN) (h : nelderMeadDelta rnd f ftol start delta fuel = some (.ok pmin fmin s m, t)) : start ≠ [] := by
  intro e
  subst e
  simp [nelderMeadDelta, nelderMeadDeltas] at h

/-- `nm_three_overloads` (2): `simplexOf` is the documented initial simplex: `n+1` vertices;
    vertex 0 is the starting point, vertex `i ≥ 1` differs from it in coordinate `i-1` only,
    by the (rounded) addition of `deltas[i-1]`. -/
theorem simplexOf_length (start deltas : Pt) : (simplexOf rnd start deltas).length = start.length + 1 := by
  simp [simplexOf]

theorem simplexOf_entry (start deltas : Pt) (i j : Nat) (hi : i ≤ start.length) (hj : j < start.length) :
    ((simplexOf rnd start deltas).getD i []).getD j 0 =
      if i ≠ 0 ∧ j = i - 1 then rnd (start.getD j 0 + deltas.getD j 0) else start.getD j 0 := by
  have hi' : i < start.length + 1 := by omega
  simp [simplexOf, List.getD_eq_getElem?_getD, hi', hj]

theorem simplexOf_row_length (start deltas : Pt) (i : Nat) (hi : i ≤ start.length) :
    ((simplexOf rnd start deltas).getD i []).length = start.length := by
  have hi' : i < start.length + 1 := by omega
  simp [simplexOf, List.getD_eq_getElem?_getD, hi']

/-- history independence: `minimize` on an object that earlier runs have used is `minimize` on a
    fresh object — the result is a function of `(ftol, simplex, f)` only. -/
theorem nelderMeadOn_eq (obj : NM) (ftol : Rat) (pp : List Pt) (fuel : Nat) :
    nelderMeadOn rnd f obj ftol pp fuel = nelderMead rnd f ftol pp fuel := rfl

/-- all three overloads never end worse than any vertex of their documented initial simplex -/
theorem nelderMeadDelta_best (ftol : Rat) (start : Pt) (delta : Rat) (fuel : Nat) (pmin : Pt) (fmin m : Rat) (s : NM)
    (t : List EvN) (h : nelderMeadDelta rnd f ftol start delta fuel = some (.ok pmin fmin s m, t)) :
    fmin = f pmin ∧ ∀ v ∈ simplexOf rnd start (List.replicate start.length delta), f pmin ≤ f v := by
  have h0 := nelderMeadDelta_ok_start rnd f ftol start delta fuel pmin fmin m s t h
  rw [nelderMeadDelta_eq, nelderMeadDeltas_eq rnd f ftol start _ fuel h0 (by simp)] at h
  obtain ⟨_, b, _, _, _, g⟩ := nelderMead_best rnd f ftol _ fuel pmin fmin m s t h
  exact ⟨b, g⟩

end

/-- … hence every member of a sequence of runs on one object is the fresh-object run, whatever
    the object went through before -/
theorem nmSeqOn_eq_fresh (rnd : Rat → Rat) (ftol : Rat) (fuel : Nat) : ∀ (obj : NM) (runs : List ((Pt → Rat) × List Pt)),
    nmSeqOn rnd ftol fuel obj runs = runs.map (fun r => nelderMead rnd r.1 ftol r.2 fuel)
  | _, [] => rfl
  | obj, (g, pp) :: rest => by
    unfold nmSeqOn
    simp only [List.map_cons, nelderMeadOn_eq]
    congr 1
    exact nmSeqOn_eq_fresh rnd ftol fuel _ rest

/-- argument aliasing is irrelevant (value semantics): a run whose simplex argument is the object's
    own `current_simplex` (or is built from its row 0) is the run of a FRESH object on a copy of
    that simplex. -/
theorem runArg_value_semantics (rnd : Rat → Rat) (f : Pt → Rat) (obj : NM) (ftol : Rat) (fuel : Nat) (a : Arg) :
    runArg rnd f obj ftol fuel a = (argSimplex rnd obj a).bind (fun pp => nelderMead rnd f ftol pp fuel) := by
  unfold runArg
  cases argSimplex rnd obj a <;> simp [nelderMeadOn_eq]

theorem restart_own_simplex (rnd : Rat → Rat) (f : Pt → Rat) (obj : NM) (ftol : Rat) (fuel : Nat) :
    runArg rnd f obj ftol fuel .own = nelderMead rnd f ftol obj.p fuel := by
  rw [runArg_value_semantics]; rfl

/-- re-entrancy: the outer run of a nested minimisation is the plain run on the function
    `x ↦ inner fmin`; so it is never worse than any vertex of its initial simplex and reports the
    objective at the returned point — whatever the inner runs do. -/
theorem nelderMeadNested_best (rnd : Rat → Rat) (g : Pt → Rat) (ftolOut : Rat) (start : Pt) (delta ftolIn : Rat) (t0 : Pt)
    (deltaIn : Rat) (fuel : Nat) (pmin : Pt) (fmin m : Rat) (s : NM) (t : List EvN)
    (h : nelderMeadNested rnd g ftolOut start delta ftolIn t0 deltaIn fuel = some (.ok pmin fmin s m, t)) :
    let F := fun x => (nestedObjective rnd g ftolIn t0 deltaIn fuel x).getD 0
    s.y = s.p.map F ∧ fmin = F pmin ∧ ∀ v ∈ simplexOf rnd start (List.replicate start.length delta), F pmin ≤ F v := by
  intro F
  unfold nelderMeadNested at h
  have h0 := nelderMeadDelta_ok_start rnd F ftolOut start delta fuel pmin fmin m s t h
  rw [nelderMeadDelta_eq, nelderMeadDeltas_eq rnd F ftolOut start _ fuel h0 (by simp)] at h
  obtain ⟨a, b, _, _, _, g'⟩ := nelderMead_best rnd F ftolOut _ fuel pmin fmin m s t h
  exact ⟨a, b, g'⟩

/-! ## non-vacuity: concrete runs that terminate with `ok` (so the hypotheses are met) -/

example : ∃ x fx m t, findMinimum (rndK 8) (fun x => (x - 3) * (x - 3)) 0 1 (1/100) 20 = (.ok x fx m, t) :=
  exists_of_isOk (by decide +kernel)

example : ∃ x fx m t, findMaximum (rndK 8) (fun x => 4 - (x - 3) * (x - 3)) 0 1 (1/100) 20 = (.ok x fx m, t) :=
  exists_of_isOk (by decide +kernel)

example : min (0 : Rat) 2 ≤ 1 ∧ (1 : Rat) ≤ max 0 2 := by constructor <;> norm_num

example : ∃ s t, bracket (rndK 8) (fun x => (x - 3) * (x - 3)) 0 1 20 = (some s, t) := by
  have h : (bracket (rndK 8) (fun x => (x - 3) * (x - 3)) 0 1 20).1.isSome = true := by decide +kernel
  obtain ⟨s, hs⟩ := Option.isSome_iff_exists.mp h
  exact ⟨s, _, Prod.ext hs rfl⟩

example : ∃ p fm s m t, nelderMeadDelta (rndK 8)
    (fun x => (x.getD 0 0 - 1) * (x.getD 0 0 - 1) + (x.getD 1 0) * (x.getD 1 0)) (1/10) [0, 1] 1 60 =
      some (.ok p fm s m, t) :=
  exists_of_isOkN (by decide +kernel)

end Lp.C11
