import LpModel.C11
namespace Lp.C11

theorem findMaximum_neg (rnd : Rat → Rat) (f : Rat → Rat) (xl xr tol : Rat) (fuel : Nat) :
    findMaximum rnd f xl xr tol fuel = findMinimum rnd (fun x => -1 * f x) xl xr tol fuel := rfl

end Lp.C11
