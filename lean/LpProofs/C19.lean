/-
  C19 — property theorems (DESIGN.md §6 C19 [T1]).  Helper lemmas: LpProofs/C19/*.lean.
  Sections: 1 workload, 2 range, 3 linear/log space, 4 closest location, 5 list templates,
  6 statistics laws.
-/
import LpModel.C19
import LpProofs.C19.Workload
import LpProofs.C19.Range
import LpProofs.C19.Closest
import LpProofs.C19.Stats
import LpProofs.C19.Space
import Mathlib.Tactic.IntervalCases
import Mathlib.Tactic.NormNum
-- coverage extension: DataPoint ordering operators and std::sort (property theorems in this module)
import LpProofs.C19.DataPoint
import Mathlib.Tactic.Ring
import Mathlib.Tactic.Linarith
import Mathlib.Tactic.FieldSimp
import Mathlib.Tactic.Positivity
namespace Lp.C19

/-! ## 1. Workload_Distribution -/

/-- closed form: entry `j` is `j·q + max(0, j − (workers − r))`, `q = tasks / workers`, `r = tasks % workers`. -/
theorem workload_closed_form (w t : Nat) (hw : 1 ≤ w) :
    ∃ l, workload w t = some l ∧ l.length = w + 1 ∧
      ∀ j, j ≤ w → l[j]? = some (j * (t / w) + (j - (w - t % w))) := by
  refine ⟨_, by unfold workload; rw [if_neg (by omega)], ?_, ?_⟩
  · unfold workloadAdd; rw [workloadStep_length]; simp [workloadBase]
  · intro j hj
    have hr : t % w ≤ w := Nat.le_of_lt (Nat.mod_lt _ (by omega))
    rw [workloadAdd_getElem? w _ hr _ j hj]
    simp [workloadBase, show j < w + 1 by omega]

/-- for all `workers ≥ 1`, `tasks`: `workers+1` entries, first `0`, last `tasks`, and the share of
    worker `i` is `q`, plus one exactly for the last `r` workers (`i ≥ workers − r`). -/
theorem workload_spec (w t : Nat) (hw : 1 ≤ w) :
    ∃ l, workload w t = some l ∧ l.length = w + 1 ∧ l[0]? = some 0 ∧ l[w]? = some t ∧
      ∀ i, i < w → ∃ a b, l[i]? = some a ∧ l[i + 1]? = some b ∧
        b = a + t / w + (if w - t % w ≤ i then 1 else 0) := by
  obtain ⟨l, h1, h2, h3⟩ := workload_closed_form w t hw
  have hr : t % w < w := Nat.mod_lt _ (by omega)
  refine ⟨l, h1, h2, ?_, ?_, ?_⟩
  · rw [h3 0 (by omega)]; simp
  · rw [h3 w (by omega)]
    congr 1
    have := Nat.div_add_mod t w
    have e : w - (w - t % w) = t % w := by omega
    rw [e]; linarith
  · intro i hi
    refine ⟨_, _, h3 i (by omega), h3 (i + 1) (by omega), ?_⟩
    rw [Nat.succ_mul]
    split <;> omega

/-- consequences: the index list is non-decreasing and exactly `tasks % workers` shares equal `q+1`. -/
theorem workload_monotone_count (w t : Nat) (hw : 1 ≤ w) :
    ∃ l, workload w t = some l ∧ l.Pairwise (· ≤ ·) ∧
      ((List.range w).filter
        (fun i => decide (l[i + 1]?.getD 0 = l[i]?.getD 0 + t / w + 1))).length = t % w := by
  obtain ⟨l, h1, h2, h3⟩ := workload_closed_form w t hw
  have hr : t % w < w := Nat.mod_lt _ (by omega)
  refine ⟨l, h1, ?_, ?_⟩
  · rw [List.pairwise_iff_getElem]
    intro i j hi hj hij
    have ei := h3 i (by omega)
    have ej := h3 j (by omega)
    rw [List.getElem?_eq_getElem hi] at ei
    rw [List.getElem?_eq_getElem hj] at ej
    injection ei with ei; injection ej with ej
    rw [ei, ej]
    have : i * (t / w) ≤ j * (t / w) := Nat.mul_le_mul_right _ (by omega)
    omega
  · have : (List.range w).filter (fun i => decide (l[i + 1]?.getD 0 = l[i]?.getD 0 + t / w + 1)) =
        (List.range w).filter (fun i => decide (w - t % w ≤ i)) := by
      apply List.filter_congr
      intro i hi
      rw [List.mem_range] at hi
      rw [h3 i (by omega), h3 (i + 1) (by omega)]
      simp only [Option.getD_some, Nat.succ_mul, decide_eq_decide]
      omega
    rw [this, filter_ge_range_length]; omega

example : workload 4 10 = some [0, 2, 4, 7, 10] := by decide

/-! ## 2. Range -/

/-- `step ≥ 1`: the half-open range, ascending if `mn < mx`, descending if `mn > mx`, empty if equal. -/
theorem range_spec (mn mx step : Int) (hs : 1 ≤ step) :
    ∃ l, range mn mx step = some l ∧
      (mn < mx → ∃ n : Nat, l = (List.range n).map (fun (k : Nat) => mn + (k : Int) * step) ∧
          (∀ k : Nat, k < n → mn + (k : Int) * step < mx) ∧ mx ≤ mn + (n : Int) * step) ∧
      (mn > mx → ∃ n : Nat, l = (List.range n).map (fun (k : Nat) => mn - (k : Int) * step) ∧
          (∀ k : Nat, k < n → mn - (k : Int) * step > mx) ∧ mx ≥ mn - (n : Int) * step) ∧
      (mn = mx → l = []) := by
  unfold range
  by_cases hgt : mn > mx
  · rw [if_pos ⟨hgt, by omega⟩]
    refine ⟨_, rfl, by intro h; omega, fun _ => rangeDesc_spec mx step hs _ mn (le_refl _), by intro h; omega⟩
  · rw [if_neg (by omega), if_pos (by omega)]
    refine ⟨_, rfl, fun _ => rangeAsc_spec mx step hs _ mn (le_refl _), by intro h; omega, ?_⟩
    intro h; subst h; simp [rangeAsc]

/-- `step ≤ 0`: the ascending loop `for (i = mn; i < mx; i += step)` never terminates when
    `mn < mx` (`none`); otherwise its condition fails at once. -/
theorem range_nonpositive_step (mn mx step : Int) (hs : step ≤ 0) :
    (mn < mx → range mn mx step = none) ∧ (mx ≤ mn → range mn mx step = some []) := by
  unfold range
  constructor
  · intro h; rw [if_neg (by omega), if_neg (by omega), if_pos h]
  · intro h; rw [if_neg (by omega), if_neg (by omega), if_neg (by omega)]

example : range 2 9 3 = some [2, 5, 8] := by decide
example : range 9 2 3 = some [9, 6, 3] := by decide

/-- `Range(max)`: `0, 1, …, max-1` for `max ≥ 0`; as coded a negative `max` counts down
    `0, -1, …, max+1`. -/
theorem range1_spec (mx : Int) :
    (0 ≤ mx → range1 mx = some ((List.range mx.toNat).map (fun (k : Nat) => (k : Int)))) ∧
    (mx < 0 → range1 mx = some ((List.range (-mx).toNat).map (fun (k : Nat) => -(k : Int)))) := by
  obtain ⟨l, h1, hasc, hdesc, heq⟩ := range_spec 0 mx 1 (le_refl _)
  unfold range1
  rw [h1]
  constructor
  · intro h0
    rcases Int.lt_or_eq_of_le h0 with hlt | rfl
    · obtain ⟨n, rfl, h2, h3⟩ := hasc hlt
      have : n = mx.toNat := by
        cases n with
        | zero => omega
        | succ n => have := h2 n (by omega); omega
      subst this
      congr 1; apply List.map_congr_left; intro k _; ring
    · rw [heq rfl]; rfl
  · intro hneg
    obtain ⟨n, rfl, h2, h3⟩ := hdesc hneg
    have : n = (-mx).toNat := by
      cases n with
      | zero => omega
      | succ n => have := h2 n (by omega); omega
    subst this
    congr 1; apply List.map_congr_left; intro k _; ring

example : range1 4 = some [0, 1, 2, 3] := by decide

/-! ## 3. Linear_Space, Log_Space -/

/-- degenerate requests (`steps < 2` or `min = max`) return `[min]`. -/
theorem linearSpace_degenerate (mn mx : Rat) (steps : Nat) (h : steps < 2 ∨ mn = mx) :
    linearSpace mn mx steps = [mn] := by
  unfold linearSpace; rw [if_pos h]

/-- element `i` is `min + i·(max−min)/(steps−1)`. -/
theorem linearSpace_getElem? (mn mx : Rat) (steps : Nat) (hs : 2 ≤ steps) (hne : mn ≠ mx)
    (i : Nat) (hi : i < steps) :
    (linearSpace mn mx steps)[i]? = some (mn + (i : Rat) * ((mx - mn) / ((steps : Rat) - 1))) := by
  unfold linearSpace
  rw [if_neg (by rintro (h | h); omega; exact hne h)]
  simp [hi]

/-- `steps ≥ 2`, `min ≠ max`: `steps` points, first `= min`, last `= max` exactly, equal spacing,
    strictly monotone in the direction of `max − min`. -/
theorem linearSpace_spec (mn mx : Rat) (steps : Nat) (hs : 2 ≤ steps) (hne : mn ≠ mx) :
    let l := linearSpace mn mx steps
    let d := (mx - mn) / ((steps : Rat) - 1)
    l.length = steps ∧ l[0]? = some mn ∧ l[steps - 1]? = some mx ∧
    (∀ i, i < steps → l[i]? = some (mn + (i : Rat) * d)) ∧
    (∀ i, i + 1 < steps → ∃ a b, l[i]? = some a ∧ l[i + 1]? = some b ∧ b - a = d) ∧
    (mn < mx → l.Pairwise (· < ·)) ∧ (mx < mn → l.Pairwise (· > ·)) := by
  intro l d
  have hcond : ¬ (steps < 2 ∨ mn = mx) := by rintro (h | h); omega; exact hne h
  have hl : l = (List.range steps).map (fun (i : Nat) => mn + (i : Rat) * d) := by
    simp only [l, d]; unfold linearSpace; rw [if_neg hcond]
  have hget : ∀ i, i < steps → l[i]? = some (mn + (i : Rat) * d) :=
    fun i hi => linearSpace_getElem? mn mx steps hs hne i hi
  have hs1 : ((steps : Rat) - 1) ≠ 0 := by
    have : (2 : Rat) ≤ (steps : Rat) := by exact_mod_cast hs
    intro h; linarith
  have hs1pos : (0 : Rat) < (steps : Rat) - 1 := by
    have : (2 : Rat) ≤ (steps : Rat) := by exact_mod_cast hs
    linarith
  refine ⟨by rw [hl]; simp, ?_, ?_, hget, ?_, ?_, ?_⟩
  · rw [hget 0 (by omega)]; simp
  · rw [hget (steps - 1) (by omega)]
    congr 1
    have : ((steps - 1 : Nat) : Rat) = (steps : Rat) - 1 := by
      rw [Nat.cast_sub (by omega)]; simp
    rw [this]; simp only [d]; field_simp; ring
  · intro i hi
    refine ⟨_, _, hget i (by omega), hget (i + 1) hi, ?_⟩
    push_cast; ring
  · intro hlt
    have hd : 0 < d := div_pos (by linarith) hs1pos
    rw [hl, List.pairwise_map]
    refine List.Pairwise.imp ?_ List.pairwise_lt_range
    intro a b hab
    have : (a : Rat) < (b : Rat) := by exact_mod_cast hab
    nlinarith
  · intro hlt
    have hd : d < 0 := div_neg_of_neg_of_pos (by linarith) hs1pos
    rw [hl, List.pairwise_map]
    refine List.Pairwise.imp ?_ List.pairwise_lt_range
    intro a b hab
    have : (a : Rat) < (b : Rat) := by exact_mod_cast hab
    show mn + (a : Rat) * d > mn + (b : Rat) * d
    nlinarith

example : linearSpace 0 1 3 = [0, 1/2, 1] := by decide +kernel

/-- degenerate requests return `[min]`. -/
theorem logSpace_degenerate (exp log : Rat → Rat) (mn mx : Rat) (steps : Nat)
    (h : steps < 2 ∨ mn = mx) : logSpace exp log mn mx steps = [mn] := by
  unfold logSpace; rw [if_pos h]

/-- `exp`/`log` are parameters; only the three identities the code relies on are assumed, at
    the two end points (over `Rat` they cannot hold for all arguments). -/
theorem logSpace_spec (exp log : Rat → Rat) (mn mx : Rat) (steps : Nat) (hs : 2 ≤ steps)
    (hne : mn ≠ mx)
    (hmn : exp (log mn) = mn) (hmx : exp (log mx) = mx)
    (hq : log (mx / mn) = log mx - log mn) :
    let l := logSpace exp log mn mx steps
    let d := (log mx - log mn) / ((steps : Rat) - 1)
    l.length = steps ∧ l[0]? = some mn ∧ l[steps - 1]? = some mx ∧
    (∀ i, i < steps → l[i]? = some (exp (log mn + (i : Rat) * d))) ∧
    ((∀ y, log (exp y) = y) →
      ∀ i, i + 1 < steps → ∃ a b, l[i]? = some a ∧ l[i + 1]? = some b ∧ log b - log a = d) := by
  intro l d
  have hcond : ¬ (steps < 2 ∨ mn = mx) := by rintro (h | h); omega; exact hne h
  have hl : l = (List.range steps).map (fun (i : Nat) => exp (log mn + (i : Rat) * d)) := by
    simp only [l, d]; unfold logSpace; rw [if_neg hcond, hq]
  have hget : ∀ i, i < steps → l[i]? = some (exp (log mn + (i : Rat) * d)) := by
    intro i hi; rw [hl]; simp [hi]
  have hs1 : ((steps : Rat) - 1) ≠ 0 := by
    have : (2 : Rat) ≤ (steps : Rat) := by exact_mod_cast hs
    intro h; linarith
  refine ⟨by rw [hl]; simp, ?_, ?_, hget, ?_⟩
  · rw [hget 0 (by omega)]; simp [hmn]
  · rw [hget (steps - 1) (by omega)]
    congr 1
    have : ((steps - 1 : Nat) : Rat) = (steps : Rat) - 1 := by
      rw [Nat.cast_sub (by omega)]; simp
    rw [this]
    have : log mn + ((steps : Rat) - 1) * d = log mx := by
      simp only [d]; field_simp; ring
    rw [this, hmx]
  · intro hle i hi
    refine ⟨_, _, hget i (by omega), hget (i + 1) hi, ?_⟩
    rw [hle, hle]; push_cast; ring

example : ∃ (exp log : Rat → Rat) (mn mx : Rat), mn ≠ mx ∧ exp (log mn) = mn ∧ exp (log mx) = mx ∧
    log (mx / mn) = log mx - log mn ∧ (∀ y, log (exp y) = y) :=
  ⟨id, id, 2, 4, by decide, rfl, rfl, by simp only [id]; norm_num, fun _ => rfl⟩

/-! ### 3b. the repaired `Linear_Space` (overflow guard) and `Log_Space` (two-ended product form) -/

/-- the overflow branch of the repaired `Linear_Space` denotes the same points: the guard only decides
    how the same rational numbers are computed in `double` -/
theorem linearSpace_interp_noop (mn mx : Rat) (steps : Nat) :
    linearSpaceInterp mn mx steps = linearSpace mn mx steps := by
  unfold linearSpaceInterp linearSpace
  split
  · rfl
  · rename_i h
    have hs : 2 ≤ steps := by
      by_contra hc; exact h (Or.inl (by omega))
    have hs1 : ((steps : Rat) - 1) ≠ 0 := by
      have : (2 : Rat) ≤ (steps : Rat) := by exact_mod_cast hs
      intro h0; linarith
    apply List.map_congr_left
    intro i _
    simp only []
    field_simp
    ring

/-- repaired `Log_Space`: degenerate requests unchanged -/
theorem logSpace2_degenerate (exp log : Rat → Rat) (mn mx : Rat) (steps : Nat)
    (h : steps < 2 ∨ mn = mx) : logSpace2 exp log mn mx steps = [mn] := by
  unfold logSpace2; rw [if_pos h]

/-- repaired `Log_Space`, `steps ≥ 2`, `min ≠ max`: `steps` points, the first is `min` and the last is
    `max` **exactly**, needing of `exp` only `exp 0 = 1` (no `exp∘log` round trip any more). -/
theorem logSpace2_ends (exp log : Rat → Rat) (mn mx : Rat) (steps : Nat) (hs : 2 ≤ steps)
    (hne : mn ≠ mx) (h0 : exp 0 = 1) :
    let l := logSpace2 exp log mn mx steps
    l.length = steps ∧ l[0]? = some mn ∧ l[steps - 1]? = some mx := by
  intro l
  have hcond : ¬ (steps < 2 ∨ mn = mx) := by rintro (h | h); omega; exact hne h
  simp only [l]
  unfold logSpace2
  rw [if_neg hcond]
  refine ⟨by simp, ?_, ?_⟩
  · simp [show 0 < steps by omega, h0]
  · simp only [List.getElem?_map, List.getElem?_range (show steps - 1 < steps by omega), Option.map_some]
    rw [if_neg (by omega)]
    have : steps - 1 - (steps - 1) = 0 := by omega
    simp [h0]

/-- … and equally spaced in the logarithm, through the junction of the two halves: given, at the points
    used, `log (a·exp x) = log a + x` from either end and `log (max/min) = log max − log min`, the
    logarithm of point `i` is `log min + i·d` with `d = (log max − log min)/(steps−1)`. -/
theorem logSpace2_log_spacing (exp log : Rat → Rat) (mn mx : Rat) (steps : Nat) (hs : 2 ≤ steps)
    (hne : mn ≠ mx)
    (hq : log (mx / mn) = log mx - log mn)
    (hlo : ∀ k : Nat, k < steps →
      log (mn * exp ((k : Rat) * ((log mx - log mn) / ((steps : Rat) - 1)))) =
        log mn + (k : Rat) * ((log mx - log mn) / ((steps : Rat) - 1)))
    (hhi : ∀ k : Nat, k < steps →
      log (mx * exp (-1 * (k : Rat) * ((log mx - log mn) / ((steps : Rat) - 1)))) =
        log mx - (k : Rat) * ((log mx - log mn) / ((steps : Rat) - 1))) :
    let l := logSpace2 exp log mn mx steps
    let d := (log mx - log mn) / ((steps : Rat) - 1)
    (∀ i, i < steps → ∃ x, l[i]? = some x ∧ log x = log mn + (i : Rat) * d) ∧
    (∀ i, i + 1 < steps → ∃ a b, l[i]? = some a ∧ l[i + 1]? = some b ∧ log b - log a = d) := by
  intro l d
  have hcond : ¬ (steps < 2 ∨ mn = mx) := by rintro (h | h); omega; exact hne h
  have hs1 : ((steps : Rat) - 1) ≠ 0 := by
    have : (2 : Rat) ≤ (steps : Rat) := by exact_mod_cast hs
    intro h; linarith
  have key : ∀ i, i < steps → ∃ x, l[i]? = some x ∧ log x = log mn + (i : Rat) * d := by
    intro i hi
    simp only [l]
    unfold logSpace2
    rw [if_neg hcond, hq]
    simp only [List.getElem?_map, List.getElem?_range hi, Option.map_some]
    by_cases h2 : 2 * i < steps
    · rw [if_pos h2]
      exact ⟨_, rfl, hlo i hi⟩
    · rw [if_neg h2]
      refine ⟨_, rfl, ?_⟩
      rw [hhi (steps - 1 - i) (by omega)]
      have e : ((steps - 1 - i : Nat) : Rat) = (steps : Rat) - 1 - (i : Rat) := by
        rw [Nat.cast_sub (by omega), Nat.cast_sub (by omega)]; simp
      rw [e]
      simp only [d]
      field_simp
      ring
  refine ⟨key, ?_⟩
  intro i hi
  obtain ⟨a, ha, la⟩ := key i (by omega)
  obtain ⟨b, hb, lb⟩ := key (i + 1) hi
  refine ⟨a, b, ha, hb, ?_⟩
  rw [la, lb]; push_cast; ring

example : (2 : Nat) ≤ 3 ∧ (1 : Rat) ≠ 4 ∧ exT 0 = 1 ∧ lgT (4 / 1) = lgT 4 - lgT 1 ∧
    (∀ k : Nat, k < 3 → lgT (1 * exT ((k : Rat) * ((lgT 4 - lgT 1) / (((3 : Nat) : Rat) - 1)))) =
        lgT 1 + (k : Rat) * ((lgT 4 - lgT 1) / (((3 : Nat) : Rat) - 1))) ∧
    (∀ k : Nat, k < 3 → lgT (4 * exT (-1 * (k : Rat) * ((lgT 4 - lgT 1) / (((3 : Nat) : Rat) - 1)))) =
        lgT 4 - (k : Rat) * ((lgT 4 - lgT 1) / (((3 : Nat) : Rat) - 1))) := by
  refine ⟨by omega, by norm_num, by simp [exT], by norm_num [lgT], ?_, ?_⟩
  · intro k hk; interval_cases k <;> norm_num [lgT, exT]
  · intro k hk; interval_cases k <;> norm_num [lgT, exT]

/-! ## 4. Locate_Closest_Location -/

/-- an unsorted list is rejected with the diagnostic. -/
theorem locateClosest_unsorted (l : List Rat) (t : Rat) (h : isSorted l = false) :
    locateClosest l t = .error .diag := by
  unfold locateClosest; split <;> simp [h]

/-- an empty list has no closest location: diagnostic (fix 48e4c84; before, `size() - 1` wrapped
    around and 4294967295 was returned) -/
theorem locateClosest_empty (t : Rat) : locateClosest [] t = .error .diag := rfl

/-- every non-empty sorted (non-strictly) list, every target: the returned index is valid and no
    element is strictly nearer to the target (covers below / above / ties / duplicates). -/
theorem locateClosest_nearest (l : List Rat) (t : Rat) (hne : l ≠ []) (hs : isSorted l = true) :
    ∃ (i : Nat) (hi : i < l.length), locateClosest l t = .ok i ∧
      ∀ (j : Nat) (hj : j < l.length), |l[i] - t| ≤ |l[j] - t| := by
  have hlen : 0 < l.length := List.length_pos_iff.mpr hne
  have hub := upperBound_le_length l t
  unfold locateClosest
  rw [if_neg (by omega)]
  simp only [hs, Bool.not_true, Bool.false_eq_true, if_false]
  by_cases h1 : upperBound l t = l.length
  · -- target at or above the last element
    simp only [h1, if_true]
    refine ⟨l.length - 1, by omega, rfl, ?_⟩
    intro j hj
    have a1 : l[l.length - 1] ≤ t := upperBound_below l t _ (by omega) (by omega)
    have a2 : l[j] ≤ l[l.length - 1] := sorted_getElem_le hs (by omega) (by omega)
    rw [abs_of_nonpos (by linarith), abs_of_nonpos (by linarith)]; linarith
  · simp only [h1, if_false]
    have hlt : upperBound l t < l.length := by omega
    have hab := upperBound_above l t hlt
    by_cases h0 : upperBound l t = 0
    · -- target below the first element
      simp only [h0, if_true]
      refine ⟨0, hlen, rfl, ?_⟩
      intro j hj
      have a1 : t < l[0] := by simpa [h0] using hab
      have a2 : l[0] ≤ l[j] := sorted_getElem_le hs (by omega) hj
      rw [abs_of_nonneg (by linarith), abs_of_nonneg (by linarith)]; linarith
    · simp only [h0, if_false]
      set idx := upperBound l t with hidx
      have hb : l[idx - 1] ≤ t := upperBound_below l t _ (by omega) (by omega)
      have e1 : l.getD (idx - 1) 0 = l[idx - 1] := by
        rw [List.getD_eq_getElem?_getD, List.getElem?_eq_getElem (by omega)]; rfl
      have e2 : l.getD idx 0 = l[idx] := by
        rw [List.getD_eq_getElem?_getD, List.getElem?_eq_getElem (by omega)]; rfl
      rw [e1, e2, rabs_eq_abs, rabs_eq_abs]
      have d1 : |l[idx - 1] - t| = t - l[idx - 1] := by rw [abs_of_nonpos (by linarith)]; ring
      have d2 : |l[idx] - t| = l[idx] - t := abs_of_nonneg (by linarith)
      -- every element: left part is ≤ l[idx-1] ≤ t, right part ≥ l[idx] > t
      have key : ∀ (j : Nat) (hj : j < l.length),
          (j < idx → |l[j] - t| = t - l[j] ∧ l[j] ≤ l[idx - 1]) ∧
          (idx ≤ j → |l[j] - t| = l[j] - t ∧ l[idx] ≤ l[j]) := by
        intro j hj
        constructor
        · intro hji
          have : l[j] ≤ l[idx - 1] := sorted_getElem_le hs (by omega) (by omega)
          exact ⟨by rw [abs_of_nonpos (by linarith)]; ring, this⟩
        · intro hji
          have : l[idx] ≤ l[j] := sorted_getElem_le hs hji hj
          exact ⟨abs_of_nonneg (by linarith), this⟩
      by_cases hd : |l[idx - 1] - t| < |l[idx] - t|
      · rw [if_pos hd]
        refine ⟨idx - 1, by omega, rfl, ?_⟩
        intro j hj
        rw [d1, d2] at hd
        rw [d1]
        by_cases hji : j < idx
        · obtain ⟨e, le⟩ := (key j hj).1 hji; rw [e]; linarith
        · obtain ⟨e, le⟩ := (key j hj).2 (by omega); rw [e]; linarith
      · rw [if_neg hd]
        refine ⟨idx, hlt, rfl, ?_⟩
        intro j hj
        rw [d1, d2] at hd
        rw [d2]
        by_cases hji : j < idx
        · obtain ⟨e, le⟩ := (key j hj).1 hji; rw [e]; linarith
        · obtain ⟨e, le⟩ := (key j hj).2 (by omega); rw [e]; linarith

example : isSorted [1, 2, 2, 5] = true ∧ locateClosest [1, 2, 2, 5] (7/2) = .ok 3 := by decide +kernel

/-- The interior decision, exactly: with neighbours `a = l[idx-1] ≤ t < l[idx] = b` the lower index is
    returned iff `t` is strictly below the exact midpoint `(a+b)/2`; a tie goes to the upper index.
    (Over ℚ the comparison of the two distances and the midpoint test coincide; in `double` they
    need not: `a + b` can overflow or round — the regime the near-`DBL_MAX` and few-ulps input
    families probe against this exact model.) -/
theorem locateClosest_interior (l : List Rat) (t : Rat) (hs : isSorted l = true)
    (h0 : 0 < upperBound l t) (h1 : upperBound l t < l.length) :
    locateClosest l t =
      .ok (if t < (l[upperBound l t - 1]'(by omega) + l[upperBound l t]) / 2
           then upperBound l t - 1 else upperBound l t) := by
  have hb : l[upperBound l t - 1]'(by omega) ≤ t := upperBound_below l t _ (by omega) (by omega)
  have ha : t < l[upperBound l t] := upperBound_above l t h1
  unfold locateClosest
  rw [if_neg (by omega)]
  simp only [hs, Bool.not_true, Bool.false_eq_true, if_false]
  rw [if_neg (by omega), if_neg (by omega)]
  have e1 : l.getD (upperBound l t - 1) 0 = l[upperBound l t - 1]'(by omega) := by
    rw [List.getD_eq_getElem?_getD, List.getElem?_eq_getElem (by omega)]; rfl
  have e2 : l.getD (upperBound l t) 0 = l[upperBound l t] := by
    rw [List.getD_eq_getElem?_getD, List.getElem?_eq_getElem (by omega)]; rfl
  simp only [e1, e2, rabs_eq_abs]
  rw [abs_of_nonpos (by linarith), abs_of_nonneg (by linarith)]
  by_cases hm : t < (l[upperBound l t - 1]'(by omega) + l[upperBound l t]) / 2
  · rw [if_pos hm, if_pos (by linarith)]
  · rw [if_neg hm, if_neg (by linarith)]

/-- the two ways of deciding agree in exact arithmetic -/
theorem closest_midpoint_rule (a b t : Rat) (h1 : a ≤ t) (h2 : t ≤ b) :
    |a - t| < |b - t| ↔ t < (a + b) / 2 := by
  rw [abs_of_nonpos (by linarith), abs_of_nonneg (by linarith)]
  constructor <;> intro h <;> linarith

example : locateClosest [0, 1, 4] 2 = .ok 1 ∧ locateClosest [0, 1, 4] (5/2) = .ok 2 ∧
    locateClosest [0, 1, 4] 3 = .ok 2 := by decide +kernel

/-- Comparison by distance is the property clause: for a non-empty sorted list, an index `k` is
    "an index of an element nearest to the target" (`∀ j, |l[k]−t| ≤ |l[j]−t|`) **iff** its exact
    distance equals the distance of the model's index.  Which of several minimisers is returned
    (duplicates of the nearest value, or an exact tie between two different neighbours) is left free by
    the property, so the comparator compares `|l[idx] − t|`, not `idx`. -/
theorem locateClosest_any_minimiser (l : List Rat) (t : Rat) (hne : l ≠ []) (hs : isSorted l = true) :
    ∃ (i : Nat) (hi : i < l.length), locateClosest l t = .ok i ∧
      ∀ (k : Nat) (hk : k < l.length),
        (∀ (j : Nat) (hj : j < l.length), |l[k] - t| ≤ |l[j] - t|) ↔ |l[k] - t| = |l[i] - t| := by
  obtain ⟨i, hi, hok, hmin⟩ := locateClosest_nearest l t hne hs
  refine ⟨i, hi, hok, fun k hk => ⟨fun h => le_antisymm (h i hi) (hmin k hk), fun h j hj => ?_⟩⟩
  rw [h]; exact hmin j hj

-- duplicates of the nearest value: the model returns the last of them, index 0 is as near
example : locateClosest [1, 1, 1, 2] (6/5) = .ok 2 ∧ |([1, 1, 1, 2] : List Rat)[0] - 6/5| = |([1, 1, 1, 2] : List Rat)[2] - 6/5| := by
  constructor
  · decide +kernel
  · norm_num

/-! ## 5. List templates -/

section Lists
variable {α : Type}

/-- rectangular, non-empty outer list: the result has `m` rows of length `n`, and
    `r[j][i] = ls[i][j]`. -/
theorem transposeLists_spec [Inhabited α] (ls : List (List α)) (m : Nat) (hne : ls ≠ [])
    (hrect : ∀ l ∈ ls, l.length = m) :
    ∃ r, transposeLists ls = .ok r ∧ r.length = m ∧ (∀ row ∈ r, row.length = ls.length) ∧
      ∀ i j, i < ls.length → j < m →
        ∃ x, (ls[i]?.bind (·[j]?)) = some x ∧ (r[j]?.bind (·[i]?)) = some x := by
  cases ls with
  | nil => exact absurd rfl hne
  | cons l0 tl =>
    have hm : l0.length = m := hrect l0 (by simp)
    have hall : (l0 :: tl).all (fun l => decide (l.length = l0.length)) = true := by
      simp only [List.all_eq_true, decide_eq_true_eq]
      intro l hl; rw [hrect l hl, hm]
    refine ⟨(List.range m).map (fun j => (l0 :: tl).map (fun l => l.getD j default)), ?_, ?_, ?_, ?_⟩
    · unfold transposeLists
      rw [hm] at hall
      simp only [hm, hall, if_true]
    · simp
    · intro row hrow
      simp only [List.mem_map, List.mem_range] at hrow
      obtain ⟨j, _, rfl⟩ := hrow
      simp
    · intro i j hi hj
      have hlen : ((l0 :: tl)[i]).length = m := hrect _ (List.getElem_mem hi)
      refine ⟨((l0 :: tl)[i])[j], ?_, ?_⟩
      · rw [List.getElem?_eq_getElem hi]
        simp only [Option.bind_some]
        exact List.getElem?_eq_getElem (by omega)
      · rw [List.getElem?_eq_getElem (by simpa using hj)]
        simp only [List.getElem_map, List.getElem_range, Option.bind_some]
        rw [List.getElem?_eq_getElem (by simpa using hi)]
        simp only [List.getElem_map, List.getD_eq_getElem?_getD]
        rw [List.getElem?_eq_getElem (by omega)]
        rfl

/-- ragged input (some row differs in length from the first) → diagnostic. -/
theorem transposeLists_ragged [Inhabited α] (ls : List (List α))
    (h : ∃ l ∈ ls, l.length ≠ (ls.headD []).length) : transposeLists ls = .error .diag := by
  cases ls with
  | nil => obtain ⟨l, hl, _⟩ := h; simp at hl
  | cons l0 tl =>
    obtain ⟨l, hl, hne⟩ := h
    unfold transposeLists
    have : ¬ ((l0 :: tl).all (fun l => decide (l.length = l0.length)) = true) := by
      simp only [List.all_eq_true, decide_eq_true_eq]
      intro hall
      exact hne (hall l hl)
    simp only [this]
    rfl

/-- the transpose of zero lists is the empty list (fix 9697404; before, `lists[0]` of an empty vector
    was read) -/
theorem transposeLists_empty [Inhabited α] : transposeLists ([] : List (List α)) = .ok [] := rfl

example : transposeLists [[1, 2, 3], [4, 5, 6]] = .ok [[1, 4], [2, 5], [3, 6]] := by decide
example : [[1, 2, 3], [4, 5, 6]] ≠ [] ∧ ∀ l ∈ [[1, 2, 3], [4, 5, 6]], l.length = 3 := by decide
example : ∃ l ∈ [[1, 2, 3], [4, 5]], l.length ≠ (([[1, 2, 3], [4, 5]] : List (List Nat)).headD []).length :=
  ⟨[4, 5], by decide, by decide⟩

/-- `Sub_List(v,i1,i2)`: the inclusive slice `v[a..b]`, `a = max 0 i1`, `b = min i2 (len−1)`;
    empty for an empty source or `a > b`. -/
theorem subList_spec (v : List α) (i1 : Int) (i2 : Nat) :
    let a := i1.toNat
    let b := min i2 (v.length - 1)
    ((v = [] ∨ b < a) → subList v i1 i2 = []) ∧
    (v ≠ [] → a ≤ b →
      subList v i1 i2 = (v.drop a).take (b - a + 1) ∧
      (subList v i1 i2).length = b - a + 1 ∧
      ∀ k, k ≤ b - a → a + k < v.length ∧ (subList v i1 i2)[k]? = v[a + k]?) := by
  intro a b
  have ha : (if i1 < 0 then 0 else i1.toNat) = a := by
    split
    · simp only [a]; omega
    · rfl
  constructor
  · rintro (rfl | hab)
    · simp [subList]
    · unfold subList
      simp only [ha]
      split
      · rfl
      · rename_i hv
        have hb : (if i2 ≥ v.length then v.length - 1 else i2) = b := by
          split <;> simp only [b] <;> omega
        simp only [hb]
        rw [if_pos hab]
  · intro hv hab
    have hv' : v.length ≠ 0 := by simpa using hv
    have hb : (if i2 ≥ v.length then v.length - 1 else i2) = b := by
      split <;> simp only [b] <;> omega
    have hblt : b < v.length := by simp only [b]; omega
    have heq : subList v i1 i2 = (v.drop a).take (b - a + 1) := by
      unfold subList
      simp only [ha, hb, if_neg hv']
      rw [if_neg (by omega)]
    refine ⟨heq, ?_, ?_⟩
    · rw [heq]; simp; omega
    · intro k hk
      refine ⟨by omega, ?_⟩
      rw [heq, List.getElem?_take_of_lt (by omega), List.getElem?_drop]

example : subList [10, 11, 12, 13] (-2) 7 = [10, 11, 12, 13] ∧ subList [10, 11, 12, 13] 1 2 = [11, 12] ∧
    subList [10, 11, 12, 13] 3 1 = [] := by decide

/-- The clamp of the upper index, for indices as unbounded naturals: whenever `i2` is at or beyond the
    last position — `size-1`, `size`, `2^31`, `UINT_MAX = 4294967295` (the idiom `Sub_List(v, k, -1)`),
    anything, there is no upper bound — the result is the tail of the list from `max 0 i1` on.  A clamp
    that computes `i2 + 1` in 32 bits before comparing it with the size breaks exactly this statement
    at `i2 = 2^32 - 1`. -/
theorem subList_clamp (v : List α) (i1 : Int) (i2 : Nat) (h : v.length - 1 ≤ i2) :
    subList v i1 i2 = v.drop i1.toNat := by
  have hspec := subList_spec v i1 i2
  simp only at hspec
  by_cases hv : v = []
  · subst hv; simp [subList]
  · have hlen : 0 < v.length := List.length_pos_iff.mpr hv
    have hb : min i2 (v.length - 1) = v.length - 1 := by omega
    rw [hb] at hspec
    by_cases hab : i1.toNat ≤ v.length - 1
    · rw [(hspec.2 hv hab).1]
      apply List.take_of_length_le
      rw [List.length_drop]; omega
    · rw [hspec.1 (Or.inr (by omega))]
      symm; apply List.drop_eq_nil_of_le; omega

/-- in particular the result does not depend on how far beyond the end the upper index lies -/
theorem subList_clamp_indep (v : List α) (i1 : Int) (i2 i2' : Nat)
    (h : v.length - 1 ≤ i2) (h' : v.length - 1 ≤ i2') : subList v i1 i2 = subList v i1 i2' := by
  rw [subList_clamp v i1 i2 h, subList_clamp v i1 i2' h']

example : subList [10, 11, 12, 13] 1 4294967295 = [11, 12, 13] ∧ subList [10, 11, 12, 13] (-1) 4294967295 = [10, 11, 12, 13] ∧
    subList [10, 11, 12, 13] 2147483647 4294967295 = [] ∧ subList [10, 11, 12, 13] 2 3 = [12, 13] := by decide

theorem combine_eq_append (a b : List α) : combine a b = a ++ b := rfl

theorem flatten_eq_flatten (v : List (List α)) : flatten v = v.flatten := rfl

variable [DecidableEq α]

/-- `Lists_Equal` decides equality (also of nested lists: `α := List β`). -/
theorem listsEqual_iff (v1 v2 : List α) : listsEqual v1 v2 = true ↔ v1 = v2 := by
  unfold listsEqual
  constructor
  · intro h
    split at h
    · simp at h
    · rename_i hl
      simp only [ne_eq, Decidable.not_not] at hl
      apply List.ext_getElem? 
      intro i
      by_cases hi : i < v1.length
      · simp only [List.all_eq_true, List.mem_range, decide_eq_true_eq] at h
        exact h i hi
      · rw [List.getElem?_eq_none (by omega), List.getElem?_eq_none (by omega)]
  · rintro rfl; simp

/-- `List_Contains` is membership. -/
theorem listContains_iff (l : List α) (x : α) : listContains l x = true ↔ x ∈ l := by
  unfold listContains
  simp only [List.any_eq_true, List.mem_range, decide_eq_true_eq]
  rw [List.mem_iff_getElem?]
  constructor
  · rintro ⟨i, _, h⟩; exact ⟨i, h⟩
  · rintro ⟨i, h⟩
    refine ⟨i, ?_, h⟩
    by_contra hi
    rw [List.getElem?_eq_none (by omega)] at h
    cases h

/-- `Find_Indices` returns exactly the positions holding the value … -/
theorem mem_findIndices_iff (l : List α) (x : α) (i : Nat) :
    i ∈ findIndices l x ↔ l[i]? = some x := by
  unfold findIndices
  simp only [List.mem_filter, List.mem_range, decide_eq_true_eq]
  constructor
  · exact fun h => h.2
  · intro h
    refine ⟨?_, h⟩
    by_contra hi
    rw [List.getElem?_eq_none (by omega)] at h
    cases h

/-- … in strictly increasing order (hence without repetition). -/
theorem findIndices_strictly_increasing (l : List α) (x : α) :
    (findIndices l x).Pairwise (· < ·) := by
  unfold findIndices
  exact List.Pairwise.filter _ List.pairwise_lt_range

example : findIndices [5, 7, 5, 5] 5 = [0, 2, 3] := by decide

end Lists

/-! ### 5b. Lists_Equal for element types whose `==` is not Leibniz equality (`double`: ±0, NaN) -/

/-- `Lists_Equal` for any element `==`: lengths equal ∧ pointwise `==`. -/
theorem listsEqualBy_iff {β : Type} (eq : β → β → Bool) (v1 v2 : List β) :
    listsEqualBy eq v1 v2 = true ↔
      v1.length = v2.length ∧
        ∀ (i : Nat) (h1 : i < v1.length) (h2 : i < v2.length), eq v1[i] v2[i] = true := by
  unfold listsEqualBy
  by_cases hl : v1.length = v2.length
  · rw [if_neg (by simpa using hl)]
    simp only [List.all_eq_true, List.mem_range]
    constructor
    · intro h
      refine ⟨hl, fun i h1 h2 => ?_⟩
      have := h i h1
      rw [List.getElem?_eq_getElem h1, List.getElem?_eq_getElem h2] at this
      exact this
    · rintro ⟨_, h⟩ i hi
      rw [List.getElem?_eq_getElem hi, List.getElem?_eq_getElem (by omega)]
      exact h i hi (by omega)
  · rw [if_pos (by simpa using hl)]
    simp [hl]

/-- with Leibniz equality as `==` it is the earlier model `listsEqual` (int / unsigned lists) -/
theorem listsEqualBy_decide_eq {α : Type} [DecidableEq α] (v1 v2 : List α) :
    listsEqualBy (fun a b => decide (a = b)) v1 v2 = listsEqual v1 v2 := by
  unfold listsEqualBy listsEqual
  split
  · rfl
  · rename_i hl
    simp only [ne_eq, Decidable.not_not] at hl
    rw [Bool.eq_iff_iff]
    simp only [List.all_eq_true, List.mem_range]
    constructor
    · intro h i hi
      have := h i hi
      rw [List.getElem?_eq_getElem hi, List.getElem?_eq_getElem (by omega)] at this ⊢
      simpa using this
    · intro h i hi
      have := h i hi
      rw [List.getElem?_eq_getElem hi, List.getElem?_eq_getElem (by omega)] at this ⊢
      simpa using this

theorem Dbl.eqv_comm (a b : Dbl) : Dbl.eqv a b = Dbl.eqv b a := by
  cases a <;> cases b <;> simp [Dbl.eqv, eq_comm]

/-- `==` on doubles is equality of the denoted elements except that NaN is unequal to itself -/
theorem Dbl.eqv_iff (a b : Dbl) : Dbl.eqv a b = true ↔ a = b ∧ a ≠ .nan := by
  cases a <;> cases b <;> simp [Dbl.eqv]

/-- double lists: equal lengths and pointwise IEEE `==` (so `{-0.0}` equals `{+0.0}`: both are `fin 0`) -/
theorem listsEqualD_iff (v1 v2 : List Dbl) :
    listsEqualD v1 v2 = true ↔
      v1.length = v2.length ∧
        ∀ (i : Nat) (h1 : i < v1.length) (h2 : i < v2.length), Dbl.eqv v1[i] v2[i] = true :=
  listsEqualBy_iff _ _ _

/-- … equivalently: the same list, and it contains no NaN -/
theorem listsEqualD_iff_eq (v1 v2 : List Dbl) :
    listsEqualD v1 v2 = true ↔ v1 = v2 ∧ Dbl.nan ∉ v1 := by
  rw [listsEqualD_iff]
  constructor
  · rintro ⟨hl, h⟩
    constructor
    · apply List.ext_getElem hl
      intro i h1 h2
      exact ((Dbl.eqv_iff _ _).mp (h i h1 h2)).1
    · intro hm
      obtain ⟨i, hi, e⟩ := List.getElem_of_mem hm
      have := ((Dbl.eqv_iff _ _).mp (h i hi (by omega))).2
      exact this e
  · rintro ⟨rfl, hn⟩
    refine ⟨rfl, ?_⟩
    intro i h1 _
    rw [Dbl.eqv_iff]
    exact ⟨rfl, fun e => hn (e ▸ List.getElem_mem h1)⟩

/-- a list is `Lists_Equal` to its copy iff it contains no NaN -/
theorem listsEqualD_self (v : List Dbl) : listsEqualD v v = true ↔ Dbl.nan ∉ v := by
  rw [listsEqualD_iff_eq]; simp

theorem listsEqualD_comm (v1 v2 : List Dbl) : listsEqualD v1 v2 = listsEqualD v2 v1 := by
  rw [Bool.eq_iff_iff, listsEqualD_iff_eq, listsEqualD_iff_eq]
  constructor
  · rintro ⟨rfl, h⟩; exact ⟨rfl, h⟩
  · rintro ⟨rfl, h⟩; exact ⟨rfl, h⟩

/-- nested overload: same number of rows, rows of equal lengths, pointwise `==` -/
theorem listsEqualDD_iff (v1 v2 : List (List Dbl)) :
    listsEqualDD v1 v2 = true ↔
      v1.length = v2.length ∧
        ∀ (i : Nat) (h1 : i < v1.length) (h2 : i < v2.length),
          v1[i].length = v2[i].length ∧
            ∀ (j : Nat) (g1 : j < v1[i].length) (g2 : j < v2[i].length),
              Dbl.eqv v1[i][j] v2[i][j] = true := by
  unfold listsEqualDD
  rw [listsEqualBy_iff]
  simp only [listsEqualD_iff]

/-- … equivalently: the same nested list without any NaN -/
theorem listsEqualDD_iff_eq (v1 v2 : List (List Dbl)) :
    listsEqualDD v1 v2 = true ↔ v1 = v2 ∧ ∀ row ∈ v1, Dbl.nan ∉ row := by
  unfold listsEqualDD
  rw [listsEqualBy_iff]
  constructor
  · rintro ⟨hl, h⟩
    constructor
    · apply List.ext_getElem hl
      intro i h1 h2
      exact ((listsEqualD_iff_eq _ _).mp (h i h1 h2)).1
    · intro row hm
      obtain ⟨i, hi, e⟩ := List.getElem_of_mem hm
      have := ((listsEqualD_iff_eq _ _).mp (h i hi (by omega))).2
      rw [e] at this; exact this
  · rintro ⟨rfl, hn⟩
    refine ⟨rfl, ?_⟩
    intro i h1 _
    rw [listsEqualD_iff_eq]
    exact ⟨rfl, hn _ (List.getElem_mem h1)⟩

/-- nested lists: `Lists_Equal(vv, vv)` is true iff no row contains a NaN — an identity shortcut
    (`&v1 == &v2 → true`) contradicts this and `listsEqualD_self` exactly on lists with a NaN -/
theorem listsEqualDD_self (v : List (List Dbl)) :
    listsEqualDD v v = true ↔ ∀ row ∈ v, Dbl.nan ∉ row := by
  rw [listsEqualDD_iff_eq]; simp
example : listsEqualD [.fin 1, .nan] [.fin 1, .nan] = false ∧ listsEqualDD [[.fin 0], [.nan]] [[.fin 0], [.nan]] = false ∧
    listsEqualDD [[.fin 0], [.pinf]] [[.fin 0], [.pinf]] = true := by decide

-- signed zeros are one element, a NaN breaks reflexivity, a shorter list is never equal
example : listsEqualD [.fin (-0), .fin 1] [.fin 0, .fin 1] = true := by decide
example : listsEqualD [.fin 1, .nan] [.fin 1, .nan] = false := by decide
example : listsEqualD [.fin 1] [.fin 1, .fin 2] = false := by decide
example : listsEqualDD [[.fin 1, .fin 2], [.pinf]] [[.fin 1], [.fin 2, .pinf]] = false := by decide
example : listsEqualDD [[.fin 0], [.ninf]] [[.fin (-0)], [.ninf]] = true := by decide

/-! ## 6. Statistics laws -/

theorem sum_perm_invariant {l1 l2 : List Rat} (h : l1.Perm l2) : sum l1 = sum l2 := sum_perm h

theorem mean_perm_invariant {l1 l2 : List Rat} (h : l1.Perm l2) : mean l1 = mean l2 := by
  unfold mean; rw [sum_perm h, h.length_eq]

/-- `mean (x + c) = mean x + c` (both undefined for empty data). -/
theorem mean_shift (l : List Rat) (c : Rat) : mean (l.map (· + c)) = (mean l).map (· + c) := by
  unfold mean
  simp only [List.length_map]
  split
  · rfl
  · rename_i h
    have := len_ne h
    simp only [Option.map_some, sum_map_add_const]
    congr 1; field_simp

/-- `mean (c·x) = c · mean x`. -/
theorem mean_scale (l : List Rat) (c : Rat) : mean (l.map (c * ·)) = (mean l).map (c * ·) := by
  unfold mean
  simp only [List.length_map]
  split
  · rfl
  · rename_i h
    have := len_ne h
    simp only [Option.map_some, sum_map_const_mul]
    congr 1; field_simp

/-- `variance (x + c) = variance x`. -/
theorem variance_shift (l : List Rat) (c : Rat) : variance (l.map (· + c)) = variance l := by
  unfold variance
  simp only [List.length_map]
  split
  · rfl
  · rename_i h
    have hn : (l.length : Rat) ≠ 0 := by
      have : ¬ l.length = 0 := by omega
      exact_mod_cast this
    congr 2
    rw [List.map_map]
    congr 1
    apply List.map_congr_left
    intro x _
    simp only [Function.comp, sum_map_add_const]
    field_simp; ring

/-- `variance (c·x) = c² · variance x`. -/
theorem variance_scale (l : List Rat) (c : Rat) :
    variance (l.map (c * ·)) = (variance l).map (c ^ 2 * ·) := by
  unfold variance
  simp only [List.length_map]
  split
  · rfl
  · rename_i h
    have hn : (l.length : Rat) ≠ 0 := by
      have : ¬ l.length = 0 := by omega
      exact_mod_cast this
    simp only [Option.map_some]
    congr 1
    rw [List.map_map, ← mul_div_assoc, ← sum_map_const_mul']
    congr 2
    apply List.map_congr_left
    intro x _
    simp only [Function.comp, sum_map_const_mul]
    field_simp

theorem variance_perm_invariant {l1 l2 : List Rat} (h : l1.Perm l2) : variance l1 = variance l2 := by
  unfold variance
  simp only [h.length_eq, sum_perm h]
  split
  · rfl
  · rw [sum_perm (h.map _)]

/-- the median does not depend on the order of the data (`sortRat` agrees on permutations). -/
theorem median_perm_invariant {l1 l2 : List Rat} (h : l1.Perm l2) : median l1 = median l2 := by
  unfold median; rw [sortRat_perm h, h.length_eq]

/-- the median commutes with every monotone map that preserves midpoints -/
theorem median_map_mono (f : Rat → Rat) (hf : ∀ a b, a ≤ b → f a ≤ f b)
    (hmid : ∀ a b, f ((a + b) / 2) = (f a + f b) / 2) (l : List Rat) :
    median (l.map f) = (median l).map f := by
  unfold median
  simp only [List.length_map]
  split
  · rfl
  · rename_i hn
    have hl := sortRat_length l
    rw [sortRat_map_mono f hf]
    split
    · rw [getD_map_lt f _ _ (by omega), getD_map_lt f _ _ (by omega)]
      simp only [Option.map_some, hmid]
    · rw [getD_map_lt f _ _ (by omega)]
      simp only [Option.map_some]

/-- `median (x + c) = median x + c`. -/
theorem median_shift (l : List Rat) (c : Rat) : median (l.map (· + c)) = (median l).map (· + c) :=
  median_map_mono (· + c) (fun a b h => by simpa using h) (fun a b => by ring) l

/-- … and with every antitone map that preserves midpoints -/
theorem median_map_anti (f : Rat → Rat) (hf : ∀ a b, a ≤ b → f b ≤ f a)
    (hmid : ∀ a b, f ((a + b) / 2) = (f a + f b) / 2) (l : List Rat) :
    median (l.map f) = (median l).map f := by
  unfold median
  simp only [List.length_map]
  split
  · rfl
  · rename_i hn
    have hl := sortRat_length l
    rw [sortRat_map_anti f hf]
    split
    · rename_i hev
      rw [getD_reverse_map_lt f _ _ (by omega), getD_reverse_map_lt f _ _ (by omega)]
      simp only [Option.map_some, hmid, hl]
      have e1 : l.length - 1 - (l.length / 2 - 1) = l.length / 2 := by omega
      have e2 : l.length - 1 - l.length / 2 = l.length / 2 - 1 := by omega
      rw [e1, e2, add_comm]
    · rename_i hodd
      rw [getD_reverse_map_lt f _ _ (by omega)]
      simp only [Option.map_some, hl]
      have e1 : l.length - 1 - l.length / 2 = l.length / 2 := by omega
      rw [e1]

/-- `median (c·x) = c · median x` for every `c` (negative `c` reverses the order). -/
theorem median_scale (l : List Rat) (c : Rat) : median (l.map (c * ·)) = (median l).map (c * ·) := by
  rcases le_total 0 c with hc | hc
  · exact median_map_mono (c * ·) (fun a b h => mul_le_mul_of_nonneg_left h hc) (fun a b => by ring) l
  · exact median_map_anti (c * ·) (fun a b h => mul_le_mul_of_nonpos_left h hc) (fun a b => by ring) l

/-- all weights equal to `w ≠ 0`, `n ≥ 2` points: the weighted average is the arithmetic mean and
    the squared standard error is `variance / n`. -/
theorem weightedAverage_equal_weights (d : List (Rat × Rat)) (w : Rat) (hw : w ≠ 0)
    (hn : 2 ≤ d.length) (hall : ∀ p ∈ d, p.2 = w) :
    ∃ μ v, mean (d.map (·.1)) = some μ ∧ variance (d.map (·.1)) = some v ∧
      weightedAverage d = some (μ, v / (d.length : Rat)) := by
  have hn0 : (d.length : Rat) ≠ 0 := by
    have : ¬ d.length = 0 := by omega
    exact_mod_cast this
  have hn1 : (d.length : Rat) - 1 ≠ 0 := by
    have : (2 : Rat) ≤ (d.length : Rat) := by exact_mod_cast hn
    intro h; linarith
  refine ⟨sum (d.map (·.1)) / ((d.map (·.1)).length : Rat),
    sum ((d.map (·.1)).map (fun x => (x - sum (d.map (·.1)) / ((d.map (·.1)).length : Rat)) *
      (x - sum (d.map (·.1)) / ((d.map (·.1)).length : Rat)))) / (((d.map (·.1)).length : Rat) - 1),
    ?_, ?_, ?_⟩
  · unfold mean; rw [if_neg (by rw [List.length_map]; omega)]
  · unfold variance; rw [if_neg (by rw [List.length_map]; omega)]
  · set S := sum (d.map (·.1)) with hS
    have e1 : sum (d.map (fun p => p.2 * p.1)) = w * S := by
      rw [hS, ← sum_map_const_mul']; congr 1
      apply List.map_congr_left; intro p hp; simp [hall p hp]
    have e2 : sum (d.map (fun p => p.2)) = (d.length : Rat) * w := by
      rw [← sum_map_const]; congr 1
      apply List.map_congr_left; intro p hp; exact hall p hp
    have hws : (d.length : Rat) * w ≠ 0 := mul_ne_zero hn0 hw
    unfold weightedAverage
    simp only [e1, e2]
    rw [if_neg (by rintro (h | h); omega; exact hws h)]
    have havg : w * S / ((d.length : Rat) * w) = S / (d.length : Rat) := by field_simp
    have hwavg : (d.length : Rat) * w / (d.length : Rat) = w := by field_simp
    simp only [havg, hwavg, List.length_map]
    have s2 : sum (d.map (fun p => (p.2 - w) * (p.2 * p.1 - S / (d.length : Rat) * w))) = 0 := by
      rw [← sum_map_zero d]; congr 1
      apply List.map_congr_left; intro p hp; rw [hall p hp]; ring
    have s3 : sum (d.map (fun p => (p.2 - w) ^ 2)) = 0 := by
      rw [← sum_map_zero d]; congr 1
      apply List.map_congr_left; intro p hp; rw [hall p hp]; ring
    have s1 : sum (d.map (fun p => (p.2 * p.1 - S / (d.length : Rat) * w) ^ 2)) =
        w ^ 2 * sum ((d.map (·.1)).map (fun x => (x - S / (d.length : Rat)) * (x - S / (d.length : Rat)))) := by
      rw [List.map_map, ← sum_map_const_mul']; congr 1
      apply List.map_congr_left; intro p hp; simp only [Function.comp]; rw [hall p hp]; ring
    rw [s1, s2, s3]
    congr 2
    field_simp
    ring

example : [1, 2, 6].Perm [6, 1, 2] := by decide
example : weightedAverage [(1, 3), (2, 3), (6, 3)] = some (3, 7 / 3) := by decide +kernel
example : variance [1, 2, 6] = some 7 := by decide +kernel

/-! ## 7. Guards of the summary statistics (fix 67d359e) -/

/-- fix 67d359e — the guarded functions are the computations behind their guards: a diagnostic exactly
    where `mean`/`median`/`variance` have no value, the same value otherwise; so every law proved for
    `mean`, `median`, `variance`, `weightedAverage` holds for what the library now returns. -/
theorem meanE_eq (l : List Rat) :
    meanE l = match mean l with | some v => .ok v | none => .error .diag := by
  unfold meanE mean; split <;> rfl

theorem medianE_eq (l : List Rat) :
    medianE l = match median l with | some v => .ok v | none => .error .diag := by
  unfold medianE median
  split
  · rfl
  · simp only []; split <;> rfl

theorem varianceE_eq (l : List Rat) :
    varianceE l = match variance l with | some v => .ok v | none => .error .diag := by
  unfold varianceE variance; split <;> rfl

/-- which lists are rejected: no point for the mean and the median, fewer than two for the variance, the
    standard deviation and the weighted average -/
theorem stats_guards (l : List Rat) (d : List (Rat × Rat)) :
    (meanE l = .error .diag ↔ l.length = 0) ∧ (medianE l = .error .diag ↔ l.length = 0) ∧
    (varianceE l = .error .diag ↔ l.length < 2) ∧ (stdDevSqE l = .error .diag ↔ l.length < 2) ∧
    (weightedAverageE d = .error .diag ↔ d.length < 2) := by
  refine ⟨?_, ?_, ?_, ?_, ?_⟩
  · unfold meanE; split <;> simp [*]
  · unfold medianE; split
    · simp [*]
    · simp only []; split <;> simp [*]
  · unfold varianceE; split <;> simp [*]
  · unfold stdDevSqE varianceE; split <;> simp [*]
  · unfold weightedAverageE; split <;> simp [*]

/-- with at least two points the weighted average is the computation `weightedAverage` -/
theorem weightedAverageE_ok (d : List (Rat × Rat)) (h : 2 ≤ d.length) :
    weightedAverageE d = .ok (weightedAverage d) := by
  unfold weightedAverageE; rw [if_neg (by omega)]

example : meanE [] = .error .diag ∧ varianceE [3] = .error .diag ∧ weightedAverageE [(1, 1)] = .error .diag ∧
    meanE [3] = .ok 3 ∧ varianceE [1, 2, 6] = .ok 7 := by decide +kernel

end Lp.C19
