import LpModel.C19
namespace Lp.C19

theorem combine_eq_append {α : Type} [DecidableEq α] (a b : List α) : combine a b = a ++ b := rfl

end Lp.C19
