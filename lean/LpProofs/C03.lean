import LpModel.C03
namespace Lp.C03
end Lp.C03
