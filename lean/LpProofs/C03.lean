/-
  C03 — adaptive Simpson integration: property theorems (DESIGN.md §6, C03).
  All statements are about the executable model `Lp.C03.integrate` / `Lp.C03.adaptive`
  (exact rationals); the tie to src/Integration.cpp is the correspondence run.
-/
import LpProofs.C03.Lemmas
namespace Lp.C03

/-! ## Exactness on quintics -/

def quintic (c0 c1 c2 c3 c4 c5 : Rat) (x : Rat) : Rat :=
  c0 + c1 * x + c2 * x ^ 2 + c3 * x ^ 3 + c4 * x ^ 4 + c5 * x ^ 5

/-- the antiderivative of `quintic` -/
def quinticPrim (c0 c1 c2 c3 c4 c5 : Rat) (x : Rat) : Rat :=
  c0 * x + c1 * x ^ 2 / 2 + c2 * x ^ 3 / 3 + c3 * x ^ 4 / 4 + c4 * x ^ 5 / 5 + c5 * x ^ 6 / 6

/-- the invariant of the recursion: the values handed down are the integrand at the ends and the
    midpoint of the panel, and `S` is Simpson's rule on the panel -/
def Panel.reuseOK (f : Rat → Rat) (p : Panel) : Prop :=
  p.fa = f p.a ∧ p.fb = f p.b ∧ p.fc = f ((p.a + p.b) / 2) ∧ p.S = ((p.b - p.a) / 6) * (p.fa + 4 * p.fc + p.fb) ∧
  p.S2 = ((p.b - p.a) / 12) * (p.fa + 4 * f ((p.a + (p.a + p.b) / 2) / 2) + p.fc)
       + ((p.b - p.a) / 12) * (p.fc + 4 * f ((p.b + (p.a + p.b) / 2) / 2) + p.fb)

theorem adaptive_quintic_exact (c0 c1 c2 c3 c4 c5 : Rat) (n : Nat) :
    ∀ a b eps S fa fb fc : Rat,
      fa = quintic c0 c1 c2 c3 c4 c5 a → fb = quintic c0 c1 c2 c3 c4 c5 b →
      fc = quintic c0 c1 c2 c3 c4 c5 ((a + b) / 2) → S = ((b - a) / 6) * (fa + 4 * fc + fb) →
      (adaptive (quintic c0 c1 c2 c3 c4 c5) a b eps S fa fb fc n).val
        = quinticPrim c0 c1 c2 c3 c4 c5 b - quinticPrim c0 c1 c2 c3 c4 c5 a := by
  have boole : ∀ a b S fa fb fc : Rat,
      fa = quintic c0 c1 c2 c3 c4 c5 a → fb = quintic c0 c1 c2 c3 c4 c5 b →
      fc = quintic c0 c1 c2 c3 c4 c5 ((a + b) / 2) → S = ((b - a) / 6) * (fa + 4 * fc + fb) →
      s2 (quintic c0 c1 c2 c3 c4 c5) a b fa fb fc + (s2 (quintic c0 c1 c2 c3 c4 c5) a b fa fb fc - S) / 15
        = quinticPrim c0 c1 c2 c3 c4 c5 b - quinticPrim c0 c1 c2 c3 c4 c5 a := by
    intro a b S fa fb fc hfa hfb hfc hS
    subst hfa hfb hfc hS
    simp only [s2, sLeft, sRight, quintic, quinticPrim]
    ring
  induction n with
  | zero =>
    intro a b eps S fa fb fc hfa hfb hfc hS
    rw [adaptive_zero]
    exact boole a b S fa fb fc hfa hfb hfc hS
  | succ n ih =>
    intro a b eps S fa fb fc hfa hfb hfc hS
    by_cases h : Lp.rabs (s2 (quintic c0 c1 c2 c3 c4 c5) a b fa fb fc - S) ≤ K.accFactor * eps
    · rw [adaptive_succ_accept _ _ _ _ _ _ _ _ _ h]
      exact boole a b S fa fb fc hfa hfb hfc hS
    · rw [adaptive_succ_reject _ _ _ _ _ _ _ _ _ h]
      simp only []
      have hL := ih a (mid a b) (eps / K.epsDivL) (sLeft (quintic c0 c1 c2 c3 c4 c5) a b fa fc) fa fc
        (quintic c0 c1 c2 c3 c4 c5 (dL a b)) hfa (by rw [hfc]; rfl) rfl
        (by subst hfa hfc; simp only [sLeft, mid, dL]; ring)
      have hR := ih (mid a b) b (eps / K.epsDivR) (sRight (quintic c0 c1 c2 c3 c4 c5) a b fb fc) fc fb
        (quintic c0 c1 c2 c3 c4 c5 (eR a b)) (by rw [hfc]; rfl) hfb
        (by simp only [eR, mid]; congr 1; ring)
        (by subst hfb hfc; simp only [sRight, mid, eR]; ring)
      rw [hL, hR]
      ring

/-- **simpson_quintic_exact**: for every polynomial of degree ≤ 5 with rational coefficients,
    every `a b eps depth` (either orientation, any sign of `eps`, any depth incl. negative):
    `Integrate` returns `F b − F a` exactly. -/
theorem simpson_quintic_exact (c0 c1 c2 c3 c4 c5 a b eps : Rat) (depth : Int) :
    (integrate (quintic c0 c1 c2 c3 c4 c5) a b eps depth).val
      = quinticPrim c0 c1 c2 c3 c4 c5 b - quinticPrim c0 c1 c2 c3 c4 c5 a := by
  unfold integrate
  by_cases hab : a = b
  · subst hab; simp
  · rw [if_neg hab]
    simp only []
    rw [adaptive_quintic_exact c0 c1 c2 c3 c4 c5 depth.toNat _ _ _ _ _ _ _ rfl rfl rfl rfl]
    by_cases hgt : a > b
    · simp only [if_pos hgt]; ring
    · simp only [if_neg hgt]; ring

/-! ## Limits: swap, equal limits, sign of epsilon -/

/-- **integrate_eq_limits**: equal limits give zero and the integrand is not evaluated. -/
theorem integrate_eq_limits (f : Rat → Rat) (a eps : Rat) (depth : Int) :
    (integrate f a a eps depth).val = 0 ∧ (integrate f a a eps depth).evals = [] ∧
      (integrate f a a eps depth).warn = false := by
  unfold integrate; simp

/-- **integrate_swap**: swapping the limits negates the value exactly; the integrand is evaluated
    at the same abscissae in the same order and the warning is the same. -/
theorem integrate_swap (f : Rat → Rat) (a b eps : Rat) (depth : Int) :
    (integrate f b a eps depth).val = -(integrate f a b eps depth).val ∧
      (integrate f b a eps depth).evals = (integrate f a b eps depth).evals ∧
      (integrate f b a eps depth).warn = (integrate f a b eps depth).warn ∧
      (integrate f b a eps depth).panels = (integrate f a b eps depth).panels := by
  unfold integrate
  by_cases hab : a = b
  · subst hab; simp
  · have hba : ¬ b = a := fun h => hab h.symm
    rw [if_neg hab, if_neg hba]
    rcases lt_or_gt_of_ne hab with hlt | hgt
    · have h1 : b > a := hlt
      have h2 : ¬ a > b := not_lt.mpr (le_of_lt hlt)
      simp only [if_pos h1, if_neg h2]
      and_intros <;> first | trivial | ring
    · have h1 : a > b := hgt
      have h2 : ¬ b > a := not_lt.mpr (le_of_lt hgt)
      simp only [if_pos h1, if_neg h2]
      and_intros <;> first | trivial | ring

/-- **integrate_eps_sign**: `epsilon` and `-epsilon` give the same run (value, abscissae, warning). -/
theorem integrate_eps_sign (f : Rat → Rat) (a b eps : Rat) (depth : Int) :
    integrate f a b (-eps) depth = integrate f a b eps depth := by
  unfold integrate
  rw [rabs_neg]

/-! ## Where and how often the integrand is evaluated -/

theorem adaptive_evals_inside (f : Rat → Rat) (n : Nat) :
    ∀ a b eps S fa fb fc : Rat, a ≤ b →
      ∀ x ∈ (adaptive f a b eps S fa fb fc n).evals, a ≤ x ∧ x ≤ b := by
  have hd : ∀ a b : Rat, a ≤ b → a ≤ dL a b ∧ dL a b ≤ mid a b := by
    intro a b h; unfold dL mid; constructor <;> linarith
  have he : ∀ a b : Rat, a ≤ b → mid a b ≤ eR a b ∧ eR a b ≤ b := by
    intro a b h; unfold eR mid; constructor <;> linarith
  have hm : ∀ a b : Rat, a ≤ b → a ≤ mid a b ∧ mid a b ≤ b := by
    intro a b h; unfold mid; constructor <;> linarith
  have leafcase : ∀ a b : Rat, a ≤ b → ∀ x ∈ [dL a b, eR a b], a ≤ x ∧ x ≤ b := by
    intro a b hab x hx
    simp only [List.mem_cons, List.not_mem_nil, or_false] at hx
    rcases hx with rfl | rfl
    · exact ⟨(hd a b hab).1, le_trans (hd a b hab).2 (hm a b hab).2⟩
    · exact ⟨le_trans (hm a b hab).1 (he a b hab).1, (he a b hab).2⟩
  induction n with
  | zero =>
    intro a b eps S fa fb fc hab x hx
    rw [adaptive_zero] at hx
    exact leafcase a b hab x hx
  | succ n ih =>
    intro a b eps S fa fb fc hab x hx
    by_cases h : Lp.rabs (s2 f a b fa fb fc - S) ≤ K.accFactor * eps
    · rw [adaptive_succ_accept _ _ _ _ _ _ _ _ _ h] at hx
      exact leafcase a b hab x hx
    · rw [adaptive_succ_reject _ _ _ _ _ _ _ _ _ h] at hx
      simp only [List.mem_cons, List.mem_append] at hx
      rcases hx with rfl | rfl | hx | hx
      · exact leafcase a b hab _ (by simp)
      · exact leafcase a b hab _ (by simp)
      · have := ih _ _ _ _ _ _ _ (hm a b hab).1 x hx
        exact ⟨this.1, le_trans this.2 (hm a b hab).2⟩
      · have := ih _ _ _ _ _ _ _ (hm a b hab).2 x hx
        exact ⟨le_trans (hm a b hab).1 this.1, this.2⟩

/-- **simpson_evals_inside**: every abscissa at which the integrand is evaluated lies in the
    closed interval `[min a b, max a b]`. -/
theorem simpson_evals_inside (f : Rat → Rat) (a b eps : Rat) (depth : Int) :
    ∀ x ∈ (integrate f a b eps depth).evals, min a b ≤ x ∧ x ≤ max a b := by
  intro x hx
  unfold integrate at hx
  by_cases hab : a = b
  · rw [if_pos hab] at hx; simp at hx
  · rw [if_neg hab] at hx
    simp only [List.mem_cons] at hx
    have key : ∀ lo hi : Rat, lo ≤ hi → min a b = lo → max a b = hi →
        (x = lo ∨ x = hi ∨ x = (lo + hi) / 2 ∨
          x ∈ (adaptive f lo hi (Lp.rabs eps) ((hi - lo) / K.coarseDiv * (f lo + K.coarseMidW * f ((lo + hi) / 2) + f hi))
                (f lo) (f hi) (f ((lo + hi) / 2)) depth.toNat).evals) →
        min a b ≤ x ∧ x ≤ max a b := by
      intro lo hi hle hmin hmax hx
      rw [hmin, hmax]
      rcases hx with rfl | rfl | rfl | hx
      · exact ⟨le_refl _, hle⟩
      · exact ⟨hle, le_refl _⟩
      · constructor <;> linarith
      · exact adaptive_evals_inside f _ lo hi _ _ _ _ _ hle x hx
    by_cases hgt : a > b
    · simp only [if_pos hgt] at hx
      exact key b a (le_of_lt hgt) (min_eq_right (le_of_lt hgt)) (max_eq_left (le_of_lt hgt)) hx
    · simp only [if_neg hgt] at hx
      exact key a b (not_lt.mp hgt) (min_eq_left (not_lt.mp hgt)) (max_eq_right (not_lt.mp hgt)) hx

theorem adaptive_eval_count (f : Rat → Rat) (n : Nat) :
    ∀ a b eps S fa fb fc : Rat, (adaptive f a b eps S fa fb fc n).evals.length + 2 ≤ 2 ^ (n + 2) := by
  induction n with
  | zero => intro a b eps S fa fb fc; rw [adaptive_zero]; simp
  | succ n ih =>
    intro a b eps S fa fb fc
    have hp : 2 ^ (n + 1 + 2) = 2 * 2 ^ (n + 2) := by rw [pow_succ]; ring
    have h4 : 4 ≤ 2 ^ (n + 2) := by
      have : 2 ^ (n + 2) = 4 * 2 ^ n := by rw [pow_add]; ring
      have := Nat.one_le_two_pow (n := n); omega
    by_cases h : Lp.rabs (s2 f a b fa fb fc - S) ≤ K.accFactor * eps
    · rw [adaptive_succ_accept _ _ _ _ _ _ _ _ _ h]; simp only [List.length_cons, List.length_nil]; omega
    · rw [adaptive_succ_reject _ _ _ _ _ _ _ _ _ h]
      simp only [List.length_cons, List.length_append]
      have h1 := ih a (mid a b) (eps / K.epsDivL) (sLeft f a b fa fc) fa fc (f (dL a b))
      have h2 := ih (mid a b) b (eps / K.epsDivR) (sRight f a b fb fc) fc fb (f (eR a b))
      omega

/-- **simpson_eval_count**: at most `2^(depth+2)+1` evaluations (`depth` negative counts as 0). -/
theorem simpson_eval_count (f : Rat → Rat) (a b eps : Rat) (depth : Int) :
    (integrate f a b eps depth).evals.length ≤ 2 ^ (depth.toNat + 2) + 1 := by
  unfold integrate
  by_cases hab : a = b
  · rw [if_pos hab]; simp
  · rw [if_neg hab]
    simp only [List.length_cons]
    have := adaptive_eval_count f depth.toNat (if a > b then b else a) (if a > b then a else b) (Lp.rabs eps)
      (((if a > b then a else b) - (if a > b then b else a)) / K.coarseDiv *
        (f (if a > b then b else a) + K.coarseMidW * f (((if a > b then b else a) + (if a > b then a else b)) / 2) + f (if a > b then a else b)))
      (f (if a > b then b else a)) (f (if a > b then a else b)) (f (((if a > b then b else a) + (if a > b then a else b)) / 2))
    omega

/-! ## The values handed down the recursion -/

theorem adaptive_reuse (f : Rat → Rat) (n : Nat) :
    ∀ a b eps S fa fb fc : Rat,
      fa = f a → fb = f b → fc = f ((a + b) / 2) → S = ((b - a) / 6) * (fa + 4 * fc + fb) →
      ∀ p ∈ (adaptive f a b eps S fa fb fc n).panels, p.reuseOK f := by
  have own : ∀ (a b eps S fa fb fc : Rat) (k : Nat) (l : Bool),
      fa = f a → fb = f b → fc = f ((a + b) / 2) → S = ((b - a) / 6) * (fa + 4 * fc + fb) →
      (mkPanel f a b eps S fa fb fc k l).reuseOK f := by
    intro a b eps S fa fb fc k l hfa hfb hfc hS
    exact ⟨hfa, hfb, hfc, hS, rfl⟩
  induction n with
  | zero =>
    intro a b eps S fa fb fc hfa hfb hfc hS p hp
    rw [adaptive_zero] at hp
    simp only [List.mem_cons, List.not_mem_nil, or_false] at hp
    subst hp; exact own _ _ _ _ _ _ _ _ _ hfa hfb hfc hS
  | succ n ih =>
    intro a b eps S fa fb fc hfa hfb hfc hS p hp
    by_cases h : Lp.rabs (s2 f a b fa fb fc - S) ≤ K.accFactor * eps
    · rw [adaptive_succ_accept _ _ _ _ _ _ _ _ _ h] at hp
      simp only [List.mem_cons, List.not_mem_nil, or_false] at hp
      subst hp; exact own _ _ _ _ _ _ _ _ _ hfa hfb hfc hS
    · rw [adaptive_succ_reject _ _ _ _ _ _ _ _ _ h] at hp
      simp only [List.mem_cons, List.mem_append] at hp
      rcases hp with rfl | hp | hp
      · exact own _ _ _ _ _ _ _ _ _ hfa hfb hfc hS
      · exact ih a (mid a b) (eps / K.epsDivL) _ fa fc _ hfa (by rw [hfc]; rfl) rfl
          (by subst hfa hfc; simp only [sLeft, mid, dL]; ring) p hp
      · exact ih (mid a b) b (eps / K.epsDivR) _ fc fb _ (by rw [hfc]; rfl) hfb
          (by simp only [eR, mid]; congr 1; ring)
          (by subst hfb hfc; simp only [sRight, mid, eR]; ring) p hp

/-- **simpson_reuse**: in every invocation of the recursive function the values handed down are
    the integrand at the ends and at the midpoint of that invocation's panel, and the coarse
    estimate handed down is Simpson's rule on that panel. -/
theorem simpson_reuse (f : Rat → Rat) (a b eps : Rat) (depth : Int) :
    ∀ p ∈ (integrate f a b eps depth).panels, p.reuseOK f := by
  intro p hp
  unfold integrate at hp
  by_cases hab : a = b
  · rw [if_pos hab] at hp; simp at hp
  · rw [if_neg hab] at hp
    exact adaptive_reuse f _ _ _ _ _ _ _ _ rfl rfl rfl rfl p hp

/-! ## Error budget -/

/-- sum of the tolerances of the invocations that returned a value themselves -/
def leafEps (ps : List Panel) : Rat := ((ps.filter (·.leaf)).map (·.eps)).sum

theorem leafEps_append (l1 l2 : List Panel) : leafEps (l1 ++ l2) = leafEps l1 + leafEps l2 := by
  unfold leafEps; simp [List.filter_append, List.map_append, List.sum_append]

/-- the tolerances handed down (`epsilon/2` per level) sum to exactly `epsilon` over the leaves -/
theorem adaptive_leafEps (f : Rat → Rat) (n : Nat) :
    ∀ a b eps S fa fb fc : Rat, leafEps (adaptive f a b eps S fa fb fc n).panels = eps := by
  induction n with
  | zero => intro a b eps S fa fb fc; rw [adaptive_zero]; simp [leafEps, mkPanel]
  | succ n ih =>
    intro a b eps S fa fb fc
    by_cases h : Lp.rabs (s2 f a b fa fb fc - S) ≤ K.accFactor * eps
    · rw [adaptive_succ_accept _ _ _ _ _ _ _ _ _ h]; simp [leafEps, mkPanel]
    · rw [adaptive_succ_reject _ _ _ _ _ _ _ _ _ h]
      simp only []
      have : leafEps (mkPanel f a b eps S fa fb fc (n + 1) false :: ((adaptive f a (mid a b) (eps / K.epsDivL) (sLeft f a b fa fc) fa fc (f (dL a b)) n).panels ++
          (adaptive f (mid a b) b (eps / K.epsDivR) (sRight f a b fb fc) fc fb (f (eR a b)) n).panels))
          = leafEps ((adaptive f a (mid a b) (eps / K.epsDivL) (sLeft f a b fa fc) fa fc (f (dL a b)) n).panels ++
          (adaptive f (mid a b) b (eps / K.epsDivR) (sRight f a b fb fc) fc fb (f (eR a b)) n).panels) := by
        unfold leafEps; simp [List.filter_cons, mkPanel]
      rw [this, leafEps_append, ih, ih]; ring

theorem adaptive_budget (f : Rat → Rat) (I : Rat → Rat → Rat)
    (hI : ∀ x y z, I x y + I y z = I x z) (κ : Rat) (hκ : 0 ≤ κ) (n : Nat) :
    ∀ a b eps S fa fb fc : Rat,
      (adaptive f a b eps S fa fb fc n).warn = false →
      (∀ p ∈ (adaptive f a b eps S fa fb fc n).panels, p.leaf = true →
          |I p.a p.b - p.boole| ≤ κ * |p.S2 - p.S| / 15) →
      |(adaptive f a b eps S fa fb fc n).val - I a b| ≤ κ * eps := by
  have leafcase : ∀ (a b eps S fa fb fc : Rat) (k : Nat),
      Lp.rabs (s2 f a b fa fb fc - S) ≤ K.accFactor * eps →
      |I a b - (mkPanel f a b eps S fa fb fc k true).boole| ≤ κ * |(mkPanel f a b eps S fa fb fc k true).S2 - (mkPanel f a b eps S fa fb fc k true).S| / 15 →
      |s2 f a b fa fb fc + (s2 f a b fa fb fc - S) / 15 - I a b| ≤ κ * eps := by
    intro a b eps S fa fb fc k hacc hl
    rw [rabs_eq_abs] at hacc
    simp only [Panel.boole, mkPanel] at hl
    rw [abs_sub_comm]
    have : κ * |s2 f a b fa fb fc - S| / 15 ≤ κ * eps := by
      have := mul_le_mul_of_nonneg_left hacc hκ
      linarith
    linarith
  induction n with
  | zero =>
    intro a b eps S fa fb fc hw hl
    have e := adaptive_zero f a b eps S fa fb fc
    have hl' := hl (mkPanel f a b eps S fa fb fc 0 true) (by rw [e]; exact List.mem_singleton.mpr rfl) rfl
    rw [e] at hw ⊢
    simp only [decide_eq_false_iff_not, not_lt] at hw
    exact leafcase a b eps S fa fb fc 0 hw hl'
  | succ n ih =>
    intro a b eps S fa fb fc hw hl
    by_cases h : Lp.rabs (s2 f a b fa fb fc - S) ≤ K.accFactor * eps
    · have e := adaptive_succ_accept f a b eps S fa fb fc n h
      have hl' := hl (mkPanel f a b eps S fa fb fc (n + 1) true) (by rw [e]; exact List.mem_singleton.mpr rfl) rfl
      rw [e]
      exact leafcase a b eps S fa fb fc (n + 1) h hl'
    · have e := adaptive_succ_reject f a b eps S fa fb fc n h
      simp only [] at e
      have hwL : (adaptive f a (mid a b) (eps / K.epsDivL) (sLeft f a b fa fc) fa fc (f (dL a b)) n).warn = false ∧
          (adaptive f (mid a b) b (eps / K.epsDivR) (sRight f a b fb fc) fc fb (f (eR a b)) n).warn = false := by
        rw [e] at hw; simpa [Bool.or_eq_false_iff] using hw
      have hL := ih a (mid a b) (eps / K.epsDivL) (sLeft f a b fa fc) fa fc (f (dL a b)) hwL.1
        (fun p hp hlf => hl p (by rw [e]; exact List.mem_cons_of_mem _ (List.mem_append_left _ hp)) hlf)
      have hR := ih (mid a b) b (eps / K.epsDivR) (sRight f a b fb fc) fc fb (f (eR a b)) hwL.2
        (fun p hp hlf => hl p (by rw [e]; exact List.mem_cons_of_mem _ (List.mem_append_right _ hp)) hlf)
      rw [e]
      simp only []
      have hadd := hI a (mid a b) b
      rw [abs_le] at hL hR ⊢
      constructor <;> linarith [hL.1, hL.2, hR.1, hR.2]

/-- **simpson_budget**: for any additive interval functional `I` (the exact integral) and any
    integrand: if the run ended without the non-convergence warning (no panel was cut off by
    `bottom <= 0`) and on every accepted panel the returned value is within `κ·|S2−S|/15` of `I`,
    then the result is within `κ·|epsilon|` of `I a b` — the tolerances handed down sum to
    `|epsilon|` over the leaves (`adaptive_leafEps`). -/
theorem simpson_budget (f : Rat → Rat) (I : Rat → Rat → Rat)
    (hI : ∀ x y z, I x y + I y z = I x z) (κ : Rat) (hκ : 0 ≤ κ)
    (a b eps : Rat) (depth : Int)
    (hw : (integrate f a b eps depth).warn = false)
    (hleaf : ∀ p ∈ (integrate f a b eps depth).panels, p.leaf = true →
        |I p.a p.b - p.boole| ≤ κ * |p.S2 - p.S| / 15) :
    |(integrate f a b eps depth).val - I a b| ≤ κ * |eps| := by
  have hI0 : ∀ x, I x x = 0 := by intro x; have := hI x x x; linarith
  have hIneg : ∀ x y, I y x = -I x y := by intro x y; have := hI x y x; rw [hI0] at this; linarith
  unfold integrate at hw hleaf ⊢
  by_cases hab : a = b
  · subst hab; simp [hI0]; exact mul_nonneg hκ (abs_nonneg _)
  · rw [if_neg hab] at hw hleaf ⊢
    simp only [] at hw hleaf ⊢
    have hb := adaptive_budget f I hI κ hκ _ _ _ _ _ _ _ _ hw hleaf
    rw [rabs_eq_abs] at hb
    rw [rabs_eq_abs]
    by_cases hgt : a > b
    · simp only [if_pos hgt] at hb ⊢
      rw [hIneg b a]
      rw [abs_le] at hb ⊢
      constructor <;> linarith [hb.1, hb.2]
    · simp only [if_neg hgt] at hb ⊢
      rw [one_mul]; exact hb

/-- per-panel algebra behind `κ = 4`: with the classical error representation of Simpson's rule
    on the panel (`I−S = −k·m1`, `I−S2 = −k·m2/16`) and `m1, m2 ∈ [m, 4m]`, `m > 0`. -/
theorem boole_error_le_four (Iab S S2 k m m1 m2 : Rat)
    (h1 : Iab - S = -k * m1) (h2 : Iab - S2 = -k * m2 / 16)
    (hm : 0 < m) (hm1 : m ≤ m1) (_hm1' : m1 ≤ 4 * m) (hm2 : m ≤ m2) (hm2' : m2 ≤ 4 * m) :
    |Iab - (S2 + (S2 - S) / 15)| ≤ 4 * |S2 - S| / 15 := by
  have e1 : Iab - (S2 + (S2 - S) / 15) = k * ((m1 - m2) / 15) := by
    have : S2 - S = (Iab - S) - (Iab - S2) := by ring
    have : Iab - (S2 + (S2 - S) / 15) = (Iab - S2) - ((Iab - S) - (Iab - S2)) / 15 := by ring
    rw [this, h1, h2]; ring
  have e2 : S2 - S = k * (-(m1 - m2 / 16)) := by
    have : S2 - S = (Iab - S) - (Iab - S2) := by ring
    rw [this, h1, h2]; ring
  rw [e1, e2, abs_mul, abs_mul, abs_neg]
  have hpos : 0 ≤ m1 - m2 / 16 := by linarith
  rw [abs_of_nonneg hpos]
  have hd : |(m1 - m2) / 15| ≤ 4 * (m1 - m2 / 16) / 15 := by
    rw [abs_le]; constructor <;> linarith
  have := mul_le_mul_of_nonneg_left hd (abs_nonneg k)
  calc |k| * |(m1 - m2) / 15| ≤ |k| * (4 * (m1 - m2 / 16) / 15) := this
    _ = 4 * (|k| * (m1 - m2 / 16)) / 15 := by ring

/-- **simpson_regular_4eps** (conditional): named hypothesis `hrep` = the classical error
    representation of Simpson's rule on every accepted panel, with the fourth-derivative values
    `m1, m2` of one sign and within a factor four of each other (what "f'''' keeps one sign and varies
    by at most a factor four over the interval" yields; the Peano-kernel theorem itself is not
    formalised).  Then a run without the warning is within `4·|epsilon|` of the integral. -/
theorem simpson_regular_4eps (f : Rat → Rat) (I : Rat → Rat → Rat)
    (hI : ∀ x y z, I x y + I y z = I x z) (a b eps : Rat) (depth : Int)
    (hw : (integrate f a b eps depth).warn = false)
    (hrep : ∀ p ∈ (integrate f a b eps depth).panels, p.leaf = true →
        ∃ k m m1 m2 : Rat, I p.a p.b - p.S = -k * m1 ∧ I p.a p.b - p.S2 = -k * m2 / 16 ∧
          0 < m ∧ m ≤ m1 ∧ m1 ≤ 4 * m ∧ m ≤ m2 ∧ m2 ≤ 4 * m) :
    |(integrate f a b eps depth).val - I a b| ≤ 4 * |eps| := by
  apply simpson_budget f I hI 4 (by norm_num) a b eps depth hw
  intro p hp hl
  obtain ⟨k, m, m1, m2, h1, h2, hm, a1, a2, a3, a4⟩ := hrep p hp hl
  exact boole_error_le_four _ _ _ k m m1 m2 h1 h2 hm a1 a2 a3 a4

/-! ## The run depends only on the integrand's values inside the interval (history independence) -/

theorem adaptive_congr (f g : Rat → Rat) (n : Nat) :
    ∀ a b eps S fa fb fc : Rat, a ≤ b → (∀ x, a ≤ x → x ≤ b → f x = g x) →
      adaptive f a b eps S fa fb fc n = adaptive g a b eps S fa fb fc n := by
  have key : ∀ a b fa fb fc : Rat, a ≤ b → (∀ x, a ≤ x → x ≤ b → f x = g x) →
      f (dL a b) = g (dL a b) ∧ f (eR a b) = g (eR a b) ∧
      sLeft f a b fa fc = sLeft g a b fa fc ∧ sRight f a b fb fc = sRight g a b fb fc ∧
      s2 f a b fa fb fc = s2 g a b fa fb fc := by
    intro a b fa fb fc hab hfg
    have hd : f (dL a b) = g (dL a b) := hfg _ (by unfold dL; linarith) (by unfold dL; linarith)
    have he : f (eR a b) = g (eR a b) := hfg _ (by unfold eR; linarith) (by unfold eR; linarith)
    have hl : sLeft f a b fa fc = sLeft g a b fa fc := by
      unfold sLeft; unfold dL at hd; rw [hd]
    have hr : sRight f a b fb fc = sRight g a b fb fc := by
      unfold sRight; unfold eR at he; rw [he]
    exact ⟨hd, he, hl, hr, by unfold s2; rw [hl, hr]⟩
  induction n with
  | zero =>
    intro a b eps S fa fb fc hab hfg
    obtain ⟨_, _, _, _, h2⟩ := key a b fa fb fc hab hfg
    rw [adaptive_zero, adaptive_zero]
    unfold mkPanel
    rw [h2]
  | succ n ih =>
    intro a b eps S fa fb fc hab hfg
    obtain ⟨hd, he, hl, hr, h2⟩ := key a b fa fb fc hab hfg
    have hm1 : a ≤ mid a b := by unfold mid; linarith
    have hm2 : mid a b ≤ b := by unfold mid; linarith
    by_cases h : Lp.rabs (s2 f a b fa fb fc - S) ≤ K.accFactor * eps
    · rw [adaptive_succ_accept f _ _ _ _ _ _ _ _ h, adaptive_succ_accept g _ _ _ _ _ _ _ _ (h2 ▸ h)]
      unfold mkPanel
      rw [h2]
    · rw [adaptive_succ_reject f _ _ _ _ _ _ _ _ h, adaptive_succ_reject g _ _ _ _ _ _ _ _ (h2 ▸ h)]
      simp only []
      rw [ih a (mid a b) _ _ fa fc _ hm1 (fun x h1 h2' => hfg x h1 (le_trans h2' hm2)),
          ih (mid a b) b _ _ fc fb _ hm2 (fun x h1 h2' => hfg x (le_trans hm1 h1) h2')]
      unfold mkPanel
      rw [hd, he, hl, hr, h2]

/-- **integrate_congr**: two integrands that agree on `[min a b, max a b]` give the identical run
    (value, abscissae in order, warning, panels): the result is a function of the integrand's values
    inside the interval only. -/
theorem integrate_congr (f g : Rat → Rat) (a b eps : Rat) (depth : Int)
    (hfg : ∀ x, min a b ≤ x → x ≤ max a b → f x = g x) :
    integrate f a b eps depth = integrate g a b eps depth := by
  unfold integrate
  by_cases hab : a = b
  · rw [if_pos hab, if_pos hab]
  · rw [if_neg hab, if_neg hab]
    have main : ∀ lo hi : Rat, lo ≤ hi → min a b = lo → max a b = hi →
        f lo = g lo ∧ f hi = g hi ∧ f ((lo + hi) / 2) = g ((lo + hi) / 2) ∧
        ∀ eps' S fa fb fc n, adaptive f lo hi eps' S fa fb fc n = adaptive g lo hi eps' S fa fb fc n := by
      intro lo hi hle hmin hmax
      rw [hmin, hmax] at hfg
      exact ⟨hfg lo (le_refl _) hle, hfg hi hle (le_refl _), hfg _ (by linarith) (by linarith),
        fun eps' S fa fb fc n => adaptive_congr f g n lo hi eps' S fa fb fc hle hfg⟩
    by_cases hgt : a > b
    · obtain ⟨h1, h2, h3, h4⟩ := main b a (le_of_lt hgt) (min_eq_right (le_of_lt hgt)) (max_eq_left (le_of_lt hgt))
      simp only [if_pos hgt]
      rw [h1, h2, h3, h4]
    · obtain ⟨h1, h2, h3, h4⟩ := main a b (not_lt.mp hgt) (min_eq_left (not_lt.mp hgt)) (max_eq_right (not_lt.mp hgt))
      simp only [if_neg hgt]
      rw [h1, h2, h3, h4]

/-- **integrate_nested_independent** (the obligation the `c03.nested` correspondence checks on the
    code): an integrand that performs an arbitrary computation `work` before returning `f x` —
    e.g. another `integrate` call with its own depth and epsilon — gives the same outer run as `f`:
    the outer call has no state that the inner computation could touch. -/
theorem integrate_nested_independent {σ : Type} (f : Rat → Rat) (work : Rat → σ) (a b eps : Rat) (depth : Int) :
    integrate (fun x => (fun (_ : σ) => f x) (work x)) a b eps depth = integrate f a b eps depth := rfl

/-- instance: the inner computation is itself an `integrate` run with another depth and epsilon whose
    value is added with weight zero -/
example (f h : Rat → Rat) (a b eps : Rat) (d1 d2 : Int) (ia ib ieps : Rat) :
    integrate (fun x => f x + 0 * (integrate h ia ib ieps d2).val) a b eps d1 = integrate f a b eps d1 :=
  integrate_congr _ _ a b eps d1 (fun x _ _ => by ring)

/-- **simpson_eval_count_lower**: unequal limits always cost at least five evaluations (the two
    ends, the midpoint and the two quarter points) — `Integrate` never returns without looking at the
    integrand unless `a == b` exactly. -/
theorem simpson_eval_count_lower (f : Rat → Rat) (a b eps : Rat) (depth : Int) (hab : a ≠ b) :
    5 ≤ (integrate f a b eps depth).evals.length := by
  have h2 : ∀ n a b eps S fa fb fc, 2 ≤ (adaptive f a b eps S fa fb fc n).evals.length := by
    intro n a b eps S fa fb fc
    cases n with
    | zero => rw [adaptive_zero]; simp
    | succ n =>
      by_cases h : Lp.rabs (s2 f a b fa fb fc - S) ≤ K.accFactor * eps
      · rw [adaptive_succ_accept _ _ _ _ _ _ _ _ _ h]; simp
      · rw [adaptive_succ_reject _ _ _ _ _ _ _ _ _ h]; simp
  unfold integrate
  rw [if_neg hab]
  simp only [List.length_cons]
  have := h2 depth.toNat (if a > b then b else a) (if a > b then a else b) (Lp.rabs eps)
      (((if a > b then a else b) - (if a > b then b else a)) / K.coarseDiv *
        (f (if a > b then b else a) + K.coarseMidW * f (((if a > b then b else a) + (if a > b then a else b)) / 2) + f (if a > b then a else b)))
      (f (if a > b then b else a)) (f (if a > b then a else b)) (f (((if a > b then b else a) + (if a > b then a else b)) / 2))
  omega

/-! ## The result is a function of the integrand's values at the node set (evaluation order is free) -/

theorem adaptive_congr_evals (f g : Rat → Rat) (n : Nat) :
    ∀ a b eps S fa fb fc : Rat,
      (∀ x ∈ (adaptive f a b eps S fa fb fc n).evals, f x = g x) →
      adaptive f a b eps S fa fb fc n = adaptive g a b eps S fa fb fc n := by
  have key : ∀ a b fa fb fc : Rat, f (dL a b) = g (dL a b) → f (eR a b) = g (eR a b) →
      sLeft f a b fa fc = sLeft g a b fa fc ∧ sRight f a b fb fc = sRight g a b fb fc ∧
      s2 f a b fa fb fc = s2 g a b fa fb fc := by
    intro a b fa fb fc hd he
    have hl : sLeft f a b fa fc = sLeft g a b fa fc := by
      unfold sLeft; unfold dL at hd; rw [hd]
    have hr : sRight f a b fb fc = sRight g a b fb fc := by
      unfold sRight; unfold eR at he; rw [he]
    exact ⟨hl, hr, by unfold s2; rw [hl, hr]⟩
  induction n with
  | zero =>
    intro a b eps S fa fb fc hev
    rw [adaptive_zero] at hev
    obtain ⟨_, _, h2⟩ := key a b fa fb fc (hev _ (by simp)) (hev _ (by simp))
    rw [adaptive_zero, adaptive_zero]
    unfold mkPanel
    rw [h2]
  | succ n ih =>
    intro a b eps S fa fb fc hev
    by_cases h : Lp.rabs (s2 f a b fa fb fc - S) ≤ K.accFactor * eps
    · rw [adaptive_succ_accept f _ _ _ _ _ _ _ _ h] at hev
      obtain ⟨_, _, h2⟩ := key a b fa fb fc (hev _ (by simp)) (hev _ (by simp))
      rw [adaptive_succ_accept f _ _ _ _ _ _ _ _ h, adaptive_succ_accept g _ _ _ _ _ _ _ _ (h2 ▸ h)]
      unfold mkPanel
      rw [h2]
    · rw [adaptive_succ_reject f _ _ _ _ _ _ _ _ h] at hev
      simp only [] at hev
      have hd := hev (dL a b) (by simp)
      have he := hev (eR a b) (by simp)
      obtain ⟨hl, hr, h2⟩ := key a b fa fb fc hd he
      rw [adaptive_succ_reject f _ _ _ _ _ _ _ _ h, adaptive_succ_reject g _ _ _ _ _ _ _ _ (h2 ▸ h)]
      simp only []
      rw [ih a (mid a b) _ _ fa fc _ (fun x hx => hev x (by simp only [List.mem_cons, List.mem_append]; exact Or.inr (Or.inr (Or.inl hx)))),
          ih (mid a b) b _ _ fc fb _ (fun x hx => hev x (by simp only [List.mem_cons, List.mem_append]; exact Or.inr (Or.inr (Or.inr hx))))]
      unfold mkPanel
      rw [hd, he, hl, hr, h2]

/-- **integrate_congr_on_evals**: the whole run (value, warning, panels, node list) is determined by the
    integrand's values at the nodes of the run itself: an integrand that agrees with `f` on the abscissae
    `f`'s run evaluates gives the identical run. -/
theorem integrate_congr_on_evals (f g : Rat → Rat) (a b eps : Rat) (depth : Int)
    (hfg : ∀ x ∈ (integrate f a b eps depth).evals, f x = g x) :
    integrate f a b eps depth = integrate g a b eps depth := by
  unfold integrate at hfg ⊢
  by_cases hab : a = b
  · rw [if_pos hab, if_pos hab]
  · rw [if_neg hab] at hfg ⊢
    rw [if_neg hab]
    simp only [] at hfg ⊢
    have h1 := hfg (if a > b then b else a) (by simp)
    have h2 := hfg (if a > b then a else b) (by simp)
    have h3 := hfg (((if a > b then b else a) + (if a > b then a else b)) / 2) (by simp)
    have h4 := adaptive_congr_evals f g depth.toNat _ _ _ _ _ _ _
      (fun x hx => hfg x (by simp only [List.mem_cons]; exact Or.inr (Or.inr (Or.inr hx))))
    rw [h4, h1, h2, h3]

/-- **integrate_evals_perm**: the order in which the nodes are visited is immaterial: agreement on any
    permutation `l` of the node list suffices (the property constrains where and how often the integrand is
    evaluated, not in which order; the correspondence compares the sorted multiset of abscissae). -/
theorem integrate_evals_perm (f g : Rat → Rat) (a b eps : Rat) (depth : Int) (l : List Rat)
    (hp : l.Perm (integrate f a b eps depth).evals) (hfg : ∀ x ∈ l, f x = g x) :
    integrate f a b eps depth = integrate g a b eps depth :=
  integrate_congr_on_evals f g a b eps depth (fun x hx => hfg x (hp.mem_iff.mpr hx))

/-! ## Independence of `Integrate` from earlier `Find_Epsilon` calls -/

/-- **integrate_after_findEpsilon** (the obligation the `c03.hist` correspondence checks on the code): whatever
    integrand, limits and precision an earlier `Find_Epsilon` call had — in particular the SAME limits and a
    DIFFERENT integrand — the `Integrate` call that follows is the plain run: no value of the earlier call is
    carried over (the entry points share no state). -/
theorem integrate_after_findEpsilon (g f : Rat → Rat) (a' b' precision a b eps : Rat) (depth : Int) :
    (findEpsilonThenIntegrate g f a' b' precision a b eps depth).2 = integrate f a b eps depth := rfl

/-- … and `Find_Epsilon` itself is `precision` times Simpson's rule, from exactly the three nodes `a, b, (a+b)/2` -/
theorem findEpsilon_spec (f : Rat → Rat) (a b precision : Rat) :
    (findEpsilon f a b precision).1 = precision * ((b - a) / 6 * (f a + 4 * f ((a + b) / 2) + f b)) ∧
    (findEpsilon f a b precision).2 = [a, b, (a + b) / 2] := by
  unfold findEpsilon
  exact ⟨rfl, rfl⟩

/-- the stale-record scenario of the correspondence: same limits, different integrand; the first three values the
    `Integrate` run uses are `f`'s, not `g`'s (`simpson_reuse` on the root panel) -/
example (g f : Rat → Rat) (a b p eps : Rat) (depth : Int) (hab : a < b) :
    ∀ q ∈ (findEpsilonThenIntegrate g f a b p a b eps depth).2.panels, q.reuseOK f :=
  fun q hq => simpson_reuse f a b eps depth q hq

/-! ## Non-vacuity: concrete instances meeting the hypotheses -/

/-- the hypotheses of `simpson_regular_4eps` are met by `x⁴` (constant fourth derivative 24:
    `k = h⁵/2880`, `m = m1 = m2 = 24`) on every interval, for every `eps`, `depth` -/
example (a b eps : Rat) (depth : Int)
    (hw : (integrate (fun x => x ^ 4) a b eps depth).warn = false) :
    |(integrate (fun x => x ^ 4) a b eps depth).val - (b ^ 5 - a ^ 5) / 5| ≤ 4 * |eps| := by
  apply simpson_regular_4eps (fun x => x ^ 4) (fun x y => (y ^ 5 - x ^ 5) / 5) (by intro x y z; ring) a b eps depth hw
  intro p hp _
  obtain ⟨hfa, hfb, hfc, hS, hS2⟩ := simpson_reuse _ a b eps depth p hp
  refine ⟨(p.b - p.a) ^ 5 / 2880, 24, 24, 24, ?_, ?_, by norm_num, by norm_num, by norm_num, by norm_num, by norm_num⟩
  · rw [hS, hfa, hfb, hfc]; ring
  · rw [hS2, hfa, hfb, hfc]; ring

/-- … and a run without the warning exists (x⁴ on [0,1], eps = 1, depth 5: accepted at once) -/
example : (integrate (fun x => x ^ 4) 0 1 1 5).warn = false := by
  unfold integrate
  rw [if_neg (by norm_num)]
  simp only []
  have h5 : (5 : Int).toNat = 4 + 1 := rfl
  rw [h5, adaptive_succ_accept]
  rw [rabs_eq_abs, abs_le]
  norm_num [s2, sLeft, sRight, Lp.rabs]

/-- `boole_error_le_four` with a genuine factor-four variation -/
example : |(1 : Rat) - ((33/32 : Rat) + ((33/32 : Rat) - 2) / 15)| ≤ 4 * |(33/32 : Rat) - 2| / 15 :=
  boole_error_le_four 1 2 (33/32) 1 (1/4) 1 (1/2) (by norm_num) (by norm_num) (by norm_num) (by norm_num)
    (by norm_num) (by norm_num) (by norm_num)

end Lp.C03
