/-
  C18 — samplers: property theorems (DESIGN.md §6, C18) about the executable model
  `LpModel/C18.lean`, for every generator type `G` and every uniform source `u01 : G → Rat × G`.
  The empirical law of the outputs is correspondence/oracle-only (props/c18.py).
-/
import LpProofs.C18.Lemmas
import LpProofs.C18.Poisson
import LpProofs.C18.PoissonFull
import Mathlib.Tactic.NormNum
namespace Lp.C18

variable {G : Type}

/-- the uniform source yields values in `[0,1)` (`generate_canonical` does: checked by `c18.canon`) -/
def Unit01 (u01 : U01 G) : Prop := ∀ g, 0 ≤ (u01 g).1 ∧ (u01 g).1 < 1

/-! ## sample count: exactly `sample` values for every burn-in and every thinning ≥ 1 -/

/-- the arithmetic core: `#{ i ∈ [b, b + t·s) | i ≥ b ∧ t ∣ i } = s`, although the C++ counts `i`
    from 0 and not from `burn_in` -/
theorem metropolis_count_arith (burn thin sample : Nat) (ht : 1 ≤ thin) :
    cnt burn thin (burn + thin * sample) 0 = sample := cnt_total burn thin sample ht

theorem metropolis_count_1d (u01 : U01 G) (gq : Rat → Rat → Rat → Rat) (pdf : Rat → Rat) (sigma : Rat)
    (sample thin burn : Nat) (dom : Option (Rat × Rat)) (g : G) (ht : 1 ≤ thin) :
    (metropolis1 u01 gq pdf sigma sample thin burn dom g).1.length = sample := by
  simp only [metropolis1, metroLoop_length, cnt_total _ _ _ ht, List.length_nil, Nat.zero_add]

theorem metropolis_count_2d (u01 : U01 G) (gq : Rat → Rat → Rat → Rat) (pdf : Rat → Rat → Rat) (s1 s2 : Rat)
    (sample thin burn : Nat) (dom : Option Dom2) (g : G) (ht : 1 ≤ thin) :
    (metropolis2 u01 gq pdf s1 s2 sample thin burn dom g).1.length = sample := by
  simp only [metropolis2, metroLoop_length, cnt_total _ _ _ ht, List.length_nil, Nat.zero_add]

/-- the bookkeeping loop in general (any chain, any step function) -/
theorem metroLoop_count {X : Type} (step : X → G → X × G) (burn thin sample : Nat) (x : X) (g : G) (ht : 1 ≤ thin) :
    (metroLoop step burn thin (burn + thin * sample) 0 x g []).1.length = sample := by
  simp only [metroLoop_length, cnt_total _ _ _ ht, List.length_nil, Nat.zero_add]

-- non-vacuity: burn_in not a multiple of the thinning
example : (metroLoop (G := Nat) (X := Nat) (fun x g => (x + 1, g + 2)) 7 3 (7 + 3 * 4) 0 0 0 []).1 = [10, 13, 16, 19] := by decide

/-! ## number of uniforms consumed -/

theorem metropolis_draws_1d (u01 : U01 G) (gq : Rat → Rat → Rat → Rat) (pdf : Rat → Rat) (sigma : Rat)
    (sample thin burn : Nat) (dom : Option (Rat × Rat)) (g : G) :
    (metropolis1 u01 gq pdf sigma sample thin burn dom g).2 = adv u01 (1 + 2 * (burn + thin * sample)) g := by
  unfold metropolis1
  rw [metroLoop_state u01 _ 2]
  · rw [adv_add]
    cases dom <;> rfl
  · intro x g'
    cases dom <;> rfl

theorem metropolis_draws_2d (u01 : U01 G) (gq : Rat → Rat → Rat → Rat) (pdf : Rat → Rat → Rat) (s1 s2 : Rat)
    (sample thin burn : Nat) (dom : Option Dom2) (g : G) :
    (metropolis2 u01 gq pdf s1 s2 sample thin burn dom g).2 = adv u01 (2 + 3 * (burn + thin * sample)) g := by
  unfold metropolis2
  rw [metroLoop_state u01 _ 3]
  · rw [adv_add]
    cases dom <;> rfl
  · intro x g'
    cases dom <;> rfl

/-! ## containment in a bounded domain -/

theorem sampleUniform_inside (u01 : U01 G) (hu : Unit01 u01) (g : G) (a b : Rat) (hab : a ≤ b) :
    a ≤ (sampleUniform u01 g a b).1 ∧ (sampleUniform u01 g a b).1 ≤ b := by
  obtain ⟨h0, h1⟩ := hu g
  simp only [sampleUniform]
  have hd : 0 ≤ b - a := by linarith
  constructor
  · nlinarith [mul_nonneg h0 hd]
  · nlinarith [mul_nonneg (by linarith : (0 : Rat) ≤ 1 - (u01 g).1) hd]

/-- a step from inside the domain stays inside: a proposal outside gets acceptance 0, and `u < 0`
    is impossible -/
theorem metroStep1_inside (u01 : U01 G) (hu : Unit01 u01) (cand : G → Rat → Rat × G) (pdf : Rat → Rat)
    (lo hi x : Rat) (g : G) (hx : lo ≤ x ∧ x ≤ hi) :
    lo ≤ (metroStep1 u01 cand pdf (some (lo, hi)) x g).1 ∧ (metroStep1 u01 cand pdf (some (lo, hi)) x g).1 ≤ hi := by
  simp only [metroStep1]
  have hu0 : 0 ≤ (sampleUniform u01 (cand g x).2 0 1).1 := (sampleUniform_inside u01 hu _ 0 1 (by norm_num)).1
  by_cases hc : (cand g x).1 < lo ∨ (cand g x).1 > hi
  · simp only [if_pos hc, if_neg (not_lt.mpr hu0)]; exact hx
  · simp only [if_neg hc]
    have hc' : lo ≤ (cand g x).1 ∧ (cand g x).1 ≤ hi := by
      constructor
      · exact not_lt.mp (fun h => hc (Or.inl h))
      · exact not_lt.mp (fun h => hc (Or.inr h))
    split_ifs
    · exact hc'
    · exact hx

theorem metropolis_in_domain_1d (u01 : U01 G) (hu : Unit01 u01) (gq : Rat → Rat → Rat → Rat) (pdf : Rat → Rat) (sigma : Rat)
    (sample thin burn : Nat) (lo hi : Rat) (hd : lo ≤ hi) (g : G) :
    ∀ y ∈ (metropolis1 u01 gq pdf sigma sample thin burn (some (lo, hi)) g).1, lo ≤ y ∧ y ≤ hi := by
  unfold metropolis1
  apply metroLoop_all _ (fun y => lo ≤ y ∧ y ≤ hi)
  · intro x g' hx; exact metroStep1_inside u01 hu _ pdf lo hi x g' hx
  · exact sampleUniform_inside u01 hu g lo hi hd
  · intro y hy; simp at hy

def Dom2.Mem (d : Dom2) (p : Rat × Rat) : Prop := d.x0 ≤ p.1 ∧ p.1 ≤ d.x1 ∧ d.y0 ≤ p.2 ∧ p.2 ≤ d.y1

theorem metroStep2_inside (u01 : U01 G) (hu : Unit01 u01) (cand : G → Rat × Rat → (Rat × Rat) × G) (pdf : Rat → Rat → Rat)
    (d : Dom2) (x : Rat × Rat) (g : G) (hx : d.Mem x) : d.Mem (metroStep2 u01 cand pdf (some d) x g).1 := by
  simp only [metroStep2]
  have hu0 : 0 ≤ (sampleUniform u01 (cand g x).2 0 1).1 := (sampleUniform_inside u01 hu _ 0 1 (by norm_num)).1
  by_cases hc : (cand g x).1.1 < d.x0 ∨ (cand g x).1.1 > d.x1 ∨ (cand g x).1.2 < d.y0 ∨ (cand g x).1.2 > d.y1
  · simp only [if_pos hc, if_neg (not_lt.mpr hu0)]; exact hx
  · simp only [if_neg hc]
    have hc' : d.Mem (cand g x).1 := by
      refine ⟨?_, ?_, ?_, ?_⟩
      · exact not_lt.mp (fun h => hc (Or.inl h))
      · exact not_lt.mp (fun h => hc (Or.inr (Or.inl h)))
      · exact not_lt.mp (fun h => hc (Or.inr (Or.inr (Or.inl h))))
      · exact not_lt.mp (fun h => hc (Or.inr (Or.inr (Or.inr h))))
    split_ifs
    · exact hc'
    · exact hx

theorem metropolis_in_domain_2d (u01 : U01 G) (hu : Unit01 u01) (gq : Rat → Rat → Rat → Rat) (pdf : Rat → Rat → Rat) (s1 s2 : Rat)
    (sample thin burn : Nat) (d : Dom2) (hx : d.x0 ≤ d.x1) (hy : d.y0 ≤ d.y1) (g : G) :
    ∀ p ∈ (metropolis2 u01 gq pdf s1 s2 sample thin burn (some d) g).1, d.Mem p := by
  unfold metropolis2
  apply metroLoop_all _ d.Mem
  · intro x g' hx'; exact metroStep2_inside u01 hu _ pdf d x g' hx'
  · have a := sampleUniform_inside u01 hu g d.x0 d.x1 hx
    have b := sampleUniform_inside u01 hu (sampleUniform u01 g d.x0 d.x1).2 d.y0 d.y1 hy
    exact ⟨a.1, a.2, b.1, b.2⟩
  · intro y hy'; simp at hy'

-- non-vacuity of `Unit01`: a counter-driven source with values 0, 1/2, 0, 1/2, …
example : Unit01 (G := Nat) (fun n => ((n % 2 : Nat) / 2, n + 1)) := by
  intro g
  have h : g % 2 = 0 ∨ g % 2 = 1 := by omega
  rcases h with h | h <;> simp [h] <;> norm_num

/-! ## detailed balance of the acceptance rule -/

theorem metropolis_detailed_balance (px py : Rat) (hx : 0 < px) (hy : 0 < py) :
    px * accProb py px = py * accProb px py := by
  have hx0 : px ≠ 0 := ne_of_gt hx
  have hy0 : py ≠ 0 := ne_of_gt hy
  simp only [accProb, if_neg hx0, if_neg hy0, rmin]
  by_cases h1 : py / px < 1
  · have hlt : py < px := by rwa [div_lt_one hx] at h1
    have h2 : ¬ px / py < 1 := by rw [div_lt_one hy]; exact not_lt.mpr (le_of_lt hlt)
    rw [if_pos h1, if_neg h2]; field_simp
  · have hge : px ≤ py := by rw [div_lt_one hx] at h1; exact not_lt.mp h1
    rw [if_neg h1]
    by_cases h2 : px / py < 1
    · rw [if_pos h2]; field_simp
    · have : py ≤ px := by rw [div_lt_one hy] at h2; exact not_lt.mp h2
      have e : px = py := le_antisymm hge this
      rw [if_neg h2, e]

/-- the acceptance probability is a probability for positive densities -/
theorem accProb_range (pc px : Rat) (hc : 0 ≤ pc) (hx : 0 < px) : 0 ≤ accProb pc px ∧ accProb pc px ≤ 1 := by
  simp only [accProb, if_neg (ne_of_gt hx), rmin]
  split_ifs with h
  · exact ⟨div_nonneg hc (le_of_lt hx), le_of_lt h⟩
  · exact ⟨by norm_num, le_refl _⟩

/-! ## rejection sampling -/

/-- the `j`-th trial point and ordinate drawn from `g` (two uniforms per trial) -/
def trialX (u01 : U01 G) (g : G) (xMin xMax : Rat) (j : Nat) : Rat := (sampleUniform u01 (adv u01 (2 * j) g) xMin xMax).1
def trialY (u01 : U01 G) (g : G) (yMax : Rat) (j : Nat) : Rat := (sampleUniform u01 (adv u01 (2 * j + 1) g) 0 yMax).1

theorem rejLoop_spec (u01 : U01 G) (pdf : Rat → Rat) (xMin xMax yMax : Rat) :
    ∀ f c g x n gout, rejLoop u01 pdf xMin xMax yMax f c g = .ok (x, n, gout) →
      ∃ j, n = c + j + 1 ∧ gout = adv u01 (2 * (j + 1)) g ∧ x = trialX u01 g xMin xMax j ∧
        trialY u01 g yMax j ≤ pdf x ∧
        ∀ i, i < j → ¬ (trialY u01 g yMax i ≤ pdf (trialX u01 g xMin xMax i)) := by
  intro f
  induction f with
  | zero => intro c g x n gout h; simp [rejLoop] at h
  | succ f ih =>
    intro c g x n gout h
    simp only [rejLoop] at h
    split_ifs at h with h1 h2 h3 h4
    · -- accepted at this trial
      simp only [Except.ok.injEq, Prod.mk.injEq] at h
      obtain ⟨hx, hn, hg⟩ := h
      refine ⟨0, by omega, ?_, ?_, ?_, ?_⟩
      · rw [← hg]; rfl
      · rw [← hx]; rfl
      · rw [← hx]; exact h4
      · intro i hi; omega
    · -- rejected: recurse on the state after two uniforms
      obtain ⟨j, hn, hg, hx, hacc, hrej⟩ := ih (c + 1) _ x n gout h
      have hadv : ∀ m, adv u01 m (sampleUniform u01 (sampleUniform u01 g xMin xMax).2 0 yMax).2 = adv u01 (2 + m) g := by
        intro m; rw [adv_add]; rfl
      refine ⟨j + 1, by omega, ?_, ?_, ?_, ?_⟩
      · rw [hg, hadv]; congr 1; ring
      · rw [hx]; simp only [trialX]; rw [hadv]; congr 3; ring
      · have : trialY u01 g yMax (j + 1) = trialY u01 (sampleUniform u01 (sampleUniform u01 g xMin xMax).2 0 yMax).2 yMax j := by
          simp only [trialY]; rw [hadv]; congr 3; ring
        rw [this]; exact hacc
      · intro i hi
        cases i with
        | zero => exact h4
        | succ i =>
          have e1 : trialY u01 g yMax (i + 1) = trialY u01 (sampleUniform u01 (sampleUniform u01 g xMin xMax).2 0 yMax).2 yMax i := by
            simp only [trialY]; rw [hadv]; congr 3; ring
          have e2 : trialX u01 g xMin xMax (i + 1) = trialX u01 (sampleUniform u01 (sampleUniform u01 g xMin xMax).2 0 yMax).2 xMin xMax i := by
            simp only [trialX]; rw [hadv]; congr 3; ring
          rw [e1, e2]; exact hrej i (by omega)

/-- `Rejection_Sampling` returns the first trial point `x_j` with `y_j ≤ PDF(x_j)`, after exactly
    `j+1` trials and `2(j+1)` uniforms -/
theorem rejection_accept_rule (u01 : U01 G) (pdf : Rat → Rat) (xMin xMax yMax : Rat) (g : G) (x : Rat) (n : Nat) (gout : G)
    (h : rejection u01 pdf xMin xMax yMax g = .ok (x, n, gout)) :
    ∃ j, n = j + 1 ∧ gout = adv u01 (2 * (j + 1)) g ∧ x = trialX u01 g xMin xMax j ∧ trialY u01 g yMax j ≤ pdf x ∧
      ∀ i, i < j → ¬ (trialY u01 g yMax i ≤ pdf (trialX u01 g xMin xMax i)) := by
  obtain ⟨j, hn, r⟩ := rejLoop_spec u01 pdf xMin xMax yMax 10000 0 g x n gout h
  exact ⟨j, by omega, r⟩

theorem rejection_in_domain (u01 : U01 G) (hu : Unit01 u01) (pdf : Rat → Rat) (xMin xMax yMax : Rat) (hd : xMin ≤ xMax)
    (g : G) (x : Rat) (n : Nat) (gout : G) (h : rejection u01 pdf xMin xMax yMax g = .ok (x, n, gout)) :
    xMin ≤ x ∧ x ≤ xMax := by
  obtain ⟨j, _, _, hx, _⟩ := rejection_accept_rule u01 pdf xMin xMax yMax g x n gout h
  rw [hx]; exact sampleUniform_inside u01 hu _ xMin xMax hd

/-- the inefficiency exit: the loop never runs out of the model's fuel; it stops by itself at the
    10000-th trial -/
theorem rejLoop_no_fuel (u01 : U01 G) (pdf : Rat → Rat) (xMin xMax yMax : Rat) :
    ∀ f c g, c + f ≥ 10000 → c < 10000 → rejLoop u01 pdf xMin xMax yMax f c g ≠ .error .fuel := by
  intro f
  induction f with
  | zero => intro c g h1 h2; omega
  | succ f ih =>
    intro c g h1 h2
    simp only [rejLoop]
    split_ifs with a b d e
    · simp
    · simp
    · simp
    · simp
    · have hc : c + 1 < 10000 := by
        by_contra hh
        have : c + 1 = 10000 := by omega
        apply a; rw [this]; decide
      exact ih (c + 1) _ (by omega) hc

/-! ## Poisson sampler (Knuth's rule) -/

/-- FULL clause (every mean, any number of `exp(STEP)` rescalings): for a multiplicative, positive `exp`
    with `exp x ≥ 1` on `x ≥ 0`, uniforms in `[0,1)`, `STEP > 0`, enough inner fuel and no exact tie
    `u₁…u_k·exp(m·STEP) = 1`, the sampler returns the least `K` with `u₁…u_{K+1}·exp λ ≤ 1` and
    consumes exactly `K+1` uniforms.  PROVED: `poisson_knuth_full` below (a corollary of `poisson_knuth`,
    which asks of `exp` only the splitting the code performs, so that rational instances other than the
    constant 1 exist). -/
def poisson_knuth_FULL : Prop :=
  ∀ (G : Type) (u01 : U01 G) (exp : Rat → Rat) (step lam : Rat) (rf fuel : Nat) (g gout : G) (K : Nat),
    Unit01 u01 → (∀ a b, exp (a + b) = exp a * exp b) → (∀ a, 0 < exp a) → (∀ a, 0 ≤ a → 1 ≤ exp a) →
    0 < step → 0 < lam → lam ≤ rf * step →
    (∀ k m : Nat, 1 ≤ k → (m : Rat) * step < lam → prodU u01 g k * exp (m * step) ≠ 1) →
    samplePoisson u01 exp (fun x => x) step rf fuel g lam = some (K, gout) →
      gout = adv u01 (K + 1) g ∧ prodU u01 g (K + 1) * exp lam ≤ 1 ∧ ∀ j, 1 ≤ j → j ≤ K → 1 < prodU u01 g j * exp lam

/-- **no rescaling** (`0 < λ ≤ STEP`, expectation values up to 500): the sampler returns the least `K`
    with `u₁…u_{K+1}·exp λ ≤ 1` (Knuth's rule `∏ u < e^{-λ}` up to the tie) and consumes exactly `K+1`
    uniforms.  Needs nothing of `exp`; `rf ≥ 1` iterations of the inner loop suffice. -/
theorem poisson_knuth_partial (u01 : U01 G) (hu : Unit01 u01) (exp : Rat → Rat) (step lam : Rat) (rf fuel : Nat) (g gout : G) (K : Nat)
    (hlam : 0 < lam) (hstep : lam ≤ step) (hrf : 1 ≤ rf)
    (h : samplePoisson u01 exp (fun x => x) step rf fuel g lam = some (K, gout)) :
    gout = adv u01 (K + 1) g ∧ prodU u01 g (K + 1) * exp lam ≤ 1 ∧ ∀ j, 1 ≤ j → j ≤ K → 1 < prodU u01 g j * exp lam := by
  obtain ⟨hu0, hu1⟩ := hu g
  cases fuel with
  | zero => simp [samplePoisson, poisLoop] at h
  | succ fuel =>
    obtain ⟨f, rfl⟩ : ∃ f, rf = f + 1 := ⟨rf - 1, by omega⟩
    simp only [samplePoisson, poisLoop, one_mul] at h
    have hr : poisRescale exp (fun x => x) step (f + 1) (u01 g).1 lam = ((u01 g).1 * exp lam, 0) := by
      simp only [poisRescale]
      rw [if_pos ⟨hu1, hlam⟩, if_neg (not_lt.mpr hstep)]
      exact poisRescale_zero exp step f _
    rw [hr] at h
    dsimp only at h
    split_ifs at h with h1
    · obtain ⟨n, hK, hg, hle, hgt⟩ := poisLoop_zero_phase u01 exp step (f + 1) _ _ _ _ _ _ h
      have hK' : K = n + 1 := by omega
      subst hK'
      refine ⟨?_, ?_, ?_⟩
      · rw [hg]; rfl
      · rw [prodU_front]
        have e : (u01 g).1 * prodU u01 (u01 g).2 (n + 1) * exp lam = (u01 g).1 * exp lam * prodU u01 (u01 g).2 (n + 1) := by ring
        rw [e]; exact hle
      · intro j hj1 hj2
        cases j with
        | zero => omega
        | succ j =>
          rw [prodU_front]
          cases j with
          | zero => simpa [prodU] using h1
          | succ j =>
            have := hgt (j + 1) (by omega) (by omega)
            have e : (u01 g).1 * prodU u01 (u01 g).2 (j + 1) * exp lam = (u01 g).1 * exp lam * prodU u01 (u01 g).2 (j + 1) := by ring
            rw [e]; exact this
    · simp only [Option.some.injEq, Prod.mk.injEq] at h
      obtain ⟨hK, hg⟩ := h
      subst hK
      refine ⟨?_, ?_, ?_⟩
      · rw [← hg]; rfl
      · rw [prodU_front]; simp only [prodU, mul_one]; exact not_lt.mp h1
      · intro j hj1 hj2; omega

-- non-vacuity: a source with u = 1/4 and `exp λ = 5`: 5/4 > 1, 5/16 ≤ 1, so K = 1 after two uniforms
example : samplePoisson (G := Nat) (fun n => ((1 : Rat) / 4, n + 1)) (fun _ => 5) (fun x => x) 500 1 10 0 1 = some (1, 2) := by
  norm_num [samplePoisson, poisLoop, poisRescale]

/-! ### every mean: the `exp(STEP)` rescaling -/

/-- **Knuth's rule for every mean** (any number of rescalings).  Hypotheses on `exp`, on `(0, λ]` only:
    `Peel` (`exp x = exp STEP · exp (x − STEP)` for `STEP < x ≤ λ`, the one splitting the code performs) and
    `Ge1` (`1 ≤ exp x`).  No hypothesis on the uniforms.  `lam ≤ rf·step`: the fuel of the inner loop suffices
    (`⌈λ/STEP⌉` iterations).  `htie` is used at exactly one place: the exit test `while(p > 1)` evaluated
    with `p = 1` while `lambda_left = λ − m·STEP > 0` (there `p = u₁…u_k·exp(STEP)^m`): the C++ leaves the
    loop although `u₁…u_k·exp λ = exp(lambda_left) ≥ 1` (see `poisson_tie_witness`).
    Conclusion: `K+1` uniforms consumed, `K` = the least index with `u₁…u_{K+1}·exp λ ≤ 1`. -/
theorem poisson_knuth (u01 : U01 G) (exp : Rat → Rat) (step lam : Rat) (rf fuel : Nat) (g gout : G) (K : Nat)
    (hstep : 0 < step) (hlam : 0 < lam) (hrf : lam ≤ rf * step)
    (hpeel : Peel exp step lam) (hge : Ge1 exp lam)
    (htie : ∀ k m : Nat, 1 ≤ k → (m : Rat) * step < lam → prodU u01 g k * exp step ^ m ≠ 1)
    (h : samplePoisson u01 exp (fun x => x) step rf fuel g lam = some (K, gout)) :
    gout = adv u01 (K + 1) g ∧ prodU u01 g (K + 1) * exp lam ≤ 1 ∧ ∀ j, 1 ≤ j → j ≤ K → 1 < prodU u01 g j * exp lam := by
  obtain ⟨n, hK, hg, hle, hgt⟩ := poisLoop_inv u01 exp step lam rf hstep hpeel hge fuel 0 1 lam g K gout
    (le_of_lt hlam) (le_refl _) hrf (by intro j m hj hm; rw [one_mul]; exact htie j m hj hm) h
  rw [remF_pos_arg hlam, one_mul] at hle
  have hK' : K = n := by omega
  subst hK'
  refine ⟨hg, by rw [mul_comm]; exact hle, ?_⟩
  intro j h1 h2
  have := hgt j h1 h2
  rw [remF_pos_arg hlam, one_mul] at this
  rw [mul_comm]; exact this

-- non-vacuity: `exp = 2^⌈x⌉` on `(0, 5/2]`, STEP = 1, λ = 5/2 (two full rescalings and a remainder), u = 1/5
example : (0 : Rat) < 1 ∧ (0 : Rat) < 5 / 2 ∧ (5 / 2 : Rat) ≤ ((3 : Nat) : Rat) * 1 ∧ Peel expS 1 (5 / 2) ∧ Ge1 expS (5 / 2) ∧
    (∀ k m : Nat, 1 ≤ k → (m : Rat) * 1 < 5 / 2 → prodU (constU (1 / 5)) 0 k * expS 1 ^ m ≠ 1) ∧
    samplePoisson (constU (1 / 5)) expS (fun x => x) 1 3 10 0 (5 / 2) = some (1, 2) :=
  ⟨by norm_num, by norm_num, by norm_num, expS_peel, expS_ge1, constU_fifth_notie,
   by norm_num [samplePoisson, poisLoop, poisRescale, expS, constU]⟩

/-- with uniforms in `[0,1)` the tie hypothesis is needed for `m ≥ 1` only (after at least one rescaling) -/
theorem poisson_knuth_unit01 (u01 : U01 G) (hu : Unit01 u01) (exp : Rat → Rat) (step lam : Rat) (rf fuel : Nat) (g gout : G) (K : Nat)
    (hstep : 0 < step) (hlam : 0 < lam) (hrf : lam ≤ rf * step)
    (hpeel : Peel exp step lam) (hge : Ge1 exp lam)
    (htie : ∀ k m : Nat, 1 ≤ k → 1 ≤ m → (m : Rat) * step < lam → prodU u01 g k * exp step ^ m ≠ 1)
    (h : samplePoisson u01 exp (fun x => x) step rf fuel g lam = some (K, gout)) :
    gout = adv u01 (K + 1) g ∧ prodU u01 g (K + 1) * exp lam ≤ 1 ∧ ∀ j, 1 ≤ j → j ≤ K → 1 < prodU u01 g j * exp lam := by
  refine poisson_knuth u01 exp step lam rf fuel g gout K hstep hlam hrf hpeel hge ?_ h
  intro k m hk hm
  cases m with
  | zero =>
    obtain ⟨j, rfl⟩ : ∃ j, k = j + 1 := ⟨k - 1, by omega⟩
    have := (prodU_lt_one u01 hu j g).2
    rw [pow_zero, mul_one]; exact ne_of_lt this
  | succ m => exact htie k (m + 1) hk (by omega) hm

example : Unit01 (constU (1 / 5)) := fun g => by simp [constU]; norm_num

/-- the FULL clause as first stated (fully multiplicative `exp`) -/
theorem poisson_knuth_full : poisson_knuth_FULL := by
  intro G u01 exp step lam rf fuel g gout K _ hmul hpos hge1 hstep hlam hrf htie h
  refine poisson_knuth u01 exp step lam rf fuel g gout K hstep hlam hrf (peel_of_mul exp step lam hmul)
    (fun x hx _ => hge1 x (le_of_lt hx)) ?_ h
  intro k m hk hm
  rw [← exp_nat_mul exp step hmul hpos m]
  exact htie k m hk hm

-- non-vacuity of the FULL hypotheses: `exp = 1` (over `Rat` a positive `exp` multiplicative on ALL rationals is
-- necessarily constant — `exp a = (exp (a/n))^n` for every n —, which is why `poisson_knuth` above asks less)
example : (∀ a b : Rat, (fun _ : Rat => (1 : Rat)) (a + b) = (fun _ => 1) a * (fun _ => 1) b) ∧
    (∀ a : Rat, (0 : Rat) < (fun _ : Rat => (1 : Rat)) a) ∧ (∀ a : Rat, 0 ≤ a → (1 : Rat) ≤ (fun _ : Rat => (1 : Rat)) a) ∧
    (∀ k m : Nat, 1 ≤ k → (m : Rat) * 1 < 5 / 2 → prodU (constU (1 / 5)) 0 k * (fun _ : Rat => (1 : Rat)) (m * 1) ≠ 1) := by
  refine ⟨by intro a b; norm_num, by intro a; norm_num, by intro a _; norm_num, ?_⟩
  intro k m hk _
  obtain ⟨j, rfl⟩ : ∃ j, k = j + 1 := ⟨k - 1, by omega⟩
  have := (prodU_bounds (constU (1 / 5)) (1 / 5) (by norm_num) (fun g => by simp [constU]) j 0).2
  intro h; simp only [mul_one] at h; linarith

/-- **termination and totality**: if Knuth's index exists (`u₁…u_{n+1}·exp λ ≤ 1` for some `n < fuel`), the
    sampler returns (no tie hypothesis needed); with `poisson_knuth` the value is then the least such index -/
theorem poisson_knuth_total (u01 : U01 G) (exp : Rat → Rat) (step lam : Rat) (rf fuel : Nat) (g : G)
    (hstep : 0 < step) (hlam : 0 < lam) (hrf : lam ≤ rf * step) (hpeel : Peel exp step lam) (hge : Ge1 exp lam)
    (hex : ∃ n, n < fuel ∧ prodU u01 g (n + 1) * exp lam ≤ 1) :
    ∃ K gout, samplePoisson u01 exp (fun x => x) step rf fuel g lam = some (K, gout) := by
  obtain ⟨n, hn, hle⟩ := hex
  exact poisLoop_total u01 exp step lam rf hstep hpeel hge fuel 0 1 lam g (le_of_lt hlam) (le_refl _) hrf
    ⟨n, hn, by rw [remF_pos_arg hlam, one_mul, mul_comm]; exact hle⟩

example : ∃ n, n < 10 ∧ prodU (constU (1 / 5)) 0 (n + 1) * expS (5 / 2) ≤ 1 :=
  ⟨1, by norm_num, by norm_num [prodU, uAt, adv, constU, expS]⟩

/-- **the tie is a genuine exception to Knuth's rule** (law of the sampler, measure zero): STEP = 1, λ = 2,
    `exp = 2^⌈x⌉`, u₁ = 1/2.  The rescaling gives `p = u₁·exp(STEP) = 1` with `lambda_left = 1 > 0`; the inner
    loop stops (`p < 1` false), the outer test `p > 1` is false, the C++ returns 0 — although
    `u₁·exp λ = 2 > 1`, so Knuth's rule (`∏u < e^{-λ}`) has not fired and would draw again. -/
theorem poisson_tie_witness :
    samplePoisson (constU (1 / 2)) expS (fun x => x) 1 2 10 0 2 = some (0, 1) ∧
    1 < prodU (constU (1 / 2)) 0 1 * expS 2 ∧ Peel expS 1 2 ∧ Ge1 expS 2 ∧
    prodU (constU (1 / 2)) 0 1 * expS 1 ^ 1 = 1 := by
  refine ⟨by norm_num [samplePoisson, poisLoop, poisRescale, expS, constU],
    by norm_num [prodU, uAt, adv, constU, expS], ?_, ?_, by norm_num [prodU, uAt, adv, constU, expS]⟩
  · intro x h1 h2; exact expS_peel x h1 (by linarith)
  · intro x h1 h2; exact expS_ge1 x h1 (by linarith)

/-- **draw count and sign, unconditionally** (every `exp`, `rnd`, mean, stream): the result is a natural
    number (`k − 1` with `k ≥ 1` the number of loop iterations) and exactly `result + 1` uniforms are consumed -/
theorem poisson_draws_exact (u01 : U01 G) (exp rnd : Rat → Rat) (step lam : Rat) (rf fuel : Nat) (g gout : G) (K : Nat)
    (h : samplePoisson u01 exp rnd step rf fuel g lam = some (K, gout)) :
    (0 : Int) ≤ (K : Int) ∧ gout = adv u01 (K + 1) g := by
  obtain ⟨_, b⟩ := poisLoop_draws u01 exp rnd step rf fuel 0 1 lam g K gout h
  exact ⟨Int.natCast_nonneg K, by simpa using b⟩

example : samplePoisson (constU (1 / 5)) expS (fun x => x) 1 3 10 0 (5 / 2) = some (1, 2) ∧ (2 : Nat) = adv (constU (1 / 5)) (1 + 1) 0 :=
  ⟨by norm_num [samplePoisson, poisLoop, poisRescale, expS, constU], by simp [adv, constU]⟩

/-- a mean `≤ 0` (the C++ does not reject it): no rescaling, result 0 after one uniform -/
theorem poisson_nonpos_mean (u01 : U01 G) (hu : Unit01 u01) (exp : Rat → Rat) (step lam : Rat) (rf fuel : Nat) (g : G)
    (hlam : lam ≤ 0) : samplePoisson u01 exp (fun x => x) step rf (fuel + 1) g lam = some (0, (u01 g).2) := by
  have hr : ∀ p, poisRescale exp (fun x => x) step rf p lam = (p, lam) := by
    intro p
    cases rf with
    | zero => rfl
    | succ f => simp only [poisRescale]; rw [if_neg (by intro hh; linarith [hh.2])]
  simp only [samplePoisson, poisLoop, hr, one_mul]
  rw [if_neg (by linarith [(hu g).2])]

example : samplePoisson (constU (1 / 5)) expS (fun x => x) 1 3 (0 + 1) 0 (-3) = some (0, 1) :=
  poisson_nonpos_mean (constU (1 / 5)) (fun g => by simp [constU]; norm_num) expS 1 (-3) 3 0 0 (by norm_num)

/-! ## Inverse transform sampling: the root accuracy follows the width of the domain, not its position -/

/-- the accuracy requested from the root finder is invariant under a translation of the domain
    (a tolerance relative to `|xMin| + |xMax|` is not: `itransTol_not_magnitude`) -/
theorem itransTol_translation (xMin xMax c : Rat) : itransTol (xMin + c) (xMax + c) = itransTol xMin xMax := by
  unfold itransTol; ring

theorem itransTol_scale (xMin xMax k : Rat) : itransTol (k * xMin) (k * xMax) = k * itransTol xMin xMax := by
  unfold itransTol; ring

/-- on `[10^9, 10^9 + 1]` the coded tolerance is `10^-10`; a tolerance `10^-10 (|xMin| + |xMax|)` would exceed the
    tenth of the width (so a root finder could stop after one step) -/
theorem itransTol_not_magnitude :
    itransTol (10 ^ 9) (10 ^ 9 + 1) = 1 / 10 ^ 10 ∧ (1 / 10 ^ 10 : Rat) * (10 ^ 9 + (10 ^ 9 + 1)) > 1 / 10 := by
  unfold itransTol; constructor <;> norm_num

/-- exactly one uniform is consumed, whatever the root finder and the CDF -/
theorem inverseTransform_draws (u01 : U01 G) (findRoot : (Rat → Rat) → Rat → Rat → Rat → Rat) (cdf : Rat → Rat) (g : G) (a b : Rat) :
    (inverseTransform u01 findRoot cdf g a b).2 = adv u01 1 g := rfl

/-- if the root finder meets its contract (returns a point within the requested accuracy of a point where the function
    vanishes) the sample is within `1e-10 (xMax - xMin)` of a point whose CDF value is the uniform drawn -/
theorem inverseTransform_accuracy (u01 : U01 G) (findRoot : (Rat → Rat) → Rat → Rat → Rat → Rat) (cdf : Rat → Rat) (g : G) (a b : Rat)
    (hroot : ∀ f x0 x1 acc, ∃ r, f r = 0 ∧ |findRoot f x0 x1 acc - r| ≤ acc) :
    ∃ r, cdf r = (sampleUniform u01 g 0 1).1 ∧ |(inverseTransform u01 findRoot cdf g a b).1 - r| ≤ itransTol a b := by
  obtain ⟨r, h0, h1⟩ := hroot (fun x => (sampleUniform u01 g 0 1).1 - cdf x) a b (itransTol a b)
  exact ⟨r, by linarith, h1⟩

/-! ## The acceptance rule at 0/0 (fifth-wave seed C18-n; C18-f in one dimension) -/

/-- `accProb` is the coded `std::min(1.0, PDF(c)/PDF(x))` with its IEEE classes, for uniforms in `[0,1)` -/
theorem accProb_is_minOneLeft (pc px u : Rat) (hu : 0 ≤ u) :
    acceptD u (minOneLeft (pdfRatio pc px)) = decide (u < accProb pc px) := by
  unfold pdfRatio accProb
  by_cases hx : px = 0
  · simp only [hx, if_true]
    by_cases h0 : pc = 0
    · simp [h0, minOneLeft, acceptD]
    · by_cases hp : pc > 0
      · simp [h0, hp, minOneLeft, acceptD, not_lt.mpr (le_of_lt hp)]
      · have hn : pc < 0 := lt_of_le_of_ne (not_lt.mp hp) h0
        simp only [h0, hp, if_false, minOneLeft, acceptD, hn, if_true]
        symm; rw [decide_eq_false_iff_not]; intro h; linarith
  · simp only [hx, if_false, minOneLeft, acceptD, rmin]

/-- a current point of density exactly 0 accepts every proposal of density 0 (0/0 = NaN, `std::min(1.0, NaN) = 1.0`)
    and of positive density: the chain random-walks across an exact-zero plateau to the support -/
theorem zero_density_accepts (pc u : Rat) (hpc : 0 ≤ pc) (hu1 : u < 1) :
    acceptD u (minOneLeft (pdfRatio pc 0)) = true := by
  unfold pdfRatio
  by_cases h0 : pc = 0
  · simp [h0, minOneLeft, acceptD, hu1]
  · have hp : pc > 0 := lt_of_le_of_ne hpc (Ne.symm h0)
    simp [h0, hp, minOneLeft, acceptD, hu1]

/-- with the arguments of `std::min` swapped the NaN survives and `u < NaN` is false: the chain is frozen on the plateau -/
theorem swapped_min_freezes (u : Rat) : acceptD u (minOneRight (pdfRatio 0 0)) = false := by
  simp [pdfRatio, minOneRight, acceptD]

/-- the two argument orders agree on every ratio that is not NaN -/
theorem minOne_orders_agree (r : Ratio) (u : Rat) (h : r ≠ .nan) : acceptD u (minOneLeft r) = acceptD u (minOneRight r) := by
  cases r with
  | nan => exact absurd rfl h
  | posInf => rfl
  | negInf => rfl
  | fin q =>
    simp only [minOneLeft, minOneRight, acceptD]
    by_cases h1 : q < 1
    · rw [if_pos h1, if_neg (not_lt.mpr (le_of_lt h1))]
    · rw [if_neg h1]
      by_cases h2 : 1 < q
      · rw [if_pos h2]
      · have : q = 1 := le_antisymm (not_lt.mp h2) (not_lt.mp h1)
        rw [if_neg h2, this]

/-- the step of the model: from a point of density 0 every in-domain proposal of non-negative density is taken -/
theorem metroStep1_zero_plateau (u01 : U01 G) (hu : Unit01 u01) (cand : G → Rat → Rat × G) (pdf : Rat → Rat)
    (lo hi x : Rat) (g : G) (hx : pdf x = 0) (hc : 0 ≤ pdf (cand g x).1) (hin : lo ≤ (cand g x).1 ∧ (cand g x).1 ≤ hi) :
    (metroStep1 u01 cand pdf (some (lo, hi)) x g).1 = (cand g x).1 := by
  simp only [metroStep1]
  have hnot : ¬ ((cand g x).1 < lo ∨ (cand g x).1 > hi) := by
    rintro (h | h)
    · exact absurd hin.1 (not_le.mpr h)
    · exact absurd hin.2 (not_le.mpr h)
  have hu1 : (sampleUniform u01 (cand g x).2 0 1).1 < 1 := by
    have := (hu (cand g x).2).2
    simp only [sampleUniform]; linarith
  simp only [if_neg hnot, accProb, hx, if_true, if_neg (not_lt.mpr hc), if_pos hu1]

/-! ## An acceptance probability of 0 never accepts - for every uniform deviate including exactly 0 (seed C18-p) -/

/-- `u < 0` is false for every deviate of `[0,1)`, in particular for `u = 0`: the test must be the strict `u < a`
    (`a ≥ u` would accept at `a = u = 0`) -/
theorem zero_probability_never_accepts (u : Rat) (hu : 0 ≤ u) : acceptD u (.fin 0) = false ∧ ¬ (u < 0) := by
  constructor
  · simp [acceptD, not_lt.mpr hu]
  · exact not_lt.mpr hu

/-- the step of the model leaves the chain where it is when the proposal is outside the bounded domain, for EVERY uniform
    source with values in `[0,1)` - also one that returns exactly 0 at the accept/reject draw -/
theorem metroStep1_outside_rejects (u01 : U01 G) (hu : Unit01 u01) (cand : G → Rat → Rat × G) (pdf : Rat → Rat)
    (lo hi x : Rat) (g : G) (hout : (cand g x).1 < lo ∨ (cand g x).1 > hi) :
    (metroStep1 u01 cand pdf (some (lo, hi)) x g).1 = x := by
  simp only [metroStep1]
  have hu0 : 0 ≤ (sampleUniform u01 (cand g x).2 0 1).1 := (sampleUniform_inside u01 hu _ 0 1 (by norm_num)).1
  simp only [if_pos hout, if_neg (not_lt.mpr hu0)]

/-- the source that always returns exactly 0 is admissible (`0 ∈ [0,1)`), and the non-strict test would accept there -/
example : Unit01 (G := Nat) (fun n => (0, n + 1)) ∧ ((0 : Rat) ≥ 0) := ⟨fun _ => ⟨le_refl _, by norm_num⟩, le_refl _⟩

theorem metroStep2_outside_rejects (u01 : U01 G) (hu : Unit01 u01) (cand : G → Rat × Rat → (Rat × Rat) × G) (pdf : Rat → Rat → Rat)
    (d : Dom2) (x : Rat × Rat) (g : G)
    (hout : (cand g x).1.1 < d.x0 ∨ (cand g x).1.1 > d.x1 ∨ (cand g x).1.2 < d.y0 ∨ (cand g x).1.2 > d.y1) :
    (metroStep2 u01 cand pdf (some d) x g).1 = x := by
  simp only [metroStep2]
  have hu0 : 0 ≤ (sampleUniform u01 (cand g x).2 0 1).1 := (sampleUniform_inside u01 hu _ 0 1 (by norm_num)).1
  simp only [if_pos hout, if_neg (not_lt.mpr hu0)]

/-! ## Parameter guards (fix d65f15f): which requests stop with a diagnostic, and that nothing else changed -/

theorem sampleUniformG_error_iff (u01 : U01 G) (g : G) (a b : Rat) :
    (∃ e, sampleUniformG u01 g a b = .error e) ↔ b < a := by
  unfold sampleUniformG; split_ifs with h <;> simp [h]

theorem sampleUniformG_ok (u01 : U01 G) (g : G) (a b : Rat) (h : a ≤ b) :
    sampleUniformG u01 g a b = .ok (sampleUniform u01 g a b) := by
  unfold sampleUniformG; rw [if_neg (not_lt.mpr h)]

theorem sampleGaussG_error_iff (u01 : U01 G) (gq : Rat → Rat → Rat → Rat) (g : G) (mu sigma : Rat) :
    (∃ e, sampleGaussG u01 gq g mu sigma = .error e) ↔ sigma < 0 := by
  unfold sampleGaussG; split_ifs with h <;> simp [h]

theorem sampleGaussG_ok (u01 : U01 G) (gq : Rat → Rat → Rat → Rat) (g : G) (mu sigma : Rat) (h : 0 ≤ sigma) :
    sampleGaussG u01 gq g mu sigma = .ok (sampleGauss u01 gq g mu sigma) := by
  unfold sampleGaussG; rw [if_neg (not_lt.mpr h)]

theorem samplePoissonG_error_iff (u01 : U01 G) (exp rnd : Rat → Rat) (step : Rat) (rf fuel : Nat) (g : G) (lam : Rat) :
    (∃ e, samplePoissonG u01 exp rnd step rf fuel g lam = .error e) ↔ lam < 0 := by
  unfold samplePoissonG; split_ifs with h <;> simp [h]

theorem samplePoissonG_ok (u01 : U01 G) (exp rnd : Rat → Rat) (step : Rat) (rf fuel : Nat) (g : G) (lam : Rat) (h : 0 ≤ lam) :
    samplePoissonG u01 exp rnd step rf fuel g lam = .ok (samplePoisson u01 exp rnd step rf fuel g lam) := by
  unfold samplePoissonG; rw [if_neg (not_lt.mpr h)]

/-- the boundary cases are meaningful exactly as coded: a one-point domain, zero width, zero mean -/
theorem guards_boundary_meaningful (u01 : U01 G) (gq : Rat → Rat → Rat → Rat) (exp rnd : Rat → Rat) (step : Rat) (rf fuel : Nat) (g : G) (a mu : Rat) :
    sampleUniformG u01 g a a = .ok (sampleUniform u01 g a a) ∧ (sampleUniform u01 g a a).1 = a ∧
    sampleGaussG u01 gq g mu 0 = .ok (sampleGauss u01 gq g mu 0) ∧
    samplePoissonG u01 exp rnd step rf fuel g 0 = .ok (samplePoisson u01 exp rnd step rf fuel g 0) := by
  refine ⟨sampleUniformG_ok u01 g a a (le_refl _), ?_, sampleGaussG_ok u01 gq g mu 0 (le_refl _), samplePoissonG_ok u01 exp rnd step rf fuel g 0 (le_refl _)⟩
  simp [sampleUniform]

/-- a guarded Metropolis call that passes its guards IS the unguarded one: sample count, draws and containment carry over -/
theorem metropolis1G_ok (u01 : U01 G) (gq : Rat → Rat → Rat → Rat) (pdf : Rat → Rat) (sigma : Rat) (sample thin burn : Nat)
    (dom : Option (Rat × Rat)) (g : G) (r : List Rat × G) (h : metropolis1G u01 gq pdf sigma sample thin burn dom g = .ok r) :
    r = metropolis1 u01 gq pdf sigma sample thin burn dom g := by
  unfold metropolis1G at h
  cases dom with
  | none => simp only at h; split_ifs at h; exact (Except.ok.inj h).symm
  | some d => obtain ⟨lo, hi⟩ := d; simp only at h; split_ifs at h; exact (Except.ok.inj h).symm

theorem metropolis1G_error_iff (u01 : U01 G) (gq : Rat → Rat → Rat → Rat) (pdf : Rat → Rat) (sigma : Rat) (sample thin burn : Nat) (g : G) (lo hi : Rat) :
    (∃ e, metropolis1G u01 gq pdf sigma sample thin burn (some (lo, hi)) g = .error e) ↔ (hi < lo ∨ (sigma < 0 ∧ 0 < burn + thin * sample)) := by
  unfold metropolis1G; simp only
  by_cases h1 : hi < lo
  · rw [if_pos h1]; exact ⟨fun _ => Or.inl h1, fun _ => ⟨_, rfl⟩⟩
  · rw [if_neg h1]
    by_cases h2 : sigma < 0 ∧ 0 < burn + thin * sample
    · rw [if_pos h2]; exact ⟨fun _ => Or.inr h2, fun _ => ⟨_, rfl⟩⟩
    · rw [if_neg h2]
      constructor
      · rintro ⟨e, he⟩; exact absurd he (by simp)
      · rintro (h | h)
        · exact absurd h h1
        · exact absurd h h2

theorem metropolis1G_count (u01 : U01 G) (gq : Rat → Rat → Rat → Rat) (pdf : Rat → Rat) (sigma : Rat) (sample thin burn : Nat)
    (dom : Option (Rat × Rat)) (g : G) (r : List Rat × G) (ht : 1 ≤ thin)
    (h : metropolis1G u01 gq pdf sigma sample thin burn dom g = .ok r) : r.1.length = sample := by
  rw [metropolis1G_ok u01 gq pdf sigma sample thin burn dom g r h]
  exact metropolis_count_1d u01 gq pdf sigma sample thin burn dom g ht

theorem metropolis2G_ok (u01 : U01 G) (gq : Rat → Rat → Rat → Rat) (pdf : Rat → Rat → Rat) (s1 s2 : Rat) (sample thin burn : Nat)
    (dom : Option Dom2) (g : G) (r : List (Rat × Rat) × G) (h : metropolis2G u01 gq pdf s1 s2 sample thin burn dom g = .ok r) :
    r = metropolis2 u01 gq pdf s1 s2 sample thin burn dom g := by
  unfold metropolis2G at h
  cases dom with
  | none => simp only at h; split_ifs at h; exact (Except.ok.inj h).symm
  | some d => simp only at h; split_ifs at h; exact (Except.ok.inj h).symm

theorem rejectionG_error_iff (u01 : U01 G) (pdf : Rat → Rat) (xMin xMax yMax : Rat) (g : G) :
    (∃ e, rejectionG u01 pdf xMin xMax yMax g = .error e) ↔ (xMax < xMin ∨ yMax < 0) := by
  unfold rejectionG; split_ifs with h <;> simp [h]

/-- every sampler is a function `G → Out × G` of the passed generator: equal states give equal
    outputs and equal states afterwards (true by construction of the model; that the C++ has this
    shape is the class-D correspondence check) -/
theorem sampler_state_monad {Out : Type} (sampler : G → Out × G) (g₁ g₂ : G) (h : g₁ = g₂) :
    (sampler g₁).1 = (sampler g₂).1 ∧ (sampler g₁).2 = (sampler g₂).2 := by
  subst h; exact ⟨rfl, rfl⟩

end Lp.C18
