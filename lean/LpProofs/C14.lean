/-
  C14 — Monte-Carlo integrators: property theorems (DESIGN.md §6, C14) about the executable model
  `LpModel/C14.lean`, for every generator type `G` and uniform source `u01 : G → Rat × G`.
  "Within six standard errors", Vegas on constants and the Vegas iterations are
  correspondence/oracle-only (props/c14.py).
-/
import LpModel.C14
import LpProofs.C14.Inside
import LpProofs.C14.Miser
import LpProofs.C14.Rebin
import LpProofs.C14.VegasInit
import LpProofs.C14.Cells
namespace Lp.C14

variable {G : Type}

/-! ## Random_Point stays inside: `coord_inside`, `randomPointAux_inside`, `randomPoint_inside`
    (with the definitions `Unit01`, `Inside`, `WellFormed`) are in `LpProofs/C14/Inside.lean` -/

example : WellFormed [0, -1, 2, 3] := by
  intro i hi
  have : i = 0 ∨ i = 1 := by simp at hi; omega
  rcases this with h | h <;> subst h <;> simp [at_] <;> norm_num

/-! ## brute force -/

theorem bruteLoop_inside (u01 : U01 G) (hu : Unit01 u01) (f : List Rat → Rat) (region : List Rat) (hw : WellFormed region) (vol : Rat) :
    ∀ n g, ∀ p ∈ (bruteLoop u01 f region vol n g).2.1, Inside region p := by
  intro n
  induction n with
  | zero => intro g p hp; simp [bruteLoop] at hp
  | succ n ih =>
    intro g p hp
    simp only [bruteLoop] at hp
    rcases List.mem_cons.mp hp with h | h
    · rw [h]; exact randomPoint_inside u01 hu region hw g
    · exact ih _ p h

/-- every point at which brute force calls the integrand lies in the region -/
theorem brute_only_inside (u01 : U01 G) (hu : Unit01 u01) (f : List Rat → Rat) (region : List Rat) (hw : WellFormed region)
    (ncall : Nat) (g : G) : ∀ p ∈ (bruteForce u01 f region ncall g).2, Inside region p := by
  unfold bruteForce
  exact bruteLoop_inside u01 hu f region hw _ ncall g

theorem bruteLoop_const (u01 : U01 G) (c : Rat) (region : List Rat) (vol : Rat) :
    ∀ n g, (bruteLoop u01 (fun _ => c) region vol n g).1 = (n : Rat) * (vol * c) := by
  intro n
  induction n with
  | zero => intro g; simp [bruteLoop]
  | succ n ih =>
    intro g
    simp only [bruteLoop]
    rw [ih]; push_cast; ring

/-- constants are integrated exactly: `volume · c` for every region, budget ≥ 1 and generator -/
theorem brute_constant_exact (u01 : U01 G) (c : Rat) (region : List Rat) (ncall : Nat) (hn : 1 ≤ ncall) (g : G) :
    (bruteForce u01 (fun _ => c) region ncall g).1 = mcVolume region * c := by
  unfold bruteForce
  simp only [bruteLoop_const]
  have : (ncall : Rat) ≠ 0 := by
    have : (0 : Rat) < ncall := by exact_mod_cast hn
    exact ne_of_gt this
  field_simp

/-! ## Miser -/

/-- accounting as coded: the three budgets of a node add up to its budget -/
theorem miser_accounting (npts npre nptl : Int) : npre + nptl + (npts - npre - nptl) = npts := by ring

/-- consequence for the whole recursion: the integrand is called exactly `npts` times -/
theorem miser_calls (u01 : U01 G) (f : List Rat → Rat) (pw23 : Rat → Rat) :
    ∀ fuel region npts iran g o, miser u01 f pw23 fuel region npts iran g = some o → o.calls = npts := by
  intro fuel
  induction fuel with
  | zero => intro region npts iran g o h; simp [miser] at h
  | succ fuel ih =>
    intro region npts iran g o h
    simp only [miser] at h
    split_ifs at h with h1 h2
    · simp only [Option.some.injEq] at h; rw [← h]
    · split at h
      · exact absurd h (by simp)
      · rename_i l hl
        split at h
        · exact absurd h (by simp)
        · rename_i r hr
          simp only [Option.some.injEq] at h
          rw [← h]
          have e1 := ih _ _ _ _ l hl
          have e2 := ih _ _ _ _ r hr
          simp only [e1, e2]
          ring

/-- the repaired `Integrate_MC_Miser` forgets the static: its result does not depend on the
    value `iran` had when the call started -/
theorem miser_history (u01 : U01 G) (f : List Rat → Rat) (pw23 : Rat → Rat) (region : List Rat) (ncall : Int)
    (iran₁ iran₂ : Nat) (g : G) :
    miserTop u01 f pw23 region ncall iran₁ g = miserTop u01 f pw23 region ncall iran₂ g := rfl

/-- witness for the unrepaired code: the fallback bisection axis `jb = (ndim·iran)/175000` of a
    two-dimensional call depends on the incoming static (0 after a fresh start vs 100000 left
    behind by an earlier integration) -/
theorem miser_history_counterexample :
    (2 * lcgN 2 0) / 175000 ≠ (2 * lcgN 2 100000) / 175000 := by decide

/-- the reset happens at ENTRY: whatever the static holds when the call starts — left by an earlier run, or in the middle
    of an enclosing Miser integration whose integrand makes this call — the result is that of a run started from 0 -/
theorem miser_entry_reset (u01 : U01 G) (f : List Rat → Rat) (pw23 : Rat → Rat) (region : List Rat) (ncall : Int) (s : Nat) (g : G) :
    (miserTopS u01 f pw23 region ncall s g).1 = miserTop u01 f pw23 region ncall 0 g := by
  unfold miserTopS miserTop miserTopCore
  split_ifs
  · rfl
  · cases miser u01 f pw23 ncall.toNat.succ region ncall 0 g <;> rfl

theorem miser_nested_independent (u01 : U01 G) (f : List Rat → Rat) (pw23 : Rat → Rat) (region : List Rat) (ncall : Int) (s₁ s₂ : Nat) (g : G) :
    (miserTopS u01 f pw23 region ncall s₁ g).1 = (miserTopS u01 f pw23 region ncall s₂ g).1 := by
  rw [miser_entry_reset, miser_entry_reset]

/-- a reset on EXIT instead is indistinguishable for sequences of completed (or abandoned) top-level calls: it leaves 0,
    and started from 0 it is the coded call … -/
theorem miser_exit_reset_sequential (u01 : U01 G) (f f' : List Rat → Rat) (pw23 : Rat → Rat) (region region' : List Rat) (ncall ncall' : Int)
    (s : Nat) (g g' : G) :
    (miserTopExitReset u01 f pw23 region ncall (miserTopExitReset u01 f' pw23 region' ncall' s g').2 g).1
      = miserTopCore u01 f pw23 region ncall s g := rfl

/-- … but a call nested in a running Miser integration starts from the enclosing run's current static: it is the
    unrepaired behaviour (`miserTopNoReset`), whose fallback axis depends on that value (`miser_history_counterexample`) -/
theorem miser_exit_reset_nested (u01 : U01 G) (f : List Rat → Rat) (pw23 : Rat → Rat) (region : List Rat) (ncall : Int) (s : Nat) (g : G) :
    (miserTopExitReset u01 f pw23 region ncall s g).1 = miserTopNoReset u01 f pw23 region ncall s g := rfl

/-- fix 9d8dcaf: a region of zero volume gives exactly 0, evaluates the integrand nowhere and consumes no randomness,
    for every integrand, budget, generator and static -/
theorem miserTop_zero_volume (u01 : U01 G) (f : List Rat → Rat) (pw23 : Rat → Rat) (region : List Rat) (ncall : Int) (s : Nat) (g : G)
    (h : mcVolume region = 0) : miserTop u01 f pw23 region ncall s g = some (0, [], false) := by
  unfold miserTop; rw [if_pos h]

/-- a zero-width axis makes the volume zero (example: `[0,1] × [2,2]`) -/
example : mcVolume [0, 2, 1, 2] = 0 := by decide +kernel

/-- the guard is value-neutral for constants wherever the old code returned: `0 = volume · c` -/
theorem miserTop_zero_volume_neutral (u01 : U01 G) (c : Rat) (pw23 : Rat → Rat) (region : List Rat) (ncall : Int) (s : Nat) (g : G)
    (h : mcVolume region = 0) : ∃ pts kn, miserTop u01 (fun _ => c) pw23 region ncall s g = some (mcVolume region * c, pts, kn) :=
  ⟨[], false, by rw [miserTop_zero_volume u01 _ pw23 region ncall s g h, h, zero_mul]⟩

/-- with `dith = 0` the bisection point is the midpoint, hence inside the parent interval -/
theorem miser_rmid_inside (region : List Rat) (dim j : Nat) (h : at_ region j ≤ at_ region (dim + j)) :
    at_ region j ≤ rmid region dim j ∧ rmid region dim j ≤ at_ region (dim + j) := by
  unfold rmid; constructor <;> linarith

/-- `miser_subregions_FULL`: every point at which any (sub-)call of the recursion evaluates the
    integrand has `dim` coordinates and lies inside the region that call was given.  Induction over
    the recursion: a leaf and the pre-sampling use `Random_Point` (inside by `randomPoint_inside`);
    the two sub-regions are cut at `rmid[jb]`, which lies in `[region[jb], region[ndim+jb]]`
    (`miser_rmid_inside`), for an existing axis `jb < ndim` (`chooseSplit_good`), so they are
    well-formed and inside their parent (`subRegion_inside`). -/
theorem miser_subregions (u01 : U01 G) (hu : Unit01 u01) (f : List Rat → Rat) (pw23 : Rat → Rat) :
    ∀ fuel region npts iran g o, WellFormed region → miser u01 f pw23 fuel region npts iran g = some o →
      ∀ p ∈ o.pts, p.length = region.length / 2 ∧ Inside region p := by
  intro fuel
  induction fuel with
  | zero => intro region npts iran g o _ h; simp [miser] at h
  | succ fuel ih =>
    intro region npts iran g o hw h p hp
    by_cases h0 : npts ≤ 0
    · simp only [miser] at h; rw [if_pos h0] at h; exact absurd h (by simp)
    by_cases h60 : npts < K.mnbs
    · rw [miser_leaf u01 f pw23 region npts iran g fuel (by omega) h60] at h
      simp only [Option.some.injEq] at h
      rw [← h] at hp
      exact sampleN_inside u01 hu f region hw _ g p hp
    · obtain ⟨l, r, hl, hr, _, hpts⟩ := miser_node_some u01 f pw23 region npts iran g fuel (by omega) o h
      rw [hpts] at hp
      have hcut : ∀ left, WellFormed (subRegion region (region.length / 2) (mJb u01 f pw23 region npts iran g) (mMid u01 f pw23 region npts iran g) left) ∧
          ∀ p, p.length = (subRegion region (region.length / 2) (mJb u01 f pw23 region npts iran g) (mMid u01 f pw23 region npts iran g) left).length / 2 ∧
            Inside (subRegion region (region.length / 2) (mJb u01 f pw23 region npts iran g) (mMid u01 f pw23 region npts iran g) left) p →
            p.length = region.length / 2 ∧ Inside region p := by
        intro left
        apply subRegion_inside region hw
        rcases Nat.eq_zero_or_pos (region.length / 2) with hd | hd
        · exact Or.inr hd
        · exact Or.inl ⟨node_jb u01 f pw23 region npts iran g hd, node_mid_inside u01 f pw23 region npts iran g hw hd⟩
      rcases List.mem_append.mp hp with hp | hp
      · rcases List.mem_append.mp hp with hp | hp
        · exact sampleN_inside u01 hu f region hw _ g p hp
        · exact (hcut true).2 p (ih _ _ _ _ l (hcut true).1 hl p hp)
      · exact (hcut false).2 p (ih _ _ _ _ r (hcut false).1 hr p hp)

/-- the analogue of `brute_only_inside`: every point at which `Integrate_MC_Miser` calls the
    integrand lies inside the ORIGINAL region — for every uniform source with `0 ≤ u < 1`, every
    budget, every dimension, every `pw23`, every incoming static -/
theorem miser_only_inside (u01 : U01 G) (hu : Unit01 u01) (f : List Rat → Rat) (pw23 : Rat → Rat) (region : List Rat)
    (hw : WellFormed region) (ncall : Int) (iranStatic : Nat) (g : G) (v : Rat) (pts : List (List Rat)) (kn : Bool)
    (h : miserTop u01 f pw23 region ncall iranStatic g = some (v, pts, kn)) : ∀ p ∈ pts, Inside region p := by
  unfold miserTop at h
  split_ifs at h with hv0
  · simp only [Option.some.injEq, Prod.mk.injEq] at h
    intro p hp; rw [← h.2.1] at hp; simp at hp
  unfold miserTopCore at h
  split at h
  · rename_i o ho
    simp only [Option.some.injEq, Prod.mk.injEq] at h
    intro p hp
    rw [← h.2.1] at hp
    exact (miser_subregions u01 hu f pw23 _ region ncall 0 g o hw ho p hp).2
  · exact absurd h (by simp)

/-- the statement announced as `miser_subregions_FULL` in the first version of this file -/
def miser_subregions_FULL : Prop :=
  ∀ (G : Type) (u01 : U01 G) (f : List Rat → Rat) (pw23 : Rat → Rat) fuel region npts iran g o,
    Unit01 u01 → WellFormed region → miser u01 f pw23 fuel region npts iran g = some o → ∀ p ∈ o.pts, Inside region p

theorem miser_subregions_full : miser_subregions_FULL :=
  fun _ u01 f pw23 fuel region npts iran g o hu hw h p hp => (miser_subregions u01 hu f pw23 fuel region npts iran g o hw h p hp).2

/-- `miser_constant_exact_FULL`: for a constant integrand the `ave` of every (sub-)call that returns
    is exactly `c` (leaf: `summ/npts = npts·c/npts`; bisecting node: `fracl·c + (1−fracl)·c`) -/
theorem miser_constant_exact (u01 : U01 G) (c : Rat) (pw23 : Rat → Rat) :
    ∀ fuel region npts iran g o, miser u01 (fun _ => c) pw23 fuel region npts iran g = some o → o.ave = c := by
  intro fuel
  induction fuel with
  | zero => intro region npts iran g o h; simp [miser] at h
  | succ fuel ih =>
    intro region npts iran g o h
    by_cases h0 : npts ≤ 0
    · simp only [miser] at h; rw [if_pos h0] at h; exact absurd h (by simp)
    by_cases h60 : npts < K.mnbs
    · rw [miser_leaf u01 _ pw23 region npts iran g fuel (by omega) h60] at h
      simp only [Option.some.injEq] at h
      rw [← h]
      show sumVals (sampleN u01 (fun _ => c) region npts.toNat g).1 / npts = c
      rw [sumVals_const]
      have e : ((npts.toNat : Nat) : Rat) = (npts : Rat) := by
        have : ((npts.toNat : Nat) : Int) = npts := Int.toNat_of_nonneg (by omega)
        exact_mod_cast this
      have hn : (npts : Rat) ≠ 0 := by
        have : (0 : Rat) < npts := by exact_mod_cast (by omega : (0 : Int) < npts)
        exact ne_of_gt this
      rw [e]; field_simp
    · obtain ⟨l, r, hl, hr, hav, _⟩ := miser_node_some u01 _ pw23 region npts iran g fuel (by omega) o h
      rw [hav, ih _ _ _ _ l hl, ih _ _ _ _ r hr]; ring

def miser_constant_exact_FULL : Prop :=
  ∀ (G : Type) (u01 : U01 G) (c : Rat) (pw23 : Rat → Rat) fuel region npts iran g o,
    miser u01 (fun _ => c) pw23 fuel region npts iran g = some o → o.ave = c

theorem miser_constant_exact_full : miser_constant_exact_FULL :=
  fun _ u01 c pw23 fuel region npts iran g o h => miser_constant_exact u01 c pw23 fuel region npts iran g o h

/-- side condition of `miser_constant_exact`, made precise: in exact arithmetic NO (sub-)call gets
    `npts ≤ 0` (the C++ would divide by zero at such a leaf).  For a region with at least one axis and
    strictly positive widths (`fracl = 1/2`), spreads `σl, σr > 0` (what `max(TINY, pow(·, 2/3))`
    guarantees; here: `pw23` positive on positive arguments), every budget `npts ≥ 1` and enough fuel,
    the recursion returns: the allocation gives both halves `nptl, nptr ≥ MNPT ≥ 1` (`node_alloc`, `mnpt_pos` on the regenerated `K.mnpt`;
    from `miser_accounting` and `0 ≤ t ≤ 1`) and strictly fewer points than the node. -/
theorem miser_total (u01 : U01 G) (f : List Rat → Rat) (pw23 : Rat → Rat) (hp : ∀ x, 0 < x → 0 < pw23 x) :
    ∀ (fuel : Nat) region npts iran g, 0 < region.length / 2 → StrictWF region → 1 ≤ npts → npts < (fuel : Int) →
      miser u01 f pw23 fuel region npts iran g ≠ none := by
  intro fuel
  induction fuel with
  | zero => intro region npts iran g _ _ h1 h2; simp at h2; omega
  | succ fuel ih =>
    intro region npts iran g hd hs h1 h2 hnone
    have hK := mnpt_pos
    by_cases h60 : npts < K.mnbs
    · rw [miser_leaf u01 f pw23 region npts iran g fuel (by omega) h60] at hnone
      exact absurd hnone (by simp)
    · have ha := node_alloc u01 f pw23 region npts iran g hs hd (by omega) (node_sig_pos u01 f pw23 region npts iran g hp hd)
      have hjb := node_jb u01 f pw23 region npts iran g hd
      have hmid := node_mid_strict u01 f pw23 region npts iran g hs hd
      push_cast at h2
      rcases miser_node_none u01 f pw23 region npts iran g fuel (by omega) hnone with hl | ⟨l, _, hr⟩
      · exact ih _ _ _ _ (by rw [subRegion_length]; exact hd) (subRegion_strict region hs _ _ true hjb hmid)
          (by omega) (by omega) hl
      · exact ih _ _ _ _ (by rw [subRegion_length]; exact hd) (subRegion_strict region hs _ _ false hjb hmid)
          (by omega) (by omega) hr

/-- the same for a constant integrand without any assumption on `pw23` (it is never called: no axis
    shows a variation, the spreads stay `1, 1`) -/
theorem miser_total_const (u01 : U01 G) (c : Rat) (pw23 : Rat → Rat) :
    ∀ (fuel : Nat) region npts iran g, 0 < region.length / 2 → StrictWF region → 1 ≤ npts → npts < (fuel : Int) →
      miser u01 (fun _ => c) pw23 fuel region npts iran g ≠ none := by
  intro fuel
  induction fuel with
  | zero => intro region npts iran g _ _ h1 h2; simp at h2; omega
  | succ fuel ih =>
    intro region npts iran g hd hs h1 h2 hnone
    have hK := mnpt_pos
    by_cases h60 : npts < K.mnbs
    · rw [miser_leaf u01 _ pw23 region npts iran g fuel (by omega) h60] at hnone
      exact absurd hnone (by simp)
    · have hsig := node_sig_const u01 pw23 region npts iran g c
      have ha := node_alloc u01 (fun _ => c) pw23 region npts iran g hs hd (by omega) (by rw [hsig.1, hsig.2]; exact ⟨one_pos, one_pos⟩)
      have hjb := node_jb u01 (fun _ => c) pw23 region npts iran g hd
      have hmid := node_mid_strict u01 (fun _ => c) pw23 region npts iran g hs hd
      push_cast at h2
      rcases miser_node_none u01 _ pw23 region npts iran g fuel (by omega) hnone with hl | ⟨l, _, hr⟩
      · exact ih _ _ _ _ (by rw [subRegion_length]; exact hd) (subRegion_strict region hs _ _ true hjb hmid)
          (by omega) (by omega) hl
      · exact ih _ _ _ _ (by rw [subRegion_length]; exact hd) (subRegion_strict region hs _ _ false hjb hmid)
          (by omega) (by omega) hr

/-- `Integrate_MC_Miser` integrates constants exactly: for every region with at least one axis and
    positive widths, every budget `ncall ≥ 1`, every generator, every `pw23` and every incoming
    static the call returns, and its value is `volume · c` -/
theorem miserTop_constant_exact (u01 : U01 G) (c : Rat) (pw23 : Rat → Rat) (region : List Rat) (hd : 0 < region.length / 2)
    (hs : StrictWF region) (ncall : Int) (hn : 1 ≤ ncall) (iranStatic : Nat) (g : G) :
    ∃ pts kn, miserTop u01 (fun _ => c) pw23 region ncall iranStatic g = some (mcVolume region * c, pts, kn) := by
  unfold miserTop
  split_ifs with hv0
  · exact ⟨[], false, by rw [hv0, zero_mul]⟩
  unfold miserTopCore
  have ht := miser_total_const u01 c pw23 ncall.toNat.succ region ncall 0 g hd hs hn (by push_cast; omega)
  split
  · rename_i o ho
    rw [miser_constant_exact u01 c pw23 _ _ _ _ _ o ho]
    exact ⟨_, _, rfl⟩
  · rename_i hnone; exact absurd hnone ht

/-- precisely when a leaf can get 0 points: only through the allocation ratio leaving `[0,1]`.  With a
    negative "spread" (impossible for `max(TINY, pow(·))`, possible for an arbitrary `pw23`) the
    formula as coded hands out `nptl < MNPT`: here `int(15 + 30·(−1/2)) = 0` -/
example : truncInt (15 + ((60 - 15 - 30 + 15 : Int) : Rat) * (1 / 2) * (-1) / ((1 / 2) * (-1) + (1 - 1 / 2) * 3)) = 0 := by
  decide +kernel

example : StrictWF [0, -1, 2, 3] ∧ 0 < [(0 : Rat), -1, 2, 3].length / 2 := by
  refine ⟨?_, by decide⟩
  intro i hi
  have : i = 0 ∨ i = 1 := by simp at hi; omega
  rcases this with h | h <;> subst h <;> simp [at_] <;> norm_num

example : ∀ x : Rat, 0 < x → 0 < (fun y => y * y) x := fun x hx => mul_pos hx hx

/-- a uniform source meeting `Unit01` (hypothesis of `miser_subregions`, `miser_only_inside`, `brute_only_inside`) -/
example : Unit01 (fun (g : Nat) => ((1 / 2 : Rat), g + 1)) := fun _ => ⟨by norm_num, by norm_num⟩

/-! ## Vegas -/

/-- the per-axis sample: if the grid row is increasing inside `[0,1]` around bin `ia` and
    `0 ≤ xn − ia ≤ 1`, then `0 ≤ rc ≤ 1` and the abscissa lies in `[lo, lo + dx]` -/
theorem vegas_point_inside (xi : Nat → Rat) (ia : Nat) (xn lo dx : Rat) (hia : 1 ≤ ia)
    (ht0 : 0 ≤ xn - ia) (ht1 : xn - ia ≤ 1) (hdx : 0 ≤ dx)
    (hgrid0 : ia > 1 → 0 ≤ xi (ia - 2) ∧ xi (ia - 2) ≤ xi (ia - 1)) (hgrid1 : 0 ≤ xi (ia - 1) ∧ xi (ia - 1) ≤ 1) :
    0 ≤ vegasRc xi ia xn ∧ vegasRc xi ia xn ≤ 1 ∧ lo ≤ vegasX lo dx (vegasRc xi ia xn) ∧ vegasX lo dx (vegasRc xi ia xn) ≤ lo + dx := by
  have key : 0 ≤ vegasRc xi ia xn ∧ vegasRc xi ia xn ≤ 1 := by
    unfold vegasRc
    split_ifs with h
    · obtain ⟨a0, a1⟩ := hgrid0 h
      have hd : 0 ≤ xi (ia - 1) - xi (ia - 2) := by linarith
      constructor
      · nlinarith [mul_nonneg ht0 hd]
      · nlinarith [mul_nonneg (by linarith : (0 : Rat) ≤ 1 - (xn - ia)) hd, hgrid1.2]
    · constructor
      · exact mul_nonneg ht0 hgrid1.1
      · nlinarith [mul_nonneg (by linarith : (0 : Rat) ≤ 1 - (xn - ia)) hgrid1.1, hgrid1.2]
  refine ⟨key.1, key.2, ?_, ?_⟩
  · unfold vegasX; nlinarith [mul_nonneg key.1 hdx]
  · unfold vegasX; nlinarith [mul_nonneg (by linarith [key.2] : (0 : Rat) ≤ 1 - vegasRc xi ia xn) hdx]

/-- `rebin_preserves_grid` (the `_FULL` statement, proved): `Rebin` as coded maps a grid row of `no` old
    bins — right edges `0 < xi 0 < … < xi (no-1) = 1` — and strictly positive weights `r[0..no-1]` with
    `rc = (r[0]+…+r[no-1]) / nd` (what both call sites pass: `ndo/xnd` with `r ≡ 1`, and `rc/xnd` with
    `rc = Σ r[i]`, `no = nd`) to a row of `nd` new bins that is again strictly increasing, starts above
    0 and ends at exactly 1; it never leaves the arrays (`no, nd ≤ len`), never reads `xi[j][-1]`, and
    leaves the cells `≥ nd` alone.  For every `nd ≥ 1`, `no ≥ 1`, every such grid and weights. -/
theorem rebin_preserves_grid (rc : Rat) (nd no len : Nat) (r xi : Nat → Rat) (hno : no ≤ len) (hnd1 : 1 ≤ nd) (hnd : nd ≤ len)
    (hg : GridOK no xi) (hr : ∀ i, i < no → 0 < r i) (hrc : (nd : Rat) * rc = psum r no) :
    ∃ xi', rebin rc nd r xi len = some xi' ∧ GridOK nd xi' ∧ ∀ i, nd ≤ i → xi' i = xi i := by
  obtain ⟨l, e, hl, hc⟩ := rebin_loop_top rc nd no len r xi hno hnd1 hg hr hrc
  refine ⟨rebinRow nd l xi, ?_, rebinRow_grid nd l xi hnd1 hl hc, ?_⟩
  · unfold rebin
    rw [if_neg (by omega), e r xi (fun _ _ => rfl) (fun _ _ => rfl)]
  · intro i hi
    unfold rebinRow
    rw [if_neg (by omega), if_neg (by omega)]

/-- read-set of `Rebin`: the new bins `0 … nd-1` depend only on the cells `< no` of the old row and
    of the weights (two states that agree there get the same new bins, whatever else the arrays hold) -/
theorem rebin_reads_only_old_bins (rc : Rat) (nd no len : Nat) (r xi r' xi' : Nat → Rat) (hno : no ≤ len) (hnd1 : 1 ≤ nd) (hnd : nd ≤ len)
    (hg : GridOK no xi) (hr : ∀ i, i < no → 0 < r i) (hrc : (nd : Rat) * rc = psum r no)
    (hrr : ∀ i, i < no → r' i = r i) (hxx : ∀ i, i < no → xi' i = xi i) :
    ∃ row row', rebin rc nd r xi len = some row ∧ rebin rc nd r' xi' len = some row' ∧ ∀ i, i < nd → row' i = row i := by
  obtain ⟨l, e, _, _⟩ := rebin_loop_top rc nd no len r xi hno hnd1 hg hr hrc
  refine ⟨rebinRow nd l xi, rebinRow nd l xi', ?_, ?_, ?_⟩
  · unfold rebin; rw [if_neg (by omega), e r xi (fun _ _ => rfl) (fun _ _ => rfl)]
  · unfold rebin; rw [if_neg (by omega), e r' xi' hrr hxx]
  · intro i hi
    unfold rebinRow
    split_ifs <;> first | rfl | omega

/-- non-vacuity: the grid after `init ≤ 0` (`xi[j][0] = 1`, `ndo = 1`) and the unit weights of the grid
    reset, `rc = ndo/xnd = 1/50` -/
example : GridOK 1 (fun _ => (1 : Rat)) ∧ (∀ i, i < 1 → (0 : Rat) < (fun _ => (1 : Rat)) i) ∧
    ((50 : Nat) : Rat) * (1 / 50) = psum (fun _ => (1 : Rat)) 1 := by
  refine ⟨⟨le_refl _, one_pos, fun i hi => absurd hi (by omega), rfl⟩, fun _ _ => one_pos, ?_⟩
  simp only [psum]; norm_num

/-- non-vacuity with two old bins of different widths and weights: edges `1/2, 1`, weights `1, 3`,
    three new bins, `rc = 4/3` -/
example : GridOK 2 (fun i => if i = 0 then (1 / 2 : Rat) else 1) ∧
    (∀ i, i < 2 → (0 : Rat) < (fun i => if i = 0 then (1 : Rat) else 3) i) ∧
    ((3 : Nat) : Rat) * (4 / 3) = psum (fun i => if i = 0 then (1 : Rat) else 3) 2 := by
  refine ⟨⟨by decide, by norm_num, ?_, by norm_num⟩, ?_, ?_⟩
  · intro i hi
    have : i = 0 := by omega
    subst this; norm_num
  · intro i _; dsimp only; split_ifs <;> norm_num
  · simp only [psum]; norm_num

/-- closes the induction for "Vegas samples inside the region": on a grid satisfying the invariant kept
    by `Rebin`, every bin index `1 ≤ ia ≤ nd` with `0 ≤ xn − ia ≤ 1` gives an abscissa in `[lo, lo + dx]` -/
theorem vegas_point_inside_of_grid (nd : Nat) (xi : Nat → Rat) (hg : GridOK nd xi) (ia : Nat) (xn lo dx : Rat)
    (hia : 1 ≤ ia) (hia2 : ia ≤ nd) (ht0 : 0 ≤ xn - ia) (ht1 : xn - ia ≤ 1) (hdx : 0 ≤ dx) :
    lo ≤ vegasX lo dx (vegasRc xi ia xn) ∧ vegasX lo dx (vegasRc xi ia xn) ≤ lo + dx := by
  have h1 : xi (ia - 1) ≤ 1 := by rw [← hg.2.2.2]; exact grid_le hg _ _ (by omega) (by omega)
  exact (vegas_point_inside xi ia xn lo dx hia ht0 ht1 hdx
    (fun h => ⟨le_of_lt (grid_pos hg _ (by omega)), grid_le hg _ _ (by omega) (by omega)⟩)
    ⟨le_of_lt (grid_pos hg _ (by omega)), h1⟩).2.2

/-- with `init = 0` (what `Integrate_MC` passes) every scalar static that survives between calls is
    rewritten by the initialisation blocks before use: the state after them does not depend on the
    state left by earlier integrations -/
theorem vegas_live_after_init_partial (s₁ s₂ : VegasScalars) (ndim : Nat) (ncall : Int) (ngOf : Int → Nat → Int) (vol : Rat) :
    vegasInitScalars s₁ 0 ndim ncall ngOf vol = vegasInitScalars s₂ 0 ndim ncall ngOf vol := by
  unfold vegasInitScalars
  simp only [le_refl, if_true, show (0:Int) ≤ 1 by decide, show (0:Int) ≤ 2 by decide]
  split_ifs <;> simp

/-- the array cells that the iterations read, pinned to values that do not mention the incoming state -/
structure VegasLive (ndim nd : Nat) (region : List Rat) (grid : Nat → Rat) (b : VegasArrays) : Prop where
  xi : ∀ j, j < ndim → ∀ i, i < nd → b.xi j i = grid i
  dx : ∀ j, j < ndim → b.dx j = at_ region (j + ndim) - at_ region j
  kg : ∀ j, j < ndim → b.kg j = 1
  d : ∀ i, i < nd → ∀ j, j < ndim → b.d i j = 0 ∧ b.di i j = 0

/-- extension of `vegas_live_after_init_partial` to the arrays: with `init = 0` (so `ndo = 1` and
    `xi[j][0] = 1` when the grid reset runs) the initialisation blocks and the iteration prologue never
    fail (`ndim ≤ MXDIM`, `1 ≤ nd ≤ NDMX`) and every array cell the iterations read — `xi[j][0..nd-1]`,
    `dx[j]`, `kg[j]`, `d[0..nd-1][j]`, `di[0..nd-1][j]` for `j < ndim` — has been written in this call:
    its value is given by ONE grid `grid` (the same for every axis and every incoming state `a`) resp.
    by the region, and that grid satisfies the invariant `GridOK nd` kept by `Rebin`. -/
theorem vegas_arrays_live_after_init (ndim nd : Nat) (region : List Rat) (hndim : ndim ≤ K.mxdim) (hnd1 : 1 ≤ nd) (hnd : nd ≤ K.ndmx) :
    ∃ grid, GridOK nd grid ∧ ∀ a : VegasArrays, ∃ b, vegasInitArrays a 0 ndim region 1 nd = some b ∧
      VegasLive ndim nd region grid (vegasIterPrologue b ndim nd) := by
  have hndp : ((nd : Nat) : Rat) ≠ 0 := by
    have : (0 : Rat) < nd := by exact_mod_cast hnd1
    exact ne_of_gt this
  obtain ⟨l, e, hl, hc⟩ := rebin_loop_top (((1 : Nat) : Rat) / (nd : Rat)) nd 1 K.ndmx (fun _ => 1) (fun _ => 1) (by omega) hnd1
    ⟨le_refl _, one_pos, fun i hi => absurd hi (by omega), rfl⟩ (fun _ _ => one_pos)
    (by simp only [psum]; field_simp; norm_num)
  refine ⟨rebinRow nd l (fun _ => 1), rebinRow_grid nd l _ hnd1 hl hc, ?_⟩
  intro a
  unfold vegasInitArrays
  rw [if_neg (by omega)]
  simp only [le_refl, if_true, show (0 : Int) ≤ 2 by decide]
  by_cases h : nd ≠ 1
  · rw [if_pos h]
    obtain ⟨xi2, e2, h1, _⟩ := rebinRows_reset (((1 : Nat) : Rat) / (nd : Rat)) nd (fun i => if i < max nd 1 then 1 else a.r i) l hnd1 hnd e
      (fun i hi => by rw [if_pos (by omega)]) ndim (fun j i => if j < ndim ∧ i = 0 then 1 else a.xi j i)
      (fun j hj => by simp [hj])
    rw [e2]
    refine ⟨_, rfl, ⟨?_, ?_, ?_, ?_⟩⟩
    · intro j hj i hi
      show xi2 j i = _
      rw [h1 j hj]; exact rebinRow_lt nd l _ _ i hi
    · intro j hj; simp [vegasIterPrologue, hj]
    · intro j hj; simp [vegasIterPrologue, hj]
    · intro i hi j hj; simp [vegasIterPrologue, hi, hj]
  · have h' : nd = 1 := by omega
    subst h'
    rw [if_neg (by omega)]
    refine ⟨_, rfl, ⟨?_, ?_, ?_, ?_⟩⟩
    · intro j hj i hi
      have : i = 0 := by omega
      subst this
      simp [vegasIterPrologue, hj, rebinRow]
    · intro j hj; simp [vegasIterPrologue, hj]
    · intro j hj; simp [vegasIterPrologue, hj]
    · intro i hi j hj
      have : i = 0 := by omega
      subst this
      simp [vegasIterPrologue, hj]

/-- the history-independence reading: two calls that start from arbitrary array contents `a₁, a₂` agree on
    every cell the iterations read -/
theorem vegas_arrays_history (ndim nd : Nat) (region : List Rat) (hndim : ndim ≤ K.mxdim) (hnd1 : 1 ≤ nd) (hnd : nd ≤ K.ndmx)
    (a₁ a₂ : VegasArrays) :
    ∃ b₁ b₂, vegasInitArrays a₁ 0 ndim region 1 nd = some b₁ ∧ vegasInitArrays a₂ 0 ndim region 1 nd = some b₂ ∧
      ∀ j, j < ndim →
        (vegasIterPrologue b₁ ndim nd).dx j = (vegasIterPrologue b₂ ndim nd).dx j ∧
        (vegasIterPrologue b₁ ndim nd).kg j = (vegasIterPrologue b₂ ndim nd).kg j ∧
        ∀ i, i < nd → (vegasIterPrologue b₁ ndim nd).xi j i = (vegasIterPrologue b₂ ndim nd).xi j i ∧
          (vegasIterPrologue b₁ ndim nd).d i j = (vegasIterPrologue b₂ ndim nd).d i j ∧
          (vegasIterPrologue b₁ ndim nd).di i j = (vegasIterPrologue b₂ ndim nd).di i j := by
  obtain ⟨grid, _, hall⟩ := vegas_arrays_live_after_init ndim nd region hndim hnd1 hnd
  obtain ⟨b₁, e₁, l₁⟩ := hall a₁
  obtain ⟨b₂, e₂, l₂⟩ := hall a₂
  refine ⟨b₁, b₂, e₁, e₂, fun j hj => ⟨by rw [l₁.dx j hj, l₂.dx j hj], by rw [l₁.kg j hj, l₂.kg j hj], fun i hi => ⟨?_, ?_, ?_⟩⟩⟩
  · rw [l₁.xi j hj i hi, l₂.xi j hj i hi]
  · rw [(l₁.d i hi j hj).1, (l₂.d i hi j hj).1]
  · rw [(l₁.d i hi j hj).2, (l₂.d i hi j hj).2]

/-- the sample step reads the grid only at `xi[j][ia-2], xi[j][ia-1]`: with `1 ≤ ia ≤ nd` these are live cells -/
theorem vegasRc_reads_live (nd : Nat) (xi xi' : Nat → Rat) (h : ∀ i, i < nd → xi' i = xi i) (ia : Nat) (xn : Rat)
    (h1 : 1 ≤ ia) (h2 : ia ≤ nd) : vegasRc xi' ia xn = vegasRc xi ia xn := by
  unfold vegasRc
  split_ifs with hh
  · rw [h _ (by omega : ia - 2 < nd), h _ (by omega : ia - 1 < nd)]
  · rw [h _ (by omega : ia - 1 < nd)]

/-- the bin index of a sample: with `1 ≤ kg ≤ ng`, `dxg = nd/ng` (as set by the `init ≤ 2` block),
    `1 ≤ nd ≤ NDMX` and a uniform `0 < u < 1`, `xn = (kg − u)·dxg + 1` lies in `(1, nd + 1)`, so
    `ia = max(min(int(xn), NDMX), 1) = int(xn)` is a bin of the current grid and `0 ≤ xn − ia < 1` -/
theorem vegas_ia_range (kg ng : Int) (nd : Nat) (u : Rat) (h1 : 1 ≤ kg) (h2 : kg ≤ ng) (hnd1 : 1 ≤ nd) (hnd : nd ≤ K.ndmx)
    (hu0 : 0 < u) (hu1 : u < 1) :
    1 ≤ vegasIa (vegasXn kg u ((nd : Rat) / (ng : Rat))) ∧ vegasIa (vegasXn kg u ((nd : Rat) / (ng : Rat))) ≤ nd ∧
    0 ≤ vegasXn kg u ((nd : Rat) / (ng : Rat)) - (vegasIa (vegasXn kg u ((nd : Rat) / (ng : Rat))) : Rat) ∧
    vegasXn kg u ((nd : Rat) / (ng : Rat)) - (vegasIa (vegasXn kg u ((nd : Rat) / (ng : Rat))) : Rat) ≤ 1 := by
  have hng : (0 : Rat) < ng := by exact_mod_cast (by omega : (0 : Int) < ng)
  have hndp : (0 : Rat) < nd := by exact_mod_cast hnd1
  have hkg1 : (1 : Rat) ≤ kg := by exact_mod_cast h1
  have hkg2 : (kg : Rat) ≤ ng := by exact_mod_cast h2
  have hq : 0 < (nd : Rat) / ng := div_pos hndp hng
  have ht0 : 0 < ((kg : Rat) - u) * ((nd : Rat) / ng) := mul_pos (by linarith) hq
  have ht1 : ((kg : Rat) - u) * ((nd : Rat) / ng) < nd := by
    have : ((kg : Rat) - u) * ((nd : Rat) / ng) = ((kg : Rat) - u) / ng * nd := by field_simp
    rw [this]
    have : ((kg : Rat) - u) / ng < 1 := by rw [div_lt_iff₀ hng]; linarith
    nlinarith
  generalize hx : vegasXn kg u ((nd : Rat) / (ng : Rat)) = xn
  have hxn : xn = ((kg : Rat) - u) * ((nd : Rat) / ng) + 1 := by rw [← hx]; rfl
  have hm1 : 1 ≤ xn.floor := by rw [Rat.le_floor_iff]; push_cast; linarith
  have hm2 : xn.floor ≤ nd := by
    have : xn.floor < (nd : Int) + 1 := by rw [Rat.floor_lt_iff]; push_cast; linarith
    omega
  have hia : (vegasIa xn : Int) = xn.floor := by
    unfold vegasIa
    rw [truncInt_of_nonneg xn (by linarith)]
    omega
  have hiaR : (vegasIa xn : Rat) = (xn.floor : Rat) := by exact_mod_cast hia
  refine ⟨by omega, by omega, ?_, ?_⟩
  · rw [hiaR]; linarith [Rat.floor_le xn]
  · rw [hiaR]
    have : xn < ((xn.floor + 1 : Int) : Rat) := Rat.floor_lt_iff.mp (by omega)
    push_cast at this; linarith

example : (1 : Int) ≤ 3 ∧ (3 : Int) ≤ 25 ∧ 1 ≤ 25 ∧ 25 ≤ 50 ∧ (0 : Rat) < 1 / 2 ∧ (1 / 2 : Rat) < 1 := by
  refine ⟨by decide, by decide, by decide, by decide, by norm_num, by norm_num⟩

/-- the boundary case excluded above is real: `u = 0` (which `generate_canonical` can return) in the last
    stratum `kg = ng` gives `xn = nd + 1`, and for `nd < NDMX` the code takes `ia = nd + 1`: it reads
    `xi[j][nd]` and adds to `d[nd][j]`, cells that this call has not written (here `nd = 25`, `ng = 25`) -/
theorem vegas_ia_overrun_witness : vegasIa (vegasXn 25 0 ((25 : Nat) / (25 : Int))) = 26 := by
  decide +kernel

/- What remains of the FULL clause `vegas_live_after_init` (`vegas s₁ args us = vegas s₂ args us` for the whole
   routine): the sampling/refinement iterations are not modelled executable, so the relational invariant
   over them is not stated in Lean.  Proved above: the state they start from (13 scalars:
   `vegas_live_after_init_partial`; arrays: `vegas_arrays_live_after_init`) is independent of the
   incoming statics on every cell they read, `Rebin` keeps the grid invariant and reads only the old bins
   (`rebin_preserves_grid`, `rebin_reads_only_old_bins`), the sample formula reads only live grid cells
   (`vegasRc_reads_live`) provided `ia ≤ nd` (`vegas_ia_range`).  `ia, x, dt, r, xin` are written before
   they are read inside one sample / one refinement (reading the code).  The iterations are decided by the
   class-D correspondence (bit-for-bit against a fresh process). -/

/-! ## Vegas: stratification cells and the cell odometer (fourth-wave seeds C14-j, C14-k) -/

/-- the odometer `kg` stays in `1..ng` during a sweep, and the value `ng` itself is stored: the index type of
    `kg` must represent `ng = (vegasCells ng0 ncall ndim).ng` (an obligation on any narrower index type) -/
theorem vegas_kg_range (ng : Nat) (hng : 1 ≤ ng) (kg : List Nat) (h : InCells ng kg) : InCells ng (odoRev ng kg).1 :=
  odoRev_range ng hng kg h

theorem vegas_kg_max_attained (ng : Nat) (hng : 2 ≤ ng) (rest : List Nat) :
    odoRev ng ((ng - 1) :: rest) = (ng :: rest, false) := odoRev_reaches_ng ng hng rest

/-- the largest cell index for a one-dimensional call with 2·10⁵ evaluations (`ng0 = 100000`) is 98049:
    it does not fit 16 bits; in 2…6 dimensions and budgets ≤ 10⁶ it stays ≤ 707 -/
theorem vegas_kg_max_1d_witness :
    (vegasCells 100000 200000 1).ng = 98049 ∧ 65535 < (vegasCells 100000 200000 1).ng ∧ (vegasCells 707 1000000 2).ng = 705 := by
  decide

/-- number of evaluations of that call: 5 sweeps × 98049 cells × 2 points -/
theorem vegas_evaluations_1d_witness : vegasEvaluations (vegasCells 100000 200000 1) = 980490 := by decide

/-- a sweep that starts at `(1,…,1)` (what the per-iteration reset `kg[j] = 1` guarantees: `vegasIterPrologue`)
    visits all `ng^ndim` cells and leaves the odometer at `(1,…,1)` -/
theorem vegas_sweep_full (ng ndim : Nat) (hng : 1 ≤ ng) (f : Nat) (hf : ng ^ ndim ≤ f) :
    sweepLen ng f (List.replicate ndim 1) = ng ^ ndim := by
  have hin : InCells ng (List.replicate ndim 1) := by
    intro c hc; rw [List.mem_replicate] at hc; omega
  have hv : odoVal ng (List.replicate ndim 1) = 0 := by
    induction ndim with
    | zero => rfl
    | succ n ih =>
      simp only [List.replicate_succ, odoVal]
      rw [ih (by simpa using (by
        have : ng ^ n ≤ ng ^ (n + 1) := Nat.pow_le_pow_right hng (by omega)
        omega)) (by intro c hc; rw [List.mem_replicate] at hc; omega)]
      simp
  exact sweepLen_eq ng hng _ f _ hin (by rw [List.length_replicate, hv]; omega) hf

/-- a sweep that starts from a STALE odometer (left mid-way by an abandoned or enclosing call) visits only the
    remaining cells: without the per-iteration reset the result depends on the history -/
theorem vegas_sweep_stale (ng : Nat) (hng : 1 ≤ ng) (kg : List Nat) (h : InCells ng kg) (f : Nat) (hf : ng ^ kg.length ≤ f) :
    sweepLen ng f kg = ng ^ kg.length - odoVal ng kg :=
  sweepLen_eq ng hng _ f kg h rfl (by omega)

theorem vegas_sweep_stale_witness : sweepLen 3 100 [1, 1] = 9 ∧ sweepLen 3 100 [3, 2] = 4 := by decide

/-- a finished sweep returns the odometer to `(1,…,1)` — the only reason a hoisted one-time reset looks equivalent -/
theorem vegas_sweep_returns_ones (ng : Nat) (kg : List Nat) (h : (odoRev ng kg).2 = true) :
    (odoRev ng kg).1 = List.replicate kg.length 1 := odoRev_done_ones ng kg h

/-! ## Fixes 66169b8 (bin index clamped to the bins in use) and 9f1900c (integrand gets exactly ndim coordinates) -/

/-- UNCONDITIONAL after fix 66169b8: whatever `xn` is (also `u = 0`, `kg = ng`, where `int(xn) = nd + 1`), the bin index
    lies in `1..nd` — the grid cells read by `vegasRc` are live (`vegasRc_reads_live`) -/
theorem vegas_ia_range_unconditional (xn : Rat) (nd : Nat) (hnd : 1 ≤ nd) : 1 ≤ vegasIaNd xn nd ∧ vegasIaNd xn nd ≤ nd := by
  unfold vegasIaNd
  have h1 : (1 : Int) ≤ max (min (truncInt xn) (nd : Int)) 1 := le_max_right _ _
  have h2 : max (min (truncInt xn) (nd : Int)) 1 ≤ (nd : Int) := max_le (min_le_right _ _) (by exact_mod_cast hnd)
  omega

/-- the post-fix value at the pre-fix witness (`kg = ng = nd = 25`, `u = 0`): 25 instead of 26 -/
theorem vegas_ia_clamped_witness : vegasIaNd (vegasXn 25 0 ((25 : Nat) / (25 : Int))) 25 = 25 := by decide +kernel

/-- below the clamp the two formulas agree: the fix changes nothing unless `int(xn) > nd` -/
theorem vegasIaNd_eq_vegasIa (xn : Rat) (nd : Nat) (hnd : nd ≤ K.ndmx) (h : truncInt xn ≤ nd) : vegasIaNd xn nd = vegasIa xn := by
  unfold vegasIaNd vegasIa
  have : min (truncInt xn) (nd : Int) = truncInt xn := min_eq_left h
  have hnd' : (nd : Int) ≤ (K.ndmx : Int) := by exact_mod_cast hnd
  have h50 : min (truncInt xn) (K.ndmx : Int) = truncInt xn := min_eq_left (le_trans h hnd')
  rw [this, h50]

/-- fix 9f1900c: the integrand's argument has exactly `ndim` entries (the work vector has `MXDIM = 10 ≥ ndim`) and they are
    the first `ndim` coordinates of the sample -/
theorem vegasPoint_size (x : List Rat) (ndim : Nat) (h : ndim ≤ x.length) : (vegasPoint x ndim).length = ndim := by
  unfold vegasPoint; simp [List.length_take, h]

theorem vegasPoint_coords (x : List Rat) (ndim j : Nat) (hj : j < ndim) : (vegasPoint x ndim)[j]? = x[j]? := by
  unfold vegasPoint; simp [List.getElem?_take, hj]

/-- the tail of the work vector (coordinates left by earlier integrations) cannot reach the integrand -/
theorem vegasPoint_ignores_tail (x t₁ t₂ : List Rat) (ndim : Nat) (h : x.length = ndim) :
    vegasPoint (x ++ t₁) ndim = vegasPoint (x ++ t₂) ndim := by
  unfold vegasPoint; simp [List.take_append_of_le_length, h]

/-! ## Guards of Integrate_MC (fix 52605b2) -/

/-- a request is rejected exactly when the region is empty or of odd length, or the budget is below 1 (Vegas: below 2) -/
theorem integrateMCRejects_iff (len : Nat) (n : Int) (vegas : Bool) :
    integrateMCRejects len n vegas = true ↔ (len = 0 ∨ len % 2 ≠ 0 ∨ n < 1 ∨ (vegas = true ∧ n < 2)) := by
  unfold integrateMCRejects
  simp [Bool.or_eq_true, Bool.and_eq_true, or_assoc]

/-- every request of the property's quantifier (dimension 1..6, budgets from 1e3) passes the guards -/
theorem integrateMC_quantifier_accepted (d : Nat) (n : Int) (vegas : Bool) (hd : 1 ≤ d) (hn : 1000 ≤ n) :
    integrateMCRejects (2 * d) n vegas = false := by
  have h : ¬ (integrateMCRejects (2 * d) n vegas = true) := by
    rw [integrateMCRejects_iff]
    rintro (h | h | h | ⟨_, h⟩) <;> omega
  simpa using h

/-! ## The caller's region is read-only (seed C14-p) -/

/-- the sub-regions handed to the two recursive calls are NEW lists (`subRegion`): whatever they are, the list `region` the
    caller passed is the same value before, during and after the integration - in particular when the integrand aborts it.
    An in-place bisection followed by a restore agrees with this only if the restore is reached: -/
theorem subRegion_restore (region : List Rat) (dim jb : Nat) (mid : Rat) (h : dim + jb < region.length) :
    (subRegion region dim jb mid true).set (dim + jb) (at_ region (dim + jb)) = region := by
  unfold subRegion at_
  simp only [if_true]
  rw [List.set_set]
  apply List.ext_getElem
  · simp
  · intro i h1 h2
    by_cases e : dim + jb = i
    · subst e; simp [List.getD_eq_getElem?_getD, h]
    · simp [List.getElem_set_ne e]

/-- without the restore (an integrand that throws inside the left half) the in-place vector is the LEFT sub-box, a different
    region whenever the bisection point differs from the upper bound -/
theorem subRegion_left_differs (region : List Rat) (dim jb : Nat) (mid : Rat) (h : dim + jb < region.length)
    (hne : mid ≠ at_ region (dim + jb)) : subRegion region dim jb mid true ≠ region := by
  unfold subRegion at_ at *
  simp only [if_true]
  intro heq
  have := congrArg (fun l => l.getD (dim + jb) 0) heq
  simp [List.getD_eq_getElem?_getD, h] at this
  exact hne (by simpa [List.getD_eq_getElem?_getD, h] using this)

end Lp.C14
