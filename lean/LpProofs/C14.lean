/-
  C14 — Monte-Carlo integrators: property theorems (DESIGN.md §6, C14) about the executable model
  `LpModel/C14.lean`, for every generator type `G` and uniform source `u01 : G → Rat × G`.
  "Within six standard errors", Vegas on constants and the Vegas iterations are
  correspondence/oracle-only (props/c14.py).
-/
import LpModel.C14
import Mathlib.Algebra.Order.Field.Rat
import Mathlib.Tactic.Ring
import Mathlib.Tactic.Linarith
import Mathlib.Tactic.FieldSimp
import Mathlib.Tactic.SplitIfs
namespace Lp.C14

variable {G : Type}

def Unit01 (u01 : U01 G) : Prop := ∀ g, 0 ≤ (u01 g).1 ∧ (u01 g).1 < 1

/-- axis `i+k` of the point list `pts` (starting at axis `i`) lies between the region's bounds -/
def InsideFrom (region : List Rat) (dim : Nat) : Nat → List Rat → Prop
  | _, [] => True
  | i, p :: ps => at_ region i ≤ p ∧ p ≤ at_ region (i + dim) ∧ InsideFrom region dim (i + 1) ps

/-- a whole point is inside the hyper-rectangle `{lower…, upper…}` -/
def Inside (region : List Rat) (pt : List Rat) : Prop := InsideFrom region (region.length / 2) 0 pt

/-- the region is well-formed: every lower bound ≤ its upper bound (upper bound of axis `i` at `i + dim`) -/
def WellFormed (region : List Rat) : Prop := ∀ i, i < region.length / 2 → at_ region i ≤ at_ region (i + region.length / 2)

/-! ## Random_Point stays inside -/

theorem coord_inside (lo hi u : Rat) (h : lo ≤ hi) (h0 : 0 ≤ u) (h1 : u < 1) :
    lo ≤ lo + u * (hi - lo) ∧ lo + u * (hi - lo) ≤ hi := by
  have hd : 0 ≤ hi - lo := by linarith
  constructor
  · nlinarith [mul_nonneg h0 hd]
  · nlinarith [mul_nonneg (by linarith : (0 : Rat) ≤ 1 - u) hd]

theorem randomPointAux_inside (u01 : U01 G) (hu : Unit01 u01) (region : List Rat) (dim : Nat) :
    ∀ n i g, (∀ k, i ≤ k → k < i + n → at_ region k ≤ at_ region (k + dim)) →
      InsideFrom region dim i (randomPointAux u01 region dim n i g).1 := by
  intro n
  induction n with
  | zero => intro i g _; simp [randomPointAux, InsideFrom]
  | succ n ih =>
    intro i g h
    simp only [randomPointAux, InsideFrom]
    obtain ⟨h0, h1⟩ := hu g
    have c := coord_inside (at_ region i) (at_ region (i + dim)) (u01 g).1 (h i (Nat.le_refl _) (by omega)) h0 h1
    exact ⟨c.1, c.2, ih (i + 1) _ (fun k hk1 hk2 => h k (by omega) (by omega))⟩

theorem randomPoint_inside (u01 : U01 G) (hu : Unit01 u01) (region : List Rat) (hw : WellFormed region) (g : G) :
    Inside region (randomPoint u01 region g).1 := by
  unfold Inside randomPoint
  apply randomPointAux_inside u01 hu
  intro k _ hk
  exact hw k (by omega)

example : WellFormed [0, -1, 2, 3] := by
  intro i hi
  have : i = 0 ∨ i = 1 := by simp at hi; omega
  rcases this with h | h <;> subst h <;> simp [at_] <;> norm_num

/-! ## brute force -/

theorem bruteLoop_inside (u01 : U01 G) (hu : Unit01 u01) (f : List Rat → Rat) (region : List Rat) (hw : WellFormed region) (vol : Rat) :
    ∀ n g, ∀ p ∈ (bruteLoop u01 f region vol n g).2.1, Inside region p := by
  intro n
  induction n with
  | zero => intro g p hp; simp [bruteLoop] at hp
  | succ n ih =>
    intro g p hp
    simp only [bruteLoop] at hp
    rcases List.mem_cons.mp hp with h | h
    · rw [h]; exact randomPoint_inside u01 hu region hw g
    · exact ih _ p h

/-- every point at which brute force calls the integrand lies in the region -/
theorem brute_only_inside (u01 : U01 G) (hu : Unit01 u01) (f : List Rat → Rat) (region : List Rat) (hw : WellFormed region)
    (ncall : Nat) (g : G) : ∀ p ∈ (bruteForce u01 f region ncall g).2, Inside region p := by
  unfold bruteForce
  exact bruteLoop_inside u01 hu f region hw _ ncall g

theorem bruteLoop_const (u01 : U01 G) (c : Rat) (region : List Rat) (vol : Rat) :
    ∀ n g, (bruteLoop u01 (fun _ => c) region vol n g).1 = (n : Rat) * (vol * c) := by
  intro n
  induction n with
  | zero => intro g; simp [bruteLoop]
  | succ n ih =>
    intro g
    simp only [bruteLoop]
    rw [ih]; push_cast; ring

/-- constants are integrated exactly: `volume · c` for every region, budget ≥ 1 and generator -/
theorem brute_constant_exact (u01 : U01 G) (c : Rat) (region : List Rat) (ncall : Nat) (hn : 1 ≤ ncall) (g : G) :
    (bruteForce u01 (fun _ => c) region ncall g).1 = mcVolume region * c := by
  unfold bruteForce
  simp only [bruteLoop_const]
  have : (ncall : Rat) ≠ 0 := by
    have : (0 : Rat) < ncall := by exact_mod_cast hn
    exact ne_of_gt this
  field_simp

/-! ## Miser -/

/-- accounting as coded: the three budgets of a node add up to its budget -/
theorem miser_accounting (npts npre nptl : Int) : npre + nptl + (npts - npre - nptl) = npts := by ring

/-- consequence for the whole recursion: the integrand is called exactly `npts` times -/
theorem miser_calls (u01 : U01 G) (f : List Rat → Rat) (pw23 : Rat → Rat) :
    ∀ fuel region npts iran g o, miser u01 f pw23 fuel region npts iran g = some o → o.calls = npts := by
  intro fuel
  induction fuel with
  | zero => intro region npts iran g o h; simp [miser] at h
  | succ fuel ih =>
    intro region npts iran g o h
    simp only [miser] at h
    split_ifs at h with h1 h2
    · simp only [Option.some.injEq] at h; rw [← h]
    · split at h
      · exact absurd h (by simp)
      · rename_i l hl
        split at h
        · exact absurd h (by simp)
        · rename_i r hr
          simp only [Option.some.injEq] at h
          rw [← h]
          have e1 := ih _ _ _ _ l hl
          have e2 := ih _ _ _ _ r hr
          simp only [e1, e2]
          ring

/-- the repaired `Integrate_MC_Miser` forgets the static: its result does not depend on the
    value `iran` had when the call started -/
theorem miser_history (u01 : U01 G) (f : List Rat → Rat) (pw23 : Rat → Rat) (region : List Rat) (ncall : Int)
    (iran₁ iran₂ : Nat) (g : G) :
    miserTop u01 f pw23 region ncall iran₁ g = miserTop u01 f pw23 region ncall iran₂ g := rfl

/-- witness for the unrepaired code: the fallback bisection axis `jb = (ndim·iran)/175000` of a
    two-dimensional call depends on the incoming static (0 after a fresh start vs 100000 left
    behind by an earlier integration) -/
theorem miser_history_counterexample :
    (2 * lcgN 2 0) / 175000 ≠ (2 * lcgN 2 100000) / 175000 := by decide

/-- with `dith = 0` the bisection point is the midpoint, hence inside the parent interval -/
theorem miser_rmid_inside (region : List Rat) (dim j : Nat) (h : at_ region j ≤ at_ region (dim + j)) :
    at_ region j ≤ rmid region dim j ∧ rmid region dim j ≤ at_ region (dim + j) := by
  unfold rmid; constructor <;> linarith

/-- FULL clauses not proved here (decided by the correspondence: the executable Miser model agrees
    with the implementation on every sample point's bounding box, the first points, the number of
    calls and the value; constants are checked to rounding by the oracle):
    every sub-region is inside its parent, hence every sample inside the original region;
    constants are integrated exactly. -/
def miser_subregions_FULL : Prop :=
  ∀ (G : Type) (u01 : U01 G) (f : List Rat → Rat) (pw23 : Rat → Rat) fuel region npts iran g o,
    Unit01 u01 → WellFormed region → miser u01 f pw23 fuel region npts iran g = some o → ∀ p ∈ o.pts, Inside region p

def miser_constant_exact_FULL : Prop :=
  ∀ (G : Type) (u01 : U01 G) (c : Rat) (pw23 : Rat → Rat) fuel region npts iran g o,
    miser u01 (fun _ => c) pw23 fuel region npts iran g = some o → o.ave = c

/-! ## Vegas -/

/-- the per-axis sample: if the grid row is increasing inside `[0,1]` around bin `ia` and
    `0 ≤ xn − ia ≤ 1`, then `0 ≤ rc ≤ 1` and the abscissa lies in `[lo, lo + dx]` -/
theorem vegas_point_inside (xi : Nat → Rat) (ia : Nat) (xn lo dx : Rat) (hia : 1 ≤ ia)
    (ht0 : 0 ≤ xn - ia) (ht1 : xn - ia ≤ 1) (hdx : 0 ≤ dx)
    (hgrid0 : ia > 1 → 0 ≤ xi (ia - 2) ∧ xi (ia - 2) ≤ xi (ia - 1)) (hgrid1 : 0 ≤ xi (ia - 1) ∧ xi (ia - 1) ≤ 1) :
    0 ≤ vegasRc xi ia xn ∧ vegasRc xi ia xn ≤ 1 ∧ lo ≤ vegasX lo dx (vegasRc xi ia xn) ∧ vegasX lo dx (vegasRc xi ia xn) ≤ lo + dx := by
  have key : 0 ≤ vegasRc xi ia xn ∧ vegasRc xi ia xn ≤ 1 := by
    unfold vegasRc
    split_ifs with h
    · obtain ⟨a0, a1⟩ := hgrid0 h
      have hd : 0 ≤ xi (ia - 1) - xi (ia - 2) := by linarith
      constructor
      · nlinarith [mul_nonneg ht0 hd]
      · nlinarith [mul_nonneg (by linarith : (0 : Rat) ≤ 1 - (xn - ia)) hd, hgrid1.2]
    · constructor
      · exact mul_nonneg ht0 hgrid1.1
      · nlinarith [mul_nonneg (by linarith : (0 : Rat) ≤ 1 - (xn - ia)) hgrid1.1, hgrid1.2]
  refine ⟨key.1, key.2, ?_, ?_⟩
  · unfold vegasX; nlinarith [mul_nonneg key.1 hdx]
  · unfold vegasX; nlinarith [mul_nonneg (by linarith [key.2] : (0 : Rat) ≤ 1 - vegasRc xi ia xn) hdx]

/-- with `init = 0` (what `Integrate_MC` passes) every scalar static that survives between calls is
    rewritten by the initialisation blocks before use: the state after them does not depend on the
    state left by earlier integrations -/
theorem vegas_live_after_init_partial (s₁ s₂ : VegasScalars) (ndim : Nat) (ncall : Int) (ngOf : Int → Nat → Int) (vol : Rat) :
    vegasInitScalars s₁ 0 ndim ncall ngOf vol = vegasInitScalars s₂ 0 ndim ncall ngOf vol := by
  unfold vegasInitScalars
  simp only [le_refl, if_true, show (0:Int) ≤ 1 by decide, show (0:Int) ≤ 2 by decide]
  split_ifs <;> simp

/- FULL clause `vegas_live_after_init` (not stated as a Lean proposition because the Vegas iterations are
   not modelled): the same for the grid `xi`, the work arrays `d, di, dt, r, xin, ia, kg, x` and the
   iteration loop (relational argument over the loops).  Reading the code: `xi[j][0] = 1` and `ndo = 1`
   make the grid reset read only `xi[j][0]`; `d, di, kg` are cleared at the head of every iteration,
   `ia, x, dt, r, xin` are written before they are read.  Decided by the class-D correspondence
   (bit-for-bit against a fresh process, all methods, histories of other dimension/region/budget). -/

end Lp.C14
