/-
  C06 — Gamma-function family: the property theorems (DESIGN.md §6 C06 [T1]).
  Model: LpModel/C06.lean (exact rationals; exp/log/sqrt/pow are parameters `T : Transc`).
  Helper lemmas: LpProofs/C06/Factorial.lean, LpProofs/C06/Lentz.lean, LpProofs/C06/Inverse.lean.

  Correspondence-only (not theorems): accuracy of the Lanczos sum, limits of the series and of
  the continued fraction, the quadrature branch, accuracy of the Halley inversion, P,Q ∈ [0,1] and
  monotone in x.
-/
import LpProofs.C06.Factorial
import LpProofs.C06.Lentz
import LpProofs.C06.Inverse
import LpProofs.C06.Binomial

namespace Lp.C06
open Nat

/-! ## Factorial: the memo machine, for every history of calls -/

theorem tblInv_tbl0 : TblInv tbl0 := ⟨1, le_refl 1, rfl⟩

/-- what the invariant says: the table is non-empty and holds `i!` at every index -/
theorem tblInv_entries (t : Tbl) (ht : TblInv t) :
    1 ≤ t.length ∧ ∀ i, i < t.length → t.getD i 0 = ((i ! : Nat) : Rat) := by
  obtain ⟨m, hm, rfl⟩ := ht
  rw [FT_length]
  exact ⟨hm, fun i hi => FT_getD m i hi⟩

/-- one call `n ≤ 170` from any table satisfying the invariant returns `n!`, keeps the invariant,
    and the table has grown to `max size (n+1)` entries -/
theorem factorial_spec (t : Tbl) (n : Nat) (ht : TblInv t) (hn : n ≤ 170) :
    (factorial t n).1 = .ok ((n ! : Nat) : Rat) ∧ TblInv (factorial t n).2 ∧
      (factorial t n).2.length = max t.length (n + 1) := by
  obtain ⟨m, hm, rfl⟩ := ht
  rw [factorial_FT m n hm hn, FT_length, FT_length]
  exact ⟨rfl, ⟨max m (n + 1), le_trans hm (le_max_left _ _), rfl⟩, rfl⟩

/-- `n > 170`: diagnostic, table unchanged -/
theorem factorial_overflow (t : Tbl) (n : Nat) (hn : 170 < n) : factorial t n = (.error .diag, t) := by
  unfold factorial; rw [if_pos (show n > K.factMax by simp only [K.factMax]; exact hn)]

/-- **factorial_history**: for every sequence of calls `≤ 170`, in any order and with any
    repetitions, from any table satisfying the invariant (in particular the initial `{1.0}`), every
    call `n` returns `n!` and the invariant `tbl[i] = i!` holds afterwards. -/
theorem factorial_history (t : Tbl) (calls : List Nat) (ht : TblInv t) (h : ∀ n ∈ calls, n ≤ 170) :
    (runCalls t calls).1 = calls.map (fun n => Except.ok ((n ! : Nat) : Rat)) ∧ TblInv (runCalls t calls).2 := by
  induction calls generalizing t with
  | nil => exact ⟨rfl, ht⟩
  | cons n r ih =>
    obtain ⟨m, hm, rfl⟩ := ht
    have hn : n ≤ 170 := h n (by simp)
    have hr : ∀ k ∈ r, k ≤ 170 := fun k hk => h k (by simp [hk])
    obtain ⟨ih1, ih2⟩ := ih (FT (max m (n + 1))) ⟨max m (n + 1), le_trans hm (le_max_left _ _), rfl⟩ hr
    simp only [runCalls, factorial_FT m n hm hn, List.map_cons]
    exact ⟨by rw [ih1], ih2⟩

/-- a call `n > 170` inside a history: the calls before it return their factorials, the call
    itself ends the process with a diagnostic, the table is the one the earlier calls left. -/
theorem factorial_history_overflow (t : Tbl) (pre post : List Nat) (n : Nat) (ht : TblInv t)
    (hpre : ∀ k ∈ pre, k ≤ 170) (hn : 170 < n) :
    (runCalls t (pre ++ n :: post)).1 = pre.map (fun k => Except.ok ((k ! : Nat) : Rat)) ++ [Except.error Err.diag] ∧
      (runCalls t (pre ++ n :: post)).2 = (runCalls t pre).2 := by
  induction pre generalizing t with
  | nil => simp [runCalls, factorial_overflow t n hn]
  | cons k r ih =>
    obtain ⟨m, hm, rfl⟩ := ht
    have hk : k ≤ 170 := hpre k (by simp)
    have hr : ∀ j ∈ r, j ≤ 170 := fun j hj => hpre j (by simp [hj])
    obtain ⟨ih1, ih2⟩ := ih (FT (max m (k + 1))) ⟨max m (k + 1), le_trans hm (le_max_left _ _), rfl⟩ hr
    simp only [List.cons_append, runCalls, factorial_FT m k hm hk, List.map_cons]
    exact ⟨by rw [ih1], ih2⟩

/-- history independence (justifies the bit-identical class-D check): the value of a call does
    not depend on the table state reached by any earlier calls -/
theorem factorial_history_independent (t₁ t₂ : Tbl) (n : Nat) (h₁ : TblInv t₁) (h₂ : TblInv t₂) :
    (factorial t₁ n).1 = (factorial t₂ n).1 := by
  by_cases hn : n ≤ 170
  · rw [(factorial_spec t₁ n h₁ hn).1, (factorial_spec t₂ n h₂ hn).1]
  · rw [factorial_overflow t₁ n (by omega), factorial_overflow t₂ n (by omega)]

example : (runCalls tbl0 [5, 2, 7, 0]).1 = [.ok 120, .ok 2, .ok 5040, .ok 1] := by decide +kernel
example : (runCalls tbl0 [5, 2, 7, 0]).2.length = 8 := by decide +kernel

/-! ## Binomial_Coefficient -/

/-- **binomial_floor** (pure arithmetic, every `n`): `⌊1/2 + n!/k!/(n−k)!⌋ = C(n,k)` -/
theorem binomial_floor (n k : Nat) (h : k ≤ n) :
    (((1 : Rat) / 2 + ((n ! : Nat) : Rat) / ((k ! : Nat) : Rat) / (((n - k)! : Nat) : Rat)).floor : Rat)
      = ((n.choose k : Nat) : Rat) := floor_formula n k h

/-- the code path `0 ≤ k ≤ n ≤ 170` from any table satisfying the invariant returns `C(n,k)` and
    keeps the invariant -/
theorem binomial_spec (t : Tbl) (n k : Nat) (ht : TblInv t) (hk : k ≤ n) :
    (binomial t (n : Int) (k : Int)).1 = .ok ((n.choose k : Nat) : Rat) ∧ TblInv (binomial t (n : Int) (k : Int)).2 ∧
      (binomial t (n : Int) (k : Int)).2 = t := by
  have h1 : ¬ ((k : Int) < 0 ∨ (n : Int) < 0) := by omega
  have h2 : ¬ ((n : Int) < (k : Int)) := by omega
  unfold binomial
  rw [if_neg h1, if_neg h2]
  simp only [Int.toNat_natCast]
  rw [binomProduct_eq_choose n k hk]
  exact ⟨rfl, ht, trivial⟩

/-- the factorial path used before `fix:` 2890841 returns the same value for `n ≤ 170` (value-neutral in exact arithmetic; in double
    its three rounded factorials gave 132 wrong representable integers) -/
theorem binomialFactorial_spec (t : Tbl) (n k : Nat) (ht : TblInv t) (hk : k ≤ n) (hn : n ≤ 170) :
    (binomialFactorial t (n : Int) (k : Int)).1 = .ok ((n.choose k : Nat) : Rat) ∧ TblInv (binomialFactorial t (n : Int) (k : Int)).2 := by
  obtain ⟨m, hm, rfl⟩ := ht
  have h1 : ¬ ((k : Int) < 0 ∨ (n : Int) < 0) := by omega
  have h2 : ¬ ((n : Int) < (k : Int)) := by omega
  have h3 : ¬ ((n : Int) > 170) := by omega
  unfold binomialFactorial
  rw [if_neg h1, if_neg h2, if_neg h3]
  simp only [Int.toNat_natCast]
  unfold binomialSmall
  have hm1 : 1 ≤ max m (n + 1) := le_trans hm (le_max_left _ _)
  have hm2 : 1 ≤ max (max m (n + 1)) (k + 1) := le_trans hm1 (le_max_left _ _)
  simp only [factorial_FT m n hm hn, factorial_FT _ k hm1 (by omega), factorial_FT _ (n - k) hm2 (by omega)]
  exact ⟨by rw [floor_formula n k hk], ⟨_, le_trans hm2 (le_max_left _ _), rfl⟩⟩

/-- Pascal's rule and symmetry for the values the model returns (`n+1 ≤ 170`) -/
theorem binomial_pascal (t₁ t₂ t₃ : Tbl) (n k : Nat) (h₁ : TblInv t₁) (h₂ : TblInv t₂) (h₃ : TblInv t₃)
    (hk : k + 1 ≤ n) :
    ∃ c c₁ c₂ : Rat, (binomial t₁ ((n + 1 : Nat) : Int) ((k + 1 : Nat) : Int)).1 = .ok c ∧
      (binomial t₂ (n : Int) (k : Int)).1 = .ok c₁ ∧ (binomial t₃ (n : Int) ((k + 1 : Nat) : Int)).1 = .ok c₂ ∧ c = c₁ + c₂ := by
  refine ⟨_, _, _, (binomial_spec t₁ (n + 1) (k + 1) h₁ (by omega)).1, (binomial_spec t₂ n k h₂ (by omega)).1,
    (binomial_spec t₃ n (k + 1) h₃ hk).1, ?_⟩
  rw [Nat.choose_succ_succ]; push_cast; rfl

theorem binomial_symm (t₁ t₂ : Tbl) (n k : Nat) (h₁ : TblInv t₁) (h₂ : TblInv t₂) (hk : k ≤ n) :
    (binomial t₁ (n : Int) (k : Int)).1 = (binomial t₂ (n : Int) ((n - k : Nat) : Int)).1 := by
  rw [(binomial_spec t₁ n k h₁ hk).1, (binomial_spec t₂ n (n - k) h₂ (by omega)).1, Nat.choose_symm hk]

/-- `n < k` → 0 -/
theorem binomial_lt (t : Tbl) (n k : Int) (h0 : 0 ≤ n) (h : n < k) :
    binomial t n k = (.ok 0, t) := by
  unfold binomial
  rw [if_neg (by omega), if_pos h]

/-- negative argument → diagnostic -/
theorem binomial_neg (t : Tbl) (n k : Int) (h : k < 0 ∨ n < 0) :
    binomial t n k = (.error .diag, t) := by
  unfold binomial
  rw [if_pos h]

/-- **n > 170** (after `fix:` 3be6423): the gcd-reduced product is `C(n,k)` exactly, for every `0 ≤ k ≤ n`
    (no bound on `n`), the table is not touched, and the value is symmetric in `k ↔ n-k` by construction -/
theorem binomial_large (t : Tbl) (n k : Nat) (hk : k ≤ n) (hn : 170 < n) :
    binomial t (n : Int) (k : Int) = (.ok ((n.choose k : Nat) : Rat), t) := by
  have h1 : ¬ ((k : Int) < 0 ∨ (n : Int) < 0) := by omega
  have h2 : ¬ ((n : Int) < (k : Int)) := by omega
  unfold binomial
  rw [if_neg h1, if_neg h2]
  simp only [Int.toNat_natCast]
  rw [binomProduct_eq_choose n k hk]

theorem binomProduct_symm (n k : Nat) (hk : k ≤ n) : binomProduct n k = binomProduct n (n - k) := by
  rw [binomProduct_eq_choose n k hk, binomProduct_eq_choose n (n - k) (by omega), Nat.choose_symm hk]

example : (binomial tbl0 10 3).1 = .ok 120 := by decide +kernel
example : (binomial tbl0 3 10).1 = .ok 0 := by decide +kernel
example : (binomial tbl0 (-1) 2).1 = .error .diag := by decide +kernel

/-! ## GammaQ / GammaP: branch selection and the identities that hold by construction -/

/-- **gammaQ_branch_total**: for `x ≥ 0`, `a > 0` exactly one branch is taken, and which one -/
theorem gammaQ_branch_total (x a : Rat) (hx : 0 ≤ x) (ha : 0 < a) :
    ∃ br, gammaQBranch x a = .ok br ∧
      (br = .zero ↔ x = 0) ∧ (br = .quad ↔ x ≠ 0 ∧ 100 < a) ∧
      (br = .series ↔ x ≠ 0 ∧ a ≤ 100 ∧ x < a + 1) ∧ (br = .cf ↔ x ≠ 0 ∧ a ≤ 100 ∧ a + 1 ≤ x) := by
  unfold gammaQBranch
  rw [if_neg (by intro h; rcases h with h | h <;> linarith)]
  by_cases h0 : x = 0
  · rw [if_pos h0]; exact ⟨_, rfl, by simp [h0], by simp [h0], by simp [h0], by simp [h0]⟩
  · rw [if_neg h0]
    by_cases h1 : a > 100
    · rw [if_pos h1]
      exact ⟨_, rfl, by simp [h0], by simp [h0, h1], by simp; intro _ h; linarith, by simp; intro _ h; linarith⟩
    · rw [if_neg h1]
      have h1' : a ≤ 100 := not_lt.mp h1
      by_cases h2 : x < a + 1
      · rw [if_pos h2]
        exact ⟨_, rfl, by simp [h0], by simp; intro _; exact h1', by simp [h0, h1', h2], by simp; intro _ _; exact h2⟩
      · rw [if_neg h2]
        exact ⟨_, rfl, by simp [h0], by simp; intro _; exact h1', by simp; intro _ _; exact not_lt.mp h2, by simp [h0, h1', not_lt.mp h2]⟩

/-- the request is rejected exactly when `x < 0` or `a ≤ 0` -/
theorem gammaQ_guard (x a : Rat) : gammaQBranch x a = .error .diag ↔ (x < 0 ∨ a ≤ 0) := by
  unfold gammaQBranch
  by_cases h : x < 0 ∨ a ≤ 0
  · simp [h]
  · rw [if_neg h]
    simp only [h, iff_false]
    split_ifs <;> simp

/-- **gammaP_add_gammaQ**: whatever the three evaluators return, `P + Q = 1`, and `P` fails exactly
    when `Q` fails -/
theorem gammaP_add_gammaQ (E : Parts) (x a q : Rat) (h : gammaQ E x a = .ok q) :
    ∃ p, gammaP E x a = .ok p ∧ p + q = 1 := by
  refine ⟨1 - q, ?_, by ring⟩
  unfold gammaP; rw [h]; rfl

theorem gammaP_error (E : Parts) (x a : Rat) (e : Err) (h : gammaQ E x a = .error e) : gammaP E x a = .error e := by
  unfold gammaP; rw [h]; rfl

theorem gammaTimesFraction_eq (g q : Rat) : gammaTimesFraction g q = g * q := by
  unfold gammaTimesFraction
  split_ifs with h
  · rw [h, mul_zero]
  · rfl

/-- **upper_add_lower**: `Upper + Lower = Gamma` -/
theorem upper_add_lower (T : Transc) (E : Parts) (x s g q : Rat) (hg : gamma T s = .ok g) (hq : gammaQ E x s = .ok q) :
    ∃ u l, upperGamma T E x s = .ok u ∧ lowerGamma T E x s = .ok l ∧ u + l = g := by
  refine ⟨gammaTimesFraction g q, gammaTimesFraction g (1 - q), ?_, ?_, by rw [gammaTimesFraction_eq, gammaTimesFraction_eq]; ring⟩
  · unfold upperGamma; rw [hg, hq]
  · have hp : gammaP E x s = .ok (1 - q) := by unfold gammaP; rw [hq]; rfl
    unfold lowerGamma; rw [hg, hp]

/-- `Gamma = exp(GammaLn)` is positive as soon as `exp` is -/
theorem gamma_pos (T : Transc) (htg : ∀ y, 0 < y → 0 < T.tgamma y) (x g : Rat) (h : gamma T x = .ok g) : 0 < g := by
  unfold gamma at h
  split_ifs at h with hx
  cases h; exact htg _ (not_le.mp hx)

/-- `Gamma` rejects exactly `x ≤ 0` (its own guard after `fix:` a972610), as the pre-fix form did through `GammaLn` -/
theorem gamma_guard (T : Transc) (x : Rat) :
    (gamma T x = .error .diag ↔ x ≤ 0) ∧ (gammaViaLn T x = .error .diag ↔ x ≤ 0) := by
  unfold gamma gammaViaLn gammaLn
  by_cases h : x ≤ 0 <;> simp [h, Except.map]

/-- **no other guard**: for every `x > 0` `Gamma` returns the value of `std::tgamma` unchanged — whatever it is, in particular a
    finite value next to the overflow boundary (x up to 171.62437695630271) is not replaced by a limit or an early return.
    Together with `gamma_guard` the outcome of `Gamma` is completely determined: diagnostic iff `x ≤ 0`, else `tgamma x`. -/
theorem gamma_no_other_guard (T : Transc) (x : Rat) (hx : 0 < x) : gamma T x = .ok (T.tgamma x) := by
  unfold gamma; rw [if_neg (not_le.mpr hx)]

/-- … and therefore two glue records that agree on `tgamma x` give the same `Gamma(x)`: the result depends on nothing else -/
theorem gamma_depends_on_tgamma_only (T₁ T₂ : Transc) (x : Rat) (h : T₁.tgamma x = T₂.tgamma x) : gamma T₁ x = gamma T₂ x := by
  unfold gamma; rw [h]

/-- the two forms of `Gamma` agree as soon as `tgamma = exp ∘ lnΓ` on the value `GammaLn` returns
    (over the reals they are the same function; in double `exp` magnifies the error of the logarithm) -/
theorem gamma_forms_agree (T : Transc) (x : Rat) (h : ∀ v, gammaLn T x = .ok v → T.tgamma x = T.exp v) :
    gamma T x = gammaViaLn T x := by
  unfold gamma gammaViaLn
  by_cases hx : x ≤ 0
  · rw [if_pos hx]; unfold gammaLn; rw [if_pos hx]; rfl
  · rw [if_neg hx]
    have hv : gammaLn T x = .ok (gammaLnGlue T x (lanczosSum x)) := by unfold gammaLn; rw [if_neg hx]
    rw [hv, h _ hv]; rfl

/-- **gammaQ_range** (after `fix:` 317093f): whatever the three evaluators return, `0 ≤ Q ≤ 1` and `0 ≤ P ≤ 1` -/
theorem clamp01_range (q : Rat) : 0 ≤ clamp01 q ∧ clamp01 q ≤ 1 := by
  unfold clamp01 rmin rmax
  split_ifs <;> constructor <;> linarith

/-- the clamp changes nothing where the evaluator is already a probability (value-neutral over exact arithmetic) -/
theorem clamp01_noop (q : Rat) (h0 : 0 ≤ q) (h1 : q ≤ 1) : clamp01 q = q := by
  unfold clamp01 rmin rmax
  split_ifs <;> linarith

theorem gammaQ_range (E : Parts) (x a q : Rat) (h : gammaQ E x a = .ok q) : 0 ≤ q ∧ q ≤ 1 := by
  unfold gammaQ at h
  cases hb : gammaQBranch x a with
  | error e => rw [hb] at h; simp [gammaQRaw, hb, Except.map] at h
  | ok br =>
    rw [hb] at h
    cases br with
    | zero => cases h; exact ⟨zero_le_one, le_refl _⟩
    | quad | series | cf =>
      simp only at h
      cases hr : gammaQRaw E x a with
      | error e => rw [hr] at h; cases h
      | ok r => rw [hr] at h; cases h; exact clamp01_range r

theorem gammaP_range (E : Parts) (x a p : Rat) (h : gammaP E x a = .ok p) : 0 ≤ p ∧ p ≤ 1 := by
  unfold gammaP at h
  cases hq : gammaQ E x a with
  | error e => rw [hq] at h; cases h
  | ok q =>
    rw [hq] at h
    cases h
    have := gammaQ_range E x a q hq
    constructor <;> linarith [this.1, this.2]

/-- `GammaQ` is the raw branch value whenever that value is a probability -/
theorem gammaQ_eq_raw (E : Parts) (x a r : Rat) (h : gammaQRaw E x a = .ok r) (h0 : 0 ≤ r) (h1 : r ≤ 1) : gammaQ E x a = .ok r := by
  unfold gammaQ
  cases hb : gammaQBranch x a with
  | error e => simp [gammaQRaw, hb] at h
  | ok br =>
    cases br with
    | zero => simp [gammaQRaw, hb] at h; rw [← h]
    | quad | series | cf => simp only; rw [h]; simp [Except.map, clamp01_noop r h0 h1]

/-- the re-association of `fix:` 61f965b is value-neutral: `log(c·sum) − log x = log(c·sum/x)` as soon as `log` turns
    quotients of positive numbers into differences (in double the quotient overflowed for x < 4.6e-307) -/
theorem gammaLn_reassoc (T : Transc) (hlog : ∀ a b, 0 < a → 0 < b → T.log (a / b) = T.log a - T.log b)
    (x s : Rat) (hx : 0 < x) (hs : 0 < s) : gammaLnGlue T x s = gammaLnGlueQuot T x s := by
  unfold gammaLnGlue gammaLnGlueQuot
  have hc : (0 : Rat) < sqrt2pi * s := mul_pos (by unfold sqrt2pi; norm_num [K.sqrt2pi]) hs
  rw [hlog _ _ hc hx]

/-- the Lanczos loop of the current source reads exactly the initialisers of `cof[]`: the loop bound equals the number of
    coefficients (no read past the table, no unused coefficient), so the model's table is the whole list of the source -/
theorem lanczos_table_complete : K.cof.length = K.lanczosTerms ∧ cof = K.cof := by
  refine ⟨rfl, ?_⟩
  unfold cof
  exact List.take_of_length_le (le_of_eq rfl)

/-- the constants of the current source keep the logarithms of `GammaLn` in their domain: `tmp = x + 671/128 > 0` and
    `sqrt2pi > 0`, and the start value of the Lanczos sum is positive -/
theorem gammaLn_constants_pos : (0 : Rat) < K.tmpNum / K.tmpDen ∧ (0 : Rat) < K.sqrt2pi ∧ (0 : Rat) < K.lanczos0 := by
  refine ⟨?_, ?_, ?_⟩ <;> norm_num [K.tmpNum, K.tmpDen, K.sqrt2pi, K.lanczos0]

/-- the Halley loop of `Inv_GammaP` runs at least once and its relative tolerance is positive and below 1 -/
theorem invGammaP_constants : 0 < K.invIter ∧ (0 : Rat) < K.invEps ∧ K.invEps < 1 := by
  refine ⟨by decide, ?_, ?_⟩ <;> norm_num [K.invEps]

theorem gammaLn_guard (T : Transc) (x : Rat) : (∃ v, gammaLn T x = .ok v) ↔ 0 < x := by
  unfold gammaLn
  by_cases h : x ≤ 0
  · simp [h]
  · simp [h, not_le.mp h]

example : gammaQBranch 3 2 = .ok .cf ∧ gammaQBranch 1 2 = .ok .series ∧ gammaQBranch 0 2 = .ok .zero ∧
    gammaQBranch 5 101 = .ok .quad ∧ gammaQBranch (-1) 2 = .error .diag := by decide +kernel

/-! ## GammaQcf: the term index advances and `h` is the n-th convergent -/

/-- **lentz_index_advances** (the repaired defect): after `n` passes the index is `n + 1`, so the
    pass `n` uses `a_{n+1} = -(n+1)(n+1-a)` -/
theorem lentz_index_advances (fpmin x a : Rat) (n : Nat) : (lentzIter fpmin x a n).i = n + 1 := by
  induction n with
  | zero => rfl
  | succ n ih => simp [lentzIter, lentzStep, lentzBody, ih]

theorem lentz_coeff_is_legendre (fpmin x a : Rat) (n : Nat) :
    coefA a (lentzIter fpmin x a n).i = legA a (n + 1) := by
  rw [lentz_index_advances, coefA_eq]

/-- the pre-fix loop never advances the index: every pass uses `a_1` -/
theorem lentz_frozen_index (fpmin x a : Rat) (n : Nat) : (lentzIterFrozen fpmin x a n).i = 1 := by
  induction n with
  | zero => rfl
  | succ n ih => simp [lentzIterFrozen, lentzStepFrozen, lentzBody, ih]

/-- … which is not Legendre's coefficient: witness `a = 2`, second pass (`a_2 = 0`, the fraction
    terminates and Q(3,2) = 4e⁻³; the frozen loop uses `a_1 = 1` again) -/
theorem lentz_frozen_not_legendre :
    coefA 2 (lentzIterFrozen (pow2 (-970)) 3 2 1).i ≠ legA 2 2 ∧
      (lentzIterFrozen (pow2 (-970)) 3 2 2).h ≠ (lentzIter (pow2 (-970)) 3 2 2).h := by
  constructor <;> decide +kernel

/-- **lentz_convergent**: as long as neither `FPMIN` clamp fires, after `n` passes
    `h = A_n / B_n`, `c = A_n / A_{n-1}`, `d = B_{n-1} / B_n`, `b = b_n`, with `A`, `B` the Wallis
    numerators/denominators of Legendre's continued fraction started from `A_{-1} = FPMIN`
    (`A_{-1} = 0` is the classical fraction; the code's initial `c = 1/FPMIN` stands for ∞). -/
theorem lentz_convergent (fpmin x a : Rat) (hf : 0 < fpmin) (hb : x + 1 - a ≠ 0) (n : Nat)
    (hc : ∀ k, k < n → NoClamp fpmin a (lentzIter fpmin x a k)) :
    LentzInv fpmin x a n (lentzIter fpmin x a n) := by
  induction n with
  | zero => exact lentzInv_init fpmin x a hf hb
  | succ n ih =>
    exact lentzInv_step fpmin x a hf n _ (ih (fun k hk => hc k (by omega))) (hc n (by omega))

theorem lentz_h_is_convergent (fpmin x a : Rat) (hf : 0 < fpmin) (hb : x + 1 - a ≠ 0) (n : Nat)
    (hc : ∀ k, k < n → NoClamp fpmin a (lentzIter fpmin x a k)) :
    (lentzIter fpmin x a n).h = (wallisA fpmin x a n).1 / (wallisB x a n).1 :=
  (lentz_convergent fpmin x a hf hb n hc).hh

/-- non-vacuity: `Q(3,2)`, no clamp in the first three passes -/
example : ∀ k, k < 3 → NoClamp (pow2 (-970)) 2 (lentzIter (pow2 (-970)) 3 2 k) := by
  intro k hk
  have : k = 0 ∨ k = 1 ∨ k = 2 := by omega
  rcases this with rfl | rfl | rfl <;> (unfold NoClamp; decide +kernel)

/-! ## GammaPser: the terms of the series -/

/-- **pser_terms**: the n-th term is `xⁿ / (a (a+1) … (a+n))` and the partial sums add them up -/
theorem pser_terms (x a : Rat) (n : Nat) :
    (pserIter x a n).del = x ^ n / poch a n ∧
      (pserIter x a (n + 1)).sum = (pserIter x a n).sum + x ^ (n + 1) / poch a (n + 1) ∧
      (pserIter x a 0).sum = 1 / a := by
  refine ⟨pserIter_del x a n, ?_, by simp [pserIter, pserInit]⟩
  rw [pserIter_sum_succ, pserIter_del]

/-- the partial sums increase strictly for `x > 0`, `a > 0` -/
theorem pser_partial_sums_increase (x a : Rat) (hx : 0 < x) (ha : 0 < a) (n : Nat) :
    (pserIter x a n).sum < (pserIter x a (n + 1)).sum := by
  rw [pserIter_sum_succ, pserIter_del]
  have : 0 < x ^ (n + 1) / poch a (n + 1) := div_pos (pow_pos hx _) (poch_pos a ha _)
  linarith

/-- the loop of the code is the iteration, stopped by the convergence test -/
theorem pserLoop_is_iter (eps x a : Rat) (fuel k : Nat) (s : PS) (n : Nat) (h : pserLoop eps x fuel (pserIter x a k) k = some (s, n)) :
    s = pserIter x a n ∧ k ≤ n ∧ ¬ rabs s.del > rabs s.sum * eps := by
  induction fuel generalizing k with
  | zero => simp [pserLoop] at h
  | succ f ih =>
    unfold pserLoop at h
    split_ifs at h with hc
    · obtain ⟨h1, h2, h3⟩ := ih (k + 1) h
      exact ⟨h1, by omega, h3⟩
    · cases h
      exact ⟨rfl, le_refl _, hc⟩

/-- every partial sum is at least the first term `1/a`: the rational core of the series never
    vanishes, however small the positive argument `x` is (denormal doubles included) -/
theorem pser_sum_ge_first (x a : Rat) (hx : 0 < x) (ha : 0 < a) (n : Nat) : 1 / a ≤ (pserIter x a n).sum := by
  induction n with
  | zero => simp [pserIter, pserInit]
  | succ n ih => exact le_trans ih (le_of_lt (pser_partial_sums_increase x a hx ha n))

/-- **gammaPser_pos**: `GammaPser(x,a) > 0` for every `x > 0`, `a > 0` as soon as `exp` is positive:
    there is no argument below which the series "underflows to zero" — `P(x,a) ≈ x^a/Γ(a+1)` is
    of order one for a tiny shape parameter even at denormal `x`. -/
theorem gammaPser_pos (T : Transc) (hexp : ∀ y, 0 < T.exp y) (eps x a v : Rat) (fuel : Nat) (hx : 0 < x) (ha : 0 < a)
    (h : gammaPser T eps fuel x a = .ok v) : 0 < v := by
  unfold gammaPser at h
  cases hg : gammaLn T a with
  | error e => rw [hg] at h; cases h
  | ok gln =>
    rw [hg] at h
    simp only at h
    cases hl : pserLoop eps x fuel (pserInit a) 0 with
    | none => rw [hl] at h; cases h
    | some r =>
      obtain ⟨s, n⟩ := r
      rw [hl] at h
      simp only at h
      cases h
      have hs : s = pserIter x a n := (pserLoop_is_iter eps x a fuel 0 s n (by simpa [pserIter] using hl)).1
      have h1 : 0 < s.sum := by
        rw [hs]
        exact lt_of_lt_of_le (div_pos zero_lt_one ha) (pser_sum_ge_first x a hx ha n)
      exact mul_pos h1 (hexp _)

/-! ## Inv_GammaP: guards; the result is never negative -/

/-- **invGammaP_nonneg**: for every glue and every `P`, a returned value is `≥ 0`; the request is
    rejected iff `a ≤ 0`; `p ≤ 0` gives 0 -/
theorem invGammaP_nonneg (T : Transc) (P : Rat → Rat → Except Err Rat) (p a r : Rat) (h : invGammaP T P p a = .ok r) : 0 ≤ r := by
  unfold invGammaP at h
  cases hb : invBranch p a with
  | error e => rw [hb] at h; cases h
  | ok br =>
    rw [hb] at h
    cases br with
    | top =>
      cases h
      unfold rmax
      split_ifs with h1
      · linarith
      · norm_num
    | bottom => cases h; exact le_refl _
    | iterate =>
      simp only at h
      cases hg : gammaLn T a with
      | error e => rw [hg] at h; cases h
      | ok gln =>
        rw [hg] at h
        exact halley_nonneg T P p a gln 12 _ r h (Or.inr (by norm_num))

theorem invGammaP_guard (T : Transc) (P : Rat → Rat → Except Err Rat) (p a : Rat) (ha : a ≤ 0) :
    invGammaP T P p a = .error .diag := by
  unfold invGammaP invBranch
  rw [if_pos ha]

theorem invGammaP_bottom (T : Transc) (P : Rat → Rat → Except Err Rat) (a : Rat) (ha : 0 < a) :
    invGammaP T P 0 a = .ok 0 := by
  unfold invGammaP invBranch
  rw [if_neg (not_le.mpr ha), if_neg (by norm_num), if_neg (by norm_num), if_pos (le_refl _)]

/-- after `fix:` d65f15f a `p` (or `q`) outside [0,1] is rejected -/
theorem invGamma_not_probability (T : Transc) (P : Rat → Rat → Except Err Rat) (p a : Rat) (hp : p < 0 ∨ 1 < p) :
    invGammaP T P p a = .error .diag ∧ invGammaQ T P p a = .error .diag := by
  constructor
  · unfold invGammaP invBranch
    by_cases ha : a ≤ 0
    · rw [if_pos ha]
    · rw [if_neg ha, if_pos hp]
  · unfold invGammaQ; rw [if_pos hp]

/-! ## Mirrors of the repairs proposed by the second audit (fixprop-C06-5, C06-6) -/

theorem binomialAll_eq_choose (n k : Nat) (hk : k ≤ n) : binomialAll (n : Int) (k : Int) = .ok ((n.choose k : Nat) : Rat) := by
  unfold binomialAll
  rw [if_neg (by omega), if_neg (by omega)]
  simp only [Int.toNat_natCast]
  rw [binomProduct_eq_choose n k hk]

end Lp.C06
