import LpModel.C06
namespace Lp.C06
end Lp.C06
