/-
  C16 — rotations and spherical coordinates.
  Executable model of src/Linear_Algebra.cpp: Vector::Norm/Normalize/Normalized, Angle,
  Spherical_Coordinates (both overloads, as repaired by 90a1c5d, 1e66dff, ded1f77 and 19fe5f8), Rotation_Matrix.
  Exact rationals; core-only (no Mathlib).

  Non-rational functions are parameters (DESIGN.md §3.2):
    * `sq : Rat → Rat` stands for `sqrt`     (theorems assume `sq y * sq y = y` for `0 ≤ y`, `0 ≤ sq y`);
    * a cosine/sine pair enters as two rationals `(c, s)` (theorems assume `c*c + s*s = 1`);
    * `acos` is not modelled: `angleCos` is the argument handed to `acos`.
-/
import LpModel.Basic
namespace Lp.C16

@[ext] structure V2 where
  x : Rat
  y : Rat
  deriving DecidableEq, Repr

@[ext] structure V3 where
  x : Rat
  y : Rat
  z : Rat
  deriving DecidableEq, Repr

/-- 2×2 matrix, row major -/
@[ext] structure M2 where
  a11 : Rat
  a12 : Rat
  a21 : Rat
  a22 : Rat
  deriving DecidableEq, Repr

/-- 3×3 matrix as three rows -/
@[ext] structure M3 where
  r1 : V3
  r2 : V3
  r3 : V3
  deriving DecidableEq, Repr

namespace V3
def dot (a b : V3) : Rat := a.x * b.x + a.y * b.y + a.z * b.z
/-- `Vector::Cross` as coded -/
def cross (a b : V3) : V3 := ⟨a.y * b.z - a.z * b.y, a.z * b.x - a.x * b.z, a.x * b.y - a.y * b.x⟩
def smul (k : Rat) (a : V3) : V3 := ⟨k * a.x, k * a.y, k * a.z⟩
def add (a b : V3) : V3 := ⟨a.x + b.x, a.y + b.y, a.z + b.z⟩
def neg (a : V3) : V3 := ⟨-a.x, -a.y, -a.z⟩
/-- component-wise division by a scalar (`components[i] / norm`) -/
def divs (a : V3) (k : Rat) : V3 := ⟨a.x / k, a.y / k, a.z / k⟩
def toList (a : V3) : List Rat := [a.x, a.y, a.z]
end V3

namespace M3
def one : M3 := ⟨⟨1, 0, 0⟩, ⟨0, 1, 0⟩, ⟨0, 0, 1⟩⟩
def mulVec (m : M3) (v : V3) : V3 := ⟨m.r1.dot v, m.r2.dot v, m.r3.dot v⟩
def col1 (m : M3) : V3 := ⟨m.r1.x, m.r2.x, m.r3.x⟩
def col2 (m : M3) : V3 := ⟨m.r1.y, m.r2.y, m.r3.y⟩
def col3 (m : M3) : V3 := ⟨m.r1.z, m.r2.z, m.r3.z⟩
def transpose (m : M3) : M3 := ⟨m.col1, m.col2, m.col3⟩
def mul (a b : M3) : M3 :=
  ⟨⟨a.r1.dot b.col1, a.r1.dot b.col2, a.r1.dot b.col3⟩,
   ⟨a.r2.dot b.col1, a.r2.dot b.col2, a.r2.dot b.col3⟩,
   ⟨a.r3.dot b.col1, a.r3.dot b.col2, a.r3.dot b.col3⟩⟩
/-- determinant = triple product of the rows -/
def det (m : M3) : Rat := m.r1.dot (m.r2.cross m.r3)
def toList (m : M3) : List Rat := m.r1.toList ++ m.r2.toList ++ m.r3.toList
end M3

namespace M2
def one : M2 := ⟨1, 0, 0, 1⟩
def transpose (m : M2) : M2 := ⟨m.a11, m.a21, m.a12, m.a22⟩
def mul (a b : M2) : M2 :=
  ⟨a.a11 * b.a11 + a.a12 * b.a21, a.a11 * b.a12 + a.a12 * b.a22,
   a.a21 * b.a11 + a.a22 * b.a21, a.a21 * b.a12 + a.a22 * b.a22⟩
def det (m : M2) : Rat := m.a11 * m.a22 - m.a12 * m.a21
def mulVec (m : M2) (v : V2) : V2 := ⟨m.a11 * v.x + m.a12 * v.y, m.a21 * v.x + m.a22 * v.y⟩
def toList (m : M2) : List Rat := [m.a11, m.a12, m.a21, m.a22]
end M2

/-! ### Norm, Normalize / Normalized (any dimension for the list version) -/

def dotL : List Rat → List Rat → Rat
  | a :: as, b :: bs => a * b + dotL as bs
  | _, _ => 0

/-- `std::frexp(x, &exponent)` for `x > 0`: the integer `e` with `x = m·2^e`, `m ∈ [1/2, 1)`,
    i.e. the smallest `e` with `x < 2^e`.  (No theorem depends on which `e` it is.) -/
def frexpExp (x : Rat) : Int :=
  let e0 : Int := (Nat.log2 x.num.toNat : Int) - (Nat.log2 x.den : Int)
  if x < pow2 e0 then e0 else e0 + 1

/-- `Vector::Norm()` since 8a680df: the components are scaled by the power of two `2^-e` of the largest
    one (`std::ldexp`, exact), the squares summed, and the root scaled back: `2^e · sqrt(Σ (c_i/2^e)²)`.
    Over the rationals this is `sqrt(Σ c_i²)` (theorem `norm3_scaled_noop`); the scaling only keeps the
    floating-point squares away from overflow and underflow.  `0` for the zero vector. -/
def normL (sq : Rat → Rat) (v : List Rat) : Rat :=
  let largest := v.foldl (fun m c => rmax m (rabs c)) 0
  if largest = 0 then 0
  else
    let p := pow2 (frexpExp largest)
    let w := v.map (· / p)
    p * sq (dotL w w)

/-- `Vector::Normalized()` / `Normalize()`: every component divided by the norm.
    `none`: the zero vector (and the empty one) divides 0 by 0 in the C++ — NaN components, not modelled. -/
def normalizeL (sq : Rat → Rat) (v : List Rat) : Option (List Rat) :=
  if dotL v v = 0 then none else some (v.map (· / normL sq v))

/-- largest absolute component, as the loop of `Vector::Norm()` forms it -/
def maxAbs3 (v : V3) : Rat := rmax (rmax (rmax 0 (rabs v.x)) (rabs v.y)) (rabs v.z)

/-- the 3-D instance of `Vector::Norm()` (as coded since 8a680df, see `normL`) -/
def norm3 (sq : Rat → Rat) (v : V3) : Rat :=
  if maxAbs3 v = 0 then 0
  else
    let p := pow2 (frexpExp (maxAbs3 v))
    p * sq ((v.divs p).dot (v.divs p))

/-- 3-D normalisation, total: used only where the caller has excluded the zero vector or does
    not use the result in that case (mirrors the C++ data flow). -/
def normalize3 (sq : Rat → Rat) (v : V3) : V3 := v.divs (norm3 sq v)

/- Since a1cdfe7 `Normalize()` / `Normalized()` divide in the scaled domain: with `p = 2^e` the power of two of
   `Vector::Norm()` and `S = Σ (c_i/p)²`, each component is `(c_i/p) / sqrt(S)` instead of `c_i / (p·sqrt(S))`.
   Over the rationals `(c/p)/sq S = c/(p·sq S)` (`p ≠ 0`), i.e. exactly `v.divs (norm3 sq v)` / `v.map (· / normL sq v)`:
   the model keeps that form; the change only matters in floating point, where a subnormal `p·sqrt(S)` has too few
   significant bits to divide by (the correspondence run covers lengths down to 5e-324). -/

/-- argument of `acos` in `Angle(v1,v2) = acos(v1*v2 / (v1.Norm()*v2.Norm()))`.
    `.error`: `Vector::Dot` rejects differing dimensions with a diagnostic.
    `.ok none`: a zero vector (0/0 in the C++). -/
def angleCos (sq : Rat → Rat) (v1 v2 : List Rat) : Except Unit (Option Rat) :=
  if v1.length ≠ v2.length then .error ()
  else if dotL v1 v1 = 0 ∨ dotL v2 v2 = 0 then .ok none
  else .ok (some (dotL v1 v2 / (normL sq v1 * normL sq v2)))

/-! ### Rotation_Matrix -/

/-- `Rotation_Matrix(alpha, 2)` with `c = cos alpha`, `s = sin alpha` -/
def rotation2 (c s : Rat) : M2 := ⟨c, -s, s, c⟩

/-- the 3-D entries as coded, for an axis `n` that has already been normalised -/
def rotation3 (c s : Rat) (n : V3) : M3 :=
  let n1 := n.x; let n2 := n.y; let n3 := n.z
  ⟨⟨c + n1 * n1 * (1 - c), n1 * n2 * (1 - c) - n3 * s, n1 * n3 * (1 - c) + n2 * s⟩,
   ⟨n1 * n2 * (1 - c) + n3 * s, c + n2 * n2 * (1 - c), n2 * n3 * (1 - c) - n1 * s⟩,
   ⟨n1 * n3 * (1 - c) - n2 * s, n2 * n3 * (1 - c) + n1 * s, c + n3 * n3 * (1 - c)⟩⟩

/-- `Rotation_Matrix(alpha, 3, axis)`: `axis.Normalize()` then the entries.
    `none`: zero axis (NaN matrix in the C++; outside the property's quantifier). -/
def rotationAxis (sq : Rat → Rat) (c s : Rat) (axis : V3) : Option M3 :=
  if axis.dot axis = 0 then none else some (rotation3 c s (normalize3 sq axis))

inductive RotOut where
  | m2 : M2 → RotOut
  | m3 : M3 → RotOut
  | nan : RotOut       -- zero axis: not modelled
  | err : RotOut       -- diagnostic + exit(EXIT_FAILURE)

/-- the whole entry point with its guards: `dim` and the dimension of the axis vector -/
def rotationMatrix (sq : Rat → Rat) (c s : Rat) (dim : Int) (axis : List Rat) : RotOut :=
  if dim = 2 then .m2 (rotation2 c s)
  else if dim = 3 then
    match axis with
    | [a, b, d] =>
      match rotationAxis sq c s ⟨a, b, d⟩ with
      | some m => .m3 m
      | none => .nan
    | _ => .err
  else .err

/-! ### Spherical_Coordinates -/

/-- `Spherical_Coordinates(r, theta, phi)` with `ct = cos theta`, `st = sin theta`, … -/
def spherical (r ct st cp sp : Rat) : V3 := ⟨r * st * cp, r * st * sp, r * ct⟩

/-- `std::hypot(a, b)`: the real function `sqrt(a² + b²)`, evaluated by the C library without
    intermediate underflow/overflow of the squares.  In exact arithmetic it is `sq (a*a + b*b)`;
    that libm's `hypot` approximates it for every finite pair (also where the squares are subnormal)
    is trusted and measured by the correspondence run. -/
def hypot (sq : Rat → Rat) (a b : Rat) : Rat := sq (a * a + b * b)

/- Since 19fe5f8 the code forms the transverse length as `aux = scale * hyp` with
   `scale = max(|ev_x|, |ev_y|)`, `hyp = hypot(ev_x/scale, ev_y/scale)` (in [1, √2]) and
   `tx = ev_x/scale/hyp`, `ty = ev_y/scale/hyp`.  For `scale > 0` this is the same real function:
   `scale * sqrt((ev_x/scale)² + (ev_y/scale)²) = sqrt(ev_x² + ev_y²)` and `ev_x/scale/hyp = ev_x/aux`;
   `scale = 0 ⇔ aux = 0`, so the branch tests are the same.  The scaling only serves the floating-point
   evaluation (no underflow of the squares, no subnormal divisor); the model keeps `aux = hypot ev_x ev_y`,
   `tx = ev_x/aux`, and the correspondence run over tilts 5e-324 … 1e-1 ties the two. -/

/-- the general-frame branch for a unit axis `ev` with transverse length `aux = hypot(ev_x, ev_y) ≠ 0`
    (`sin_theta = sin(theta)` since 1e66dff; since ded1f77 the transverse components are divided by
    `aux` first: `tx = ev_x/aux`, `ty = ev_y/aux` is the unit vector of the axis' projection on the xy plane). -/
def sphericalFrame (r ct st cp sp : Rat) (ev : V3) (aux : Rat) : V3 :=
  let tx := ev.x / aux
  let ty := ev.y / aux
  V3.smul r
    ⟨ct * ev.x + st * (tx * ev.z * cp - ty * sp),
     ct * ev.y + st * (ty * ev.z * cp + tx * sp),
     ct * ev.z - aux * cp * st⟩

/-- which of the three branches of the repaired code is taken -/
inductive Branch where
  | plain | antiz | general
  deriving DecidableEq, Repr

def sphericalBranch (sq : Rat → Rat) (axis : V3) : Branch :=
  let ev := normalize3 sq axis
  let aux := hypot sq ev.x ev.y
  if norm3 sq axis = 0 ∨ (aux = 0 ∧ ev.z > 0) then .plain
  else if aux = 0 then .antiz
  else .general

/-- `Spherical_Coordinates(r, theta, phi, axis)` as coded after 90a1c5d, 1e66dff and ded1f77:
    `(ct, st) = (cos theta, sin theta)`, `(cp, sp) = (cos phi, sin phi)` in every branch. -/
def sphericalAxis (sq : Rat → Rat) (r ct st cp sp : Rat) (axis : V3) : V3 :=
  let ev := normalize3 sq axis
  let aux := hypot sq ev.x ev.y
  match sphericalBranch sq axis with
  | .plain => spherical r ct st cp sp
  | .antiz =>
    let v := spherical r ct st cp sp
    ⟨-v.x, v.y, -v.z⟩
  | .general => sphericalFrame r ct st cp sp ev aux

/-- the frame vectors of the general branch: `v = r (ct·ev + st·cp·e1 + st·sp·e2)` -/
def frameE1 (ev : V3) (aux : Rat) : V3 := ⟨ev.x / aux * ev.z, ev.y / aux * ev.z, -aux⟩
def frameE2 (ev : V3) (aux : Rat) : V3 := ⟨-(ev.y / aux), ev.x / aux, 0⟩

/-! ### the axis as an OBJECT with a history (`Vector` = storage + `dimension`)

`Rotation_Matrix` and `Spherical_Coordinates` receive a `Vector` object.  What the class exposes
(`Size()`, `operator[]`, `==`, `Dot`) is the first `dimension` entries of the storage; `Scaled_Norm`
(hence `Norm`, `Normalize`, `Normalized`) iterates over the *storage* (`components.size()`).  The two agree
because every operation keeps `storage.length = dimension` (`VecObj.WF`, theorems in LpProofs/C16). -/

structure VecObj where
  dimension : Nat
  storage : List Rat
  deriving Repr

namespace VecObj
/-- `Vector(std::vector<double> entries)` -/
def ofList (l : List Rat) : VecObj := ⟨l.length, l⟩
/-- `Vector(dim, entry)` / `Assign(dim, entry)` -/
def assign (_ : VecObj) (d : Nat) (e : Rat) : VecObj := ⟨d, List.replicate d e⟩
/-- `Resize(dim)`: `dimension = dim; components.resize(dim)` — truncates, or appends zeros -/
def resize (o : VecObj) (d : Nat) : VecObj := ⟨d, o.storage.take d ++ List.replicate (d - o.storage.length) 0⟩
/-- `v[i] = x` for `i < dimension` (otherwise the C++ stops with a diagnostic: unchanged here) -/
def set (o : VecObj) (i : Nat) (x : Rat) : VecObj :=
  if i < o.dimension then ⟨o.dimension, o.storage.set i x⟩ else o
/-- copy constructor and `operator=`: both fields are copied -/
def copy (o : VecObj) : VecObj := ⟨o.dimension, o.storage⟩
/-- what `Size()` / `operator[]` expose -/
def visible (o : VecObj) : List Rat := o.storage.take o.dimension
/-- `Norm()` as coded: `Scaled_Norm` runs over `components.size()` entries -/
def normCoded (sq : Rat → Rat) (o : VecObj) : Rat := normL sq o.storage
/-- the class invariant -/
def WF (o : VecObj) : Prop := o.storage.length = o.dimension
/-- the 3-vector handed to the geometry routines; `none` = not a 3-vector (diagnostic in the C++) -/
def axis3 (o : VecObj) : Option V3 :=
  match o.visible, o.dimension with
  | [a, b, c], 3 => some ⟨a, b, c⟩
  | _, _ => none
end VecObj

/-- the object histories exercised by the harness (`c16.rot3h`, `c16.sphaxh`): all end in the 3-vector `(a,b,c)`.
    `ex` are extra entries used as hidden tail / junk. -/
def axisHistory (kind : Nat) (a b c : Rat) (ex : List Rat) : VecObj :=
  let direct := VecObj.ofList [a, b, c]
  let shrunk := (VecObj.ofList ([a, b, c] ++ ex)).resize 3
  match kind with
  | 0 => direct
  | 1 => shrunk
  | 2 => (((VecObj.ofList ([a, b, c] ++ ex)).resize 2).resize 3).set 2 c
  | 3 => ((((VecObj.ofList ex).assign 3 0).set 0 a).set 1 b).set 2 c
  | 4 => shrunk.copy            -- `w = shrunk` (operator=) on an object that held `ex` before
  | 5 => shrunk.copy            -- copy constructor
  | 6 => direct                 -- slice of a longer std::vector handed to the constructor
  | 7 => ((VecObj.ofList [a, b]).resize 3).set 2 c
  | _ => direct                 -- arithmetic on a shrunk vector builds a fresh one from its visible entries

/-! ### a concrete `sq` for the driver: exact on rational squares, otherwise rounded down to
    a relative precision of about 2^-k (validated numerical oracle, not used by any theorem) -/

def sqApprox (k : Nat) (y : Rat) : Rat :=
  if y ≤ 0 then 0 else
  let n := y.num.toNat
  let d := y.den
  let rn := Nat.sqrt n
  let rd := Nat.sqrt d
  if rn * rn = n ∧ rd * rd = d then (rn : Rat) / (rd : Rat)
  else
    -- sqrt(n/d) = sqrt(n*d)/d ; scale n*d by 4^e so that the integer root carries ≥ k bits
    let nd := n * d
    let e := k   -- nd ≥ 1, so nd*4^k has an integer root of at least k bits
    let root := Nat.sqrt (nd * 4 ^ e)
    (root : Rat) / ((d : Rat) * (2 : Rat) ^ (e : Int))

end Lp.C16
