/-
  LpModel.Basic — core-only helpers shared by every model file and by the driver:
  exact parsing of C99 hex floats into `Rat`, exact printing, argument cursors, rounding
  helpers used by iterative models in the driver.  No Mathlib imports (the driver links).
-/
namespace Lp

/-! ## Exact rationals in and out -/

def hexDigit? (c : Char) : Option Nat :=
  if '0' ≤ c ∧ c ≤ '9' then some (c.toNat - '0'.toNat)
  else if 'a' ≤ c ∧ c ≤ 'f' then some (c.toNat - 'a'.toNat + 10)
  else if 'A' ≤ c ∧ c ≤ 'F' then some (c.toNat - 'A'.toNat + 10)
  else none

def pow2 (e : Int) : Rat := (2 : Rat) ^ e

/-- mantissa digits → (value as Nat, number of digits) -/
def hexDigits : List Char → Nat → Nat → Option (Nat × Nat × List Char)
  | [], acc, n => some (acc, n, [])
  | c :: cs, acc, n =>
    match hexDigit? c with
    | some d => hexDigits cs (acc * 16 + d) (n + 1)
    | none => some (acc, n, c :: cs)

def decInt? (cs : List Char) : Option Int :=
  let s := String.ofList cs
  match cs with
  | '+' :: r => (String.ofList r).toInt?
  | _ => s.toInt?

/-- Parse a C99 hex float as printed by `printf("%a")` or Python's `float.hex()`.
    `inf`/`nan` and anything malformed give `none` (never a default). -/
def parseHex (s : String) : Option Rat :=
  let cs := s.toList
  let (neg, cs) := match cs with
    | '-' :: r => (true, r)
    | '+' :: r => (false, r)
    | _ => (false, cs)
  match cs with
  | '0' :: x :: r =>
    if x = 'x' ∨ x = 'X' then
      match hexDigits r 0 0 with
      | some (ip, nip, rest) =>
        let fin (m : Nat) (fracDigits : Nat) (rest : List Char) : Option Rat :=
          match rest with
          | p :: er =>
            if p = 'p' ∨ p = 'P' then
              match decInt? er with
              | some e =>
                let v : Rat := (m : Rat) * pow2 (e - 4 * (fracDigits : Int))
                some (if neg then -v else v)
              | none => none
            else none
          | [] => none
        match rest with
        | '.' :: r2 =>
          match hexDigits r2 ip 0 with
          | some (m, nf, rest2) => if nip + nf = 0 then none else fin m nf rest2
          | none => none
        | _ => if nip = 0 then none else fin ip 0 rest
      | none => none
    else none
  | _ => none

/-- decimal integer or `num/den` or hex float -/
def parseRat (s : String) : Option Rat :=
  match parseHex s with
  | some r => some r
  | none =>
    match s.splitOn "/" with
    | [n] => n.toInt?.map (fun (i : Int) => (i : Rat))
    | [n, d] =>
      match n.toInt?, d.toNat? with
      | some n, some d => if d = 0 then none else some (mkRat n d)
      | _, _ => none
    | _ => none

def showRat (r : Rat) : String := toString r.num ++ "/" ++ toString r.den

def showRats (l : List Rat) : String := " ".intercalate (l.map showRat)

def rabs (x : Rat) : Rat := if x < 0 then -x else x
def rmin (x y : Rat) : Rat := if y < x then y else x   -- std::min(a,b): (b<a)?b:a
def rmax (x y : Rat) : Rat := if x < y then y else x   -- std::max(a,b): (a<b)?b:a

/-- round to the nearest multiple of 2^-k (ties up); used only by the driver to keep
    iterative models bounded, never inside an exactness theorem. -/
def rndK (k : Nat) (x : Rat) : Rat :=
  let s : Rat := pow2 (k : Int)
  ((x * s + 1/2).floor : Rat) / s

/-! ## Argument cursor: a tiny parser over the token list -/

abbrev P := StateT (List String) Option

def tok : P String := fun s => match s with
  | [] => none
  | t :: r => some (t, r)

def pNat : P Nat := do let t ← tok; match t.toNat? with | some n => pure n | none => failure
def pInt : P Int := do let t ← tok; match t.toInt? with | some n => pure n | none => failure
def pRat : P Rat := do let t ← tok; match parseRat t with | some n => pure n | none => failure
def pKw (k : String) : P Unit := do let t ← tok; if t = k then pure () else failure

def pMany {α} (p : P α) : Nat → P (List α)
  | 0 => pure []
  | n + 1 => do let a ← p; let r ← pMany p n; pure (a :: r)

/-- length-prefixed list -/
def pList {α} (p : P α) : P (List α) := do let n ← pNat; pMany p n
def pRats : P (List Rat) := pList pRat

def pEnd : P Unit := fun s => match s with | [] => some ((), []) | _ => none

def runP {α} (p : P α) (args : List String) : Option α :=
  match (do let a ← p; pEnd; pure a : P α) args with
  | some (a, _) => some a
  | none => none

end Lp
