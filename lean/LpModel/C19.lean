/-
  C19 — partition, grid, search, list and summary-statistics helpers.
  Executable model of src/Utilities.cpp (§3, §6), include/libphysica/List_Manipulations.hpp
  and src/Statistics.cpp §5, over exact rationals.  Core-only (no Mathlib).
-/
import LpModel.Basic
namespace Lp.C19

/-! ### Workload_Distribution(workers, tasks) — as coded:
    `index_list[i+1] = index_list[i] + tasks/workers`, then for `i < tasks % workers`:
    `index_list[workers - i] += remainder - i`. -/

/-- first loop: a running sum of `q`, i.e. `i*q` at position `i` -/
def workloadBase (w q : Nat) : List Nat := (List.range (w + 1)).map (fun i => i * q)

/-- second loop -/
def workloadAdd (w r : Nat) (l : List Nat) : List Nat :=
  (List.range r).foldl (fun l i => l.modify (w - i) (· + (r - i))) l

/-- `none`: `workers = 0` divides by zero in the C++ (outside the property's quantifier). -/
def workload (w t : Nat) : Option (List Nat) :=
  if w = 0 then none else some (workloadAdd w (t % w) (workloadBase w (t / w)))

/-! ### Range -/

def rangeAsc (i max step : Int) : Nat → List Int
  | 0 => []
  | f + 1 => if i < max then i :: rangeAsc (i + step) max step f else []

def rangeDesc (i max step : Int) : Nat → List Int
  | 0 => []
  | f + 1 => if i > max then i :: rangeDesc (i - step) max step f else []

/-- `Range(min,max,step)`.  `none` = the C++ loop does not terminate (step ≤ 0 with min < max);
    for `step ≥ 1` the fuel `|max-min|` is enough (theorem `range_spec`). -/
def range (min max step : Int) : Option (List Int) :=
  if min > max ∧ step > 0 then some (rangeDesc min max step (min - max).toNat)
  else if step > 0 then some (rangeAsc min max step (max - min).toNat)
  else if min < max then none
  else some []

/-- `Range(max)` = `Range(0, max, 1)`. -/
def range1 (max : Int) : Option (List Int) := range 0 max 1

/-! ### Linear_Space -/

def linearSpace (min max : Rat) (steps : Nat) : List Rat :=
  if steps < 2 ∨ min = max then [min]
  else
    let step := (max - min) / ((steps : Rat) - 1)
    (List.range steps).map (fun (i : Nat) => min + (i : Rat) * step)

/-! ### Log_Space — `exp` and `log` are parameters (libm is outside the model); the driver does
    not evaluate this definition, it exists for theorem `logSpace_spec`. -/

def logSpace (exp log : Rat → Rat) (min max : Rat) (steps : Nat) : List Rat :=
  if steps < 2 ∨ min = max then [min]
  else
    let logmin := log min
    let dlog := log (max / min) / ((steps : Rat) - 1)
    (List.range steps).map (fun (i : Nat) => exp (logmin + (i : Rat) * dlog))

/-- `Linear_Space` when `max - min` overflows (fix: interpolate between the end points): the points
    `(1 - t)·min + t·max`, `t = i/(steps-1)`.  Over the rationals nothing overflows and this is the same
    list as `linearSpace` (theorem `linearSpace_interp_noop`): the guard is value-neutral. -/
def linearSpaceInterp (min max : Rat) (steps : Nat) : List Rat :=
  if steps < 2 ∨ min = max then [min]
  else (List.range steps).map (fun (i : Nat) =>
    let t := (i : Rat) / ((steps : Rat) - 1)
    (1 - t) * min + t * max)

/-- `Log_Space` after the repair (fix: exact ends, no overflow): the log-step is `log(max/min)/(steps-1)`
    (`log max - log min` when the ratio is not a normal double — the same real number), and each point is
    the nearer end point times `exp` of its log-distance from that end. -/
def logSpace2 (exp log : Rat → Rat) (min max : Rat) (steps : Nat) : List Rat :=
  if steps < 2 ∨ min = max then [min]
  else
    let dlog := log (max / min) / ((steps : Rat) - 1)
    (List.range steps).map (fun (i : Nat) =>
      if 2 * i < steps then min * exp ((i : Rat) * dlog)
      else max * exp (-1 * ((steps - 1 - i : Nat) : Rat) * dlog))

/-! ### Locate_Closest_Location -/

def isSorted : List Rat → Bool
  | [] => true
  | [_] => true
  | a :: b :: r => decide (a ≤ b) && isSorted (b :: r)

/-- `std::upper_bound` on a sorted list: position of the first element `> target`
    (assumed behaviour of the standard library, see trusted base). -/
def upperBound (l : List Rat) (t : Rat) : Nat := (l.takeWhile (fun x => decide (x ≤ t))).length

inductive Err where
  | diag : Err          -- the C++ prints a diagnostic and exits with failure
  deriving DecidableEq, Repr

def locateClosest (l : List Rat) (t : Rat) : Except Err Nat :=
  if l.length = 0 then .error .diag            -- fix 48e4c84: an empty list has no closest location
  else if !isSorted l then .error .diag
  else
    let idx := upperBound l t
    if idx = l.length then .ok (l.length - 1)
    else if idx = 0 then .ok 0
    else
      let d1 := rabs (l.getD (idx - 1) 0 - t)
      let d2 := rabs (l.getD idx 0 - t)
      if d1 < d2 then .ok (idx - 1) else .ok idx

/-! ### List templates (element type with decidable equality) -/

variable {α : Type} [DecidableEq α]

def listsEqual (v1 v2 : List α) : Bool :=
  if v1.length ≠ v2.length then false
  else (List.range v1.length).all (fun i => decide (v1[i]? = v2[i]?))

/-- `Lists_Equal` as coded for an element type whose `!=` is not Leibniz disequality: the loop
    `if(v1[i] != v2[i]) return false` with `a != b` ≡ `!(a == b)` for the element's own `==`
    (`eq`).  The nested overload is `listsEqualBy (listsEqualBy eq)`. -/
def listsEqualBy {β : Type} (eq : β → β → Bool) (v1 v2 : List β) : Bool :=
  if v1.length ≠ v2.length then false
  else (List.range v1.length).all (fun i =>
    match v1[i]?, v2[i]? with
    | some a, some b => eq a b
    | _, _ => true)

/-- A `double` as `operator==` sees it: a finite value is the rational it denotes (so `-0.0` and
    `+0.0` are the same element), the two infinities, and NaN. -/
inductive Dbl where
  | fin (r : Rat)
  | pinf
  | ninf
  | nan
  deriving DecidableEq, Repr

/-- IEEE `==`: NaN compares unequal to everything, itself included. -/
def Dbl.eqv : Dbl → Dbl → Bool
  | .fin a, .fin b => decide (a = b)
  | .pinf, .pinf => true
  | .ninf, .ninf => true
  | _, _ => false

/-- `Lists_Equal(const std::vector<double>&, …)` -/
def listsEqualD (v1 v2 : List Dbl) : Bool := listsEqualBy Dbl.eqv v1 v2

/-- `Lists_Equal(const std::vector<std::vector<double>>&, …)`: forwards to the flat overload row by row -/
def listsEqualDD (v1 v2 : List (List Dbl)) : Bool := listsEqualBy listsEqualD v1 v2

def combine (v1 v2 : List α) : List α := v1 ++ v2

/-- `Transpose_Lists`: `lists[0].size()` columns; ragged input → diagnostic.
    The transpose of zero lists is the empty list (fix 9697404; before, `lists[0]` was read out of bounds). -/
def transposeLists [Inhabited α] (ls : List (List α)) : Except Err (List (List α)) :=
  match ls with
  | [] => .ok []
  | l0 :: _ =>
    let m := l0.length
    if ls.all (fun l => l.length = m) then
      .ok ((List.range m).map (fun j => ls.map (fun l => l.getD j default)))
    else .error .diag

/-- `Sub_List(v,i1,i2)` after the repair of the clamp (inclusive upper index, clamped to
    the last element; an empty source or an empty index range gives the empty list). -/
def subList (v : List α) (i1 : Int) (i2 : Nat) : List α :=
  let a := if i1 < 0 then 0 else i1.toNat
  if v.length = 0 then []
  else
    let b := if i2 ≥ v.length then v.length - 1 else i2
    if a > b then [] else (v.drop a).take (b - a + 1)

def flatten (v : List (List α)) : List α := v.flatten

def listContains (l : List α) (x : α) : Bool := (List.range l.length).any (fun i => decide (l[i]? = some x))

def findIndices (l : List α) (x : α) : List Nat :=
  (List.range l.length).filter (fun i => decide (l[i]? = some x))

/-! ### Summary statistics (exact) -/

def sum (l : List Rat) : Rat := l.foldl (· + ·) 0

/-- `none` where the C++ divides by zero (empty data; single point for the variance). -/
def mean (l : List Rat) : Option Rat := if l.length = 0 then none else some (sum l / l.length)

def variance (l : List Rat) : Option Rat :=
  if l.length < 2 then none
  else
    let m := sum l / l.length
    some (sum (l.map (fun x => (x - m) * (x - m))) / ((l.length : Rat) - 1))

def sortRat (l : List Rat) : List Rat := l.mergeSort (fun a b => decide (a ≤ b))

/-- `Median`: `nth_element` places the element a sort would place (assumed). -/
def median (l : List Rat) : Option Rat :=
  if l.length = 0 then none
  else
    let s := sortRat l
    let n := l.length
    if n % 2 = 0 then some ((s.getD (n / 2 - 1) 0 + s.getD (n / 2) 0) / 2)
    else some (s.getD (n / 2) 0)

/-- `Weighted_Average` returns `{Average, sqrt(SE)}`; the model returns `(Average, SE)`
    (the square of the standard error), the square root is applied on the comparison side. -/
def weightedAverage (d : List (Rat × Rat)) : Option (Rat × Rat) :=
  let n : Rat := d.length
  let s := sum (d.map (fun p => p.2 * p.1))
  let ws := sum (d.map (fun p => p.2))
  if d.length < 2 ∨ ws = 0 then none
  else
    let avg := s / ws
    let wavg := ws / n
    let sum1 := sum (d.map (fun p => (p.2 * p.1 - avg * wavg) ^ 2))
    let sum2 := sum (d.map (fun p => (p.2 - wavg) * (p.2 * p.1 - avg * wavg)))
    let sum3 := sum (d.map (fun p => (p.2 - wavg) ^ 2))
    some (avg, n / (n - 1) / ws / ws * (sum1 - 2 * avg * sum2 + avg ^ 2 * sum3))

/-! ### DataPoint (src/Statistics.cpp §4): the ordering operators compare the *value* only -/

structure DP where
  value : Rat
  weight : Rat
  deriving DecidableEq, Repr

/-- `operator<(DataPoint, DataPoint)` -/
def dpLt (a b : DP) : Bool := decide (a.value < b.value)
/-- `operator>` -/
def dpGt (a b : DP) : Bool := decide (a.value > b.value)
/-- `operator==`: equal values; the weights are not looked at -/
def dpEq (a b : DP) : Bool := decide (a.value = b.value)

/-- `std::sort(data.begin(), data.end())` (as in `Perform_KDE`) orders with `operator<`: the result is a
    permutation sorted by value (assumed behaviour of the standard library; the relative order of points with
    equal values is unspecified — `std::sort` is not stable — and is not part of the model's claim). -/
def sortDP (l : List DP) : List DP := l.mergeSort (fun a b => !dpLt b a)

/-- `std::sort(…, std::greater<DataPoint>())` orders with `operator>` -/
def sortDPDesc (l : List DP) : List DP := l.mergeSort (fun a b => !dpGt b a)

/-- `std::count(data.begin(), data.end(), x)` counts with `operator==` -/
def countDP (l : List DP) (x : DP) : Nat := (l.filter (fun a => dpEq a x)).length

/-! ### The guards of the summary statistics (fix 67d359e): too short a data list stops with a diagnostic.
    `mean`, `median`, `variance`, `weightedAverage` above are the computations (their `none` is exactly the
    guarded case, except `weightedAverage`'s vanishing weight sum, which still divides by zero). -/

def meanE (l : List Rat) : Except Err Rat :=
  if l.length = 0 then .error .diag else .ok (sum l / l.length)

def medianE (l : List Rat) : Except Err Rat :=
  if l.length = 0 then .error .diag
  else
    let s := sortRat l
    let n := l.length
    if n % 2 = 0 then .ok ((s.getD (n / 2 - 1) 0 + s.getD (n / 2) 0) / 2)
    else .ok (s.getD (n / 2) 0)

def varianceE (l : List Rat) : Except Err Rat :=
  if l.length < 2 then .error .diag
  else
    let m := sum l / l.length
    .ok (sum (l.map (fun x => (x - m) * (x - m))) / ((l.length : Rat) - 1))

/-- `Standard_Deviation = sqrt(Variance)`: the model returns the square; same guard. -/
def stdDevSqE (l : List Rat) : Except Err Rat := varianceE l

/-- inner `none`: the weights sum to zero (division by zero, outside the property) -/
def weightedAverageE (d : List (Rat × Rat)) : Except Err (Option (Rat × Rat)) :=
  if d.length < 2 then .error .diag else .ok (weightedAverage d)

end Lp.C19
