/-
  C04 — Vector and matrix algebra (src/Linear_Algebra.cpp §1 and §3,
  include/libphysica/Linear_Algebra.hpp), exact rationals, core-only (no Mathlib).

  Shared: C05 (Determinant / Inverse) and the C15/C16 models import this file.  Keep the API
  stable:  `Vec`, `Mat` (rows, cols, data), `Mat.WellShaped`, `Mat.get`, `Mat.ofFn`, `Mat.row`,
  `Mat.col`, `plus minus mul smul sdiv transpose matVec vecMat identity subMatrix outer dot cross`.

  Representation: `Vector` = `components` (the field `dimension` always equals
  `components.size()`; every constructor and `Resize/Assign` keeps it so), `Matrix` =
  `rows`, `columns`, `components` (row-major) with the invariant `WellShaped`.
  Every C++ loop of the form `for i<rows for j<columns  result[i][j] = e(i,j)` is the tabulation
  `Mat.ofFn rows columns e`; accumulating loops (`+=` over `k`) are left folds over `List.range`
  in the order of the C++.  Guards (`std::exit(EXIT_FAILURE)` after a message on `std::cerr`)
  are `Except.error Err.diag`; requests on which the C++ has undefined behaviour are `Err.undef`.
  As coded after the fix commits 9df8ec7 (shape test of Plus, Minus, +=, -=) and
  2a3ba6f (Vector += and -=, Cross, operator[] guards).
-/
import LpModel.Basic
namespace Lp.C04

inductive Err where
  | diag : Err     -- the C++ prints a diagnostic and exits with failure
  | undef : Err    -- undefined behaviour in the C++ (outside every quantifier; never compared)
  deriving DecidableEq, Repr

abbrev Vec := List Rat

structure Mat where
  rows : Nat
  cols : Nat
  data : List (List Rat)
  deriving DecidableEq, Repr

namespace Mat

/-- representation invariant of `libphysica::Matrix` (Linear_Algebra.hpp:68-69) -/
def WellShaped (A : Mat) : Prop := A.data.length = A.rows ∧ ∀ r ∈ A.data, r.length = A.cols

def wellShapedB (A : Mat) : Bool :=
  decide (A.data.length = A.rows) && A.data.all (fun r => decide (r.length = A.cols))

/-- `components[i]` (`[]` outside the stored range; guarded accesses never get there) -/
def row (A : Mat) (i : Nat) : List Rat := A.data.getD i []

/-- `components[i][j]` -/
def get (A : Mat) (i j : Nat) : Rat := (A.row i).getD j 0

def col (A : Mat) (j : Nat) : List Rat := (List.range A.rows).map (fun i => A.get i j)

/-- tabulation: the double loop `result[i][j] = f i j` -/
def ofFn (m n : Nat) (f : Nat → Nat → Rat) : Mat :=
  ⟨m, n, (List.range m).map (fun i => (List.range n).map (fun j => f i j))⟩

/-- a result built as `std::vector<std::vector<double>> result_components(m, std::vector<double>(n))`,
    filled by the double loop and handed to `Matrix(std::vector<std::vector<double>>)`: that
    constructor takes the column count from the first row, so a result without rows is `0 × 0`
    (shapes with a zero dimension are outside the property's quantifier; modelled as coded) -/
def ofFnE (m n : Nat) (f : Nat → Nat → Rat) : Mat := ofFn m (if m = 0 then 0 else n) f

/-- `Matrix(dim_rows, dim_columns, entry)` -/
def const (m n : Nat) (e : Rat) : Mat := ofFn m n (fun _ _ => e)

end Mat

open Mat

/-- accumulating loop `for k<n: acc += t k`, in the C++ order -/
def sumRange (n : Nat) (t : Nat → Rat) : Rat := (List.range n).foldl (fun acc k => acc + t k) 0

/-! ## Vector (§1) -/

/-- `Vector::Dot` (and `operator*(Vector)`) -/
def dot (u v : Vec) : Except Err Rat :=
  if u.length ≠ v.length then .error .diag
  else .ok (sumRange u.length (fun i => u.getD i 0 * v.getD i 0))

/-- `Vector::Cross` -/
def cross (u v : Vec) : Except Err Vec :=
  if u.length ≠ 3 ∨ v.length ≠ 3 then .error .diag
  else .ok [u.getD 1 0 * v.getD 2 0 - u.getD 2 0 * v.getD 1 0,
            u.getD 2 0 * v.getD 0 0 - u.getD 0 0 * v.getD 2 0,
            u.getD 0 0 * v.getD 1 0 - u.getD 1 0 * v.getD 0 0]

def vtab (n : Nat) (f : Nat → Rat) : Vec := (List.range n).map f

/-- `Vector::operator+` -/
def vadd (u v : Vec) : Except Err Vec :=
  if u.length ≠ v.length then .error .diag else .ok (vtab u.length (fun i => u.getD i 0 + v.getD i 0))

/-- `Vector::operator-` -/
def vsub (u v : Vec) : Except Err Vec :=
  if u.length ≠ v.length then .error .diag else .ok (vtab u.length (fun i => u.getD i 0 - v.getD i 0))

/-- in-place loop `components[i] op= v[i]` for `i < dimension`: element `i` is rewritten -/
def vUpdLoop (op : Rat → Rat → Rat) (u v : Vec) : Vec :=
  (List.range u.length).foldl (fun w i => w.set i (op (w.getD i 0) (v.getD i 0))) u

/-- `Vector::operator+=` (guarded since 2a3ba6f) -/
def vaddAssign (u v : Vec) : Except Err Vec :=
  if u.length ≠ v.length then .error .diag else .ok (vUpdLoop (· + ·) u v)

/-- `Vector::operator-=` (guarded since 2a3ba6f) -/
def vsubAssign (u v : Vec) : Except Err Vec :=
  if u.length ≠ v.length then .error .diag else .ok (vUpdLoop (· - ·) u v)

/-- `Vector::operator*(double)` and the free `operator*(double, Vector)` (`v[i]*s`) -/
def vsmul (u : Vec) (s : Rat) : Vec := vtab u.length (fun i => u.getD i 0 * s)

/-- `Vector::operator/(double)`; `s = 0` is IEEE inf/nan in the C++ — the driver answers `undef` -/
def vsdiv (u : Vec) (s : Rat) : Vec := vtab u.length (fun i => u.getD i 0 / s)

/-- `operator==(Vector, Vector)` -/
def veq (u v : Vec) : Bool :=
  if u.length ≠ v.length then false
  else (List.range u.length).all (fun i => decide (u.getD i 0 = v.getD i 0))

/-- `Norm()²` (the square root is outside the rational model; see [T2] in DESIGN.md) -/
def vnormSq (u : Vec) : Rat := sumRange u.length (fun i => u.getD i 0 * u.getD i 0)

/-- `Norm()²` as coded since fix 8a680df: the components are scaled by `2^-e` (`e` the binary
    exponent of the largest magnitude, any integer here), squared and summed, and the root is
    scaled back by `2^e` — so the square of the result is `(2^e)² · Σ (xᵢ·2^-e)²`.  Value-neutral
    over the rationals (theorem `vnormScaledSq_eq`); in floating point it avoids overflow and
    underflow of the squares.  `largest = 0` returns 0 (= the same value). -/
def vnormScaledSq (e : Int) (u : Vec) : Rat :=
  let sc : Rat := (2 : Rat) ^ (-e)
  let up : Rat := (2 : Rat) ^ e
  (up * up) * sumRange u.length (fun i => (u.getD i 0 * sc) * (u.getD i 0 * sc))

/-- `Vector::operator[]` -/
def vget (u : Vec) (i : Nat) : Except Err Rat := if i ≥ u.length then .error .diag else .ok (u.getD i 0)

/-! ## Matrix constructors (§3) -/

/-- `Matrix(std::vector<std::vector<double>>)`: ragged input is rejected; no rows ⇒ 0×0 -/
def ofRows (e : List (List Rat)) : Except Err Mat :=
  let c := (e.headD []).length
  if e.all (fun r => decide (r.length = c)) then .ok ⟨e.length, c, e⟩ else .error .diag

/-- `Matrix(std::vector<double> diagonal_entries)` -/
def diagM (d : Vec) : Mat := ofFn d.length d.length (fun i j => if i = j then d.getD i 0 else 0)

/-- `Identity_Matrix(dim)` = `Matrix(std::vector<double>(dim, 1.0))` -/
def identity (n : Nat) : Mat := diagM (List.replicate n 1)

/-- `locate sizes i` = (block index, offset inside the block) of global index `i` for consecutive
    blocks of the given sizes (the offsets `std::accumulate(block_rows.begin(), …+row, 0)`) -/
def locate : List Nat → Nat → Nat × Nat
  | [], i => (0, i)
  | s :: r, i => if i < s then (0, i) else let p := locate r (i - s); (p.1 + 1, p.2)

def listSum (l : List Nat) : Nat := l.foldl (· + ·) 0

/-- the validity test of the block constructor (lines 357-365): every block has as many
    columns as the block above it and as many rows as the block to its left -/
def blockValid (g : List (List Mat)) : Bool :=
  (List.range g.length).all fun r =>
    (List.range (g.getD r []).length).all fun c =>
      let B := (g.getD r []).getD c ⟨0, 0, []⟩
      (r = 0 || decide (B.cols = ((g.getD (r - 1) []).getD c ⟨0, 0, []⟩).cols)) &&
      (c = 0 || decide (B.rows = ((g.getD r []).getD (c - 1) ⟨0, 0, []⟩).rows))

/-- the layout test of the block constructor (fix f27d82c): at least one row of blocks, and every
    row holds the same non-zero number of blocks -/
def blockLayoutOk (g : List (List Mat)) : Bool :=
  let nc := (g.headD []).length
  decide (g.length ≠ 0) && decide (nc ≠ 0) && g.all (fun r => decide (r.length = nc))

/-- `Matrix(std::vector<std::vector<Matrix>>)`.  First the layout test (an empty or ragged list of
    blocks is rejected with a diagnostic since f27d82c), then the dimension test, then every block
    is copied to its offset; since all blocks of a block row have the same number of rows and all
    blocks of a block column the same number of columns, the copies tile the result, so entry
    `(i,j)` is the entry of the block that `locate` finds. -/
def blockCtor (g : List (List Mat)) : Except Err Mat :=
  if !blockLayoutOk g then .error .diag
  else if !blockValid g then .error .diag
  else
    let rs := g.map (fun r => (r.headD ⟨0, 0, []⟩).rows)
    let cs := (g.headD []).map (fun B => B.cols)
    .ok (ofFn (listSum rs) (listSum cs) (fun i j =>
      let p := locate rs i
      let q := locate cs j
      ((g.getD p.1 []).getD q.1 ⟨0, 0, []⟩).get p.2 q.2))

/-! ## Size and components -/

/-- `Delete_Row(unsigned)` -/
def deleteRow (A : Mat) (r : Nat) : Except Err Mat :=
  if r ≥ A.rows then .error .diag else .ok ⟨A.rows - 1, A.cols, A.data.eraseIdx r⟩

/-- `Delete_Column(unsigned)` -/
def deleteCol (A : Mat) (c : Nat) : Except Err Mat :=
  if c ≥ A.cols then .error .diag else .ok ⟨A.rows, A.cols - 1, A.data.map (fun r => r.eraseIdx c)⟩

/-- `int → unsigned int` conversion of an argument -/
def toU32 (i : Int) : Nat := (i % 4294967296).toNat

/-- `Sub_Matrix(int row, int column)`: copy, `Delete_Row`, `Delete_Column` -/
def subMatrix (A : Mat) (r c : Int) : Except Err Mat := do
  let B ← deleteRow A (toU32 r)
  deleteCol B (toU32 c)

/-- `Sub_Matrix` for in-range natural indices, total (used by the Laplace expansion) -/
def subMatrixN (A : Mat) (r c : Nat) : Mat :=
  ⟨A.rows - 1, A.cols - 1, (A.data.eraseIdx r).map (fun row => row.eraseIdx c)⟩

/-- `Return_Row` -/
def returnRow (A : Mat) (r : Nat) : Except Err Vec :=
  if r ≥ A.rows then .error .diag else .ok (A.row r)

/-! ## Binary operations -/

/-- `Plus` / `operator+` (shape test as fixed by 9df8ec7) -/
def plus (A B : Mat) : Except Err Mat :=
  if A.rows ≠ B.rows ∨ A.cols ≠ B.cols then .error .diag
  else .ok (ofFnE A.rows A.cols (fun i j => A.get i j + B.get i j))

/-- `Minus` / `operator-` -/
def minus (A B : Mat) : Except Err Mat :=
  if A.rows ≠ B.rows ∨ A.cols ≠ B.cols then .error .diag
  else .ok (ofFnE A.rows A.cols (fun i j => A.get i j - B.get i j))

/-- write `components[i][j] = v` -/
def setEntry (d : List (List Rat)) (i j : Nat) (v : Rat) : List (List Rat) :=
  d.set i ((d.getD i []).set j v)

/-- in-place double loop `components[i][j] op= M[i][j]` -/
def mUpdLoop (op : Rat → Rat → Rat) (A B : Mat) : Mat :=
  ⟨A.rows, A.cols,
    (List.range A.rows).foldl (fun d i =>
      (List.range A.cols).foldl (fun d j =>
        setEntry d i j (op ((d.getD i []).getD j 0) (B.get i j))) d) A.data⟩

/-- `operator+=` -/
def plusAssign (A B : Mat) : Except Err Mat :=
  if A.rows ≠ B.rows ∨ A.cols ≠ B.cols then .error .diag else .ok (mUpdLoop (· + ·) A B)

/-- `operator-=` -/
def minusAssign (A B : Mat) : Except Err Mat :=
  if A.rows ≠ B.rows ∨ A.cols ≠ B.cols then .error .diag else .ok (mUpdLoop (· - ·) A B)

/-- `Product(double)`, `operator*(double)`, free `operator*(double, Matrix)` (`s * a_ij`) -/
def smul (s : Rat) (A : Mat) : Mat := ofFnE A.rows A.cols (fun i j => s * A.get i j)

/-- `Division(double)`, `operator/(double)`; `s = 0`: the driver answers `undef` -/
def sdiv (A : Mat) (s : Rat) : Mat := ofFnE A.rows A.cols (fun i j => A.get i j / s)

/-- `Product(const Matrix&)`: the triple loop `result[i][j] += a[i][k]*M[k][j]`, `k < columns` -/
def mul (A B : Mat) : Except Err Mat :=
  if A.cols ≠ B.rows then .error .diag
  else .ok (ofFn A.rows B.cols (fun i j => sumRange A.cols (fun k => A.get i k * B.get k j)))

/-- `Product(const Vector&)` -/
def matVec (A : Mat) (v : Vec) : Except Err Vec :=
  if v.length ≠ A.cols then .error .diag
  else .ok (vtab A.rows (fun i => sumRange A.cols (fun j => A.get i j * v.getD j 0)))

/-- free `operator*(const Vector&, const Matrix&)` -/
def vecMat (v : Vec) (A : Mat) : Except Err Vec :=
  if v.length ≠ A.rows then .error .diag
  else .ok (vtab A.cols (fun i => sumRange A.rows (fun j => v.getD j 0 * A.get j i)))

/-- `Outer_Vector_Product` -/
def outer (u v : Vec) : Mat := ofFn u.length v.length (fun i j => u.getD i 0 * v.getD j 0)

/-! ## Properties -/

def square (A : Mat) : Bool := decide (A.rows = A.cols)

/-- the upper-triangle loop `for i<rows for j=i..columns-1` with early `return false` -/
def upperAll (A : Mat) (p : Nat → Nat → Bool) : Bool :=
  (List.range A.rows).all fun i => (List.range (A.cols - i)).all fun d => p i (i + d)

def symmetric (A : Mat) : Bool :=
  square A && upperAll A (fun i j => decide (A.get i j = A.get j i))

def antisymmetric (A : Mat) : Bool :=
  square A && upperAll A (fun i j => decide (A.get i j = -1 * A.get j i))

def diagonal (A : Mat) : Bool :=
  square A && (List.range A.rows).all fun i => (List.range A.cols).all fun j =>
    !(decide (i ≠ j) && decide (A.get i j ≠ 0))

/-! ## Operations -/

/-- `Transpose` -/
def transpose (A : Mat) : Mat := ofFnE A.cols A.rows (fun i j => A.get j i)

/-- `Return_Column` = `Transpose().Return_Row(column)` -/
def returnCol (A : Mat) (c : Nat) : Except Err Vec :=
  if c ≥ A.cols then .error .diag else returnRow (transpose A) c

/-- `Trace` -/
def trace (A : Mat) : Except Err Rat :=
  if A.rows ≠ A.cols then .error .diag else .ok (sumRange A.rows (fun i => A.get i i))

/-- `Norm()²` (Frobenius) -/
def normSq (A : Mat) : Rat :=
  sumRange A.rows (fun i => sumRange A.cols (fun j => A.get i j * A.get i j))
/- NB the C++ accumulates into one variable over both loops; in exact arithmetic the nested
   sums are the same number (`normSq_flat` in the proofs is not needed by any clause). -/

/-- `Matrix::Norm()²` computed in the scaled domain like `Vector::Norm` (entries times `2^-e`,
    squared, summed, scaled back): value-neutral over the rationals (theorem `normScaledSq_eq`) -/
def normScaledSq (e : Int) (A : Mat) : Rat :=
  let sc : Rat := (2 : Rat) ^ (-e)
  let up : Rat := (2 : Rat) ^ e
  (up * up) * sumRange A.rows (fun i => sumRange A.cols (fun j => (A.get i j * sc) * (A.get i j * sc)))

/-- `operator==(Matrix, Matrix)` -/
def meq (A B : Mat) : Bool :=
  if A.rows ≠ B.rows ∨ A.cols ≠ B.cols then false
  else (List.range A.rows).all fun i => (List.range A.cols).all fun j => decide (A.get i j = B.get i j)

/-- `Matrix::operator[]` followed by `std::vector::operator[]` (the second is unguarded: UB) -/
def mget (A : Mat) (i j : Nat) : Except Err Rat :=
  if i ≥ A.rows then .error .diag else if j ≥ A.cols then .error .undef else .ok (A.get i j)

end Lp.C04
