/-
  C04 — object histories.  A `Vector` / `Matrix` object of the C++ is, in the model, nothing but
  its current value (`Vec` / `Mat`): there is no other state.  A history is a sequence of member
  calls on ONE object; mutators return the new value, observers are functions of the current
  value only.  `runS` threads the value through the sequence and collects what the observers
  report.  (History independence of every observer is therefore by construction; the
  correspondence run checks that the C++ object behaves the same — e.g. no stale cached norm.)
  Core-only.
-/
import LpModel.C04
import LpModel.C05
namespace Lp.C04.Hist
open Lp.C04 Lp.C04.Mat

/-- generic runner: `step` gives the new state and the values reported -/
def runS {σ ο : Type} (step : σ → ο → Except Err (σ × List Rat)) : σ → List ο → Except Err (σ × List Rat)
  | s, [] => .ok (s, [])
  | s, o :: r =>
    match step s o with
    | .error e => .error e
    | .ok (s1, out1) =>
      match runS step s1 r with
      | .error e => .error e
      | .ok (s2, out2) => .ok (s2, out1 ++ out2)

/-- exact square root of a rational that is a perfect square (else `none`) -/
def ratSqrt? (q : Rat) : Option Rat :=
  if q < 0 then none
  else
    let n := q.num.toNat
    let d := q.den
    let sn := Nat.sqrt n
    let sd := Nat.sqrt d
    if sn * sn = n ∧ sd * sd = d then some ((sn : Rat) / (sd : Rat)) else none

/-! ## Vector -/

inductive VOp where
  | norm | dotSelf | size | normalized | normalize        -- N D S M U
  | read (i : Nat) | write (i : Nat) (x : Rat)             -- R W
  | addA (u : Vec) | subA (u : Vec) | set (u : Vec) | copySub (u : Vec)   -- + - = C
  | resize (n : Nat) | assign (n : Nat) (e : Rat)          -- Z A

/-- `std::vector::resize(n)`: truncate or pad with zeros -/
def vresize (v : Vec) (n : Nat) : Vec := v.take n ++ List.replicate (n - v.length) 0

/-- division in the scaled domain (fix a1cdfe7): `ldexp(xᵢ, -e) / scaled_norm` with
    `scaled_norm = norm · 2^-e`; value-neutral over the rationals (theorem `vdivScaled_eq`) -/
def vdivScaled (e : Int) (v : Vec) (nrm : Rat) : Vec :=
  vtab v.length (fun i => (v.getD i 0 * (2 : Rat) ^ (-e)) / (nrm * (2 : Rat) ^ (-e)))

/-- `v / Norm()`; the norm must be a non-zero rational (else outside the model: `undef`) -/
def vnormalized (v : Vec) : Except Err Vec :=
  match ratSqrt? (vnormSq v) with
  | none => .error .undef
  | some nrm => if nrm = 0 then .error .undef else .ok (vdivScaled 0 v nrm)

def vStep (v : Vec) : VOp → Except Err (Vec × List Rat)
  | .norm => .ok (v, [vnormSq v])                          -- reported as the square
  | .dotSelf => match dot v v with | .ok d => .ok (v, [d]) | .error e => .error e
  | .size => .ok (v, [(v.length : Rat)])
  | .normalized => match vnormalized v with | .ok w => .ok (v, w) | .error e => .error e
  | .normalize => match vnormalized v with | .ok w => .ok (w, []) | .error e => .error e
  | .read i => match vget v i with | .ok x => .ok (v, [x]) | .error e => .error e
  | .write i x => if i ≥ v.length then .error .diag else .ok (v.set i x, [])
  | .addA u => match vaddAssign v u with | .ok w => .ok (w, []) | .error e => .error e
  | .subA u => match vsubAssign v u with | .ok w => .ok (w, []) | .error e => .error e
  | .set u => .ok (u, [])
  | .copySub u =>   -- `Vector w(v); w -= u;` then `w.Norm()`, `v.Norm()`
    match vsubAssign v u with | .ok w => .ok (v, [vnormSq w, vnormSq v]) | .error e => .error e
  | .resize n => .ok (vresize v n, [])
  | .assign n e => .ok (List.replicate n e, [])

def vRun (v : Vec) (ops : List VOp) : Except Err (List Rat) :=
  match runS vStep v ops with | .ok (_, out) => .ok out | .error e => .error e

/-! ## Matrix -/

inductive MOp where
  | norm | trace | det | transposed | symmetric | shape    -- N T D P Y S
  | read (i j : Nat) | write (i j : Nat) (x : Rat)         -- R W
  | addA (B : Mat) | subA (B : Mat) | set (B : Mat) | copySub (B : Mat)   -- + - = C
  | resize (r c : Nat) | assign (r c : Nat) (e : Rat)      -- Z A
  | delRow (i : Nat) | delCol (j : Nat)                    -- DR DC
  | retRow (i : Nat) | retCol (j : Nat) | subM (i j : Nat) -- RR RC SM
  | orthogonal | invertible | antisym | diag               -- O I AY DG

/-- `Matrix::Resize(row, col)`: `components.resize(row)` then every row `.resize(col)` -/
def mresize (A : Mat) (r c : Nat) : Mat :=
  ⟨r, c, (A.data.take r ++ List.replicate (r - A.data.length) []).map (fun row => vresize row c)⟩

def flat (A : Mat) : List Rat := A.data.foldr (· ++ ·) []

/-- `Matrix::Orthogonal`: `Invertible() && Transpose() == Inverse()` -/
def orthogonal (A : Mat) : Except Err Bool :=
  if !C05.invertible A then .ok false
  else match C05.inverse A with
    | .ok X => .ok (meq (transpose A) X)
    | .error e => .error e

def mStep (A : Mat) : MOp → Except Err (Mat × List Rat)
  | .norm => .ok (A, [normSq A])                           -- reported as the square
  | .trace => match C04.trace A with | .ok t => .ok (A, [t]) | .error e => .error e
  | .det => match C05.det A with | .ok d => .ok (A, [d]) | .error e => .error e
  | .transposed => let T := transpose A; .ok (A, [(T.rows : Rat), (T.cols : Rat)] ++ flat T)
  | .symmetric => .ok (A, [if symmetric A then 1 else 0])
  | .shape => .ok (A, [(A.rows : Rat), (A.cols : Rat)])
  | .read i j => match mget A i j with | .ok x => .ok (A, [x]) | .error e => .error e
  | .write i j x =>
    if i ≥ A.rows then .error .diag else if j ≥ A.cols then .error .undef
    else .ok (⟨A.rows, A.cols, setEntry A.data i j x⟩, [])
  | .addA B => match plusAssign A B with | .ok C => .ok (C, []) | .error e => .error e
  | .subA B => match minusAssign A B with | .ok C => .ok (C, []) | .error e => .error e
  | .set B => .ok (B, [])
  | .copySub B =>
    match minusAssign A B with | .ok C => .ok (A, [normSq C, normSq A]) | .error e => .error e
  | .resize r c => .ok (mresize A r c, [])
  | .assign r c e => .ok (Mat.const r c e, [])
  | .delRow i => match deleteRow A i with | .ok C => .ok (C, []) | .error e => .error e
  | .delCol j => match deleteCol A j with | .ok C => .ok (C, []) | .error e => .error e
  | .retRow i => match returnRow A i with | .ok v => .ok (A, v) | .error e => .error e
  | .retCol j => match returnCol A j with | .ok v => .ok (A, v) | .error e => .error e
  | .subM i j =>
    match subMatrix A (i : Int) (j : Int) with
    | .ok B => .ok (A, [(B.rows : Rat), (B.cols : Rat)] ++ flat B)
    | .error e => .error e
  | .orthogonal => match orthogonal A with | .ok b => .ok (A, [if b then 1 else 0]) | .error e => .error e
  | .invertible => .ok (A, [if C05.invertible A then 1 else 0])
  | .antisym => .ok (A, [if antisymmetric A then 1 else 0])
  | .diag => .ok (A, [if diagonal A then 1 else 0])

def mRun (A : Mat) (ops : List MOp) : Except Err (List Rat) :=
  match runS mStep A ops with | .ok (_, out) => .ok out | .error e => .error e


/-! ## Chained compound assignment `(x += b) -= c …`

`operator+=` / `operator-=` return a reference to the object they modified, so every further
compound assignment applied to the returned object acts on `x` itself: the chain is the
sequential application of its steps to the one value. -/

/-- `((x ⊕₀ b₀) ⊕₁ b₁) …` with `⊕ = +=` (`true`) or `-=` (`false`); the result is what `x` holds afterwards -/
def mChain (x : Mat) : List (Bool × Mat) → Except Err Mat
  | [] => .ok x
  | (pl, b) :: r =>
    match (if pl then plusAssign x b else minusAssign x b) with
    | .ok y => mChain y r
    | .error e => .error e

def vChain (x : Vec) : List (Bool × Vec) → Except Err Vec
  | [] => .ok x
  | (pl, b) :: r =>
    match (if pl then vaddAssign x b else vsubAssign x b) with
    | .ok y => vChain y r
    | .error e => .error e


/-! ## Aliasing spellings: the operand is the object itself -/

/-- `A += A` / `A -= A` (every entry is read before it is written), `S = S*S`, `v = v*S`, `v += v` -/
def aliasM (kind : String) (A : Mat) : Except Err Mat :=
  if kind = "pa" then plusAssign A A
  else if kind = "ma" then minusAssign A A
  else if kind = "ss" then mul A A
  else .error .undef

def aliasV (kind : String) (v : Vec) (S : Mat) : Except Err Vec :=
  if kind = "vs" then vecMat v S
  else if kind = "vv" then vaddAssign v v
  else .error .undef


/-! ## Moves: a moved-to object holds the value of its source

`std::swap(A,B)`, `Matrix C(std::move(A))`, `push_back` of a temporary into a `std::vector<Matrix>`
and returning a by-value parameter all construct an object from an rvalue.  The object is its value,
so the new object is the source value — shape and entries (the library declares no move
constructor; the implicit copy is used, and any move constructor must agree with it). -/

/-- what the named objects hold after the operation, in the order the harness reports them -/
def mMoves (kind : String) (A B : Mat) : Except Err (List Mat) :=
  if kind = "swap" then .ok [B, A]              -- std::swap(A, B): A, B afterwards
  else if kind = "move" then .ok [A]            -- Matrix C(std::move(A)): C
  else if kind = "push" then .ok [A, B]         -- v.push_back(Matrix(A)); v.push_back(Matrix(B)): v[0], v[1]
  else if kind = "ret" then .ok [A]             -- pass(A) with `Matrix pass(Matrix m) { return m; }`
  else if kind = "assign" then .ok [A]          -- C = std::move(A) through operator=(Matrix)
  else if kind = "blocks" then                  -- block constructor on a list of blocks filled by push_back of temporaries
    match blockCtor [[A, B]] with
    | .ok C => .ok [C]
    | .error e => .error e
  else .error .undef

def vMoves (kind : String) (u v : Vec) : Except Err (List Vec) :=
  if kind = "swap" then .ok [v, u]
  else if kind = "move" then .ok [u]
  else if kind = "push" then .ok [u, v]
  else if kind = "ret" then .ok [u]
  else if kind = "assign" then .ok [u]
  else .error .undef

end Lp.C04.Hist
