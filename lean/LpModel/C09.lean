/-
  C09 — interpolation results do not depend on the history of earlier calls.
  Operations on an interpolation object and the run of a call history, through the shared
  model `Lp.Interp` (src/Numerics.cpp §1) with the search state `LState` threaded exactly as
  the C++ members `jLast` / `correlated_calls` are.  Core-only.
-/
import LpModel.Interp
namespace Lp.C09
open Lp.Interp

/-- one call on a 1-D object -/
inductive Op where
  | interp (x : Rat)
  | deriv (x : Rat) (k : Nat)
  | integ (a b : Rat)
  | locmin (a b : Rat)
  | locmax (a b : Rat)
  | globmin
  | globmax
  | locate (x : Rat)
  | setpref (p : Rat)
  | mult (p : Rat)
  | copy
  deriving Repr

/-- what a call returns -/
inductive Ans where
  | idx (j : Nat)
  | val (v : Rat)
  | unit
  deriving DecidableEq, Repr

/-- wrap the value of a query -/
def liftAns {α : Type} (f : α → Ans) (r : Except Err (α × Obj)) : Except Err (Ans × Obj) :=
  match r with
  | .ok (v, o') => .ok (f v, o')
  | .error e => .error e

/-- one call: the answer and the object afterwards.  `copy` is `obj = Interpolation(obj)`:
    the copy constructor / assignment copy every member, search state included. -/
def step [SqrtFn] (o : Obj) : Op → Except Err (Ans × Obj)
  | .interp x => liftAns .val (o.interpolate x)
  | .deriv x k => liftAns .val (o.derivative x k)
  | .integ a b => liftAns .val (o.integrate a b)
  | .locmin a b => liftAns .val (o.localExt false a b)
  | .locmax a b => liftAns .val (o.localExt true a b)
  | .globmin => .ok (.val (o.globalExt false), o)
  | .globmax => .ok (.val (o.globalExt true), o)
  | .locate x => liftAns .idx (o.locate x)
  | .setpref p => .ok (.unit, o.setPrefactor p)
  | .mult p => .ok (.unit, o.multiply p)
  | .copy => .ok (.unit, o)

/-- a call history; the first failing call terminates the process -/
def run [SqrtFn] (o : Obj) : List Op → Except Err (List Ans × Obj)
  | [] => .ok ([], o)
  | op :: r => match step o op with
    | .error e => .error e
    | .ok (a, o') => match run o' r with
      | .error e => .error e
      | .ok (as, o'') => .ok (a :: as, o'')

/-- the object after a history -/
def after [SqrtFn] (o : Obj) (h : List Op) : Except Err Obj :=
  match run o h with
  | .ok (_, o') => .ok o'
  | .error e => .error e

/-- the answer to a single query -/
def answer [SqrtFn] (o : Obj) (q : Op) : Except Err Ans :=
  match step o q with
  | .ok (a, _) => .ok a
  | .error e => .error e

/-- the prefactor a history leaves behind, starting from `p` -/
def prefAfter (p : Rat) : List Op → Rat
  | [] => p
  | .setpref q :: r => prefAfter q r
  | .mult q :: r => prefAfter (p * q) r
  | _ :: r => prefAfter p r

/-! ### Instrumentation for the driver (coverage only): which search the next look-up uses -/

/-- `x` out of range (1 % zone or diagnostic), `b` bisection, `u` hunt up, `d` hunt down, `e` equal to x[jLast] -/
def mode (o : Obj) (v : Rat) : String :=
  if v < o.x 0 ∨ v > o.x (o.N - 1) then "x"
  else if !o.st.corr then "b"
  else if v > o.x o.st.jLast then "u"
  else if v < o.x o.st.jLast then "d"
  else "e"

def Op.firstAbscissa : Op → Option Rat
  | .interp x => some x
  | .deriv x _ => some x
  | .integ a b => some (if a > b then b else a)
  | .locmin a _ => some a
  | .locmax a _ => some a
  | .locate x => some x
  | _ => none

/-! ### Two-dimensional object -/

inductive Op2 where
  | interp (x y : Rat)
  | globmin
  | globmax
  | setpref (p : Rat)
  | mult (p : Rat)
  | copy
  /-- copies are queried at `(x,y)` while the source is overwritten / destroyed; afterwards the
      source is a newly constructed object of the same table and prefactor -/
  | clobber (x y : Rat)
  deriving Repr

def step2 (o : Obj2) : Op2 → Except Err (Ans × Obj2)
  | .interp x y => match o.interpolate x y with
    | .ok (v, o') => .ok (.val v, o')
    | .error e => .error e
  | .globmin => .ok (.val (o.globalExt false), o)
  | .globmax => .ok (.val (o.globalExt true), o)
  | .setpref p => .ok (.unit, { o with pref := p })
  | .mult p => .ok (.unit, { o with pref := o.pref * p })
  | .copy => .ok (.unit, o)
  | .clobber x y => match o.interpolate x y with
    | .ok (v, _) => .ok (.val v, { o with ox := { o.ox with st := { jLast := 0, corr := false } },
                                          oy := { o.oy with st := { jLast := 0, corr := false } } })
    | .error e => .error e

def run2 (o : Obj2) : List Op2 → Except Err (List Ans × Obj2)
  | [] => .ok ([], o)
  | op :: r => match step2 o op with
    | .error e => .error e
    | .ok (a, o') => match run2 o' r with
      | .error e => .error e
      | .ok (as, o'') => .ok (a :: as, o'')

def answer2 (o : Obj2) (q : Op2) : Except Err Ans :=
  match step2 o q with
  | .ok (a, _) => .ok a
  | .error e => .error e

/-! ### A pool of objects: copies, assignments and destruction across objects.
    Objects are values: a copy is the same value in another slot, assigning a newly constructed
    object replaces the value of that slot only, destroying a slot touches no other slot. -/

inductive POp where
  | make (s t : Nat)          -- slot s := Interpolation(table t)   (construct or assign)
  | copyConstruct (i j : Nat) -- slot j := new Interpolation(slot i)
  | copyAssign (i j : Nat)    -- slot j = slot i
  | destroy (s : Nat)
  | call (s : Nat) (op : Op)
  /-- the object in slot `s` evaluates `Interpolate(xold)`, is destroyed (placement new) or overwritten (assignment) by a newly
      constructed object of table `t` in the SAME storage, and the new object's first call is `Interpolate(xnew)` -/
  | rebuild (s t : Nat) (xold xnew : Rat)
  deriving Repr

inductive PErr where
  | diag      -- the library stops with a diagnostic
  | invalid   -- the request addresses a slot that is not alive / a table that does not exist
  deriving DecidableEq, Repr

abbrev Pool := Array (Option Obj)

def poolMake (tables : Array (List Rat × List Rat)) (pool : Pool) (s t : Nat) : Except PErr (Ans × Pool) :=
  if s < pool.size then
    match tables[t]? with
    | some (xs, ys) => match mk xs ys (-1) (-1) with
      | .ok o => .ok (.unit, pool.set! s (some o))
      | .error _ => .error .diag
    | none => .error .invalid
  else .error .invalid

def poolCall [SqrtFn] (pool : Pool) (s : Nat) (op : Op) : Except PErr (Ans × Pool) :=
  match pool.getD s none with
  | some o => match step o op with
    | .ok (a, o') => .ok (a, pool.set! s (some o'))
    | .error _ => .error .diag
  | none => .error .invalid

def poolStep [SqrtFn] (tables : Array (List Rat × List Rat)) (pool : Pool) : POp → Except PErr (Ans × Pool)
  | .make s t => poolMake tables pool s t
  | .copyConstruct i j | .copyAssign i j =>
    if j < pool.size then
      match pool.getD i none with
      | some o => .ok (.unit, pool.set! j (some o))
      | none => .error .invalid
    else .error .invalid
  | .destroy s => if s < pool.size then .ok (.unit, pool.set! s none) else .error .invalid
  | .call s op => poolCall pool s op
  | .rebuild s t xold xnew =>
    match pool.getD s none with
    | some o => match o.interpolate xold with
      | .error _ => .error .diag
      | .ok _ =>
        -- objects are values: what lived in the storage before leaves no trace in the newly constructed object
        match poolMake tables pool s t with
        | .ok (_, pool') => poolCall pool' s (.interp xnew)
        | .error e => .error e
    | none => .error .invalid

end Lp.C09
