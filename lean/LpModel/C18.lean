/-
  C18 — samplers of src/Statistics.cpp §3, as coded, over exact rationals.  Core-only.

  The generator is abstract: a type `G` of generator states and `u01 : G → Rat × G`, one
  `std::generate_canonical<double,53>` variate (two 32-bit draws of `std::mt19937`) and the state
  left behind.  The driver instantiates `G := Lp.MT.State`, `u01 := Lp.MT.canonical`
  (LpModel/C18/MT19937.lean); theorems quantify over every `G`, `u01`.
  Every sampler is a function `G → Out × G` of the passed generator only (`sampler_state_monad`):
  that the C++ has this shape is the content of the class-D correspondence check.

  Parameters instead of transcendental functions:
    `gq p mu sigma`  = `Quantile_Gauss(p,mu,sigma)` (`mu + sqrt2·sigma·Inv_Erf(2p-1)`); no theorem
                       needs anything of it;
    `exp`            = `exp` in the Poisson sampler (theorems: multiplicative, positive, ≥ 1 on x ≥ 0);
    `rnd`            = rounding of the running product in the Poisson sampler (driver only; theorems
                       are stated for `rnd = id`).
-/
import LpModel.Basic
import LpModel.C18.MT19937
namespace Lp.C18

abbrev U01 (G : Type) := G → Rat × G

section Generic
variable {G : Type} (u01 : U01 G)

/-- state after `n` uniforms -/
def adv : Nat → G → G
  | 0, g => g
  | n + 1, g => adv n (u01 g).2

/-- the `n`-th uniform (from 0) drawn from state `g` -/
def uAt (g : G) (n : Nat) : Rat := (u01 (adv u01 n g)).1

/-- product of the first `n` uniforms drawn from `g` -/
def prodU (g : G) : Nat → Rat
  | 0 => 1
  | n + 1 => prodU g n * uAt u01 g n

/-! ### 3.1 Sample_Uniform, Sample_Gauss -/

/-- `Sample_Uniform(PRNG,a,b)`: `uniform_real_distribution(a,b)` = `u*(b-a)+a` -/
def sampleUniform (g : G) (a b : Rat) : Rat × G := ((u01 g).1 * (b - a) + a, (u01 g).2)

/-- `Sample_Gauss(PRNG,mu,sigma)` = `Quantile_Gauss(Sample_Uniform(PRNG,0,1),mu,sigma)` -/
def sampleGauss (gq : Rat → Rat → Rat → Rat) (g : G) (mu sigma : Rat) : Rat × G :=
  (gq (sampleUniform u01 g 0 1).1 mu sigma, (sampleUniform u01 g 0 1).2)

/-! ### Sample_Poisson (Knuth, with `exp(STEP)` rescaling) -/

/-- the inner `while(p < 1.0 && lambda_left > 0.0)`; fuel = a bound on its iterations
    (`⌈lambda_left/STEP⌉` suffice, lemma `poisRescale_spec`) -/
def poisRescale (exp : Rat → Rat) (rnd : Rat → Rat) (step : Rat) : Nat → Rat → Rat → Rat × Rat
  | 0, p, ll => (p, ll)
  | f + 1, p, ll =>
    if p < 1 ∧ ll > 0 then
      if ll > step then poisRescale exp rnd step f (rnd (p * exp step)) (ll - step)
      else poisRescale exp rnd step f (rnd (p * exp ll)) 0
    else (p, ll)

/-- the `do { k++; … } while(p > 1)`; `k` = number of completed iterations; returns `k-1` of the
    C++ (= iterations completed before the last one) and the generator.  `none` = out of fuel
    (the C++ loop terminates with probability one, not for every stream). -/
def poisLoop (exp : Rat → Rat) (rnd : Rat → Rat) (step : Rat) (rf : Nat) : Nat → Nat → Rat → Rat → G → Option (Nat × G)
  | 0, _, _, _, _ => none
  | f + 1, k, p, ll, g =>
    let r := poisRescale exp rnd step rf (rnd (p * (u01 g).1)) ll
    if r.1 > 1 then poisLoop exp rnd step rf f (k + 1) r.1 r.2 (u01 g).2 else some (k, (u01 g).2)

/-- `Sample_Poisson(PRNG, expectation_value)` with `STEP = step` (500 in the C++) -/
def samplePoisson (exp : Rat → Rat) (rnd : Rat → Rat) (step : Rat) (rf fuel : Nat) (g : G) (lam : Rat) : Option (Nat × G) :=
  poisLoop u01 exp rnd step rf fuel 0 1 lam g

/-- the vector overload: one call per mean, in order, on the same generator -/
def samplePoissonList (exp : Rat → Rat) (rnd : Rat → Rat) (step : Rat) (rf fuel : Nat) : G → List Rat → Option (List Nat × G)
  | g, [] => some ([], g)
  | g, lam :: r =>
    match samplePoisson u01 exp rnd step rf fuel g lam with
    | none => none
    | some (k, g') =>
      match samplePoissonList exp rnd step rf fuel g' r with
      | none => none
      | some (ks, g'') => some (k :: ks, g'')

/-! ### 3.2 Rejection sampling -/

/-- `Relative_Difference(a,b)` -/
def relDiff (a b : Rat) : Rat :=
  if rabs (a - b) = 0 then 0 else rabs (a - b) / rmax (rabs a) (rabs b)

inductive RejErr where
  | inefficient   -- count % 10000 == 0: "Too inefficient sampling", exit
  | pdfNegative   -- 1-D only: "PDF is not a positive number", exit
  | pdfAboveMax   -- pdf > yMax by more than 1 %: exit
  | fuel          -- unreachable for fuel ≥ 10000 (theorem `rejLoop_no_fuel`)
  deriving DecidableEq, Repr

/-- `Rejection_Sampling(PDF,xMin,xMax,yMax,PRNG)`: the `while(!success)` loop; `c` = `count` before
    the increment.  Result: accepted `x`, final `count`, generator. -/
def rejLoop (pdf : Rat → Rat) (xMin xMax yMax : Rat) : Nat → Nat → G → Except RejErr (Rat × Nat × G)
  | 0, _, _ => .error .fuel
  | f + 1, c, g =>
    if (c + 1) % 1000 = 0 ∧ (c + 1) % 10000 = 0 then .error .inefficient
    else
      let x := sampleUniform u01 g xMin xMax
      let y := sampleUniform u01 x.2 0 yMax
      if pdf x.1 < 0 then .error .pdfNegative
      else if pdf x.1 > yMax ∧ relDiff (pdf x.1) yMax > 1 / 100 then .error .pdfAboveMax
      else if y.1 ≤ pdf x.1 then .ok (x.1, c + 1, y.2)
      else rejLoop pdf xMin xMax yMax f (c + 1) y.2

def rejection (pdf : Rat → Rat) (xMin xMax yMax : Rat) (g : G) : Except RejErr (Rat × Nat × G) :=
  rejLoop u01 pdf xMin xMax yMax 10000 0 g

/-- `Rejection_Sampling_2D` (no negativity test; the warning at `counter % 1000 == 0` only prints) -/
def rejLoop2 (pdf : Rat → Rat → Rat) (xMin xMax yMin yMax zMax : Rat) : Nat → Nat → G → Except RejErr ((Rat × Rat) × Nat × G)
  | 0, _, _ => .error .fuel
  | f + 1, c, g =>
    if (c + 1) % 1000 = 0 ∧ (c + 1) % 10000 = 0 then .error .inefficient
    else
      let x := sampleUniform u01 g xMin xMax
      let y := sampleUniform u01 x.2 yMin yMax
      let z := sampleUniform u01 y.2 0 zMax
      if pdf x.1 y.1 > zMax ∧ relDiff (pdf x.1 y.1) zMax > 1 / 100 then .error .pdfAboveMax
      else if z.1 ≤ pdf x.1 y.1 then .ok ((x.1, y.1), c + 1, z.2)
      else rejLoop2 pdf xMin xMax yMin yMax zMax f (c + 1) z.2

def rejection2 (pdf : Rat → Rat → Rat) (xMin xMax yMin yMax zMax : Rat) (g : G) : Except RejErr ((Rat × Rat) × Nat × G) :=
  rejLoop2 u01 pdf xMin xMax yMin yMax zMax 10000 0 g

/-! ### Metropolis -/

/-- `std::min(1.0, PDF(candidate)/PDF(x))` as the doubles give it: a zero denominator yields
    `+inf` or NaN, and `std::min(1.0, NaN) = 1.0`; `-inf` (negative numerator) stays below 0. -/
def accProb (pc px : Rat) : Rat :=
  if px = 0 then (if pc < 0 then -1 else 1) else rmin 1 (pc / px)

/-- bookkeeping loop `for(i = 0; i < i_max; i++) { x = step(x); if(i >= burn_in && i % thinning == 0) push }`,
    polymorphic in the chain state (1-D: `Rat`, 2-D: `Rat × Rat`).  `n` = iterations left, `i` = the
    C++ loop variable, `acc` = `samples` reversed. -/
def metroLoop {X : Type} (step : X → G → X × G) (burn thin : Nat) : Nat → Nat → X → G → List X → List X × G
  | 0, _, _, g, acc => (acc.reverse, g)
  | n + 1, i, x, g, acc =>
    metroLoop step burn thin n (i + 1) (step x g).1 (step x g).2
      (if i ≥ burn ∧ i % thin = 0 then (step x g).1 :: acc else acc)

/-- one iteration of `Sample_Metropolis`; `dom = some (lo,hi)` for a bounded domain.
    `cand` abstracts the Gaussian proposal `Sample_Gauss(PRNG, x, sigma)`. -/
def metroStep1 (cand : G → Rat → Rat × G) (pdf : Rat → Rat) (dom : Option (Rat × Rat)) (x : Rat) (g : G) : Rat × G :=
  let c := cand g x
  let ap := match dom with
    | some (lo, hi) => if c.1 < lo ∨ c.1 > hi then 0 else accProb (pdf c.1) (pdf x)
    | none => accProb (pdf c.1) (pdf x)
  let u := sampleUniform u01 c.2 0 1
  (if u.1 < ap then c.1 else x, u.2)

/-- `Sample_Metropolis` (domain already classified: size 0 → `none`, size 2 → `some`; other sizes
    exit with a diagnostic before any draw).  Requires `thin ≥ 1` (`i % 0` is undefined in C++) and
    `burn + thin*sample < 2^32` (unsigned arithmetic). -/
def metropolis1 (gq : Rat → Rat → Rat → Rat) (pdf : Rat → Rat) (sigma : Rat) (sample thin burn : Nat)
    (dom : Option (Rat × Rat)) (g : G) : List Rat × G :=
  let x0 := match dom with
    | some (lo, hi) => sampleUniform u01 g lo hi
    | none => sampleGauss u01 gq g 0 sigma
  metroLoop (metroStep1 u01 (fun g x => sampleGauss u01 gq g x sigma) pdf dom) burn thin
    (burn + thin * sample) 0 x0.1 x0.2 []

structure Dom2 where
  x0 : Rat
  x1 : Rat
  y0 : Rat
  y1 : Rat

def metroStep2 (cand : G → Rat × Rat → (Rat × Rat) × G) (pdf : Rat → Rat → Rat) (dom : Option Dom2)
    (x : Rat × Rat) (g : G) : (Rat × Rat) × G :=
  let c := cand g x
  let ap := match dom with
    | some d => if c.1.1 < d.x0 ∨ c.1.1 > d.x1 ∨ c.1.2 < d.y0 ∨ c.1.2 > d.y1 then 0
                else accProb (pdf c.1.1 c.1.2) (pdf x.1 x.2)
    | none => accProb (pdf c.1.1 c.1.2) (pdf x.1 x.2)
  let u := sampleUniform u01 c.2 0 1
  (if u.1 < ap then c.1 else x, u.2)

/-- two Gaussian proposals, first coordinate first (braced initialiser: left to right) -/
def cand2 (gq : Rat → Rat → Rat → Rat) (s1 s2 : Rat) (g : G) (x : Rat × Rat) : (Rat × Rat) × G :=
  let a := sampleGauss u01 gq g x.1 s1
  let b := sampleGauss u01 gq a.2 x.2 s2
  ((a.1, b.1), b.2)

def metropolis2 (gq : Rat → Rat → Rat → Rat) (pdf : Rat → Rat → Rat) (s1 s2 : Rat) (sample thin burn : Nat)
    (dom : Option Dom2) (g : G) : List (Rat × Rat) × G :=
  let x0 : (Rat × Rat) × G := match dom with
    | some d =>
      let a := sampleUniform u01 g d.x0 d.x1
      let b := sampleUniform u01 a.2 d.y0 d.y1
      ((a.1, b.1), b.2)
    | none => cand2 u01 gq s1 s2 g (0, 0)
  metroLoop (metroStep2 u01 (cand2 u01 gq s1 s2) pdf dom) burn thin (burn + thin * sample) 0 x0.1 x0.2 []

/-! ### Inverse_Transform_Sampling -/

/-- the accuracy handed to `Find_Root`: `1e-10 * (xMax - xMin)` — relative to the WIDTH of the domain -/
def itransTol (xMin xMax : Rat) : Rat := (1 / 10 ^ 10) * (xMax - xMin)

/-- `Inverse_Transform_Sampling(cdf, xMin, xMax, PRNG)`: one uniform `xi`, then the root of `xi - cdf(x)`
    on `[xMin,xMax]` to accuracy `itransTol`; the root finder (C02) is a parameter. -/
def inverseTransform (findRoot : (Rat → Rat) → Rat → Rat → Rat → Rat) (cdf : Rat → Rat) (g : G) (xMin xMax : Rat) : Rat × G :=
  (findRoot (fun x => (sampleUniform u01 g 0 1).1 - cdf x) xMin xMax (itransTol xMin xMax), (sampleUniform u01 g 0 1).2)

/-! ### The acceptance test as the doubles evaluate it: ratio classes, `std::min` argument order -/

/-- `PDF(candidate) / PDF(x)` in IEEE arithmetic: a zero denominator gives NaN (0/0) or ±inf -/
inductive Ratio where
  | nan
  | posInf
  | negInf
  | fin (r : Rat)
  deriving DecidableEq, Repr

def pdfRatio (pc px : Rat) : Ratio :=
  if px = 0 then (if pc = 0 then .nan else if pc > 0 then .posInf else .negInf) else .fin (pc / px)

/-- `std::min(1.0, r)` = `(r < 1.0) ? r : 1.0` — every comparison with NaN is false, so NaN gives `1.0` (the order the C++ uses) -/
def minOneLeft : Ratio → Ratio
  | .nan => .fin 1
  | .posInf => .fin 1
  | .negInf => .negInf
  | .fin r => .fin (if r < 1 then r else 1)

/-- `std::min(r, 1.0)` = `(1.0 < r) ? 1.0 : r` — NaN stays NaN (the swapped order) -/
def minOneRight : Ratio → Ratio
  | .nan => .nan
  | .posInf => .fin 1
  | .negInf => .negInf
  | .fin r => .fin (if 1 < r then 1 else r)

/-- `u < acceptance_probability` -/
def acceptD (u : Rat) : Ratio → Bool
  | .nan => false
  | .posInf => true
  | .negInf => false
  | .fin a => decide (u < a)

/-! ### Parameter guards (fix d65f15f): requests outside the parameter range stop with a diagnostic

  `Sample_Uniform` (x_max < x_min), `Sample_Gauss` (standard_deviation < 0) and `Sample_Poisson`
  (expectation_value < 0) test their parameters BEFORE the first draw; rejection sampling and Metropolis inherit the
  guards through the `Sample_Uniform` / `Sample_Gauss` calls they make.  An error value carries no generator: a
  rejected request consumes no randomness that a caller could observe (the process exits).  The boundary cases
  `x_min = x_max`, `sigma = 0`, `mean = 0` are meaningful, exactly as coded.  The unguarded functions above are the
  bodies that run when the guards pass (`…G_ok` theorems), so every theorem about them carries over. -/

inductive ParamErr where
  | emptyDomain      -- Sample_Uniform: x_max < x_min
  | negativeSigma    -- Sample_Gauss: standard_deviation < 0
  | negativeMean     -- Sample_Poisson: expectation_value < 0
  deriving DecidableEq, Repr

def sampleUniformG (g : G) (a b : Rat) : Except ParamErr (Rat × G) :=
  if b < a then .error .emptyDomain else .ok (sampleUniform u01 g a b)

def sampleGaussG (gq : Rat → Rat → Rat → Rat) (g : G) (mu sigma : Rat) : Except ParamErr (Rat × G) :=
  if sigma < 0 then .error .negativeSigma else .ok (sampleGauss u01 gq g mu sigma)

def samplePoissonG (exp : Rat → Rat) (rnd : Rat → Rat) (step : Rat) (rf fuel : Nat) (g : G) (lam : Rat) : Except ParamErr (Option (Nat × G)) :=
  if lam < 0 then .error .negativeMean else .ok (samplePoisson u01 exp rnd step rf fuel g lam)

/-- the vector overload stops at the first negative mean (earlier entries have been sampled; the process exits) -/
def samplePoissonListG (exp : Rat → Rat) (rnd : Rat → Rat) (step : Rat) (rf fuel : Nat) (g : G) (lams : List Rat) : Except ParamErr (Option (List Nat × G)) :=
  if lams.any (fun l => decide (l < 0)) then .error .negativeMean else .ok (samplePoissonList u01 exp rnd step rf fuel g lams)

/-- `Rejection_Sampling`: the first trial calls `Sample_Uniform(xMin,xMax)` and `Sample_Uniform(0,yMax)` -/
def rejectionG (pdf : Rat → Rat) (xMin xMax yMax : Rat) (g : G) : Except ParamErr (Except RejErr (Rat × Nat × G)) :=
  if xMax < xMin ∨ yMax < 0 then .error .emptyDomain else .ok (rejection u01 pdf xMin xMax yMax g)

def rejection2G (pdf : Rat → Rat → Rat) (xMin xMax yMin yMax zMax : Rat) (g : G) : Except ParamErr (Except RejErr ((Rat × Rat) × Nat × G)) :=
  if xMax < xMin ∨ yMax < yMin ∨ zMax < 0 then .error .emptyDomain else .ok (rejection2 u01 pdf xMin xMax yMin yMax zMax g)

/-- `Sample_Metropolis`: a bounded start draws `Sample_Uniform(lo,hi)`; an unbounded start and every step draw
    `Sample_Gauss(·, sigma)` (no step, no Gaussian: a bounded call with `i_max = 0` never tests `sigma`) -/
def metropolis1G (gq : Rat → Rat → Rat → Rat) (pdf : Rat → Rat) (sigma : Rat) (sample thin burn : Nat)
    (dom : Option (Rat × Rat)) (g : G) : Except ParamErr (List Rat × G) :=
  match dom with
  | some (lo, hi) =>
    if hi < lo then .error .emptyDomain
    else if sigma < 0 ∧ 0 < burn + thin * sample then .error .negativeSigma
    else .ok (metropolis1 u01 gq pdf sigma sample thin burn dom g)
  | none => if sigma < 0 then .error .negativeSigma else .ok (metropolis1 u01 gq pdf sigma sample thin burn dom g)

def metropolis2G (gq : Rat → Rat → Rat → Rat) (pdf : Rat → Rat → Rat) (s1 s2 : Rat) (sample thin burn : Nat)
    (dom : Option Dom2) (g : G) : Except ParamErr (List (Rat × Rat) × G) :=
  match dom with
  | some d =>
    if d.x1 < d.x0 ∨ d.y1 < d.y0 then .error .emptyDomain
    else if (s1 < 0 ∨ s2 < 0) ∧ 0 < burn + thin * sample then .error .negativeSigma
    else .ok (metropolis2 u01 gq pdf s1 s2 sample thin burn dom g)
  | none => if s1 < 0 ∨ s2 < 0 then .error .negativeSigma else .ok (metropolis2 u01 gq pdf s1 s2 sample thin burn dom g)

end Generic

/-! ## Driver side: rational test densities shared with harness/c18.cpp, replay with recorded candidates -/

/-- 1-D densities (ids shared with the harness) -/
def pdf1 (id : Nat) (x : Rat) : Rat :=
  match id with
  | 0 => 1
  | 1 => 1 / (1 + x * x)
  | 2 => if rabs x < 1 then 1 - rabs x else 0
  | 3 => x * x + 1 / 8
  | 4 => 1 / (1 + x * x * x * x)
  | 5 => x * x * (1 - x) * (1 - x)
  | 6 => x
  | _ => 0

def pdf2 (id : Nat) (x y : Rat) : Rat :=
  match id with
  | 0 => 1
  | 1 => 1 / (1 + x * x + y * y)
  | 2 => (if rabs x < 1 then 1 - rabs x else 0) * (if rabs y < 1 then 1 - rabs y else 0)
  | 3 => x * x + y * y + 1 / 8
  | 4 => 1 / ((1 + x * x) * (1 + y * y * y * y))
  | _ => 0

/-- monotone rational CDFs on [0,1]-like ranges for Inverse_Transform_Sampling -/
def cdf1 (id : Nat) (x : Rat) : Rat :=
  match id with
  | 0 => x
  | 1 => x * x
  | 2 => x * x * x
  | 3 => x / (1 + x)        -- on [0, ∞)
  | _ => x

/-- generator with a cursor over recorded Gaussian candidates: the replay instance of `G` -/
structure Replay where
  g : Lp.MT.State
  cands : List Rat
  uniforms : Nat := 0          -- canonical variates consumed
  knife : Bool := false        -- a decision had relative margin < 2^-40
  short : Bool := false        -- ran out of recorded candidates

def Replay.u01 (r : Replay) : Rat × Replay :=
  let (u, g) := Lp.MT.canonical r.g
  (u, { r with g := g, uniforms := r.uniforms + 1 })

/-- a Gaussian proposal: consumes one uniform, returns the next recorded candidate -/
def Replay.cand (r : Replay) : Rat × Replay :=
  let (_, r) := r.u01
  match r.cands with
  | c :: cs => (c, { r with cands := cs })
  | [] => (0, { r with short := true })

def margin40 (a b : Rat) : Bool :=
  decide (rabs (a - b) * (2 : Rat) ^ (40 : Nat) ≤ rmax (rabs a) (rabs b))

/-- `exp` for the driver: Taylor series of `x / 2^m` (m = 12, 40 terms) squared m times, rounded to
    2^-900 after every step; relative accuracy far below 2^-200 on `[0, 500]`. Validated, not verified. -/
def expTaylor (y : Rat) : Nat → Nat → Rat → Rat → Rat
  | 0, _, _, acc => acc
  | f + 1, j, term, acc =>
    let t := term * y / ((j : Rat) + 1)
    expTaylor y f (j + 1) t (acc + t)

def sqN : Nat → Rat → Rat
  | 0, v => v
  | n + 1, v => sqN n (rndK 900 (v * v))

def expApprox (x : Rat) : Rat :=
  if x = 0 then 1 else sqN 12 (rndK 900 (expTaylor (x / 4096) 40 0 1 1))

end Lp.C18
