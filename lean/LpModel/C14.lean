/-
  C14 — Monte-Carlo integrators of src/Integration.cpp §2.2, as coded (after fix 1d564f6), over
  exact rationals.  Core-only.

  Generator: abstract `G`, `u01 : G → Rat × G` (one `Sample_Uniform(PRNG)` = one
  `generate_canonical<double,53>`); the driver instantiates `Lp.MT` seeded like
  `std::mt19937 PRNG(rd())` with the harness' fixed `random_device` value.
  Regions are flat lists `{lower…, upper…}` exactly as the C++ passes them (`dim = size/2`,
  upper bound of axis `i` at index `i + dim`).
  Transcendental: `pw23 x = x^(2/3)` in Miser's allocation is a parameter.
  Vegas: the re-initialisation blocks (`init ≤ 0/1/2`) over a record of the function-local
  statics; `Rebin` as coded; the sampling/refinement iterations are not modelled executable
  (decided by the class-D/A/B correspondence), only the per-axis sample formula (`vegasRc`, `vegasX`).
-/
import LpModel.Basic
import LpModel.C18.MT19937
import LpModel.C14.Constants
namespace Lp.C14

abbrev U01 (G : Type) := G → Rat × G

section Generic
variable {G : Type} (u01 : U01 G)

/-- `region[i]` -/
def at_ (region : List Rat) (i : Nat) : Rat := region.getD i 0

/-! ### Random_Point, MC_Volume, brute force -/

/-- loop of `Random_Point`: `n` axes left, `i` = current axis -/
def randomPointAux (region : List Rat) (dim : Nat) : Nat → Nat → G → List Rat × G
  | 0, _, g => ([], g)
  | n + 1, i, g =>
    ((at_ region i + (u01 g).1 * (at_ region (i + dim) - at_ region i)) :: (randomPointAux region dim n (i + 1) (u01 g).2).1,
     (randomPointAux region dim n (i + 1) (u01 g).2).2)

def randomPoint (region : List Rat) (g : G) : List Rat × G :=
  randomPointAux u01 region (region.length / 2) (region.length / 2) 0 g

def mcVolumeAux (region : List Rat) (dim : Nat) : Nat → Nat → Rat
  | 0, _ => 1
  | n + 1, i => (at_ region (i + dim) - at_ region i) * mcVolumeAux region dim n (i + 1)

/-- `MC_Volume` (product over the axes; the C++ multiplies in ascending order — same value) -/
def mcVolume (region : List Rat) : Rat := mcVolumeAux region (region.length / 2) (region.length / 2) 0

/-- loop of `Integrate_MC_Brute_Force`: returns `sum`, the points at which `f` was called (in call
    order), the generator -/
def bruteLoop (f : List Rat → Rat) (region : List Rat) (vol : Rat) : Nat → G → Rat × List (List Rat) × G
  | 0, g => (0, [], g)
  | n + 1, g =>
    let p := randomPoint u01 region g
    let r := bruteLoop f region vol n p.2
    (vol * f p.1 + r.1, p.1 :: r.2.1, r.2.2)

/-- `Integrate_MC_Brute_Force(func, region, ncall)` given the generator seeded at entry -/
def bruteForce (f : List Rat → Rat) (region : List Rat) (ncall : Nat) (g : G) : Rat × List (List Rat) :=
  let r := bruteLoop u01 f region (mcVolume region) ncall g
  (r.1 / ncall, r.2.1)

/-! ### Miser -/

/-- the private linear-congruential sequence -/
def lcg (iran : Nat) : Nat := (iran * 2661 + 36979) % 175000

def lcgN : Nat → Nat → Nat
  | 0, iran => iran
  | n + 1, iran => lcgN n (lcg iran)

/-- with `dith = 0` (`K.dith`, theorem `miser_dith_zero`): `s = Sign(0, ·) = 0`, so `rmid[j] = 0.5·lo + 0.5·hi` -/
def rmid (region : List Rat) (dim j : Nat) : Rat := (1 / 2) * at_ region j + (1 / 2) * at_ region (dim + j)

/-- `n` plain samples in `region`: sum of values, points, generator (leaf and pre-sampling) -/
def sampleN (f : List Rat → Rat) (region : List Rat) : Nat → G → List (List Rat × Rat) × G
  | 0, g => ([], g)
  | n + 1, g =>
    let p := randomPoint u01 region g
    let r := sampleN f region n p.2
    ((p.1, f p.1) :: r.1, r.2)

def sumVals (l : List (List Rat × Rat)) : Rat := (l.map (·.2)).foldl (· + ·) 0

/-- min / max of the values on the left (`pt[j] ≤ rmid[j]`) or right side of axis `j`; `none` = no point -/
def sideRange (l : List (List Rat × Rat)) (j : Nat) (mid : Rat) (left : Bool) : Option (Rat × Rat) :=
  l.foldl (fun acc p =>
    if (decide (p.1.getD j 0 ≤ mid)) = left then
      match acc with
      | none => some (p.2, p.2)
      | some (mn, mx) => some (rmin mn p.2, rmax mx p.2)
    else acc) none

structure Split where
  jb : Nat
  siglb : Rat
  sigrb : Rat

/-- one axis of the search for the bisection axis (body of the `for j` loop after pre-sampling) -/
def splitStep (pw23 : Rat → Rat) (pre : List (List Rat × Rat)) (region : List Rat) (dim : Nat)
    (acc : Option (Rat × Split)) (j : Nat) : Option (Rat × Split) :=
  match sideRange pre j (rmid region dim j) true, sideRange pre j (rmid region dim j) false with
  | some (mnl, mxl), some (mnr, mxr) =>
    if mxl > mnl ∧ mxr > mnr then
      let sl := pw23 (mxl - mnl); let sr := pw23 (mxr - mnr)
      match acc with
      | some (sumb, _) => if sl + sr ≤ sumb then some (sl + sr, ⟨j, sl, sr⟩) else acc
      | none => some (sl + sr, ⟨j, sl, sr⟩)
    else acc
  | _, _ => acc

/-- fallback `jb = (ndim·iran)/175000` when no axis qualifies -/
def splitResult (dim iran : Nat) : Option (Rat × Split) → Split
  | some (_, s) => s
  | none => ⟨(dim * iran) / 175000, 1, 1⟩

/-- choice of the bisection axis: the last `j` with the smallest `sigl + sigr` among the axes that
    show a variation on both sides; `TINY`/`BIG` floors are omitted (they act only below 1e-30 / above 1e30:
    `K.tinyMiser`, `K.bigMiser`, theorem `miser_floors_out_of_range`);
    fallback `jb = (ndim·iran)/175000` when no axis qualifies -/
def chooseSplit (pw23 : Rat → Rat) (pre : List (List Rat × Rat)) (region : List Rat) (dim iran : Nat) : Split :=
  splitResult dim iran ((List.range dim).foldl (splitStep pw23 pre region dim) none)

/-- C++ `int(x)`: truncation toward zero -/
def truncInt (x : Rat) : Int := if x ≥ 0 then x.floor else -((-x).floor)

/-- sub-region: axis `jb` restricted to `[lo, mid]` (left) or `[mid, hi]` (right) -/
def subRegion (region : List Rat) (dim jb : Nat) (mid : Rat) (left : Bool) : List Rat :=
  if left then region.set (dim + jb) mid else region.set jb mid

structure MiserOut (G : Type) where
  ave : Rat
  pts : List (List Rat)     -- every point at which the integrand was called, in call order
  calls : Int               -- npre + leaves, accumulated
  iran : Nat
  g : G
  knife : Bool := false     -- an allocation `int(…)` was within 2^-30 of an integer (rounding decides in the C++)

/-- `Miser(func, region, npts, dith = 0, ave, var, PRNG)` with the file-static `iran` threaded.
    `none`: a (sub)call with `npts ≤ 0` (the C++ divides by zero there) or out of fuel.
    `MNPT`, `MNBS`, `PFAC` and the factor 2 of `2·MNPT` are `K.mnpt`, `K.mnbs`, `K.pfac`, `K.mnptTwice`:
    `LpModel/C14/Constants.lean` is regenerated from src/Integration.cpp before every build (DESIGN.md §4.5;
    currently 15, 60, 0.1, 2).  `int(npts * PFAC)` is the truncation of the exact product. -/
def miser (f : List Rat → Rat) (pw23 : Rat → Rat) : Nat → List Rat → Int → Nat → G → Option (MiserOut G)
  | 0, _, _, _, _ => none
  | fuel + 1, region, npts, iran, g =>
    let dim := region.length / 2
    if npts ≤ 0 then none
    else if npts < K.mnbs then
      let s := sampleN u01 f region npts.toNat g
      some ⟨sumVals s.1 / npts, s.1.map (·.1), npts, iran, s.2, false⟩
    else
      let npre : Int := max (truncInt ((npts : Rat) * K.pfac)) K.mnpt
      let iran' := lcgN dim iran
      let pre := sampleN u01 f region npre.toNat g
      let sp := chooseSplit pw23 pre.1 region dim iran'
      let rgl := at_ region sp.jb
      let rgm := rmid region dim sp.jb
      let rgr := at_ region (dim + sp.jb)
      let fracl := rabs ((rgm - rgl) / (rgr - rgl))
      let raw : Rat := (K.mnpt : Rat) + ((npts - npre - K.mnptTwice * K.mnpt : Int) : Rat) * fracl * sp.siglb / (fracl * sp.siglb + (1 - fracl) * sp.sigrb)
      let nptl : Int := truncInt raw
      let kn : Bool := decide (rabs (raw - ((raw + 1 / 2).floor : Rat)) * (2 : Rat) ^ (30 : Nat) < 1)
      let nptr : Int := npts - npre - nptl
      match miser f pw23 fuel (subRegion region dim sp.jb rgm true) nptl iran' pre.2 with
      | none => none
      | some l =>
        match miser f pw23 fuel (subRegion region dim sp.jb rgm false) nptr l.iran l.g with
        | none => none
        | some r =>
          some ⟨fracl * l.ave + (1 - fracl) * r.ave, pre.1.map (·.1) ++ l.pts ++ r.pts, npre + l.calls + r.calls, r.iran, r.g,
                kn || l.knife || r.knife⟩

/-- `Integrate_MC_Miser`: `iran = 0` at the start of every integration (fix 1d564f6); the incoming
    value of the static is an argument so that independence of it can be stated -/
def miserTopCore (f : List Rat → Rat) (pw23 : Rat → Rat) (region : List Rat) (ncall : Int) (_iranStatic : Nat) (g : G) : Option (Rat × List (List Rat) × Bool) :=
  match miser u01 f pw23 ncall.toNat.succ region ncall 0 g with
  | some o => some (mcVolume region * o.ave, o.pts, o.knife)
  | none => none

/-- `Integrate_MC_Miser` after fix 9d8dcaf: a region of zero volume returns 0 before any draw and before the
    integrand is called (Miser's bisection would divide 0 by 0 on the degenerate axis) -/
def miserTop (f : List Rat → Rat) (pw23 : Rat → Rat) (region : List Rat) (ncall : Int) (iranStatic : Nat) (g : G) : Option (Rat × List (List Rat) × Bool) :=
  if mcVolume region = 0 then some (0, [], false) else miserTopCore u01 f pw23 region ncall iranStatic g

/-- the unrepaired code: the static survives from the previous integration -/
def miserTopNoReset (f : List Rat → Rat) (pw23 : Rat → Rat) (region : List Rat) (ncall : Int) (iranStatic : Nat) (g : G) : Option (Rat × List (List Rat) × Bool) :=
  match miser u01 f pw23 ncall.toNat.succ region ncall iranStatic g with
  | some o => some (mcVolume region * o.ave, o.pts, o.knife)
  | none => none

/-- guards of `Integrate_MC` (fix 52605b2), tested before any generator is seeded or the integrand is called: the region
    must list a lower and an upper corner (non-empty, even length), the budget must be at least 1 (Vegas: at least 2) -/
def integrateMCRejects (regionLen : Nat) (ncalls : Int) (vegas : Bool) : Bool :=
  regionLen = 0 || regionLen % 2 != 0 || decide (ncalls < 1) || (vegas && decide (ncalls < 2))

/-- `Integrate_MC_Miser` as a transition of the file-static `iran`: it is set to 0 at ENTRY, before the first use
    (as coded), and left at whatever value the run ended with; a call made while another Miser integration is running
    (from inside its integrand) therefore starts from 0 whatever the enclosing run has done to the static -/
def miserTopS (f : List Rat → Rat) (pw23 : Rat → Rat) (region : List Rat) (ncall : Int) (iranStatic : Nat) (g : G) :
    Option (Rat × List (List Rat) × Bool) × Nat :=
  if mcVolume region = 0 then (some (0, [], false), iranStatic) else
  match miser u01 f pw23 ncall.toNat.succ region ncall 0 g with
  | some o => (some (mcVolume region * o.ave, o.pts, o.knife), o.iran)
  | none => (none, iranStatic)

/-- the variant that resets the static on EXIT (a guard object's destructor): the run starts from the incoming value -/
def miserTopExitReset (f : List Rat → Rat) (pw23 : Rat → Rat) (region : List Rat) (ncall : Int) (iranStatic : Nat) (g : G) :
    Option (Rat × List (List Rat) × Bool) × Nat :=
  (miserTopNoReset u01 f pw23 region ncall iranStatic g, 0)

end Generic

/-! ### Vegas: per-axis sample formula and the re-initialisation blocks -/

/-- one axis of the stratified sample: `xn = (kg - u)·dxg + 1`, `ia = clamp(int(xn), 1, NDMX)`,
    `rc` from the grid `xi` (row of axis j, `xi k = xi[j][k]`), `x = lo + rc·dx` -/
def vegasRc (xi : Nat → Rat) (ia : Nat) (xn : Rat) : Rat :=
  if ia > 1 then xi (ia - 2) + (xn - ia) * (xi (ia - 1) - xi (ia - 2)) else (xn - ia) * xi (ia - 1)

def vegasX (lo dx rc : Rat) : Rat := lo + rc * dx

/-! ### Vegas: `Rebin` as coded (row `j` of the grid as `xi : Nat → Rat`, the weights as `r : Nat → Rat`,
    `len` = allocated size NDMX of `r` and of the row) -/

/-- `while(rc > dr) dr += r[(++k) - 1];`  `none`: the loop would read `r[len]` (out of bounds);
    the fuel `len + 1` passed by `rebinLoop` is never exhausted before that -/
def rebinWhile (rc : Rat) (r : Nat → Rat) (len : Nat) : Nat → Nat → Rat → Option (Nat × Rat)
  | 0, _, _ => none
  | fuel + 1, k, dr =>
    if rc > dr then (if k < len then rebinWhile rc r len fuel (k + 1) (dr + r k) else none)
    else some (k, dr)

/-- first `for` loop of `Rebin`, `n` iterations left, with the locals `k, dr, xo` threaded; returns
    `xin[i], xin[i+1], …`.  `none`: `k = 0` after the `while` (the C++ then reads `xi[j][-1]`; happens
    iff `rc ≤ 0` or `rc` is NaN) or the `while` ran off `r`. -/
def rebinLoop (rc : Rat) (r xi : Nat → Rat) (len : Nat) : Nat → Nat → Rat → Rat → Option (List Rat)
  | 0, _, _, _ => some []
  | n + 1, k, dr, xo =>
    match rebinWhile rc r len (len + 1) k dr with
    | none => none
    | some (k', dr') =>
      if k' = 0 then none else
      let xo' := if k' > 1 then xi (k' - 2) else xo
      let xn := xi (k' - 1)
      let dr'' := dr' - rc
      match rebinLoop rc r xi len n k' dr'' xo' with
      | none => none
      | some rest => some ((xn - (xn - xo') * dr'' / r (k' - 1)) :: rest)

/-- the row after the copy-back loop and `xi[j][nd-1] = 1.0` (cells `≥ nd` keep their old value) -/
def rebinRow (nd : Nat) (xin : List Rat) (xi : Nat → Rat) : Nat → Rat :=
  fun i => if i < nd - 1 then xin.getD i 0 else if i = nd - 1 then 1 else xi i

/-- `Rebin(rc, nd, r, xin, xi, j)`: the new row `j`; `none` also for `nd = 0` (write to `xi[j][-1]`)
    and `nd > len` -/
def rebin (rc : Rat) (nd : Nat) (r xi : Nat → Rat) (len : Nat) : Option (Nat → Rat) :=
  if nd = 0 ∨ nd > len then none else
  match rebinLoop rc r xi len (nd - 1) 0 0 0 with
  | none => none
  | some xin => some (rebinRow nd xin xi)

/-- the scalars among the function-local statics that survive between calls -/
structure VegasScalars where
  mds : Int
  ndo : Int
  nd : Int
  ng : Int
  npg : Int
  calls : Rat
  dxg : Rat
  dv2g : Rat
  xnd : Rat
  xjac : Rat
  si : Rat
  swgt : Rat
  schi : Rat
  deriving DecidableEq, Repr

/-- `init ≤ 0`, `init ≤ 1`, `init ≤ 2` blocks on the scalars (NDMX = `K.ndmx`, regenerated from the source); `ngOf` abstracts
    `int(pow(ncall/2 + 0.25, 1/ndim))`; `vol` = product of the widths.  `ndo` is set to `nd` by the
    grid reset that follows when they differ. -/
def vegasInitScalars (s : VegasScalars) (init : Int) (ndim : Nat) (ncall : Int) (ngOf : Int → Nat → Int) (vol : Rat) : VegasScalars :=
  let s := if init ≤ 0 then { s with mds := 1, ndo := 1 } else s
  let s := if init ≤ 1 then { s with si := 0, swgt := 0, schi := 0 } else s
  if init ≤ 2 then
    let nd : Int := (K.ndmx : Int)
    let ng : Int := 1
    let (mds, ng, npg, nd) :=
      if s.mds ≠ 0 then
        let ng := ngOf ncall ndim
        if 2 * ng - (K.ndmx : Int) ≥ 0 then
          let npg := ng / (K.ndmx : Int) + 1
          let nd := ng / npg
          ((-1 : Int), npg * nd, npg, nd)
        else ((1 : Int), ng, s.npg, nd)
      else (s.mds, ng, s.npg, nd)
    let k : Int := ng ^ ndim
    let npg : Int := max (ncall / k) 2
    let _ := npg
    let calls : Rat := (npg : Rat) * (k : Rat)
    let dxg : Rat := 1 / (ng : Rat)
    let dv2g0 : Rat := dxg ^ ndim
    let dv2g := calls * dv2g0 * calls * dv2g0 / npg / npg / ((npg : Rat) - 1)
    let xnd : Rat := nd
    { s with mds := mds, nd := nd, ng := ng, npg := npg, calls := calls, dxg := dxg * xnd, dv2g := dv2g, xnd := xnd,
             xjac := 1 / calls * vol, ndo := nd }
  else s

/-! ### Vegas: the arrays among the function-local statics -/

/-- `xn = (kg[j] − u)·dxg + 1` -/
def vegasXn (kg : Int) (u dxg : Rat) : Rat := ((kg : Rat) - u) * dxg + 1

/-- BEFORE fix 66169b8: `ia[j] = max(min(int(xn), NDMX), 1)` (kept for the pre-fix witness `vegas_ia_overrun_witness`) -/
def vegasIa (xn : Rat) : Nat := (max (min (truncInt xn) (K.ndmx : Int)) 1).toNat

/-- as coded now (fix 66169b8): `ia[j] = max(min(int(xn), nd), 1)` — clamped to the number of bins in use -/
def vegasIaNd (xn : Rat) (nd : Nat) : Nat := (max (min (truncInt xn) (nd : Int)) 1).toNat

/-- fix 9f1900c: the integrand receives a vector of exactly `ndim` coordinates (`point[j] = x[j]`, `j < ndim`),
    not the static work vector `x` of `MXDIM = 10` entries whose tail belongs to earlier integrations -/
def vegasPoint (x : List Rat) (ndim : Nat) : List Rat := x.take ndim

/-- the arrays that survive between calls and are read by the iterations (`xi[j][i]`, `d[i][j]`,
    `di[i][j]` with the C++ index order).  `xin` is local to `Rebin` in this model (`rebinLoop`
    returns it); `ia, x, dt` are written inside one sample / one refinement before they are read
    there and are not carried. -/
structure VegasArrays where
  xi : Nat → Nat → Rat
  r : Nat → Rat
  dx : Nat → Rat
  d : Nat → Nat → Rat
  di : Nat → Nat → Rat
  kg : Nat → Int

/-- `for(j = 0; j < cnt; j++) Rebin(rc, nd, r, xin, xi, j);` (NDMX = `K.ndmx` cells per row) -/
def rebinRows (rc : Rat) (nd : Nat) (r : Nat → Rat) : Nat → (Nat → Nat → Rat) → Option (Nat → Nat → Rat)
  | 0, xi => some xi
  | j + 1, xi =>
    match rebinRows rc nd r j xi with
    | none => none
    | some xi1 =>
      match rebin rc nd r (xi1 j) K.ndmx with
      | none => none
      | some row => some (fun j' => if j' = j then row else xi1 j')

/-- the array part of the `init ≤ 0` and `init ≤ 2` blocks; `ndo` = value of the static after the
    `init ≤ 0` block, `nd` = value computed by the `init ≤ 2` block (`vegasInitScalars`).
    `none`: `ndim > MXDIM = K.mxdim` (out of bounds) or a failing `Rebin`. -/
def vegasInitArrays (a : VegasArrays) (init : Int) (ndim : Nat) (region : List Rat) (ndo nd : Nat) : Option VegasArrays :=
  if ndim > K.mxdim then none else
  let a1 : VegasArrays := if init ≤ 0 then { a with xi := fun j i => if j < ndim ∧ i = 0 then 1 else a.xi j i } else a
  if init ≤ 2 then
    let a2 : VegasArrays := { a1 with dx := fun j => if j < ndim then at_ region (j + ndim) - at_ region j else a1.dx j }
    if nd ≠ ndo then
      let r : Nat → Rat := fun i => if i < max nd ndo then 1 else a2.r i
      match rebinRows ((ndo : Rat) / (nd : Rat)) nd r ndim a2.xi with
      | none => none
      | some xi => some { a2 with r := r, xi := xi }
    else some a2
  else some a1

/-- head of every iteration: `kg[j] = 1; d[i][j] = di[i][j] = 0` for `j < ndim`, `i < nd` -/
def vegasIterPrologue (a : VegasArrays) (ndim nd : Nat) : VegasArrays :=
  { a with kg := fun j => if j < ndim then 1 else a.kg j,
           d := fun i j => if j < ndim ∧ i < nd then 0 else a.d i j,
           di := fun i j => if j < ndim ∧ i < nd then 0 else a.di i j }

/-! ### Vegas: stratification cells (`ng`, `k`, `npg`) and the cell odometer `kg` -/

structure VegasCells where
  ng : Nat      -- cells per axis: the largest value ever stored in `kg[j]`
  nd : Nat      -- grid bins per axis: the largest value ever stored in `ia[j]`
  npg : Nat     -- points per cell
  k : Nat       -- number of cells `ng^ndim`
  deriving DecidableEq, Repr

/-- cell arithmetic of the `init ≤ 2` block (`mds ≠ 0`, NDMX = `K.ndmx`) as a function of
    `ng0 = int(pow(ncall/2 + 0.25, 1/ndim))`, the budget and the dimension -/
def vegasCells (ng0 ncall ndim : Nat) : VegasCells :=
  let ng := if 2 * ng0 ≥ K.ndmx then (ng0 / K.ndmx + 1) * (ng0 / (ng0 / K.ndmx + 1)) else ng0
  let nd := if 2 * ng0 ≥ K.ndmx then ng0 / (ng0 / K.ndmx + 1) else K.ndmx
  ⟨ng, nd, max (ncall / ng ^ ndim) 2, ng ^ ndim⟩

/-- integrand evaluations of one call: `itmx = 5` sweeps over all cells with `npg` points each -/
def vegasEvaluations (c : VegasCells) : Nat := 5 * c.npg * c.k

/-- one advance of the odometer on the REVERSED index list (last axis first):
    `for(k = ndim-1; k >= 0; k--) { kg[k] %= ng; if(++kg[k] != 1) break; }`; `true` = `k < 0` (sweep finished) -/
def odoRev (ng : Nat) : List Nat → List Nat × Bool
  | [] => ([], true)
  | c :: rest =>
    if c % ng ≠ 0 then ((c % ng + 1) :: rest, false)
    else (1 :: (odoRev ng rest).1, (odoRev ng rest).2)

/-- number of cells visited by the `for(;;)` sweep that starts with the odometer at `kg` -/
def sweepLen (ng : Nat) : Nat → List Nat → Nat
  | 0, _ => 0
  | f + 1, kg => if (odoRev ng kg).2 then 1 else 1 + sweepLen ng f (odoRev ng kg).1

/-- position of the odometer in the sweep (little-endian on the reversed list) -/
def odoVal (ng : Nat) : List Nat → Nat
  | [] => 0
  | c :: rest => (c - 1) + ng * odoVal ng rest

end Lp.C14
