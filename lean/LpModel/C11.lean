/-
  C11 — minimisers: `Bracket_Method::Bracket`, `Brent::Minimize`, `Find_Minimum`,
  `Find_Maximum`, `Minimization::minimize` (three overloads), `get_psum`, `amotry`
  of src/Numerics.cpp §3, as coded.  Core-only (no Mathlib).

  * objective `f : Rat → Rat` resp. `List Rat → Rat`, a parameter, NO regularity assumed;
  * every arithmetic result the C++ rounds goes through the parameter `rnd : Rat → Rat`
    (theorems: every `rnd`; driver: `rndD`, round-to-nearest-even double);
  * every run returns the evaluation trace: the abscissae in call order, each with the
    smallest relative margin of the decisions / cancellations that led to it since the
    previous evaluation (class C correspondence excuses a divergence only where this is tiny);
  * loops run on fuel.
-/
import LpModel.Basic
import LpModel.C11.Constants
import LpModel.C11.Features
namespace Lp.C11

/-! ## helpers -/

/-- `Sign(double)` -/
def sgn (x : Rat) : Int := if x > 0 then 1 else if x = 0 then 0 else -1

/-- two-argument `Sign(x, y)` of Special_Functions.cpp, as coded: `x` if the two signs are
    equal, `-1.0 * x` otherwise (so `Sign(t, 0) = -t` for `t > 0`, unlike NR's SIGN). -/
def sign2 (x y : Rat) : Rat := if sgn x = sgn y then x else -x

/-- relative size of `d` against the scale `s` (a sum of absolute values).  An exact tie
    (`d = 0`) counts as a healthy margin: in the C++ it is a comparison of bit-identical doubles
    (copies of one value, or operands that cancel exactly), which rounding does not perturb. -/
def mg (d s : Rat) : Rat := if d = 0 ∨ s = 0 then 1 else rabs d / s

/-- margin of a comparison of `a` with `b` / cancellation ratio of `a - b` -/
def mc (a b : Rat) : Rat := mg (a - b) (rabs a + rabs b)

def mins (l : List Rat) : Rat := l.foldl rmin 1

/-! ## round to double (driver instance of `rnd`) -/

/-- `⌊log₂ x⌋` for `x > 0` -/
def log2floor (x : Rat) : Int :=
  let e0 : Int := (Nat.log2 x.num.toNat : Int) - (Nat.log2 x.den : Int)
  if x < pow2 e0 then e0 - 1 else e0

/-- `n / d` scaled by `2^sh` (`sh` may be negative): quotient and remainder with the divisor -/
def scaledDiv (n d : Nat) (sh : Int) : Nat × Nat × Nat :=
  let n' := if sh ≥ 0 then n <<< sh.toNat else n
  let d' := if sh ≥ 0 then d else d <<< (-sh).toNat
  (n' / d', n' % d', d')

/-- `m * 2^k` as a rational -/
def dyadicRat (m : Int) (k : Int) : Rat :=
  if k ≥ 0 then ((m * ((2 : Int) ^ k.toNat) : Int) : Rat) else mkRat m (2 ^ (-k).toNat)

/-- IEEE-754 binary64 round-to-nearest-even of a rational (gradual underflow modelled,
    overflow not: the driver answers `undef` when magnitudes leave the safe range).
    Integer arithmetic: with `e = ⌊log₂|x|⌋` (clamped at -1022) the quotient
    `⌊|x| / 2^(e-52)⌋` and its remainder decide the rounding. -/
def rndD (x : Rat) : Rat :=
  if x.num = 0 then 0 else
  let n := x.num.natAbs
  let d := x.den
  let e0 : Int := (Nat.log2 n : Int) - (Nat.log2 d : Int)
  -- true exponent is e0 or e0 - 1
  let q0 := scaledDiv n d (52 - e0)
  let e1 : Int := if q0.1 < 2 ^ 52 then e0 - 1 else e0
  let e : Int := if e1 < -1022 then -1022 else e1
  let q := if e = e0 then q0 else scaledDiv n d (52 - e)
  let fl := q.1
  let r2 := 2 * q.2.1
  let m : Nat := if r2 < q.2.2 then fl else if r2 > q.2.2 then fl + 1 else (if fl % 2 = 0 then fl else fl + 1)
  let v := dyadicRat (m : Int) (e - 52)
  if x.num < 0 then -v else v

/-! ## constants of the source (decimal literals; the model rounds them with `rnd` where the
    compiler rounds the literal).  The values are NOT written here: `K.*` of
    `LpModel/C11/Constants.lean` is regenerated from src/Numerics.cpp before every build
    (translators/constants.py, DESIGN.md §4.5). -/

def GOLD : Rat := K.gold                   -- golden_ratio = 1.618034
def GLIMIT : Rat := K.glimit               -- 100.0
def TINYB : Rat := K.tinyBracket           -- Bracket: TINY = 1.0e-20
def CGOLD : Rat := K.cgold                 -- 0.3819660
def ZEPS : Rat := K.zeps                   -- numeric_limits<double>::epsilon() = 2^-52
def ITMAX : Nat := K.itmax                 -- 100
def NMAX : Nat := K.nmax                   -- 5000
def TINYN : Rat := K.tinyNM                -- minimize: TINY = 1.0e-10

/-- an evaluation event: abscissa and decision margin -/
abbrev Ev := Rat × Rat

section OneDim
variable (rnd : Rat → Rat) (f : Rat → Rat)

/-! ## Bracket_Method::Bracket -/

structure Br where
  ax : Rat
  bx : Rat
  cx : Rat
  fa : Rat
  fb : Rat
  fc : Rat
  pm : Rat     -- pending margin: decisions taken after the last evaluation
  deriving Repr

/-- lines 615–626: the two initial evaluations, the swap, the first golden step -/
def bracketInit (a b : Rat) : Br × List Ev :=
  let fa := f a
  let fb := f b
  let sw := fb > fa
  let ax := if sw then b else a
  let bx := if sw then a else b
  let fa' := if sw then fb else fa
  let fb' := if sw then fa else fb
  let cx := rnd (bx + rnd (rnd GOLD * rnd (bx - ax)))
  let fc := f cx
  ({ ax := ax, bx := bx, cx := cx, fa := fa', fb := fb', fc := fc, pm := 1 },
   [(a, 1), (b, 1), (cx, mc fb fa)])

inductive BrStep where
  | ret (s : Br)
  | cont (s : Br)

/-- one pass through the body of `while(fb > fc)` -/
def bracketStep (s : Br) : BrStep × List Ev :=
  let g := rnd GOLD
  let r := rnd (rnd (s.bx - s.ax) * rnd (s.fb - s.fc))
  let q := rnd (rnd (s.bx - s.cx) * rnd (s.fb - s.fa))
  let qr := rnd (q - r)
  let den := rnd (2 * sign2 (rmax (rabs qr) (rnd TINYB)) qr)
  let num := rnd (rnd (rnd (s.bx - s.cx) * q) - rnd (rnd (s.bx - s.ax) * r))
  let u := rnd (s.bx - rnd (num / den))
  let ulim := rnd (s.bx + rnd (GLIMIT * rnd (s.cx - s.bx)))
  -- conditioning of `u`: the loop test and the cancellations in its formula
  let m0 := mins [s.pm, mc s.fb s.fc, mc s.fb s.fa, mc q r,
                  mc (rnd (rnd (s.bx - s.cx) * q)) (rnd (rnd (s.bx - s.ax) * r))]
  if rnd (rnd (s.bx - u) * rnd (u - s.cx)) > 0 then
    -- parabolic u between b and c
    let m1 := mins [m0, mc s.bx u, mc u s.cx]
    let fu := f u
    if fu < s.fc then
      (.ret { s with ax := s.bx, bx := u, fa := s.fb, fb := fu, pm := mc fu s.fc }, [(u, m1)])
    else if fu > s.fb then
      (.ret { s with cx := u, fc := fu, pm := rmin (mc fu s.fc) (mc fu s.fb) }, [(u, m1)])
    else
      let u2 := rnd (s.cx + rnd (g * rnd (s.cx - s.bx)))
      let fu2 := f u2
      (.cont { ax := s.bx, bx := s.cx, cx := u2, fa := s.fb, fb := s.fc, fc := fu2, pm := 1 },
       [(u, m1), (u2, rmin (mc fu s.fc) (mc fu s.fb))])
  else if rnd (rnd (s.cx - u) * rnd (u - ulim)) > 0 then
    -- parabolic u between c and its allowed limit
    let m1 := mins [m0, mc s.bx u, mc u s.cx, mc u ulim]
    let fu := f u
    if fu < s.fc then
      let u2 := rnd (u + rnd (g * rnd (u - s.bx)))      -- as coded: (u - bx), evaluated before the shift
      let fu2 := f u2
      -- Shift3(bx,cx,u,u2); Shift3(fb,fc,fu,f(u2)); then Shift3(ax,bx,cx,u); Shift3(fa,fb,fc,fu)
      (.cont { ax := s.cx, bx := u, cx := u2, fa := s.fc, fb := fu, fc := fu2, pm := 1 },
       [(u, m1), (u2, mc fu s.fc)])
    else
      (.cont { ax := s.bx, bx := s.cx, cx := u, fa := s.fb, fb := s.fc, fc := fu, pm := mc fu s.fc },
       [(u, m1)])
  else if rnd (rnd (u - ulim) * rnd (ulim - s.cx)) ≥ 0 then
    let m1 := mins [m0, mc s.bx u, mc u s.cx, mc u ulim, mc ulim s.cx]
    let fu := f ulim
    (.cont { ax := s.bx, bx := s.cx, cx := ulim, fa := s.fb, fb := s.fc, fc := fu, pm := 1 }, [(ulim, m1)])
  else
    let m1 := mins [m0, mc s.bx u, mc u s.cx, mc u ulim, mc ulim s.cx]
    let u2 := rnd (s.cx + rnd (g * rnd (s.cx - s.bx)))
    let fu := f u2
    (.cont { ax := s.bx, bx := s.cx, cx := u2, fa := s.fb, fb := s.fc, fc := fu, pm := 1 }, [(u2, m1)])

/-- `while(fb > fc) {…}` on fuel; `none` = fuel exhausted (the C++ would keep expanding) -/
def bracketLoop : Nat → Br → Option Br × List Ev
  | 0, s => if s.fb > s.fc then (none, []) else (some s, [])
  | n + 1, s =>
    if s.fb > s.fc then
      match bracketStep rnd f s with
      | (.ret s', t) => (some s', t)
      | (.cont s', t) =>
        let r := bracketLoop n s'
        (r.1, t ++ r.2)
    else (some { s with pm := rmin s.pm (mc s.fb s.fc) }, [])

def bracket (a b : Rat) (fuel : Nat) : Option Br × List Ev :=
  let i := bracketInit rnd f a b
  let r := bracketLoop rnd f fuel i.1
  (r.1, i.2 ++ r.2)

/-! ## Brent::Minimize -/

structure Bt where
  a : Rat
  b : Rat
  d : Rat
  e : Rat
  x : Rat
  w : Rat
  v : Rat
  fx : Rat
  fw : Rat
  fv : Rat
  pm : Rat
  deriving Repr

/-- lines 713–716 -/
def brentInit (s : Br) : Bt × List Ev :=
  let a := if s.ax < s.cx then s.ax else s.cx
  let b := if s.ax > s.cx then s.ax else s.cx
  let fx := f s.bx
  ({ a := a, b := b, d := 0, e := 0, x := s.bx, w := s.bx, v := s.bx, fx := fx, fw := fx, fv := fx, pm := 1 },
   [(s.bx, rmin s.pm (mc s.ax s.cx))])

/-- golden-section step into the larger of the two parts: `(d, e)` -/
def goldenStep (s : Bt) (xm : Rat) : Rat × Rat :=
  let e' := if s.x ≥ xm then rnd (s.a - s.x) else rnd (s.b - s.x)
  (rnd (rnd CGOLD * e'), e')

/-- the parabola through `(x,fx), (w,fw), (v,fv)`: sign-adjusted numerator `p`, absolute
    denominator `q` (lines 729–735), and the cancellation margin of the fit -/
def parabPQ (s : Bt) : Rat × Rat × Rat :=
  let r := rnd (rnd (s.x - s.w) * rnd (s.fx - s.fv))
  let q := rnd (rnd (s.x - s.v) * rnd (s.fx - s.fw))
  let t1 := rnd (rnd (s.x - s.v) * q)
  let t2 := rnd (rnd (s.x - s.w) * r)
  let p := rnd (t1 - t2)
  let q2 := rnd (2 * rnd (q - r))
  (if q2 > 0 then -p else p, rabs q2, mins [mc s.fx s.fv, mc s.fx s.fw, mc q r, mc t1 t2])

/-- the trial step `d` and the new `e` of one iteration (lines 727–749) -/
def brentDE (s : Bt) (xm tol1 tol2 : Rat) : Rat × Rat :=
  if rabs s.e > tol1 then
    let pq := parabPQ rnd s
    if rabs pq.1 ≥ rabs (rnd (rnd ((1/2) * pq.2.1) * s.e)) ∨ pq.1 ≤ rnd (pq.2.1 * rnd (s.a - s.x)) ∨
        pq.1 ≥ rnd (pq.2.1 * rnd (s.b - s.x)) then
      -- `e = d` happened before; then `e` is overwritten by the golden-section choice
      goldenStep rnd s xm
    else
      let d := rnd (pq.1 / pq.2.1)
      let u := rnd (s.x + d)
      if rnd (u - s.a) < tol2 ∨ rnd (s.b - u) < tol2 then (sign2 tol1 (rnd (xm - s.x)), s.d)
      else (d, s.d)
  else goldenStep rnd s xm

/-- smallest margin of the decisions and cancellations inside `brentDE` -/
def brentMargin (s : Bt) (xm tol1 tol2 : Rat) : Rat :=
  if rabs s.e > tol1 then
    let pq := parabPQ rnd s
    let c1 := rabs (rnd (rnd ((1/2) * pq.2.1) * s.e))
    let c2 := rnd (pq.2.1 * rnd (s.a - s.x))
    let c3 := rnd (pq.2.1 * rnd (s.b - s.x))
    let m := mins [mc (rabs s.e) tol1, pq.2.2, mc (rabs pq.1) c1, mc pq.1 c2, mc pq.1 c3]
    if rabs pq.1 ≥ c1 ∨ pq.1 ≤ c2 ∨ pq.1 ≥ c3 then rmin m (mc s.x xm)
    else
      let u := rnd (s.x + rnd (pq.1 / pq.2.1))
      mins [m, mc (rnd (u - s.a)) tol2, mc (rnd (s.b - u)) tol2, mc xm s.x]
  else rmin (mc (rabs s.e) tol1) (mc s.x xm)

/-- the trial step `d`, the new `e`, and the margin -/
def brentTrial (s : Bt) (xm tol1 tol2 : Rat) : Rat × Rat × Rat :=
  ((brentDE rnd s xm tol1 tol2).1, (brentDE rnd s xm tol1 tol2).2, brentMargin rnd s xm tol1 tol2)

inductive BtStep where
  | stop (m : Rat)            -- the convergence test fired (return `x`); margin of that test
  | next (s : Bt) (ev : Ev)

/-- one pass through the `for` body -/
def brentIter (tol : Rat) (s : Bt) : BtStep :=
  let xm := rnd ((1/2) * rnd (s.a + s.b))
  let tol1 := rnd (rnd (tol * rabs s.x) + ZEPS)
  let tol2 := rnd (2 * tol1)
  let lhs := rabs (rnd (s.x - xm))
  let hw := rnd ((1/2) * rnd (s.b - s.a))
  let rhs := rnd (tol2 - hw)
  let mstop := mg (lhs - rhs) (lhs + rabs tol2 + rabs hw)
  if lhs ≤ rhs then .stop (rmin s.pm mstop)
  else
    let tr := brentTrial rnd s xm tol1 tol2
    let d := tr.1
    let e := tr.2.1
    let u := if rabs d ≥ tol1 then rnd (s.x + d) else rnd (s.x + sign2 tol1 d)
    let mu := mins [s.pm, mstop, tr.2.2, mc (rabs d) tol1]
    let fu := f u
    if fu ≤ s.fx then
      let a := if u ≥ s.x then s.x else s.a
      let b := if u ≥ s.x then s.b else s.x
      .next ({ a := a, b := b, d := d, e := e, x := u, w := s.x, v := s.w, fx := fu, fw := s.fx, fv := s.fw,
                pm := mc fu s.fx } : Bt) (u, mu)
    else
      let a := if u < s.x then u else s.a
      let b := if u < s.x then s.b else u
      if fu ≤ s.fw ∨ s.w = s.x then
        .next ({ s with a := a, b := b, d := d, e := e, v := s.w, w := u, fv := s.fw, fw := fu,
                          pm := rmin (mc fu s.fx) (mc fu s.fw) }) (u, mu)
      else if fu ≤ s.fv ∨ s.v = s.x ∨ s.v = s.w then
        .next ({ s with a := a, b := b, d := d, e := e, v := u, fv := fu,
                          pm := mins [mc fu s.fx, mc fu s.fw, mc fu s.fv] }) (u, mu)
      else
        .next ({ s with a := a, b := b, d := d, e := e,
                          pm := mins [mc fu s.fx, mc fu s.fw, mc fu s.fv] }) (u, mu)

inductive Out1 where
  | ok (xmin fmin : Rat) (m : Rat)   -- `x_min`, `f_min`; margin of the final convergence test
  | tooMany                -- "Too many iterations": diagnostic + exit
  | noBracket              -- fuel of the bracketing loop exhausted (non-termination in the C++)
  deriving Repr

/-- `for(iter = 0; iter < ITMAX; iter++)` -/
def brentLoop (tol : Rat) : Nat → Bt → Out1 × List Ev
  | 0, _ => (.tooMany, [])
  | n + 1, s =>
    match brentIter rnd f tol s with
    | .stop m => (.ok s.x s.fx m, [])
    | .next s' ev =>
      let r := brentLoop tol n s'
      (r.1, ev :: r.2)

def brent (tol : Rat) (s : Br) : Out1 × List Ev :=
  let i := brentInit f s
  let r := brentLoop rnd f tol ITMAX i.1
  (r.1, i.2 ++ r.2)

/-- `Find_Minimum(func, xLeft, xRight, tol)` -/
def findMinimum (xl xr tol : Rat) (fuel : Nat) : Out1 × List Ev :=
  match bracket rnd f xl xr fuel with
  | (none, t) => (.noBracket, t)
  | (some s, t) =>
    let r := brent rnd f tol s
    (r.1, t ++ r.2)

/-! ### a variant that does not evaluate the objective a second time at `bx`
    (the evaluation COUNT in one dimension is not part of the property: `Brent::Minimize` may start
    from the value `fb` that `Bracket` already holds) -/

def brentInitNR (s : Br) : Bt :=
  { a := if s.ax < s.cx then s.ax else s.cx, b := if s.ax > s.cx then s.ax else s.cx, d := 0, e := 0,
    x := s.bx, w := s.bx, v := s.bx, fx := s.fb, fw := s.fb, fv := s.fb, pm := 1 }

def brentNR (tol : Rat) (s : Br) : Out1 × List Ev := brentLoop rnd f tol ITMAX (brentInitNR s)

def findMinimumNR (xl xr tol : Rat) (fuel : Nat) : Out1 × List Ev :=
  match bracket rnd f xl xr fuel with
  | (none, t) => (.noBracket, t)
  | (some s, t) =>
    let r := brentNR rnd f tol s
    (r.1, t ++ r.2)

end OneDim

/-- an objective answered from a table of earlier evaluations where possible (memoisation) -/
def memoised (f : Rat → Rat) (cache : List (Rat × Rat)) (x : Rat) : Rat :=
  match cache.lookup x with
  | some v => v
  | none => f x

/-- `Find_Maximum`: the objective is wrapped as `-1.0 * func(x)` (exact in floating point) -/
def findMaximum (rnd : Rat → Rat) (f : Rat → Rat) (xl xr tol : Rat) (fuel : Nat) : Out1 × List Ev :=
  findMinimum rnd (fun x => -1 * f x) xl xr tol fuel

/-! ## Minimization::minimize (Nelder–Mead) -/

abbrev Pt := List Rat
/-- an evaluation event in several dimensions -/
abbrev EvN := Pt × Rat

section NelderMead
variable (rnd : Rat → Rat) (f : Pt → Rat)

structure NM where
  p : List Pt          -- current_simplex
  y : List Rat
  psum : Pt
  nfunc : Nat
  deriving Repr

/-- `get_psum`: column sums, accumulated from `0.0` in row order -/
def colSum (p : List Pt) (j : Nat) : Rat := p.foldl (fun s row => rnd (s + row.getD j 0)) 0
def getPsum (ndim : Nat) (p : List Pt) : Pt := (List.range ndim).map (colSum rnd p)

/-- the trial point of `amotry` -/
def ptryOf (ndim : Nat) (psum ph : Pt) (fac : Rat) : Pt :=
  let fac1 := rnd (rnd (1 - fac) / (ndim : Rat))
  let fac2 := rnd (fac1 - fac)
  (List.range ndim).map (fun j => rnd (rnd (psum.getD j 0 * fac1) - rnd (ph.getD j 0 * fac2)))

/-- `amotry`: returns the new state, `ytry` and the trial point -/
def amotry (ndim : Nat) (s : NM) (ihi : Nat) (fac : Rat) : NM × Rat × Pt :=
  let ph := s.p.getD ihi []
  let ptry := ptryOf rnd ndim s.psum ph fac
  let ytry := f ptry
  if ytry < s.y.getD ihi 0 then
    ({ s with y := s.y.set ihi ytry,
              psum := (List.range ndim).map (fun j => rnd (s.psum.getD j 0 + rnd (ptry.getD j 0 - ph.getD j 0))),
              p := s.p.set ihi ptry }, ytry, ptry)
  else (s, ytry, ptry)

structure Scan where
  ilo : Nat
  ihi : Nat
  inhi : Nat
  m : Rat       -- smallest margin of the comparisons made

def scanStep (y : List Rat) (c : Scan) (i : Nat) : Scan :=
  let yi := y.getD i 0
  let ilo := if yi ≤ y.getD c.ilo 0 then i else c.ilo
  let m1 := rmin c.m (mc yi (y.getD c.ilo 0))
  if yi > y.getD c.ihi 0 then { ilo := ilo, ihi := i, inhi := c.ihi, m := rmin m1 (mc yi (y.getD c.ihi 0)) }
  else if yi > y.getD c.inhi 0 ∧ i ≠ c.ihi then
    { ilo := ilo, ihi := c.ihi, inhi := i, m := mins [m1, mc yi (y.getD c.ihi 0), mc yi (y.getD c.inhi 0)] }
  else { ilo := ilo, ihi := c.ihi, inhi := c.inhi, m := mins [m1, mc yi (y.getD c.ihi 0), mc yi (y.getD c.inhi 0)] }

/-- the ihi / inhi / ilo scan of lines 846–860 -/
def scan (y : List Rat) : Scan :=
  let c0 : Scan := if y.getD 0 0 > y.getD 1 0 then { ilo := 0, ihi := 0, inhi := 1, m := mc (y.getD 0 0) (y.getD 1 0) }
                   else { ilo := 0, ihi := 1, inhi := 0, m := mc (y.getD 0 0) (y.getD 1 0) }
  (List.range y.length).foldl (scanStep y) c0

/-- one vertex of the shrink step: the new vertex is written through `psum` and evaluated there -/
def shrinkVertex (ndim : Nat) (pi plo : Pt) : Pt :=
  (List.range ndim).map (fun j => rnd (K.nmShrink * rnd (pi.getD j 0 + plo.getD j 0)))

/-- the shrink loop over `i ≠ ilo`, in index order (`p[ilo]` itself is never written, so
    `plo` is the same row throughout): new rows and new values; row `ilo` keeps both -/
def shrinkAll (ndim ilo : Nat) (plo : Pt) : Nat → List Pt → List Rat → List Pt × List Rat
  | _, [], _ => ([], [])
  | i, row :: rest, ys =>
    let r := shrinkAll ndim ilo plo (i + 1) rest ys.tail
    if i = ilo then (row :: r.1, ys.headD 0 :: r.2)
    else
      let v := shrinkVertex rnd ndim row plo      -- written through `psum`
      (v :: r.1, f v :: r.2)                      -- `y[i] = func(psum)`

def swap0 {α} (l : List α) (i : Nat) (dflt : α) : List α :=
  (l.set 0 (l.getD i dflt)).set i (l.getD 0 dflt)

inductive OutN where
  | ok (pmin : Pt) (fmin : Rat) (s : NM) (m : Rat)   -- margin of the final `rtol < ftol`
  | nmax                   -- "NMAX exceeded": diagnostic + exit
  | shape                  -- malformed simplex / deltas vector: diagnostic + exit before any evaluation
  | fuel                   -- fuel exhausted (unreachable with fuel > NMAX)
  deriving Repr

inductive NMStep where
  | done (pmin : Pt) (fmin : Rat) (s : NM) (m : Rat)
  | nmax
  | cont (s : NM) (tr : List EvN)

/-- the simplex has shrunk to the resolution of the coordinates of its best vertex:
    `|p[i][j] - p[ilo][j]| <= c * ndim * eps * |p[ilo][j]|` for every vertex and coordinate.
    Mirrors the return added to the source for that case; `false` while the source has none
    (`Feat.collapseFactor = none`). -/
def collapsed (ndim : Nat) (p : List Pt) (ilo : Nat) : Bool :=
  match Feat.collapseFactor with
  | none => false
  | some c =>
    let res := rnd (rnd (c * (ndim : Rat)) * ZEPS)
    let plo := p.getD ilo []
    p.all (fun row => (List.range ndim).all (fun j =>
      decide (¬ rabs (rnd (row.getD j 0 - plo.getD j 0)) > rnd (res * rabs (plo.getD j 0)))))

/-- one pass through the body of `for(;;)` -/
def nmStep (ftol : Rat) (ndim : Nat) (s : NM) : NMStep :=
  let c := scan s.y
  let yhi := s.y.getD c.ihi 0
  let ylo := s.y.getD c.ilo 0
  let rtol := rnd (rnd (K.nmRtolTwo * rabs (rnd (yhi - ylo))) / rnd (rnd (rabs yhi + rabs ylo) + rnd TINYN))
  if rtol < ftol ∨ collapsed rnd ndim s.p c.ilo = true then
    let y' := swap0 s.y c.ilo 0
    let p' := swap0 s.p c.ilo []
    .done (p'.getD 0 []) (y'.getD 0 0) { s with y := y', p := p' } (rmin c.m (mc rtol ftol))
  else if s.nfunc ≥ NMAX then .nmax
  else
    let m0 := rmin c.m (mc rtol ftol)
    let s0 := { s with nfunc := s.nfunc + 2 }
    let r1 := amotry rnd f ndim s0 c.ihi K.nmReflect
    let s1 := r1.1
    let ytry := r1.2.1
    let ev1 : EvN := (r1.2.2, m0)
    let macc1 := mc ytry yhi   -- margin of the acceptance test inside amotry
    if ytry ≤ s1.y.getD c.ilo 0 then
      let r2 := amotry rnd f ndim s1 c.ihi K.nmExpand
      .cont r2.1 [ev1, (r2.2.2, rmin macc1 (mc ytry (s1.y.getD c.ilo 0)))]
    else if ytry ≥ s1.y.getD c.inhi 0 then
      let ysave := s1.y.getD c.ihi 0
      let r2 := amotry rnd f ndim s1 c.ihi K.nmContract
      let s2 := r2.1
      let ytry2 := r2.2.1
      let ev2 : EvN := (r2.2.2, mins [macc1, mc ytry (s1.y.getD c.ilo 0), mc ytry (s1.y.getD c.inhi 0)])
      if ytry2 ≥ ysave then
        let plo := s2.p.getD c.ilo []
        let sh := shrinkAll rnd f ndim c.ilo plo 0 s2.p s2.y
        let evs : List EvN := ((List.range sh.1.length).filter (· ≠ c.ilo)).map
          (fun i => (sh.1.getD i [], mc ytry2 ysave))
        .cont { p := sh.1, y := sh.2, psum := getPsum rnd ndim sh.1, nfunc := s2.nfunc + ndim } ([ev1, ev2] ++ evs)
      else .cont s2 [ev1, ev2]
    else .cont { s1 with nfunc := s1.nfunc - 1 } [ev1]

def nmLoop (ftol : Rat) (ndim : Nat) : Nat → NM → OutN × List EvN
  | 0, _ => (.fuel, [])
  | n + 1, s =>
    match nmStep rnd f ftol ndim s with
    | .done pmin fmin s' m => (.ok pmin fmin s' m, [])
    | .nmax => (.nmax, [])
    | .cont s' tr =>
      let r := nmLoop ftol ndim n s'
      (r.1, tr ++ r.2)

/-- the shape guard at the top of `minimize(pp, func)`: `n + 1` vertices of `n >= 1` coordinates
    each (`pp.size() >= 2 && pp.size() == pp[0].size() + 1`, all rows of the length of the first) -/
def validSimplex (pp : List Pt) : Bool :=
  decide (2 ≤ pp.length) && decide (pp.length = (pp.getD 0 []).length + 1) &&
  pp.all (fun r => decide (r.length = (pp.getD 0 []).length))

/-- `minimize(pp, func)`: the general overload.  A malformed simplex stops with a diagnostic before
    the objective is evaluated (`.shape`, empty trace).  (The `Option` is kept for the aliased calls
    whose argument itself is undefined in the C++.) -/
def nelderMead (ftol : Rat) (pp : List Pt) (fuel : Nat) : Option (OutN × List EvN) :=
  if validSimplex pp then
    let ndim := (pp.getD 0 []).length
    let s0 : NM := { p := pp, y := pp.map f, psum := getPsum rnd ndim pp, nfunc := 0 }
    let r := nmLoop rnd f ftol ndim fuel s0
    some (r.1, pp.map (fun v => (v, 1)) ++ r.2)
  else some (.shape, [])

/-- `minimize(pp, func)` called on an EXISTING object `obj` (whatever earlier runs left in
    `current_simplex`, `y`, `nfunc`): the member function overwrites `mpts`, `ndim`,
    `current_simplex`, every `y[i]` (`y.resize(mpts)` then the loop over all `i < mpts`), and
    resets `nfunc = 0`; `psum` is a local.  Nothing of `obj` survives. -/
def nelderMeadOn (obj : NM) (ftol : Rat) (pp : List Pt) (fuel : Nat) : Option (OutN × List EvN) :=
  if validSimplex pp then
    let ndim := (pp.getD 0 []).length
    let s0 : NM := { obj with p := pp, y := pp.map f, psum := getPsum rnd ndim pp, nfunc := 0 }
    let r := nmLoop rnd f ftol ndim fuel s0
    some (r.1, pp.map (fun v => (v, 1)) ++ r.2)
  else some (.shape, [])

/-- the initial simplex of the `deltas` overload: row 0 the starting point, row `i ≥ 1` the
    starting point with `deltas[i-1]` added to coordinate `i-1` -/
def simplexOf (start deltas : Pt) : List Pt :=
  (List.range (start.length + 1)).map (fun i =>
    (List.range start.length).map (fun j =>
      if i ≠ 0 ∧ j = i - 1 then rnd (start.getD j 0 + deltas.getD j 0) else start.getD j 0))

/-- `minimize(starting_point, deltas, func)`; its guard: a non-empty point and exactly one
    displacement per coordinate, else a diagnostic before any evaluation -/
def nelderMeadDeltas (ftol : Rat) (start deltas : Pt) (fuel : Nat) : Option (OutN × List EvN) :=
  if start = [] ∨ deltas.length ≠ start.length then some (.shape, [])
  else nelderMead rnd f ftol (simplexOf rnd start deltas) fuel

/-- `minimize(starting_point, delta, func)` -/
def nelderMeadDelta (ftol : Rat) (start : Pt) (delta : Rat) (fuel : Nat) : Option (OutN × List EvN) :=
  nelderMeadDeltas rnd f ftol start (List.replicate start.length delta) fuel

end NelderMead

/-- a sequence of runs on ONE `Minimization` object: each run has its own objective and simplex;
    the object state left by a run is handed to the next one -/
def nmSeqOn (rnd : Rat → Rat) (ftol : Rat) (fuel : Nat) : NM → List ((Pt → Rat) × List Pt) → List (Option (OutN × List EvN))
  | _, [] => []
  | obj, (f, pp) :: rest =>
    let r := nelderMeadOn rnd f obj ftol pp fuel
    let obj' := match r with
      | some (.ok _ _ s _, _) => s
      | _ => obj
    r :: nmSeqOn rnd ftol fuel obj' rest

/-- where the simplex argument of a run comes from.  The last three are the ALIASED calls of the
    C++ (`m.minimize(m.current_simplex, f)`, `m.minimize(m.current_simplex[0], deltas, f)`, …: the
    Numerical-Recipes restart idiom).  The model has value semantics: an aliased argument is simply
    the value the object holds when the call is made. -/
inductive Arg where
  | simplex (pp : List Pt)
  | own
  | ownDeltas (deltas : Pt)
  | ownDelta (delta : Rat)

/-- the simplex a run starts from; `none` = undefined in the C++ (`current_simplex[0]` of an object
    that has not run yet, `deltas` shorter than the point) -/
def argSimplex (rnd : Rat → Rat) (obj : NM) : Arg → Option (List Pt)
  | .simplex pp => some pp
  | .own => some obj.p
  | .ownDeltas ds =>
    match obj.p with
    | [] => none
    | st :: _ => if ds.length ≠ st.length then some [] else some (simplexOf rnd st ds)   -- `[]`: rejected by the guard
  | .ownDelta d =>
    match obj.p with
    | [] => none
    | st :: _ => some (simplexOf rnd st (List.replicate st.length d))

/-- one run on the object `obj` with a possibly aliased argument -/
def runArg (rnd : Rat → Rat) (f : Pt → Rat) (obj : NM) (ftol : Rat) (fuel : Nat) (a : Arg) : Option (OutN × List EvN) :=
  match argSimplex rnd obj a with
  | none => none
  | some pp => nelderMeadOn rnd f obj ftol pp fuel

/-- a sequence of runs on ONE object, arguments possibly aliasing the object's own simplex -/
def nmSeqArgs (rnd : Rat → Rat) (ftol : Rat) (fuel : Nat) : NM → List ((Pt → Rat) × Arg) → List (Option (OutN × List EvN))
  | _, [] => []
  | obj, (f, a) :: rest =>
    let r := runArg rnd f obj ftol fuel a
    let obj' := match r with
      | some (.ok _ _ s _, _) => s
      | _ => obj
    r :: nmSeqArgs rnd ftol fuel obj' rest

/-- re-entrant use: the objective of an outer run is itself computed by an inner run —
    `F(x) = fmin` of `minimize(t0, deltaIn, t ↦ g(x ++ t))` on an object of its own, created inside
    the callback.  `none` = the inner request is undefined or exits with a diagnostic. -/
def nestedObjective (rnd : Rat → Rat) (g : Pt → Rat) (ftolIn : Rat) (t0 : Pt) (deltaIn : Rat) (fuel : Nat) (x : Pt) : Option Rat :=
  match nelderMeadDelta rnd (fun t => g (x ++ t)) ftolIn t0 deltaIn fuel with
  | some (.ok _ fmin _ _, _) => some fmin
  | _ => none

/-- the outer run: nothing but `minimize(start, delta, F)` — the inner runs share no state with it
    (in the C++: `ptry`, `psum`, `x` are locals of the member functions, the inner object is another object) -/
def nelderMeadNested (rnd : Rat → Rat) (g : Pt → Rat) (ftolOut : Rat) (start : Pt) (delta : Rat)
    (ftolIn : Rat) (t0 : Pt) (deltaIn : Rat) (fuel : Nat) : Option (OutN × List EvN) :=
  nelderMeadDelta rnd (fun x => (nestedObjective rnd g ftolIn t0 deltaIn fuel x).getD 0) ftolOut start delta fuel

/-! ## objective language of the requests (reverse Polish, one rounding per arithmetic op) -/

inductive Tok where
  | var (j : Nat)
  | const (c : Rat)
  | add | sub | mul | div | neg | dup | sq | abs | swap
  | sel          -- … t a b  ↦  (t < 0 ? a : b)
  | unsupported  -- transcendental ops (cosh): evaluated by the harness only
  deriving Repr

def stepTok (rnd : Rat → Rat) (x : Pt) (st : Option (List Rat)) (t : Tok) : Option (List Rat) :=
  match st with
  | none => none
  | some st =>
    match t, st with
    | .var j, st => if j < x.length then some (x.getD j 0 :: st) else none
    | .const c, st => some (c :: st)
    | .add, b :: a :: r => some (rnd (a + b) :: r)
    | .sub, b :: a :: r => some (rnd (a - b) :: r)
    | .mul, b :: a :: r => some (rnd (a * b) :: r)
    | .div, b :: a :: r => if b = 0 then none else some (rnd (a / b) :: r)
    | .neg, a :: r => some (-a :: r)
    | .dup, a :: r => some (a :: a :: r)
    | .sq, a :: r => some (rnd (a * a) :: r)
    | .abs, a :: r => some (rabs a :: r)
    | .swap, b :: a :: r => some (a :: b :: r)
    | .sel, b :: a :: t :: r => some ((if t < 0 then a else b) :: r)
    | _, _ => none

def evalRPN (rnd : Rat → Rat) (prog : List Tok) (x : Pt) : Option Rat :=
  match prog.foldl (stepTok rnd x) (some []) with
  | some [v] => some v
  | _ => none

end Lp.C11
