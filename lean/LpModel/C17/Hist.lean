/-
  C17 — state that could make a C17 function depend on *when* or *how often* it is called
  (class D correspondence): the table of Dawson coefficients `c[i] = exp(−((2i+1)H)²)` and the
  result buffers of the vector spherical harmonics.  The C++ as coded refills the table inside
  every call and returns the vectors by value; the model makes the table an explicit parameter so
  that "a table that has not been initialised yet (all zeros)" can be stated.  Core-only.
-/
import LpModel.C17
namespace Lp.C17

/-- the loop of `dawsonLoop` with the coefficients read from a table `c` -/
def dawsonLoopC (c : Nat → Rat) (e2 : Rat) : Nat → Nat → Rat → Rat → Rat → Rat → Rat
  | 0, _, _, _, _, sum => sum
  | f + 1, i, d1, d2, e1, sum =>
    dawsonLoopC c e2 f (i + 1) (d1 + 2) (d2 - 2) (e1 * e2) (sum + c i * (e1 / d1 + 1 / (d2 * e1)))

/-- the table the code fills: `c[i] = exp(−(2i+1)²H²)` -/
def dawsonTable (exp : Rat → Rat) (i : Nat) : Rat :=
  exp (-((2 * (i : Rat) + 1) * (2 * (i : Rat) + 1) * dawsonH * dawsonH))

/-- sampling-sum branch with the coefficient table as a parameter -/
def dawsonLargeC (exp : Rat → Rat) (c : Nat → Rat) (x : Rat) : Rat :=
  let xx := rabs x
  let n0 : Int := 2 * (((1 / 2 : Rat) * xx / dawsonH + 1 / 2).floor)
  let xp := xx - (n0 : Rat) * dawsonH
  let e1 := exp (2 * xp * dawsonH)
  let e2 := e1 * e1
  let d1 : Rat := (n0 : Rat) + 1
  let d2 := d1 - 2
  dawsonPref * sign2 (exp (-(xp * xp))) x * dawsonLoopC c e2 6 0 d1 d2 e1 0

/-- a call history of a function, answered call by call (what the harness observes) -/
def history {α β} (f : α → β) (calls : List α) : List β := calls.map f

/-- a one-entry cache in front of a function: the stored answer is returned when the stored key is
    `near` the argument, otherwise the function is evaluated and the entry replaced (the shape of
    every "remember the last evaluation" optimisation) -/
def cachedStep {α β} (near : α → α → Bool) (f : α → β) (st : Option (α × β)) (x : α) : Option (α × β) × β :=
  match st with
  | some (k, v) => if near k x then (st, v) else (some (x, f x), f x)
  | none => (some (x, f x), f x)

def cachedHistory {α β} (near : α → α → Bool) (f : α → β) : Option (α × β) → List α → List β
  | _, [] => []
  | st, x :: r => (cachedStep near f st x).2 :: cachedHistory near f (cachedStep near f st x).1 r

/-- the cache entry is consistent: it holds the function value of its key -/
def CacheOK {α β} (f : α → β) (st : Option (α × β)) : Prop := ∀ k v, st = some (k, v) → v = f k

end Lp.C17
