/-
  `Sign(double)` and `Round(double, unsigned)` of src/Special_Functions.cpp §1 over exact rationals.
  Shared by C17 (laws of Round) and C20 (`In_Units(…, round = true, digits)`).  Core-only.
-/
import LpModel.C17.Dec
namespace Lp.C17
open Lp.Dec

inductive Err where
  | diag : Err      -- the C++ prints a diagnostic and exits with failure
  deriving DecidableEq, Repr

/-- `int Sign(double)` -/
def sign1 (x : Rat) : Int := if x > 0 then 1 else if x = 0 then 0 else -1

/-- `Round(N, digits)` with the value `e` that `floor(log10(|N|))` returned as a parameter
    (a rounded `log10` may return a neighbour of the exact exponent next to a power of ten:
    `Admissible`).  As coded (after 710b478, fbce818): the `digits > 7` guard, then the zero test, then
    `sign · (floor(|N|·10^(−e)·10^(digits−1) + 0.5) · 10^(−digits+1)) · 10^e`.
    `digits = 0` is outside the model (`digits − 1` wraps in `unsigned`); the driver answers `undef`. -/
def roundSig (N : Rat) (d : Nat) (e : Int) : Except Err Rat :=
  if d > 7 then .error .diag
  else if N = 0 then .ok 0
  else
    let sign : Rat := (sign1 N : Int)
    let a := N * sign
    let pref := a * pow10 (-e)
    let p : Rat := ((pref * pow10 ((d : Int) - 1) + 1 / 2).floor : Int)
    -- fbce818: a carry to the next power of ten (9.96 → 10.0 for three digits) is written as
    -- 1.00 times the next power: `if(prefactor >= pow(10.0, digits)) { prefactor /= 10.0; DecimalPower += 1.0; }`
    let carry : Bool := decide (p ≥ pow10 (d : Int))
    let p' : Rat := if carry then p / 10 else p
    let e' : Int := if carry then e + 1 else e
    .ok (sign * (p' * pow10 (-(d : Int) + 1)) * pow10 e')

/-- `Round` as coded before fbce818 (no carry normalisation). Over exact rationals the carry branch
    does not change the value (`round_carry_noop`); in double arithmetic `10.0·10^k` and
    `1.0·10^(k+1)` are often different doubles, which made the old code not idempotent. -/
def roundSigNoCarry (N : Rat) (d : Nat) (e : Int) : Except Err Rat :=
  if d > 7 then .error .diag
  else if N = 0 then .ok 0
  else
    let sign : Rat := (sign1 N : Int)
    let a := N * sign
    let pref := a * pow10 (-e)
    let p : Rat := ((pref * pow10 ((d : Int) - 1) + 1 / 2).floor : Int)
    .ok (sign * (p * pow10 (-(d : Int) + 1)) * pow10 e)

/-- `Round` as coded after f9320d5: zero significant digits are rejected like more than seven (before,
    `Round(x, 0)` was `inf`: `digits − 1` wraps in `unsigned`); `roundSig` is the part for `digits ≥ 1` -/
def roundSigG (N : Rat) (d : Nat) (e : Int) : Except Err Rat :=
  if d = 0 then .error .diag else roundSig N d e

/-- the exponents `floor(log10 a)` may deliver for `a > 0`: the exact one, or its neighbour when
    `a` is within `10⁻¹⁵` (relative) of the power of ten that separates them -/
def Admissible (a : Rat) (e : Int) : Prop :=
  (pow10 e ≤ a ∧ a < pow10 (e + 1)) ∨
  (pow10 e * (1 - 1 / 10 ^ 15) ≤ a ∧ a < pow10 e) ∨
  (pow10 (e + 1) ≤ a ∧ a ≤ pow10 (e + 1) * (1 + 1 / 10 ^ 15))

/-- `Round` with the exact exponent (what the driver evaluates) -/
def round (N : Rat) (d : Nat) : Except Err Rat := roundSigG N d (expo10Fast (rabs N))

end Lp.C17
