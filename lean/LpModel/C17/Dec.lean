/-
  Decimal exponent of a positive rational, shared by the models of `Round` (C17) and of the
  six-significant-digit stream output (C20).  Core-only.
-/
import LpModel.Basic
namespace Lp.Dec

def pow10 (e : Int) : Rat := (10 : Rat) ^ e

/-- smallest `k ≥ k₀` with `x < 10^(k+1)` (search upwards, `x ≥ 10^k₀`) -/
def expoUp (x : Rat) : Nat → Int → Int
  | 0, k => k
  | f + 1, k => if x < pow10 (k + 1) then k else expoUp x f (k + 1)

/-- largest `k ≤ k₀` with `10^k ≤ x` (search downwards, `x < 10^(k₀+1)`) -/
def expoDown (x : Rat) : Nat → Int → Int
  | 0, k => k
  | f + 1, k => if pow10 k ≤ x then k else expoDown x f (k - 1)

/-- `⌊log₁₀ x⌋` for `x > 0`: the `e` with `10^e ≤ x < 10^(e+1)` (theorem `expo10_spec`);
    the fuel (numerator resp. denominator) always suffices. -/
def expo10 (x : Rat) : Int :=
  if 1 ≤ x then expoUp x x.num.toNat 0 else expoDown x x.den (-1)

/-- `10^e ≤ x < 10^(e+1)` -/
def isExpo (x : Rat) (e : Int) : Bool := decide (pow10 e ≤ x) && decide (x < pow10 (e + 1))

/-- estimate from the bit lengths of numerator and denominator (`log₁₀ 2 ≈ 30103/100000`) -/
def expoGuess (x : Rat) : Int :=
  (((x.num.toNat.log2 : Int) - (x.den.log2 : Int)) * 30103) / 100000

/-- fast evaluation of `expo10`: a checked guess (the exponent is unique: theorem
    `expo10Fast_eq`), falling back to the search -/
def expo10Fast (x : Rat) : Int :=
  let g := expoGuess x
  if isExpo x g then g
  else if isExpo x (g + 1) then g + 1
  else if isExpo x (g - 1) then g - 1
  else expo10 x

end Lp.Dec
