/-
  C15 — QR factors and eigenpairs.
  Executable model of src/Linear_Algebra.cpp: Householder_Matrix, QR_Decomposition, Eigenvalues,
  Find_Eigenvector_Rayleigh, Eigensystem, Eigenvectors (and `Sign(double,double)`,
  `Relative_Difference` of Special_Functions.cpp as repaired by a32e880).
  Exact rationals, core-only.  Self-contained square-matrix helpers (row-major lists, entry
  access through `get`) so that the file does not depend on the C04 model.

  Parameters (DESIGN.md §3):
    * `sq : Rat → Rat`   — `sqrt` (theorems assume `sq y * sq y = y`, `0 ≤ sq y` at the arguments used);
    * `rnd : Rat → Rat`  — applied where the C++ rounds the entries of a matrix product / a quotient;
                           the driver passes `rndK 256`, theorems hold for every `rnd` (they are stated
                           for the algebraic skeleton, `LpProofs/C15.lean`);
    * `inv : Nat → Mat → Option Mat` — `Matrix::Inverse()` (property C05), `none` = it stops with
                           "not invertible" / "Diagonal element is zero".
-/
import LpModel.Basic
namespace Lp.C15

/-- row-major entries; all matrices here are square of an explicitly passed size `n` -/
abbrev Mat := List (List Rat)

def tab (n : Nat) (f : Nat → Nat → Rat) : Mat :=
  (List.range n).map fun i => (List.range n).map fun j => f i j

def get (A : Mat) (i j : Nat) : Rat := (A.getD i []).getD j 0

/-- `Σ_{k<n} t k`, accumulated from `0.0` upwards like the C++ loops -/
def sumTo (n : Nat) (t : Nat → Rat) : Rat := (List.range n).foldl (fun acc k => acc + t k) 0

def delta (i j : Nat) : Rat := if i = j then 1 else 0

def ident (n : Nat) : Mat := tab n delta

/-- `Matrix::operator*` on n×n operands; `rnd` at every entry -/
def mul (rnd : Rat → Rat) (n : Nat) (A B : Mat) : Mat :=
  tab n fun i j => rnd (sumTo n fun k => get A i k * get B k j)

def transpose (n : Nat) (A : Mat) : Mat := tab n fun i j => get A j i

/-- `Sub_Matrix(0,0)`: delete the first row and the first column of a k×k matrix -/
def sub00 (k : Nat) (A : Mat) : Mat := tab (k - 1) fun i j => get A (i + 1) (j + 1)

/-- `Sign(double)` and the two-argument `Sign(x,y)` of Special_Functions.cpp:
    `x` if `Sign(x) == Sign(y)`, else `-x` (so `Sign(x, 0) = -x` for `x ≠ 0`). -/
def sign1 (x : Rat) : Int := if x > 0 then 1 else if x = 0 then 0 else -1
def sign2 (x y : Rat) : Rat := if sign1 x = sign1 y then x else -x

/-- `Relative_Difference(a,b)` after a32e880 -/
def relDiff (a b : Rat) : Rat :=
  let d := rabs (a - b)
  if d = 0 then 0 else d / rmax (rabs a) (rabs b)

/-! ### Householder_Matrix(M): reflector built from the first column of the k×k matrix `A` -/

/-- the pieces: `alpha = Sign(‖x‖, −x₀)`, `w = x − alpha·e₁`, `‖w‖` -/
def hhAlpha (sq : Rat → Rat) (k : Nat) (A : Mat) : Rat :=
  sign2 (sq (sumTo k fun i => get A i 0 * get A i 0)) (-(get A 0 0))

def hhW (sq : Rat → Rat) (k : Nat) (A : Mat) (i : Nat) : Rat :=
  get A i 0 - hhAlpha sq k A * delta i 0

/-- the reflector branch of `Householder_Matrix`: `u = (x − alpha·e₁)/‖x − alpha·e₁‖`, `1 − 2uuᵀ`.
    `none`: `‖x − alpha·e₁‖ = 0` — cannot happen for a non-zero column with the coded sign of `alpha`
    (theorem `householder_isSome`). -/
def householderRefl (sq rnd : Rat → Rat) (k : Nat) (A : Mat) : Option Mat :=
  let alpha := hhAlpha sq k A
  let w : List Rat := (List.range k).map fun i => get A i 0 - alpha * delta i 0
  let nw := sq (sumTo k fun i => w.getD i 0 * w.getD i 0)
  if nw = 0 then none
  else
    let u : List Rat := w.map fun x => rnd (x / nw)
    some (tab k fun i j => rnd (delta i j - 2 * (u.getD i 0 * u.getD j 0)))

/-- `Householder_Matrix(M)` as coded since e9c6d4b: a zero first column (`x.Norm() == 0`) has nothing
    to reflect and gives the identity; otherwise the reflector. -/
def householder (sq rnd : Rat → Rat) (k : Nat) (A : Mat) : Option Mat :=
  if sq (sumTo k fun i => get A i 0 * get A i 0) = 0 then some (ident k)
  else householderRefl sq rnd k A

/-- block embedding `P = [[1_i, 0], [0, P_sub]]` of a (n−i)×(n−i) reflector -/
def embed (n i : Nat) (P : Mat) : Mat :=
  tab n fun a b => if a < i ∨ b < i then delta a b else get P (a - i) (b - i)

/-- `for j > i: R[j][i] = 0.0` -/
def zeroBelow (n i : Nat) (R : Mat) : Mat :=
  tab n fun a b => if b = i ∧ a > i then 0 else get R a b

/-! ### QR_Decomposition (square n×n) -/

/-- the loop body for column `i`, and the loop over `i = i₀ … n−1` (`steps` = iterations left).
    State: `Q`, `R`, `R_submatrix`. -/
def qrLoop (sq rnd : Rat → Rat) (n : Nat) : Nat → Nat → Mat → Mat → Mat → Option (Mat × Mat)
  | _, 0, Q, R, _ => some (Q, R)
  | i, steps + 1, Q, R, Rsub =>
    let k := n - i
    match householder sq rnd k Rsub with
    | none => none
    | some Psub =>
      let Rsub' := sub00 k (mul rnd k Psub Rsub)
      let P := embed n i Psub
      let R' := zeroBelow n i (mul rnd n P R)
      let Q' := mul rnd n Q P
      qrLoop sq rnd n (i + 1) steps Q' R' Rsub'

/-- `QR_Decomposition(M)` for a square matrix: `(Q, R)`; `none` = a zero pivot column (NaN) -/
def qrDecomposition (sq rnd : Rat → Rat) (n : Nat) (M : Mat) : Option (Mat × Mat) :=
  qrLoop sq rnd n 0 n (ident n) M M

/-- one step of the unshifted QR algorithm: `A ↦ R·Q` -/
def qrStep (sq rnd : Rat → Rat) (n : Nat) (A : Mat) : Option Mat :=
  match qrDecomposition sq rnd n A with
  | none => none
  | some (Q, R) => some (mul rnd n R Q)

/-! ### Eigenvalues -/

/-- the literal `1.0e-12` (the double nearest to it) -/
def convThreshold : Rat := (4951760157141521 : Rat) / (2 : Rat) ^ (92 : Int)

def diagSum (n : Nat) (A : Mat) : Rat := sumTo n fun j => rabs (get A j j)
/-- `Σ_j Σ_{k>j} |A[k][j]|` (the sub-diagonal mass) -/
def offSum (n : Nat) (A : Mat) : Rat :=
  sumTo n fun j => (List.range n).foldl (fun acc k => if k > j then acc + rabs (get A k j) else acc) 0

/-- the convergence test since 0850cf3: `off_diagonal_sum == 0.0 || off_diagonal_sum / eigenvalues_sum < 1.0e-12`
    — an iterate without sub-diagonal mass is converged (also the zero matrix, where the quotient is 0/0);
    otherwise, with a zero denominator the C++ quotient is `inf` and the comparison is false. -/
def converged (n : Nat) (A : Mat) : Bool :=
  decide (offSum n A = 0 ∨ (diagSum n A ≠ 0 ∧ offSum n A / diagSum n A < convThreshold))

def diagonal (n : Nat) (A : Mat) : List Rat := (List.range n).map fun j => get A j j

inductive EigOut where
  | ok : List Rat → Nat → EigOut     -- eigenvalues, number of QR steps taken
  | noconv : EigOut                  -- "did not converge in 200 steps": diagnostic + exit
  | nan : EigOut                     -- a zero column met on the way: not modelled
  deriving Repr

/-- the loop `for(i = i₀; i < imax; i++)` on `left = imax − i₀` iterations -/
def eigLoop (sq rnd : Rat → Rat) (n : Nat) : Nat → Nat → Mat → EigOut
  | _, 0, _ => .noconv
  | i, left + 1, A =>
    match qrStep sq rnd n A with
    | none => .nan
    | some A' =>
      if i > 10 ∧ converged n A' then .ok (diagonal n A') (i + 1)
      else eigLoop sq rnd n (i + 1) left A'

def eigenvalues (sq rnd : Rat → Rat) (n : Nat) (M : Mat) : EigOut := eigLoop sq rnd n 0 200 M

/-! ### Find_Eigenvector_Rayleigh / Eigensystem -/

def matVec (n : Nat) (A : Mat) (v : List Rat) : List Rat :=
  (List.range n).map fun i => sumTo n fun k => get A i k * v.getD k 0

def dotL (n : Nat) (u v : List Rat) : Rat := sumTo n fun i => u.getD i 0 * v.getD i 0

/-- `M − eigenvalue·I` -/
def shifted (n : Nat) (M : Mat) (ev : Rat) : Mat := tab n fun i j => get M i j - ev * delta i j

/-- `b.Normalize()`; the zero vector is not excluded by the C++ (0/0) — here division by `0` gives 0
    and the result is then not a unit vector (the theorem needs `‖b‖ ≠ 0`). -/
def normalize (sq : Rat → Rat) (n : Nat) (v : List Rat) : List Rat :=
  let nv := sq (dotL n v v)
  v.map (· / nv)

/-- the convergence measure `Σ_i Relative_Difference(|b_i|, |b_before_i|)` -/
def rayleighEps (n : Nat) (b b0 : List Rat) : Rat :=
  sumTo n fun i => relDiff (rabs (b.getD i 0)) (rabs (b0.getD i 0))

/-- literal `1.0e-10` (as a decimal; the comparison is far from any tie in practice) -/
def rayleighTol : Rat := 1 / 10000000000

inductive RayOut where
  | ok : List Rat → Rat → Nat → RayOut   -- vector, eigenvalue, iterations
  | err : RayOut                          -- `Inverse()` stopped with a diagnostic
  | fuel : RayOut                         -- fuel exhausted: the C++ `while` would still be running
  deriving Repr

/-- `while(epsilon > 1e-10) { b_before = b; b = (M − λI)⁻¹ b; b.Normalize(); λ = b·(M b); epsilon = … }` -/
def rayleighLoop (sq : Rat → Rat) (inv : Nat → Mat → Option Mat) (n : Nat) (M : Mat) :
    Nat → List Rat → Rat → Nat → RayOut
  | 0, _, _, _ => .fuel
  | fuel + 1, b, ev, it =>
    match inv n (shifted n M ev) with
    | none => .err
    | some X =>
      let b' := normalize sq n (matVec n X b)
      let ev' := dotL n b' (matVec n M b')
      let eps := rayleighEps n b' b
      if eps > rayleighTol then rayleighLoop sq inv n M fuel b' ev' (it + 1)
      else .ok b' ev' (it + 1)

/-- `Find_Eigenvector_Rayleigh(M, eigenvalue)`: starts from `b = (1,…,1)`, `epsilon = 1` -/
def findEigenvectorRayleigh (sq : Rat → Rat) (inv : Nat → Mat → Option Mat) (n : Nat) (M : Mat)
    (ev : Rat) (fuel : Nat) : RayOut :=
  rayleighLoop sq inv n M fuel (List.replicate n 1) ev 0

/-! ### an exact Gauss–Jordan inverse for the driver (the parameter `inv`); `none` = singular -/

def gjStep (n : Nat) (A : List (List Rat)) (i : Nat) : Option (List (List Rat)) :=
  -- first row at or below i with a non-zero entry in column i (exact arithmetic: any non-zero pivot)
  match (List.range n).find? (fun r => r ≥ i ∧ (A.getD r []).getD i 0 ≠ 0) with
  | none => none
  | some p =>
    let rowI := A.getD p []
    let rowP := A.getD i []
    let A1 := (List.range n).map fun r => if r = i then rowI else if r = p then rowP else A.getD r []
    let piv := rowI.getD i 0
    let rowN := rowI.map (· / piv)
    some ((List.range n).map fun r =>
      if r = i then rowN
      else
        let row := A1.getD r []
        let f := row.getD i 0
        (List.range (2 * n)).map fun c => row.getD c 0 - f * rowN.getD c 0)

def inverseExact (n : Nat) (A : Mat) : Option Mat :=
  let aug : List (List Rat) := (List.range n).map fun i =>
    (List.range (2 * n)).map fun c => if c < n then get A i c else delta i (c - n)
  match (List.range n).foldl (fun acc i => match acc with | none => none | some B => gjStep n B i) (some aug) with
  | none => none
  | some B => some (tab n fun i j => (B.getD i []).getD (n + j) 0)

/-- square root for the driver: exact on rational squares, else relative precision 2^-k -/
def sqApprox (k : Nat) (y : Rat) : Rat :=
  if y ≤ 0 then 0 else
  let n := y.num.toNat
  let d := y.den
  let rn := Nat.sqrt n
  let rd := Nat.sqrt d
  if rn * rn = n ∧ rd * rd = d then (rn : Rat) / (rd : Rat)
  else (Nat.sqrt (n * d * 4 ^ k) : Rat) / ((d : Rat) * (2 : Rat) ^ (k : Int))

end Lp.C15
