/-
  C02 — `Find_Root` (Ridder's method), src/Numerics.cpp §2, as coded after commits e02ed3d (Ridders' formula on function values scaled by a power of two, midpoint fallback), 0ee7d00
  (the loop terminates on the width of the re-bracketed interval) and 008fb03 (the new iterate is
  clamped into the current bracket), with the two-argument `Sign(x,y)` of
  src/Special_Functions.cpp.  Exact rationals, core-only.

  Parameters: the user function `f : Rat → Option Rat` (`none` = NaN), the square root
  `sq : Rat → Rat` (theorems state what they need of it), and a rounding `rnd : Rat → Rat`
  applied to the new iterate `x4` (where the C++ rounds the result of sqrt and division); the
  theorems are about `findRoot` = exact arithmetic (`rnd = id`), the driver passes a rounding to 200 significant bits so
  that 2200 iterations stay bounded.
-/
import LpModel.Basic
namespace Lp.C02

/-- `Sign(double)` -/
def sign1 (x : Rat) : Int := if x > 0 then 1 else if x = 0 then 0 else -1

/-- `Sign(double x, double y)`: `x` if the signs agree, `-1.0 * x` otherwise -/
def sign2 (x y : Rat) : Rat := if sign1 x = sign1 y then x else -1 * x

inductive Outcome where
  | root (r : Rat)        -- normal return
  | errNaN                -- "Function returns nan at the brackets", exit
  | errNoSignChange       -- "f(xLeft) * f(xRight) > 0", exit
  | errStuck              -- "Ridder's method does not reach the root", exit
  | maxIter (r : Rat)     -- 2200 iterations used up: warning, returns the last iterate
  | nanInside             -- the function returned NaN inside the bracket: not modelled
  deriving DecidableEq, Repr

/-- the bracket and its function values at the head of an iteration -/
structure Head where
  x1 : Rat
  x2 : Rat
  f1 : Rat
  f2 : Rat
  deriving Repr

structure Res where
  out : Outcome
  evals : List Rat      -- abscissae at which `func` was called, in call order
  heads : List Head     -- state at the head of every iteration executed
  deriving Repr

/-- `std::frexp(m, &e)` for `m ≥ 0`: the exponent `e` with `m = frac · 2^e`, `frac ∈ [1/2, 1)`; `0` for `m = 0`.
    (`⌊log2 m⌋ + 1`, computed from the bit lengths of numerator and denominator.) -/
def frexpExp (m : Rat) : Int :=
  if m ≤ 0 then 0 else
  let k : Int := (Nat.log2 m.num.toNat : Int) - (Nat.log2 m.den : Int)
  if pow2 k ≤ m then k + 1 else k

/-- the exact power of two by which the three function values are multiplied (`std::ldexp(f, -exponent)`),
    `exponent` from `frexp(max(|f3|, max(|f1|, |f2|)))` -/
def ridderScale (f1 f2 f3 : Rat) : Rat :=
  pow2 (-(frexpExp (rmax (rabs f3) (rmax (rabs f1) (rabs f2)))))

/-- the new point (commit e02ed3d): Ridders' formula evaluated on the scaled values
    `g_i = ldexp(f_i, -exponent)`, `s = sqrt(g3*g3 - g1*g2)`,
    `x4 = (s > 0) ? x3 + (x3 - x1) * Sign(g1 - g2) * g3 / s : x3`.
    `rnd` is applied where the C++ rounds the result of sqrt and division. -/
def ridderX4 (sq rnd : Rat → Rat) (x1 f1 f2 x3 f3 : Rat) : Rat :=
  let c := ridderScale f1 f2 f3
  let g1 := f1 * c
  let g2 := f2 * c
  let g3 := f3 * c
  let s := sq (g3 * g3 - g1 * g2)
  if s > 0 then rnd (x3 + (x3 - x1) * ((sign1 (g1 - g2) : Int) : Rat) * g3 / s) else x3

/-- `if(x4 < std::min(x1,x2)) x4 = std::min(x1,x2); else if(x4 > std::max(x1,x2)) x4 = std::max(x1,x2);` -/
def clampX4 (x1 x2 x4 : Rat) : Rat :=
  if x4 < rmin x1 x2 then rmin x1 x2 else if x4 > rmax x1 x2 then rmax x1 x2 else x4

/-- the three re-bracketing branches; `none` = the "does not reach the root" branch -/
def rebracket (x1 x2 f1 f2 x3 f3 x4 f4 : Rat) : Option (Rat × Rat × Rat × Rat) :=
  if sign2 f3 f4 ≠ f3 then some (x3, x4, f3, f4)
  else if sign2 f1 f4 ≠ f1 then some (x1, x4, f1, f4)
  else if sign2 f2 f4 ≠ f2 then some (x4, x2, f4, f2)
  else none

inductive Step where
  | done (o : Outcome) (ev : List Rat)
  | next (x1 x2 f1 f2 res : Rat) (ev : List Rat)

/-- one pass through the body of the `for` loop -/
def step (f : Rat → Option Rat) (sq rnd : Rat → Rat) (acc : Rat) (x1 x2 f1 f2 : Rat) : Step :=
  -- `double x3 = (x1 + x2) / 2.0; if(std::isinf(x3)) x3 = x1 / 2.0 + x2 / 2.0;` (commit 8bf0489): the second
  -- form is taken only when the double sum overflows; over the rationals both are the same number
  -- (`midpoint_overflow_branch_noop`), so the model has the one midpoint
  let x3 := (x1 + x2) / 2
  match f x3 with
  | none => .done .nanInside [x3]
  | some f3 =>
    let x4 := clampX4 x1 x2 (ridderX4 sq rnd x1 f1 f2 x3 f3)
    match f x4 with
    | none => .done .nanInside [x3, x4]
    | some f4 =>
      if f4 = 0 then .done (.root x4) [x3, x4]
      else
        match rebracket x1 x2 f1 f2 x3 f3 x4 f4 with
        | none => .done .errStuck [x3, x4]
        | some (y1, y2, g1, g2) =>
          if rabs (y2 - y1) < acc then .done (.root x4) [x3, x4]
          else .next y1 y2 g1 g2 x4 [x3, x4]

/-- the `for(int i = 0; i < Max_Iterations; i++)` loop on fuel.  When the fuel is used up the
    C++ prints a warning that contains `func(result)`: one more evaluation. -/
def loop (f : Rat → Option Rat) (sq rnd : Rat → Rat) (acc : Rat) : Nat → Rat → Rat → Rat → Rat → Rat → Res
  | 0, _, _, _, _, res => { out := .maxIter res, evals := [res], heads := [] }
  | n + 1, x1, x2, f1, f2, _ =>
    match step f sq rnd acc x1 x2 f1 f2 with
    | .done o ev => { out := o, evals := ev, heads := [⟨x1, x2, f1, f2⟩] }
    | .next y1 y2 g1 g2 r ev =>
      let R := loop f sq rnd acc n y1 y2 g1 g2 r
      { out := R.out, evals := ev ++ R.evals, heads := ⟨x1, x2, f1, f2⟩ :: R.heads }

/-- `double result = -9.9e99` -/
def result0 : Rat := -99 * 10 ^ 98

/-- `Find_Root(func, xLeft, xRight, xAccuracy)` with `fuel` iterations and rounding `rnd`. -/
def findRootR (f : Rat → Option Rat) (sq rnd : Rat → Rat) (xl xr acc : Rat) (fuel : Nat) : Res :=
  let lo := if xl > xr then xr else xl
  let hi := if xl > xr then xl else xr
  match f lo, f hi with
  | some fl, some fr =>
    -- the C++ tests `fLeft == 0.0 || fRight == 0.0 || Sign(fLeft) == Sign(fRight)` since commit 8302e13
    -- (the double product can underflow); in exact arithmetic this is `fl * fr ≥ 0`
    if fl * fr ≥ 0 then
      if fl = 0 then { out := .root lo, evals := [lo, hi], heads := [] }
      else if fr = 0 then { out := .root hi, evals := [lo, hi], heads := [] }
      else { out := .errNoSignChange, evals := [lo, hi], heads := [] }
    else
      let R := loop f sq rnd acc fuel lo hi fl fr result0
      { out := R.out, evals := lo :: hi :: R.evals, heads := R.heads }
  | _, _ => { out := .errNaN, evals := [lo, hi], heads := [] }

/-- `Max_Iterations = 2200` (commit 063778f; 50 originally, 200 after 2511823) -/
def maxIterations : Nat := 2200

/-- the model the theorems are about: exact arithmetic -/
def findRoot (f : Rat → Option Rat) (sq : Rat → Rat) (xl xr acc : Rat) : Res :=
  findRootR f sq id xl xr acc maxIterations

/-! ### a square root for the driver: exact on rational squares, otherwise rounded up at
    ~256 significant bits (so that `y ≤ sq y * sq y`) -/

def sqrtRat (y : Rat) : Rat :=
  if y ≤ 0 then 0 else
  let n := y.num.toNat
  let d := y.den
  let sn := Nat.sqrt n
  let sd := Nat.sqrt d
  if sn * sn = n ∧ sd * sd = d then mkRat sn sd
  else
    let lg : Int := (Nat.log2 n : Int) - (Nat.log2 d : Int)
    let k : Int := 256 - lg / 2
    let t := y * pow2 (2 * k)
    let m := t.floor.toNat
    ((Nat.sqrt m + 1 : Nat) : Rat) / pow2 k

end Lp.C02
