/-
  Line protocol shared by all drivers:  `<id> <op> <args…>`  in,  `<id> <answer…>`  out.
  Unknown operations and unparsable arguments are answered `bad-op` / `bad-args` — never defaulted.
-/
import LpModel.Basic
namespace Lp

/-- A handler gets the op name and the argument tokens. `none` = unknown op. -/
abbrev Handler := String → List String → Option String

partial def driverLoop (h : IO.FS.Stream) (out : IO.FS.Stream) (handle : Handler) : IO Unit := do
  let line ← h.getLine
  if line.isEmpty then return ()
  let toks := (line.trimAscii.toString.splitOn " ").filter (· ≠ "")
  match toks with
  | [] => driverLoop h out handle
  | [id] => out.putStrLn (id ++ " bad-op"); driverLoop h out handle
  | id :: op :: args =>
    let ans := match handle op args with
      | some a => a
      | none => "bad-op"
    out.putStrLn (id ++ " " ++ ans)
    driverLoop h out handle

def driverMain (handle : Handler) : IO Unit := do
  let i ← IO.getStdin
  let o ← IO.getStdout
  driverLoop i o handle
  o.flush

/-- run a parser then a function; unparsable → `bad-args` -/
def withArgs {α} (p : P α) (args : List String) (k : α → String) : Option String :=
  match runP p args with
  | some a => some (k a)
  | none => some "bad-args"

def showNats (l : List Nat) : String := " ".intercalate (l.map toString)
def showInts (l : List Int) : String := " ".intercalate (l.map toString)

end Lp
