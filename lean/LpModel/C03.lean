/-
  C03 — adaptive Simpson integration (src/Integration.cpp §1.1):
  `Adaptive_Simpson_Integration`, `Check_Integration_Limits`, `Integrate(func,a,b,epsilon,depth)`.
  Exact rationals, core-only.  The integrand is a parameter `f : Rat → Rat`.

  Every invocation of the recursive function is recorded as a `Panel` (its arguments, the
  refined estimate `S2` and whether it returned a value itself), in call order; the abscissae at
  which the integrand is called are recorded in call order as well.

  Order of the two recursive calls: the C++ writes `Adaptive(left) + Adaptive(right)`; the order
  of evaluation of the operands of `+` is unspecified by the language.  The model lists the left
  half first (what g++ 12 does at -O1); the value and the warning flag do not depend on the order.

  Numeric literals of the source (`h / 12`, `4 *`, `15 * epsilon`, `/ 15`, `epsilon / 2`, `h / 6`,
  `bottom - 1`) are NOT written here: they are the reducible constants `K.*` of
  `LpModel/C03/Constants.lean`, regenerated from src/Integration.cpp before every build
  (translators/constants.py, DESIGN.md §4.5).
-/
import LpModel.Basic
import LpModel.C03.Constants
namespace Lp.C03

/-- one invocation of `Adaptive_Simpson_Integration` -/
structure Panel where
  a : Rat
  b : Rat
  eps : Rat        -- tolerance handed to this invocation
  S : Rat          -- coarse estimate handed down
  fa : Rat
  fb : Rat
  fc : Rat
  S2 : Rat         -- Sleft + Sright computed by this invocation
  bottom : Nat     -- remaining depth (`max bottom 0`)
  leaf : Bool      -- the invocation returned `S2 + (S2-S)/15` itself (accepted or cut off)
  deriving Repr

/-- the value a leaf returns (Boole's rule when `S` is Simpson's rule on the panel) -/
def Panel.boole (p : Panel) : Rat := p.S2 + (p.S2 - p.S) / K.richardson

/-- the acceptance test failed (meaningful for leaves: the panel was cut off by `bottom <= 0`) -/
def Panel.cutOff (p : Panel) : Bool := decide (rabs (p.S2 - p.S) > K.warnFactor * p.eps)

structure Res where
  val : Rat
  evals : List Rat      -- abscissae at which `func` was called, in call order
  warn : Bool           -- `warning` flag
  panels : List Panel   -- every invocation, in call order
  deriving Repr

/-- The recursion scheme below (`n + 1 ↦ n`, structural) IS the source's `bottom - 1` in both recursive
    calls: the depth consumed per level is read from the source and must be 1 for this model to be
    the code (any other value breaks this obligation; the oracle then searches the implementation). -/
theorem depthStep_is_one : K.depthStepL = 1 ∧ K.depthStepR = 1 := by decide

/-- `Adaptive_Simpson_Integration(func,a,b,epsilon,S,fa,fb,fc,bottom,warning)`.
    `bottom : Nat` is `max bottom 0` of the C++ `int` (the code only tests `bottom <= 0`). -/
def adaptive (f : Rat → Rat) (a b eps S fa fb fc : Rat) (bottom : Nat) : Res :=
  let c := (a + b) / 2
  let h := b - a
  let d := (a + c) / 2
  let e := (b + c) / 2
  let fd := f d
  let fe := f e
  let Sleft := (h / K.sLeftDiv) * (fa + K.sLeftMidW * fd + fc)
  let Sright := (h / K.sRightDiv) * (fc + K.sRightMidW * fe + fb)
  let S2 := Sleft + Sright
  let mk (leaf : Bool) : Panel :=
    { a := a, b := b, eps := eps, S := S, fa := fa, fb := fb, fc := fc, S2 := S2, bottom := bottom, leaf := leaf }
  match bottom with
  | 0 =>
    -- `bottom <= 0`: return; the warning is raised when the test fails
    { val := S2 + (S2 - S) / K.richardson, evals := [d, e], warn := decide (rabs (S2 - S) > K.warnFactor * eps), panels := [mk true] }
  | n + 1 =>
    if rabs (S2 - S) ≤ K.accFactor * eps then
      { val := S2 + (S2 - S) / K.richardson, evals := [d, e], warn := false, panels := [mk true] }
    else
      let L := adaptive f a c (eps / K.epsDivL) Sleft fa fc fd n
      let R := adaptive f c b (eps / K.epsDivR) Sright fc fb fe n
      { val := L.val + R.val, evals := d :: e :: (L.evals ++ R.evals), warn := L.warn || R.warn,
        panels := mk false :: (L.panels ++ R.panels) }

/-- `Integrate(func,a,b,epsilon,maxRecursionDepth)` with `Check_Integration_Limits` inlined:
    `a == b` shortcut, swap of the limits with a sign, `fabs(epsilon)`. -/
def integrate (f : Rat → Rat) (a b eps : Rat) (depth : Int) : Res :=
  if a = b then { val := 0, evals := [], warn := false, panels := [] }
  else
    let lo := if a > b then b else a
    let hi := if a > b then a else b
    let sign : Rat := if a > b then -1 else 1
    let c := (lo + hi) / 2
    let h := hi - lo
    let fa := f lo
    let fb := f hi
    let fc := f c
    let S := (h / K.coarseDiv) * (fa + K.coarseMidW * fc + fb)
    let r := adaptive f lo hi (rabs eps) S fa fb fc depth.toNat
    { val := sign * r.val, evals := lo :: hi :: c :: r.evals, warn := r.warn, panels := r.panels }

/-- `Find_Epsilon(func, a, b, precision)`: `precision * S` with `S` Simpson's rule on `[a,b]`; evaluates the
    integrand at `a`, `b`, `(a+b)/2` and keeps nothing. -/
def findEpsilon (f : Rat → Rat) (a b precision : Rat) : Rat × List Rat :=
  let c := (a + b) / 2
  let h := b - a
  (precision * ((h / K.coarseDiv) * (f a + K.coarseMidW * f c + f b)), [a, b, c])

/-- a two-call history: `Find_Epsilon(g, a', b', precision)` and then `Integrate(f, a, b, eps, depth)` -/
def findEpsilonThenIntegrate (g f : Rat → Rat) (a' b' precision a b eps : Rat) (depth : Int) : (Rat × List Rat) × Res :=
  (findEpsilon g a' b' precision, integrate f a b eps depth)

/-! ### integrands the driver can evaluate (both sides evaluate the same description) -/

def polyEval (cs : List Rat) (x : Rat) : Rat := cs.foldr (fun c acc => c + x * acc) 0

/-- Σ|c_i||x|^i : magnitude of the terms added by a floating-point evaluation -/
def polyAbs (cs : List Rat) (x : Rat) : Rat := polyEval (cs.map rabs) (rabs x)

end Lp.C03
