/-
  C08 — interpolation integrals and extrema are those of the interpolated curve.
  The queries themselves (`integrate`, `localExt`, `globalExt`, `setPrefactor`, `multiply`,
  1-D and 2-D) are the shared model `Lp.Interp` (src/Numerics.cpp §1, after fix 6f59f09);
  the call sequences are `Lp.C09.step`.  This file adds what the driver needs for the class-B
  comparison: for every returned value a *scale* = the sum of the absolute values of the terms
  the C++ adds, from which the comparator forms its forward-error tolerance.  Core-only.
-/
import LpModel.C09
namespace Lp.C08
open Lp.Interp Lp.C09

def absSeg (a b c d t : Rat) : Rat := rabs (a * t ^ 3) + rabs (b * t ^ 2) + rabs (c * t) + rabs d
def absD1 (a b c t : Rat) : Rat := rabs (3 * a * t ^ 2) + rabs (2 * b * t) + rabs c
def absD2 (a b t : Rat) : Rat := rabs (6 * a * t) + rabs (2 * b)
def absStem (a b c d xj X : Rat) : Rat :=
  rabs (a / 4 * (X - xj) ^ 4) + rabs (b / 3 * (X - xj) ^ 3) + rabs (c / 2 * (X - xj) ^ 2) + rabs (d * (X - xj))

/-! The coefficients themselves are differences of nearly equal quantities (`s = Δy/h`,
    `a = (dy+dy'−2s)/h²`), so their rounding error is relative to the sums of absolute values below,
    not to `|a|`, `|b|`, `|c|`. -/

/-- `(|y_i| + |y_{i+1}|)/h_i` -/
def sAbs (o : Obj) (i : Nat) : Rat := (rabs (o.y i) + rabs (o.y (i + 1))) / h o.x i

/-- bound on the magnitude of the terms entering `dy[i]` -/
def dyAbs (o : Obj) (i : Nat) : Rat :=
  if i = 0 then 2 * sAbs o 0 + sAbs o 1
  else if i = o.N - 1 then 2 * sAbs o (o.N - 2) + sAbs o (o.N - 3)
  else sAbs o (i - 1) + sAbs o i

def aAbs (o : Obj) (j : Nat) : Rat := (dyAbs o j + dyAbs o (j + 1) + 2 * sAbs o j) / (h o.x j * h o.x j)
def bAbs (o : Obj) (j : Nat) : Rat := (3 * sAbs o j + 2 * dyAbs o j + dyAbs o (j + 1)) / h o.x j
def cAbs (o : Obj) (j : Nat) : Rat := dyAbs o j
def dAbs (o : Obj) (j : Nat) : Rat := rabs (o.y j)

/-- scale of `Interpolate(v)` on segment `j` -/
def scaleInterp (o : Obj) (j : Nat) (v : Rat) : Rat :=
  rabs o.pref * absSeg (aAbs o j) (bAbs o j) (cAbs o j) (dAbs o j) (v - o.x j)

def scaleDeriv (o : Obj) (j : Nat) (v : Rat) (k : Nat) : Rat :=
  let a := aAbs o j
  let b := bAbs o j
  let c := cAbs o j
  let t := v - o.x j
  match k with
  | 0 => scaleInterp o j v
  | 1 => rabs o.pref * absD1 a b c t
  | 2 => rabs o.pref * absD2 a b t
  | 3 => rabs o.pref * rabs (6 * a)
  | _ => 0

/-- scale of `Integrate`: every stem-function value that is added or subtracted -/
def scaleInteg (o : Obj) (i1 n : Nat) (lo hi : Rat) : Rat :=
  (List.range (n + 1)).foldl (fun acc i =>
    let j := i1 + i
    let xj := o.x j
    let xl := if i = 0 then lo else xj
    let xr := if i = n then hi else o.x (j + 1)
    let a := aAbs o j
    let b := bAbs o j
    let c := cAbs o j
    let d := dAbs o j
    acc + rabs o.pref * (absStem a b c d xj xr + absStem a b c d xj xl)) (0 : Rat)

/-- scale of `Integrate` as coded after the pending repair C08-2 (each piece integrated from its left limit in Taylor/Horner
    form, `w = x_right − x_left`, `t = x_left − x_j`): `|prefactor|·w·(P0 + w·(P1/2 + w·(P2/3 + w·A/4)))` with every
    coefficient replaced by the sum of the absolute values of its terms — proportional to the width of the range -/
def scaleIntegT (o : Obj) (i1 n : Nat) (lo hi : Rat) : Rat :=
  (List.range (n + 1)).foldl (fun acc i =>
    let j := i1 + i
    let xj := o.x j
    let xl := if i = 0 then lo else xj
    let xr := if i = n then hi else o.x (j + 1)
    let a := aAbs o j
    let b := bAbs o j
    let c := cAbs o j
    let d := dAbs o j
    let t := rabs (xl - xj)
    let w := rabs (xr - xl)
    let p0 := ((a * t + b) * t + c) * t + d
    let p1 := (3 * a * t + 2 * b) * t + c
    let p2 := 3 * a * t + b
    acc + rabs o.pref * (w * (p0 + w * (p1 / 2 + w * (p2 / 3 + w * a / 4))))) (0 : Rat)

/-- the second scale of an `Integrate` call (0 for the other calls) -/
def scaleOfT (o : Obj) : Op → Rat
  | .integ a b =>
    let lo := if a > b then b else a
    let hi := if a > b then a else b
    match locateCanon o.N o.x lo, locateCanon o.N o.x hi with
    | .ok i1, .ok i2 => scaleIntegT o i1 (i2 - i1) lo hi
    | _, _ => 0
  | _ => 0

def listAbsMax (l : List Rat) : Rat := l.foldl (fun m v => rmax m (rabs v)) 0

/-- the scale of the answer to one call (0 for calls that return an index or nothing) -/
def scaleOf (o : Obj) : Op → Rat
  | .interp v => match locateCanon o.N o.x v with
    | .ok j => scaleInterp o j v
    | .error _ => 0
  | .deriv v k => match locateCanon o.N o.x v with
    | .ok j => scaleDeriv o j v k
    | .error _ => 0
  | .integ a b =>
    let lo := if a > b then b else a
    let hi := if a > b then a else b
    match locateCanon o.N o.x lo, locateCanon o.N o.x hi with
    | .ok i1, .ok i2 => scaleInteg o i1 (i2 - i1) lo hi
    | _, _ => 0
  | .locmin a b | .locmax a b =>
    match locateCanon o.N o.x a, locateCanon o.N o.x b with
    | .ok i1, .ok i2 =>
      rmax (rmax (scaleInterp o i1 a) (scaleInterp o i2 b)) (rabs o.pref * listAbsMax (o.knotValues i1 (i2 + 1)))
    | _, _ => 0
  | .globmin | .globmax => rabs o.pref * listAbsMax o.ys.toList
  | _ => 0

def scaleOf2 (o : Obj2) : Op2 → Rat
  | .interp vx vy => match locateCanon o.ox.N o.ox.x vx, locateCanon o.oy.N o.oy.x vy with
    | .ok i, .ok j => rabs o.pref * (rabs (o.F i j) + rabs (o.F (i + 1) j) + rabs (o.F (i + 1) (j + 1)) + rabs (o.F i (j + 1)))
    | _, _ => 0
  | .globmin | .globmax => rabs o.pref * listAbsMax ((o.f.toList.map Array.toList).flatten)
  | _ => 0

/-! ### a concrete square root for the drivers: exact on rational squares, otherwise rounded down to a relative
    precision of about 2^-k (validated numerical oracle, not used by any theorem) -/

def sqApprox (k : Nat) (y : Rat) : Rat :=
  if y ≤ 0 then 0 else
  let n := y.num.toNat
  let d := y.den
  let rn := Nat.sqrt n
  let rd := Nat.sqrt d
  if rn * rn = n ∧ rd * rd = d then (rn : Rat) / (rd : Rat)
  else
    let root := Nat.sqrt (n * d * 4 ^ k)
    (root : Rat) / ((d : Rat) * (2 : Rat) ^ (k : Int))

/-- the instance the drivers use -/
def driverSqrt : SqrtFn := ⟨sqApprox 256⟩

end Lp.C08
