/-
  C05 — `Matrix::Determinant`, `Invertible`, `Inverse` (src/Linear_Algebra.cpp:654-665, 696-768,
  786-816), exact rationals, core-only.  As coded after fix commits f73d8c5 (partial pivoting) and f4da51d (diagonal test before the final scaling).
-/
import LpModel.C04
namespace Lp.C05
open Lp.C04 Lp.C04.Mat

/-- `sign = (j % 2 == 0) ? +1.0 : -1.0` -/
def sgn (j : Nat) : Rat := if j % 2 = 0 then 1 else -1

/-- `Determinant()` of an `n × n` matrix by Laplace expansion along the first row, exactly as
    coded: `rows == 1`, `rows == 2` base cases; otherwise `det += (sign·a_0j) · Sub_Matrix(0,j).Determinant()`
    for `j = 0 … columns-1` in this order, skipping the entries `a_0j = 0` (fix 07c574c; a no-op in exact
    arithmetic, theorem `detN_skip_noop`; in floating point it avoids `0 · inf = NaN` when a cofactor overflows).  `rows == 0` runs the general branch with an empty loop: 0. -/
def detN : Nat → Mat → Rat
  | 0, _ => 0
  | 1, A => A.get 0 0
  | 2, A => A.get 0 0 * A.get 1 1 - A.get 0 1 * A.get 1 0
  | n + 3, A => sumRange (n + 3) (fun j =>
      -- fix 07c574c: `if(factors[j] == 0.0) continue;` — a vanishing first-row entry contributes nothing
      if sgn j * A.get 0 j = 0 then 0 else (sgn j * A.get 0 j) * detN (n + 2) (subMatrixN A 0 j))

/-- the same recursion on absolute values without signs: the sum of the absolute values of all
    terms the expansion adds (the scale of the class-B tolerance; = permanent of |A|) -/
def permAbsN : Nat → Mat → Rat
  | 0, _ => 0
  | 1, A => rabs (A.get 0 0)
  | 2, A => rabs (A.get 0 0 * A.get 1 1) + rabs (A.get 0 1 * A.get 1 0)
  | n + 3, A => sumRange (n + 3) (fun j => rabs (A.get 0 j) * permAbsN (n + 2) (subMatrixN A 0 j))

/-- `Matrix::Determinant` -/
def det (A : Mat) : Except Err Rat :=
  if A.rows ≠ A.cols then .error .diag else .ok (detN A.rows A)

/-- `Matrix::Invertible` (`Square() && Determinant() != 0.0`) -/
def invertible (A : Mat) : Bool :=
  if A.rows ≠ A.cols then false else decide (detN A.rows A ≠ 0)

/-! ## Gauss–Jordan inversion -/

/-- augmented `N × 2N` work matrix `[M | 1]` -/
def augment (A : Mat) : Mat :=
  let N := A.rows
  ofFn N (2 * N) (fun i j => if j < N then A.get i j else if j - N = i then 1 else 0)

/-- pivot search: `pivot = i; for j = i+1 … N-1: if |A[j][i]| > |A[pivot][i]| then pivot = j`
    (strict comparison: the first row of largest magnitude wins) -/
def pivotRow (W : Mat) (N i : Nat) : Nat :=
  (List.range (N - (i + 1))).foldl
    (fun p d => let j := i + 1 + d; if rabs (W.get j i) > rabs (W.get p i) then j else p) i

/-- `std::swap(A[i], A[p])` -/
def swapRows (W : Mat) (i p : Nat) : Mat :=
  ofFn W.rows W.cols (fun r k => W.get (if r = i then p else if r = p then i else r) k)

/-- elimination with pivot row `i`: for every row `j ≠ i`, `ratio = A[j][i] / A[i][i]` and
    `A[j][k] -= ratio * A[i][k]` for all `k` (row `i` itself is not touched in this loop, and
    `ratio` is computed before row `j` is rewritten) -/
def eliminate (W : Mat) (i : Nat) : Mat :=
  ofFn W.rows W.cols (fun j k =>
    if j = i then W.get j k else W.get j k - (W.get j i / W.get i i) * W.get i k)

/-- one pass of the outer loop; `none` = "Diagonal element is zero" exit -/
def gjStep (N : Nat) (W : Mat) (i : Nat) : Option Mat :=
  let p := pivotRow W N i
  let W1 := if p ≠ i then swapRows W i p else W
  if W1.get i i = 0 then none else some (eliminate W1 i)

/-- the outer loop `i = 0 … N-1` -/
def gjLoop (N : Nat) : List Nat → Mat → Option Mat
  | [], W => some W
  | i :: r, W => match gjStep N W i with
    | none => none
    | some W' => gjLoop N r W'

/-- "Change diagonal entries to 1": `A[i][j] /= A[i][i]` for the right half; then the first `N`
    columns are deleted — the result is the right half, row `i` divided by the diagonal entry -/
def normalise (N : Nat) (W : Mat) : Mat :=
  ofFn N N (fun i j => W.get i (j + N) / W.get i i)

/-- the test in front of the final scaling (fix f4da51d): "a diagonal element vanishes in the
    elimination".  In exact arithmetic this is dead code (theorem `diagZero_dead`); in floating
    point a finished diagonal entry can cancel to 0 while a later, rounding-residue pivot is used. -/
def diagZero (N : Nat) (W : Mat) : Bool := (List.range N).any (fun i => decide (W.get i i = 0))

/-- `Matrix::Inverse` (as coded after f73d8c5 and f4da51d) -/
def inverse (A : Mat) : Except Err Mat :=
  if A.rows ≠ A.cols then .error .diag
  else if !invertible A then .error .diag
  else
    match gjLoop A.rows (List.range A.rows) (augment A) with
    | none => .error .diag
    | some W => if diagZero A.rows W then .error .diag else .ok (normalise A.rows W)

/-! ## exact norms for the condition number reported by the driver -/

def normInf (A : Mat) : Rat :=
  (List.range A.rows).foldl (fun m i => rmax m (sumRange A.cols (fun j => rabs (A.get i j)))) 0

end Lp.C05
