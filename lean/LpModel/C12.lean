/-
  C12 — Gauss–Legendre rules.
  Executable model of src/Integration.cpp §1.2 (`Compute_Gauss_Legendre_Roots_and_Weights` and the
  three `Integrate_Gauss_Legendre` overloads) over exact rationals.  Core-only (no Mathlib).

  Stages of the C++ and their model:
    * inner `for j` loop (three-term recurrence)            → `legPairR rnd z n`  (`legendreP`, `legendrePrev`)
    * `pp = n (z p1 - p2)/(z z - 1)`                          → `legendreDeriv`
    * `z = z1 - p1/pp`, `while(true)` until `|z-z1| ≤ eps`   → `newtonStep`, `newtonLoop` (fuel)
    * recurrence once more at the converged `z` (fix f38103c)  → `newtonRootPP`
    * start value `cos(π (i+0.75)/(n+0.5))`                   → parameter `cospi q = cos(π q)`
    * affine map, mirrored assignment `[i]`, `[n-i-1]`       → `glAssemble n xmin xmax z pp`
    * the overloads                                          → `integrateGLvals`, `integrateGLrule`, `integrateGL`

  `rnd` is the rounding applied by the driver after every arithmetic stage of the iteration
  (exact rationals would grow without bound); theorems about the recurrence take `rnd = id`.
-/
import LpModel.Basic
namespace Lp.C12

/-! ## Legendre recurrence as coded -/

/-- one pass of the `for j` loop body: `(p1, p2) ↦ (((2j+1) z p1 - j p2)/(j+1), p1)` -/
def legStep (rnd : Rat → Rat) (z : Rat) (j : Nat) (p : Rat × Rat) : Rat × Rat :=
  (rnd (((2 * (j : Rat) + 1) * z * p.1 - (j : Rat) * p.2) / ((j : Rat) + 1)), p.1)

/-- `(p1, p2)` after `n` passes starting from `(1, 0)` -/
def legPairR (rnd : Rat → Rat) (z : Rat) : Nat → Rat × Rat
  | 0 => (1, 0)
  | n + 1 => legStep rnd z n (legPairR rnd z n)

/-- exact recurrence (`rnd = id`): `P_n(z)` and `P_{n-1}(z)` (`P_{-1} := 0`) -/
def legPair (z : Rat) (n : Nat) : Rat × Rat := legPairR id z n
def legendreP (n : Nat) (z : Rat) : Rat := (legPair z n).1
def legendrePrev (n : Nat) (z : Rat) : Rat := (legPair z n).2

/-- `pp = n (z p1 - p2) / (z z - 1)` -/
def ppOf (n : Nat) (z p1 p2 : Rat) : Rat := (n : Rat) * (z * p1 - p2) / (z * z - 1)

def legendreDeriv (n : Nat) (z : Rat) : Rat := ppOf n z (legendreP n z) (legendrePrev n z)

/-- one exact Newton step `z - P_n(z)/pp` -/
def newtonStep (n : Nat) (z : Rat) : Rat := z - legendreP n z / legendreDeriv n z

/-- The `while(true)` loop with fuel: returns the final `(z, pp)`.
    `none`: fuel exhausted (non-termination) or a division by zero (`z² = 1`, `pp = 0`),
    where the C++ produces inf/NaN — outside what the model defines. -/
def newtonLoop (rnd : Rat → Rat) (eps : Rat) (n : Nat) : Nat → Rat → Option (Rat × Rat)
  | 0, _ => none
  | f + 1, z =>
    let p := legPairR rnd z n
    if z * z - 1 = 0 then none else
    let pp := rnd (ppOf n z p.1 p.2)
    if pp = 0 then none else
    let z' := rnd (z - p.1 / pp)
    if rabs (z' - z) ≤ eps then some (z', pp) else newtonLoop rnd eps n f z'

/-- After the loop the C++ (fix f38103c) evaluates the recurrence ONCE MORE at the converged `z` and forms
    `pp = n (z p1 - p2)/(z z - 1)` there: the weight uses the derivative at the node actually returned, not at the
    previous iterate.  Returns the final `(z, pp)`; `none` as for `newtonLoop`, or when `z² = 1` / `pp = 0` at the
    final point (inf/NaN weight in the C++). -/
def newtonRootPP (rnd : Rat → Rat) (eps : Rat) (n : Nat) (fuel : Nat) (z0 : Rat) : Option (Rat × Rat) :=
  match newtonLoop rnd eps n fuel z0 with
  | none => none
  | some (z, _) =>
    let p := legPairR rnd z n
    if z * z - 1 = 0 then none else
    let pp := rnd (ppOf n z p.1 p.2)
    if pp = 0 then none else some (z, pp)

/-- start value of root `i`: `cos(π (i + 0.75)/(n + 0.5))`; `cospi q` stands for `cos(π q)` -/
def guessArg (n i : Nat) : Rat := ((i : Rat) + 3 / 4) / ((n : Rat) + 1 / 2)

/-- number of roots computed: `m = (n+1)/2` -/
def half (n : Nat) : Nat := (n + 1) / 2

/-! ## Affine map and mirrored assignment -/

/-- assignment `table[i] = g(table)` on the table `roots_and_weights` (index ↦ (node, weight)),
    as a function of the index; the new value is evaluated only when entry `i` is read -/
def upd (s : Nat → Rat × Rat) (i : Nat) (g : (Nat → Rat × Rat) → Rat × Rat) : Nat → Rat × Rat :=
  fun k => if k = i then g s else s k

/-- `x_middle = 0.5*x_max + 0.5*x_min`, `x_half_width = 0.5*x_max - 0.5*x_min` (fix fddea92: the limits are halved
    first so that neither the sum nor the difference overflows; over the rationals the same value as `0.5*(x_max ± x_min)`,
    lemmas `xMiddle_eq`, `xHalfWidth_eq`) -/
def xMiddle (xmin xmax : Rat) : Rat := (1 / 2 : Rat) * xmax + (1 / 2 : Rat) * xmin
def xHalfWidth (xmin xmax : Rat) : Rat := (1 / 2 : Rat) * xmax - (1 / 2 : Rat) * xmin

/-- the weight written for root `z` with derivative `pp`: `2 h / ((1 - z²) pp²)` -/
def weightOf (h z pp : Rat) : Rat := 2 * h / ((1 - z * z) * pp * pp)

/-- body of the outer loop for index `i`: four assignments, in the order of the C++ -/
def assignStep (n : Nat) (xmin xmax : Rat) (z pp : Nat → Rat) (s : Nat → Rat × Rat) (i : Nat) : Nat → Rat × Rat :=
  let mid := xMiddle xmin xmax
  let h := xHalfWidth xmin xmax
  -- [i][0] = mid - h z
  let s1 := upd s i (fun s => (mid - h * z i, (s i).2))
  -- [n-i-1][0] = mid + h z
  let s2 := upd s1 (n - i - 1) (fun s => (mid + h * z i, (s (n - i - 1)).2))
  -- [i][1] = 2 h / ((1 - z²) pp²)
  let s3 := upd s2 i (fun s => ((s i).1, weightOf h (z i) (pp i)))
  -- [n-i-1][1] = [i][1]
  upd s3 (n - i - 1) (fun s => ((s (n - i - 1)).1, (s i).2))

/-- the table after the first `t` passes of the outer loop (all entries start as `(0,0)`) -/
def assignLoop (n : Nat) (xmin xmax : Rat) (z pp : Nat → Rat) : Nat → (Nat → Rat × Rat)
  | 0 => fun _ => (0, 0)
  | t + 1 => assignStep n xmin xmax z pp (assignLoop n xmin xmax z pp t) t

/-- the final table as a function of the index -/
def glTable (n : Nat) (xmin xmax : Rat) (z pp : Nat → Rat) : Nat → Rat × Rat :=
  assignLoop n xmin xmax z pp (half n)

/-- `Compute_Gauss_Legendre_Roots_and_Weights(n, xmin, xmax)` given the converged root values
    `z i`, `pp i` (`i < (n+1)/2`): list of `(node, weight)` of length `n` -/
def glAssemble (n : Nat) (xmin xmax : Rat) (z pp : Nat → Rat) : List (Rat × Rat) :=
  (List.range n).map (glTable n xmin xmax z pp)

def node (n : Nat) (xmin xmax : Rat) (z pp : Nat → Rat) (k : Nat) : Rat := (glTable n xmin xmax z pp k).1
def weight (n : Nat) (xmin xmax : Rat) (z pp : Nat → Rat) (k : Nat) : Rat := (glTable n xmin xmax z pp k).2

/-! ## The rule with the coded Newton iteration -/

/-- converged `(z_i, pp_i)` for `i < m`, `none` if any iteration is undefined -/
def glRoots (rnd : Rat → Rat) (cospi : Rat → Rat) (eps : Rat) (fuel n : Nat) : Option (List (Rat × Rat)) :=
  (List.range (half n)).mapM (fun i => newtonRootPP rnd eps n fuel (cospi (guessArg n i)))

def glRule (rnd : Rat → Rat) (cospi : Rat → Rat) (eps : Rat) (fuel n : Nat) (xmin xmax : Rat) :
    Option (List (Rat × Rat)) :=
  match glRoots rnd cospi eps fuel n with
  | none => none
  | some zs => some (glAssemble n xmin xmax (fun i => (zs.getD i (0, 0)).1) (fun i => (zs.getD i (0, 0)).2))

/-- a sequence of rule computations in one process: the C++ function has no state, every answer is the
    rule of its own arguments `(n, xmin, xmax)` -/
def glSeq (rnd : Rat → Rat) (cospi : Rat → Rat) (eps : Rat) (fuel : Nat) (reqs : List (Nat × Rat × Rat)) :
    List (Option (List (Rat × Rat))) :=
  reqs.map (fun r => glRule rnd cospi eps fuel r.1 r.2.1 r.2.2)

/-! ## The three overloads -/

inductive Err where
  | diag : Err          -- the C++ prints a diagnostic and exits with failure
  deriving DecidableEq, Repr

/-- `integral += function_values[i] * roots_and_weights[i][1]` from `i = 0` -/
def weightedSum (vals : List Rat) (rw : List (Rat × Rat)) : Rat :=
  (List.range vals.length).foldl (fun acc i => acc + vals.getD i 0 * (rw.getD i (0, 0)).2) 0

/-- `Integrate_Gauss_Legendre(function_values, roots_and_weights)` -/
def integrateGLvals (vals : List Rat) (rw : List (Rat × Rat)) : Except Err Rat :=
  if vals.length ≠ rw.length then .error .diag else .ok (weightedSum vals rw)

/-- `Integrate_Gauss_Legendre(func, roots_and_weights)` -/
def integrateGLrule (f : Rat → Rat) (rw : List (Rat × Rat)) : Except Err Rat :=
  integrateGLvals (rw.map (fun p => f p.1)) rw

/-- `Integrate_Gauss_Legendre(func, a, b, sample_points)` given the root values -/
def integrateGL (f : Rat → Rat) (a b : Rat) (n : Nat) (z pp : Nat → Rat) : Except Err Rat :=
  integrateGLrule f (glAssemble n a b z pp)

/-- a sequence of calls of the integrating overload in one process (root values per order `z n`, `pp n`):
    every answer is that of its own arguments `(n, a, b)` -/
def integSeq (f : Rat → Rat) (z pp : Nat → Nat → Rat) (reqs : List (Nat × Rat × Rat)) : List (Except Err Rat) :=
  reqs.map (fun r => integrateGL f r.2.1 r.2.2 r.1 (z r.1) (pp r.1))

/-- re-entrant use of the integrating overload: the integrand of an outer `Integrate_Gauss_Legendre(F,a,b,nOut)`
    is itself `F x = Integrate_Gauss_Legendre(g x, lo x, hi x, nIn)` with limits that depend on the outer variable
    (iterated integral over a non-rectangular region).  The C++ functions take their rule by value and keep no
    state, so the inner calls cannot disturb the outer loop. -/
def valueOf (r : Except Err Rat) : Rat := match r with | .ok v => v | .error _ => 0

def nestedGL (g : Rat → Rat → Rat) (lo hi : Rat → Rat) (a b : Rat) (nOut nIn : Nat) (z pp : Nat → Nat → Rat) :
    Except Err Rat :=
  integrateGL (fun x => valueOf (integrateGL (g x) (lo x) (hi x) nIn (z nIn) (pp nIn))) a b nOut (z nOut) (pp nOut)

/-! ### the rule-taking overloads on raw rows (fix 455b721)

`roots_and_weights` is a `vector<vector<double>>`: nothing forces a row to hold exactly a root and a weight.  Both
rule-taking overloads now stop with a diagnostic at the first row whose length is not 2 (rows of length 0/1 used to be
read out of bounds). -/

def rowsOk (rows : List (List Rat)) : Bool := rows.all (fun r => r.length = 2)

def toPairs (rows : List (List Rat)) : List (Rat × Rat) := rows.map (fun r => (r.getD 0 0, r.getD 1 0))

/-- `Integrate_Gauss_Legendre(function_values, roots_and_weights)` on raw rows: size mismatch first, then the row shape
    inside the summation loop -/
def integrateGLvalsRows (vals : List Rat) (rows : List (List Rat)) : Except Err Rat :=
  if vals.length ≠ rows.length then .error .diag
  else if !rowsOk rows then .error .diag
  else integrateGLvals vals (toPairs rows)

/-- `Integrate_Gauss_Legendre(func, roots_and_weights)` on raw rows: the row shape is tested while the integrand is
    tabulated (the integrand has been called for the rows before the offending one) -/
def integrateGLruleRows (f : Rat → Rat) (rows : List (List Rat)) : Except Err Rat :=
  if !rowsOk rows then .error .diag
  else integrateGLvalsRows (rows.map (fun r => f (r.getD 0 0))) rows

/-- the quadrature sum `Σ_{k<n} f(x_k) w_k` written directly -/
def glSum (f : Rat → Rat) (n : Nat) (xmin xmax : Rat) (z pp : Nat → Rat) : Rat :=
  (List.range n).foldl (fun acc k => acc + f (node n xmin xmax z pp k) * weight n xmin xmax z pp k) 0

end Lp.C12
