/-
  LpModel.C18.MT19937 — `std::mt19937`, `std::generate_canonical<double,53>` and
  `std::uniform_real_distribution<double>` as libstdc++ 12 implements them, as exact
  integer / rational algorithms (core-only).  Shared by C18 (samplers) and C14 (Monte-Carlo
  integrators) so that draw counts and uniform variates can be predicted exactly.

  * `seed s`      : `mersenne_twister_engine::seed(value)`  (mt[0]=s, mt[i]=1812433253·(mt[i-1]^(mt[i-1]>>30))+i,
                    `_M_p = 624`, so the first draw regenerates the block)
  * `next`        : `operator()` (block regeneration `_M_gen_rand`, tempering)
  * `canonical`   : `generate_canonical<double,53>`: two draws `lo`, `hi`;
                    `sum = double(lo) + double(hi)·2^32` — the only rounding (round to nearest even
                    to 53 bits of a 64-bit integer); `ret = sum / 2^64`; `ret ≥ 1 → nextafter(1,0)`.
  * `uniformReal` : `a + (b-a)·u` exactly (the C++ evaluates `u*(b-a)+a` in double: two roundings,
                    absorbed by the comparator's 2-ulp tolerance; exact for (a,b) = (0,1)).
  Validated against the real generator by the C18 harness (`c18.mt`, `c18.canon`), class A.
-/
import LpModel.Basic
namespace Lp.MT

structure State where
  mt : Array UInt32
  idx : Nat

instance : Inhabited State := ⟨⟨#[], 0⟩⟩

def N : Nat := 624
def M : Nat := 397

def seedLoop : Nat → Nat → UInt32 → Array UInt32 → Array UInt32
  | 0, _, _, a => a
  | f + 1, i, prev, a =>
    let x : UInt32 := (1812433253 : UInt32) * (prev ^^^ (prev >>> 30)) + UInt32.ofNat i
    seedLoop f (i + 1) x (a.push x)

/-- `std::mt19937 g(s)` / `g.seed(s)` -/
def seed (s : UInt32) : State :=
  { mt := seedLoop (N - 1) 1 s ((Array.mkEmpty N).push s), idx := N }

def twistLoop : Nat → Nat → Array UInt32 → Array UInt32
  | 0, _, a => a
  | f + 1, k, a =>
    let y : UInt32 := (a[k]! &&& 0x80000000) ||| (a[(k + 1) % N]! &&& 0x7fffffff)
    let v : UInt32 := a[(k + M) % N]! ^^^ (y >>> 1) ^^^ (if y &&& 1 = 1 then (0x9908b0df : UInt32) else 0)
    twistLoop f (k + 1) (a.set! k v)

/-- `_M_gen_rand` (in place, ascending index: entries `k+1`, `k+M mod N` are read as the C++ reads them) -/
def twist (a : Array UInt32) : Array UInt32 := twistLoop N 0 a

def temper (y : UInt32) : UInt32 :=
  let y := y ^^^ (y >>> 11)
  let y := y ^^^ ((y <<< 7) &&& 0x9d2c5680)
  let y := y ^^^ ((y <<< 15) &&& 0xefc60000)
  y ^^^ (y >>> 18)

/-- `operator()` -/
def next (s : State) : UInt32 × State :=
  let s := if s.idx ≥ N then { mt := twist s.mt, idx := 0 } else s
  (temper s.mt[s.idx]!, { s with idx := s.idx + 1 })

def nextNat (s : State) : Nat × State := let (v, s) := next s; (v.toNat, s)

def discard : Nat → State → State
  | 0, s => s
  | n + 1, s => discard n (next s).2

def outputs : Nat → State → List Nat → List Nat × State
  | 0, s, acc => (acc.reverse, s)
  | n + 1, s, acc => let (v, s) := next s; outputs n s (v.toNat :: acc)

/-- bit length -/
def bitLen (n : Nat) : Nat := if n = 0 then 0 else Nat.log2 n + 1

/-- round a natural number to 53 significant bits, nearest, ties to even -/
def rn53 (n : Nat) : Nat :=
  let L := bitLen n
  if L ≤ 53 then n
  else
    let e := L - 53
    let q := n >>> e
    let r := n % (2 ^ e)
    let half := 2 ^ (e - 1)
    let q := if r > half ∨ (r = half ∧ q % 2 = 1) then q + 1 else q
    q <<< e

/-- numerator over `2^64` of `generate_canonical<double,53>` given the two draws -/
def canonicalNum (lo hi : Nat) : Nat :=
  let s := rn53 (lo + hi * 2 ^ 32)
  if s ≥ 2 ^ 64 then 2 ^ 64 - 2 ^ 11 else s     -- nextafter(1,0) = 1 - 2^-53

def canonicalOf (lo hi : Nat) : Rat := (canonicalNum lo hi : Rat) / ((2 ^ 64 : Nat) : Rat)

/-- one canonical uniform in `[0,1)`: two 32-bit draws -/
def canonical (s : State) : Rat × State :=
  let (lo, s) := nextNat s
  let (hi, s) := nextNat s
  (canonicalOf lo hi, s)

/-- `std::uniform_real_distribution<double>(a,b)(g)` under exact arithmetic -/
def uniformReal (a b : Rat) (s : State) : Rat × State :=
  let (u, s) := canonical s
  (u * (b - a) + a, s)

/-- `n` canonical uniforms -/
def canonicals : Nat → State → List Rat → List Rat × State
  | 0, s, acc => (acc.reverse, s)
  | n + 1, s, acc => let (u, s) := canonical s; canonicals n s (u :: acc)

/-- generator reached from `seed` after `skip` 32-bit draws -/
def mk (sd skip : Nat) : State := discard skip (seed (UInt32.ofNat sd))

/-- a CRAFTED state as the C18 harness builds it through `operator>>`: `seed`, one draw (table regenerated, read position 1),
    then the two state words consumed by the `k`-th canonical uniform from there set to 0 for every listed `k`
    (`temper 0 = 0`, so that uniform is exactly 0) -/
def zeroed (sd : Nat) (ks : List Nat) : State :=
  let s := (next (seed (UInt32.ofNat sd))).2
  { s with mt := ks.foldl (fun a k => (a.set! (s.idx + 2 * k) 0).set! (s.idx + 2 * k + 1) 0) s.mt }

end Lp.MT
