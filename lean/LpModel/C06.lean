/-
  C06 — Gamma-function family (src/Special_Functions.cpp §2.1), executable model over exact
  rationals.  Core-only (no Mathlib).

  Split of every function into
    * its *rational core*, computed exactly here and by the driver
        (factorial memo machine, binomial floor formula, Lanczos rational sum with the 14
         coefficients, series partial sums of GammaPser, modified-Lentz recurrence of GammaQcf with
         the term index as explicit state, branch selection of GammaQ / GammaQint, guards), and
    * the *transcendental glue* (`exp`, `log`, `sqrt`, `pow`): a record `T : Transc` of functions
      `Rat → Rat` — parameters of the model, hypotheses of the theorems, never axioms.  The driver
      prints the rational core only; `props/c06.py` applies the glue with mpmath (50 digits).
-/
import LpModel.Basic
import LpModel.C06.Constants
namespace Lp.C06

inductive Err where
  | diag : Err      -- the C++ prints a diagnostic and exits with failure
  | fuel : Err      -- the model's fuel ran out before the C++ loop condition became false
  deriving DecidableEq, Repr

/-- transcendental functions as parameters -/
structure Transc where
  exp : Rat → Rat
  log : Rat → Rat
  sqrt : Rat → Rat
  pow : Rat → Rat → Rat
  tgamma : Rat → Rat        -- std::tgamma (after `fix:` a972610 `Gamma` no longer exponentiates `GammaLn`)

/-! ## Factorial: the memo machine `FactorialList` -/

abbrev Tbl := List Rat

/-- `std::vector<double> FactorialList = {1.0};` -/
def tbl0 : Tbl := [1]

def fact : Nat → Nat
  | 0 => 1
  | n + 1 => (n + 1) * fact n

/-- `FactorialList.push_back(FactorialList.back() * FactorialList.size())` -/
def pushNext (t : Tbl) : Tbl := t ++ [t.getLastD 1 * (t.length : Rat)]

/-- `while(FactorialList.size() <= n) push…` : every pass raises the size by one, so the loop
    body runs exactly `n + 1 - size` times. -/
def extend : Nat → Tbl → Tbl
  | 0, t => t
  | f + 1, t => extend f (pushNext t)

/-- `Factorial(n)` : result and the table afterwards. -/
def factorial (t : Tbl) (n : Nat) : Except Err Rat × Tbl :=
  if n > K.factMax then (.error .diag, t)
  else if n < t.length then (.ok (t.getD n 0), t)
  else
    let t' := extend (n + 1 - t.length) t
    (.ok (t'.getLastD 0), t')

/-- a history of calls; the process ends at the first diagnostic -/
def runCalls : Tbl → List Nat → List (Except Err Rat) × Tbl
  | t, [] => ([], t)
  | t, n :: r =>
    match factorial t n with
    | (.error e, t') => ([.error e], t')
    | (.ok v, t') =>
      let (os, t'') := runCalls t' r
      (.ok v :: os, t'')

/-! ## Binomial_Coefficient -/

/-- `floor(0.5 + Factorial(n) / Factorial(k) / Factorial(n - k))` for `0 ≤ k ≤ n ≤ 170`,
    threading the memo table through the three calls. -/
def binomialSmall (t : Tbl) (n k : Nat) : Except Err Rat × Tbl :=
  match factorial t n with
  | (.error e, t1) => (.error e, t1)
  | (.ok fn, t1) =>
    match factorial t1 k with
    | (.error e, t2) => (.error e, t2)
    | (.ok fk, t2) =>
      match factorial t2 (n - k) with
      | (.error e, t3) => (.error e, t3)
      | (.ok fnk, t3) => (.ok (((1 : Rat) / 2 + fn / fk / fnk).floor : Rat), t3)

/-- `n > 170` (after `fix:` 3be6423): `m = min(k, n-k)`, `result = 1`, and for `i = 1..m`
    `factor = n - m + i`, `g = gcd(factor, i)` (the Euclid loop `t = a % b; a = b; b = t` of the code is `Nat.gcd`),
    `result = result / (i / g) * (factor / g)`. -/
def binomProductStep (n m : Nat) (r : Rat) (j : Nat) : Rat :=
  let i := j + 1
  let f := n - m + i
  let g := Nat.gcd f i
  r / ((i / g : Nat) : Rat) * ((f / g : Nat) : Rat)

def binomProduct (n k : Nat) : Rat :=
  let m := min k (n - k)
  (List.range m).foldl (binomProductStep n m) 1

/-- `Binomial_Coefficient` as coded after `fix:` 2890841: the product path for every `n`; the memo table is not touched -/
def binomial (t : Tbl) (n k : Int) : Except Err Rat × Tbl :=
  if k < 0 ∨ n < 0 then (.error .diag, t)
  else if n < k then (.ok 0, t)
  else (.ok (binomProduct n.toNat k.toNat), t)

/-- the form before `fix:` 2890841: the floor formula through three factorials for `n ≤ 170` -/
def binomialFactorial (t : Tbl) (n k : Int) : Except Err Rat × Tbl :=
  if k < 0 ∨ n < 0 then (.error .diag, t)
  else if n < k then (.ok 0, t)
  else if n > 170 then (.ok (binomProduct n.toNat k.toNat), t)
  else binomialSmall t n.toNat k.toNat

/-! ## GammaLn: Lanczos -/

/-- the numeric literals of `GammaLn`, `GammaQ`, `GammaQint`, `Inv_GammaP` and the bound of `Factorial` are those of the
    current source: `LpModel/C06/Constants.lean` (namespace `K`) is regenerated from src/Special_Functions.cpp before every
    build (translators/constants.py, DESIGN.md §4.5) -/
def cof : List Rat := K.cof.take K.lanczosTerms

def lanczos0 : Rat := K.lanczos0
def sqrt2pi : Rat := K.sqrt2pi

/-- `for j<14: sum += cof[j] / ++y` starting from `y = x` -/
def lanczosSum (x : Rat) : Rat :=
  (cof.foldl (fun (p : Rat × Rat) c => (p.1 + c / (p.2 + 1), p.2 + 1)) (lanczos0, x)).1

/-- the value `GammaLn` returns for `x > 0`, given the Lanczos sum `s` -/
def gammaLnGlue (T : Transc) (x s : Rat) : Rat :=
  let tmp := x + K.tmpNum / K.tmpDen
  ((x + K.lnHalf) * T.log tmp - tmp) + (T.log (sqrt2pi * s) - T.log x)

/-- the form before `fix:` 61f965b: `log(c * sum / x)` (the quotient overflowed in double for `x < 4.6e-307`) -/
def gammaLnGlueQuot (T : Transc) (x s : Rat) : Rat :=
  let tmp := x + K.tmpNum / K.tmpDen
  ((x + K.lnHalf) * T.log tmp - tmp) + T.log (sqrt2pi * s / x)

def gammaLn (T : Transc) (x : Rat) : Except Err Rat :=
  if x ≤ 0 then .error .diag else .ok (gammaLnGlue T x (lanczosSum x))

/-- `Gamma(x)`: own guard `x <= 0`, then `std::tgamma(x)` (after `fix:` a972610) -/
def gamma (T : Transc) (x : Rat) : Except Err Rat :=
  if x ≤ 0 then .error .diag else .ok (T.tgamma x)

/-- the pre-fix form `exp(GammaLn(x))` -/
def gammaViaLn (T : Transc) (x : Rat) : Except Err Rat := (gammaLn T x).map T.exp

/-! ## GammaPser: the series -/

structure PS where
  ap : Rat
  del : Rat
  sum : Rat
  deriving Repr

def pserInit (a : Rat) : PS := ⟨a, 1 / a, 1 / a⟩

/-- `ap++; del *= x / ap; sum += del;` -/
def pserStep (x : Rat) (s : PS) : PS :=
  let ap := s.ap + 1
  let del := s.del * (x / ap)
  ⟨ap, del, s.sum + del⟩

def pserIter (x a : Rat) : Nat → PS
  | 0 => pserInit a
  | n + 1 => pserStep x (pserIter x a n)

/-- `while(fabs(del) > fabs(sum) * eps)`; returns the final state and the number of passes -/
def pserLoop (eps x : Rat) : Nat → PS → Nat → Option (PS × Nat)
  | 0, _, _ => none
  | f + 1, s, n => if rabs s.del > rabs s.sum * eps then pserLoop eps x f (pserStep x s) (n + 1) else some (s, n)

/-- `exp(-x + a * log(x) - gln)` : the common prefactor of the series and the continued fraction -/
def prefactor (T : Transc) (x a gln : Rat) : Rat := T.exp (-x + a * T.log x - gln)

def gammaPser (T : Transc) (eps : Rat) (fuel : Nat) (x a : Rat) : Except Err Rat :=
  match gammaLn T a with
  | .error e => .error e
  | .ok gln =>
    match pserLoop eps x fuel (pserInit a) 0 with
    | none => .error .fuel
    | some (s, _) => .ok (s.sum * prefactor T x a gln)

/-! ## GammaQcf: modified Lentz with the term index as explicit state -/

structure LS where
  b : Rat
  c : Rat
  d : Rat
  h : Rat
  del : Rat
  i : Nat
  deriving Repr

def lentzInit (fpmin x a : Rat) : LS :=
  let b := x + 1 - a
  ⟨b, 1 / fpmin, 1 / b, 1 / b, 0, 1⟩

/-- `if(fabs(v) < FPMIN) v = FPMIN;` -/
def clamp (fpmin v : Rat) : Rat := if rabs v < fpmin then fpmin else v

/-- the coefficient computed in the loop body: `an = -1.0 * i * (i - a)` -/
def coefA (a : Rat) (i : Nat) : Rat := -1 * (i : Rat) * ((i : Rat) - a)

def lentzBody (fpmin a : Rat) (s : LS) (inext : Nat) : LS :=
  let an := coefA a s.i
  let b := s.b + 2
  let d := clamp fpmin (an * s.d + b)
  let c := clamp fpmin (b + an / s.c)
  let d := 1 / d
  let del := d * c
  ⟨b, c, d, s.h * del, del, inext⟩

/-- the loop body as coded now (after `fix:` cba3104): `i++` at the end -/
def lentzStep (fpmin a : Rat) (s : LS) : LS := lentzBody fpmin a s (s.i + 1)

/-- the loop body of the pre-fix code: the index is never advanced -/
def lentzStepFrozen (fpmin a : Rat) (s : LS) : LS := lentzBody fpmin a s s.i

def lentzIter (fpmin x a : Rat) : Nat → LS
  | 0 => lentzInit fpmin x a
  | n + 1 => lentzStep fpmin a (lentzIter fpmin x a n)

def lentzIterFrozen (fpmin x a : Rat) : Nat → LS
  | 0 => lentzInit fpmin x a
  | n + 1 => lentzStepFrozen fpmin a (lentzIterFrozen fpmin x a n)

/-- `while(fabs(del - 1.0) > eps)` -/
def lentzLoop (eps fpmin a : Rat) : Nat → LS → Nat → Option (LS × Nat)
  | 0, _, _ => none
  | f + 1, s, n => if rabs (s.del - 1) > eps then lentzLoop eps fpmin a f (lentzStep fpmin a s) (n + 1) else some (s, n)

def gammaQcf (T : Transc) (eps fpmin : Rat) (fuel : Nat) (x a : Rat) : Except Err Rat :=
  match gammaLn T a with
  | .error e => .error e
  | .ok gln =>
    match lentzLoop eps fpmin a fuel (lentzInit fpmin x a) 0 with
    | none => .error .fuel
    | some (s, _) => .ok (prefactor T x a gln * s.h)

/-! ## GammaQint: quadrature branch (a > 100) -/

inductive QintBranch where
  | above | below | integrate
  deriving DecidableEq, Repr

/-- `tMin`, `tMax` and the branch, given `sq = sqrt(a)` -/
def qintBranch (sq x a : Rat) : QintBranch × Rat × Rat :=
  let tPeak := a - K.qintPeak
  let tMin := rmax 0 (tPeak - K.qintN * sq)      -- N = 13 after `fix:` 3e583ff
  let tMax := tPeak + K.qintN * sq
  (if x > tMax then .above else if x < tMin then .below else .integrate, tMin, tMax)

/-- the panel loop (after `fix:` f69671d): `t_left = tMin; while(t_left < x) { t_right = min(x, t_left + sqrt(a));
    gammaP += Integrate(integrand, t_left, t_right, Find_Epsilon(…,1e-5)); t_left = t_right; }`.
    `integ l r` stands for the adaptive-Simpson value on one panel (external, C03). -/
def qintPanels (sq : Rat) (integ : Rat → Rat → Rat) (x : Rat) : Nat → Rat → Rat → Option Rat
  | 0, _, _ => none
  | f + 1, tl, acc =>
    if tl < x then
      let tr := rmin x (tl + sq)
      qintPanels sq integ x f tr (acc + integ tl tr)
    else some acc

def gammaQint (T : Transc) (integ : Rat → Rat → Rat) (fuel : Nat) (x a : Rat) : Except Err Rat :=
  match gammaLn T a with
  | .error e => .error e
  | .ok _ =>
    match qintBranch (T.sqrt a) x a with
    | (.above, _, _) => .ok (1 - 1)
    | (.below, _, _) => .ok (1 - 0)
    | (.integrate, tMin, _) =>
      match qintPanels (T.sqrt a) integ x fuel tMin 0 with
      | none => .error .fuel
      | some p => .ok (1 - p)

/-! ## GammaQ / GammaP / incomplete gamma: branch selection -/

inductive Branch where
  | zero | quad | series | cf
  deriving DecidableEq, Repr

def gammaQBranch (x a : Rat) : Except Err Branch :=
  if x < 0 ∨ a ≤ 0 then .error .diag
  else if x = 0 then .ok .zero
  else if a > K.aMax then .ok .quad
  else if x < a + K.seriesSwitch then .ok .series
  else .ok .cf

/-- the three evaluators GammaQ dispatches to -/
structure Parts where
  pser : Rat → Rat → Except Err Rat
  qcf : Rat → Rat → Except Err Rat
  qint : Rat → Rat → Except Err Rat

/-- `std::min(1.0, std::max(0.0, Q))` (after `fix:` 317093f) -/
def clamp01 (q : Rat) : Rat := rmin 1 (rmax 0 q)

/-- the three branches before the clamp -/
def gammaQRaw (E : Parts) (x a : Rat) : Except Err Rat :=
  match gammaQBranch x a with
  | .error e => .error e
  | .ok .zero => .ok 1
  | .ok .quad => E.qint x a
  | .ok .series => (E.pser x a).map (fun p => 1 - p)
  | .ok .cf => E.qcf x a

/-- `GammaQ`: `x == 0` returns 1 directly, every other branch is clamped to [0,1] -/
def gammaQ (E : Parts) (x a : Rat) : Except Err Rat :=
  match gammaQBranch x a with
  | .ok .zero => .ok 1
  | _ => (gammaQRaw E x a).map clamp01

def gammaP (E : Parts) (x a : Rat) : Except Err Rat := (gammaQ E x a).map (fun q => 1 - q)

/-- the evaluators as coded, from the glue and the loop parameters -/
def partsOf (T : Transc) (integ : Rat → Rat → Rat → Rat) (eps fpmin : Rat) (fuel : Nat) : Parts :=
  ⟨gammaPser T eps fuel, gammaQcf T eps fpmin fuel, fun x a => gammaQint T (integ a) fuel x a⟩

/-- `Gamma(s) * fraction` as fixprop-C06-5 forms it: a zero fraction gives 0 before `Gamma(s)` is looked at
    (in double: no `inf * 0`; where `Gamma(s)` is infinite the product is `exp(GammaLn(s) + log(fraction))`, the same real number) -/
def gammaTimesFraction (g fraction : Rat) : Rat := if fraction = 0 then 0 else g * fraction

/-- `Gamma(s) * GammaQ(x, s)` -/
def upperGamma (T : Transc) (E : Parts) (x s : Rat) : Except Err Rat :=
  match gamma T s, gammaQ E x s with
  | .ok g, .ok q => .ok (gammaTimesFraction g q)      -- `fix:` 242fd82
  | .error e, _ => .error e
  | _, .error e => .error e

def lowerGamma (T : Transc) (E : Parts) (x s : Rat) : Except Err Rat :=
  match gamma T s, gammaP E x s with
  | .ok g, .ok p => .ok (gammaTimesFraction g p)
  | .error e, _ => .error e
  | _, .error e => .error e

/-! ## Inv_GammaP: guards, the two initial guesses, Halley's iteration -/

def invGuess (T : Transc) (p a : Rat) : Rat :=
  if a > 1 then
    let pp := if p < 1 / 2 then p else 1 - p
    let t := T.sqrt (-2 * T.log pp)
    let x := (K.invG1a + t * K.invG1b) / (1 + t * (K.invG1c + t * K.invG1d)) - t
    let x := if p < 1 / 2 then -x else x
    rmax K.invG1floor (a * T.pow (1 - 1 / (K.invG1nine * a) - x / (K.invG1three * T.sqrt a)) K.invG1cube)
  else
    let t := 1 - a * (K.invG2a + a * K.invG2b)
    if p < t then T.pow (p / t) (1 / a) else 1 - T.log (1 - (p - t) / (1 - t))

/-- the density `t` computed at the head of a pass of the Halley loop -/
def halleyDensity (T : Transc) (a gln x : Rat) : Rat :=
  let a1 := a - 1
  let lna1 := T.log a1
  let afac := T.exp (a1 * (lna1 - 1) - gln)
  if a > 1 then afac * T.exp (-(x - a1) + a1 * (T.log x - lna1)) else T.exp (-x + a1 * T.log x - gln)

/-- the rest of the pass from a positive `x` with density `t ≠ 0`: the new `x` and the step -/
def halleyStep (px p a t : Rat) (x : Rat) : Rat × Rat :=
  let err := px - p
  let u := err / t
  let t := u / (1 - K.halleyHalf * rmin K.halleyCap (u * ((a - 1) / x - 1)))
  let x1 := x - t
  let x1 := if x1 ≤ 0 then K.halleyBack * (x1 + t) else x1
  (x1, t)

/-- `for(i<12)` (`K.invIter`): `P` is the library's own `GammaP`; after `fix:` 3ba3162 the loop stops when the
    density underflows (`if(t == 0.0) break;`) -/
def halley (T : Transc) (P : Rat → Rat → Except Err Rat) (p a gln : Rat) : Nat → Rat → Except Err Rat
  | 0, x => .ok x
  | f + 1, x =>
    if x ≤ 0 then .ok 0
    else
      match P x a with
      | .error e => .error e
      | .ok px =>
        let t := halleyDensity T a gln x
        if t = 0 then .ok x
        else
          let (x1, t) := halleyStep px p a t x
          if rabs t < K.invEps * x1 then .ok x1 else halley T P p a gln f x1

inductive InvBranch where
  | top | bottom | iterate
  deriving DecidableEq, Repr

def invBranch (p a : Rat) : Except Err InvBranch :=
  if a ≤ 0 then .error .diag
  else if p < 0 ∨ p > 1 then .error .diag      -- `fix:` d65f15f: p is not a probability
  else if p ≥ 1 then .ok .top
  else if p ≤ 0 then .ok .bottom
  else .ok .iterate

def invGammaP (T : Transc) (P : Rat → Rat → Except Err Rat) (p a : Rat) : Except Err Rat :=
  match invBranch p a with
  | .error e => .error e
  | .ok .top => .ok (rmax K.invTopFloor (a + K.invTopWidth * T.sqrt a))
  | .ok .bottom => .ok 0
  | .ok .iterate =>
    match gammaLn T a with
    | .error e => .error e
    | .ok gln => halley T P p a gln K.invIter (invGuess T p a)

def invGammaQ (T : Transc) (P : Rat → Rat → Except Err Rat) (q a : Rat) : Except Err Rat :=
  if q < 0 ∨ q > 1 then .error .diag             -- `fix:` d65f15f: tested on q itself (1 - q rounds)
  else invGammaP T P (1 - q) a

/-! ## Mirrors of the repairs proposed by the second audit (fixprop-C06-5, C06-6) -/

/-- `Binomial_Coefficient` with the product path for every `n` (fixprop-C06-6): the memo table is not touched any more -/
def binomialAll (n k : Int) : Except Err Rat :=
  if k < 0 ∨ n < 0 then .error .diag
  else if n < k then .ok 0
  else .ok (binomProduct n.toNat k.toNat)

end Lp.C06
