import LpModel.C20.Units
import LpModel.C20.Generated
