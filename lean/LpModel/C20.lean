import LpModel.C20.Units
import LpModel.C20.Generated
import LpModel.C20.IO
import LpModel.C20.Time
import LpModel.C20.Text
import LpModel.C20.Chunk
import LpModel.C20.Ragged
import LpModel.C20.Box
